import CattrsModel.Conv.StructDetailed
/-!
# C05 — fault model, paths of an error tree, `transform_error`

* `Seg` / `Path`: `.name` for attributes, `[index]` / `[key]` for iterables and mappings — the path
  language of `cattrs.transform_error`.
* `Fault`: one local edit of a payload at a position: replace the sub-payload by a value its type
  rejects (`badLeaf`), delete a required key (`missingKey`), add keys (`extraKeys`), append elements to
  a heterogeneous tuple (`arity`).  `inject o fs` applies a list of faults; every child of a node
  receives the faults addressed below it (`sub`).
* `app w cfg T o fs`: the faults are *independent and applicable* to the valid payload `o` at type `T`
  (executable; it walks type and payload like the hooks do and consumes ("peels") the faults child by
  child, so that nothing may be left over, no fault is under a deleted key, no two faults sit at the
  same place, and a `badLeaf` value really is rejected with a plain exception).
* `paths`, `leaves`, `shapeOK` read an error tree `Err` (produced by `stD`); `transformError` is a
  line-by-line model of `cattrs/v.py::transform_error` + `errors.py::group_exceptions`.
-/
namespace CattrsModel
namespace Paths

inductive Seg where
  | attr (n : String)      -- `AttributeValidationNote.name`
  | idx (k : Obj)          -- `IterableValidationNote.index` (an int for sequences, the key for mappings)
  deriving DecidableEq, Repr, Inhabited

abbrev Path := List Seg

inductive Fault where
  | badLeaf (p : Path) (v : Obj)
  | missingKey (p : Path) (k : String)
  | extraKeys (p : Path) (kvs : List (Obj × Obj))
  | arity (p : Path) (xs : List Obj)
  deriving Repr, Inhabited

def Fault.path : Fault → Path
  | .badLeaf p _ => p
  | .missingKey p _ => p
  | .extraKeys p _ => p
  | .arity p _ => p

def Fault.withPath : Fault → Path → Fault
  | .badLeaf _ v, p => .badLeaf p v
  | .missingKey _ k, p => .missingKey p k
  | .extraKeys _ kvs, p => .extraKeys p kvs
  | .arity _ xs, p => .arity p xs

/-- where the fault must be reported: a missing key under its attribute name, everything else at
the position itself -/
def Fault.reportPath : Fault → Path
  | .badLeaf p _ => p
  | .missingKey p k => p ++ [.attr k]
  | .extraKeys p _ => p
  | .arity p _ => p

/-- does the path segment address the child stored under key `k` (list elements: `k = int i`)? -/
def Seg.matches : Seg → Obj → Bool
  | .attr n, k => k == .str n
  | .idx a, k => a == k

def Fault.under (k : Obj) (f : Fault) : Option Fault :=
  match f.path with
  | s :: r => if s.matches k then some (f.withPath r) else Option.none
  | [] => Option.none

def Fault.notUnder (k : Obj) (f : Fault) : Bool :=
  match f.path with
  | s :: _ => !s.matches k
  | [] => true

/-- the faults addressed to the child under key `k`, re-rooted at that child -/
def sub (k : Obj) (fs : List Fault) : List Fault := fs.filterMap (Fault.under k)
/-- the others -/
def rest (k : Obj) (fs : List Fault) : List Fault := fs.filter (Fault.notUnder k)

def badHere : List Fault → Option Obj
  | [] => Option.none
  | .badLeaf [] v :: _ => some v
  | _ :: fs => badHere fs

def isMissingHere (n : String) : Fault → Bool
  | .missingKey [] k => k == n
  | _ => false

/-- is the entry stored under key `k` deleted by a fault at this node? -/
def missingHere (fs : List Fault) : Obj → Bool
  | .str n => fs.any (isMissingHere n)
  | _ => false

def extraHere : List Fault → List (Obj × Obj)
  | [] => []
  | .extraKeys [] kvs :: fs => kvs ++ extraHere fs
  | _ :: fs => extraHere fs

def arityHere : List Fault → List Obj
  | [] => []
  | .arity [] xs :: fs => xs ++ arityHere fs
  | _ :: fs => arityHere fs

mutual
/-- apply the faults to a payload -/
def inject : Obj → List Fault → Obj
  | .coll ck xs, fs =>
      match badHere fs with
      | some v => v
      | Option.none => .coll ck (injectL xs 0 fs ++ arityHere fs)
  | .dict kvs, fs =>
      match badHere fs with
      | some v => v
      | Option.none => .dict (injectKV kvs fs ++ extraHere fs)
  | o, fs =>
      match badHere fs with
      | some v => v
      | Option.none => o
termination_by structural o => o
def injectL : List Obj → Nat → List Fault → List Obj
  | [], _, _ => []
  | x :: xs, ix, fs => inject x (sub (.int ix) fs) :: injectL xs (ix + 1) fs
termination_by structural xs => xs
def injectKV : List (Obj × Obj) → List Fault → List (Obj × Obj)
  | [], _ => []
  | (k, v) :: rest, fs =>
      if missingHere fs k then injectKV rest fs else (k, inject v (sub k fs)) :: injectKV rest fs
termination_by structural kvs => kvs
end

/-! ### independent + applicable -/

def soleBad : List Fault → Option Obj
  | [.badLeaf [] v] => some v
  | _ => Option.none

def isLeafErr : Res → Bool
  | .error .leaf => true
  | _ => false

def headIsIdx (f : Fault) : Bool := match f.path with | .attr _ :: _ => false | _ => true
def headIsAttr (f : Fault) : Bool := match f.path with | .idx _ :: _ => false | _ => true

def nodupKeys : List Obj → Bool
  | [] => true
  | k :: ks => !ks.contains k && nodupKeys ks

/-- what may be left at a heterogeneous tuple after all element faults are consumed -/
def arityOK : List Fault → Bool
  | [] => true
  | [.arity [] xs] => !xs.isEmpty
  | _ => false

/-- what may be left at a class / TypedDict node after all field faults are consumed -/
def extraOK (cfg : Cfg) (allowed : List Obj) (kvs : List (Obj × Obj)) : List Fault → Bool
  | [] => true
  | [.extraKeys [] ekvs] =>
      cfg.forbid && !ekvs.isEmpty && nodupPy (keysOf ekvs)
        && (keysOf ekvs).all (fun k => !Obj.memPy k allowed && !Obj.memPy k (keysOf kvs))
  | _ => false

def dropMissing (n : String) (fs : List Fault) : List Fault := fs.filter (fun g => !isMissingHere n g)

mutual
def app (w : World) (cfg : Cfg) (T : Ty) (o : Obj) (fs : List Fault) : Bool :=
  if fs.isEmpty then true else
  match soleBad fs with
  | some v => isLeafErr (stD w cfg T v)
  | Option.none =>
    (badHere fs).isNone &&
    match T, o with
    | .coll _ t, .coll _ xs => !t.isAny && appL w cfg t 0 xs fs
    | .tupleHet ts, .coll _ xs => appT w cfg 0 ts xs fs
    -- a NamedTuple position: the heterogeneous tuple of the field types (bad items by index, wrong arity)
    | .nt c, .coll _ xs => w.isNT c && appT w cfg 0 (w.ntTys c) xs fs
    | .map _ _ vt, .dict kvs => fs.all headIsIdx && nodupKeys (keysOf kvs) && appKV w cfg vt kvs fs
    | .opt t, o => o != Obj.none && app w cfg t o fs
    | .wrap _ t, o => app w cfg t o fs
    | .cls c, .dict kvs =>
        cfg.gen && !cfg.tupleStrat && fs.all headIsAttr
          && appFields w cfg (fieldNames (initFields (w.fields c))) (w.fields c) kvs fs
    | .td c, .dict kvs =>
        cfg.gen && fs.all headIsAttr && appTD w cfg (fieldNames (w.fields c)) (w.fields c) kvs fs
    | _, _ => false
termination_by (sizeOf o, sizeOf T)
def appL (w : World) (cfg : Cfg) (t : Ty) (ix : Nat) : List Obj → List Fault → Bool
  | [], fs => fs.isEmpty
  | x :: xs, fs => app w cfg t x (sub (.int ix) fs) && appL w cfg t (ix + 1) xs (rest (.int ix) fs)
termination_by xs => (sizeOf xs, sizeOf t)
def appT (w : World) (cfg : Cfg) (ix : Nat) : List Ty → List Obj → List Fault → Bool
  | [], [], fs => arityOK fs
  | t :: ts, x :: xs, fs => app w cfg t x (sub (.int ix) fs) && appT w cfg (ix + 1) ts xs (rest (.int ix) fs)
  | _, _, _ => false
termination_by ts xs => (sizeOf xs, sizeOf ts)
def appKV (w : World) (cfg : Cfg) (vt : Ty) : List (Obj × Obj) → List Fault → Bool
  | [], fs => fs.isEmpty
  | (k, v) :: kvs, fs => app w cfg vt v (sub k fs) && appKV w cfg vt kvs (rest k fs)
termination_by kvs => (sizeOf kvs, sizeOf vt)
def appFields (w : World) (cfg : Cfg) (allowed : List Obj) : List Field → (kvs : List (Obj × Obj)) → List Fault → Bool
  | [], kvs, fs => extraOK cfg allowed kvs fs
  | f :: fds, kvs, fs =>
    let fx := sub f.key fs
    let miss := fs.any (isMissingHere f.name)
    (if !f.init then fx.isEmpty && !miss
     else
      match h : dlookup kvs f.key with
      | Option.none => fx.isEmpty && !miss
      | some x =>
        if miss then fx.isEmpty && f.dflt.value?.isNone && (fs.filter (isMissingHere f.name)).length == 1
        else match f.ty with
          | Option.none => fx.isEmpty
          | some t => app w cfg t x fx)
    && appFields w cfg allowed fds kvs (dropMissing f.name (rest f.key fs))
termination_by fds kvs => (sizeOf kvs, fds.length)
decreasing_by
  all_goals first
    | decreasing_tactic
    | (apply Prod.Lex.left; exact dlookup_lt h)
def appTD (w : World) (cfg : Cfg) (allowed : List Obj) : List Field → (kvs : List (Obj × Obj)) → List Fault → Bool
  | [], kvs, fs => extraOK cfg allowed kvs fs
  | f :: fds, kvs, fs =>
    let fx := sub f.key fs
    let miss := fs.any (isMissingHere f.name)
    (match h : dlookup kvs f.key with
      | Option.none => fx.isEmpty && !miss
      | some x =>
        if miss then fx.isEmpty && f.required && (fs.filter (isMissingHere f.name)).length == 1
        else match f.ty with
          | Option.none => fx.isEmpty
          | some t => app w cfg t x fx)
    && appTD w cfg allowed fds kvs (dropMissing f.name (rest f.key fs))
termination_by fds kvs => (sizeOf kvs, fds.length)
decreasing_by
  all_goals first
    | decreasing_tactic
    | (apply Prod.Lex.left; exact dlookup_lt h)
end

/-! ### reading an error tree -/

mutual
/-- the path of every message `transform_error` produces, in tree order: the notes from the root to
a leaf; a child without a note is reported at its group's own path (and not descended into) -/
def paths : Err → List Path
  | .leaf => [[]]
  | .extra _ => [[]]
  | .cve es => pathsC es
  | .ive es => pathsI es
termination_by structural e => e
def pathsC : List (Option String × Err) → List Path
  | [] => []
  | (some n, e) :: es => (paths e).map (Seg.attr n :: ·) ++ pathsC es
  | (Option.none, _) :: es => [] :: pathsC es
termination_by structural es => es
def pathsI : List (Option Obj × Err) → List Path
  | [] => []
  | (some k, e) :: es => (paths e).map (Seg.idx k :: ·) ++ pathsI es
  | (Option.none, _) :: es => [] :: pathsI es
termination_by structural es => es
end

mutual
/-- number of leaf errors (a group that carries no note counts as one: nothing below it is reported) -/
def leaves : Err → Nat
  | .leaf => 1
  | .extra _ => 1
  | .cve es => leavesC es
  | .ive es => leavesI es
termination_by structural e => e
def leavesC : List (Option String × Err) → Nat
  | [] => 0
  | (some _, e) :: es => leaves e + leavesC es
  | (Option.none, _) :: es => 1 + leavesC es
termination_by structural es => es
def leavesI : List (Option Obj × Err) → Nat
  | [] => 0
  | (some _, e) :: es => leaves e + leavesI es
  | (Option.none, _) :: es => 1 + leavesI es
termination_by structural es => es
end

def errIsLeaf : Err → Bool
  | .leaf => true
  | _ => false

def errIsLeafOrExtra : Err → Bool
  | .leaf => true
  | .extra _ => true
  | _ => false

def fieldNamed (fds : List Field) (n : String) : Option Field := fds.find? (fun f => f.name == n)

mutual
/-- every group has the kind of its position: class-level (`cve`) at class / TypedDict positions with
children noted by an attribute name of that class (or an un-noted plain / extra-keys error),
iterable-level (`ive`) at collection / tuple / mapping positions with children noted by index / key
(un-noted: only the arity error of a heterogeneous tuple); a plain leaf may stand anywhere -/
def shapeOK (w : World) : Ty → Err → Bool
  | _, .leaf => true
  | .opt t, e => shapeOK w t e
  | .wrap _ t, e => shapeOK w t e
  | .coll _ t, .ive es => shapeIColl w t es
  | .tupleHet ts, .ive es => shapeITup w ts es
  | .nt c, .ive es => shapeITup w (w.ntTys c) es
  | .map _ kt vt, .ive es => shapeIMap w kt vt es
  | .cls c, .cve es => shapeC w (w.fields c) es
  | .td c, .cve es => shapeC w (w.fields c) es
  | _, _ => false
termination_by t e => (sizeOf e, sizeOf t)
def shapeIColl (w : World) (t : Ty) : List (Option Obj × Err) → Bool
  | [] => true
  | (some (.int _), e) :: es => shapeOK w t e && shapeIColl w t es
  | _ :: _ => false
termination_by es => (sizeOf es, sizeOf t)
def shapeITup (w : World) (ts : List Ty) : List (Option Obj × Err) → Bool
  | [] => true
  | (some (.int i), e) :: es =>
      (match ts[i.toNat]? with
       | some t => 0 ≤ i && shapeOK w t e
       | Option.none => false) && shapeITup w ts es
  | (Option.none, e) :: es => errIsLeaf e && shapeITup w ts es
  | _ :: _ => false
termination_by es => (sizeOf es, sizeOf ts)
def shapeIMap (w : World) (kt vt : Ty) : List (Option Obj × Err) → Bool
  | [] => true
  | (some _, e) :: es => (shapeOK w vt e || shapeOK w kt e) && shapeIMap w kt vt es
  | _ :: _ => false
termination_by es => (sizeOf es, sizeOf kt + sizeOf vt)
def shapeC (w : World) (fds : List Field) : List (Option String × Err) → Bool
  | [] => true
  | (some n, e) :: es =>
      (match fieldNamed fds n with
       | some f => (match f.ty with
          | some t => shapeOK w t e
          | Option.none => errIsLeaf e)
       | Option.none => false) && shapeC w fds es
  | (Option.none, e) :: es => errIsLeafOrExtra e && shapeC w fds es
termination_by es => (sizeOf es, 0)
end

/-! ### `cattrs.transform_error` (v.py) with `group_exceptions` (errors.py) -/

/-- which branch of `format_exception` the message comes from, as far as the model distinguishes
exceptions (classes of ordinary leaf exceptions are not modelled) -/
inductive MsgKind where
  | leaf                      -- KeyError / ValueError / TypeError / ... : one of the "invalid ..." texts
  | extra (ks : List Obj)     -- ForbiddenExtraKeysError: "extra fields found (...)"
  | group                     -- an exception group met without a note: "unknown error (...)"
  deriving Repr, Inhabited

def fmtKind : Err → MsgKind
  | .leaf => .leaf
  | .extra ks => .extra ks
  | _ => .group

/-- `for exc in without: errors.append(f"{format_exception(exc, None)} @ {path}")` -/
def teWithout {α : Type} (path : Path) : List (Option α × Err) → List (Path × MsgKind)
  | [] => []
  | (some _, _) :: es => teWithout path es
  | (Option.none, e) :: es => (path, fmtKind e) :: teWithout path es

mutual
/-- `transform_error(exc, path)`.  `group_exceptions()` splits the sub-exceptions into those carrying a
note of the group's own note class (first such note wins; the model keeps at most one) and the others,
both in the order of `exc.exceptions`; the noted ones are reported first (recursively when they are
groups, otherwise `format_exception(exc, note.type) @ p` — for a non-group that is exactly what the
recursive call's last branch yields, the note's type only selects the wording), then the others. -/
def transformError : Err → Path → List (Path × MsgKind)
  | .ive es, path => teWithI es path ++ teWithout path es
  | .cve es, path => teWithC es path ++ teWithout path es
  | .leaf, path => [(path, .leaf)]
  | .extra ks, path => [(path, .extra ks)]
termination_by structural e => e
def teWithI : List (Option Obj × Err) → Path → List (Path × MsgKind)
  | [], _ => []
  | (some ix, e) :: es, path => transformError e (path ++ [Seg.idx ix]) ++ teWithI es path    -- p = f"{path}[{note.index!r}]"
  | (Option.none, _) :: es, path => teWithI es path
termination_by structural es => es
def teWithC : List (Option String × Err) → Path → List (Path × MsgKind)
  | [], _ => []
  | (some n, e) :: es, path => transformError e (path ++ [Seg.attr n]) ++ teWithC es path     -- p = f"{path}.{note.name}"
  | (Option.none, _) :: es, path => teWithC es path
termination_by structural es => es
end

/-- `f"{path}.{name}"` / `f"{path}[{index!r}]"` starting from `"$"` -/
def renderPath (p : Path) : String :=
  p.foldl (fun s seg => match seg with
    | .attr n => s ++ "." ++ n
    | .idx k => s ++ "[" ++ pyRepr k ++ "]") "$"

end Paths
end CattrsModel
