import CattrsModel.Paths.LemmasMain
/-!
# C05 lemmas, part 4: the per-attribute loops (attrs / dataclass template, TypedDict template)
-/
namespace CattrsModel
namespace Paths

variable (w : World) (cfg : Cfg)

/-! ### looking a field up in the injected payload -/

theorem dlookup_append (a b : List (Obj × Obj)) (k : Obj) :
    dlookup (a ++ b) k = (match dlookup a k with | some v => some v | Option.none => dlookup b k) := by
  induction a with
  | nil => simp [dlookup]
  | cons p a ih =>
    obtain ⟨k', v⟩ := p
    simp only [List.cons_append, dlookup]
    by_cases h : Obj.pyEq k' k = true
    · simp [h]
    · simp [h, ih]

theorem dlookup_injectKV_str (n : String) (fs : List Fault) : ∀ (kvs : List (Obj × Obj)),
    dlookup (injectKV kvs fs) (.str n) =
      if fs.any (isMissingHere n) then Option.none
      else (dlookup kvs (.str n)).map (fun x => inject x (sub (.str n) fs))
  | [] => by simp [injectKV, dlookup]
  | (k, v) :: kvs => by
    have ih := dlookup_injectKV_str n fs kvs
    by_cases hk : Obj.pyEq k (.str n) = true
    · have : k = .str n := pyEq_str_right.mp hk
      subst this
      by_cases hm : fs.any (isMissingHere n) = true
      · have hm' : missingHere fs (.str n) = true := by simpa [missingHere] using hm
        simp only [injectKV, hm', if_true, ih, hm]
      · have hm0 : fs.any (isMissingHere n) = false := by simpa using hm
        have hm' : missingHere fs (.str n) = false := by simp only [missingHere]; exact hm0
        simp only [injectKV, hm', Bool.false_eq_true, if_false, dlookup, hk, if_true, hm0, Option.map_some]
    · have hk' : Obj.pyEq k (.str n) = false := by simpa using hk
      by_cases hm : missingHere fs k = true
      · simp only [injectKV, hm, if_true, ih, dlookup, hk', Bool.false_eq_true, if_false]
      · have hm' : missingHere fs k = false := by simpa using hm
        simp only [injectKV, hm', Bool.false_eq_true, if_false, dlookup, hk', ih]

/-- what the hooks find under a field's key after injection (the extra keys never collide with a field) -/
theorem dlookup_injected (f : Field) (kvs ekvs : List (Obj × Obj)) (FS : List Fault)
    (hek : dlookup ekvs f.key = Option.none) :
    dlookup (injectKV kvs FS ++ ekvs) f.key =
      if FS.any (isMissingHere f.name) then Option.none
      else (dlookup kvs f.key).map (fun x => inject x (sub f.key FS)) := by
  rw [dlookup_append]
  have := dlookup_injectKV_str f.name FS kvs
  simp only [Field.key] at *
  rw [this]
  by_cases hm : FS.any (isMissingHere f.name) = true
  · simp [hm, hek]
  · have hm0 : FS.any (isMissingHere f.name) = false := by simpa using hm
    simp only [hm0, Bool.false_eq_true, if_false]
    cases dlookup kvs (Obj.str f.name) <;> simp [hek]

theorem sub_dropMissing (k : Obj) (n : String) (fs : List Fault) : sub k (dropMissing n fs) = sub k fs := by
  induction fs with
  | nil => rfl
  | cons f fs ih =>
    simp only [dropMissing, List.filter_cons]
    simp only [dropMissing] at ih
    by_cases hm : isMissingHere n f = true
    · have := isMissingHere_path hm; subst this
      simp only [hm, Bool.not_true, Bool.false_eq_true, if_false, sub, List.filterMap_cons]
      simp only [sub] at ih
      rw [ih]; simp [Fault.under, Fault.path]
    · have hm' : isMissingHere n f = false := by simpa using hm
      simp only [hm', Bool.not_false, if_true, sub, List.filterMap_cons]
      simp only [sub] at ih
      rw [ih]

theorem any_missing_dropMissing_ne {n m : String} (h : m ≠ n) (fs : List Fault) :
    (dropMissing n fs).any (isMissingHere m) = fs.any (isMissingHere m) := by
  induction fs with
  | nil => rfl
  | cons f fs ih =>
    simp only [dropMissing, List.filter_cons]
    simp only [dropMissing] at ih
    by_cases hm : isMissingHere n f = true
    · have := isMissingHere_path hm; subst this
      have : isMissingHere m (Fault.missingKey [] n) = false := by
        simp only [isMissingHere, beq_eq_false_iff_ne]; exact fun e => h e.symm
      simp only [hm, Bool.not_true, Bool.false_eq_true, if_false, List.any_cons, this, Bool.false_or, ih]
    · have hm' : isMissingHere n f = false := by simpa using hm
      simp only [hm', Bool.not_false, if_true, List.any_cons, ih]

theorem all_dropMissing {p : Fault → Bool} {n : String} {fs : List Fault} (h : fs.all p = true) :
    (dropMissing n fs).all p = true := by
  rw [List.all_eq_true] at h ⊢
  intro f hf; exact h f (List.mem_filter.mp hf).1

theorem attr_head (f : Field) (fs : List Fault) (hh : fs.all headIsAttr = true) :
    ∀ g ∈ fs, ∀ s r, g.path = s :: r → s.matches f.key = true → s = Seg.attr f.name := by
  intro g hg s r hp hm
  have := List.all_eq_true.mp hh g hg
  cases s with
  | idx a => simp [headIsAttr, hp] at this
  | attr n =>
    simp only [Seg.matches, Field.key, beq_iff_eq] at hm
    injection hm with hm
    rw [hm]

theorem str_key_ne {f g : Field} (h : g.name ≠ f.name) : g.key ≠ f.key := by
  intro e; simp only [Field.key] at e; injection e with e; exact h e

theorem fieldNamed_mem : ∀ (all : List Field), (all.map (·.name)).Nodup → ∀ f ∈ all, fieldNamed all f.name = some f
  | [], _, f, hf => by cases hf
  | g :: all, hnd, f, hf => by
    rw [List.map_cons, List.nodup_cons] at hnd
    unfold fieldNamed
    rw [List.find?_cons]
    rcases List.mem_cons.mp hf with e | hf'
    · subst e; simp
    · have hne : g.name ≠ f.name := fun e => hnd.1 (by rw [e]; exact List.mem_map_of_mem hf')
      have : (g.name == f.name) = false := by simpa using hne
      simp only [this]
      exact fieldNamed_mem all hnd.2 f hf'

/-- the faults that survive the peeling of one field, when that field consumed nothing -/
theorem perm_skip_field (f : Field) (fs : List Fault) (hh : fs.all headIsAttr = true)
    (hfx : sub f.key fs = []) (hm : fs.any (isMissingHere f.name) = false) :
    (fs.map rp).Perm ((dropMissing f.name (rest f.key fs)).map rp) := by
  have hpeel := perm_peel f.key (Seg.attr f.name) fs (attr_head f fs hh)
  rw [hfx] at hpeel
  rw [dropMissing_eq_self (by rw [any_missing_rest]; exact hm)]
  simpa using hpeel

/-! ### attrs / dataclass template -/

/-- the errors one attribute contributes to the class-level group -/
def fieldErr (f : Field) (kvs : List (Obj × Obj)) : List (Option String × Err) :=
  if !f.init then (match f.dflt.value? with | Option.none => [(Option.none, Err.leaf)] | some _ => [])
  else match dlookup kvs f.key with
    | Option.none => (match f.dflt.value? with | Option.none => [(some f.name, Err.leaf)] | some _ => [])
    | some x => (match hD w cfg f x with | .error e => [(some f.name, e)] | .ok _ => [])

theorem stDFields_snd (f : Field) (fds : List Field) (kvs : List (Obj × Obj)) :
    (stDFields w cfg (f :: fds) kvs).2 = fieldErr w cfg f kvs ++ (stDFields w cfg fds kvs).2 := by
  unfold fieldErr
  by_cases hi : f.init = true
  · cases hl : dlookup kvs f.key with
    | none =>
      rw [stDFields_absent w cfg hi hl]
      cases f.dflt.value? <;> simp [hi]
    | some x =>
      rw [stDFields_present w cfg hi hl]
      cases hh : hD w cfg f x <;> simp [hi, hh]
  · have hi' : f.init = false := by simpa using hi
    rw [stDFields_noinit w cfg hi']
    cases f.dflt.value? <;> simp [hi']

theorem appFields_cons (allowed : List Obj) (f : Field) (fds : List Field) (kvs : List (Obj × Obj)) (fs : List Fault) :
    appFields w cfg allowed (f :: fds) kvs fs =
      ((if !f.init then (sub f.key fs).isEmpty && !(fs.any (isMissingHere f.name))
        else match dlookup kvs f.key with
          | Option.none => (sub f.key fs).isEmpty && !(fs.any (isMissingHere f.name))
          | some x =>
            if fs.any (isMissingHere f.name) then
              (sub f.key fs).isEmpty && f.dflt.value?.isNone && (fs.filter (isMissingHere f.name)).length == 1
            else match f.ty with
              | Option.none => (sub f.key fs).isEmpty
              | some t => app w cfg t x (sub f.key fs))
       && appFields w cfg allowed fds kvs (dropMissing f.name (rest f.key fs))) := by
  rw [appFields]
  by_cases hi : f.init = true
  · simp only [hi, Bool.not_true, Bool.false_eq_true, if_false]
    split <;> rename_i h <;> simp only [h] <;> rfl
  · have hi' : f.init = false := by simpa using hi
    simp only [hi', Bool.not_false, if_true]

theorem appFields_end (allowed : List Obj) (kvs : List (Obj × Obj)) : ∀ (fds : List Field) (fs : List Fault),
    appFields w cfg allowed fds kvs fs = true →
    ∃ fe, extraOK cfg allowed kvs fe = true ∧ extraHere fe = extraHere fs
  | [], fs, h => by rw [appFields] at h; exact ⟨fs, h, rfl⟩
  | f :: fds, fs, h => by
    rw [appFields_cons, Bool.and_eq_true] at h
    obtain ⟨fe, h1, h2⟩ := appFields_end allowed kvs fds _ h.2
    exact ⟨fe, h1, by rw [h2, extraHere_dropMissing, extraHere_rest]⟩

theorem hD_untyped {f : Field} (h : f.ty = Option.none) (x : Obj) : hD w cfg f x = .ok x := by
  unfold hD; rw [h]

theorem hD_typed {f : Field} {t : Ty} (h : f.ty = some t) (x : Obj) : hD w cfg f x = stD w cfg t x := by
  unfold hD; rw [h]

theorem stDFields_good (allowed : List Obj) (all : List Field) (hnd : (all.map (·.name)).Nodup)
    (kvs ekvs : List (Obj × Obj)) (FS : List Fault)
    (hek : ∀ f ∈ all, f.init = true → dlookup ekvs f.key = Option.none) :
    ∀ (fds : List Field) (fs : List Fault),
    (∀ f ∈ fds, f ∈ all) → (fds.map (·.name)).Nodup →
    (∀ f ∈ fds, sub f.key fs = sub f.key FS ∧ fs.any (isMissingHere f.name) = FS.any (isMissingHere f.name)) →
    (∀ f ∈ fds, ∀ x t, dlookup kvs f.key = some x → f.ty = some t → ChildIH w cfg t x) →
    (stDFields w cfg fds kvs).2 = [] →
    fs.all headIsAttr = true →
    appFields w cfg allowed fds kvs fs = true →
    ∃ fe, extraOK cfg allowed kvs fe = true ∧ extraHere fe = extraHere fs ∧
      shapeC w all (stDFields w cfg fds (injectKV kvs FS ++ ekvs)).2 = true ∧
      (fs.map rp).Perm (pathsC (stDFields w cfg fds (injectKV kvs FS ++ ekvs)).2 ++ fe.map rp)
  | [], fs, _, _, _, _, _, _, h => by
    rw [appFields] at h
    exact ⟨fs, h, rfl, by simp [stDFields, shapeC], by simp [stDFields, pathsC]⟩
  | f :: fds, fs, hsub, hnd', hinv, H, h0, hattr, h => by
    rw [appFields_cons, Bool.and_eq_true] at h
    obtain ⟨hx, hr⟩ := h
    rw [stDFields_snd, List.append_eq_nil_iff] at h0
    obtain ⟨h0x, h0r⟩ := h0
    rw [List.map_cons, List.nodup_cons] at hnd'
    have hfall : f ∈ all := hsub f (by simp)
    -- the invariant for the remaining fields
    have hinv' : ∀ g ∈ fds, sub g.key (dropMissing f.name (rest f.key fs)) = sub g.key FS ∧
        (dropMissing f.name (rest f.key fs)).any (isMissingHere g.name) = FS.any (isMissingHere g.name) := by
      intro g hg
      have hne : g.name ≠ f.name := fun e => hnd'.1 (by rw [← e]; exact List.mem_map_of_mem hg)
      have := hinv g (by simp [hg])
      rw [sub_dropMissing, sub_rest_ne (str_key_ne hne), any_missing_dropMissing_ne hne, any_missing_rest]
      exact this
    obtain ⟨fe, hfe, hfx, ihs, ihp⟩ := stDFields_good allowed all hnd kvs ekvs FS hek fds _
      (fun g hg => hsub g (by simp [hg])) hnd'.2 hinv' (fun g hg => H g (by simp [hg])) h0r
      (all_dropMissing (all_rest hattr)) hr
    refine ⟨fe, hfe, by rw [hfx, extraHere_dropMissing, extraHere_rest], ?_⟩
    rw [stDFields_snd]
    obtain ⟨hsubeq, hmisseq⟩ := hinv f (by simp)
    -- the head field contributes nothing and consumes nothing
    have skip : fieldErr w cfg f (injectKV kvs FS ++ ekvs) = [] → sub f.key fs = [] →
        fs.any (isMissingHere f.name) = false →
        shapeC w all (fieldErr w cfg f (injectKV kvs FS ++ ekvs) ++ (stDFields w cfg fds (injectKV kvs FS ++ ekvs)).2) = true ∧
        (fs.map rp).Perm (pathsC (fieldErr w cfg f (injectKV kvs FS ++ ekvs) ++ (stDFields w cfg fds (injectKV kvs FS ++ ekvs)).2) ++ fe.map rp) := by
      intro he hfx0 hm0
      rw [he]
      exact ⟨by simpa using ihs, by simpa using (perm_skip_field f fs hattr hfx0 hm0).trans ihp⟩
    by_cases hi : f.init = true
    · simp only [hi, Bool.not_true, Bool.false_eq_true, if_false] at hx
      have hlk := dlookup_injected f kvs ekvs FS (hek f hfall hi)
      cases hl : dlookup kvs f.key with
      | none =>
        simp only [hl, Bool.and_eq_true, List.isEmpty_iff, Bool.not_eq_true'] at hx
        apply skip _ hx.1 hx.2
        have hl' : dlookup (injectKV kvs FS ++ ekvs) f.key = Option.none := by
          rw [hlk, hl]; simp
        unfold fieldErr at h0x ⊢
        simp only [hi, Bool.not_true, Bool.false_eq_true, if_false, hl, hl'] at h0x ⊢
        exact h0x
      | some x =>
        simp only [hl] at hx
        by_cases hm : fs.any (isMissingHere f.name) = true
        · -- the key was deleted: one error, noted with the attribute's name
          simp only [hm, if_true, Bool.and_eq_true, List.isEmpty_iff, Option.isNone_iff_eq_none, beq_iff_eq] at hx
          obtain ⟨⟨hfx0, hdn⟩, hcnt⟩ := hx
          have hl' : dlookup (injectKV kvs FS ++ ekvs) f.key = Option.none := by
            rw [hlk, ← hmisseq, hm]; simp
          have he : fieldErr w cfg f (injectKV kvs FS ++ ekvs) = [(some f.name, Err.leaf)] := by
            unfold fieldErr
            simp only [hi, Bool.not_true, Bool.false_eq_true, if_false, hl', hdn]
          rw [he]
          have hsh : shapeC w all [(some f.name, Err.leaf)] = true := by
            simp only [shapeC, fieldNamed_mem all hnd f hfall, Bool.and_true]
            cases f.ty <;> simp [shapeOK_leaf, errIsLeaf]
          refine ⟨by rw [shapeC_append, hsh, ihs]; rfl, ?_⟩
          have hpeel := perm_peel f.key (Seg.attr f.name) fs (attr_head f fs hattr)
          rw [hfx0] at hpeel
          simp only [List.map_nil, List.nil_append] at hpeel
          have hdrop := perm_dropMissing f.name (rest f.key fs) (by rw [filter_missing_rest]; exact hcnt)
          have := hpeel.trans hdrop
          simp only [List.singleton_append, pathsC, paths, List.map_cons, List.map_nil, List.cons_append, List.nil_append]
          exact this.trans (List.Perm.cons _ ihp)
        · have hm0 : fs.any (isMissingHere f.name) = false := by simpa using hm
          simp only [hm0, Bool.false_eq_true, if_false] at hx
          have hl' : dlookup (injectKV kvs FS ++ ekvs) f.key = some (inject x (sub f.key fs)) := by
            rw [hlk, ← hmisseq, hm0, hl, hsubeq]; simp
          have hp0 : (match hD w cfg f x with | .error e => [(some f.name, e)] | .ok _ => []) = ([] : List (Option String × Err)) := by
            unfold fieldErr at h0x
            simpa only [hi, Bool.not_true, Bool.false_eq_true, if_false, hl] using h0x
          have hferr : fieldErr w cfg f (injectKV kvs FS ++ ekvs) =
              (match hD w cfg f (inject x (sub f.key fs)) with | .error e => [(some f.name, e)] | .ok _ => []) := by
            unfold fieldErr
            simp only [hi, Bool.not_true, Bool.false_eq_true, if_false, hl']
          by_cases hfx0 : sub f.key fs = []
          · apply skip _ hfx0 hm0
            rw [hferr, hfx0, inject_nil]; exact hp0
          · cases hty : f.ty with
            | none => rw [hty] at hx; simp only [List.isEmpty_iff] at hx; exact absurd hx hfx0
            | some t =>
              rw [hty] at hx
              simp only at hx
              have hok : ∃ v, stD w cfg t x = .ok v := by
                rw [hD_typed w cfg hty] at hp0
                cases hs : stD w cfg t x with
                | ok v => exact ⟨v, rfl⟩
                | error e => rw [hs] at hp0; simp at hp0
              obtain ⟨e, he, hsh, hpe⟩ := H f (by simp) x t hl hty _ hfx0 hok hx
              rw [hferr, hD_typed w cfg hty, he]
              have hsh1 : shapeC w all [(some f.name, e)] = true := by
                simp only [shapeC, fieldNamed_mem all hnd f hfall, hty, hsh, Bool.and_true]
              refine ⟨by rw [shapeC_append, hsh1, ihs]; rfl, ?_⟩
              have hpeel := perm_peel f.key (Seg.attr f.name) fs (attr_head f fs hattr)
              rw [map_cons_rp] at hpeel
              rw [dropMissing_eq_self (by rw [any_missing_rest]; exact hm0)] at ihp
              simp only [List.singleton_append, pathsC, List.append_assoc]
              exact hpeel.trans (List.Perm.append (hpe.map _) ihp)
    · have hi' : f.init = false := by simpa using hi
      simp only [hi', Bool.not_false, if_true, Bool.and_eq_true, List.isEmpty_iff, Bool.not_eq_true'] at hx
      apply skip _ hx.1 hx.2
      unfold fieldErr at h0x ⊢
      simp only [hi', Bool.not_false, if_true] at h0x ⊢
      exact h0x

end Paths
end CattrsModel
