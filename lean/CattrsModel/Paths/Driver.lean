import CattrsModel.Core.Wire
import CattrsModel.Conv.Driver
import CattrsModel.Paths.Model
/-!
# Line-protocol operations of the C05 model (driver only)

```
seg    ::= (a "name") | (i obj)
fault  ::= (bad (seg*) obj) | (miss (seg*) "key") | (extra (seg*) (obj obj)*) | (arity (seg*) obj*)
PATHS cfg ty payload          -> unmodelled | (ok) | (err atree (paths "str"*) (leaves N) (shape 0|1))
FAULTS cfg ty payload fault*  -> ((inj obj) (app 0|1) (valid 0|1) (rp "str"*))
atree  ::= (leaf) | (extra obj*) | (cve ("name"|- role atree)*) | (ive (obj|- role atree)*)
role   ::= field | elem | key | val | kv | - | ?
```
`role` says which declared type the note's `type` attribute is, according to the templates: the
attribute's type, the element type, the mapping's key or value type (`kv` when both are the same type).
-/
namespace CattrsModel
namespace Paths
open Sexp

def segOfSexp : Sexp → Option Seg
  | .list [.atom "a", .str n] => some (.attr n)
  | .list [.atom "i", o] => (objOfSexp o).map .idx
  | _ => Option.none

def pathOfSexp : Sexp → Option Path
  | .list segs => segs.mapM segOfSexp
  | _ => Option.none

def faultOfSexp : Sexp → Option Fault
  | .list [.atom "bad", p, v] => do some (.badLeaf (← pathOfSexp p) (← objOfSexp v))
  | .list [.atom "miss", p, .str k] => do some (.missingKey (← pathOfSexp p) k)
  | .list (.atom "extra" :: p :: kvs) => do
      let kvs ← kvs.mapM (fun (kv : Sexp) => match kv with
        | .list [k, v] => do some ((← objOfSexp k), (← objOfSexp v))
        | _ => Option.none)
      some (.extraKeys (← pathOfSexp p) kvs)
  | .list (.atom "arity" :: p :: xs) => do some (.arity (← pathOfSexp p) (← xs.mapM objOfSexp))
  | _ => Option.none

def tyText (t : Ty) : String := toString (repr t)

def noteSx (n : Option String) : Sexp := match n with | some s => .str s | Option.none => .atom "-"
def idxSx (n : Option Obj) : Sexp := match n with | some o => sexpOfObj o | Option.none => .atom "-"

partial def plainTree : Err → Sexp
  | .leaf => .list [.atom "leaf"]
  | .extra ks => .list (.atom "extra" :: sortedSexps ks)
  | .cve es => .list (.atom "cve" :: es.map (fun (n, e) =>
      .list [noteSx n, .atom (if n.isSome then "?" else "-"), plainTree e]))
  | .ive es => .list (.atom "ive" :: es.map (fun (n, e) =>
      .list [idxSx n, .atom (if n.isSome then "?" else "-"), plainTree e]))

/-- the error tree with the role of every note's `type` -/
partial def annot (w : World) (cfg : Cfg) : Ty → Option Obj → Err → Sexp
  | .opt t, o, e => annot w cfg t o e
  | .wrap _ t, o, e => annot w cfg t o e
  | .coll _ t, o, .ive es =>
      let items := (o.bind allItems).getD []
      .list (.atom "ive" :: es.map (fun (n, e) => match n with
        | some (.int i) => .list [idxSx n, .atom "elem", annot w cfg t items[i.toNat]? e]
        | some _ => .list [idxSx n, .atom "?", plainTree e]
        | Option.none => .list [idxSx n, .atom "-", plainTree e]))
  | .tupleHet ts, o, .ive es =>
      let items := (o.bind allItems).getD []
      .list (.atom "ive" :: es.map (fun (n, e) => match n with
        | some (.int i) => (match ts[i.toNat]? with
            | some t => .list [idxSx n, .atom "elem", annot w cfg t items[i.toNat]? e]
            | Option.none => .list [idxSx n, .atom "?", plainTree e])
        | some _ => .list [idxSx n, .atom "?", plainTree e]
        | Option.none => .list [idxSx n, .atom "-", plainTree e]))
  | .nt c, o, e => annot w cfg (.tupleHet (w.ntTys c)) o e
  | .map _ kt vt, some (.dict kvs), .ive es =>
      let same := tyText kt == tyText vt
      .list (.atom "ive" :: es.map (fun (n, e) => match n with
        | some k => (match kvs.find? (fun kv => kv.1 == k) with
            | some (_, v) => (match stD w cfg vt v with
                | .error _ => .list [idxSx n, .atom (if same then "kv" else "val"), annot w cfg vt (some v) e]
                | .ok _ => .list [idxSx n, .atom (if same then "kv" else "key"), annot w cfg kt (some k) e])
            | Option.none => .list [idxSx n, .atom "?", plainTree e])
        | Option.none => .list [idxSx n, .atom "-", plainTree e]))
  | .cls c, o, .cve es => annotC w cfg (w.fields c) o es
  | .td c, o, .cve es => annotC w cfg (w.fields c) o es
  | _, _, e => plainTree e
where
  annotC (w : World) (cfg : Cfg) (fds : List Field) (o : Option Obj) (es : List (Option String × Err)) : Sexp :=
    .list (.atom "cve" :: es.map (fun (n, e) => match n with
      | some nm => (match fieldNamed fds nm with
          | some f =>
            let sub := match o with
              | some (.dict kvs) => dlookup kvs f.key
              | _ => Option.none
            (match f.ty with
              | some t => .list [noteSx n, .atom "field", annot w cfg t sub e]
              | Option.none => .list [noteSx n, .atom "field", plainTree e])
          | Option.none => .list [noteSx n, .atom "?", plainTree e])
      | Option.none => .list [noteSx n, .atom "-", plainTree e]))

def pathSx (p : Path) : Sexp := .str (renderPath p)

def pathsHandle (w : World) (op : String) (args : List Sexp) : Option Sexp :=
  match op, args with
  | "PATHS", [cfg, ty, o] => do
      let cfg ← cfgOfSexp cfg; let ty ← tyOfSexp ty; let o ← objOfSexp o
      if unmodelledST w cfg ty o then some (.atom "unmodelled")
      else
        match stD w cfg.core ty o with
        | .ok _ => some (.list [.atom "ok"])
        | .error e =>
          let r : Sexp := .list [.atom "err", annot w cfg.core ty (some o) e,
            .list (.atom "paths" :: (transformError e []).map (fun m => pathSx m.1)),
            .list [.atom "leaves", ofNat (leaves e)],
            .list [.atom "shape", ofBool (shapeOK w ty e)]]
          if hasMark r.toString then some (.atom "unmodelled") else some r
  | "FAULTS", cfg :: ty :: o :: fs => do
      let cfg ← cfgOfSexp cfg; let ty ← tyOfSexp ty; let o ← objOfSexp o
      let fs ← fs.mapM faultOfSexp
      let valid := match stD w cfg.core ty o with | .ok _ => true | .error _ => false
      let r : Sexp := .list [.list [.atom "inj", sexpOfObj (inject o fs)],
        .list [.atom "app", ofBool (app w cfg.core ty o fs)],
        .list [.atom "valid", ofBool valid],
        .list (.atom "rp" :: fs.map (fun f => pathSx f.reportPath))]
      if hasMark r.toString then some (.atom "unmodelled") else some r
  | _, _ => Option.none

end Paths
end CattrsModel
