import CattrsModel.Paths.Model
/-!
# C05 lemmas, part 7: `transformError` visits exactly the paths of the tree, one message per leaf
-/
namespace CattrsModel
namespace Paths

theorem map_path_cons (p : Path) (seg : Seg) (l : List Path) :
    (l.map (fun q => seg :: q)).map (fun q => p ++ q) = l.map (fun q => (p ++ [seg]) ++ q) := by
  simp [List.map_map, Function.comp_def]

theorem teWithout_nil {α : Type} (p : Path) : teWithout (α := α) p [] = [] := rfl

mutual
theorem te_paths : ∀ (e : Err) (p : Path),
    ((transformError e p).map (·.1)).Perm ((paths e).map (fun q => p ++ q))
  | .leaf, p => by simp [transformError, paths]
  | .extra ks, p => by simp [transformError, paths]
  | .ive es, p => by simp only [transformError, paths]; exact teI_paths es p
  | .cve es, p => by simp only [transformError, paths]; exact teC_paths es p
theorem teI_paths : ∀ (es : List (Option Obj × Err)) (p : Path),
    (((teWithI es p) ++ teWithout p es).map (·.1)).Perm ((pathsI es).map (fun q => p ++ q))
  | [], p => by simp [teWithI, teWithout, pathsI]
  | (some ix, e) :: es, p => by
    simp only [teWithI, teWithout, pathsI, List.append_assoc, List.map_append]
    rw [map_path_cons]
    have h1 := te_paths e (p ++ [Seg.idx ix])
    have h2 := teI_paths es p
    simp only [List.map_append] at h2
    exact List.Perm.append h1 h2
  | (Option.none, e) :: es, p => by
    simp only [teWithI, teWithout, pathsI, List.map_append, List.map_cons, List.append_nil]
    have h2 := teI_paths es p
    simp only [List.map_append] at h2
    exact List.perm_middle.trans (List.Perm.cons _ h2)
theorem teC_paths : ∀ (es : List (Option String × Err)) (p : Path),
    (((teWithC es p) ++ teWithout p es).map (·.1)).Perm ((pathsC es).map (fun q => p ++ q))
  | [], p => by simp [teWithC, teWithout, pathsC]
  | (some n, e) :: es, p => by
    simp only [teWithC, teWithout, pathsC, List.append_assoc, List.map_append]
    rw [map_path_cons]
    have h1 := te_paths e (p ++ [Seg.attr n])
    have h2 := teC_paths es p
    simp only [List.map_append] at h2
    exact List.Perm.append h1 h2
  | (Option.none, e) :: es, p => by
    simp only [teWithC, teWithout, pathsC, List.map_append, List.map_cons, List.append_nil]
    have h2 := teC_paths es p
    simp only [List.map_append] at h2
    exact List.perm_middle.trans (List.Perm.cons _ h2)
end

mutual
theorem leaves_eq : ∀ (e : Err), leaves e = (paths e).length
  | .leaf => by simp [leaves, paths]
  | .extra _ => by simp [leaves, paths]
  | .ive es => by simp only [leaves, paths]; exact leavesI_eq es
  | .cve es => by simp only [leaves, paths]; exact leavesC_eq es
theorem leavesI_eq : ∀ (es : List (Option Obj × Err)), leavesI es = (pathsI es).length
  | [] => by simp [leavesI, pathsI]
  | (some _, e) :: es => by simp [leavesI, pathsI, leaves_eq e, leavesI_eq es]
  | (Option.none, _) :: es => by simp [leavesI, pathsI, leavesI_eq es]; omega
theorem leavesC_eq : ∀ (es : List (Option String × Err)), leavesC es = (pathsC es).length
  | [] => by simp [leavesC, pathsC]
  | (some _, e) :: es => by simp [leavesC, pathsC, leaves_eq e, leavesC_eq es]
  | (Option.none, _) :: es => by simp [leavesC, pathsC, leavesC_eq es]; omega
end

theorem te_root (e : Err) : ((transformError e []).map (·.1)).Perm (paths e) := by
  have := te_paths e []
  simpa using this

end Paths
end CattrsModel
