import CattrsModel.Paths.Model
import CattrsModel.Lemmas.Unfold
import CattrsModel.Lemmas.Sound
/-!
# C05 lemmas, part 1: algebra of fault lists, `inject`, and of the tree readers
-/
namespace CattrsModel
namespace Paths

abbrev rp := Fault.reportPath

/-! ### segments and faults -/

theorem Seg.matches_eq {s : Seg} {k k' : Obj} (h : s.matches k = true) (h' : s.matches k' = true) : k = k' := by
  cases s with
  | attr n => simp [Seg.matches] at h h'; rw [h, h']
  | idx a => simp [Seg.matches] at h h'; rw [← h, ← h']

theorem Fault.path_withPath (f : Fault) (p : Path) : (f.withPath p).path = p := by
  cases f <;> rfl

theorem Fault.rp_cons (f : Fault) (s : Seg) (r : Path) (h : f.path = s :: r) :
    f.reportPath = s :: (f.withPath r).reportPath := by
  cases f <;> simp [Fault.path] at h <;> subst h <;> simp [Fault.reportPath, Fault.withPath]

theorem under_some {k : Obj} {f g : Fault} (h : f.under k = some g) :
    ∃ s r, f.path = s :: r ∧ s.matches k = true ∧ g = f.withPath r := by
  unfold Fault.under at h
  split at h
  · rename_i s r hp
    split at h
    · rename_i hm; cases h; exact ⟨s, r, hp, hm, rfl⟩
    · cases h
  · cases h

theorem under_none_iff {k : Obj} {f : Fault} : f.under k = Option.none ↔ f.notUnder k = true := by
  unfold Fault.under Fault.notUnder
  split
  · rename_i s r hp; by_cases hm : s.matches k = true <;> simp [hm]
  · simp

/-- peeling the faults addressed to child `k` off a fault list keeps the multiset of report paths -/
theorem perm_peel (k : Obj) (seg : Seg) : ∀ (fs : List Fault),
    (∀ f ∈ fs, ∀ s r, f.path = s :: r → s.matches k = true → s = seg) →
    ((fs.map rp).Perm (((sub k fs).map (fun f => seg :: rp f)) ++ ((rest k fs).map rp))) := by
  intro fs
  induction fs with
  | nil => intro _; simp [sub, rest]
  | cons f fs ih =>
    intro h
    have ih' := ih (fun g hg => h g (by simp [hg]))
    cases hu : f.under k with
    | none =>
      have hn : f.notUnder k = true := under_none_iff.mp hu
      simp only [sub, rest, List.filterMap_cons, hu, List.filter_cons, hn, if_true, List.map_cons]
      exact List.perm_cons_append_cons _ ih'
    | some g =>
      obtain ⟨s, r, hp, hm, rfl⟩ := under_some hu
      have hs : s = seg := h f (by simp) s r hp hm
      have hn : f.notUnder k = false := by
        cases hn : f.notUnder k with
        | false => rfl
        | true => rw [← under_none_iff, hu] at hn; cases hn
      simp only [sub, rest, List.filterMap_cons, hu, List.filter_cons, hn, List.map_cons, List.cons_append,
        Bool.false_eq_true, if_false]
      have e : rp f = seg :: rp (f.withPath r) := by rw [← hs]; exact Fault.rp_cons f s r hp
      rw [e]
      exact List.Perm.cons _ ih'

theorem mem_rest {k : Obj} {fs : List Fault} {f : Fault} : f ∈ rest k fs ↔ f ∈ fs ∧ f.notUnder k = true := by
  simp [rest, List.mem_filter]

theorem mem_sub {k : Obj} {fs : List Fault} {g : Fault} : g ∈ sub k fs ↔ ∃ f ∈ fs, f.under k = some g := by
  simp [sub, List.mem_filterMap]

theorem sub_nil (k : Obj) : sub k [] = [] := rfl
theorem rest_nil (k : Obj) : rest k [] = [] := rfl

/-- faults under a different key are untouched by peeling key `k'` -/
theorem sub_rest_ne {k k' : Obj} (hne : k ≠ k') (fs : List Fault) : sub k (rest k' fs) = sub k fs := by
  induction fs with
  | nil => rfl
  | cons f fs ih =>
    simp only [rest, List.filter_cons]
    by_cases hn : f.notUnder k' = true
    · simp only [hn, if_true, sub, List.filterMap_cons]
      simp only [sub, rest] at ih
      rw [ih]
    · have hn' : f.notUnder k' = false := by simpa using hn
      simp only [hn', Bool.false_eq_true, if_false, sub, List.filterMap_cons]
      simp only [sub, rest] at ih
      rw [ih]
      -- f is under k', hence not under k
      have : f.under k = Option.none := by
        unfold Fault.notUnder at hn'
        unfold Fault.under
        split
        · rename_i s r hp
          rw [hp] at hn'
          simp only [Bool.not_eq_false'] at hn'
          have : s.matches k = false := by
            cases hm : s.matches k with
            | false => rfl
            | true => exact absurd (Seg.matches_eq hm hn') hne
          simp [this]
        · rfl
      rw [this]

/-! ### local faults -/

def NoLocal (fs : List Fault) : Prop := ∀ f ∈ fs, f.path ≠ []

theorem noLocal_badHere {fs : List Fault} (h : NoLocal fs) : badHere fs = Option.none := by
  induction fs with
  | nil => rfl
  | cons f fs ih =>
    have h1 := h f (by simp)
    have ih' := ih (fun g hg => h g (by simp [hg]))
    cases f with
    | badLeaf p v => cases p with
      | nil => exact absurd rfl h1
      | cons s r => simp [badHere, ih']
    | _ => simp [badHere, ih']

theorem noLocal_arityHere {fs : List Fault} (h : NoLocal fs) : arityHere fs = [] := by
  induction fs with
  | nil => rfl
  | cons f fs ih =>
    have h1 := h f (by simp)
    have ih' := ih (fun g hg => h g (by simp [hg]))
    cases f with
    | arity p v => cases p with
      | nil => exact absurd rfl h1
      | cons s r => simp [arityHere, ih']
    | _ => simp [arityHere, ih']

theorem noLocal_extraHere {fs : List Fault} (h : NoLocal fs) : extraHere fs = [] := by
  induction fs with
  | nil => rfl
  | cons f fs ih =>
    have h1 := h f (by simp)
    have ih' := ih (fun g hg => h g (by simp [hg]))
    cases f with
    | extraKeys p v => cases p with
      | nil => exact absurd rfl h1
      | cons s r => simp [extraHere, ih']
    | _ => simp [extraHere, ih']

theorem isMissingHere_path {n : String} {f : Fault} (h : isMissingHere n f = true) : f = .missingKey [] n := by
  cases f with
  | missingKey p k => cases p with
    | nil => simp [isMissingHere] at h; rw [h]
    | cons s r => simp [isMissingHere] at h
  | _ => simp [isMissingHere] at h

theorem noLocal_missing {fs : List Fault} (h : NoLocal fs) (n : String) : fs.any (isMissingHere n) = false := by
  rw [List.any_eq_false]
  intro f hf hm
  have := isMissingHere_path hm
  subst this
  exact h _ hf rfl

theorem noLocal_missingHere {fs : List Fault} (h : NoLocal fs) (k : Obj) : missingHere fs k = false := by
  cases k <;> simp [missingHere]
  rename_i n
  have := noLocal_missing h n
  rw [List.any_eq_false] at this
  intro f hf
  simpa using this f hf

theorem notUnder_of_nil {k : Obj} {f : Fault} (h : f.path = []) : f.notUnder k = true := by
  unfold Fault.notUnder; rw [h]

theorem arityHere_rest (k : Obj) (fs : List Fault) : arityHere (rest k fs) = arityHere fs := by
  induction fs with
  | nil => rfl
  | cons f fs ih =>
    simp only [rest, List.filter_cons]
    simp only [rest] at ih
    cases f with
    | arity p v => cases p with
      | nil => simp [Fault.notUnder, Fault.path, arityHere, ih]
      | cons s r => by_cases hm : s.matches k = true <;> simp [Fault.notUnder, Fault.path, hm, arityHere, ih]
    | badLeaf p v => cases p with
      | nil => simp [Fault.notUnder, Fault.path, arityHere, ih]
      | cons s r => by_cases hm : s.matches k = true <;> simp [Fault.notUnder, Fault.path, hm, arityHere, ih]
    | missingKey p v => cases p with
      | nil => simp [Fault.notUnder, Fault.path, arityHere, ih]
      | cons s r => by_cases hm : s.matches k = true <;> simp [Fault.notUnder, Fault.path, hm, arityHere, ih]
    | extraKeys p v => cases p with
      | nil => simp [Fault.notUnder, Fault.path, arityHere, ih]
      | cons s r => by_cases hm : s.matches k = true <;> simp [Fault.notUnder, Fault.path, hm, arityHere, ih]

theorem extraHere_rest (k : Obj) (fs : List Fault) : extraHere (rest k fs) = extraHere fs := by
  induction fs with
  | nil => rfl
  | cons f fs ih =>
    simp only [rest, List.filter_cons]
    simp only [rest] at ih
    cases f with
    | arity p v => cases p with
      | nil => simp [Fault.notUnder, Fault.path, extraHere, ih]
      | cons s r => by_cases hm : s.matches k = true <;> simp [Fault.notUnder, Fault.path, hm, extraHere, ih]
    | badLeaf p v => cases p with
      | nil => simp [Fault.notUnder, Fault.path, extraHere, ih]
      | cons s r => by_cases hm : s.matches k = true <;> simp [Fault.notUnder, Fault.path, hm, extraHere, ih]
    | missingKey p v => cases p with
      | nil => simp [Fault.notUnder, Fault.path, extraHere, ih]
      | cons s r => by_cases hm : s.matches k = true <;> simp [Fault.notUnder, Fault.path, hm, extraHere, ih]
    | extraKeys p v => cases p with
      | nil => simp [Fault.notUnder, Fault.path, extraHere, ih]
      | cons s r => by_cases hm : s.matches k = true <;> simp [Fault.notUnder, Fault.path, hm, extraHere, ih]

theorem extraHere_dropMissing (n : String) (fs : List Fault) : extraHere (dropMissing n fs) = extraHere fs := by
  induction fs with
  | nil => rfl
  | cons f fs ih =>
    simp only [dropMissing, List.filter_cons]
    simp only [dropMissing] at ih
    by_cases hm : isMissingHere n f = true
    · have := isMissingHere_path hm; subst this
      simp only [hm, Bool.not_true, Bool.false_eq_true, if_false]
      rw [ih]; simp only [extraHere]
    · have hm' : isMissingHere n f = false := by simpa using hm
      simp only [hm', Bool.not_false, if_true]
      cases f with
      | extraKeys p v => cases p <;> simp only [extraHere, ih]
      | _ => simp only [extraHere, ih]

theorem filter_missing_rest (k : Obj) (n : String) (fs : List Fault) :
    (rest k fs).filter (isMissingHere n) = fs.filter (isMissingHere n) := by
  induction fs with
  | nil => rfl
  | cons f fs ih =>
    simp only [rest, List.filter_cons]
    simp only [rest] at ih
    by_cases hm : isMissingHere n f = true
    · have := isMissingHere_path hm; subst this
      simp [Fault.notUnder, Fault.path, isMissingHere, ih]
    · have hm' : isMissingHere n f = false := by simpa using hm
      by_cases hn : f.notUnder k = true
      · simp [hn, hm', ih]
      · have hn' : f.notUnder k = false := by simpa using hn
        simp [hn', hm', ih]

theorem any_missing_rest (k : Obj) (n : String) (fs : List Fault) :
    (rest k fs).any (isMissingHere n) = fs.any (isMissingHere n) := by
  have h := filter_missing_rest k n fs
  have e : ∀ l : List Fault, l.any (isMissingHere n) = !(l.filter (isMissingHere n)).isEmpty := by
    intro l; induction l with
    | nil => rfl
    | cons a l ih => by_cases ha : isMissingHere n a = true <;> simp_all [List.filter_cons]
  rw [e, e, h]

/-- a single missing-key fault is reported under the attribute's name -/
theorem perm_dropMissing (n : String) (fs : List Fault) (h : (fs.filter (isMissingHere n)).length = 1) :
    (fs.map rp).Perm ([Seg.attr n] :: (dropMissing n fs).map rp) := by
  have hp := (List.filter_append_perm (isMissingHere n) fs).symm
  match hf : fs.filter (isMissingHere n), h with
  | [g], _ =>
    have hg : g ∈ fs.filter (isMissingHere n) := by rw [hf]; simp
    have := isMissingHere_path (List.mem_filter.mp hg).2
    subst this
    rw [hf] at hp
    have := hp.map rp
    simpa [dropMissing, rp, Fault.reportPath] using this

theorem dropMissing_eq_self {n : String} {fs : List Fault} (h : fs.any (isMissingHere n) = false) :
    dropMissing n fs = fs := by
  rw [dropMissing, List.filter_eq_self]
  intro a ha
  rw [List.any_eq_false] at h
  simpa using h a ha

end Paths
end CattrsModel
