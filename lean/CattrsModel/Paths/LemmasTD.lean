import CattrsModel.Paths.LemmasFields
/-!
# C05 lemmas, part 5: the TypedDict template's per-key loop
-/
namespace CattrsModel
namespace Paths

variable (w : World) (cfg : Cfg)

/-- the errors one declared key contributes to the class-level group of a TypedDict -/
def tdErr (f : Field) (kvs : List (Obj × Obj)) : List (Option String × Err) :=
  match dlookup kvs f.key with
  | Option.none => if f.required then [(some f.name, Err.leaf)] else []
  | some x => (match hD w cfg f x with | .error e => [(some f.name, e)] | .ok _ => [])

/-- the collected errors do not depend on the result dict being patched -/
theorem stDTD_snd_res : ∀ (fds : List Field) (kvs res res' : List (Obj × Obj)),
    (stDTD w cfg fds kvs res).2 = (stDTD w cfg fds kvs res').2
  | [], kvs, res, res' => by simp [stDTD]
  | f :: fds, kvs, res, res' => by
    cases hl : dlookup kvs f.key with
    | none =>
      rw [stDTD_absent w cfg hl, stDTD_absent w cfg hl]
      by_cases hr : f.required = true
      · simp only [hr, if_true]; rw [stDTD_snd_res fds kvs res res']
      · simp only [hr, Bool.false_eq_true, if_false]; exact stDTD_snd_res fds kvs res res'
    | some x =>
      rw [stDTD_present w cfg hl, stDTD_present w cfg hl]
      cases hh : hD w cfg f x with
      | error e => simp only; rw [stDTD_snd_res fds kvs res res']
      | ok y => simp only; exact stDTD_snd_res fds kvs _ _

theorem stDTD_snd (f : Field) (fds : List Field) (kvs res : List (Obj × Obj)) :
    (stDTD w cfg (f :: fds) kvs res).2 = tdErr w cfg f kvs ++ (stDTD w cfg fds kvs res).2 := by
  unfold tdErr
  cases hl : dlookup kvs f.key with
  | none =>
    rw [stDTD_absent w cfg hl]
    by_cases hr : f.required = true <;> simp [hr]
  | some x =>
    rw [stDTD_present w cfg hl]
    cases hh : hD w cfg f x with
    | error e => simp [hh]
    | ok y => simp only [hh, List.nil_append]; exact stDTD_snd_res w cfg fds kvs _ _

theorem appTD_cons (allowed : List Obj) (f : Field) (fds : List Field) (kvs : List (Obj × Obj)) (fs : List Fault) :
    appTD w cfg allowed (f :: fds) kvs fs =
      ((match dlookup kvs f.key with
          | Option.none => (sub f.key fs).isEmpty && !(fs.any (isMissingHere f.name))
          | some x =>
            if fs.any (isMissingHere f.name) then
              (sub f.key fs).isEmpty && f.required && (fs.filter (isMissingHere f.name)).length == 1
            else match f.ty with
              | Option.none => (sub f.key fs).isEmpty
              | some t => app w cfg t x (sub f.key fs))
       && appTD w cfg allowed fds kvs (dropMissing f.name (rest f.key fs))) := by
  rw [appTD]
  split <;> rename_i h <;> simp only [h] <;> rfl

theorem appTD_end (allowed : List Obj) (kvs : List (Obj × Obj)) : ∀ (fds : List Field) (fs : List Fault),
    appTD w cfg allowed fds kvs fs = true →
    ∃ fe, extraOK cfg allowed kvs fe = true ∧ extraHere fe = extraHere fs
  | [], fs, h => by rw [appTD] at h; exact ⟨fs, h, rfl⟩
  | f :: fds, fs, h => by
    rw [appTD_cons, Bool.and_eq_true] at h
    obtain ⟨fe, h1, h2⟩ := appTD_end allowed kvs fds _ h.2
    exact ⟨fe, h1, by rw [h2, extraHere_dropMissing, extraHere_rest]⟩

theorem stDTD_good (allowed : List Obj) (all : List Field) (hnd : (all.map (·.name)).Nodup)
    (kvs ekvs res : List (Obj × Obj)) (FS : List Fault)
    (hek : ∀ f ∈ all, dlookup ekvs f.key = Option.none) :
    ∀ (fds : List Field) (fs : List Fault),
    (∀ f ∈ fds, f ∈ all) → (fds.map (·.name)).Nodup →
    (∀ f ∈ fds, sub f.key fs = sub f.key FS ∧ fs.any (isMissingHere f.name) = FS.any (isMissingHere f.name)) →
    (∀ f ∈ fds, ∀ x t, dlookup kvs f.key = some x → f.ty = some t → ChildIH w cfg t x) →
    (stDTD w cfg fds kvs res).2 = [] →
    fs.all headIsAttr = true →
    appTD w cfg allowed fds kvs fs = true →
    ∃ fe, extraOK cfg allowed kvs fe = true ∧ extraHere fe = extraHere fs ∧
      shapeC w all (stDTD w cfg fds (injectKV kvs FS ++ ekvs) res).2 = true ∧
      (fs.map rp).Perm (pathsC (stDTD w cfg fds (injectKV kvs FS ++ ekvs) res).2 ++ fe.map rp)
  | [], fs, _, _, _, _, _, _, h => by
    rw [appTD] at h
    exact ⟨fs, h, rfl, by simp [stDTD, shapeC], by simp [stDTD, pathsC]⟩
  | f :: fds, fs, hsub, hnd', hinv, H, h0, hattr, h => by
    rw [appTD_cons, Bool.and_eq_true] at h
    obtain ⟨hx, hr⟩ := h
    rw [stDTD_snd, List.append_eq_nil_iff] at h0
    obtain ⟨h0x, h0r⟩ := h0
    rw [List.map_cons, List.nodup_cons] at hnd'
    have hfall : f ∈ all := hsub f (by simp)
    have hinv' : ∀ g ∈ fds, sub g.key (dropMissing f.name (rest f.key fs)) = sub g.key FS ∧
        (dropMissing f.name (rest f.key fs)).any (isMissingHere g.name) = FS.any (isMissingHere g.name) := by
      intro g hg
      have hne : g.name ≠ f.name := fun e => hnd'.1 (by rw [← e]; exact List.mem_map_of_mem hg)
      have := hinv g (by simp [hg])
      rw [sub_dropMissing, sub_rest_ne (str_key_ne hne), any_missing_dropMissing_ne hne, any_missing_rest]
      exact this
    obtain ⟨fe, hfe, hfx, ihs, ihp⟩ := stDTD_good allowed all hnd kvs ekvs res FS hek fds _
      (fun g hg => hsub g (by simp [hg])) hnd'.2 hinv' (fun g hg => H g (by simp [hg])) h0r
      (all_dropMissing (all_rest hattr)) hr
    refine ⟨fe, hfe, by rw [hfx, extraHere_dropMissing, extraHere_rest], ?_⟩
    rw [stDTD_snd]
    obtain ⟨hsubeq, hmisseq⟩ := hinv f (by simp)
    have skip : tdErr w cfg f (injectKV kvs FS ++ ekvs) = [] → sub f.key fs = [] →
        fs.any (isMissingHere f.name) = false →
        shapeC w all (tdErr w cfg f (injectKV kvs FS ++ ekvs) ++ (stDTD w cfg fds (injectKV kvs FS ++ ekvs) res).2) = true ∧
        (fs.map rp).Perm (pathsC (tdErr w cfg f (injectKV kvs FS ++ ekvs) ++ (stDTD w cfg fds (injectKV kvs FS ++ ekvs) res).2) ++ fe.map rp) := by
      intro he hfx0 hm0
      rw [he]
      exact ⟨by simpa using ihs, by simpa using (perm_skip_field f fs hattr hfx0 hm0).trans ihp⟩
    have hlk := dlookup_injected f kvs ekvs FS (hek f hfall)
    cases hl : dlookup kvs f.key with
    | none =>
      simp only [hl, Bool.and_eq_true, List.isEmpty_iff, Bool.not_eq_true'] at hx
      apply skip _ hx.1 hx.2
      have hl' : dlookup (injectKV kvs FS ++ ekvs) f.key = Option.none := by
        rw [hlk, hl]; simp
      unfold tdErr at h0x ⊢
      simp only [hl, hl'] at h0x ⊢
      exact h0x
    | some x =>
      simp only [hl] at hx
      by_cases hm : fs.any (isMissingHere f.name) = true
      · simp only [hm, if_true, Bool.and_eq_true, List.isEmpty_iff, beq_iff_eq] at hx
        obtain ⟨⟨hfx0, hreq⟩, hcnt⟩ := hx
        have hl' : dlookup (injectKV kvs FS ++ ekvs) f.key = Option.none := by
          rw [hlk, ← hmisseq, hm]; simp
        have he : tdErr w cfg f (injectKV kvs FS ++ ekvs) = [(some f.name, Err.leaf)] := by
          unfold tdErr
          simp only [hl', hreq, if_true]
        rw [he]
        have hsh : shapeC w all [(some f.name, Err.leaf)] = true := by
          simp only [shapeC, fieldNamed_mem all hnd f hfall, Bool.and_true]
          cases f.ty <;> simp [shapeOK_leaf, errIsLeaf]
        refine ⟨by rw [shapeC_append, hsh, ihs]; rfl, ?_⟩
        have hpeel := perm_peel f.key (Seg.attr f.name) fs (attr_head f fs hattr)
        rw [hfx0] at hpeel
        simp only [List.map_nil, List.nil_append] at hpeel
        have hdrop := perm_dropMissing f.name (rest f.key fs) (by rw [filter_missing_rest]; exact hcnt)
        have := hpeel.trans hdrop
        simp only [List.singleton_append, pathsC, paths, List.map_cons, List.map_nil, List.cons_append, List.nil_append]
        exact this.trans (List.Perm.cons _ ihp)
      · have hm0 : fs.any (isMissingHere f.name) = false := by simpa using hm
        simp only [hm0, Bool.false_eq_true, if_false] at hx
        have hl' : dlookup (injectKV kvs FS ++ ekvs) f.key = some (inject x (sub f.key fs)) := by
          rw [hlk, ← hmisseq, hm0, hl, hsubeq]; simp
        have hp0 : (match hD w cfg f x with | .error e => [(some f.name, e)] | .ok _ => []) = ([] : List (Option String × Err)) := by
          unfold tdErr at h0x
          simpa only [hl] using h0x
        have hferr : tdErr w cfg f (injectKV kvs FS ++ ekvs) =
            (match hD w cfg f (inject x (sub f.key fs)) with | .error e => [(some f.name, e)] | .ok _ => []) := by
          unfold tdErr
          simp only [hl']
        by_cases hfx0 : sub f.key fs = []
        · apply skip _ hfx0 hm0
          rw [hferr, hfx0, inject_nil]; exact hp0
        · cases hty : f.ty with
          | none => rw [hty] at hx; simp only [List.isEmpty_iff] at hx; exact absurd hx hfx0
          | some t =>
            rw [hty] at hx
            simp only at hx
            have hok : ∃ v, stD w cfg t x = .ok v := by
              rw [hD_typed w cfg hty] at hp0
              cases hs : stD w cfg t x with
              | ok v => exact ⟨v, rfl⟩
              | error e => rw [hs] at hp0; simp at hp0
            obtain ⟨e, he, hsh, hpe⟩ := H f (by simp) x t hl hty _ hfx0 hok hx
            rw [hferr, hD_typed w cfg hty, he]
            have hsh1 : shapeC w all [(some f.name, e)] = true := by
              simp only [shapeC, fieldNamed_mem all hnd f hfall, hty, hsh, Bool.and_true]
            refine ⟨by rw [shapeC_append, hsh1, ihs]; rfl, ?_⟩
            have hpeel := perm_peel f.key (Seg.attr f.name) fs (attr_head f fs hattr)
            rw [map_cons_rp] at hpeel
            rw [dropMissing_eq_self (by rw [any_missing_rest]; exact hm0)] at ihp
            simp only [List.singleton_append, pathsC, List.append_assoc]
            exact hpeel.trans (List.Perm.append (hpe.map _) ihp)

end Paths
end CattrsModel
