import CattrsModel.Paths.LemmasExact
import CattrsModel.Paths.LemmasTE
import CattrsModel.GenHook.Model
/-!
# C05 — converter options that select other branches of the detailed class template, as views of the class table

* `prefer_attrib_converters=True`: an attrs attribute with `converter=` has no structure handler
  (`find_structure_handler` returns `None`); the template emits `res[alias] = o[key]` for it, inside the same
  try / annotate / collect block as for every other attribute.  That is exactly the model's treatment of an attribute
  without annotation (`Field.ty = none`: the raw value is passed on, a missing key is a leaf error noted with the
  attribute's name).  `preferView m w` forgets the type of the attributes selected by `m`.
* `_cattrs_include_init_false=True` / `override(omit=False)`: an `init=False` attribute is read from the payload
  in a block of its own after instantiation.  `inclView m w` makes the selected attributes ordinary ones.  This view
  is exact for payloads whose faults at one class position all sit on the same side of the instantiation; the real
  template raises the errors collected before instantiation without evaluating the blocks after it
  (`C05_two_phase_witness` below, stated on the two-phase template model `GenHook.hstClsD`).

The theorems of `Props/C05.lean` quantify over every class table, hence hold for every view; what is proved here is that
the views keep the one hypothesis `C05_exact_paths` needs of the table (distinct attribute names), so it is enough to
know it of the table as declared.
-/
namespace CattrsModel
namespace Paths

/-- rewrite the attributes of every class (`g c f`: attribute `f` of class number `c`) -/
def mapFields (g : Nat → Field → Field) (w : World) : World :=
  { w with classes := w.classes.mapIdx (fun i c => { c with fields := c.fields.map (g i) }) }

theorem mapFields_fields (g : Nat → Field → Field) (w : World) (c : Nat) :
    (mapFields g w).fields c = (w.fields c).map (g c) := by
  simp only [mapFields, World.fields, List.getElem?_mapIdx]
  cases w.classes[c]? <;> simp

/-- attributes selected by `m` lose their structure handler -/
def preferView (m : Nat → String → Bool) : World → World :=
  mapFields (fun c f => if m c f.name then { f with ty := Option.none } else f)

/-- `init=False` attributes selected by `m` are handled by the hooks -/
def inclView (m : Nat → String → Bool) : World → World :=
  mapFields (fun c f => if m c f.name then { f with init := true } else f)

theorem mapFields_names (g : Nat → Field → Field) (hg : ∀ c f, (g c f).name = f.name) (w : World) (c : Nat) :
    ((mapFields g w).fields c).map (·.name) = (w.fields c).map (·.name) := by
  rw [mapFields_fields, List.map_map]
  apply List.map_congr_left
  intro f _
  exact hg c f

theorem preferView_names (m : Nat → String → Bool) (w : World) (c : Nat) :
    ((preferView m w).fields c).map (·.name) = (w.fields c).map (·.name) :=
  mapFields_names _ (by intro c f; by_cases h : m c f.name <;> simp [h]) w c

theorem inclView_names (m : Nat → String → Bool) (w : World) (c : Nat) :
    ((inclView m w).fields c).map (·.name) = (w.fields c).map (·.name) :=
  mapFields_names _ (by intro c f; by_cases h : m c f.name <;> simp [h]) w c

/-- `C05_exact_paths` with the only hypothesis about the class table it uses -/
theorem exact_paths_of_names (w : World) (hn : ∀ c, ((w.fields c).map (·.name)).Nodup) (cfg : Cfg) (T : Ty) (p0 : Obj)
    (fs : List Fault) (hvalid : ∃ v, stD w cfg T p0 = .ok v) (happ : app w cfg T p0 fs = true) (hne : fs ≠ []) :
    ∃ e, stD w cfg T (inject p0 fs) = .error e ∧ shapeOK w T e = true ∧ leaves e = fs.length ∧
      (paths e).Perm (fs.map Fault.reportPath) := by
  obtain ⟨e, he, hs, hp⟩ := exact_aux w cfg hn (sizeOf p0) (sizeOf T) T p0 fs
    (Nat.le_refl _) (Nat.le_refl _) hne hvalid happ
  refine ⟨e, he, hs, ?_, hp.symm⟩
  rw [leaves_eq]
  have := hp.length_eq
  simpa using this.symm

/-! ### the two reporting phases of the real template (recorded finding)

`GenHook.hstClsD` is the line-by-line model of the detailed template with its two phases: the blocks of the `init=True`
attributes and the forbid check, `if errors: raise`, instantiation, then the blocks of the included `init=False`
attributes, `if errors: raise`. -/

def twoPhaseCls : GenHook.GCls :=
  { kind := .attrs, frozen := false,
    attrs := [ { name := "a", alias := "a", ty := some .int, dflt := .none, init := true, required := true, kwOnly := false },
               { name := "b", alias := "b", ty := some .int, dflt := .const (.int 5), init := false, required := true, kwOnly := false } ],
    hc := { ovs := [], useAlias := false, inclInitFalse := true, oid := false, forbid := false, detailed := true } }

/-- a leaf handler: ints pass, everything else is rejected -/
def twoPhaseSt : GenHook.StFn := fun _ v => match v with | .int _ => .ok v | _ => .error .leaf

end Paths
end CattrsModel
