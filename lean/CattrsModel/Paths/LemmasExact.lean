import CattrsModel.Paths.LemmasTD
import CattrsModel.Lemmas.ModesAgree
/-!
# C05 lemmas, part 6: the main induction (`exact_aux`) and the facts about `transformError`
-/
namespace CattrsModel
namespace Paths

variable (w : World) (cfg : Cfg)

theorem pathsI_ne_nil {fs : List Fault} {es : List (Option Obj × Err)} (hne : fs ≠ [])
    (hp : (fs.map rp).Perm (pathsI es)) : es ≠ [] := by
  intro e; subst e
  have := hp.length_eq
  simp [pathsI] at this
  exact hne this

theorem pathsC_ne_nil {fs : List Fault} {es : List (Option String × Err)} (hne : fs ≠ [])
    (hp : (fs.map rp).Perm (pathsC es)) : es ≠ [] := by
  intro e; subst e
  have := hp.length_eq
  simp [pathsC] at this
  exact hne this

theorem isEmpty_false_of_ne {α : Type} {l : List α} (h : l ≠ []) : (!l.isEmpty) = true := by
  cases l <;> simp_all

theorem injectL_length : ∀ (xs : List Obj) (ix : Nat) (fs : List Fault), (injectL xs ix fs).length = xs.length
  | [], _, _ => by simp [injectL]
  | x :: xs, ix, fs => by simp [injectL, injectL_length xs (ix + 1) fs]

theorem arityOK_cases {fe : List Fault} (h : arityOK fe = true) :
    fe = [] ∨ ∃ ex, ex ≠ [] ∧ fe = [.arity [] ex] := by
  unfold arityOK at h
  split at h
  · exact Or.inl rfl
  · rename_i xs; exact Or.inr ⟨xs, by cases xs <;> simp_all, rfl⟩
  · cases h

theorem extraOK_cases {allowed : List Obj} {kvs : List (Obj × Obj)} {fe : List Fault}
    (h : extraOK cfg allowed kvs fe = true) :
    fe = [] ∨ ∃ ekvs, fe = [.extraKeys [] ekvs] ∧ cfg.forbid = true ∧ ekvs ≠ [] ∧
      (∀ k ∈ keysOf ekvs, Obj.memPy k allowed = false) := by
  unfold extraOK at h
  split at h
  · exact Or.inl rfl
  · rename_i ekvs
    simp only [Bool.and_eq_true, Bool.not_eq_true', List.all_eq_true] at h
    refine Or.inr ⟨ekvs, rfl, h.1.1.1, ?_, fun k hk => (h.2 k hk).1⟩
    intro e; subst e; simp at h
  · cases h

theorem keys_injectKV_sub (fs : List Fault) : ∀ (kvs : List (Obj × Obj)) (k : Obj),
    k ∈ keysOf (injectKV kvs fs) → k ∈ keysOf kvs
  | [], k, h => by simp [injectKV, keysOf] at h
  | (a, b) :: kvs, k, h => by
    simp only [injectKV] at h
    split at h
    · simp only [keysOf, List.map_cons, List.mem_cons]; right; exact keys_injectKV_sub fs kvs k h
    · simp only [keysOf, List.map_cons, List.mem_cons] at h ⊢
      rcases h with h | h
      · exact Or.inl h
      · exact Or.inr (keys_injectKV_sub fs kvs k h)

theorem extraKeys_append (allowed : List Obj) (a b : List (Obj × Obj)) :
    extraKeys allowed (a ++ b) = extraKeys allowed a ++ extraKeys allowed b := by
  simp [extraKeys, keysOf]

theorem extraKeys_sub {allowed : List Obj} {a b : List (Obj × Obj)} (hs : ∀ k ∈ keysOf a, k ∈ keysOf b)
    (h : extraKeys allowed b = []) : extraKeys allowed a = [] := by
  unfold extraKeys at h ⊢
  rw [List.filter_eq_nil_iff] at h ⊢
  intro k hk; exact h k (hs k hk)

/-- the forbid-extra-keys line after the per-attribute loop, common to both class templates -/
theorem finish_cve (all : List Field) (allowed : List Obj) (kvs : List (Obj × Obj)) (fs : List Fault) (hne : fs ≠ [])
    (R2 : List (Option String × Err)) (fe : List Fault)
    (h0ex : cfg.forbid = true → extraKeys allowed kvs = [])
    (hfe : extraOK cfg allowed kvs fe = true) (hfx : extraHere fe = extraHere fs)
    (hsh : shapeC w all R2 = true) (hp : (fs.map rp).Perm (pathsC R2 ++ fe.map rp)) :
    let kvs' := injectKV kvs fs ++ extraHere fs
    let errs := if cfg.forbid && !(extraKeys allowed kvs').isEmpty
      then R2 ++ [(Option.none, Err.extra (extraKeys allowed kvs'))] else R2
    (!errs.isEmpty) = true ∧ shapeC w all errs = true ∧ (fs.map rp).Perm (pathsC errs) := by
  intro kvs' errs
  have hinj : cfg.forbid = true → extraKeys allowed (injectKV kvs fs) = [] :=
    fun hf => extraKeys_sub (keys_injectKV_sub fs kvs) (h0ex hf)
  rcases extraOK_cases cfg hfe with rfl | ⟨ekvs, rfl, hforb, hene, hna⟩
  · have hx : extraHere fs = [] := by rw [← hfx]; rfl
    have herrs : errs = R2 := by
      simp only [errs, kvs', hx, List.append_nil]
      by_cases hf : cfg.forbid = true
      · simp [hf, hinj hf]
      · simp [hf]
    rw [herrs]
    simp only [List.map_nil, List.append_nil] at hp
    exact ⟨isEmpty_false_of_ne (pathsC_ne_nil hne hp), hsh, hp⟩
  · have hx : extraHere fs = ekvs := by rw [← hfx]; simp [extraHere]
    have hex : extraKeys allowed kvs' = keysOf ekvs := by
      simp only [kvs', hx, extraKeys_append, hinj hforb, List.nil_append]
      unfold extraKeys
      rw [List.filter_eq_self]
      intro k hk; simp [hna k hk]
    have hkne : keysOf ekvs ≠ [] := by cases ekvs <;> simp_all [keysOf]
    have herrs : errs = R2 ++ [(Option.none, Err.extra (keysOf ekvs))] := by
      simp only [errs, hex, hforb, Bool.true_and, isEmpty_false_of_ne hkne, if_true]
    rw [herrs]
    refine ⟨by simp, ?_, ?_⟩
    · rw [shapeC_append, hsh]; simp [shapeC, errIsLeafOrExtra]
    · rw [pathsC_append]; simpa [pathsC, rp, Fault.reportPath] using hp

theorem hek_of_extraOK {allowed : List Obj} {kvs : List (Obj × Obj)} {fe : List Fault} {fs : List Fault}
    (hfe : extraOK cfg allowed kvs fe = true) (hfx : extraHere fe = extraHere fs)
    (f : Field) (hf : f.key ∈ allowed) : dlookup (extraHere fs) f.key = Option.none := by
  rcases extraOK_cases cfg hfe with rfl | ⟨ekvs, rfl, _, _, hna⟩
  · rw [← hfx]; simp [extraHere, dlookup]
  · rw [← hfx]
    simp only [extraHere, List.append_nil]
    rw [dlookup_none_iff]
    cases hm : Obj.memPy f.key (keysOf ekvs) with
    | false => rfl
    | true =>
      obtain ⟨y, hy, hyk⟩ := memPy_iff.mp hm
      have : y = f.key := by simp only [Field.key] at hyk ⊢; exact pyEq_str_right.mp hyk
      subst this
      have := hna _ hy
      rw [memPy_of_mem hf] at this; cases this

theorem bad_opt {t : Ty} {r : Res} {fs : List Fault} (h : Bad w t r fs) : Bad w (.opt t) r fs := by
  obtain ⟨e, he, hs, hp⟩ := h
  exact ⟨e, he, by rw [shapeOK_opt]; exact hs, hp⟩

theorem bad_wrap {k : WK} {t : Ty} {r : Res} {fs : List Fault} (h : Bad w t r fs) : Bad w (.wrap k t) r fs := by
  obtain ⟨e, he, hs, hp⟩ := h
  exact ⟨e, he, by rw [shapeOK_wrap]; exact hs, hp⟩

theorem ok_of_not_err {r : Res} {e' : Err} (h : ∃ v, (if (!([] : List (Option Obj × Err)).isEmpty) = true then Except.error e' else r) = Except.ok v) :
    ∃ v, r = Except.ok v := by simpa using h

/-- **C05 core.**  A valid payload with a non-empty list of independent, applicable faults injected is
rejected with an error tree of the right shape whose paths are exactly the faults' report paths. -/
theorem exact_aux (hnd : ∀ c, ((w.fields c).map (·.name)).Nodup) :
    ∀ (n m : Nat) (T : Ty) (o : Obj) (fs : List Fault), sizeOf o ≤ n → sizeOf T ≤ m → fs ≠ [] →
      (∃ v, stD w cfg T o = .ok v) → app w cfg T o fs = true → Bad w T (stD w cfg T (inject o fs)) fs := by
  intro n
  induction n with
  | zero => intro m T o fs ho; have := sizeOf_obj_pos o; omega
  | succ n ihn =>
    intro m
    induction m with
    | zero => intro T o fs _ hT; have := sizeOf_ty_pos T; omega
    | succ m ihm =>
      intro T o fs ho hT hne hok happ
      have IHo : ∀ (t' : Ty) (x' : Obj), sizeOf x' < sizeOf o → ChildIH w cfg t' x' :=
        fun t' x' hlt fs' hne' hok' happ' => ihn (sizeOf t') t' x' fs' (by omega) (Nat.le_refl _) hne' hok' happ'
      unfold app at happ
      have hie : fs.isEmpty = false := by cases fs <;> simp_all
      simp only [hie, Bool.false_eq_true, if_false] at happ
      cases hsb : soleBad fs with
      | some v =>
        simp only [hsb] at happ
        have hfs := soleBad_some hsb
        rw [inject_sole hsb]
        cases hr : stD w cfg T v with
        | ok y => rw [hr] at happ; simp [isLeafErr] at happ
        | error e =>
          rw [hr] at happ
          cases e <;> simp [isLeafErr] at happ
          exact ⟨.leaf, rfl, shapeOK_leaf w T, by subst hfs; simp [rp, Fault.reportPath, paths]⟩
      | none =>
        simp only [hsb, Bool.and_eq_true, Option.isNone_iff_eq_none] at happ
        obtain ⟨hbh, happ⟩ := happ
        cases T with
        | coll k t =>
          cases o with
          | coll ck xs =>
            simp only [Bool.and_eq_true, Bool.not_eq_true'] at happ
            obtain ⟨hany, hL⟩ := happ
            have hnl := appL_noLocal w cfg t xs 0 fs hL
            rw [stD_coll_some w cfg (xs := xs) rfl] at hok
            simp only [hany, Bool.false_eq_true, if_false] at hok
            have h0 : (stDL w cfg t k.structTo.isSet 0 xs).2 = [] := by
              cases he : (stDL w cfg t k.structTo.isSet 0 xs).2 with
              | nil => rfl
              | cons a l => rw [he] at hok; simp at hok
            have hgood := stDL_good w cfg t k.structTo.isSet xs 0 fs
              (fun x hx => IHo t x (by have := List.sizeOf_lt_of_mem hx; simp; omega)) h0 hL
            rw [inject_coll hbh, noLocal_arityHere hnl, List.append_nil,
              stD_coll_some w cfg (xs := injectL xs 0 fs) rfl]
            simp only [hany, Bool.false_eq_true, if_false, isEmpty_false_of_ne (pathsI_ne_nil hne hgood.2), if_true]
            exact ⟨_, rfl, by rw [shapeOK_coll]; exact hgood.1, by simpa [paths] using hgood.2⟩
          | _ => simp at happ
        | tupleHet ts =>
          cases o with
          | coll ck xs =>
            simp only at happ
            rw [stD_tup_some w cfg (xs := xs) rfl] at hok
            have h0 : (stDT w cfg 0 ts xs).2 = [] ∧ xs.length = ts.length := by
              by_cases hl : xs.length = ts.length
              · simp only [hl, bne_self_eq_false, Bool.false_eq_true, if_false] at hok
                cases he : (stDT w cfg 0 ts xs).2 with
                | nil => exact ⟨rfl, hl⟩
                | cons a l => rw [he] at hok; simp at hok
              · have : (xs.length != ts.length) = true := by simpa using hl
                simp [this] at hok
            obtain ⟨fe, hfe, hfa, hsh, hp⟩ := stDT_good w cfg ts xs 0 fs [] rfl
              (fun t' _ x hx => IHo t' x (by have := List.sizeOf_lt_of_mem hx; simp; omega)) h0.1 happ
            rw [inject_coll hbh, stD_tup_some w cfg (xs := injectL xs 0 fs ++ arityHere fs) rfl]
            simp only [List.nil_append] at hsh
            rcases arityOK_cases hfe with rfl | ⟨ex, hex, rfl⟩
            · have ha : arityHere fs = [] := by rw [← hfa]; rfl
              rw [ha] at hsh hp ⊢
              simp only [List.append_nil, injectL_length, h0.2, bne_self_eq_false, Bool.false_eq_true, if_false,
                List.map_nil] at hsh hp ⊢
              simp only [isEmpty_false_of_ne (pathsI_ne_nil hne hp), if_true]
              exact ⟨_, rfl, by rw [shapeOK_tup]; exact hsh, by simpa [paths] using hp⟩
            · have ha : arityHere fs = ex := by rw [← hfa]; simp [arityHere]
              rw [ha] at hsh hp ⊢
              have hlen : ((injectL xs 0 fs ++ ex).length != ts.length) = true := by
                have : 0 < ex.length := by cases ex <;> simp_all
                simp only [List.length_append, injectL_length, h0.2, bne_iff_ne, ne_eq]; omega
              simp only [hlen, if_true]
              refine ⟨.ive ((stDT w cfg 0 ts (injectL xs 0 fs ++ ex)).2 ++ [(Option.none, Err.leaf)]), by simp, ?_, ?_⟩
              · rw [shapeOK_tup, shapeITup_arity]; exact hsh
              · simpa [paths, pathsI_append, pathsI, rp, Fault.reportPath] using hp
          | _ => simp at happ
        | map mk kt vt =>
          cases o with
          | dict kvs =>
            simp only [Bool.and_eq_true] at happ
            obtain ⟨⟨hidx, hndk⟩, hKV⟩ := happ
            have hnl := appKV_noLocal w cfg vt kvs fs hKV
            rw [stD_map_dict] at hok
            have h0 : (stDKV w cfg kt vt kvs).2 = [] := by
              cases he : (stDKV w cfg kt vt kvs).2 with
              | nil => rfl
              | cons a l => rw [he] at hok; simp at hok
            have hgood := stDKV_good w cfg kt vt kvs fs
              (fun p hp => IHo vt p.2 (by
                have := List.sizeOf_lt_of_mem hp
                obtain ⟨a, b⟩ := p
                simp only [Prod.mk.sizeOf_spec] at this
                simp; omega)) h0 hidx hndk hnl hKV
            rw [inject_dict hbh, noLocal_extraHere hnl, List.append_nil, stD_map_dict]
            simp only [isEmpty_false_of_ne (pathsI_ne_nil hne hgood.2), if_true]
            exact ⟨_, rfl, by rw [shapeOK_map]; exact hgood.1, by simpa [paths] using hgood.2⟩
          | _ => simp at happ
        | opt t =>
          have hon : o ≠ .none := by
            cases o <;> simp_all
          have happ' : app w cfg t o fs = true := by
            cases o <;> simp_all
          rw [stD_opt w cfg hon] at hok
          rw [stD_opt w cfg (inject_ne_none hbh hon)]
          exact bad_opt w (ihm t o fs ho (by simp at hT; omega) hne hok happ')
        | wrap k t =>
          have happ' : app w cfg t o fs = true := by
            cases o <;> simp_all
          rw [stD_wrap] at hok ⊢
          exact bad_wrap w (ihm t o fs ho (by simp at hT; omega) hne hok happ')
        | cls c =>
          cases o with
          | dict kvs =>
            simp only [Bool.and_eq_true, Bool.not_eq_true'] at happ
            obtain ⟨⟨⟨hg, hts⟩, hattr⟩, hF⟩ := happ
            rw [stD_cls_dict w cfg hts] at hok
            simp only [hg, if_true] at hok
            have h0 : (stDFields w cfg (w.fields c) kvs).2 = [] ∧
                (cfg.forbid = true → extraKeys (fieldNames (initFields (w.fields c))) kvs = []) := by
              by_cases hf : cfg.forbid = true
              · cases hex : extraKeys (fieldNames (initFields (w.fields c))) kvs with
                | nil =>
                  simp only [hf, hex, List.isEmpty_nil, Bool.not_true, Bool.and_false, Bool.false_eq_true, if_false] at hok
                  cases he : (stDFields w cfg (w.fields c) kvs).2 with
                  | nil => exact ⟨rfl, fun _ => rfl⟩
                  | cons a l => rw [he] at hok; simp at hok
                | cons a l => simp [hf, hex] at hok
              · simp only [hf, Bool.false_and, Bool.false_eq_true, if_false] at hok
                cases he : (stDFields w cfg (w.fields c) kvs).2 with
                | nil => exact ⟨rfl, fun h => absurd h hf⟩
                | cons a l => rw [he] at hok; simp at hok
            obtain ⟨fe0, hfe0, hfx0⟩ := appFields_end w cfg _ kvs _ _ hF
            have hek : ∀ f ∈ w.fields c, f.init = true → dlookup (extraHere fs) f.key = Option.none := by
              intro f hf hi
              apply hek_of_extraOK cfg hfe0 hfx0 f
              simp only [fieldNames, initFields, List.mem_map, List.mem_filter]
              exact ⟨f, ⟨hf, hi⟩, rfl⟩
            obtain ⟨fe, hfe, hfx, hsh, hp⟩ := stDFields_good w cfg _ (w.fields c) (hnd c) kvs (extraHere fs) fs hek
              (w.fields c) fs (fun f hf => hf) (hnd c) (fun f _ => ⟨rfl, rfl⟩)
              (fun f _ x t hl _ => IHo t x (by have := dlookup_lt hl; simp; omega)) h0.1 hattr hF
            have hfin := finish_cve w cfg (w.fields c) _ kvs fs hne _ fe h0.2 hfe hfx hsh hp
            rw [inject_dict hbh, stD_cls_dict w cfg hts]
            simp only [hg, if_true]
            simp only at hfin
            obtain ⟨h1, h2, h3⟩ := hfin
            rw [if_pos h1]
            exact ⟨_, rfl, by rw [shapeOK_cls]; exact h2, by simpa [paths] using h3⟩
          | _ => simp at happ
        | td c =>
          cases o with
          | dict kvs =>
            simp only [Bool.and_eq_true] at happ
            obtain ⟨⟨hg, hattr⟩, hF⟩ := happ
            rw [stD_td_dict w cfg hg] at hok
            have h0 : (stDTD w cfg (w.fields c) kvs kvs).2 = [] ∧
                (cfg.forbid = true → extraKeys (fieldNames (w.fields c)) kvs = []) := by
              by_cases hf : cfg.forbid = true
              · cases hex : extraKeys (fieldNames (w.fields c)) kvs with
                | nil =>
                  simp only [hf, hex, List.isEmpty_nil, Bool.not_true, Bool.and_false, Bool.false_eq_true, if_false] at hok
                  cases he : (stDTD w cfg (w.fields c) kvs kvs).2 with
                  | nil => exact ⟨rfl, fun _ => rfl⟩
                  | cons a l => rw [he] at hok; simp at hok
                | cons a l => simp [hf, hex] at hok
              · simp only [hf, Bool.false_and, Bool.false_eq_true, if_false] at hok
                cases he : (stDTD w cfg (w.fields c) kvs kvs).2 with
                | nil => exact ⟨rfl, fun h => absurd h hf⟩
                | cons a l => rw [he] at hok; simp at hok
            obtain ⟨fe0, hfe0, hfx0⟩ := appTD_end w cfg _ kvs _ _ hF
            have hek : ∀ f ∈ w.fields c, dlookup (extraHere fs) f.key = Option.none := by
              intro f hf
              apply hek_of_extraOK cfg hfe0 hfx0 f
              simp only [fieldNames, List.mem_map]
              exact ⟨f, hf, rfl⟩
            have h0' : (stDTD w cfg (w.fields c) kvs (injectKV kvs fs ++ extraHere fs)).2 = [] := by
              rw [stDTD_snd_res w cfg _ kvs _ kvs]; exact h0.1
            obtain ⟨fe, hfe, hfx, hsh, hp⟩ := stDTD_good w cfg _ (w.fields c) (hnd c) kvs (extraHere fs)
              (injectKV kvs fs ++ extraHere fs) fs hek
              (w.fields c) fs (fun f hf => hf) (hnd c) (fun f _ => ⟨rfl, rfl⟩)
              (fun f _ x t hl _ => IHo t x (by have := dlookup_lt hl; simp; omega)) h0' hattr hF
            have hfin := finish_cve w cfg (w.fields c) _ kvs fs hne _ fe h0.2 hfe hfx hsh hp
            rw [inject_dict hbh, stD_td_dict w cfg hg]
            simp only at hfin
            obtain ⟨h1, h2, h3⟩ := hfin
            simp only
            rw [if_pos h1]
            exact ⟨_, rfl, by rw [shapeOK_td]; exact h2, by simpa [paths] using h3⟩
          | _ => simp at happ
        | nt c =>
          cases o with
          | coll ck xs =>
            simp only [Bool.and_eq_true] at happ
            obtain ⟨hnt, happ⟩ := happ
            rw [stD_nt_some w cfg (xs := xs) rfl, if_pos hnt] at hok
            have h0 : (stDT w cfg 0 (w.ntTys c) xs).2 = [] ∧ xs.length = (w.ntTys c).length := by
              by_cases hl : xs.length = (w.ntTys c).length
              · simp only [hl, bne_self_eq_false, Bool.false_eq_true, if_false] at hok
                cases he : (stDT w cfg 0 (w.ntTys c) xs).2 with
                | nil => exact ⟨rfl, hl⟩
                | cons a l => rw [he] at hok; simp at hok
              · have : (xs.length != (w.ntTys c).length) = true := by simpa using hl
                simp [this] at hok
            obtain ⟨fe, hfe, hfa, hsh, hp⟩ := stDT_good w cfg (w.ntTys c) xs 0 fs [] rfl
              (fun t' _ x hx => IHo t' x (by have := List.sizeOf_lt_of_mem hx; simp; omega)) h0.1 happ
            rw [inject_coll hbh, stD_nt_some w cfg (xs := injectL xs 0 fs ++ arityHere fs) rfl, if_pos hnt]
            simp only [List.nil_append] at hsh
            rcases arityOK_cases hfe with rfl | ⟨ex, hex, rfl⟩
            · have ha : arityHere fs = [] := by rw [← hfa]; rfl
              rw [ha] at hsh hp ⊢
              simp only [List.append_nil, injectL_length, h0.2, bne_self_eq_false, Bool.false_eq_true, if_false,
                List.map_nil] at hsh hp ⊢
              simp only [isEmpty_false_of_ne (pathsI_ne_nil hne hp), if_true]
              exact ⟨_, rfl, by rw [shapeOK_nt]; exact hsh, by simpa [paths] using hp⟩
            · have ha : arityHere fs = ex := by rw [← hfa]; simp [arityHere]
              rw [ha] at hsh hp ⊢
              have hlen : ((injectL xs 0 fs ++ ex).length != (w.ntTys c).length) = true := by
                have : 0 < ex.length := by cases ex <;> simp_all
                simp only [List.length_append, injectL_length, h0.2, bne_iff_ne, ne_eq]; omega
              simp only [hlen, if_true]
              refine ⟨.ive ((stDT w cfg 0 (w.ntTys c) (injectL xs 0 fs ++ ex)).2 ++ [(Option.none, Err.leaf)]), by simp, ?_, ?_⟩
              · rw [shapeOK_nt, shapeITup_arity]; exact hsh
              · simpa [paths, pathsI_append, pathsI, rp, Fault.reportPath] using hp
          | _ => simp at happ
        | _ => cases o <;> simp at happ

end Paths
end CattrsModel
