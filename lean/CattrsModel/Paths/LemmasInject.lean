import CattrsModel.Paths.Lemmas
/-!
# C05 lemmas, part 2: `inject`, unfolding of `stD` / `shapeOK` at each constructor, tree readers over `++`
-/
namespace CattrsModel
namespace Paths

theorem missingHere_nil (k : Obj) : missingHere [] k = false := by cases k <;> simp [missingHere]

mutual
theorem inject_nil : ∀ o : Obj, inject o [] = o
  | .coll ck xs => by simp [inject, badHere, arityHere, injectL_nil xs 0]
  | .dict kvs => by simp [inject, badHere, extraHere, injectKV_nil kvs]
  | .none => by simp [inject, badHere]
  | .bool _ => by simp [inject, badHere]
  | .int _ => by simp [inject, badHere]
  | .flt _ => by simp [inject, badHere]
  | .str _ => by simp [inject, badHere]
  | .bytes _ => by simp [inject, badHere]
  | .enumM _ _ => by simp [inject, badHere]
  | .inst _ _ => by simp [inject, badHere]
  | .mdict _ _ => by simp [inject, badHere]
  | .opaque _ => by simp [inject, badHere]
theorem injectL_nil : ∀ (xs : List Obj) (ix : Nat), injectL xs ix [] = xs
  | [], _ => by simp [injectL]
  | x :: xs, ix => by simp [injectL, sub_nil, inject_nil x, injectL_nil xs (ix + 1)]
theorem injectKV_nil : ∀ kvs : List (Obj × Obj), injectKV kvs [] = kvs
  | [] => by simp [injectKV]
  | (k, v) :: rest => by simp [injectKV, missingHere_nil, sub_nil, inject_nil v, injectKV_nil rest]
end

theorem soleBad_some {fs : List Fault} {v : Obj} (h : soleBad fs = some v) : fs = [.badLeaf [] v] := by
  unfold soleBad at h
  split at h
  · cases h; rfl
  · cases h

theorem inject_sole {o : Obj} {fs : List Fault} {v : Obj} (h : soleBad fs = some v) : inject o fs = v := by
  rw [soleBad_some h]
  cases o <;> simp [inject, badHere]

theorem inject_coll {ck : CK} {xs : List Obj} {fs : List Fault} (h : badHere fs = Option.none) :
    inject (.coll ck xs) fs = .coll ck (injectL xs 0 fs ++ arityHere fs) := by simp [inject, h]

theorem inject_dict {kvs : List (Obj × Obj)} {fs : List Fault} (h : badHere fs = Option.none) :
    inject (.dict kvs) fs = .dict (injectKV kvs fs ++ extraHere fs) := by simp [inject, h]

theorem inject_ne_none {o : Obj} {fs : List Fault} (h : badHere fs = Option.none) (ho : o ≠ .none) :
    inject o fs ≠ .none := by
  cases o <;> simp_all [inject]

theorem int_ne {a b : Nat} (h : a ≠ b) : Obj.int (a : Int) ≠ Obj.int (b : Int) := by
  intro e; injection e with e; exact h (by omega)

theorem injectL_rest (k : Nat) (fs : List Fault) : ∀ (xs : List Obj) (j : Nat), k < j →
    injectL xs j (rest (.int k) fs) = injectL xs j fs
  | [], _, _ => by simp [injectL]
  | x :: xs, j, h => by
    simp only [injectL]
    rw [sub_rest_ne (int_ne (by omega)), injectL_rest k fs xs (j + 1) (by omega)]

theorem missingHere_rest (k k' : Obj) (fs : List Fault) : missingHere (rest k fs) k' = missingHere fs k' := by
  cases k' <;> simp only [missingHere]
  exact any_missing_rest k _ fs

theorem injectKV_rest {k : Obj} {fs : List Fault} : ∀ (kvs : List (Obj × Obj)), k ∉ keysOf kvs →
    injectKV kvs (rest k fs) = injectKV kvs fs
  | [], _ => by simp [injectKV]
  | (k', v) :: kvs, h => by
    have hne : k' ≠ k := by intro e; apply h; simp [keysOf, e]
    have hr : k ∉ keysOf kvs := by intro e; apply h; simp only [keysOf, List.map_cons, List.mem_cons]; right; exact e
    simp only [injectKV, missingHere_rest]
    rw [sub_rest_ne hne, injectKV_rest kvs hr]

theorem injectKV_noLocal {fs : List Fault} (h : NoLocal fs) (k v : Obj) (kvs : List (Obj × Obj)) :
    injectKV ((k, v) :: kvs) fs = (k, inject v (sub k fs)) :: injectKV kvs fs := by
  simp [injectKV, noLocal_missingHere h]

/-! ### `stD` at the remaining constructors -/

variable (w : World) (cfg : Cfg)

theorem stD_map_dict {mk : MK} {kt vt : Ty} {kvs : List (Obj × Obj)} :
    stD w cfg (.map mk kt vt) (.dict kvs) =
      if !(stDKV w cfg kt vt kvs).2.isEmpty then .error (.ive (stDKV w cfg kt vt kvs).2)
      else .ok (mapRes cfg mk (mkDict (stDKV w cfg kt vt kvs).1)) := by
  rw [stD]

theorem stD_opt {t : Ty} {o : Obj} (h : o ≠ .none) : stD w cfg (.opt t) o = stD w cfg t o := by
  cases o <;> first | exact absurd rfl h | (rw [stD]; intro e; cases e)

theorem stD_wrap {k : WK} {t : Ty} {o : Obj} : stD w cfg (.wrap k t) o = stD w cfg t o := by
  rw [stD]

theorem stD_td_dict {c : Nat} {kvs : List (Obj × Obj)} (hg : cfg.gen = true) :
    stD w cfg (.td c) (.dict kvs) =
      (let errs := if cfg.forbid && !(extraKeys (fieldNames (w.fields c)) kvs).isEmpty
          then (stDTD w cfg (w.fields c) kvs kvs).2 ++ [(Option.none, Err.extra (extraKeys (fieldNames (w.fields c)) kvs))]
          else (stDTD w cfg (w.fields c) kvs kvs).2
       if !errs.isEmpty then .error (.cve errs) else .ok (.dict (stDTD w cfg (w.fields c) kvs kvs).1)) := by
  rw [stD]; simp only [hg, Bool.not_true, Bool.false_eq_true, if_false]

/-! ### shapes -/

theorem shapeOK_leaf (T : Ty) : shapeOK w T .leaf = true := by
  cases T <;> simp [shapeOK]

theorem shapeOK_opt (t : Ty) (e : Err) : shapeOK w (.opt t) e = shapeOK w t e := by
  cases e <;> simp [shapeOK, shapeOK_leaf]

theorem shapeOK_wrap (k : WK) (t : Ty) (e : Err) : shapeOK w (.wrap k t) e = shapeOK w t e := by
  cases e <;> simp [shapeOK, shapeOK_leaf]

theorem shapeOK_coll (k : SK) (t : Ty) (es) : shapeOK w (.coll k t) (.ive es) = shapeIColl w t es := by
  simp [shapeOK]
theorem shapeOK_tup (ts : List Ty) (es) : shapeOK w (.tupleHet ts) (.ive es) = shapeITup w ts es := by
  simp [shapeOK]
theorem shapeOK_nt (c : Nat) (es) : shapeOK w (.nt c) (.ive es) = shapeITup w (w.ntTys c) es := by
  simp [shapeOK]
theorem shapeOK_map (k : MK) (kt vt : Ty) (es) : shapeOK w (.map k kt vt) (.ive es) = shapeIMap w kt vt es := by
  simp [shapeOK]
theorem shapeOK_cls (c : Nat) (es) : shapeOK w (.cls c) (.cve es) = shapeC w (w.fields c) es := by
  simp [shapeOK]
theorem shapeOK_td (c : Nat) (es) : shapeOK w (.td c) (.cve es) = shapeC w (w.fields c) es := by
  simp [shapeOK]

theorem pathsI_append : ∀ (a b : List (Option Obj × Err)), pathsI (a ++ b) = pathsI a ++ pathsI b
  | [], b => by simp [pathsI]
  | (some k, e) :: a, b => by simp [pathsI, pathsI_append a b]
  | (Option.none, e) :: a, b => by simp [pathsI, pathsI_append a b]

theorem pathsC_append : ∀ (a b : List (Option String × Err)), pathsC (a ++ b) = pathsC a ++ pathsC b
  | [], b => by simp [pathsC]
  | (some k, e) :: a, b => by simp [pathsC, pathsC_append a b]
  | (Option.none, e) :: a, b => by simp [pathsC, pathsC_append a b]

theorem shapeC_append (fds : List Field) : ∀ (a b : List (Option String × Err)),
    shapeC w fds (a ++ b) = (shapeC w fds a && shapeC w fds b)
  | [], b => by simp [shapeC]
  | (some k, e) :: a, b => by simp [shapeC, shapeC_append fds a b, Bool.and_assoc]
  | (Option.none, e) :: a, b => by simp [shapeC, shapeC_append fds a b, Bool.and_assoc]

theorem shapeITup_arity (ts : List Ty) : ∀ (a : List (Option Obj × Err)),
    shapeITup w ts (a ++ [(Option.none, Err.leaf)]) = shapeITup w ts a
  | [] => by simp [shapeITup, errIsLeaf]
  | (some (.int i), e) :: a => by simp [shapeITup, shapeITup_arity ts a]
  | (Option.none, e) :: a => by simp [shapeITup, shapeITup_arity ts a]
  | (some .none, e) :: a => by simp [shapeITup]
  | (some (.bool _), e) :: a => by simp [shapeITup]
  | (some (.flt _), e) :: a => by simp [shapeITup]
  | (some (.str _), e) :: a => by simp [shapeITup]
  | (some (.bytes _), e) :: a => by simp [shapeITup]
  | (some (.enumM _ _), e) :: a => by simp [shapeITup]
  | (some (.coll _ _), e) :: a => by simp [shapeITup]
  | (some (.dict _), e) :: a => by simp [shapeITup]
  | (some (.inst _ _), e) :: a => by simp [shapeITup]
  | (some (.mdict _ _), e) :: a => by simp [shapeITup]
  | (some (.opaque _), e) :: a => by simp [shapeITup]

end Paths
end CattrsModel
