import CattrsModel.GenHook.NestedUnfold
import CattrsModel.GenHook.Transfer4
/-!
# Nesting and `forbid_extra_keys`: vocabulary, collections, the world with forbidding switched off, fuel
-/
namespace CattrsModel
namespace GenHook

/-- **Some forbidding class position of the payload got an extra key** -- positions as the hooks reach them:
from a class position through the entries of the handled attributes without a custom structure hook, through
optionals, wrappers and the items of collections.  (A forbidding attrs/dataclass/NamedTuple position whose payload
is not a mapping counts too: the check `set(o.keys())` itself raises.) -/
def hits (g : GWorld) : Nat → Option Ty → Obj → Bool
  | 0, _, _ => false
  | _ + 1, none, _ => false
  | n + 1, some t, p =>
    if !tyHasCls t then false
    else match t with
      | .cls c => (match g.classes[c]? with
          | some k =>
            (k.hc.forbid && (match extrasOf (allowedKeys k.hc k.attrs) p with
                             | none => true
                             | some ex => !ex.isEmpty)) ||
            k.attrs.any (fun a => included k.hc a && (ovOf k.hc a).sh.isNone &&
              (match pyGet p (keyName k.hc a) with | some v => hits g n a.ty v | none => false))
          | none => false)
      | .td c => (match g.classes[c]?, p with
          | some k, .dict kvs =>
            (k.hc.forbid && !(extraKeys (tdAllowed k.hc k.attrs) kvs).isEmpty) ||
            k.attrs.any (fun a => tdIncluded k.hc a && (ovOf k.hc a).sh.isNone &&
              (match dlookup kvs (.str (tdKey k.hc a)) with | some v => hits g n a.ty v | none => false))
          | _, _ => false)
      | .opt t' => (match p with | .none => false | _ => hits g n (some t') p)
      | .wrap _ t' => hits g n (some t') p
      | .coll _ t' => (match iterItems p with | some xs => xs.any (hits g n (some t')) | none => false)
      | _ => false

/-! ### the world with forbidding off -/

def GCls.off (k : GCls) : GCls := { k with hc := { k.hc with forbid := false } }

theorem off_classes (g : GWorld) (c : Nat) : g.off.classes[c]? = (g.classes[c]?).map GCls.off := by
  simp only [GWorld.off, List.getElem?_map]
  rfl

theorem off_detailed (g : GWorld) : g.off.detailed = g.detailed := rfl
theorem off_core (g : GWorld) : g.off.core = g.core := rfl

/-- the `forbid` field of a hook configuration is read by `hstCls` / `hstTD` only -/
def HookCfg.noForbid (hc : HookCfg) : HookCfg := { hc with forbid := false }

theorem phase_noForbid (st : StFn) (hc : HookCfg) (fa : Bool) (o : Obj) (sel : Attr → Bool) : ∀ as : List Attr,
    phase st hc.noForbid fa o sel as = phase st hc fa o sel as := by
  intro as
  induction as with
  | nil => rfl
  | cons a as ih =>
    simp only [phase, ih]
    rfl

theorem hstTDStepsD_noForbid (st : StFn) (hc : HookCfg) (kvs : List (Obj × Obj)) : ∀ (as : List Attr) (res : List (Obj × Obj)),
    hstTDStepsD st hc.noForbid kvs as res = hstTDStepsD st hc kvs as res := by
  intro as
  induction as with
  | nil => intro res; rfl
  | cons a as ih =>
    intro res
    simp only [hstTDStepsD, ih]
    rfl

theorem hstTDStepsF_noForbid (st : StFn) (hc : HookCfg) (kvs : List (Obj × Obj)) (sel : Attr → Bool) :
    ∀ (as : List Attr) (res : List (Obj × Obj)),
    hstTDStepsF st hc.noForbid kvs sel as res = hstTDStepsF st hc kvs sel as res := by
  intro as
  induction as with
  | nil => intro res; rfl
  | cons a as ih =>
    intro res
    simp only [hstTDStepsF, ih]
    rfl

theorem hstTDOptF_noForbid (st : StFn) (hc : HookCfg) (kvs : List (Obj × Obj)) : ∀ (as : List Attr) (res : List (Obj × Obj)),
    hstTDOptF st hc.noForbid kvs as res = hstTDOptF st hc kvs as res := by
  intro as
  induction as with
  | nil => intro res; rfl
  | cons a as ih =>
    intro res
    simp only [hstTDOptF, ih]
    rfl

theorem tdPops_noForbid (hc : HookCfg) : ∀ (as : List Attr) (res : List (Obj × Obj)),
    tdPops hc.noForbid as res = tdPops hc as res := by
  intro as
  induction as with
  | nil => intro res; rfl
  | cons a as ih =>
    intro res
    simp only [tdPops, ih]
    rfl

theorem hstCls_off (st : StFn) (ci : Nat) (k : GCls) (o : Obj) : hstCls st ci k.off o = hstClsWith false st ci k o := by
  show hstClsWith false st ci k.off o = hstClsWith false st ci k o
  have e : k.off.hc = k.hc.noForbid := rfl
  simp only [hstClsWith, hstClsD, hstClsF, e, phase_noForbid]
  rfl

theorem hstTD_off (st : StFn) (ci : Nat) (k : GCls) (o : Obj) : hstTD st ci k.off o = hstTDWith false st ci k o := by
  show hstTDWith false st ci k.off o = hstTDWith false st ci k o
  have e : k.off.hc = k.hc.noForbid := rfl
  cases o <;> simp only [hstTDWith, hstTDD, hstTDF, e, hstTDStepsD_noForbid, hstTDStepsF_noForbid, hstTDOptF_noForbid,
    tdPops_noForbid] <;> rfl

/-! ### collections -/

theorem collectD_nil_oks (w : World) (s : Bool) : ∀ (rs : List HRes) (ix : Nat), (collectD w s ix rs).2 = [] →
    ∀ r ∈ rs, ∃ v, r = .ok v := by
  intro rs
  induction rs with
  | nil => intro _ _ r hr; cases hr
  | cons r rs ih =>
    intro ix h r' hr'
    cases r with
    | error e => simp [collectD] at h
    | ok y =>
      simp only [collectD] at h
      have hrest : (collectD w s (ix + 1) rs).2 = [] := by
        split at h
        · simp at h
        · exact h
      rcases List.mem_cons.mp hr' with rfl | hr'
      · exact ⟨y, rfl⟩
      · exact ih (ix + 1) hrest r' hr'

theorem collectF_ok_oks : ∀ (rs : List HRes) (ys : List Obj), collectF rs = .ok ys → ∀ r ∈ rs, ∃ v, r = .ok v := by
  intro rs
  induction rs with
  | nil => intro _ _ r hr; cases hr
  | cons r rs ih =>
    intro ys h r' hr'
    cases r with
    | error e => simp [collectF] at h
    | ok y =>
      simp only [collectF] at h
      cases hc : collectF rs with
      | error e => rw [hc] at h; cases h
      | ok zs =>
        rcases List.mem_cons.mp hr' with rfl | hr'
        · exact ⟨y, rfl⟩
        · exact ih zs hc r' hr'

/-- the collection hook is a function of the outcomes of its items -/
theorem stTy_coll_congr (g g' : GWorld) (n n' : Nat) {t' : Ty} (ht : tyHasCls t' = true) (k : SK) {p : Obj} {xs : List Obj}
    (hi : iterItems p = some xs) (hd : g'.detailed = g.detailed) (hc : g'.core = g.core)
    (hm : xs.map (stTy g' n' (some t')) = xs.map (stTy g n (some t'))) :
    stTy g' (n' + 1) (some (.coll k t')) p = stTy g (n + 1) (some (.coll k t')) p := by
  simp [stTy, tyHasCls, ht, hi, hd, hc, hm]

/-- a collection hook that succeeds structured every item -/
theorem stTy_coll_ok_items (g : GWorld) (n : Nat) {t' : Ty} (ht : tyHasCls t' = true) (k : SK) {p y : Obj}
    (h : stTy g (n + 1) (some (.coll k t')) p = .ok y) :
    ∃ xs, iterItems p = some xs ∧ ∀ x ∈ xs, ∃ v, stTy g n (some t') x = .ok v := by
  cases hi : iterItems p with
  | none => rw [stTy_coll_none g n ht k hi] at h; cases h
  | some xs =>
    refine ⟨xs, rfl, ?_⟩
    intro x hx
    cases hd : g.detailed with
    | true =>
      rw [stTy_coll_D g n ht k hi hd] at h
      split at h
      · rename_i hnil
        exact collectD_nil_oks _ _ _ 0 hnil _ (List.mem_map.mpr ⟨x, hx, rfl⟩)
      · cases h
    | false =>
      cases hc : collectF (xs.map (stTy g n (some t'))) with
      | error e => rw [stTy_coll_F_err g n ht k hi hd hc] at h; cases h
      | ok ys => exact collectF_ok_oks _ ys hc _ (List.mem_map.mpr ⟨x, hx, rfl⟩)

end GenHook
end CattrsModel
