import CattrsModel.GenHook.Transfer2
/-!
# Changing the handlers under the TypedDict templates
-/
namespace CattrsModel
namespace GenHook

/-- handlers `st'` answer as `st` wherever `st` succeeds on the entry of key `a` of the payload -/
def TDAttrLe (st st' : StFn) (hc : HookCfg) (kvs : List (Obj × Obj)) (a : Attr) : Prop :=
  ∀ x y, dlookup kvs (.str (tdKey hc a)) = some x → attrSt st (ovOf hc a) a x = .ok y → attrSt st' (ovOf hc a) a x = .ok y

section TD
variable {st st' : StFn} {hc : HookCfg} {kvs : List (Obj × Obj)}

theorem tdStep_transfer {a : Attr} {res : List (Obj × Obj)} (hT : TDAttrLe st st' hc kvs a)
    (hne : ∀ e, tdStep st hc kvs a res ≠ .err e) : tdStep st' hc kvs a res = tdStep st hc kvs a res := by
  simp only [tdStep] at hne ⊢
  split
  · rfl
  · rename_i hreq
    simp only [hreq, if_false] at hne
    cases hl : dlookup kvs (.str (tdKey hc a)) with
    | none => rfl
    | some x =>
      cases hs : attrSt st (ovOf hc a) a x with
      | ok v => simp only [hT x v hl hs, hs]
      | error e => rw [hl] at hne; simp [hs] at hne

theorem tdStep_reads {a : Attr} {res : List (Obj × Obj)} (hne : ∀ e, tdStep st hc kvs a res ≠ .err e)
    {x : Obj} (hx : dlookup kvs (.str (tdKey hc a)) = some x) : ∃ v, attrSt st (ovOf hc a) a x = .ok v := by
  cases hs : attrSt st (ovOf hc a) a x with
  | ok v => exact ⟨v, rfl⟩
  | error e =>
    exfalso
    apply hne e
    simp [tdStep, dhas, hx, hs]

theorem tdStepOpt_transfer {a : Attr} {res : List (Obj × Obj)} (hT : TDAttrLe st st' hc kvs a)
    (hne : ∀ e, tdStepOpt st hc kvs a res ≠ .err e) : tdStepOpt st' hc kvs a res = tdStepOpt st hc kvs a res := by
  simp only [tdStepOpt] at hne ⊢
  split
  · rfl
  · rename_i hreq
    simp only [hreq, if_false] at hne
    cases hl : dlookup kvs (.str (tdKey hc a)) with
    | none => rfl
    | some x =>
      cases hs : attrSt st (ovOf hc a) a x with
      | ok v => simp only [hT x v hl hs, hs]
      | error e => rw [hl] at hne; simp [hs] at hne

theorem tdStepOpt_reads {a : Attr} {res : List (Obj × Obj)} (hne : ∀ e, tdStepOpt st hc kvs a res ≠ .err e)
    {x : Obj} (hx : dlookup kvs (.str (tdKey hc a)) = some x) : ∃ v, attrSt st (ovOf hc a) a x = .ok v := by
  cases hs : attrSt st (ovOf hc a) a x with
  | ok v => exact ⟨v, rfl⟩
  | error e =>
    exfalso
    apply hne e
    simp [tdStepOpt, dhas, hx, hs]

theorem hstTDStepsD_transfer : ∀ (as : List Attr) (res : List (Obj × Obj)),
    (∀ a ∈ as, tdIncluded hc a = true → TDAttrLe st st' hc kvs a) → (hstTDStepsD st hc kvs as res).2 = [] →
    hstTDStepsD st' hc kvs as res = hstTDStepsD st hc kvs as res ∧
    ∀ a ∈ as, tdIncluded hc a = true → ∀ x, dlookup kvs (.str (tdKey hc a)) = some x → ∃ v, attrSt st (ovOf hc a) a x = .ok v := by
  intro as
  induction as with
  | nil => intro res _ _; exact ⟨rfl, fun a ha => by cases ha⟩
  | cons b as ih =>
    intro res hT hnil
    have ihT := fun a ha => hT a (List.mem_cons_of_mem _ ha)
    simp only [hstTDStepsD] at hnil ⊢
    by_cases hi : tdIncluded hc b = true
    · simp only [hi, Bool.not_true, Bool.false_eq_true, if_false] at hnil ⊢
      have hne : ∀ e, tdStep st hc kvs b res ≠ .err e := by
        intro e he; rw [he] at hnil; simp at hnil
      rw [tdStep_transfer (hT b (List.mem_cons_self ..) hi) hne]
      have key : ∀ res', (hstTDStepsD st hc kvs as res').2 = [] →
          (hstTDStepsD st' hc kvs as res' = hstTDStepsD st hc kvs as res') ∧
          ∀ a ∈ b :: as, tdIncluded hc a = true → ∀ x, dlookup kvs (.str (tdKey hc a)) = some x →
            ∃ v, attrSt st (ovOf hc a) a x = .ok v := by
        intro res' h'
        obtain ⟨e1, e2⟩ := ih res' ihT h'
        refine ⟨e1, ?_⟩
        intro a ha hia x hx
        rcases List.mem_cons.mp ha with rfl | ha'
        · exact tdStep_reads hne hx
        · exact e2 a ha' hia x hx
      cases hstep : tdStep st hc kvs b res with
      | skip => rw [hstep] at hnil; exact key res hnil
      | ok res' => rw [hstep] at hnil; exact key res' hnil
      | err e => exact absurd hstep (hne e)
    · simp only [hi, Bool.not_false, if_true] at hnil ⊢
      obtain ⟨e1, e2⟩ := ih res ihT hnil
      refine ⟨e1, ?_⟩
      intro a ha hia x hx
      rcases List.mem_cons.mp ha with rfl | ha'
      · exact absurd hia hi
      · exact e2 a ha' hia x hx

theorem hstTDStepsF_transfer (sel : Attr → Bool) : ∀ (as : List Attr) (res r : List (Obj × Obj)),
    (∀ a ∈ as, tdIncluded hc a = true → TDAttrLe st st' hc kvs a) → hstTDStepsF st hc kvs sel as res = .ok r →
    hstTDStepsF st' hc kvs sel as res = .ok r ∧
    ∀ a ∈ as, tdIncluded hc a = true → sel a = true → ∀ x, dlookup kvs (.str (tdKey hc a)) = some x →
      ∃ v, attrSt st (ovOf hc a) a x = .ok v := by
  intro as
  induction as with
  | nil => intro res r _ h; exact ⟨h, fun a ha => by cases ha⟩
  | cons b as ih =>
    intro res r hT h
    have ihT := fun a ha => hT a (List.mem_cons_of_mem _ ha)
    simp only [hstTDStepsF] at h ⊢
    by_cases hi : (tdIncluded hc b && sel b) = true
    · simp only [hi, Bool.not_true, Bool.false_eq_true, if_false] at h ⊢
      have hib : tdIncluded hc b = true := by simp only [Bool.and_eq_true] at hi; exact hi.1
      have hne : ∀ e, tdStep st hc kvs b res ≠ .err e := by
        intro e he; rw [he] at h; cases h
      rw [tdStep_transfer (hT b (List.mem_cons_self ..) hib) hne]
      have key : ∀ res', hstTDStepsF st hc kvs sel as res' = .ok r →
          hstTDStepsF st' hc kvs sel as res' = .ok r ∧
          ∀ a ∈ b :: as, tdIncluded hc a = true → sel a = true → ∀ x, dlookup kvs (.str (tdKey hc a)) = some x →
            ∃ v, attrSt st (ovOf hc a) a x = .ok v := by
        intro res' h'
        obtain ⟨e1, e2⟩ := ih res' r ihT h'
        refine ⟨e1, ?_⟩
        intro a ha hia hsa x hx
        rcases List.mem_cons.mp ha with rfl | ha'
        · exact tdStep_reads hne hx
        · exact e2 a ha' hia hsa x hx
      cases hstep : tdStep st hc kvs b res with
      | skip => rw [hstep] at h; exact key res h
      | ok res' => rw [hstep] at h; exact key res' h
      | err e => exact absurd hstep (hne e)
    · simp only [hi, Bool.not_false, if_true] at h ⊢
      obtain ⟨e1, e2⟩ := ih res r ihT h
      refine ⟨e1, ?_⟩
      intro a ha hia hsa x hx
      rcases List.mem_cons.mp ha with rfl | ha'
      · exact absurd (by simp [hia, hsa]) hi
      · exact e2 a ha' hia hsa x hx

theorem hstTDOptF_transfer : ∀ (as : List Attr) (res r : List (Obj × Obj)),
    (∀ a ∈ as, tdIncluded hc a = true → TDAttrLe st st' hc kvs a) → hstTDOptF st hc kvs as res = .ok r →
    hstTDOptF st' hc kvs as res = .ok r ∧
    ∀ a ∈ as, tdIncluded hc a = true → a.required = false → ∀ x, dlookup kvs (.str (tdKey hc a)) = some x →
      ∃ v, attrSt st (ovOf hc a) a x = .ok v := by
  intro as
  induction as with
  | nil => intro res r _ h; exact ⟨h, fun a ha => by cases ha⟩
  | cons b as ih =>
    intro res r hT h
    have ihT := fun a ha => hT a (List.mem_cons_of_mem _ ha)
    simp only [hstTDOptF] at h ⊢
    by_cases hi : (tdIncluded hc b && !b.required) = true
    · simp only [hi, Bool.not_true, Bool.false_eq_true, if_false] at h ⊢
      have hib : tdIncluded hc b = true := by simp only [Bool.and_eq_true] at hi; exact hi.1
      have hne : ∀ e, tdStepOpt st hc kvs b res ≠ .err e := by
        intro e he; rw [he] at h; cases h
      rw [tdStepOpt_transfer (hT b (List.mem_cons_self ..) hib) hne]
      have key : ∀ res', hstTDOptF st hc kvs as res' = .ok r →
          hstTDOptF st' hc kvs as res' = .ok r ∧
          ∀ a ∈ b :: as, tdIncluded hc a = true → a.required = false → ∀ x, dlookup kvs (.str (tdKey hc a)) = some x →
            ∃ v, attrSt st (ovOf hc a) a x = .ok v := by
        intro res' h'
        obtain ⟨e1, e2⟩ := ih res' r ihT h'
        refine ⟨e1, ?_⟩
        intro a ha hia hsa x hx
        rcases List.mem_cons.mp ha with rfl | ha'
        · exact tdStepOpt_reads hne hx
        · exact e2 a ha' hia hsa x hx
      cases hstep : tdStepOpt st hc kvs b res with
      | skip => rw [hstep] at h; exact key res h
      | ok res' => rw [hstep] at h; exact key res' h
      | err e => exact absurd hstep (hne e)
    · simp only [hi, Bool.not_false, if_true] at h ⊢
      obtain ⟨e1, e2⟩ := ih res r ihT h
      refine ⟨e1, ?_⟩
      intro a ha hia hsa x hx
      rcases List.mem_cons.mp ha with rfl | ha'
      · exact absurd (by simp [hia, hsa]) hi
      · exact e2 a ha' hia hsa x hx

end TD

end GenHook
end CattrsModel
