import CattrsModel.GenHook.Lemmas
/-!
# Round trip of the generated hooks of attrs classes / dataclasses / NamedTuples
-/
namespace CattrsModel
namespace GenHook

/-! ### reading the emitted dict -/

theorem unPart_cons (un : UnFn) (hc : HookCfg) (post : Bool) (a : Attr) (as : List Attr) (n : String) (v : Obj)
    (fs : List (String × Obj)) :
    unPart un hc post (a :: as) ((n, v) :: fs) =
      if (included hc a && (if oidApplies hc a then post && !defaultEq a v else !post)) = true then
        (Obj.str (keyName hc a), attrUn un (ovOf hc a) a v) :: unPart un hc post as fs
      else unPart un hc post as fs := by
  simp only [unPart]

theorem dlookup_unPart_none (un : UnFn) (hc : HookCfg) (post : Bool) (k : String) :
    ∀ (as : List Attr) (fs : List (String × Obj)), (∀ a ∈ as, included hc a = true → keyName hc a ≠ k) →
      dlookup (unPart un hc post as fs) (.str k) = none := by
  intro as
  induction as with
  | nil => intro fs _; simp [unPart, dlookup]
  | cons a as ih =>
    intro fs h
    cases fs with
    | nil => rfl
    | cons p fs =>
      obtain ⟨n, v⟩ := p
      have ih' := ih fs (fun b hb => h b (List.mem_cons_of_mem _ hb))
      rw [unPart_cons]
      by_cases hc1 : (included hc a && (if oidApplies hc a then post && !defaultEq a v else !post)) = true
      · rw [if_pos hc1]
        simp only [Bool.and_eq_true] at hc1
        rw [dlookup_cons_str]
        have : keyName hc a ≠ k := h a (List.mem_cons_self ..) hc1.1
        simp [this, ih']
      · rw [if_neg hc1]; exact ih'

/-- the condition under which an attribute lands in the literal (`post = false`) / the assignments (`post = true`) -/
def partCond (hc : HookCfg) (post : Bool) (a : Attr) (v : Obj) : Bool :=
  if oidApplies hc a then post && !defaultEq a v else !post

theorem dlookup_unPart (un : UnFn) (hc : HookCfg) (post : Bool) :
    ∀ (as : List Attr) (fs : List (String × Obj)), ((as.filter (included hc)).map (keyName hc)).Nodup →
      ∀ p ∈ as.zip fs, included hc p.1 = true →
        dlookup (unPart un hc post as fs) (.str (keyName hc p.1)) =
          if partCond hc post p.1 p.2.2 then some (attrUn un (ovOf hc p.1) p.1 p.2.2) else none := by
  intro as
  induction as with
  | nil => intro fs _ p hp; simp at hp
  | cons a as ih =>
    intro fs hnd p hp hi
    cases fs with
    | nil => simp at hp
    | cons q fs =>
      obtain ⟨n, v⟩ := q
      simp only [List.zip_cons_cons, List.mem_cons] at hp
      have hK' : ((as.filter (included hc)).map (keyName hc)).Nodup := by
        by_cases hia : included hc a = true
        · simp only [List.filter_cons, hia, if_true, List.map_cons, List.nodup_cons] at hnd; exact hnd.2
        · simpa [List.filter_cons, hia] using hnd
      have hnotin : included hc a = true → ∀ b ∈ as, included hc b = true → keyName hc b ≠ keyName hc a := by
        intro hia b hb hib e
        simp only [List.filter_cons, hia, if_true, List.map_cons, List.nodup_cons] at hnd
        exact hnd.1 (List.mem_map.mpr ⟨b, List.mem_filter.mpr ⟨hb, hib⟩, e⟩)
      rw [unPart_cons]
      rcases hp with hp | hp
      · subst hp
        show dlookup (if (included hc a && partCond hc post a v) = true then _ else _) _ = _
        simp only at hi
        simp only [hi, Bool.true_and]
        by_cases hc1 : partCond hc post a v = true
        · rw [if_pos hc1, if_pos hc1, dlookup_cons_str]; simp
        · rw [if_neg hc1, if_neg hc1]
          exact dlookup_unPart_none un hc post _ as fs (hnotin hi)
      · have hpa : p.1 ∈ as := (List.of_mem_zip hp).1
        by_cases hc1 : (included hc a && (if oidApplies hc a then post && !defaultEq a v else !post)) = true
        · rw [if_pos hc1]
          simp only [Bool.and_eq_true] at hc1
          rw [dlookup_cons_str]
          have : keyName hc a ≠ keyName hc p.1 := fun e => hnotin hc1.1 p.1 hpa hi e.symm
          simp only [Obj.str.injEq, this, if_false]
          exact ih fs hK' p hp hi
        · rw [if_neg hc1]; exact ih fs hK' p hp hi

theorem opt_or_helper {α : Type} (b1 b2 : Bool) (x : α) :
    (if b1 = true then some x else none).or (if b2 = true then some x else none) =
      if (b1 || b2) = true then some x else none := by
  cases b1 <;> cases b2 <;> rfl

theorem partCond_or (hc : HookCfg) (a : Attr) (v : Obj) :
    (partCond hc false a v || partCond hc true a v) = emitted hc a v := by
  simp only [partCond, emitted]
  cases oidApplies hc a <;> cases defaultEq a v <;> rfl

theorem dlookup_emitted (un : UnFn) (hc : HookCfg) (as : List Attr) (fs : List (String × Obj))
    (hnd : ((as.filter (included hc)).map (keyName hc)).Nodup) (p : Attr × String × Obj) (hp : p ∈ as.zip fs)
    (hi : included hc p.1 = true) :
    dlookup (unPart un hc false as fs ++ unPart un hc true as fs) (.str (keyName hc p.1)) =
      if emitted hc p.1 p.2.2 then some (attrUn un (ovOf hc p.1) p.1 p.2.2) else none := by
  rw [dlookup_append, dlookup_unPart un hc false as fs hnd p hp hi, dlookup_unPart un hc true as fs hnd p hp hi,
    opt_or_helper, partCond_or]

theorem extraKeys_emitted_nil (un : UnFn) (hc : HookCfg) (as : List Attr) (fs : List (String × Obj)) :
    extraKeys (allowedKeys hc as) (unPart un hc false as fs ++ unPart un hc true as fs) = [] := by
  simp only [extraKeys, List.filter_eq_nil_iff, Bool.not_eq_true, Bool.not_eq_false', keysOf_append, keysOf_unPart,
    List.mem_append, List.mem_map]
  rintro k (⟨s, hs, rfl⟩ | ⟨s, hs, rfl⟩)
  · apply memPy_of_mem
    simp only [allowedKeys, List.mem_map]
    have := mem_expectedPart hc false as fs hs
    simp only [List.mem_map] at this
    obtain ⟨a, ha, rfl⟩ := this
    exact ⟨a, ha, rfl⟩
  · apply memPy_of_mem
    simp only [allowedKeys, List.mem_map]
    have := mem_expectedPart hc true as fs hs
    simp only [List.mem_map] at this
    obtain ⟨a, ha, rfl⟩ := this
    exact ⟨a, ha, rfl⟩

/-! ### one block, one phase -/

theorem oidApplies_hasDefault {hc : HookCfg} {a : Attr} (h : a.hasDefault = false) : oidApplies hc a = false := by
  simp [oidApplies, h]

theorem step_roundtrip (un : UnFn) (st : StFn) (hc : HookCfg) (as : List Attr) (fs : List (String × Obj))
    (hnd : ((as.filter (included hc)).map (keyName hc)).Nodup) (rt : Attr → Obj → Obj)
    (p : Attr × String × Obj) (hp : p ∈ as.zip fs) (hi : included hc p.1 = true)
    (hrt : emitted hc p.1 p.2.2 = true →
      attrSt st (ovOf hc p.1) p.1 (attrUn un (ovOf hc p.1) p.1 p.2.2) = .ok (rt p.1 p.2.2)) :
    step st hc false (.dict (unPart un hc false as fs ++ unPart un hc true as fs)) p.1 =
      if emitted hc p.1 p.2.2 then .val (rt p.1 p.2.2) else .skip := by
  have hl := dlookup_emitted un hc as fs hnd p hp hi
  simp only [step, pyGet, pyContains, dhas, hl]
  by_cases he : emitted hc p.1 p.2.2 = true
  · simp only [he, if_true, hrt he, Option.isSome_some]
    split <;> simp
  · have hd : p.1.hasDefault = true := by
      cases h : p.1.hasDefault with
      | true => rfl
      | false => simp [emitted, oidApplies_hasDefault h] at he
    simp [he, hd]

/-- values a phase collects on the emitted dict -/
def phaseVals (hc : HookCfg) (rt : Attr → Obj → Obj) (sel : Attr → Bool) : List Attr → List (String × Obj) → List (String × Obj)
  | a :: as, (_, v) :: fs =>
      if sel a && emitted hc a v then (a.name, rt a v) :: phaseVals hc rt sel as fs else phaseVals hc rt sel as fs
  | _, _ => []

theorem phase_roundtrip (st : StFn) (hc : HookCfg) (fa : Bool) (o : Obj) (rt : Attr → Obj → Obj) (sel : Attr → Bool) :
    ∀ (as : List Attr) (fs : List (String × Obj)), fs.length = as.length →
      (∀ p ∈ as.zip fs, sel p.1 = true → step st hc fa o p.1 = if emitted hc p.1 p.2.2 then .val (rt p.1 p.2.2) else .skip) →
      phase st hc fa o sel as = (phaseVals hc rt sel as fs, []) := by
  intro as
  induction as with
  | nil => intro fs _ _; cases fs <;> rfl
  | cons a as ih =>
    intro fs hlen h
    cases fs with
    | nil => simp at hlen
    | cons q fs =>
      obtain ⟨n, v⟩ := q
      have ih' := ih fs (by simpa using hlen) (fun p hp => h p (by simp [hp]))
      simp only [phase, phaseVals]
      by_cases hs : sel a = true
      · have := h (a, n, v) (by simp) hs
        simp only at this
        simp only [hs, Bool.not_true, Bool.false_eq_true, if_false, this, Bool.true_and]
        by_cases he : emitted hc a v = true
        · simp [he, ih']
        · simp [he, ih']
      · simp [hs, ih']

theorem phase_none_selected (st : StFn) (hc : HookCfg) (fa : Bool) (o : Obj) (sel : Attr → Bool) :
    ∀ (as : List Attr), (∀ a ∈ as, sel a = false) → phase st hc fa o sel as = ([], []) := by
  intro as
  induction as with
  | nil => intro _; rfl
  | cons a as ih =>
    intro h
    simp [phase, h a (List.mem_cons_self ..), ih (fun b hb => h b (List.mem_cons_of_mem _ hb))]

theorem phaseVals_none_selected (hc : HookCfg) (rt : Attr → Obj → Obj) (sel : Attr → Bool) :
    ∀ (as : List Attr) (fs : List (String × Obj)), (∀ a ∈ as, sel a = false) → phaseVals hc rt sel as fs = [] := by
  intro as
  induction as with
  | nil => intro fs _; cases fs <;> rfl
  | cons a as ih =>
    intro fs h
    cases fs with
    | nil => rfl
    | cons q fs =>
      simp [phaseVals, h a (List.mem_cons_self ..), ih fs (fun b hb => h b (List.mem_cons_of_mem _ hb))]

/-! ### looking values up by attribute name -/

theorem lookup_phaseVals_none (hc : HookCfg) (rt : Attr → Obj → Obj) (sel : Attr → Bool) (n : String) :
    ∀ (as : List Attr) (fs : List (String × Obj)), (∀ a ∈ as, a.name ≠ n) → (phaseVals hc rt sel as fs).lookup n = none := by
  intro as
  induction as with
  | nil => intro fs _; cases fs <;> rfl
  | cons a as ih =>
    intro fs h
    cases fs with
    | nil => rfl
    | cons q fs =>
      have ih' := ih fs (fun b hb => h b (List.mem_cons_of_mem _ hb))
      simp only [phaseVals]
      split
      · have : (n == a.name) = false := by
          have := h a (List.mem_cons_self ..)
          simpa using fun e : n = a.name => this e.symm
        simp [List.lookup, this, ih']
      · exact ih'

theorem lookup_phaseVals (hc : HookCfg) (rt : Attr → Obj → Obj) (sel : Attr → Bool) :
    ∀ (as : List Attr) (fs : List (String × Obj)), (as.map (·.name)).Nodup → ∀ p ∈ as.zip fs,
      (phaseVals hc rt sel as fs).lookup p.1.name =
        if sel p.1 && emitted hc p.1 p.2.2 then some (rt p.1 p.2.2) else none := by
  intro as
  induction as with
  | nil => intro fs _ p hp; simp at hp
  | cons a as ih =>
    intro fs hnd p hp
    cases fs with
    | nil => simp at hp
    | cons q fs =>
      obtain ⟨n, v⟩ := q
      simp only [List.map_cons, List.nodup_cons, List.mem_map, not_exists, not_and] at hnd
      simp only [List.zip_cons_cons, List.mem_cons] at hp
      rcases hp with hp | hp
      · subst hp
        simp only [phaseVals]
        split
        · simp [List.lookup]
        · exact lookup_phaseVals_none hc rt sel _ as fs (fun b hb => hnd.1 b hb)
      · have hpa : p.1 ∈ as := (List.of_mem_zip hp).1
        have hne : (p.1.name == a.name) = false := by
          have := hnd.1 p.1 hpa
          simp [this]
        simp only [phaseVals]
        split
        · simp only [List.lookup, hne]; exact ih fs hnd.2 p hp
        · exact ih fs hnd.2 p hp

theorem phaseVals_names_sublist (hc : HookCfg) (rt : Attr → Obj → Obj) (sel : Attr → Bool) :
    ∀ (as : List Attr) (fs : List (String × Obj)), ((phaseVals hc rt sel as fs).map (·.1)).Sublist (as.map (·.name)) := by
  intro as
  induction as with
  | nil => intro fs; cases fs <;> simp [phaseVals]
  | cons a as ih =>
    intro fs
    cases fs with
    | nil => simp [phaseVals]
    | cons q fs =>
      simp only [phaseVals]
      split
      · simp only [List.map_cons]; exact (ih fs).cons_cons _
      · simp only [List.map_cons]; exact (ih fs).cons _

/-! ### instantiation and assignment -/

theorem mkInst_eq (res : List (String × Obj)) (W : Attr × String × Obj → Obj) :
    ∀ (as : List Attr) (fs : List (String × Obj)), fs.length = as.length →
      (∀ p ∈ as.zip fs, argOrDefault res p.1 = some (W p)) →
      mkInst res as = some ((as.zip fs).map (fun p => (p.1.name, W p))) := by
  intro as
  induction as with
  | nil => intro fs _ _; simp [mkInst]
  | cons a as ih =>
    intro fs hlen h
    cases fs with
    | nil => simp at hlen
    | cons q fs =>
      have ih' := ih fs (by simpa using hlen) (fun p hp => h p (by simp [hp]))
      have h0 := h (a, q) (by simp)
      simp only at h0
      simp only [mkInst, h0, ih', List.zip_cons_cons, List.map_cons]

theorem setField_eq (fs : List (String × Obj)) (n : String) (v : Obj) :
    setField fs n v = fs.map (fun p => (p.1, if p.1 == n then v else p.2)) := by
  simp only [setField]
  apply List.map_congr_left
  intro p _
  split <;> simp_all

theorem setFields_eq : ∀ (assigns : List (String × Obj)) (fs : List (String × Obj)), (assigns.map (·.1)).Nodup →
    setFields fs assigns = fs.map (fun p => (p.1, (assigns.lookup p.1).getD p.2)) := by
  intro assigns
  induction assigns with
  | nil => intro fs _; simp [setFields, List.lookup]
  | cons q rest ih =>
    intro fs hnd
    obtain ⟨n, v⟩ := q
    simp only [List.map_cons, List.nodup_cons] at hnd
    have ih' := ih (setField fs n v) hnd.2
    simp only [setFields, List.foldl_cons] at ih' ⊢
    rw [ih', setField_eq, List.map_map]
    apply List.map_congr_left
    intro p _
    simp only [Function.comp, List.lookup]
    by_cases hpn : p.1 = n
    · have hnone : rest.lookup n = none := by
        rw [List.lookup_eq_none_iff]
        intro q hq
        simp only [bne_iff_ne, ne_eq]
        intro e
        exact hnd.1 (List.mem_map.mpr ⟨q, hq, e.symm⟩)
      simp [hpn, hnone]
    · have : (p.1 == n) = false := by simp [hpn]
      simp [this]

theorem restored_eq_map (hc : HookCfg) (rt : Attr → Obj → Obj) : ∀ (as : List Attr) (fs : List (String × Obj)),
    restored hc rt as fs = (as.zip fs).map (fun p =>
      (p.1.name, if included hc p.1 && emitted hc p.1 p.2.2 then rt p.1 p.2.2 else p.1.dflt.value?.getD .none)) := by
  intro as
  induction as with
  | nil => intro fs; cases fs <;> simp [restored]
  | cons a as ih =>
    intro fs
    cases fs with
    | nil => simp [restored]
    | cons q fs => obtain ⟨n, v⟩ := q; simp [restored, ih fs]


/-! ### the round trip -/

theorem consistentCls_unpack {frozen : Bool} {hc : HookCfg} {as : List Attr} (h : ConsistentCls frozen hc as = true) :
    ((as.filter (included hc)).map (keyName hc)).Nodup ∧ (as.map (·.name)).Nodup
    ∧ (∀ a ∈ as, included hc a = false → a.hasDefault = true)
    ∧ (∀ a ∈ as, a.init = false → a.hasDefault = true)
    ∧ (∀ a ∈ as, (ovOf hc a).sh = (ovOf hc a).uh)
    ∧ (frozen = true → ∀ a ∈ as, (included hc a && !a.init) = false) := by
  simp only [ConsistentCls, Bool.and_eq_true, nodupS_iff, List.all_eq_true, Bool.or_eq_true, beq_iff_eq,
    Bool.not_eq_true', Bool.and_eq_false_imp] at h
  obtain ⟨⟨⟨⟨⟨h1, h2⟩, h3⟩, h4⟩, h5⟩, h6⟩ := h
  refine ⟨h1, h2, ?_, ?_, h5, ?_⟩
  · intro a ha hi
    rcases h3 a ha with h | h
    · rw [hi] at h; cases h
    · exact h
  · intro a ha hi
    rcases h4 a ha with h | h
    · rw [hi] at h; cases h
    · exact h
  · intro hf a ha
    cases hx : (included hc a && !a.init) with
    | false => rfl
    | true =>
      exfalso
      have := h6 hf
      rw [List.any_eq_false] at this
      exact this a ha hx

theorem dflt_some_of_hasDefault {a : Attr} (h : a.hasDefault = true) : a.dflt.value? = some (a.dflt.value?.getD .none) := by
  simp only [Attr.hasDefault] at h
  cases hd : a.dflt.value? with
  | none => rw [hd] at h; cases h
  | some d => rfl

theorem emitted_of_no_default {hc : HookCfg} {a : Attr} {v : Obj} (h : emitted hc a v = false) : a.hasDefault = true := by
  cases hd : a.hasDefault with
  | true => rfl
  | false => simp [emitted, oidApplies_hasDefault hd] at h

section Main
variable (un : UnFn) (st : StFn) (ci : Nat) (c : GCls) (fs : List (String × Obj)) (rt : Attr → Obj → Obj)

/-- facts shared by the two templates -/
theorem phases_on_emitted
    (hcons : ConsistentCls c.frozen c.hc c.attrs = true) (hlen : fs.length = c.attrs.length)
    (hrt : ∀ p ∈ c.attrs.zip fs, included c.hc p.1 = true → emitted c.hc p.1 p.2.2 = true →
      attrSt st (ovOf c.hc p.1) p.1 (attrUn un (ovOf c.hc p.1) p.1 p.2.2) = .ok (rt p.1 p.2.2))
    (fa : Bool) (sel : Attr → Bool) (hsel : ∀ a, sel a = true → included c.hc a = true)
    (hfa : fa = true → ∀ a ∈ c.attrs, sel a = false) :
    phase st c.hc fa (.dict (unPart un c.hc false c.attrs fs ++ unPart un c.hc true c.attrs fs)) sel c.attrs
      = (phaseVals c.hc rt sel c.attrs fs, []) := by
  obtain ⟨hK, -, -, -, -, -⟩ := consistentCls_unpack hcons
  cases fa with
  | true =>
    rw [phase_none_selected _ _ _ _ _ _ (hfa rfl), phaseVals_none_selected _ _ _ _ _ (hfa rfl)]
  | false =>
    apply phase_roundtrip _ _ _ _ _ _ _ _ hlen
    intro p hp hs
    exact step_roundtrip un st c.hc c.attrs fs hK rt p hp (hsel _ hs) (hrt p hp (hsel _ hs))

theorem forbid_check_passes (forbid : Bool) :
    (if forbid = true then extrasOf (allowedKeys c.hc c.attrs)
        (.dict (unPart un c.hc false c.attrs fs ++ unPart un c.hc true c.attrs fs)) else some []) = some [] := by
  cases forbid with
  | false => rfl
  | true => simp only [if_true, extrasOf, extraKeys_emitted_nil]

theorem hstClsD_hunCls (forbid : Bool)
    (hcons : ConsistentCls c.frozen c.hc c.attrs = true) (hlen : fs.length = c.attrs.length)
    (hrt : ∀ p ∈ c.attrs.zip fs, included c.hc p.1 = true → emitted c.hc p.1 p.2.2 = true →
      attrSt st (ovOf c.hc p.1) p.1 (attrUn un (ovOf c.hc p.1) p.1 p.2.2) = .ok (rt p.1 p.2.2)) :
    hstClsD st ci forbid c (hunCls un c.hc c.attrs fs) = .ok (.inst ci (restored c.hc rt c.attrs fs)) := by
  obtain ⟨hK, hN, hD1, hD2, -, hFr⟩ := consistentCls_unpack hcons
  rw [(keysOf_hunCls un c.hc c.attrs fs hK).1]
  have e1 := phases_on_emitted un st c fs rt hcons hlen hrt false (fun a => included c.hc a && a.init)
    (by intro a h; simp only [Bool.and_eq_true] at h; exact h.1) (by intro h; cases h)
  have e2 := phases_on_emitted un st c fs rt hcons hlen hrt c.frozen (fun a => included c.hc a && !a.init)
    (by intro a h; simp only [Bool.and_eq_true] at h; exact h.1) hFr
  have e3 := forbid_check_passes un c fs forbid
  -- instantiation
  have e4 := mkInst_eq (phaseVals c.hc rt (fun a => included c.hc a && a.init) c.attrs fs)
    (fun p => if (included c.hc p.1 && p.1.init) && emitted c.hc p.1 p.2.2 then rt p.1 p.2.2 else p.1.dflt.value?.getD .none)
    c.attrs fs hlen (by
      intro p hp
      have hpa : p.1 ∈ c.attrs := (List.of_mem_zip hp).1
      simp only [argOrDefault, lookup_phaseVals c.hc rt _ c.attrs fs hN p hp]
      by_cases hc1 : ((included c.hc p.1 && p.1.init) && emitted c.hc p.1 p.2.2) = true
      · simp [hc1]
      · simp only [hc1, Bool.false_eq_true, if_false]
        apply dflt_some_of_hasDefault
        cases hi : included c.hc p.1 with
        | false => exact hD1 _ hpa hi
        | true =>
          cases hin : p.1.init with
          | false => exact hD2 _ hpa hin
          | true =>
            cases he : emitted c.hc p.1 p.2.2 with
            | false => exact emitted_of_no_default he
            | true => simp [hi, hin, he] at hc1)
  have hnd2 : ((phaseVals c.hc rt (fun a => included c.hc a && !a.init) c.attrs fs).map (·.1)).Nodup :=
    (phaseVals_names_sublist c.hc rt _ c.attrs fs).nodup hN
  simp only [hstClsD, e1, e2, e3, e4, List.any_nil, Bool.false_eq_true, if_false, dropBare, List.map_nil,
    List.isEmpty_nil, if_true, List.append_nil, Bool.not_true]
  rw [setFields_eq _ _ hnd2, restored_eq_map, List.map_map]
  congr 2
  apply List.map_congr_left
  intro p hp
  simp only [Function.comp, lookup_phaseVals c.hc rt _ c.attrs fs hN p hp]
  cases included c.hc p.1 <;> cases p.1.init <;> cases emitted c.hc p.1 p.2.2 <;> simp

theorem hstClsF_hunCls (forbid : Bool)
    (hcons : ConsistentCls c.frozen c.hc c.attrs = true) (hlen : fs.length = c.attrs.length)
    (hrt : ∀ p ∈ c.attrs.zip fs, included c.hc p.1 = true → emitted c.hc p.1 p.2.2 = true →
      attrSt st (ovOf c.hc p.1) p.1 (attrUn un (ovOf c.hc p.1) p.1 p.2.2) = .ok (rt p.1 p.2.2)) :
    hstClsF st ci forbid c (hunCls un c.hc c.attrs fs) = .ok (.inst ci (restored c.hc rt c.attrs fs)) := by
  obtain ⟨hK, hN, hD1, hD2, -, hFr⟩ := consistentCls_unpack hcons
  rw [(keysOf_hunCls un c.hc c.attrs fs hK).1]
  have hinc : ∀ (s : Attr → Bool) (a : Attr), (included c.hc a && s a) = true → included c.hc a = true := by
    intro s a h; simp only [Bool.and_eq_true] at h; exact h.1
  have e1 := phases_on_emitted un st c fs rt hcons hlen hrt false (fun a => included c.hc a && a.init && a.hasDefault)
    (by intro a h; simp only [Bool.and_eq_true] at h; exact h.1.1) (by intro h; cases h)
  have e2 := phases_on_emitted un st c fs rt hcons hlen hrt false (fun a => included c.hc a && a.init && !a.hasDefault && !a.kwOnly)
    (by intro a h; simp only [Bool.and_eq_true] at h; exact h.1.1.1) (by intro h; cases h)
  have e3 := phases_on_emitted un st c fs rt hcons hlen hrt false (fun a => included c.hc a && a.init && !a.hasDefault && a.kwOnly)
    (by intro a h; simp only [Bool.and_eq_true] at h; exact h.1.1.1) (by intro h; cases h)
  have e4 := phases_on_emitted un st c fs rt hcons hlen hrt c.frozen (fun a => included c.hc a && !a.init && !a.hasDefault)
    (by intro a h; simp only [Bool.and_eq_true] at h; exact h.1.1)
    (by intro hf a ha; have := hFr hf a ha; simp [this])
  have e5 := phases_on_emitted un st c fs rt hcons hlen hrt c.frozen (fun a => included c.hc a && !a.init && a.hasDefault)
    (by intro a h; simp only [Bool.and_eq_true] at h; exact h.1.1)
    (by intro hf a ha; have := hFr hf a ha; simp [this])
  have e6 := forbid_check_passes un c fs forbid
  have e7 := mkInst_eq
    (phaseVals c.hc rt (fun a => included c.hc a && a.init && !a.hasDefault && !a.kwOnly) c.attrs fs ++
      phaseVals c.hc rt (fun a => included c.hc a && a.init && !a.hasDefault && a.kwOnly) c.attrs fs ++
      phaseVals c.hc rt (fun a => included c.hc a && a.init && a.hasDefault) c.attrs fs)
    (fun p => if (included c.hc p.1 && p.1.init) && emitted c.hc p.1 p.2.2 then rt p.1 p.2.2 else p.1.dflt.value?.getD .none)
    c.attrs fs hlen (by
      intro p hp
      have hpa : p.1 ∈ c.attrs := (List.of_mem_zip hp).1
      simp only [argOrDefault, List.lookup_append, lookup_phaseVals c.hc rt _ c.attrs fs hN p hp]
      by_cases hc1 : ((included c.hc p.1 && p.1.init) && emitted c.hc p.1 p.2.2) = true
      · simp only [Bool.and_eq_true] at hc1
        cases hd : p.1.hasDefault <;> cases hk : p.1.kwOnly <;> simp [hc1.1.1, hc1.1.2, hc1.2, hd, hk]
      · have hnone : ∀ (s : Bool), ((included c.hc p.1 && p.1.init && s) && emitted c.hc p.1 p.2.2) = false := by
          intro s
          cases hi : included c.hc p.1 <;> cases hin : p.1.init <;> cases he : emitted c.hc p.1 p.2.2 <;> simp_all
        have h1 := hnone p.1.hasDefault
        have h2 : ((included c.hc p.1 && p.1.init && !p.1.hasDefault && !p.1.kwOnly) && emitted c.hc p.1 p.2.2) = false := by
          have := hnone (!p.1.hasDefault && !p.1.kwOnly); simpa [Bool.and_assoc] using this
        have h3 : ((included c.hc p.1 && p.1.init && !p.1.hasDefault && p.1.kwOnly) && emitted c.hc p.1 p.2.2) = false := by
          have := hnone (!p.1.hasDefault && p.1.kwOnly); simpa [Bool.and_assoc] using this
        simp only [h1, h2, h3, hc1, Bool.false_eq_true, if_false, Option.or_none]
        apply dflt_some_of_hasDefault
        cases hi : included c.hc p.1 with
        | false => exact hD1 _ hpa hi
        | true =>
          cases hin : p.1.init with
          | false => exact hD2 _ hpa hin
          | true =>
            cases he : emitted c.hc p.1 p.2.2 with
            | false => exact emitted_of_no_default he
            | true => simp [hi, hin, he] at hc1)
  have hnd4 : ((phaseVals c.hc rt (fun a => included c.hc a && !a.init && !a.hasDefault) c.attrs fs).map (·.1)).Nodup :=
    (phaseVals_names_sublist c.hc rt _ c.attrs fs).nodup hN
  have hnd5 : ((phaseVals c.hc rt (fun a => included c.hc a && !a.init && a.hasDefault) c.attrs fs).map (·.1)).Nodup :=
    (phaseVals_names_sublist c.hc rt _ c.attrs fs).nodup hN
  simp only [hstClsF, e1, e2, e3, e4, e5, e6, e7, firstErr, List.isEmpty_nil, Bool.not_true, Bool.false_eq_true, if_false]
  rw [setFields, List.foldl_append]
  have s4 := setFields_eq (phaseVals c.hc rt (fun a => included c.hc a && !a.init && !a.hasDefault) c.attrs fs)
  have s5 := setFields_eq (phaseVals c.hc rt (fun a => included c.hc a && !a.init && a.hasDefault) c.attrs fs)
  simp only [setFields] at s4 s5
  rw [s4 _ hnd4, s5 _ hnd5, restored_eq_map, List.map_map, List.map_map]
  congr 2
  apply List.map_congr_left
  intro p hp
  simp only [Function.comp, lookup_phaseVals c.hc rt _ c.attrs fs hN p hp]
  cases included c.hc p.1 <;> cases p.1.init <;> cases emitted c.hc p.1 p.2.2 <;> cases p.1.hasDefault <;> simp

end Main

end GenHook
end CattrsModel
