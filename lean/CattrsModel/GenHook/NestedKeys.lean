import CattrsModel.GenHook.NestedRT
/-!
# Nesting: the emitted keys at every class position of the composition's output
-/
namespace CattrsModel
namespace GenHook

theorem mem_zip_map_right {α β : Type} (f : α → β) : ∀ (xs : List α) (p : α × β), p ∈ xs.zip (xs.map f) → p.2 = f p.1 :=
  fun xs p hp => (mem_zip_map_self f xs p hp).2

/-- **Emitted keys of the composition**: for every depth, every conforming value and every sufficient budget, the
output has, at every class position, exactly the keys `expectedKeys` (TypedDict positions: the complete key
statement of `C09_td_keys`). -/
theorem keys_nested (g : GWorld) (hcons : g.consistent = true) :
    ∀ (d : Nat) (t : Option Ty) (x : Obj), gconf g d t x = true → ∀ n, d ≤ n → KeysAt g d t x (unTy g n t x) := by
  intro d
  induction d with
  | zero => intro t x h; simp [gconf] at h
  | succ d ih =>
    intro t x h n hn
    obtain ⟨m, rfl⟩ : ∃ m, n = m + 1 := ⟨n - 1, by omega⟩
    have hm : d ≤ m := by omega
    cases t with
    | none => simp [KeysAt]
    | some t =>
      cases ht : tyHasCls t with
      | false => simp [KeysAt, ht]
      | true =>
      rcases tyHasCls_cases ht with ⟨c, rfl⟩ | ⟨c, rfl⟩ | ⟨t', rfl, ht'⟩ | ⟨k, t', rfl, ht'⟩ | ⟨k, t', rfl, ht'⟩ | ⟨k, kt, vt, rfl⟩ | ⟨ts, rfl⟩
      · obtain ⟨fs, k, rfl, hk, hkind, hlen, hfs⟩ := gconf_cls g d h
        have hc := consistentCls_of_lookup hcons hk hkind
        obtain ⟨hK, -, -, -, hsu, -⟩ := consistentCls_unpack hc
        rw [unTy_cls g m hk]
        obtain ⟨e1, e2⟩ := keysOf_hunCls (unTy g m) k.hc k.attrs fs hK
        simp only [KeysAt, tyHasCls, Bool.not_true, Bool.false_eq_true, if_false]
        refine ⟨k, _, hk, e1, e2, ?_⟩
        intro p hp hi he hu
        have hs : (ovOf k.hc p.1).sh = none := by rw [hsu p.1 (List.of_mem_zip hp).1]; exact hu
        refine ⟨_, ?_, ih _ _ (hfs p hp hi he hs) m hm⟩
        rw [dlookup_emitted (unTy g m) k.hc k.attrs fs hK p hp hi, he]
        simp [attrUn, hu]
      · obtain ⟨kvs, k, rfl, hk, hkind, hnd, hdecl, hattrs⟩ := gconf_td g d h
        have hc := consistentTD_of_lookup hcons hk hkind
        obtain ⟨hf, hsu⟩ := consistentTD_facts hc
        rw [unTy_td g m hk]
        obtain ⟨k1, k2, k3, -⟩ := hunTDSteps_keys (unTy g m) (unIsIdTy g m) k.hc kvs (fun t v => unIsIdTy_sound g m t v)
          k.attrs hf (fun a ha hi => (hattrs a ha hi).2.1) hnd (fun a ha hi => (hattrs a ha hi).1)
        simp only [KeysAt, tyHasCls, Bool.not_true, Bool.false_eq_true, if_false]
        refine ⟨k, _, hk, rfl, ?_, k2, k3⟩
        intro a ha hi
        rw [k1 a ha hi]
        cases hv : dlookup kvs (.str a.name) with
        | none => exact Or.inl ⟨rfl, rfl⟩
        | some v =>
          refine Or.inr ⟨v, _, rfl, rfl, ?_⟩
          intro hu
          have hs : (ovOf k.hc a).sh = none := by rw [hsu a ha]; exact hu
          simp only [attrUn, hu]
          exact ih _ _ ((hattrs a ha hi).2.2 hs v hv) m hm
      · by_cases hx : x = .none
        · subst hx
          rw [unTy_opt_none g m ht']
          simp [KeysAt, tyHasCls, ht']
        · have hv := gconf_opt g d ht' hx h
          rw [unTy_opt_some g m ht' hx]
          have := ih _ _ hv m hm
          cases x <;> simp_all [KeysAt, tyHasCls]
      · have hv := gconf_wrap g d ht' h
        rw [unTy_wrap g m ht']
        simpa [KeysAt, tyHasCls, ht'] using ih _ _ hv m hm
      · obtain ⟨xs, rfl, hset, hitems⟩ := gconf_coll g d ht' h
        rw [unTy_coll g m ht', mkColl, notSet_unstructTo hset]
        simp only [CK.isSet, Bool.false_eq_true, if_false]
        simp only [KeysAt, tyHasCls, ht', Bool.not_true, Bool.false_eq_true, if_false]
        refine ⟨_, by rw [notSet_unstructTo hset], by simp, ?_⟩
        intro p hp
        obtain ⟨hp1, hp2⟩ := mem_zip_map_self _ xs p hp
        rw [hp2]
        exact ih _ _ (hitems _ hp1) m hm
      · rw [gconf_map_false g d ht] at h; cases h
      · rw [gconf_tupleHet_false g d ht] at h; cases h

end GenHook
end CattrsModel
