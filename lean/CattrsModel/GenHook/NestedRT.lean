import CattrsModel.GenHook.NestedBase
/-!
# Nesting: round trip and emitted keys of the composition, for every depth
-/
namespace CattrsModel
namespace GenHook

variable (g : GWorld) (d : Nat)

/-! ### reading `gconf` -/

theorem gconf_cls {c : Nat} {x : Obj} (h : gconf g (d + 1) (some (.cls c)) x = true) :
    ∃ fs k, x = .inst c fs ∧ g.classes[c]? = some k ∧ k.kind ≠ .typeddict ∧ fs.length = k.attrs.length ∧
      ∀ p ∈ k.attrs.zip fs, included k.hc p.1 = true → emitted k.hc p.1 p.2.2 = true → (ovOf k.hc p.1).sh = none →
        gconf g d p.1.ty p.2.2 = true := by
  cases x <;> simp [gconf, tyHasCls] at h
  rename_i c' fs
  obtain ⟨rfl, h⟩ := h
  cases hk : g.classes[c]? with
  | none => rw [hk] at h; cases h
  | some k =>
    rw [hk] at h
    simp only [Bool.and_eq_true, bne_iff_ne, ne_eq, beq_iff_eq, List.all_eq_true, Bool.or_eq_true, Bool.not_eq_true',
      Option.isSome_iff_ne_none] at h
    obtain ⟨⟨h1, h2⟩, h3⟩ := h
    refine ⟨fs, k, rfl, rfl, h1, h2, ?_⟩
    intro p hp hi he hs
    rcases h3 p hp with ((h | h) | h) | h
    · rw [hi] at h; cases h
    · rw [he] at h; cases h
    · exact absurd hs h
    · exact h

theorem gconf_td {c : Nat} {x : Obj} (h : gconf g (d + 1) (some (.td c)) x = true) :
    ∃ kvs k, x = .dict kvs ∧ g.classes[c]? = some k ∧ k.kind = .typeddict ∧ nodupPy (keysOf kvs) = true ∧
      (k.hc.forbid = true → ∀ key ∈ keysOf kvs, ∃ a ∈ k.attrs, key = .str a.name) ∧
      ∀ a ∈ k.attrs, tdIncluded k.hc a = true →
        (a.required = true → (dlookup kvs (.str a.name)).isSome = true) ∧
        (∀ r, (ovOf k.hc a).rename = some r → dlookup kvs (.str r) = none) ∧
        ((ovOf k.hc a).sh = none → ∀ v, dlookup kvs (.str a.name) = some v → gconf g d a.ty v = true) := by
  cases x <;> simp [gconf, tyHasCls] at h
  rename_i kvs
  cases hk : g.classes[c]? with
  | none => rw [hk] at h; cases h
  | some k =>
    rw [hk] at h
    simp only [Bool.and_eq_true, beq_iff_eq, List.all_eq_true, Bool.or_eq_true, Bool.not_eq_true',
      List.any_eq_true, decide_eq_true_eq] at h
    obtain ⟨⟨⟨h1, h2⟩, h3⟩, h4⟩ := h
    refine ⟨kvs, k, rfl, rfl, h1, h2, ?_, ?_⟩
    · intro hf key hkey
      rcases h3 with h3 | h3
      · rw [hf] at h3; cases h3
      · exact h3 key hkey
    · intro a ha hi
      rcases h4 a ha with h | h
      · rw [hi] at h; cases h
      · obtain ⟨⟨hr, hfree⟩, hv⟩ := h
        refine ⟨?_, ?_, ?_⟩
        · intro hreq
          rcases hr with hr | hr
          · rw [hreq] at hr; cases hr
          · exact hr
        · intro r hren
          rw [hren] at hfree
          simpa using hfree
        · intro hs v hv'
          rcases hv with hv | hv
          · rw [hs] at hv; cases hv
          · rw [hv'] at hv; exact hv

theorem gconf_opt {t' : Ty} (ht : tyHasCls t' = true) {x : Obj} (hx : x ≠ .none)
    (h : gconf g (d + 1) (some (.opt t')) x = true) : gconf g d (some t') x = true := by
  cases x <;> simp_all [gconf, tyHasCls]

theorem gconf_wrap {t' : Ty} (ht : tyHasCls t' = true) {k : WK} {x : Obj}
    (h : gconf g (d + 1) (some (.wrap k t')) x = true) : gconf g d (some t') x = true := by
  simp_all [gconf, tyHasCls]

theorem gconf_coll {t' : Ty} (ht : tyHasCls t' = true) {k : SK} {x : Obj}
    (h : gconf g (d + 1) (some (.coll k t')) x = true) :
    ∃ xs, x = .coll k.structTo xs ∧ k.structTo.isSet = false ∧ ∀ v ∈ xs, gconf g d (some t') v = true := by
  cases x <;> simp [gconf, tyHasCls, ht] at h
  rename_i ck xs
  obtain ⟨⟨h1, h2⟩, h3⟩ := h
  exact ⟨xs, by rw [h2], h1, h3⟩

theorem gconf_map_false {k : MK} {kt vt : Ty} {x : Obj} (ht : tyHasCls (.map k kt vt) = true) :
    gconf g (d + 1) (some (.map k kt vt)) x = false := by
  cases x <;> simp [gconf, ht]

theorem gconf_tupleHet_false {ts : List Ty} {x : Obj} (ht : tyHasCls (.tupleHet ts) = true) :
    gconf g (d + 1) (some (.tupleHet ts)) x = false := by
  cases x <;> simp [gconf, ht]

/-- consistency of the class found at a position -/
theorem consistent_of_lookup {g : GWorld} (hcons : g.consistent = true) {c : Nat} {k : GCls} (hk : g.classes[c]? = some k) :
    k.consistent = true := by
  simp only [GWorld.consistent, List.all_eq_true] at hcons
  exact hcons k (List.mem_of_getElem? hk)

theorem gconf_leaf {t : Ty} (ht : tyHasCls t = false) (x : Obj) : gconf g (d + 1) (some t) x = leafConf g t x := by
  simp [gconf, ht]

theorem consistentCls_of_lookup {g : GWorld} (hcons : g.consistent = true) {c : Nat} {k : GCls}
    (hk : g.classes[c]? = some k) (hkind : k.kind ≠ .typeddict) : ConsistentCls k.frozen k.hc k.attrs = true := by
  have := consistent_of_lookup hcons hk
  simp only [GCls.consistent] at this
  rw [if_neg (by simpa using hkind)] at this
  exact this

theorem consistentTD_of_lookup {g : GWorld} (hcons : g.consistent = true) {c : Nat} {k : GCls}
    (hk : g.classes[c]? = some k) (hkind : k.kind = .typeddict) : ConsistentTD k.hc k.attrs = true := by
  have := consistent_of_lookup hcons hk
  simp only [GCls.consistent] at this
  rw [if_pos (by simp [hkind])] at this
  exact this

/-! ### the value of a result -/

def okOr (r : HRes) : Obj := match r with | .ok y => y | .error _ => .none

theorem eq_ok_okOr {r : HRes} {y : Obj} (h : r = .ok y) : r = .ok (okOr r) := by subst h; rfl

/-- what the round trip at budget `n` rebuilds -/
def rtAt (g : GWorld) (n : Nat) (t : Option Ty) (x : Obj) : Obj := okOr (stTy g n t (unTy g n t x))

theorem mem_zip_map_self {α β : Type} (f : α → β) : ∀ (xs : List α) (p : α × β), p ∈ xs.zip (xs.map f) → p.1 ∈ xs ∧ p.2 = f p.1 := by
  intro xs
  induction xs with
  | nil => intro p hp; simp at hp
  | cons x xs ih =>
    intro p hp
    simp only [List.map_cons, List.zip_cons_cons, List.mem_cons] at hp
    rcases hp with rfl | hp
    · exact ⟨List.mem_cons_self .., rfl⟩
    · exact ⟨List.mem_cons_of_mem _ (ih p hp).1, (ih p hp).2⟩

/-- the entry of a handled attribute in the rebuilt instance (`C09_restored_agrees`) -/
theorem restored_agrees (hc : HookCfg) (rt : Attr → Obj → Obj) (attrs : List Attr) (fs : List (String × Obj))
    (p : Attr × String × Obj) (hp : p ∈ attrs.zip fs) (hi : included hc p.1 = true) :
    ∃ y, (p.1.name, y) ∈ restored hc rt attrs fs ∧
      (emitted hc p.1 p.2.2 = true → y = rt p.1 p.2.2) ∧
      (emitted hc p.1 p.2.2 = false → ∃ dv, p.1.dflt.value? = some dv ∧ y = dv ∧ pyEqD p.2.2 dv = true) := by
  rw [restored_eq_map]
  refine ⟨_, List.mem_map.mpr ⟨p, hp, rfl⟩, ?_, ?_⟩
  · intro he; simp [hi, he]
  · intro he
    simp only [hi, he, Bool.and_false, Bool.false_eq_true, if_false]
    simp only [emitted, Bool.not_eq_false', Bool.and_eq_true, defaultEq] at he
    cases hd : p.1.dflt.value? with
    | none => rw [hd] at he; simp at he
    | some dv => rw [hd] at he; exact ⟨dv, rfl, rfl, he.2⟩

/-- the output of a class position is never `None` -/
theorem unTy_ne_none : ∀ (d : Nat) (t : Ty) (x : Obj), gconf g d (some t) x = true → tyHasCls t = true → x ≠ .none →
    ∀ n, d ≤ n → unTy g n (some t) x ≠ .none := by
  intro d
  induction d with
  | zero => intro t x h; simp [gconf] at h
  | succ d ih =>
    intro t x h ht hx n hn
    obtain ⟨m, rfl⟩ : ∃ m, n = m + 1 := ⟨n - 1, by omega⟩
    have hm : d ≤ m := by omega
    rcases tyHasCls_cases ht with ⟨c, rfl⟩ | ⟨c, rfl⟩ | ⟨t', rfl, ht'⟩ | ⟨k, t', rfl, ht'⟩ | ⟨k, t', rfl, ht'⟩ | ⟨k, kt, vt, rfl⟩ | ⟨ts, rfl⟩
    · obtain ⟨fs, k, rfl, hk, -⟩ := gconf_cls g d h
      rw [unTy_cls g m hk]; simp [hunCls]
    · obtain ⟨kvs, k, rfl, hk, -⟩ := gconf_td g d h
      rw [unTy_td g m hk]; simp [hunTD]
    · rw [unTy_opt_some g m ht' hx]
      exact ih t' x (gconf_opt g d ht' hx h) ht' hx m hm
    · rw [unTy_wrap g m ht']
      exact ih t' x (gconf_wrap g d ht' h) ht' hx m hm
    · obtain ⟨xs, rfl, -⟩ := gconf_coll g d ht' h
      rw [unTy_coll g m ht']; simp [mkColl]
    · rw [gconf_map_false g d ht] at h; cases h
    · rw [gconf_tupleHet_false g d ht] at h; cases h

end GenHook
end CattrsModel
