import CattrsModel.GenHook.Model
import CattrsModel.Lemmas.RoundTripBase
/-!
# Unbounded nesting: vocabulary of the closed theorems over the composition `unTy` / `stTy`

The per-hook theorems take the handlers of the attribute types as parameters.  Here the composition itself
(`unTy g n`, `stTy g n`: class hooks tied together through the field types, `n` = recursion budget) is the
subject.  Everything is indexed by a *depth* `d` (number of type constructors traversed from the root); the
theorems hold for every `d` and every budget `n ≥ d` (fuel sufficiency), hence for nesting of any depth.

* `gconf g d t x`     -- `x` is a value of `t` inside the fragment of `unTy` / `stTy`, nested at most `d` deep
* `AgreesAt g d t x y`-- `y` agrees with `x` on every handled attribute at every class position (what C09 asks of
                         the round trip)
* `KeysAt g d t x u`  -- at every class position of the output `u` the emitted keys are `expectedKeys`
* `hits g n t p`      -- some forbidding class position of the payload `p` (as read by the hooks) has an extra key
* `hitList g n t p`   -- those positions' `(class, extra keys)`
* `sameRead g n t p q`-- `p`, `q` agree on everything the non-forbidding hooks read (accepted keys, recursively)
-/
namespace CattrsModel
namespace GenHook

/-- pointwise relation of two lists of equal length -/
def All₂ {α β : Type} (R : α → β → Prop) (xs : List α) (ys : List β) : Prop :=
  xs.length = ys.length ∧ ∀ p ∈ xs.zip ys, R p.1 p.2

/-- every class of the table has a consistent customisation -/
def GWorld.consistent (g : GWorld) : Bool := g.classes.all GCls.consistent

/-- the same world with `forbid_extra_keys` off everywhere -/
def GWorld.off (g : GWorld) : GWorld :=
  { g with classes := g.classes.map (fun k => { k with hc := { k.hc with forbid := false } }) }

/-- no hook of the table forbids extra keys -/
def GWorld.noForbid (g : GWorld) : Bool := g.classes.all (fun k => !k.hc.forbid)

/-- conformance of a value of a class-free type: the hypotheses of the data-path round trip (C01); the primitive
cases are spelled out so that the predicate evaluates by `decide` on concrete examples -/
def leafConf (g : GWorld) (t : Ty) (x : Obj) : Bool :=
  match t, x with
  | .int, .int _ => true
  | .str, .str _ => true
  | .bool, .bool _ => true
  | .float, .flt _ => true
  | .bytes, .bytes _ => true
  | _, _ => t.supG true && t.noUnion && conf g.core t x && x.valid

theorem leafConf_spec {g : GWorld} {t : Ty} {x : Obj} (h : leafConf g t x = true) :
    t.supG true = true ∧ t.noUnion = true ∧ conf g.core t x = true ∧ x.valid = true := by
  unfold leafConf at h
  split at h
  all_goals first
    | (simp only [Bool.and_eq_true] at h; exact ⟨h.1.1.1, h.1.1.2, h.1.2, h.2⟩)
    | simp [Ty.supG, Ty.noUnion, conf, Obj.valid]

/-- `x` is a value of `t` (class positions: attrs / dataclass / NamedTuple instances, TypedDict dicts; through
optionals, wrappers and non-set collections), at most `d` constructors deep.  What is demanded of a position is
what the hooks there need: the values of handled, emitted attributes without a custom hook conform to the
attribute's type; a TypedDict instance has its required keys, duplicate-free keys, no key equal to a rename
target and -- when its hook forbids extra keys -- only declared keys. -/
def gconf (g : GWorld) : Nat → Option Ty → Obj → Bool
  | 0, _, _ => false
  | _ + 1, none, _ => true
  | d + 1, some t, x =>
    if !tyHasCls t then leafConf g t x
    else match t, x with
      | .cls c, .inst c' fs =>
        c == c' && (match g.classes[c]? with
          | some k => k.kind != .typeddict && fs.length == k.attrs.length &&
              (k.attrs.zip fs).all (fun p => !included k.hc p.1 || !emitted k.hc p.1 p.2.2 || (ovOf k.hc p.1).sh.isSome
                || gconf g d p.1.ty p.2.2)
          | none => false)
      | .td c, .dict kvs =>
        (match g.classes[c]? with
          | some k => k.kind == .typeddict && nodupPy (keysOf kvs)
              && (!k.hc.forbid || (keysOf kvs).all (fun key => k.attrs.any (fun a => decide (key = .str a.name))))
              && k.attrs.all (fun a => !tdIncluded k.hc a ||
                  ((!a.required || (dlookup kvs (.str a.name)).isSome)
                   && (match (ovOf k.hc a).rename with | some r => (dlookup kvs (.str r)).isNone | none => true)
                   && ((ovOf k.hc a).sh.isSome ||
                        (match dlookup kvs (.str a.name) with | some v => gconf g d a.ty v | none => true))))
          | none => false)
      | .opt _, .none => true
      | .opt t', x => gconf g d (some t') x
      | .wrap _ t', x => gconf g d (some t') x
      | .coll k t', .coll ck xs => !k.structTo.isSet && ck == k.structTo && xs.all (gconf g d (some t'))
      | _, _ => false

/-- **Agreement at every depth** (the round-trip clause of C09): `y` is what structuring rebuilds from the
unstructured `x`.  At a class position: an instance of the same class, every handled attribute holding what its
custom hook pair restores (the value itself), or a value that agrees with the original at the attribute's type,
or -- when `omit_if_default` dropped it -- the default, which is `==` to the original.  At a TypedDict position:
every handled key present iff it was, agreeing.  Class-free positions: `y = x`. -/
def AgreesAt (g : GWorld) : Nat → Option Ty → Obj → Obj → Prop
  | 0, _, _, _ => False
  | _ + 1, none, x, y => y = unAny g.core convCfg x
  | d + 1, some t, x, y =>
    if !tyHasCls t then y = x
    else match t, x with
      | .cls c, .inst _ fs => ∃ k ys, g.classes[c]? = some k ∧ y = .inst c ys ∧
          ∀ p ∈ k.attrs.zip fs, included k.hc p.1 = true → ∃ yv, (p.1.name, yv) ∈ ys ∧
            (emitted k.hc p.1 p.2.2 = true →
              (if (ovOf k.hc p.1).sh.isSome then yv = p.2.2 else AgreesAt g d p.1.ty p.2.2 yv)) ∧
            (emitted k.hc p.1 p.2.2 = false → ∃ dv, p.1.dflt.value? = some dv ∧ yv = dv ∧ pyEqD p.2.2 dv = true)
      | .td c, .dict kvs => ∃ k res, g.classes[c]? = some k ∧ y = .dict res ∧
          ∀ a ∈ k.attrs, tdIncluded k.hc a = true →
            (dlookup kvs (.str a.name) = none ∧ dlookup res (.str a.name) = none) ∨
            (∃ v yv, dlookup kvs (.str a.name) = some v ∧ dlookup res (.str a.name) = some yv ∧
              (if (ovOf k.hc a).sh.isSome then yv = v else AgreesAt g d a.ty v yv))
      | .opt _, .none => y = .none
      | .opt t', x => AgreesAt g d (some t') x y
      | .wrap _ t', x => AgreesAt g d (some t') x y
      | .coll k t', .coll _ xs => ∃ ys, y = .coll k.structTo ys ∧ All₂ (AgreesAt g d (some t')) xs ys
      | _, _ => False

/-- **Emitted keys at every depth** (the key clause of C09): at every class position the output is a dict whose
keys are exactly `expectedKeys` (in order), and the entry of every handled, emitted attribute without a custom
hook satisfies the same statement at the attribute's type; at a TypedDict position the final key of every handled
key holds the entry, present iff it was in the instance, names of omitted / renamed keys are absent and every other
key is as in the instance. -/
def KeysAt (g : GWorld) : Nat → Option Ty → Obj → Obj → Prop
  | 0, _, _, _ => False
  | _ + 1, none, _, _ => True
  | d + 1, some t, x, u =>
    if !tyHasCls t then True
    else match t, x with
      | .cls c, .inst _ fs => ∃ k kvs, g.classes[c]? = some k ∧ u = .dict kvs ∧
          keysOf kvs = (expectedKeys k.hc k.attrs fs).map Obj.str ∧
          ∀ p ∈ k.attrs.zip fs, included k.hc p.1 = true → emitted k.hc p.1 p.2.2 = true → (ovOf k.hc p.1).uh = none →
            ∃ uv, dlookup kvs (.str (keyName k.hc p.1)) = some uv ∧ KeysAt g d p.1.ty p.2.2 uv
      | .td c, .dict inst => ∃ k out, g.classes[c]? = some k ∧ u = .dict out ∧
          (∀ a ∈ k.attrs, tdIncluded k.hc a = true →
            (dlookup inst (.str a.name) = none ∧ dlookup out (.str (tdKey k.hc a)) = none) ∨
            (∃ v uv, dlookup inst (.str a.name) = some v ∧ dlookup out (.str (tdKey k.hc a)) = some uv ∧
              ((ovOf k.hc a).uh = none → KeysAt g d a.ty v uv))) ∧
          (∀ a ∈ k.attrs, (tdIncluded k.hc a = false ∨ (ovOf k.hc a).rename.isSome = true) →
            dlookup out (.str a.name) = none) ∧
          (∀ key : Obj, (∀ a ∈ k.attrs, key ≠ .str a.name ∧ (tdIncluded k.hc a = true → key ≠ .str (tdKey k.hc a))) →
            dlookup out key = dlookup inst key)
      | .opt _, .none => u = .none
      | .opt t', x => KeysAt g d (some t') x u
      | .wrap _ t', x => KeysAt g d (some t') x u
      | .coll k t', .coll _ xs => ∃ us, u = .coll k.unstructTo us ∧ All₂ (KeysAt g d (some t')) xs us
      | _, _ => False

end GenHook
end CattrsModel
