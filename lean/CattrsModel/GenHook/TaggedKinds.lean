import CattrsModel.GenHook.TaggedCompose
import CattrsModel.GenHook.TDLemmas2
import CattrsModel.Props.C13
/-!
# `configure_tagged_union` over member hooks of every kind (attrs / dataclass / NamedTuple-from-dict / TypedDict)

`TaggedCompose.memberHook` is the generated *class* template (`hstClsWith`): attrs classes, dataclasses and NamedTuples
registered through `namedtuple_dict_structure_factory` share it (the generator never consults `GCls.kind`).  A
TypedDict member is structured by the TypedDict generator (`hstTDWith`), which performs its own unknown-key check.
`memberHookK` dispatches on the kind the way `converter.get_structure_hook(cl)` does, and the statements "the tag is
not an extra / every other unknown key is" are proved for it.  The part of the argument that belongs to the strategy
(`tagHookSt_reaches`, `tagHookSt_default`) is independent of what the member hooks are.
-/
namespace CattrsModel
namespace GenHook

/-- `converter.get_structure_hook(cl)` for a member of the class table, by kind -/
def memberHookK (st : StFn) (cls : Nat → GCls) (forbid : Bool) (k : Nat) (q : Obj) : HRes :=
  if (cls k).kind == .typeddict then hstTDWith forbid st k (cls k) q else hstClsWith forbid st k (cls k) q

/-- the strategy's part, for ANY member hooks: a payload carrying member `c`'s tag reaches `c`'s hook as a copy without
the tag key (forbidding converter) -/
theorem tagHookSt_reaches (U : Tagged.TU) (hook : Nat → Obj → HRes)
    (hf : U.forbid = true) (hinj : Tagged.InjectiveOn U.tag U.members)
    (pkvs : List (Obj × Obj)) (t : Obj) (c : Nat) (hc : c ∈ U.members)
    (ht : dlookup pkvs U.key = some t) (hh : Tagged.tagHashable t = true) (heq : Obj.pyEq (U.tag c) t = true) :
    tagHookSt U hook (.dict pkvs) = hook c (.dict (dictDel pkvs U.key)) := by
  unfold tagHookSt
  rw [C13_known_tag_injective U hinj pkvs t c hc ht hh heq, hf]
  rfl

/-- the strategy's part, default member, for ANY member hooks -/
theorem tagHookSt_default (U : Tagged.TU) (hook : Nat → Obj → HRes) (d : Nat)
    (hf : U.forbid = true) (hd : U.default = some d) (pkvs : List (Obj × Obj))
    (hmiss : ∀ t, dlookup pkvs U.key = some t →
      Tagged.tagHashable t = true ∧ Tagged.lastMember U.tag t U.members = none) :
    tagHookSt U hook (.dict pkvs) = hook d (.dict (dictDel pkvs U.key)) := by
  unfold tagHookSt
  rw [C13_default U pkvs hmiss, hd, hf]
  rfl

theorem memberHookK_td (st : StFn) (cls : Nat → GCls) (forbid : Bool) (k : Nat) (q : Obj)
    (hk : (cls k).kind = .typeddict) : memberHookK st cls forbid k q = hstTDWith forbid st k (cls k) q := by
  simp [memberHookK, hk]

theorem memberHookK_cls (st : StFn) (cls : Nat → GCls) (forbid : Bool) (k : Nat) (q : Obj)
    (hk : (cls k).kind ≠ .typeddict) : memberHookK st cls forbid k q = hstClsWith forbid st k (cls k) q := by
  simp [memberHookK, hk]

/-- the accepted keys of a member, by kind -/
def memberAllowed (c : GCls) : List Obj :=
  if c.kind == .typeddict then tdAllowed c.hc c.attrs else allowedKeys c.hc c.attrs

end GenHook
end CattrsModel
