import CattrsModel.GenHook.NestedForbid2
/-!
# Nesting and `forbid_extra_keys`: forbidding world vs. the same world with forbidding off, at every depth
-/
namespace CattrsModel
namespace GenHook

section Handlers
variable {st st0 : StFn} {h : Option Ty → Obj → Bool}

/-- class template over handlers `st` (forbidding world) and `st0` (forbidding off) that are related, on every
payload, by "succeeds iff `st0` succeeds with the same result and no forbidding position below got an extra" -/
theorem cls_handlers_iff (IH : ∀ t p y, st t p = .ok y ↔ (st0 t p = .ok y ∧ h t p = false))
    (fb : Bool) (ci : Nat) (c : GCls) (o y : Obj) :
    hstClsWith fb st ci c o = .ok y ↔
      (hstClsWith fb st0 ci c o = .ok y ∧
        c.attrs.any (fun a => included c.hc a && (ovOf c.hc a).sh.isNone &&
          (match pyGet o (keyName c.hc a) with | some v => h a.ty v | none => false)) = false) := by
  constructor
  · intro hon
    refine ⟨hstClsWith_transfer (fun a _ _ => attrLe_of _ _ _ _ _ (fun _ x y' _ hy => ((IH _ x y').mp hy).1)) hon, ?_⟩
    rw [List.any_eq_false]
    intro a ha
    cases hi : included c.hc a with
    | false => simp
    | true =>
      cases hs : (ovOf c.hc a).sh with
      | some m => simp
      | none =>
        cases hx : pyGet o (keyName c.hc a) with
        | none => simp
        | some x =>
          obtain ⟨v, hv⟩ := hstClsWith_ok_reads hon a ha hi x hx
          simp only [attrSt, hs] at hv
          simp [((IH _ x v).mp hv).2]
  · rintro ⟨hoff, hnone⟩
    rw [List.any_eq_false] at hnone
    refine hstClsWith_transfer (fun a ha hi => attrLe_of _ _ _ _ _ (fun hs x y' hx hy => ?_)) hoff
    have := hnone a ha
    simp only [hi, hs, Option.isNone_none, Bool.and_self, hx, Bool.true_and, Bool.not_eq_true] at this
    exact (IH _ x y').mpr ⟨hy, this⟩

theorem td_handlers_iff (IH : ∀ t p y, st t p = .ok y ↔ (st0 t p = .ok y ∧ h t p = false))
    (fb : Bool) (ci : Nat) (c : GCls) (kvs : List (Obj × Obj)) (y : Obj) :
    hstTDWith fb st ci c (.dict kvs) = .ok y ↔
      (hstTDWith fb st0 ci c (.dict kvs) = .ok y ∧
        c.attrs.any (fun a => tdIncluded c.hc a && (ovOf c.hc a).sh.isNone &&
          (match dlookup kvs (.str (tdKey c.hc a)) with | some v => h a.ty v | none => false)) = false) := by
  constructor
  · intro hon
    obtain ⟨e1, e2⟩ := hstTDWith_transfer (st' := st0)
      (fun a _ _ => tdAttrLe_of _ _ _ _ _ (fun _ x y' _ hy => ((IH _ x y').mp hy).1)) hon
    refine ⟨e1, ?_⟩
    rw [List.any_eq_false]
    intro a ha
    cases hi : tdIncluded c.hc a with
    | false => simp
    | true =>
      cases hs : (ovOf c.hc a).sh with
      | some m => simp
      | none =>
        cases hx : dlookup kvs (.str (tdKey c.hc a)) with
        | none => simp
        | some x =>
          obtain ⟨v, hv⟩ := e2 a ha hi x hx
          simp only [attrSt, hs] at hv
          simp [((IH _ x v).mp hv).2]
  · rintro ⟨hoff, hnone⟩
    rw [List.any_eq_false] at hnone
    refine (hstTDWith_transfer (st' := st) (fun a ha hi => tdAttrLe_of _ _ _ _ _ (fun hs x y' hx hy => ?_)) hoff).1
    have := hnone a ha
    simp only [hi, hs, Option.isNone_none, Bool.and_self, hx, Bool.true_and, Bool.not_eq_true] at this
    exact (IH _ x y').mpr ⟨hy, this⟩

end Handlers

/-- **`forbid_extra_keys` at every depth.**  For every class table, type, payload and budget: structuring in the
world as configured succeeds with result `y` iff it succeeds with result `y` when forbidding is switched off
everywhere and no forbidding class position of the payload (at any depth) has an extra key. -/
theorem forbid_iff_nested (g : GWorld) : ∀ (n : Nat) (t : Option Ty) (p y : Obj),
    stTy g n t p = .ok y ↔ (stTy g.off n t p = .ok y ∧ hits g n t p = false) := by
  intro n
  induction n with
  | zero => intro t p y; simp [stTy]
  | succ n ih =>
    intro t p y
    cases t with
    | none => simp [stTy, hits]
    | some t =>
      cases ht : tyHasCls t with
      | false =>
        have e : stTy g.off (n + 1) (some t) p = stTy g (n + 1) (some t) p := by
          simp only [stTy, ht]; rfl
        simp [e, hits, ht]
      | true =>
      rcases tyHasCls_cases ht with ⟨c, rfl⟩ | ⟨c, rfl⟩ | ⟨t', rfl, ht'⟩ | ⟨k, t', rfl, ht'⟩ | ⟨k, t', rfl, ht'⟩ | ⟨k, kt, vt, rfl⟩ | ⟨ts, rfl⟩
      · cases hk : g.classes[c]? with
        | none =>
          have hk' : g.off.classes[c]? = none := by rw [off_classes, hk]; rfl
          rw [stTy_cls_none g n hk, stTy_cls_none g.off n hk']
          simp
        | some k =>
          have hk' : g.off.classes[c]? = some k.off := by rw [off_classes, hk]; rfl
          rw [stTy_cls g n hk, stTy_cls g.off n hk', hstCls_off]
          simp only [hits, tyHasCls, hk, Bool.not_true, Bool.false_eq_true, if_false, Bool.or_eq_false_iff]
          show hstClsWith k.hc.forbid (stTy g n) c k p = .ok y ↔ _
          rw [hstClsWith_flag_iff, cls_handlers_iff (st0 := stTy g.off n) (h := hits g n) ih false]
          constructor
          · rintro ⟨⟨a, b⟩, c'⟩; exact ⟨a, c', b⟩
          · rintro ⟨a, c', b⟩; exact ⟨⟨a, b⟩, c'⟩
      · cases hk : g.classes[c]? with
        | none =>
          have hk' : g.off.classes[c]? = none := by rw [off_classes, hk]; rfl
          rw [stTy_td_none g n hk, stTy_td_none g.off n hk']
          simp
        | some k =>
          have hk' : g.off.classes[c]? = some k.off := by rw [off_classes, hk]; rfl
          rw [stTy_td g n hk, stTy_td g.off n hk', hstTD_off]
          show hstTDWith k.hc.forbid (stTy g n) c k p = .ok y ↔ _
          by_cases hd : ∃ kvs, p = .dict kvs
          · obtain ⟨kvs, rfl⟩ := hd
            simp only [hits, tyHasCls, hk, Bool.not_true, Bool.false_eq_true, if_false, Bool.or_eq_false_iff]
            rw [hstTDWith_flag_iff, td_handlers_iff (st0 := stTy g.off n) (h := hits g n) ih false]
            constructor
            · rintro ⟨⟨a, b⟩, c'⟩; exact ⟨a, c', b⟩
            · rintro ⟨a, c', b⟩; exact ⟨⟨a, b⟩, c'⟩
          · constructor
            · intro h; exact absurd (hstTDWith_ok_dict h) hd
            · rintro ⟨h, -⟩; exact absurd (hstTDWith_ok_dict h) hd
      · by_cases hp : p = .none
        · subst hp
          rw [stTy_opt_none g n ht', stTy_opt_none g.off n ht']
          simp [hits, tyHasCls, ht']
        · rw [stTy_opt_some g n ht' hp, stTy_opt_some g.off n ht' hp, ih]
          cases p <;> simp_all [hits, tyHasCls]
      · rw [stTy_wrap g n ht', stTy_wrap g.off n ht', ih]
        simp [hits, tyHasCls, ht']
      · cases hi : iterItems p with
        | none =>
          rw [stTy_coll_none g n ht' k hi, stTy_coll_none g.off n ht' k hi]
          simp
        | some xs =>
          have hh : hits g (n + 1) (some (.coll k t')) p = xs.any (hits g n (some t')) := by
            simp [hits, tyHasCls, ht', hi]
          rw [hh]
          constructor
          · intro hon
            obtain ⟨xs', hi', hitems⟩ := stTy_coll_ok_items g n ht' k hon
            rw [hi] at hi'; cases hi'
            have hm : xs.map (stTy g.off n (some t')) = xs.map (stTy g n (some t')) :=
              List.map_congr_left (fun x hx => by
                obtain ⟨v, hv⟩ := hitems x hx
                rw [hv, ((ih _ x v).mp hv).1])
            refine ⟨by rw [stTy_coll_congr g g.off n n ht' k hi rfl rfl hm]; exact hon, ?_⟩
            rw [List.any_eq_false]
            intro x hx
            obtain ⟨v, hv⟩ := hitems x hx
            simp [((ih _ x v).mp hv).2]
          · rintro ⟨hoff, hnone⟩
            rw [List.any_eq_false] at hnone
            obtain ⟨xs', hi', hitems⟩ := stTy_coll_ok_items g.off n ht' k hoff
            rw [hi] at hi'; cases hi'
            have hm : xs.map (stTy g n (some t')) = xs.map (stTy g.off n (some t')) :=
              List.map_congr_left (fun x hx => by
                obtain ⟨v, hv⟩ := hitems x hx
                rw [hv, (ih _ x v).mpr ⟨hv, by simpa using hnone x hx⟩])
            rw [stTy_coll_congr g.off g n n ht' k hi rfl rfl hm]; exact hoff
      · simp [stTy, ht]
      · simp [stTy, ht]

end GenHook
end CattrsModel
