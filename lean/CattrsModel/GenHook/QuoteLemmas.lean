import CattrsModel.GenHook.Model
/-!
# `repr(str)` is a literal of that string: `pyUnquote (pyQuote s) = some s` for every string
-/
namespace CattrsModel
namespace GenHook

theorem hexVal_hexDigit : ∀ d, d < 16 → hexVal? (hexDigitC d) = some d := by decide

theorem hexN_length (w n : Nat) : (hexN w n).length = w := by
  induction w with
  | zero => rfl
  | succ w ih => simp [hexN, ih]

theorem hexNum_hexN (w : Nat) : ∀ n, hexNum? (hexN w n) = some (n % 16 ^ w) := by
  induction w with
  | zero => intro n; simp [hexN, hexNum?, Nat.mod_one]
  | succ w ih =>
    intro n
    have hd : (n / 16 ^ w) % 16 < 16 := Nat.mod_lt _ (by decide)
    simp only [hexN, hexNum?, hexVal_hexDigit _ hd, ih n, hexN_length]
    congr 1
    rw [Nat.pow_succ, Nat.mod_mul, Nat.add_comm, Nat.mul_comm]

theorem hexNum_hexN_lt {w n : Nat} (h : n < 16 ^ w) : hexNum? (hexN w n) = some n := by
  rw [hexNum_hexN, Nat.mod_eq_of_lt h]

theorem char_toNat_lt (c : Char) : c.toNat < 16 ^ 8 := by
  have h := c.valid
  unfold UInt32.isValidChar Nat.isValidChar at h
  have : c.toNat = c.val.toNat := rfl
  omega

theorem bs_ne_q {q : Char} (hq : q = '\'' ∨ q = '"') : ('\\' == q) = false := by
  rcases hq with h | h <;> subst h <;> decide

theorem unesc_bs_bs {q : Char} (hq : q = '\'' ∨ q = '"') (r : List Char) :
    unescBody q ('\\' :: '\\' :: r) = (unescBody q r).map ('\\' :: ·) := by
  conv => lhs; unfold unescBody
  simp [bs_ne_q hq]
theorem unesc_bs_sq {q : Char} (hq : q = '\'' ∨ q = '"') (r : List Char) :
    unescBody q ('\\' :: '\'' :: r) = (unescBody q r).map ('\'' :: ·) := by
  conv => lhs; unfold unescBody
  simp [bs_ne_q hq]
theorem unesc_bs_dq {q : Char} (hq : q = '\'' ∨ q = '"') (r : List Char) :
    unescBody q ('\\' :: '"' :: r) = (unescBody q r).map ('"' :: ·) := by
  conv => lhs; unfold unescBody
  simp [bs_ne_q hq]
theorem unesc_bs_n {q : Char} (hq : q = '\'' ∨ q = '"') (r : List Char) :
    unescBody q ('\\' :: 'n' :: r) = (unescBody q r).map ('\n' :: ·) := by
  conv => lhs; unfold unescBody
  simp [bs_ne_q hq]
theorem unesc_bs_t {q : Char} (hq : q = '\'' ∨ q = '"') (r : List Char) :
    unescBody q ('\\' :: 't' :: r) = (unescBody q r).map ('\t' :: ·) := by
  conv => lhs; unfold unescBody
  simp [bs_ne_q hq]
theorem unesc_bs_r {q : Char} (hq : q = '\'' ∨ q = '"') (r : List Char) :
    unescBody q ('\\' :: 'r' :: r) = (unescBody q r).map ('\r' :: ·) := by
  conv => lhs; unfold unescBody
  simp [bs_ne_q hq]
theorem unesc_bs_x {q : Char} (hq : q = '\'' ∨ q = '"') (a b : Char) (r : List Char) :
    unescBody q ('\\' :: 'x' :: a :: b :: r) = (match hexNum? [a, b], unescBody q r with
          | some n, some t => some (Char.ofNat n :: t)
          | _, _ => none) := by
  conv => lhs; unfold unescBody
  simp [bs_ne_q hq]; rfl
theorem unesc_bs_u {q : Char} (hq : q = '\'' ∨ q = '"') (a b c d : Char) (r : List Char) :
    unescBody q ('\\' :: 'u' :: a :: b :: c :: d :: r) = (match hexNum? [a, b, c, d], unescBody q r with
          | some n, some t => some (Char.ofNat n :: t)
          | _, _ => none) := by
  conv => lhs; unfold unescBody
  simp [bs_ne_q hq]; rfl
theorem unesc_bs_U {q : Char} (hq : q = '\'' ∨ q = '"') (a b c d e f g h : Char) (r : List Char) :
    unescBody q ('\\' :: 'U' :: a :: b :: c :: d :: e :: f :: g :: h :: r) =
      (match hexNum? [a, b, c, d, e, f, g, h], unescBody q r with
          | some n, some t => some (Char.ofNat n :: t)
          | _, _ => none) := by
  conv => lhs; unfold unescBody
  simp [bs_ne_q hq]; rfl
theorem unesc_plain {q c : Char} (h1 : c ≠ q) (h2 : c ≠ '\\') (h3 : c ≠ '\n') (h4 : c ≠ '\r') (r : List Char) :
    unescBody q (c :: r) = (unescBody q r).map (c :: ·) := by
  conv => lhs; unfold unescBody
  simp [h1, h2, h3, h4]

theorem opt_match_some {α β γ : Type} (n : α) (o : Option β) (f : α → β → γ) :
    (match some n, o with
      | some n, some t => some (f n t)
      | _, _ => none) = o.map (f n) := by
  cases o <;> rfl

/-- one character: the reader undoes what `repr` wrote, whatever follows -/
theorem unescBody_escChar (q : Char) (hq : q = '\'' ∨ q = '"') (c : Char) (rest : List Char) :
    unescBody q (escChar q c ++ rest) = (unescBody q rest).map (c :: ·) := by
  unfold escChar
  by_cases h1 : (c == q || c == '\\') = true
  · simp only [h1, if_true, List.cons_append, List.nil_append]
    simp only [Bool.or_eq_true, beq_iff_eq] at h1
    rcases h1 with h | h
    · rcases hq with h2 | h2
      · subst h2; subst h; exact unesc_bs_sq (Or.inl rfl) rest
      · subst h2; subst h; exact unesc_bs_dq (Or.inr rfl) rest
    · subst h; exact unesc_bs_bs hq rest
  · simp only [h1, Bool.false_eq_true, if_false]
    simp only [Bool.or_eq_true, beq_iff_eq, not_or] at h1
    obtain ⟨hcq, hcb⟩ := h1
    by_cases ht : c = '\t'
    · subst ht; simp only [beq_self_eq_true, if_true, List.cons_append, List.nil_append]; exact unesc_bs_t hq rest
    · simp only [beq_iff_eq, ht, if_false]
      by_cases hn : c = '\n'
      · subst hn; simp only [if_true, List.cons_append, List.nil_append]; exact unesc_bs_n hq rest
      · simp only [hn, if_false]
        by_cases hr : c = '\r'
        · subst hr; simp only [if_true, List.cons_append, List.nil_append]; exact unesc_bs_r hq rest
        · simp only [hr, if_false]
          by_cases hp : isPrintable c = true
          · simp only [hp, if_true, List.cons_append, List.nil_append]
            exact unesc_plain hcq hcb hn hr rest
          · simp only [hp, Bool.false_eq_true, if_false]
            by_cases hx : c.toNat < 0x100
            · simp only [hx, if_true, hexN, List.cons_append, List.nil_append]
              rw [unesc_bs_x hq]
              have := hexNum_hexN_lt (w := 2) (n := c.toNat) (by simpa using hx)
              simp only [hexN] at this
              rw [this]; cases unescBody q rest <;> simp
            · simp only [hx, if_false]
              by_cases hu : c.toNat < 0x10000
              · simp only [hu, if_true, hexN, List.cons_append, List.nil_append]
                rw [unesc_bs_u hq]
                have := hexNum_hexN_lt (w := 4) (n := c.toNat) (by simpa using hu)
                simp only [hexN] at this
                rw [this]; cases unescBody q rest <;> simp
              · simp only [hu, if_false, hexN, List.cons_append, List.nil_append]
                rw [unesc_bs_U hq]
                have := hexNum_hexN_lt (w := 8) (n := c.toNat) (char_toNat_lt c)
                simp only [hexN] at this
                rw [this]; cases unescBody q rest <;> simp

theorem unescBody_escBody (q : Char) (hq : q = '\'' ∨ q = '"') (cs : List Char) :
    unescBody q (escBody q cs ++ [q]) = some cs := by
  induction cs with
  | nil => simp [escBody, unescBody]
  | cons c cs ih =>
    simp only [escBody, List.append_assoc]
    rw [unescBody_escChar q hq, ih]
    rfl

theorem quoteChar_cases (cs : List Char) : quoteChar cs = '\'' ∨ quoteChar cs = '"' := by
  unfold quoteChar; split <;> simp

/-- `ast.literal_eval(repr(s)) == s` — for **every** string `s` -/
theorem pyUnquote_pyQuote (s : String) : pyUnquote (pyQuote s) = some s := by
  unfold pyQuote pyUnquote
  simp only [String.toList_ofList]
  have hq := quoteChar_cases s.toList
  have : (quoteChar s.toList == '\'' || quoteChar s.toList == '"') = true := by
    rcases hq with h | h <;> simp [h]
  simp only [this, if_true, unescBody_escBody _ hq, Option.map_some, String.ofList_toList]

theorem genOk_always (hc : HookCfg) (attrs : List Attr) : genOk hc attrs = true := by
  simp [genOk, pyUnquote_pyQuote]

end GenHook
end CattrsModel
