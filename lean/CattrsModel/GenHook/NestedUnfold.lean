import CattrsModel.GenHook.Nested
/-!
# Unfolding equations of the composition (`unTy`, `stTy`) and of the nesting vocabulary, one per shape
-/
namespace CattrsModel
namespace GenHook

variable (g : GWorld) (n : Nat)

/-! ### `unTy` -/

theorem unTy_leaf {t : Ty} (h : tyHasCls t = false) (x : Obj) : unTy g (n + 1) (some t) x = un g.core convCfg t x := by
  simp [unTy, h]

theorem unTy_cls {c : Nat} {k : GCls} (hk : g.classes[c]? = some k) (c' : Nat) (fs : List (String × Obj)) :
    unTy g (n + 1) (some (.cls c)) (.inst c' fs) = hunCls (unTy g n) k.hc k.attrs fs := by
  simp [unTy, tyHasCls, hk]

theorem unTy_td {c : Nat} {k : GCls} (hk : g.classes[c]? = some k) (kvs : List (Obj × Obj)) :
    unTy g (n + 1) (some (.td c)) (.dict kvs) = hunTD (unTy g n) (unIsIdTy g n) k.hc k.attrs kvs := by
  simp [unTy, tyHasCls, hk]

theorem unTy_td_other (c : Nat) (x : Obj) (hx : ∀ kvs, x ≠ .dict kvs) :
    unTy g (n + 1) (some (.td c)) x = x := by
  cases x <;> simp [unTy, tyHasCls] at *

theorem unTy_opt_none {t' : Ty} (h : tyHasCls t' = true) : unTy g (n + 1) (some (.opt t')) .none = .none := by
  simp [unTy, tyHasCls, h]

theorem unTy_opt_some {t' : Ty} (h : tyHasCls t' = true) {x : Obj} (hx : x ≠ .none) :
    unTy g (n + 1) (some (.opt t')) x = unTy g n (some t') x := by
  cases x <;> simp [unTy, tyHasCls, h] at *

theorem unTy_wrap {t' : Ty} (h : tyHasCls t' = true) (k : WK) (x : Obj) :
    unTy g (n + 1) (some (.wrap k t')) x = unTy g n (some t') x := by
  simp [unTy, tyHasCls, h]

theorem unTy_coll {t' : Ty} (h : tyHasCls t' = true) (k : SK) (ck : CK) (xs : List Obj) :
    unTy g (n + 1) (some (.coll k t')) (.coll ck xs) = mkColl k.unstructTo (xs.map (unTy g n (some t'))) := by
  simp [unTy, tyHasCls, h]

/-! ### `stTy` -/

theorem stTy_leaf_D {t : Ty} (h : tyHasCls t = false) (hd : g.detailed = true) {x v : Obj}
    (hs : stD g.core convCfg t x = .ok v) : stTy g (n + 1) (some t) x = .ok v := by
  simp [stTy, h, hd, hs]

theorem stTy_leaf_F {t : Ty} (h : tyHasCls t = false) (hd : g.detailed = false) {x v : Obj}
    (hs : stF g.core convCfg t x = some v) : stTy g (n + 1) (some t) x = .ok v := by
  simp [stTy, h, hd, hs]

/-- the outcome on a class-free type does not depend on the recursion budget -/
theorem stTy_leaf_fuel {t : Ty} (h : tyHasCls t = false) (m : Nat) (x : Obj) :
    stTy g (n + 1) (some t) x = stTy g (m + 1) (some t) x := by
  simp [stTy, h]

theorem stTy_cls {c : Nat} {k : GCls} (hk : g.classes[c]? = some k) (x : Obj) :
    stTy g (n + 1) (some (.cls c)) x = hstCls (stTy g n) c k x := by
  simp [stTy, tyHasCls, hk]

theorem stTy_cls_none {c : Nat} (hk : g.classes[c]? = none) (x : Obj) :
    stTy g (n + 1) (some (.cls c)) x = .error .leaf := by
  simp [stTy, tyHasCls, hk]

theorem stTy_td {c : Nat} {k : GCls} (hk : g.classes[c]? = some k) (x : Obj) :
    stTy g (n + 1) (some (.td c)) x = hstTD (stTy g n) c k x := by
  simp [stTy, tyHasCls, hk]

theorem stTy_td_none {c : Nat} (hk : g.classes[c]? = none) (x : Obj) :
    stTy g (n + 1) (some (.td c)) x = .error .leaf := by
  simp [stTy, tyHasCls, hk]

theorem stTy_opt_none {t' : Ty} (h : tyHasCls t' = true) : stTy g (n + 1) (some (.opt t')) .none = .ok .none := by
  simp [stTy, tyHasCls, h]

theorem stTy_opt_some {t' : Ty} (h : tyHasCls t' = true) {x : Obj} (hx : x ≠ .none) :
    stTy g (n + 1) (some (.opt t')) x = stTy g n (some t') x := by
  cases x <;> simp [stTy, tyHasCls, h] at *

theorem stTy_wrap {t' : Ty} (h : tyHasCls t' = true) (k : WK) (x : Obj) :
    stTy g (n + 1) (some (.wrap k t')) x = stTy g n (some t') x := by
  simp [stTy, tyHasCls, h]

theorem stTy_coll_none {t' : Ty} (h : tyHasCls t' = true) (k : SK) {x : Obj} (hi : iterItems x = none) :
    stTy g (n + 1) (some (.coll k t')) x = .error .leaf := by
  simp [stTy, tyHasCls, h, hi]

theorem stTy_coll_D {t' : Ty} (h : tyHasCls t' = true) (k : SK) {x : Obj} {xs : List Obj} (hi : iterItems x = some xs)
    (hd : g.detailed = true) :
    stTy g (n + 1) (some (.coll k t')) x =
      (if (collectD g.core k.structTo.isSet 0 (xs.map (stTy g n (some t')))).2 = [] then
         .ok (mkColl k.structTo (collectD g.core k.structTo.isSet 0 (xs.map (stTy g n (some t')))).1)
       else .error (.ive (collectD g.core k.structTo.isSet 0 (xs.map (stTy g n (some t')))).2)) := by
  simp [stTy, tyHasCls, h, hi, hd]

theorem stTy_coll_F_err {t' : Ty} (h : tyHasCls t' = true) (k : SK) {x : Obj} {xs : List Obj} (hi : iterItems x = some xs)
    (hd : g.detailed = false) {e : HErr} (he : collectF (xs.map (stTy g n (some t'))) = .error e) :
    stTy g (n + 1) (some (.coll k t')) x = .error e := by
  simp [stTy, tyHasCls, h, hi, hd, he]

theorem stTy_coll_F_ok {t' : Ty} (h : tyHasCls t' = true) (k : SK) {x : Obj} {xs : List Obj} (hi : iterItems x = some xs)
    (hd : g.detailed = false) {ys : List Obj} (he : collectF (xs.map (stTy g n (some t'))) = .ok ys) :
    stTy g (n + 1) (some (.coll k t')) x =
      (match finishColl g.core k.structTo ys with
       | some v => .ok v
       | none => .error .leaf) := by
  cases hf : finishColl g.core k.structTo ys <;> simp [stTy, tyHasCls, h, hi, hd, he, hf]

/-- types with a class inside on which the composition is defined -/
theorem tyHasCls_cases {t : Ty} (h : tyHasCls t = true) :
    (∃ c, t = .cls c) ∨ (∃ c, t = .td c) ∨ (∃ t', t = .opt t' ∧ tyHasCls t' = true) ∨
    (∃ k t', t = .wrap k t' ∧ tyHasCls t' = true) ∨ (∃ k t', t = .coll k t' ∧ tyHasCls t' = true) ∨
    (∃ k kt vt, t = .map k kt vt) ∨ (∃ ts, t = .tupleHet ts) := by
  cases t <;> simp_all [tyHasCls] <;> exact ⟨_, _, ⟨rfl, rfl⟩, h⟩

end GenHook
end CattrsModel
