import CattrsModel.GenHook.NestedForbid
/-!
# Nesting: without `forbid_extra_keys`, extra keys are inert at every attrs / dataclass / NamedTuple position
-/
namespace CattrsModel
namespace GenHook

/-- **Two payloads agree on everything the non-forbidding hooks read**: at an attrs / dataclass / NamedTuple position
both are dicts whose entries under the accepted keys are both absent, or both present and again in this relation
(equal, under a custom structure hook) -- any other entry of either dict is unconstrained; items of collections
pairwise; class-free positions and TypedDict positions (recorded finding F9: their results keep unknown keys) must be
equal. -/
def sameRead (g : GWorld) : Nat → Option Ty → Obj → Obj → Prop
  | 0, _, _, _ => True
  | _ + 1, none, p, q => p = q
  | n + 1, some t, p, q =>
    if !tyHasCls t then p = q
    else match t with
      | .cls c => (match g.classes[c]? with
          | some k => ∃ kvs kvs', p = .dict kvs ∧ q = .dict kvs' ∧ ∀ a ∈ k.attrs, included k.hc a = true →
              (dlookup kvs (.str (keyName k.hc a)) = none ∧ dlookup kvs' (.str (keyName k.hc a)) = none) ∨
              (∃ v v', dlookup kvs (.str (keyName k.hc a)) = some v ∧ dlookup kvs' (.str (keyName k.hc a)) = some v' ∧
                (if (ovOf k.hc a).sh.isSome then v = v' else sameRead g n a.ty v v'))
          | none => True)
      | .td _ => p = q
      | .opt t' => (p = .none ∧ q = .none) ∨ (p ≠ .none ∧ q ≠ .none ∧ sameRead g n (some t') p q)
      | .wrap _ t' => sameRead g n (some t') p q
      | .coll _ t' => (iterItems p = none ∧ iterItems q = none) ∨
          (∃ xs ys, iterItems p = some xs ∧ iterItems q = some ys ∧ All₂ (sameRead g n (some t')) xs ys)
      | _ => True

/-! ### the templates depend on the payload only through the blocks of the handled attributes -/

theorem phase_congr_step (st : StFn) (hc : HookCfg) (fa : Bool) (sel : Attr → Bool) {o o' : Obj} :
    ∀ (as : List Attr), (∀ a ∈ as, sel a = true → step st hc fa o a = step st hc fa o' a) →
      phase st hc fa o sel as = phase st hc fa o' sel as := by
  intro as
  induction as with
  | nil => intro _; rfl
  | cons a as ih =>
    intro h
    have ih' := ih (fun b hb => h b (List.mem_cons_of_mem _ hb))
    simp only [phase]
    by_cases hs : sel a = true
    · rw [h a (List.mem_cons_self ..) hs, ih']
    · simp only [hs, Bool.not_false, if_true]; simpa [hs] using ih'

theorem hstClsWith_off_congr_step (st : StFn) (ci : Nat) (c : GCls) {o o' : Obj}
    (h : ∀ a ∈ c.attrs, included c.hc a = true → ∀ fa, step st c.hc fa o a = step st c.hc fa o' a) :
    hstClsWith false st ci c o = hstClsWith false st ci c o' := by
  have e : ∀ (fa : Bool) (sel : Attr → Bool), (∀ a, sel a = true → included c.hc a = true) →
      phase st c.hc fa o sel c.attrs = phase st c.hc fa o' sel c.attrs :=
    fun fa sel hsel => phase_congr_step st c.hc fa sel c.attrs (fun a ha hs => h a ha (hsel a hs) fa)
  have d1 := e false (fun a => included c.hc a && a.init) (by intro a; simp; intros; assumption)
  have d2 := e c.frozen (fun a => included c.hc a && !a.init) (by intro a; simp; intros; assumption)
  have e1 := e false (fun a => included c.hc a && a.init && a.hasDefault) (by intro a; simp; intros; assumption)
  have e2 := e false (fun a => included c.hc a && a.init && !a.hasDefault && !a.kwOnly) (by intro a; simp; intros; assumption)
  have e3 := e false (fun a => included c.hc a && a.init && !a.hasDefault && a.kwOnly) (by intro a; simp; intros; assumption)
  have e4 := e c.frozen (fun a => included c.hc a && !a.init && !a.hasDefault) (by intro a; simp; intros; assumption)
  have e5 := e c.frozen (fun a => included c.hc a && !a.init && a.hasDefault) (by intro a; simp; intros; assumption)
  simp only [hstClsWith, hstClsD, hstClsF, d1, d2, e1, e2, e3, e4, e5, Bool.false_eq_true, if_false]

theorem map_eq_of_all2 {α β : Type} {R : α → α → Prop} (f : α → β) (hR : ∀ x y, R x y → f x = f y) :
    ∀ (xs ys : List α), All₂ R xs ys → xs.map f = ys.map f := by
  intro xs
  induction xs with
  | nil => intro ys h; cases ys with
    | nil => rfl
    | cons y ys => simp [All₂] at h
  | cons x xs ih =>
    intro ys h
    cases ys with
    | nil => simp [All₂] at h
    | cons y ys =>
      obtain ⟨hl, hp⟩ := h
      simp only [List.map_cons]
      rw [hR x y (hp (x, y) (by simp)), ih ys ⟨by simpa using hl, fun p hp' => hp p (by simp [hp'])⟩]

theorem stTy_coll_congr2 (g : GWorld) (n : Nat) {t' : Ty} (ht : tyHasCls t' = true) (k : SK) {p q : Obj} {xs ys : List Obj}
    (hp : iterItems p = some xs) (hq : iterItems q = some ys)
    (hm : xs.map (stTy g n (some t')) = ys.map (stTy g n (some t'))) :
    stTy g (n + 1) (some (.coll k t')) p = stTy g (n + 1) (some (.coll k t')) q := by
  simp [stTy, tyHasCls, ht, hp, hq, hm]

/-- **Inertness at every depth**: in a world where no hook forbids extra keys, payloads that agree on what the hooks
read (`sameRead`) have the same outcome -- value or error. -/
theorem inert_nested (g : GWorld) (hnf : g.noForbid = true) : ∀ (n : Nat) (t : Option Ty) (p q : Obj),
    sameRead g n t p q → stTy g n t p = stTy g n t q := by
  intro n
  induction n with
  | zero => intro t p q _; simp [stTy]
  | succ n ih =>
    intro t p q h
    cases t with
    | none => simp only [sameRead] at h; rw [h]
    | some t =>
      cases ht : tyHasCls t with
      | false => simp only [sameRead, ht, Bool.not_false, if_true] at h; rw [h]
      | true =>
      rcases tyHasCls_cases ht with ⟨c, rfl⟩ | ⟨c, rfl⟩ | ⟨t', rfl, ht'⟩ | ⟨k, t', rfl, ht'⟩ | ⟨k, t', rfl, ht'⟩ | ⟨k, kt, vt, rfl⟩ | ⟨ts, rfl⟩
      · cases hk : g.classes[c]? with
        | none => rw [stTy_cls_none g n hk, stTy_cls_none g n hk]
        | some k =>
          have hf : k.hc.forbid = false := by
            simp only [GWorld.noForbid, List.all_eq_true, Bool.not_eq_true'] at hnf
            exact hnf k (List.mem_of_getElem? hk)
          simp only [sameRead, tyHasCls, hk, Bool.not_true, Bool.false_eq_true, if_false] at h
          obtain ⟨kvs, kvs', rfl, rfl, hattrs⟩ := h
          rw [stTy_cls g n hk, stTy_cls g n hk]
          show hstClsWith k.hc.forbid _ _ _ _ = hstClsWith k.hc.forbid _ _ _ _
          rw [hf]
          apply hstClsWith_off_congr_step
          intro a ha hi fa
          rcases hattrs a ha hi with ⟨h1, h2⟩ | ⟨v, v', h1, h2, hrel⟩
          · simp only [step, pyGet, pyContains, dhas, h1, h2]
          · have : attrSt (stTy g n) (ovOf k.hc a) a v = attrSt (stTy g n) (ovOf k.hc a) a v' := by
              cases hs : (ovOf k.hc a).sh with
              | some m => simp only [hs, Option.isSome_some, if_true] at hrel; rw [hrel]
              | none =>
                simp only [hs, Option.isSome_none, Bool.false_eq_true, if_false] at hrel
                simp only [attrSt, hs]; exact ih _ _ _ hrel
            simp only [step, pyGet, pyContains, dhas, h1, h2, this, Option.isSome_some]
      · simp only [sameRead, tyHasCls, Bool.not_true, Bool.false_eq_true, if_false] at h; rw [h]
      · simp only [sameRead, tyHasCls, ht', Bool.not_true, Bool.false_eq_true, if_false] at h
        rcases h with ⟨rfl, rfl⟩ | ⟨hp, hq, hrel⟩
        · rfl
        · rw [stTy_opt_some g n ht' hp, stTy_opt_some g n ht' hq]; exact ih _ _ _ hrel
      · simp only [sameRead, tyHasCls, ht', Bool.not_true, Bool.false_eq_true, if_false] at h
        rw [stTy_wrap g n ht', stTy_wrap g n ht']; exact ih _ _ _ h
      · simp only [sameRead, tyHasCls, ht', Bool.not_true, Bool.false_eq_true, if_false] at h
        rcases h with ⟨hp, hq⟩ | ⟨xs, ys, hp, hq, hrel⟩
        · rw [stTy_coll_none g n ht' k hp, stTy_coll_none g n ht' k hq]
        · exact stTy_coll_congr2 g n ht' k hp hq (map_eq_of_all2 _ (fun x y hxy => ih _ x y hxy) xs ys hrel)
      · simp [stTy, ht]
      · simp [stTy, ht]

end GenHook
end CattrsModel
