import CattrsModel.GenHook.Model
import CattrsModel.Lemmas.Assoc
/-!
# Helper lemmas for the customised-hook model: string-keyed dicts, emitted keys, forbid / extras
-/
namespace CattrsModel
namespace GenHook

/-! ### small list facts -/

theorem nodupS_iff (l : List String) : nodupS l = true ↔ l.Nodup := by
  induction l with
  | nil => simp [nodupS]
  | cons x xs ih => simp [nodupS, List.nodup_cons, ih]

theorem inj_of_nodup_map {α β : Type} (f : α → β) : ∀ {l : List α}, (l.map f).Nodup → ∀ {a b : α}, a ∈ l → b ∈ l → f a = f b → a = b := by
  intro l
  induction l with
  | nil => intro _ a b ha; cases ha
  | cons x xs ih =>
    intro h a b ha hb hab
    simp only [List.map_cons, List.nodup_cons, List.mem_map, not_exists, not_and] at h
    rcases List.mem_cons.mp ha with ha | ha <;> rcases List.mem_cons.mp hb with hb | hb
    · rw [ha, hb]
    · rw [ha] at hab; exact absurd hab.symm (h.1 b hb)
    · rw [hb] at hab; exact absurd hab (h.1 a ha)
    · exact ih h.2 ha hb hab

/-! ### dicts keyed by strings -/

theorem pyEq_str_iff (x : Obj) (k : String) : Obj.pyEq x (.str k) = true ↔ x = .str k := pyEq_str_right

theorem pyEq_str_str (a b : String) : Obj.pyEq (.str a) (.str b) = decide (a = b) := by
  by_cases h : a = b
  · subst h; simp [Obj.pyEq_refl]
  · have : ¬ (Obj.pyEq (.str a) (.str b) = true) := by
      rw [pyEq_str_iff]; intro e; cases e; exact h rfl
    simp [h, this]

theorem dlookup_cons_str (k' : Obj) (v : Obj) (rest : List (Obj × Obj)) (k : String) :
    dlookup ((k', v) :: rest) (.str k) = if k' = .str k then some v else dlookup rest (.str k) := by
  simp only [dlookup]
  by_cases h : k' = .str k
  · subst h; simp [Obj.pyEq_refl]
  · have : Obj.pyEq k' (.str k) = false := by
      cases hh : Obj.pyEq k' (.str k) with
      | false => rfl
      | true => exact absurd ((pyEq_str_iff _ _).mp hh) h
    simp [h, this]

theorem dlookup_append (l1 l2 : List (Obj × Obj)) (k : Obj) :
    dlookup (l1 ++ l2) k = (dlookup l1 k).or (dlookup l2 k) := by
  induction l1 with
  | nil => simp [dlookup]
  | cons p rest ih =>
    obtain ⟨k', v⟩ := p
    simp only [List.cons_append, dlookup]
    split
    · rfl
    · exact ih

theorem memPy_str_map (k : String) (ks : List String) : Obj.memPy (.str k) (ks.map Obj.str) = decide (k ∈ ks) := by
  induction ks with
  | nil => simp [Obj.memPy]
  | cons x xs ih =>
    simp only [List.map_cons, Obj.memPy, ih, pyEq_str_str, List.mem_cons]
    by_cases h : x = k
    · subst h; simp
    · have : ¬ k = x := fun e => h e.symm
      simp [h, this]

theorem nodupPy_str_map (ks : List String) : nodupPy (ks.map Obj.str) = true ↔ ks.Nodup := by
  induction ks with
  | nil => simp [nodupPy]
  | cons x xs ih =>
    simp only [List.map_cons, nodupPy, memPy_str_map, Bool.and_eq_true, Bool.not_eq_true', decide_eq_false_iff_not,
      ih, List.nodup_cons]

theorem dictSet_append_of_not_mem {d : List (Obj × Obj)} {k : Obj} (h : Obj.memPy k (keysOf d) = false) (v : Obj) :
    dictSet d k v = d ++ [(k, v)] := by
  induction d with
  | nil => simp [dictSet]
  | cons p rest ih =>
    obtain ⟨k', v'⟩ := p
    simp only [keysOf, List.map_cons, Obj.memPy, Bool.or_eq_false_iff] at h
    simp only [dictSet, h.1, Bool.false_eq_true, if_false, List.cons_append]
    rw [ih (by simpa [keysOf] using h.2)]

theorem foldl_dictSet_of_nodup (kvs : List (Obj × Obj)) : ∀ acc : List (Obj × Obj),
    nodupPy (keysOf (acc ++ kvs)) = true → kvs.foldl (fun d kv => dictSet d kv.1 kv.2) acc = acc ++ kvs := by
  induction kvs with
  | nil => intro acc _; simp
  | cons p rest ih =>
    intro acc h
    obtain ⟨k, v⟩ := p
    simp only [List.foldl_cons]
    have hk : Obj.memPy k (keysOf acc) = false := by
      -- k occurs after acc in a duplicate-free key list
      have : ∀ (a : List Obj) (b : List Obj), nodupPy (a ++ k :: b) = true → Obj.memPy k a = false := by
        intro a
        induction a with
        | nil => intro b _; rfl
        | cons x xs iha =>
          intro b hb
          simp only [List.cons_append, nodupPy, Bool.and_eq_true, Bool.not_eq_true'] at hb
          simp only [Obj.memPy, Bool.or_eq_false_iff]
          refine ⟨?_, iha b hb.2⟩
          have hx := hb.1
          rw [memPy_append] at hx
          simp only [Obj.memPy, Bool.or_eq_false_iff] at hx
          rw [Obj.pyEq_symm]; exact hx.2.1
      exact this (keysOf acc) (keysOf rest) (by simpa [keysOf] using h)
    rw [dictSet_append_of_not_mem hk, ih (acc ++ [(k, v)]) (by simpa using h)]
    simp

theorem mkDict_of_nodup {kvs : List (Obj × Obj)} (h : nodupPy (keysOf kvs) = true) : mkDict kvs = kvs := by
  have := foldl_dictSet_of_nodup kvs [] (by simpa using h)
  simpa [mkDict] using this

/-! ### the emitted keys -/

theorem keysOf_unPart (un : UnFn) (hc : HookCfg) (post : Bool) : ∀ (as : List Attr) (fs : List (String × Obj)),
    keysOf (unPart un hc post as fs) = (expectedPart hc post as fs).map Obj.str := by
  intro as
  induction as with
  | nil => intro fs; simp [unPart, expectedPart, keysOf]
  | cons a as ih =>
    intro fs
    cases fs with
    | nil => simp [unPart, expectedPart, keysOf]
    | cons p fs =>
      obtain ⟨n, v⟩ := p
      have ih' := ih fs
      simp only [keysOf] at ih'
      simp only [unPart, expectedPart]
      cases included hc a <;> cases oidApplies hc a <;> cases post <;> cases defaultEq a v <;>
        simp [keysOf, ih']

theorem keysOf_append (a b : List (Obj × Obj)) : keysOf (a ++ b) = keysOf a ++ keysOf b := by
  simp [keysOf]

theorem mem_expectedPart (hc : HookCfg) (post : Bool) {k : String} : ∀ (as : List Attr) (fs : List (String × Obj)),
    k ∈ expectedPart hc post as fs → k ∈ (as.filter (included hc)).map (keyName hc) := by
  intro as
  induction as with
  | nil => intro fs h; simp [expectedPart] at h
  | cons a as ih =>
    intro fs h
    cases fs with
    | nil => simp [expectedPart] at h
    | cons p fs =>
      obtain ⟨n, v⟩ := p
      simp only [expectedPart] at h
      by_cases hi : included hc a = true
      · simp only [hi, Bool.not_true, Bool.false_eq_true, if_false] at h
        simp only [List.filter_cons, hi, if_true, List.map_cons, List.mem_cons]
        split at h
        · split at h
          · rcases List.mem_cons.mp h with h | h
            · exact Or.inl h
            · exact Or.inr (ih fs h)
          · exact Or.inr (ih fs h)
        · split at h
          · exact Or.inr (ih fs h)
          · rcases List.mem_cons.mp h with h | h
            · exact Or.inl h
            · exact Or.inr (ih fs h)
      · simp only [hi, Bool.not_false, if_true] at h
        simp only [List.filter_cons, hi, Bool.false_eq_true, if_false]
        exact ih fs h

theorem expectedKeys_nodup (hc : HookCfg) : ∀ (as : List Attr) (fs : List (String × Obj)),
    ((as.filter (included hc)).map (keyName hc)).Nodup → (expectedKeys hc as fs).Nodup := by
  intro as
  induction as with
  | nil => intro fs _; simp [expectedKeys, expectedPart]
  | cons a as ih =>
    intro fs h
    cases fs with
    | nil => simp [expectedKeys, expectedPart]
    | cons p fs =>
      obtain ⟨n, v⟩ := p
      simp only [expectedKeys, expectedPart]
      by_cases hi : included hc a = true
      · simp only [List.filter_cons, hi, if_true, List.map_cons, List.nodup_cons] at h
        have ih' := ih fs h.2
        simp only [expectedKeys] at ih'
        have hnot : keyName hc a ∉ expectedPart hc false as fs ++ expectedPart hc true as fs := by
          intro hm
          rcases List.mem_append.mp hm with hm | hm
          · exact h.1 (mem_expectedPart hc false as fs hm)
          · exact h.1 (mem_expectedPart hc true as fs hm)
        simp only [hi, Bool.not_true, Bool.false_eq_true, if_false, Bool.true_and, Bool.false_and, if_true]
        by_cases ho : oidApplies hc a = true
        · simp only [ho, if_true]
          by_cases hd : defaultEq a v = true
          · simpa [hd] using ih'
          · simp only [hd, Bool.not_false, if_true]
            exact (List.perm_middle.nodup_iff).mpr (List.nodup_cons.mpr ⟨hnot, ih'⟩)
        · simp only [ho, Bool.false_eq_true, if_false, List.cons_append]
          exact List.nodup_cons.mpr ⟨hnot, ih'⟩
      · simp only [List.filter_cons, hi, Bool.false_eq_true, if_false] at h
        have ih' := ih fs h
        simp only [expectedKeys] at ih'
        simpa [hi] using ih'

/-- the unstructure hook emits exactly the specified keys, in the specified order -/
theorem keysOf_hunCls (un : UnFn) (hc : HookCfg) (as : List Attr) (fs : List (String × Obj))
    (h : ((as.filter (included hc)).map (keyName hc)).Nodup) :
    hunCls un hc as fs = .dict (unPart un hc false as fs ++ unPart un hc true as fs)
    ∧ keysOf (unPart un hc false as fs ++ unPart un hc true as fs) = (expectedKeys hc as fs).map Obj.str := by
  have hk : keysOf (unPart un hc false as fs ++ unPart un hc true as fs) = (expectedKeys hc as fs).map Obj.str := by
    rw [keysOf_append, keysOf_unPart, keysOf_unPart, expectedKeys, List.map_append]
  refine ⟨?_, hk⟩
  unfold hunCls
  rw [mkDict_of_nodup]
  rw [hk, nodupPy_str_map]
  exact expectedKeys_nodup hc as fs h

/-- declarative reading of `expectedKeys`: which keys are present -/
theorem mem_expectedKeys_iff (hc : HookCfg) (k : String) : ∀ (as : List Attr) (fs : List (String × Obj)),
    k ∈ expectedKeys hc as fs ↔
      ∃ p ∈ as.zip fs, included hc p.1 = true ∧ keyName hc p.1 = k ∧ ¬ (oidApplies hc p.1 = true ∧ defaultEq p.1 p.2.2 = true) := by
  intro as
  induction as with
  | nil => intro fs; simp [expectedKeys, expectedPart]
  | cons a as ih =>
    intro fs
    cases fs with
    | nil => simp [expectedKeys, expectedPart]
    | cons p fs =>
      obtain ⟨n, v⟩ := p
      have ih' := ih fs
      simp only [expectedKeys, List.mem_append] at ih'
      simp only [expectedKeys, expectedPart, List.zip_cons_cons, List.mem_cons, List.mem_append, exists_eq_or_imp]
      rw [← ih']
      cases included hc a <;> cases oidApplies hc a <;> cases defaultEq a v <;> simp <;> grind

end GenHook
end CattrsModel
