import CattrsModel.GenHook.TDLemmas
/-!
# TypedDict unstructure hook (copy, then patch): the complete key statement

`hunTD` copies the instance, pops the names of omitted / renamed keys (`dictDel`) and assigns the final keys of
the handled attributes (`dictSet`).  Here: what happens to *every* key (string or not) of the copy —
popped names are gone (this needs the instance's keys to be duplicate-free, as the keys of every real dict
are), every key no step touches keeps its entry, the key list stays duplicate-free, and the keys outside a
set that contains every touched key keep their relative order.
-/
namespace CattrsModel
namespace GenHook

/-! ### association lists: popping and assigning a string key, seen from an arbitrary key -/

theorem dlookup_dictDel_other (d : List (Obj × Obj)) (a : String) {k : Obj} (hk : k ≠ .str a) :
    dlookup (dictDel d (.str a)) k = dlookup d k := by
  induction d with
  | nil => rfl
  | cons q rest ih =>
    obtain ⟨k', v'⟩ := q
    simp only [dictDel]
    split
    · rename_i h
      have hk' : k' = .str a := pyEq_str_right.mp h
      subst hk'
      have : Obj.pyEq (.str a) k = false := by
        cases h2 : Obj.pyEq (.str a) k
        · rfl
        · exact absurd (pyEq_str_left.mp h2) hk
      simp only [dlookup, this, Bool.false_eq_true, if_false]
    · simp only [dlookup, ih]

theorem dlookup_dictSet_other (d : List (Obj × Obj)) (a : String) (v : Obj) {k : Obj} (hk : k ≠ .str a) :
    dlookup (dictSet d (.str a) v) k = dlookup d k := by
  have hne : Obj.pyEq (.str a) k = false := by
    cases h2 : Obj.pyEq (.str a) k
    · rfl
    · exact absurd (pyEq_str_left.mp h2) hk
  induction d with
  | nil => simp only [dictSet, dlookup, hne, Bool.false_eq_true, if_false]
  | cons q rest ih =>
    obtain ⟨k', v'⟩ := q
    simp only [dictSet]
    split
    · rename_i h
      have hk' : k' = .str a := pyEq_str_right.mp h
      subst hk'
      simp only [dlookup, hne, Bool.false_eq_true, if_false]
    · simp only [dlookup, ih]

/-- `d.pop(k, None)` keeps the keys duplicate-free -/
theorem dictDel_keys_mem {d : List (Obj × Obj)} {k a : Obj} (h : a ∈ keysOf (dictDel d k)) : a ∈ keysOf d := by
  induction d with
  | nil => simp [dictDel, keysOf] at h
  | cons q rest ih =>
    obtain ⟨k', v'⟩ := q
    simp only [dictDel] at h
    split at h
    · simp only [keysOf, List.map_cons, List.mem_cons]; right; exact h
    · simp only [keysOf, List.map_cons, List.mem_cons] at h ⊢
      rcases h with h | h
      · left; exact h
      · right; exact ih h

theorem dictDel_keys_nodup {d : List (Obj × Obj)} (h : nodupPy (keysOf d) = true) (k : Obj) :
    nodupPy (keysOf (dictDel d k)) = true := by
  induction d with
  | nil => rfl
  | cons q rest ih =>
    obtain ⟨k', v'⟩ := q
    simp only [keysOf, List.map_cons, nodupPy, Bool.and_eq_true, Bool.not_eq_true'] at h
    simp only [dictDel]
    split
    · exact h.2
    · simp only [keysOf, List.map_cons, nodupPy, Bool.and_eq_true, Bool.not_eq_true']
      refine ⟨?_, ih h.2⟩
      cases hm : Obj.memPy k' (List.map (fun x => x.fst) (dictDel rest k)) with
      | false => rfl
      | true =>
        exfalso
        obtain ⟨y, hy, hyk⟩ := memPy_iff.mp hm
        have : Obj.memPy k' (List.map (fun x => x.fst) rest) = true :=
          memPy_iff.mpr ⟨y, dictDel_keys_mem (d := rest) hy, hyk⟩
        rw [this] at h; exact absurd h.1 (by simp)

/-- popping a string key of a duplicate-free dict removes it -/
theorem dlookup_dictDel_same {d : List (Obj × Obj)} (h : nodupPy (keysOf d) = true) (a : String) :
    dlookup (dictDel d (.str a)) (.str a) = none := by
  induction d with
  | nil => rfl
  | cons q rest ih =>
    obtain ⟨k', v'⟩ := q
    simp only [keysOf, List.map_cons, nodupPy, Bool.and_eq_true, Bool.not_eq_true'] at h
    simp only [dictDel]
    split
    · rename_i hk
      have hk' : k' = .str a := pyEq_str_right.mp hk
      subst hk'
      exact dlookup_none_iff.mpr h.1
    · rename_i hk
      simp only [dlookup, hk]
      exact ih h.2

/-- keys outside the filter are invisible to it: popping -/
theorem filter_keysOf_dictDel (p : Obj → Bool) (d : List (Obj × Obj)) (a : String) (hp : p (.str a) = false) :
    (keysOf (dictDel d (.str a))).filter p = (keysOf d).filter p := by
  induction d with
  | nil => rfl
  | cons q rest ih =>
    obtain ⟨k', v'⟩ := q
    simp only [dictDel]
    split
    · rename_i hk
      have hk' : k' = .str a := pyEq_str_right.mp hk
      subst hk'
      simp only [keysOf, List.map_cons, List.filter_cons, hp, Bool.false_eq_true, if_false]
    · simp only [keysOf, List.map_cons, List.filter_cons] at ih ⊢
      rw [ih]

/-- keys outside the filter are invisible to it: assigning -/
theorem filter_keysOf_dictSet (p : Obj → Bool) (d : List (Obj × Obj)) (a : String) (v : Obj) (hp : p (.str a) = false) :
    (keysOf (dictSet d (.str a) v)).filter p = (keysOf d).filter p := by
  induction d with
  | nil => simp only [dictSet, keysOf, List.map_cons, List.map_nil, List.filter_cons, hp, Bool.false_eq_true, if_false]
  | cons q rest ih =>
    obtain ⟨k', v'⟩ := q
    simp only [dictSet]
    split
    · simp only [keysOf, List.map_cons]
    · simp only [keysOf, List.map_cons, List.filter_cons] at ih ⊢
      rw [ih]

/-! ### the steps of the unstructure hook -/

section Un
variable (un : UnFn) (unIsId : Option Ty → Bool) (hc : HookCfg) (inst : List (Obj × Obj))

/-- a key (string or not) that the steps neither pop nor assign keeps its entry -/
theorem hunTDSteps_frame_obj (k : Obj) : ∀ (as : List Attr) (res : List (Obj × Obj)),
    (∀ b ∈ as, k ≠ .str b.name ∧ (tdIncluded hc b = true → k ≠ .str (tdKey hc b))) →
    dlookup (hunTDSteps un unIsId hc inst as res) k = dlookup res k := by
  intro as
  induction as with
  | nil => intro res _; rfl
  | cons b as ih =>
    intro res h
    have hb := h b (List.mem_cons_self ..)
    have ih' := fun r => ih r (fun c hc' => h c (List.mem_cons_of_mem _ hc'))
    simp only [hunTDSteps]
    split
    · rw [ih', dlookup_dictDel_other _ _ hb.1]
    · rename_i hom
      have hi : tdIncluded hc b = true := by simpa [tdIncluded] using hom
      have h1 : dlookup (if (ovOf hc b).rename.isSome = true then dictDel res (.str b.name) else res) k
          = dlookup res k := by
        split
        · exact dlookup_dictDel_other _ _ hb.1
        · rfl
      split
      · rw [ih', h1]
      · split
        · split
          · rw [ih', dlookup_dictSet_other _ _ _ (hb.2 hi), h1]
          · rw [ih', h1]
        · rw [ih', dlookup_dictSet_other _ _ _ (hb.2 hi), h1]

/-- the key list of the copy stays duplicate-free -/
theorem hunTDSteps_nodup : ∀ (as : List Attr) (res : List (Obj × Obj)),
    nodupPy (keysOf res) = true → nodupPy (keysOf (hunTDSteps un unIsId hc inst as res)) = true := by
  intro as
  induction as with
  | nil => intro res h; exact h
  | cons b as ih =>
    intro res h
    simp only [hunTDSteps]
    have h1 : nodupPy (keysOf (if (ovOf hc b).rename.isSome = true then dictDel res (.str b.name) else res)) = true := by
      split
      · exact dictDel_keys_nodup h _
      · exact h
    split
    · exact ih _ (dictDel_keys_nodup h _)
    · split
      · exact ih _ h1
      · split
        · split
          · exact ih _ (dictSet_keys_nodup h1 _ _)
          · exact ih _ h1
        · exact ih _ (dictSet_keys_nodup h1 _ _)

/-- keys selected by a filter that rejects every name and every final key keep their relative order -/
theorem hunTDSteps_filter (p : Obj → Bool) : ∀ (as : List Attr) (res : List (Obj × Obj)),
    (∀ b ∈ as, p (.str b.name) = false ∧ (tdIncluded hc b = true → p (.str (tdKey hc b)) = false)) →
    (keysOf (hunTDSteps un unIsId hc inst as res)).filter p = (keysOf res).filter p := by
  intro as
  induction as with
  | nil => intro res _; rfl
  | cons b as ih =>
    intro res h
    have hb := h b (List.mem_cons_self ..)
    have ih' := fun r => ih r (fun c hc' => h c (List.mem_cons_of_mem _ hc'))
    simp only [hunTDSteps]
    split
    · rw [ih', filter_keysOf_dictDel p _ _ hb.1]
    · rename_i hom
      have hi : tdIncluded hc b = true := by simpa [tdIncluded] using hom
      have h1 : (keysOf (if (ovOf hc b).rename.isSome = true then dictDel res (.str b.name) else res)).filter p
          = (keysOf res).filter p := by
        split
        · exact filter_keysOf_dictDel p _ _ hb.1
        · rfl
      split
      · rw [ih', h1]
      · split
        · split
          · rw [ih', filter_keysOf_dictSet p _ _ _ (hb.2 hi), h1]
          · rw [ih', h1]
        · rw [ih', filter_keysOf_dictSet p _ _ _ (hb.2 hi), h1]

end Un

end GenHook
end CattrsModel
