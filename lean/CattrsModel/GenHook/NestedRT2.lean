import CattrsModel.GenHook.NestedRT
/-!
# Nesting: the round trip of the composition at every depth, for every sufficient budget
-/
namespace CattrsModel
namespace GenHook

/-- **Round trip of the composition** (induction on the depth of the value; the per-hook theorems are the step).
For every depth `d`, every conforming value and every budget `n ≥ d`: structuring the unstructured value
succeeds and the result agrees with the value on every handled attribute at every class position. -/
theorem roundtrip_nested (g : GWorld) (hcons : g.consistent = true) (hwe : g.core.WFE) :
    ∀ (d : Nat) (t : Option Ty) (x : Obj), gconf g d t x = true → ∀ n, d ≤ n →
      ∃ y, stTy g n t (unTy g n t x) = .ok y ∧ AgreesAt g d t x y := by
  intro d
  induction d with
  | zero => intro t x h; simp [gconf] at h
  | succ d ih =>
    intro t x h n hn
    obtain ⟨m, rfl⟩ : ∃ m, n = m + 1 := ⟨n - 1, by omega⟩
    have hm : d ≤ m := by omega
    -- the induction hypothesis as a function
    have ihf : ∀ (t : Option Ty) (v : Obj), gconf g d t v = true →
        stTy g m t (unTy g m t v) = .ok (rtAt g m t v) ∧ AgreesAt g d t v (rtAt g m t v) := by
      intro t v hv
      obtain ⟨y, h1, h2⟩ := ih t v hv m hm
      have e : rtAt g m t v = y := by simp [rtAt, h1, okOr]
      rw [e]; exact ⟨h1, h2⟩
    cases t with
    | none => exact ⟨unAny g.core convCfg x, by simp [unTy, stTy], by simp [AgreesAt]⟩
    | some t =>
      cases ht : tyHasCls t with
      | false =>
        rw [gconf_leaf g d ht] at h
        exact ⟨x, stTy_leaf_roundtrip g hwe m ht h, by simp [AgreesAt, ht]⟩
      | true =>
      rcases tyHasCls_cases ht with ⟨c, rfl⟩ | ⟨c, rfl⟩ | ⟨t', rfl, ht'⟩ | ⟨k, t', rfl, ht'⟩ | ⟨k, t', rfl, ht'⟩ | ⟨k, kt, vt, rfl⟩ | ⟨ts, rfl⟩
      · -- attrs class / dataclass / NamedTuple
        obtain ⟨fs, k, rfl, hk, hkind, hlen, hfs⟩ := gconf_cls g d h
        have hc := consistentCls_of_lookup hcons hk hkind
        rw [unTy_cls g m hk, stTy_cls g m hk]
        refine ⟨_, perhook_cls (unTy g m) (stTy g m) c k fs (fun a v => rtAt g m a.ty v) k.hc.forbid hc hlen
          (fun p hp hi he hs => (ihf _ _ (hfs p hp hi he hs)).1), ?_⟩
        simp only [AgreesAt, tyHasCls, Bool.not_true, Bool.false_eq_true, if_false]
        refine ⟨k, _, hk, rfl, ?_⟩
        intro p hp hi
        obtain ⟨yv, hmem, he1, he2⟩ := restored_agrees k.hc (rtWithHooks k.hc (fun a v => rtAt g m a.ty v)) k.attrs fs p hp hi
        refine ⟨yv, hmem, ?_, he2⟩
        intro he
        rw [he1 he]
        cases hs : (ovOf k.hc p.1).sh with
        | some s => simp [rtWithHooks, hs]
        | none =>
          simp only [rtWithHooks, hs, Option.isSome_none, Bool.false_eq_true, if_false]
          exact (ihf _ _ (hfs p hp hi he hs)).2
      · -- TypedDict
        obtain ⟨kvs, k, rfl, hk, hkind, hnd, hdecl, hattrs⟩ := gconf_td g d h
        have hc := consistentTD_of_lookup hcons hk hkind
        rw [unTy_td g m hk, stTy_td g m hk]
        obtain ⟨res, hres, hlook⟩ := perhook_td (unTy g m) (unIsIdTy g m) (stTy g m) c k kvs (fun a v => rtAt g m a.ty v)
          k.hc.forbid hc (fun t v => unIsIdTy_sound g m t v)
          (fun a ha hi => (hattrs a ha hi).1) (fun a ha hi => (hattrs a ha hi).2.1)
          (fun a ha hi hs v hv => (ihf _ _ ((hattrs a ha hi).2.2 hs v hv)).1)
          (fun _ => hnd) hdecl
        refine ⟨.dict res, hres, ?_⟩
        simp only [AgreesAt, tyHasCls, Bool.not_true, Bool.false_eq_true, if_false]
        refine ⟨k, res, hk, rfl, ?_⟩
        intro a ha hi
        rw [hlook a ha hi]
        cases hv : dlookup kvs (.str a.name) with
        | none => exact Or.inl ⟨rfl, rfl⟩
        | some v =>
          refine Or.inr ⟨v, _, rfl, rfl, ?_⟩
          cases hs : (ovOf k.hc a).sh with
          | some s => simp [rtWithHooks, hs]
          | none =>
            simp only [rtWithHooks, hs, Option.isSome_none, Bool.false_eq_true, if_false]
            exact (ihf _ _ ((hattrs a ha hi).2.2 hs v hv)).2
      · -- Optional
        by_cases hx : x = .none
        · subst hx
          rw [unTy_opt_none g m ht', stTy_opt_none g m ht']
          exact ⟨_, rfl, by simp [AgreesAt, tyHasCls, ht']⟩
        · have hv := gconf_opt g d ht' hx h
          rw [unTy_opt_some g m ht' hx, stTy_opt_some g m ht' (unTy_ne_none g d t' x hv ht' hx m hm)]
          obtain ⟨y, h1, h2⟩ := ih _ _ hv m hm
          refine ⟨y, h1, ?_⟩
          cases x <;> simp_all [AgreesAt, tyHasCls]
      · -- NewType / Annotated / Final / alias
        have hv := gconf_wrap g d ht' h
        rw [unTy_wrap g m ht', stTy_wrap g m ht']
        obtain ⟨y, h1, h2⟩ := ih _ _ hv m hm
        exact ⟨y, h1, by simpa [AgreesAt, tyHasCls, ht'] using h2⟩
      · -- list / sequence / tuple[T, ...] / deque
        obtain ⟨xs, rfl, hset, hitems⟩ := gconf_coll g d ht' h
        rw [unTy_coll g m ht', mkColl, notSet_unstructTo hset]
        simp only [CK.isSet, Bool.false_eq_true, if_false]
        rw [stTy_coll_oks g m ht' hset .list (xs.map (unTy g m (some t'))) (fun u => okOr (stTy g m (some t') u))
          (by
            intro u hu
            obtain ⟨v, hv, rfl⟩ := List.mem_map.mp hu
            exact eq_ok_okOr (ihf _ _ (hitems v hv)).1)]
        refine ⟨_, rfl, ?_⟩
        simp only [AgreesAt, tyHasCls, ht', Bool.not_true, Bool.false_eq_true, if_false]
        refine ⟨_, rfl, by simp, ?_⟩
        intro p hp
        rw [List.map_map] at hp
        obtain ⟨hp1, hp2⟩ := mem_zip_map_self _ xs p hp
        rw [hp2]
        exact (ihf _ _ (hitems _ hp1)).2
      · rw [gconf_map_false g d ht] at h; cases h
      · rw [gconf_tupleHet_false g d ht] at h; cases h

end GenHook
end CattrsModel
