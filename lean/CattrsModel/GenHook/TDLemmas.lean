import CattrsModel.GenHook.Lemmas
/-!
# TypedDict hooks (copy, then patch): frame lemmas and the round trip
-/
namespace CattrsModel
namespace GenHook

theorem dlookup_dictDel_str_other (d : List (Obj × Obj)) {a b : String} (hab : a ≠ b) :
    dlookup (dictDel d (.str a)) (.str b) = dlookup d (.str b) := by
  induction d with
  | nil => rfl
  | cons q rest ih =>
    obtain ⟨k', v'⟩ := q
    simp only [dictDel]
    split
    · rename_i h
      have hk : k' = .str a := pyEq_str_right.mp h
      subst hk
      rw [dlookup_cons_str]
      simp [hab]
    · rw [dlookup_cons_str, dlookup_cons_str, ih]

theorem dlookup_dictDel_none (d : List (Obj × Obj)) (a : Obj) {b : Obj} (h : dlookup d b = none) :
    dlookup (dictDel d a) b = none := by
  induction d with
  | nil => rfl
  | cons q rest ih =>
    obtain ⟨k', v'⟩ := q
    simp only [dlookup] at h
    split at h
    · cases h
    · rename_i hkb
      simp only [dictDel]
      split
      · exact h
      · simp only [dlookup, hkb]; exact ih h

theorem dlookup_dictSet_str (d : List (Obj × Obj)) (a b : String) (v : Obj) :
    dlookup (dictSet d (.str a) v) (.str b) = if a = b then some v else dlookup d (.str b) := by
  by_cases h : a = b
  · subst h; simp [dlookup_dictSet_same]
  · simp [h, dlookup_dictSet_str_other d h]

theorem dhas_eq (d : List (Obj × Obj)) (k : Obj) : dhas d k = (dlookup d k).isSome := rfl

/-! ### consistency, unpacked -/

structure TDFacts (hc : HookCfg) (as : List Attr) : Prop where
  names : (as.map (·.name)).Nodup
  keys : ((as.filter (tdIncluded hc)).map (tdKey hc)).Nodup
  fresh : ∀ a ∈ as, tdIncluded hc a = true → ∀ r, (ovOf hc a).rename = some r → ∀ b ∈ as, b.name ≠ r

theorem TDFacts.tail {hc : HookCfg} {a : Attr} {as : List Attr} (h : TDFacts hc (a :: as)) : TDFacts hc as := by
  refine ⟨?_, ?_, ?_⟩
  · have := h.names; simp only [List.map_cons, List.nodup_cons] at this; exact this.2
  · have := h.keys
    by_cases hi : tdIncluded hc a = true
    · simp only [List.filter_cons, hi, if_true, List.map_cons, List.nodup_cons] at this; exact this.2
    · simpa [List.filter_cons, hi] using this
  · intro b hb hi r hr c hc'
    exact h.fresh b (List.mem_cons_of_mem _ hb) hi r hr c (List.mem_cons_of_mem _ hc')

theorem TDFacts.name_ne {hc : HookCfg} {a : Attr} {as : List Attr} (h : TDFacts hc (a :: as)) :
    ∀ b ∈ as, b.name ≠ a.name := by
  intro b hb e
  have := h.names
  simp only [List.map_cons, List.nodup_cons, List.mem_map, not_exists, not_and] at this
  exact this.1 b hb e

theorem TDFacts.key_ne {hc : HookCfg} {a : Attr} {as : List Attr} (h : TDFacts hc (a :: as)) (hi : tdIncluded hc a = true) :
    ∀ b ∈ as, tdIncluded hc b = true → tdKey hc b ≠ tdKey hc a := by
  intro b hb hib e
  have := h.keys
  simp only [List.filter_cons, hi, if_true, List.map_cons, List.nodup_cons, List.mem_map, not_exists, not_and] at this
  exact this.1 b (List.mem_filter.mpr ⟨hb, hib⟩) e

/-- the key of a handled attribute is never the *name* of another attribute -/
theorem TDFacts.key_ne_name {hc : HookCfg} {as : List Attr} (h : TDFacts hc as) {a b : Attr} (ha : a ∈ as) (hb : b ∈ as)
    (hi : tdIncluded hc a = true) (hne : a.name ≠ b.name) : tdKey hc a ≠ b.name := by
  simp only [tdKey]
  cases hr : (ovOf hc a).rename with
  | none => exact hne
  | some r => exact fun e => h.fresh a ha hi r hr b hb e.symm

theorem consistentTD_facts {hc : HookCfg} {as : List Attr} (h : ConsistentTD hc as = true) :
    TDFacts hc as ∧ (∀ a ∈ as, (ovOf hc a).sh = (ovOf hc a).uh) := by
  simp only [ConsistentTD, Bool.and_eq_true, nodupS_iff, List.all_eq_true, beq_iff_eq, Bool.or_eq_true,
    Bool.not_eq_true'] at h
  obtain ⟨⟨⟨h1, h2⟩, h3⟩, h4⟩ := h
  refine ⟨⟨h2, h1, ?_⟩, h3⟩
  intro a ha hi r hr b hb e
  rcases h4 a ha with h | h
  · rw [hi] at h; cases h
  · rw [hr] at h
    simp only [Bool.not_eq_true', List.contains_eq_mem, List.mem_map, decide_eq_false_iff_not, not_exists, not_and] at h
    exact h b hb e

/-! ### unstructure: frame and main lemma -/

section Un
variable (un : UnFn) (unIsId : Option Ty → Bool) (hc : HookCfg) (inst : List (Obj × Obj))

/-- keys that the remaining steps neither pop nor assign keep their entry -/
theorem hunTDSteps_frame (k : String) : ∀ (as : List Attr) (res : List (Obj × Obj)),
    (∀ b ∈ as, b.name ≠ k ∧ (tdIncluded hc b = true → tdKey hc b ≠ k)) →
    dlookup (hunTDSteps un unIsId hc inst as res) (.str k) = dlookup res (.str k) := by
  intro as
  induction as with
  | nil => intro res _; rfl
  | cons b as ih =>
    intro res h
    have hb := h b (List.mem_cons_self ..)
    have ih' := fun r => ih r (fun c hc' => h c (List.mem_cons_of_mem _ hc'))
    simp only [hunTDSteps]
    split
    · rw [ih', dlookup_dictDel_str_other _ hb.1]
    · rename_i hom
      have hi : tdIncluded hc b = true := by simpa [tdIncluded] using hom
      have h1 : dlookup (if (ovOf hc b).rename.isSome = true then dictDel res (.str b.name) else res) (.str k)
          = dlookup res (.str k) := by
        split
        · exact dlookup_dictDel_str_other _ hb.1
        · rfl
      split
      · rw [ih', h1]
      · split
        · split
          · rw [ih', dlookup_dictSet_str, if_neg (hb.2 hi), h1]
          · rw [ih', h1]
        · rw [ih', dlookup_dictSet_str, if_neg (hb.2 hi), h1]

/-- an absent key that no remaining step assigns stays absent -/
theorem hunTDSteps_none (k : String) : ∀ (as : List Attr) (res : List (Obj × Obj)),
    (∀ b ∈ as, tdIncluded hc b = true → tdKey hc b ≠ k) → dlookup res (.str k) = none →
    dlookup (hunTDSteps un unIsId hc inst as res) (.str k) = none := by
  intro as
  induction as with
  | nil => intro res _ h; exact h
  | cons b as ih =>
    intro res h hn
    have ih' := fun r => ih r (fun c hc' => h c (List.mem_cons_of_mem _ hc'))
    simp only [hunTDSteps]
    split
    · exact ih' _ (dlookup_dictDel_none _ _ hn)
    · rename_i hom
      have hi : tdIncluded hc b = true := by simpa [tdIncluded] using hom
      have h1 : dlookup (if (ovOf hc b).rename.isSome = true then dictDel res (.str b.name) else res) (.str k) = none := by
        split
        · exact dlookup_dictDel_none _ _ hn
        · exact hn
      split
      · exact ih' _ h1
      · split
        · split
          · apply ih'
            rw [dlookup_dictSet_str, if_neg (h b (List.mem_cons_self ..) hi)]
            exact h1
          · exact ih' _ h1
        · apply ih'
          rw [dlookup_dictSet_str, if_neg (h b (List.mem_cons_self ..) hi)]
          exact h1

/-- after the hook ran, the key of every handled attribute holds the unstructured value of the
attribute's entry (absent iff the entry is absent) -/
theorem hunTDSteps_main (hid : ∀ t v, unIsId t = true → un t v = v) : ∀ (as : List Attr) (res : List (Obj × Obj)),
    TDFacts hc as →
    (∀ b ∈ as, dlookup res (.str b.name) = dlookup inst (.str b.name)) →
    (∀ b ∈ as, tdIncluded hc b = true → ∀ r, (ovOf hc b).rename = some r → dlookup res (.str r) = none) →
    (∀ b ∈ as, tdIncluded hc b = true → b.required = true → (dlookup inst (.str b.name)).isSome = true) →
    ∀ a ∈ as, tdIncluded hc a = true →
      dlookup (hunTDSteps un unIsId hc inst as res) (.str (tdKey hc a)) =
        (dlookup inst (.str a.name)).map (attrUn un (ovOf hc a) a) := by
  intro as
  induction as with
  | nil => intro res _ _ _ _ a ha; cases ha
  | cons b as ih =>
    intro res hf h2 h3 hreq a ha hia
    have hreqt := fun c hc' => hreq c (List.mem_cons_of_mem _ hc')
    have hft := hf.tail
    -- invariants are preserved by the step of `b`
    have keep2 : ∀ (res' : List (Obj × Obj)),
        (∀ k, k ≠ b.name → (tdIncluded hc b = true → k ≠ tdKey hc b) → dlookup res' (.str k) = dlookup res (.str k)) →
        (∀ c ∈ as, dlookup res' (.str c.name) = dlookup inst (.str c.name)) ∧
        (∀ c ∈ as, tdIncluded hc c = true → ∀ r, (ovOf hc c).rename = some r → dlookup res' (.str r) = none) := by
      intro res' hfr
      refine ⟨?_, ?_⟩
      · intro c hc'
        rw [hfr c.name (hf.name_ne c hc')
          (fun hib e => hf.key_ne_name (List.mem_cons_self ..) (List.mem_cons_of_mem _ hc') hib (hf.name_ne c hc').symm e.symm)]
        exact h2 c (List.mem_cons_of_mem _ hc')
      · intro c hc' hic r hr
        have hkc : tdKey hc c = r := by simp [tdKey, hr]
        rw [hfr r (fun e => hf.fresh c (List.mem_cons_of_mem _ hc') hic r hr b (List.mem_cons_self ..) e.symm)
          (fun hib e => hf.key_ne hib c hc' hic (hkc.trans e))]
        exact h3 c (List.mem_cons_of_mem _ hc') hic r hr
    rcases List.mem_cons.mp ha with hab | hat
    · -- the attribute processed now
      subst hab
      have hframe : ∀ res', dlookup (hunTDSteps un unIsId hc inst as res') (.str (tdKey hc a)) = dlookup res' (.str (tdKey hc a)) := by
        intro res'
        apply hunTDSteps_frame
        intro c hc'
        exact ⟨fun e => hf.key_ne_name (List.mem_cons_self ..) (List.mem_cons_of_mem _ hc') hia (hf.name_ne c hc').symm e.symm,
          fun hic => hf.key_ne hia c hc' hic⟩
      have hom : ((ovOf hc a).omitted == some true) = false := by simpa [tdIncluded] using hia
      simp only [hunTDSteps, hom, Bool.false_eq_true, if_false]
      cases hr : (ovOf hc a).rename with
      | none =>
        have hk : tdKey hc a = a.name := by simp [tdKey, hr]
        simp only [Option.isSome_none, Bool.false_eq_true, if_false, Option.isNone_none, Bool.and_true]
        split
        · rename_i hskip
          simp only [Bool.and_eq_true, Option.isNone_iff_eq_none] at hskip
          rw [hframe, hk, h2 a (List.mem_cons_self ..)]
          cases hl : dlookup inst (.str a.name) with
          | none => rfl
          | some v => simp [attrUn, hskip.1, hid _ v hskip.2]
        · cases hl : dlookup inst (.str a.name) with
          | none =>
            have hnr : a.required = false := by
              cases hq : a.required with
              | false => rfl
              | true => have := hreq a (List.mem_cons_self ..) hia hq; rw [hl] at this; cases this
            simp only [Option.map_none, hnr, Bool.false_eq_true, if_false]
            rw [hframe, hk, h2 a (List.mem_cons_self ..), hl]
          | some v =>
            simp only [Option.map_some]
            rw [hframe, dlookup_dictSet_str]; simp
      | some r =>
        have hk : tdKey hc a = r := by simp [tdKey, hr]
        simp only [Option.isSome_some, if_true, Option.isNone_some, Bool.and_false, Bool.false_eq_true, if_false]
        cases hl : dlookup inst (.str a.name) with
        | none =>
          have hnr : a.required = false := by
            cases hq : a.required with
            | false => rfl
            | true => have := hreq a (List.mem_cons_self ..) hia hq; rw [hl] at this; cases this
          simp only [Option.map_none, hnr, Bool.false_eq_true, if_false]
          rw [hframe, hk]
          exact dlookup_dictDel_none _ _ (h3 a (List.mem_cons_self ..) hia r hr)
        | some v =>
          simp only [Option.map_some]
          rw [hframe, dlookup_dictSet_str]; simp
    · -- a later attribute: the step of `b` keeps the invariants
      have hstep : ∀ res', (∀ k, k ≠ b.name → (tdIncluded hc b = true → k ≠ tdKey hc b) → dlookup res' (.str k) = dlookup res (.str k)) →
          dlookup (hunTDSteps un unIsId hc inst as res') (.str (tdKey hc a)) = (dlookup inst (.str a.name)).map (attrUn un (ovOf hc a) a) := by
        intro res' hfr
        obtain ⟨k2, k3⟩ := keep2 res' hfr
        exact ih res' hft k2 k3 hreqt a hat hia
      have hdel : ∀ k, k ≠ b.name → dlookup (dictDel res (.str b.name)) (.str k) = dlookup res (.str k) :=
        fun k hk => dlookup_dictDel_str_other _ (fun e => hk e.symm)
      have hres1 : ∀ k, k ≠ b.name →
          dlookup (if (ovOf hc b).rename.isSome = true then dictDel res (.str b.name) else res) (.str k) = dlookup res (.str k) := by
        intro k hk
        split
        · exact hdel k hk
        · rfl
      simp only [hunTDSteps]
      split
      · exact hstep _ (fun k hk _ => hdel k hk)
      · rename_i hom
        have hib : tdIncluded hc b = true := by simpa [tdIncluded] using hom
        split
        · exact hstep _ (fun k hk _ => hres1 k hk)
        · split
          · split
            · apply hstep
              intro k hk hkk
              rw [dlookup_dictSet_str, if_neg (fun e => hkk hib e.symm), hres1 k hk]
            · exact hstep _ (fun k hk _ => hres1 k hk)
          · apply hstep
            intro k hk hkk
            rw [dlookup_dictSet_str, if_neg (fun e => hkk hib e.symm), hres1 k hk]

end Un


/-! ### structure, detailed template: frame and main lemma -/

section St
variable (st : StFn) (hc : HookCfg) (P : List (Obj × Obj))

theorem tdStep_frame (a : Attr) (res : List (Obj × Obj)) (k : String)
    (h1 : a.name ≠ k) (h2 : ∀ r, (ovOf hc a).rename = some r → r ≠ k) :
    ∀ res', tdStep st hc P a res = .ok res' → dlookup res' (.str k) = dlookup res (.str k) := by
  intro res' h
  simp only [tdStep] at h
  split at h
  · cases h
  · split at h
    · cases h
    · split at h
      · cases h
      · split at h
        · cases h
          rw [dlookup_dictSet_str, if_neg h1]
        · rename_i r hr
          split at h
          · cases h
            rw [dlookup_dictDel_str_other _ (h2 r hr), dlookup_dictSet_str, if_neg h1]
          · cases h

theorem hstTDStepsD_frame (k : String) : ∀ (as : List Attr) (res : List (Obj × Obj)),
    (∀ b ∈ as, tdIncluded hc b = true → b.name ≠ k ∧ ∀ r, (ovOf hc b).rename = some r → r ≠ k) →
    dlookup (hstTDStepsD st hc P as res).1 (.str k) = dlookup res (.str k) := by
  intro as
  induction as with
  | nil => intro res _; rfl
  | cons b as ih =>
    intro res h
    have ih' := fun r => ih r (fun c hc' => h c (List.mem_cons_of_mem _ hc'))
    simp only [hstTDStepsD]
    split
    · exact ih' res
    · rename_i hi
      have hib : tdIncluded hc b = true := by simpa using hi
      have hb := h b (List.mem_cons_self ..) hib
      cases hs : tdStep st hc P b res with
      | skip => exact ih' res
      | err e => exact ih' res
      | ok res' =>
        simp only
        rw [ih' res', tdStep_frame st hc P b res k hb.1 hb.2 res' hs]

theorem hstTDStepsD_main (un : UnFn) (inst : List (Obj × Obj)) (rt : Attr → Obj → Obj) :
    ∀ (as : List Attr) (res : List (Obj × Obj)),
    TDFacts hc as →
    (∀ a ∈ as, tdIncluded hc a = true →
      dlookup P (.str (tdKey hc a)) = (dlookup inst (.str a.name)).map (attrUn un (ovOf hc a) a)) →
    (∀ a ∈ as, tdIncluded hc a = true → a.required = true → (dlookup inst (.str a.name)).isSome = true) →
    (∀ a ∈ as, tdIncluded hc a = true → ∀ v, dlookup inst (.str a.name) = some v →
      attrSt st (ovOf hc a) a (attrUn un (ovOf hc a) a v) = .ok (rt a v)) →
    (∀ b ∈ as, tdIncluded hc b = true → dlookup res (.str (tdKey hc b)) = dlookup P (.str (tdKey hc b))) →
    (hstTDStepsD st hc P as res).2 = [] ∧
    ∀ a ∈ as, tdIncluded hc a = true →
      dlookup (hstTDStepsD st hc P as res).1 (.str a.name) =
        (match dlookup inst (.str a.name) with
          | some v => some (rt a v)
          | none => dlookup res (.str a.name)) := by
  intro as
  induction as with
  | nil => intro res _ _ _ _ _; exact ⟨rfl, fun a ha => by cases ha⟩
  | cons b as ih =>
    intro res hf hP hreq hrt hJ
    have hft := hf.tail
    have hP' := fun a ha => hP a (List.mem_cons_of_mem _ ha)
    have hreq' := fun a ha => hreq a (List.mem_cons_of_mem _ ha)
    have hrt' := fun a ha => hrt a (List.mem_cons_of_mem _ ha)
    by_cases hib : tdIncluded hc b = true
    · -- what the step of `b` does to the lookups the later steps rely on
      have later : ∀ res', (∀ k, k ≠ b.name → (∀ r, (ovOf hc b).rename = some r → k ≠ r) →
            dlookup res' (.str k) = dlookup res (.str k)) →
          (∀ c ∈ as, tdIncluded hc c = true → dlookup res' (.str (tdKey hc c)) = dlookup P (.str (tdKey hc c))) ∧
          (∀ c ∈ as, dlookup res' (.str c.name) = dlookup res (.str c.name)) := by
        intro res' hfr
        refine ⟨?_, ?_⟩
        · intro c hc' hic
          rw [hfr (tdKey hc c)
            (hf.key_ne_name (List.mem_cons_of_mem _ hc') (List.mem_cons_self ..) hic (hf.name_ne c hc'))
            (fun r hr e => hf.key_ne hib c hc' hic (e.trans (show r = tdKey hc b by simp [tdKey, hr])))]
          exact hJ c (List.mem_cons_of_mem _ hc') hic
        · intro c hc'
          exact hfr c.name (hf.name_ne c hc')
            (fun r hr e => hf.fresh b (List.mem_cons_self ..) hib r hr c (List.mem_cons_of_mem _ hc') e)
      have frameB : ∀ res', dlookup (hstTDStepsD st hc P as res').1 (.str b.name) = dlookup res' (.str b.name) := by
        intro res'
        apply hstTDStepsD_frame
        intro c hc' hic
        exact ⟨hf.name_ne c hc', fun r hr e =>
          hf.fresh c (List.mem_cons_of_mem _ hc') hic r hr b (List.mem_cons_self ..) e.symm⟩
      have hPb := hP b (List.mem_cons_self ..) hib
      simp only [hstTDStepsD, hib, Bool.not_true, Bool.false_eq_true, if_false]
      cases hl : dlookup inst (.str b.name) with
      | none =>
        -- the key is absent: the block is skipped (a required key cannot be absent)
        have hnr : b.required = false := by
          cases hrq : b.required with
          | false => rfl
          | true => have := hreq b (List.mem_cons_self ..) hib hrq; rw [hl] at this; cases this
        rw [hl] at hPb
        have hs : tdStep st hc P b res = .skip := by
          simp [tdStep, hnr, dhas_eq, hPb]
        rw [hs]
        obtain ⟨e1, e2⟩ := ih res hft hP' hreq' hrt' (fun c hc' hic => hJ c (List.mem_cons_of_mem _ hc') hic)
        refine ⟨e1, ?_⟩
        intro a ha hia
        rcases List.mem_cons.mp ha with hab | hat
        · subst hab; rw [hl]; exact frameB res
        · exact e2 a hat hia
      | some v =>
        rw [hl] at hPb
        simp only [Option.map_some] at hPb
        have hconv := hrt b (List.mem_cons_self ..) hib v hl
        cases hr : (ovOf hc b).rename with
        | none =>
          have hs : tdStep st hc P b res = .ok (dictSet res (.str b.name) (rt b v)) := by
            simp [tdStep, dhas_eq, hPb, hconv, hr]
          rw [hs]
          obtain ⟨l1, l2⟩ := later (dictSet res (.str b.name) (rt b v))
            (fun k hk _ => by rw [dlookup_dictSet_str, if_neg (fun e => hk e.symm)])
          obtain ⟨e1, e2⟩ := ih _ hft hP' hreq' hrt' l1
          refine ⟨e1, ?_⟩
          intro a ha hia
          rcases List.mem_cons.mp ha with hab | hat
          · subst hab; rw [hl]; simp only; rw [frameB, dlookup_dictSet_str]; simp
          · rw [e2 a hat hia, l2 a hat]
        | some r =>
          have hkr : tdKey hc b = r := by simp [tdKey, hr]
          have hne : b.name ≠ r := fun e => hf.fresh b (List.mem_cons_self ..) hib r hr b (List.mem_cons_self ..) e
          have hhas : dhas (dictSet res (.str b.name) (rt b v)) (.str r) = true := by
            rw [dhas_eq, dlookup_dictSet_str, if_neg hne, ← hkr, hJ b (List.mem_cons_self ..) hib, hPb]; rfl
          have hs : tdStep st hc P b res = .ok (dictDel (dictSet res (.str b.name) (rt b v)) (.str r)) := by
            rw [dhas_eq] at hhas
            simp only [tdStep, dhas_eq, hPb, hconv, hr, hhas]
            simp
          rw [hs]
          obtain ⟨l1, l2⟩ := later (dictDel (dictSet res (.str b.name) (rt b v)) (.str r))
            (fun k hk hk2 => by
              rw [dlookup_dictDel_str_other _ (fun e => hk2 r hr e.symm), dlookup_dictSet_str, if_neg (fun e => hk e.symm)])
          obtain ⟨e1, e2⟩ := ih _ hft hP' hreq' hrt' l1
          refine ⟨e1, ?_⟩
          intro a ha hia
          rcases List.mem_cons.mp ha with hab | hat
          · subst hab; rw [hl]; simp only
            rw [frameB, dlookup_dictDel_str_other _ (fun e => hne e.symm), dlookup_dictSet_str]; simp
          · rw [e2 a hat hia, l2 a hat]
    · simp only [hstTDStepsD, hib, Bool.not_false, if_true]
      obtain ⟨e1, e2⟩ := ih res hft hP' hreq' hrt' (fun c hc' hic => hJ c (List.mem_cons_of_mem _ hc') hic)
      refine ⟨e1, ?_⟩
      intro a ha hia
      rcases List.mem_cons.mp ha with hab | hat
      · subst hab; exact absurd hia hib
      · exact e2 a hat hia

end St

/-! ### the round trip (detailed template, forbid off) -/

theorem hstTDD_hunTD (un : UnFn) (unIsId : Option Ty → Bool) (st : StFn) (ci : Nat) (c : GCls)
    (inst : List (Obj × Obj)) (rt : Attr → Obj → Obj)
    (hcons : ConsistentTD c.hc c.attrs = true)
    (hid : ∀ t v, unIsId t = true → un t v = v)
    (hreq : ∀ a ∈ c.attrs, tdIncluded c.hc a = true → a.required = true → (dlookup inst (.str a.name)).isSome = true)
    (hfree : ∀ a ∈ c.attrs, tdIncluded c.hc a = true → ∀ r, (ovOf c.hc a).rename = some r → dlookup inst (.str r) = none)
    (hrt : ∀ a ∈ c.attrs, tdIncluded c.hc a = true → ∀ v, dlookup inst (.str a.name) = some v →
      attrSt st (ovOf c.hc a) a (attrUn un (ovOf c.hc a) a v) = .ok (rt a v)) :
    ∃ res, hstTDD st ci false c (hunTD un unIsId c.hc c.attrs inst) = .ok (.dict res) ∧
      ∀ a ∈ c.attrs, tdIncluded c.hc a = true →
        dlookup res (.str a.name) = (dlookup inst (.str a.name)).map (rt a) := by
  obtain ⟨hf, -⟩ := consistentTD_facts hcons
  have hP := hunTDSteps_main un unIsId c.hc inst hid c.attrs inst hf (fun _ _ => rfl) hfree hreq
  obtain ⟨e1, e2⟩ := hstTDStepsD_main st c.hc (hunTDSteps un unIsId c.hc inst c.attrs inst) un inst rt c.attrs
    (hunTDSteps un unIsId c.hc inst c.attrs inst) hf hP hreq hrt (fun _ _ _ => rfl)
  refine ⟨(hstTDStepsD st c.hc (hunTDSteps un unIsId c.hc inst c.attrs inst) c.attrs
    (hunTDSteps un unIsId c.hc inst c.attrs inst)).1, ?_, ?_⟩
  · simp [hstTDD, hunTD, e1]
  · intro a ha hia
    rw [e2 a ha hia]
    cases hl : dlookup inst (.str a.name) with
    | some v => rfl
    | none =>
      simp only [Option.map_none]
      -- the payload has no entry under the attribute's own name
      cases hr : (ovOf c.hc a).rename with
      | none =>
        have hk : tdKey c.hc a = a.name := by simp [tdKey, hr]
        have := hP a ha hia
        rw [hk, hl] at this
        exact this
      | some r =>
        apply hunTDSteps_none
        · intro b hb hib e
          by_cases hab : b.name = a.name
          · -- `b` is `a` itself: its key is the rename target, never a declared name
            have : b = a := inj_of_nodup_map (·.name) hf.names hb ha hab
            subst this
            have hk : tdKey c.hc b = r := by simp [tdKey, hr]
            exact hf.fresh b hb hib r hr b hb (hk.symm.trans e).symm
          · exact hf.key_ne_name hb ha hib hab e
        · exact hl


/-! ### structure, fast template -/

section Fast
variable (st : StFn) (hc : HookCfg) (P : List (Obj × Obj)) (un : UnFn) (inst : List (Obj × Obj)) (rt : Attr → Obj → Obj)

theorem hstTDStepsF_main : ∀ (as : List Attr) (res : List (Obj × Obj)),
    TDFacts hc as →
    (∀ a ∈ as, tdIncluded hc a = true →
      dlookup P (.str (tdKey hc a)) = (dlookup inst (.str a.name)).map (attrUn un (ovOf hc a) a)) →
    (∀ a ∈ as, tdIncluded hc a = true → a.required = true → (dlookup inst (.str a.name)).isSome = true) →
    (∀ a ∈ as, tdIncluded hc a = true → ∀ v, dlookup inst (.str a.name) = some v →
      attrSt st (ovOf hc a) a (attrUn un (ovOf hc a) a v) = .ok (rt a v)) →
    (∀ b ∈ as, tdIncluded hc b = true → dlookup res (.str (tdKey hc b)) = dlookup P (.str (tdKey hc b))) →
    ∃ out, hstTDStepsF st hc P (fun a => a.required) as res = .ok out ∧
      (∀ a ∈ as, tdIncluded hc a = true → a.required = true →
        dlookup out (.str a.name) = (dlookup inst (.str a.name)).map (rt a)) ∧
      (∀ k, (∀ b ∈ as, tdIncluded hc b = true → b.required = true → b.name ≠ k ∧ ∀ r, (ovOf hc b).rename = some r → r ≠ k) →
        dlookup out (.str k) = dlookup res (.str k)) := by
  intro as
  induction as with
  | nil => intro res _ _ _ _ _; exact ⟨res, rfl, (fun a ha => by cases ha), fun _ _ => rfl⟩
  | cons b as ih =>
    intro res hf hP hreq hrt hJ
    have hft := hf.tail
    have hP' := fun a ha => hP a (List.mem_cons_of_mem _ ha)
    have hreq' := fun a ha => hreq a (List.mem_cons_of_mem _ ha)
    have hrt' := fun a ha => hrt a (List.mem_cons_of_mem _ ha)
    have hJ' := fun c hc' hic => hJ c (List.mem_cons_of_mem _ hc') hic
    by_cases hsel : (tdIncluded hc b && b.required) = true
    · simp only [Bool.and_eq_true] at hsel
      obtain ⟨hib, hrq⟩ := hsel
      have hsome := hreq b (List.mem_cons_self ..) hib hrq
      obtain ⟨v, hl⟩ := Option.isSome_iff_exists.mp hsome
      have hPb := hP b (List.mem_cons_self ..) hib
      rw [hl] at hPb
      simp only [Option.map_some] at hPb
      have hconv := hrt b (List.mem_cons_self ..) hib v hl
      -- the step of `b` succeeds with some `res'` that differs from `res` only at `b.name` and the rename
      have hstep : ∃ res', tdStep st hc P b res = .ok res' ∧ dlookup res' (.str b.name) = some (rt b v) ∧
          (∀ k, k ≠ b.name → (∀ r, (ovOf hc b).rename = some r → k ≠ r) → dlookup res' (.str k) = dlookup res (.str k)) := by
        cases hr : (ovOf hc b).rename with
        | none =>
          refine ⟨dictSet res (.str b.name) (rt b v), ?_, ?_, ?_⟩
          · simp [tdStep, dhas_eq, hPb, hconv, hr]
          · rw [dlookup_dictSet_str]; simp
          · intro k hk _; rw [dlookup_dictSet_str, if_neg (fun e => hk e.symm)]
        | some r =>
          have hkr : tdKey hc b = r := by simp [tdKey, hr]
          have hne : b.name ≠ r := fun e => hf.fresh b (List.mem_cons_self ..) hib r hr b (List.mem_cons_self ..) e
          have hhas : (dlookup (dictSet res (.str b.name) (rt b v)) (.str r)).isSome = true := by
            rw [dlookup_dictSet_str, if_neg hne, ← hkr, hJ b (List.mem_cons_self ..) hib, hPb]; rfl
          refine ⟨dictDel (dictSet res (.str b.name) (rt b v)) (.str r), ?_, ?_, ?_⟩
          · simp only [tdStep, dhas_eq, hPb, hconv, hr, hhas]; simp
          · rw [dlookup_dictDel_str_other _ (fun e => hne e.symm), dlookup_dictSet_str]; simp
          · intro k hk hk2
            rw [dlookup_dictDel_str_other _ (fun e => hk2 r rfl e.symm), dlookup_dictSet_str, if_neg (fun e => hk e.symm)]
      obtain ⟨res', hs, hb1, hb2⟩ := hstep
      have l1 : ∀ c ∈ as, tdIncluded hc c = true → dlookup res' (.str (tdKey hc c)) = dlookup P (.str (tdKey hc c)) := by
        intro c hc' hic
        rw [hb2 (tdKey hc c)
          (hf.key_ne_name (List.mem_cons_of_mem _ hc') (List.mem_cons_self ..) hic (hf.name_ne c hc'))
          (fun r hr e => hf.key_ne hib c hc' hic (e.trans (show r = tdKey hc b by simp [tdKey, hr])))]
        exact hJ' c hc' hic
      obtain ⟨out, e0, e1, e2⟩ := ih res' hft hP' hreq' hrt' l1
      refine ⟨out, ?_, ?_, ?_⟩
      · simp only [hstTDStepsF, hib, hrq, Bool.and_self, Bool.not_true, Bool.false_eq_true, if_false, hs]; exact e0
      · intro a ha hia hra
        rcases List.mem_cons.mp ha with hab | hat
        · subst hab
          rw [e2 a.name (fun c hc' hic _ => ⟨hf.name_ne c hc', fun r hr e =>
            hf.fresh c (List.mem_cons_of_mem _ hc') hic r hr a (List.mem_cons_self ..) e.symm⟩), hb1, hl]; rfl
        · exact e1 a hat hia hra
      · intro k hk
        have hkb := hk b (List.mem_cons_self ..) hib hrq
        rw [e2 k (fun c hc' hic hrc => hk c (List.mem_cons_of_mem _ hc') hic hrc),
          hb2 k (fun e => hkb.1 e.symm) (fun r hr e => hkb.2 r hr e.symm)]
    · obtain ⟨out, e0, e1, e2⟩ := ih res hft hP' hreq' hrt' hJ'
      refine ⟨out, ?_, ?_, ?_⟩
      · simp only [hstTDStepsF, hsel, Bool.not_false, if_true]; exact e0
      · intro a ha hia hra
        rcases List.mem_cons.mp ha with hab | hat
        · subst hab; simp [hia, hra] at hsel
        · exact e1 a hat hia hra
      · intro k hk
        exact e2 k (fun c hc' hic hrc => hk c (List.mem_cons_of_mem _ hc') hic hrc)

theorem tdPops_frame (k : String) : ∀ (as : List Attr) (res : List (Obj × Obj)),
    (∀ b ∈ as, tdIncluded hc b = true → b.required = false → ∀ r, (ovOf hc b).rename = some r → r ≠ k) →
    dlookup (tdPops hc as res) (.str k) = dlookup res (.str k) := by
  intro as
  induction as with
  | nil => intro res _; rfl
  | cons b as ih =>
    intro res h
    have ih' := fun r => ih r (fun c hc' => h c (List.mem_cons_of_mem _ hc'))
    simp only [tdPops]
    split
    · rename_i hsel
      simp only [Bool.and_eq_true, Bool.not_eq_true'] at hsel
      split
      · rename_i r hr
        rw [ih', dlookup_dictDel_str_other _ (h b (List.mem_cons_self ..) hsel.1 hsel.2 r hr)]
      · exact ih' res
    · exact ih' res

theorem hstTDOptF_main : ∀ (as : List Attr) (res : List (Obj × Obj)),
    TDFacts hc as →
    (∀ a ∈ as, tdIncluded hc a = true →
      dlookup P (.str (tdKey hc a)) = (dlookup inst (.str a.name)).map (attrUn un (ovOf hc a) a)) →
    (∀ a ∈ as, tdIncluded hc a = true → ∀ v, dlookup inst (.str a.name) = some v →
      attrSt st (ovOf hc a) a (attrUn un (ovOf hc a) a v) = .ok (rt a v)) →
    ∃ out, hstTDOptF st hc P as res = .ok out ∧
      (∀ a ∈ as, tdIncluded hc a = true → a.required = false →
        dlookup out (.str a.name) = (match dlookup inst (.str a.name) with
          | some v => some (rt a v)
          | none => dlookup res (.str a.name))) ∧
      (∀ k, (∀ b ∈ as, tdIncluded hc b = true → b.required = false → b.name ≠ k) →
        dlookup out (.str k) = dlookup res (.str k)) := by
  intro as
  induction as with
  | nil => intro res _ _ _; exact ⟨res, rfl, (fun a ha => by cases ha), fun _ _ => rfl⟩
  | cons b as ih =>
    intro res hf hP hrt
    have hft := hf.tail
    have hP' := fun a ha => hP a (List.mem_cons_of_mem _ ha)
    have hrt' := fun a ha => hrt a (List.mem_cons_of_mem _ ha)
    by_cases hsel : (tdIncluded hc b && !b.required) = true
    · simp only [Bool.and_eq_true, Bool.not_eq_true'] at hsel
      obtain ⟨hib, hrq⟩ := hsel
      have hPb := hP b (List.mem_cons_self ..) hib
      cases hl : dlookup inst (.str b.name) with
      | none =>
        rw [hl] at hPb
        have hs : tdStepOpt st hc P b res = .skip := by simp [tdStepOpt, dhas_eq, hPb]
        obtain ⟨out, e0, e1, e2⟩ := ih res hft hP' hrt'
        refine ⟨out, ?_, ?_, ?_⟩
        · simp only [hstTDOptF, hib, hrq, Bool.not_false, Bool.and_self, Bool.not_true, Bool.false_eq_true, if_false, hs]
          exact e0
        · intro a ha hia hra
          rcases List.mem_cons.mp ha with hab | hat
          · subst hab; rw [hl]; exact e2 a.name (fun c hc' _ _ => hf.name_ne c hc')
          · exact e1 a hat hia hra
        · intro k hk
          exact e2 k (fun c hc' hic hrc => hk c (List.mem_cons_of_mem _ hc') hic hrc)
      | some v =>
        rw [hl] at hPb
        simp only [Option.map_some] at hPb
        have hconv := hrt b (List.mem_cons_self ..) hib v hl
        have hs : tdStepOpt st hc P b res = .ok (dictSet res (.str b.name) (rt b v)) := by
          simp [tdStepOpt, dhas_eq, hPb, hconv]
        obtain ⟨out, e0, e1, e2⟩ := ih (dictSet res (.str b.name) (rt b v)) hft hP' hrt'
        refine ⟨out, ?_, ?_, ?_⟩
        · simp only [hstTDOptF, hib, hrq, Bool.not_false, Bool.and_self, Bool.not_true, Bool.false_eq_true, if_false, hs]
          exact e0
        · intro a ha hia hra
          rcases List.mem_cons.mp ha with hab | hat
          · subst hab; rw [hl]; simp only
            rw [e2 a.name (fun c hc' _ _ => hf.name_ne c hc'), dlookup_dictSet_str]; simp
          · rw [e1 a hat hia hra, dlookup_dictSet_str, if_neg (fun e => hf.name_ne a hat e.symm)]
        · intro k hk
          rw [e2 k (fun c hc' hic hrc => hk c (List.mem_cons_of_mem _ hc') hic hrc), dlookup_dictSet_str,
            if_neg (hk b (List.mem_cons_self ..) hib hrq)]
    · obtain ⟨out, e0, e1, e2⟩ := ih res hft hP' hrt'
      refine ⟨out, ?_, ?_, ?_⟩
      · simp only [hstTDOptF, hsel, Bool.not_false, if_true]; exact e0
      · intro a ha hia hra
        rcases List.mem_cons.mp ha with hab | hat
        · subst hab; simp [hia, hra] at hsel
        · exact e1 a hat hia hra
      · intro k hk
        exact e2 k (fun c hc' hic hrc => hk c (List.mem_cons_of_mem _ hc') hic hrc)

end Fast

theorem hstTDF_hunTD (un : UnFn) (unIsId : Option Ty → Bool) (st : StFn) (ci : Nat) (c : GCls)
    (inst : List (Obj × Obj)) (rt : Attr → Obj → Obj)
    (hcons : ConsistentTD c.hc c.attrs = true)
    (hid : ∀ t v, unIsId t = true → un t v = v)
    (hreq : ∀ a ∈ c.attrs, tdIncluded c.hc a = true → a.required = true → (dlookup inst (.str a.name)).isSome = true)
    (hfree : ∀ a ∈ c.attrs, tdIncluded c.hc a = true → ∀ r, (ovOf c.hc a).rename = some r → dlookup inst (.str r) = none)
    (hrt : ∀ a ∈ c.attrs, tdIncluded c.hc a = true → ∀ v, dlookup inst (.str a.name) = some v →
      attrSt st (ovOf c.hc a) a (attrUn un (ovOf c.hc a) a v) = .ok (rt a v)) :
    ∃ res, hstTDF st ci false c (hunTD un unIsId c.hc c.attrs inst) = .ok (.dict res) ∧
      ∀ a ∈ c.attrs, tdIncluded c.hc a = true →
        dlookup res (.str a.name) = (dlookup inst (.str a.name)).map (rt a) := by
  obtain ⟨hf, -⟩ := consistentTD_facts hcons
  have hP := hunTDSteps_main un unIsId c.hc inst hid c.attrs inst hf (fun _ _ => rfl) hfree hreq
  obtain ⟨r1, a0, a1, a2⟩ := hstTDStepsF_main st c.hc (hunTDSteps un unIsId c.hc inst c.attrs inst) un inst rt c.attrs
    (hunTDSteps un unIsId c.hc inst c.attrs inst) hf hP hreq hrt (fun _ _ _ => rfl)
  obtain ⟨r2, b0, b1, b2⟩ := hstTDOptF_main st c.hc (hunTDSteps un unIsId c.hc inst c.attrs inst) un inst rt c.attrs
    (tdPops c.hc c.attrs r1) hf hP hrt
  refine ⟨r2, ?_, ?_⟩
  · simp [hstTDF, hunTD, a0, b0]
  · intro a ha hia
    have hpop : dlookup (tdPops c.hc c.attrs r1) (.str a.name) = dlookup r1 (.str a.name) :=
      tdPops_frame c.hc a.name c.attrs r1 (fun b hb hib _ r hr e => hf.fresh b hb hib r hr a ha e.symm)
    cases hrq : a.required with
    | true =>
      have hne : ∀ b ∈ c.attrs, tdIncluded c.hc b = true → b.required = false → b.name ≠ a.name := by
        intro b hb _ hrb e
        have : b = a := inj_of_nodup_map (·.name) hf.names hb ha e
        subst this; rw [hrq] at hrb; cases hrb
      rw [b2 a.name hne, hpop]
      exact a1 a ha hia hrq
    | false =>
      rw [b1 a ha hia hrq]
      cases hl : dlookup inst (.str a.name) with
      | some v => rfl
      | none =>
        simp only [Option.map_none]
        have hne : ∀ b ∈ c.attrs, tdIncluded c.hc b = true → b.required = true → b.name ≠ a.name := by
          intro b hb _ hrb e
          have : b = a := inj_of_nodup_map (·.name) hf.names hb ha e
          subst this; rw [hrq] at hrb; cases hrb
        rw [hpop, a2 a.name (fun b hb hib hrb => ⟨hne b hb hib hrb,
          fun r hr e => hf.fresh b hb hib r hr a ha e.symm⟩)]
        cases hr : (ovOf c.hc a).rename with
        | none =>
          have hk : tdKey c.hc a = a.name := by simp [tdKey, hr]
          have := hP a ha hia
          rw [hk, hl] at this
          exact this
        | some r =>
          apply hunTDSteps_none
          · intro b hb hib e
            by_cases hab : b.name = a.name
            · have : b = a := inj_of_nodup_map (·.name) hf.names hb ha hab
              subst this
              have hk : tdKey c.hc b = r := by simp [tdKey, hr]
              exact hf.fresh b hb hib r hr b hb (hk.symm.trans e).symm
            · exact hf.key_ne_name hb ha hib hab e
          · exact hl

end GenHook
end CattrsModel
