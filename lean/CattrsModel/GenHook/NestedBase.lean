import CattrsModel.GenHook.NestedUnfold
import CattrsModel.GenHook.PerHook
import CattrsModel.Lemmas.RoundTrip
import CattrsModel.Lemmas.ModesAgree
/-!
# Nesting: class-free positions (the data-path round trip), collections, identity hooks
-/
namespace CattrsModel
namespace GenHook

/-! ### class-free positions: C01 on the class-free world -/

theorem core_fields (g : GWorld) (c : Nat) : g.core.fields c = [] := by
  simp [World.fields, GWorld.core]

theorem core_WF (g : GWorld) : g.core.WF :=
  ⟨fun c f hf => (by rw [core_fields] at hf; cases hf), fun c => (by rw [core_fields]; exact List.nodup_nil)⟩

theorem leaf_roundtrip (g : GWorld) (hwe : g.core.WFE) {t : Ty} {x : Obj} (h : leafConf g t x = true) :
    stF g.core convCfg t (un g.core convCfg t x) = some x ∧ stD g.core convCfg t (un g.core convCfg t x) = .ok x := by
  obtain ⟨hs, hnu, hc, hv⟩ := leafConf_spec h
  have key : stF g.core convCfg t (un g.core convCfg t x) = some x :=
    roundtrip g.core convCfg convCfg rfl rfl rfl (core_WF g) hwe
      (fun c f hf => by rw [core_fields] at hf; cases hf)
      (fun c f hf => by rw [core_fields] at hf; cases hf)
      t x hs (noUnion_unionsOK _ _ t hnu) hc hv
  refine ⟨key, ?_⟩
  have hm := modes_agree g.core convCfg t (un g.core convCfg t x)
  rw [key] at hm
  cases hd : stD g.core convCfg t (un g.core convCfg t x) with
  | ok v => rw [hd] at hm; simp only [Res.toOption, Option.some.injEq] at hm; rw [hm]
  | error e => rw [hd] at hm; simp [Res.toOption] at hm

theorem stTy_leaf_roundtrip (g : GWorld) (hwe : g.core.WFE) (n : Nat) {t : Ty} {x : Obj} (ht : tyHasCls t = false)
    (h : leafConf g t x = true) : stTy g (n + 1) (some t) (unTy g (n + 1) (some t) x) = .ok x := by
  obtain ⟨hF, hD⟩ := leaf_roundtrip g hwe h
  rw [unTy_leaf g n ht]
  cases hd : g.detailed with
  | true => exact stTy_leaf_D g n ht hd hD
  | false => exact stTy_leaf_F g n ht hd hF

/-! ### collections of successes -/

theorem collectD_oks (w : World) : ∀ (ys : List Obj) (ix : Nat),
    collectD w false ix (ys.map Except.ok) = (ys, []) := by
  intro ys
  induction ys with
  | nil => intro ix; rfl
  | cons y ys ih => intro ix; simp [collectD, ih]

theorem collectF_oks : ∀ (ys : List Obj), collectF (ys.map Except.ok) = .ok ys := by
  intro ys
  induction ys with
  | nil => rfl
  | cons y ys ih => simp [collectF, ih]

theorem map_eq_map_ok {xs : List Obj} (f : Obj → HRes) (h : Obj → Obj) (hp : ∀ x ∈ xs, f x = .ok (h x)) :
    xs.map f = (xs.map h).map Except.ok := by
  rw [List.map_map]
  exact List.map_congr_left hp

theorem notSet_unstructTo {k : SK} (h : k.structTo.isSet = false) : k.unstructTo = .list := by
  cases k <;> simp_all [SK.structTo, SK.unstructTo, CK.isSet]

/-- a non-set collection whose items all structure: both modes rebuild the container of the results -/
theorem stTy_coll_oks (g : GWorld) (n : Nat) {t' : Ty} (ht : tyHasCls t' = true) {k : SK} (hk : k.structTo.isSet = false)
    (ck : CK) (us : List Obj) (h : Obj → Obj) (hp : ∀ u ∈ us, stTy g n (some t') u = .ok (h u)) :
    stTy g (n + 1) (some (.coll k t')) (.coll ck us) = .ok (.coll k.structTo (us.map h)) := by
  have hi : iterItems (.coll ck us) = some us := rfl
  have hm := map_eq_map_ok (stTy g n (some t')) h hp
  cases hd : g.detailed with
  | true =>
    rw [stTy_coll_D g n ht k hi hd, hm, hk, collectD_oks]
    simp [mkColl, hk]
  | false =>
    rw [stTy_coll_F_ok g n ht k hi hd (ys := us.map h) (by rw [hm, collectF_oks])]
    simp [finishColl, hk]

/-! ### identity hooks are identities -/

theorem hunTDSteps_identity (un : UnFn) (unIsId : Option Ty → Bool) (hc : HookCfg) (inst : List (Obj × Obj)) :
    ∀ (as : List Attr) (res : List (Obj × Obj)), (∀ a ∈ as, ovOf hc a = Ovr.neutral ∧ unIsId a.ty = true) →
      hunTDSteps un unIsId hc inst as res = res := by
  intro as
  induction as with
  | nil => intro res _; rfl
  | cons a as ih =>
    intro res h
    obtain ⟨h1, h2⟩ := h a (List.mem_cons_self ..)
    simp only [hunTDSteps, h1, h2, Ovr.neutral]
    simpa using ih res (fun b hb => h b (List.mem_cons_of_mem _ hb))

/-- `converter.get_unstructure_hook(t) is identity` ⟹ the composition returns its argument -/
theorem unIsIdTy_sound (g : GWorld) : ∀ (n : Nat) (t : Option Ty) (v : Obj), unIsIdTy g n t = true → unTy g n t v = v := by
  intro n
  induction n with
  | zero => intro t v h; simp [unIsIdTy] at h
  | succ n ih =>
    intro t v h
    cases t with
    | none => simp [unIsIdTy] at h
    | some t =>
      cases t with
      | int => simp [unTy, tyHasCls, un]
      | float => simp [unTy, tyHasCls, un]
      | str => simp [unTy, tyHasCls, un]
      | bytes => simp [unTy, tyHasCls, un]
      | bool => simp [unTy, tyHasCls, un]
      | lit vs =>
        have hl : litHasEnum vs = false := by simpa [unIsIdTy] using h
        simp [unTy, tyHasCls, un, hl]
      | wrap k t' =>
        simp only [unIsIdTy] at h
        have hn : ∃ m, n = m + 1 := by
          cases n with
          | zero => simp [unIsIdTy] at h
          | succ m => exact ⟨m, rfl⟩
        obtain ⟨m, rfl⟩ := hn
        have e := ih (some t') v h
        by_cases hc : tyHasCls t' = true
        · rw [unTy_wrap g _ hc]; exact e
        · have hc' : tyHasCls t' = false := by simpa using hc
          have hw : tyHasCls (.wrap k t') = false := by simp [tyHasCls, hc']
          rw [unTy_leaf g _ hc'] at e
          rw [unTy_leaf g _ hw]
          simp only [un, convCfg, Bool.true_or, if_true]
          exact e
      | td c =>
        simp only [unIsIdTy] at h
        cases hk : g.classes[c]? with
        | none => rw [hk] at h; cases h
        | some k =>
          rw [hk] at h
          simp only [tdUnIsIdentity, List.all_eq_true, Bool.and_eq_true, beq_iff_eq] at h
          by_cases hv : ∃ kvs, v = .dict kvs
          · obtain ⟨kvs, rfl⟩ := hv
            rw [unTy_td g n hk, hunTD, hunTDSteps_identity _ _ _ _ _ _ h]
          · exact unTy_td_other g n c v (fun kvs e => hv ⟨kvs, e⟩)
      | _ => simp [unIsIdTy] at h

end GenHook
end CattrsModel
