import CattrsModel.GenHook.Model
import CattrsModel.GenHook.Nested
import CattrsModel.GenHook.NestedForbid
import CattrsModel.GenHook.TaggedCompose
import CattrsModel.Tagged.Driver
import CattrsModel.Conv.Driver
/-!
# Line-protocol operations of the customised-hook model (driver only; no theorem depends on this file)

```
HOOKUN     <gworld> <fuel> <ty> <obj>     -> (ok <obj>) | (err (leaf)) | unmodelled     -- err: a required TypedDict key is missing (KeyError)
HOOKST     <gworld> <fuel> <ty> <obj>     -> (ok <obj>) | (err <errtree>) | unmodelled
HOOKKEYS   <gworld> <class#> <instance>   -> (keys "k"…)             -- the specification `expectedKeys`
CONSISTENT <gworld> <class#>              -> 1 | 0                   -- `ConsistentCls` / `ConsistentTD`
QUOTE      "<key>"                        -> (quoted "<repr(key)>") | unmodelled
HOOKCONF   <gworld> <fuel> <ty> <obj>     -> 1 | 0 | unmodelled      -- hypotheses of C09_roundtrip_nested (`gconf` ∧ consistent)
TAGHOOKST  <gworld> <fuel> <tu> <obj>     -> (ok <obj>) | (err <errtree>) | unmodelled   -- `tagHookSt` over the table's hooks
                                              (<tu> as in Tagged/Driver.lean; members are class numbers of the gworld)
HOOKHITS   <gworld> <fuel> <ty> <obj>     -> 1 | 0 | unmodelled      -- `hits`: a forbidding position of the payload has an extra
gworld ::= (gworld DETAILED (classes gcls*) (enums (obj*)*))
gcls   ::= (gcls attrs|dc|td|nt FROZEN (kw NAME*) hc fld*)
hc     ::= (hc (ovs (NAME OID RENAME OMIT SH UH)*) USEALIAS INCLINITFALSE OID FORBID DETAILED)
         | (hcconv OID FORBID DETAILED (tovs (ty (OID RENAME OMIT SH UH))*))
errtree::= (leaf) | (extra CLASS# obj*) | (cve ("attr"|- errtree)*) | (ive (obj|- errtree)*)
```
-/
namespace CattrsModel
namespace GenHook
deriving instance BEq for Ty
open Sexp

def optBool? : Sexp → Option (Option Bool)
  | .atom "-" => some none
  | s => (bool? s).map some

def optNat? : Sexp → Option (Option Nat)
  | .atom "-" => some none
  | s => (atomNat? s).map some

def optStr? : Sexp → Option (Option String)
  | .atom "-" => some none
  | .str s => some (some s)
  | _ => none

def ovrOfSexps : List Sexp → Option Ovr
  | [oid, rn, om, sh, uh] => do
      some { oid := (← optBool? oid), rename := (← optStr? rn), omitted := (← optBool? om), sh := (← optNat? sh), uh := (← optNat? uh) }
  | _ => none

def kindOfAtom : String → Option GKind
  | "attrs" => some .attrs
  | "dc" => some .dataclass
  | "td" => some .typeddict
  | "nt" => some .namedtuple
  | _ => none

def attrOfSexp (kws : List String) (s : Sexp) : Option Attr := do
  let f ← fieldOfSexp s
  some { name := f.name, alias := f.alias, ty := f.ty, dflt := f.dflt, init := f.init, required := f.required,
         kwOnly := kws.contains f.name }

def hcOfSexp (kind : GKind) (attrs : List Attr) : Sexp → Option HookCfg
  | .list [.atom "hc", .list (.atom "ovs" :: ovs), ua, ii, oid, fb, dt] => do
      let ovs ← ovs.mapM (fun (s : Sexp) => match s with
        | .list (.str n :: body) => (ovrOfSexps body).map (fun o => (n, o))
        | _ => none)
      some { ovs := ovs, useAlias := (← bool? ua), inclInitFalse := (← bool? ii), oid := (← bool? oid),
             forbid := (← bool? fb), detailed := (← bool? dt) }
  | .list [.atom "hcconv", oid, fb, dt, .list (.atom "tovs" :: tovs)] => do
      let tovs ← tovs.mapM (fun (s : Sexp) => match s with
        | .list [t, .list body] => do some ((← tyOfSexp t), (← ovrOfSexps body))
        | _ => none)
      some (convHc (· == ·) { oid := (← bool? oid), forbid := (← bool? fb), detailed := (← bool? dt), tovs := tovs } kind attrs)
  | _ => none

def gclsOfSexp : Sexp → Option GCls
  | .list (.atom "gcls" :: .atom kind :: frozen :: .list (.atom "kw" :: kws) :: hc :: flds) => do
      let kind ← kindOfAtom kind
      let kws ← kws.mapM (fun (s : Sexp) => match s with | .str n => some n | _ => none)
      let attrs ← flds.mapM (attrOfSexp kws)
      some { kind := kind, frozen := (← bool? frozen), attrs := attrs, hc := (← hcOfSexp kind attrs hc) }
  | _ => none

def gworldOfSexp : Sexp → Option GWorld
  | .list [.atom "gworld", d, .list (.atom "classes" :: cs), .list (.atom "enums" :: es)] => do
      let cs ← cs.mapM gclsOfSexp
      let es ← es.mapM (fun (e : Sexp) => match e with | .list vs => vs.mapM objOfSexp | _ => none)
      some { detailed := (← bool? d), classes := cs, enums := es }
  | _ => none

partial def sexpOfHErr : HErr → Sexp
  | .leaf => .list [.atom "leaf"]
  | .extra c ks => .list (.atom "extra" :: ofNat c :: sortedSexps ks)
  | .cve es => .list (.atom "cve" :: es.map (fun (n, e) =>
      .list [match n with | some s => .str s | none => .atom "-", sexpOfHErr e]))
  | .ive es => .list (.atom "ive" :: es.map (fun (n, e) =>
      .list [match n with | some o => sexpOfObj o | none => .atom "-", sexpOfHErr e]))

/-- recursion budget the composition needs for a type (class references are followed `budget` deep) -/
def depthTy (g : GWorld) : Nat → Option Ty → Nat
  | 0, _ => 1000000
  | _, none => 1
  | b + 1, some t =>
    if !tyHasCls t then 1
    else match t with
      | .cls c | .td c =>
        (match g.classes[c]? with
         | some k => 1 + (k.attrs.map (fun a => depthTy g b a.ty)).foldl max 0
         | none => 1)
      | .opt t' | .wrap _ t' | .coll _ t' => 1 + depthTy g b (some t')
      | _ => 1000000

partial def hasInst : Obj → Bool
  | .inst _ _ => true
  | .coll _ xs => xs.any hasInst
  | .dict kvs => kvs.any (fun kv => hasInst kv.1 || hasInst kv.2)
  | _ => false

/-- inputs of `unTy` outside the modelled fragment: an instance met at an `Any` / untyped position (run-time
class dispatch to a customised hook), class references inside unsupported constructors -/
partial def unmodUN (g : GWorld) : Option Ty → Obj → Bool
  | none, x => hasInst x
  | some t, x =>
    if !tyHasCls t then hasInst x
    else match t, x with
      | .cls c, .inst _ fs =>
        (match g.classes[c]? with
         | some k => (k.attrs.zip fs).any (fun (a, (_, v)) => (ovOf k.hc a).uh.isNone && unmodUN g a.ty v)
         | none => true)
      | .td c, .dict kvs =>
        (match g.classes[c]? with
         | some k => k.attrs.any (fun a => match dlookup kvs (.str a.name) with
             | some v => (ovOf k.hc a).uh.isNone && unmodUN g a.ty v
             -- a missing required key raises `KeyError` (modelled by `keyErrMark` under the key's final name); outside
             -- `ConsistentTD` a later `pop` / assignment of the same name could erase the marker: not modelled there
             | none => a.required && !k.consistent)
         | none => true)
      | .opt _, .none => false
      | .opt t', x => unmodUN g (some t') x
      | .wrap _ t', x => unmodUN g (some t') x
      | .coll k t', .coll _ xs => k.structTo.isSet || xs.any (unmodUN g (some t'))
      | _, _ => true

partial def unmodST (g : GWorld) : Option Ty → Obj → Bool
  | none, _ => false
  | some t, o =>
    if !tyHasCls t then unmodelledST g.core convCfg t o
    else match t with
      | .cls c | .td c =>
        (match g.classes[c]?, o with
         | some k, .dict kvs => k.attrs.any (fun a =>
             (ovOf k.hc a).sh.isNone &&
             (match dlookup kvs (.str (if k.kind == .typeddict then tdKey k.hc a else keyName k.hc a)) with
              | some v => unmodST g a.ty v
              | none => false))
         | some _, _ => false
         | none, _ => true)
      | .opt t' | .wrap _ t' => unmodST g (some t') o
      | .coll k t' =>
        k.structTo.isSet || (match o with
          | .str _ | .bytes _ => true
          | .coll _ xs => xs.any (unmodST g (some t'))
          | .dict kvs => kvs.any (fun kv => unmodST g (some t') kv.1)
          | _ => false)
      | _ => true

/-- `instance['a']` raised `KeyError` somewhere below: the call raises -/
partial def hasKeyErr : Obj → Bool
  | .coll _ xs => xs.any hasKeyErr
  | .dict kvs => kvs.any (fun kv => hasKeyErr kv.1 || hasKeyErr kv.2)
  | .inst _ fs => fs.any (fun f => hasKeyErr f.2)
  | o => o == keyErrMark

/-- classes the model does not cover: an `init=False` attribute without a default (the attribute may stay unset) -/
def worldUnmodelled (g : GWorld) : Bool :=
  g.classes.any (fun k => k.attrs.any (fun a => !a.init && !a.hasDefault))

def budget (g : GWorld) (ty : Ty) (cap : Nat) : Option Nat :=
  let d := depthTy g 64 (some ty)
  -- slack: `unIsIdTy` spends budget on wrapper layers of class-free types, which `depthTy` counts as 1
  if d > 8 * (cap + 1) then none else some (d + 17)

def quoteModelled (s : String) : Bool := s.toList.all (fun c => c.toNat < 0x100)

def genHookHandle (op : String) (args : List Sexp) : Option Sexp :=
  match op, args with
  | "HOOKUN", [gw, fuel, ty, o] => do
      let g ← gworldOfSexp gw; let cap ← atomNat? fuel; let ty ← tyOfSexp ty; let o ← objOfSexp o
      match budget g ty cap with
      | none => some (.atom "unmodelled")
      | some n =>
        if worldUnmodelled g || unmodUN g (some ty) o then some (.atom "unmodelled")
        else
          let r := unTy g n (some ty) o
          if hasKeyErr r then some (.list [.atom "err", .list [.atom "leaf"]]) else some (replyObj r)
  | "HOOKST", [gw, fuel, ty, o] => do
      let g ← gworldOfSexp gw; let cap ← atomNat? fuel; let ty ← tyOfSexp ty; let o ← objOfSexp o
      match budget g ty cap with
      | none => some (.atom "unmodelled")
      | some n =>
        if worldUnmodelled g || unmodST g (some ty) o then some (.atom "unmodelled")
        else match stTy g n (some ty) o with
          | .ok v => some (replyObj v)
          | .error e =>
            let s := sexpOfHErr e
            if hasMark s.toString then some (.atom "unmodelled") else some (.list [.atom "err", s])
  | "HOOKKEYS", [gw, ci, o] => do
      let g ← gworldOfSexp gw; let ci ← atomNat? ci; let o ← objOfSexp o
      let k ← g.classes[ci]?
      match o with
      | .inst _ fs => some (.list (.atom "keys" :: (expectedKeys k.hc k.attrs fs).map Sexp.str))
      | _ => some (.atom "unmodelled")
  | "CONSISTENT", [gw, ci] => do
      let g ← gworldOfSexp gw; let ci ← atomNat? ci
      let k ← g.classes[ci]?
      some (ofBool k.consistent)
  | "HOOKCONF", [gw, fuel, ty, o] => do
      let g ← gworldOfSexp gw; let cap ← atomNat? fuel; let ty ← tyOfSexp ty; let o ← objOfSexp o
      match budget g ty cap with
      | none => some (.atom "unmodelled")
      | some n => some (ofBool (g.consistent && gconf g n (some ty) o))
  | "HOOKHITS", [gw, fuel, ty, o] => do
      let g ← gworldOfSexp gw; let cap ← atomNat? fuel; let ty ← tyOfSexp ty; let o ← objOfSexp o
      match budget g ty cap with
      | none => some (.atom "unmodelled")
      | some n => some (ofBool (hits g n (some ty) o))
  | "TAGHOOKST", [gw, fuel, tu, o] => do
      let g ← gworldOfSexp gw; let cap ← atomNat? fuel; let U ← Tagged.tuOfSexp tu; let o ← objOfSexp o
      if worldUnmodelled g then some (.atom "unmodelled")
      else
        -- every member hook runs the composition at its own class; a payload outside the fragment is `unmodelled`
        -- (a TypedDict member is structured by the TypedDict generator, every other kind by the class template:
        -- `memberHookK` of GenHook/TaggedKinds.lean)
        let mty : Nat → Ty := fun k =>
          match g.classes[k]? with
          | some c => if c.kind == .typeddict then .td k else .cls k
          | none => .cls k
        let hook : Nat → Obj → HRes := fun k q =>
          match budget g (mty k) cap with
          | none => .error (.extra 0 [fuelMark])
          | some n => if unmodST g (some (mty k)) q then .error (.extra 0 [fuelMark]) else stTy g n (some (mty k)) q
        match tagHookSt U hook o with
        | .ok v => some (replyObj v)
        | .error e =>
          let s := sexpOfHErr e
          if hasMark s.toString then some (.atom "unmodelled") else some (.list [.atom "err", s])
  | "QUOTE", [.str s] =>
      if quoteModelled s then some (.list [.atom "quoted", .str (pyQuote s)]) else some (.atom "unmodelled")
  | _, _ => none

end GenHook
end CattrsModel
