import CattrsModel.GenHook.Model
import CattrsModel.Tagged.Model
/-!
# `configure_tagged_union` over generated member hooks

The tagged-union structure hook (model: `Tagged/Model.lean`, property C13) decides which member hook a payload
reaches and with which payload (`Tagged.tagDecide`); here the member hooks are the generated hooks of this area, so
that the two models compose: errors of the member hook (in particular `ForbiddenExtraKeysError`) are kept.
-/
namespace CattrsModel
namespace GenHook

/-- `structure_tagged_union(val, _)` over member hooks `hook k` (anything the strategy raises itself is a leaf) -/
def tagHookSt (U : Tagged.TU) (hook : Nat → Obj → HRes) (p : Obj) : HRes :=
  match Tagged.tagDecide U p with
  | .err => .error .leaf
  | .call k q => hook k q

/-- the member hooks `converter.get_structure_hook(cl)` captured by the strategy: the hook generated for class `k`
of the table with the converter's `forbid_extra_keys` -/
def memberHook (st : StFn) (cls : Nat → GCls) (forbid : Bool) (k : Nat) (q : Obj) : HRes :=
  hstClsWith forbid st k (cls k) q

end GenHook
end CattrsModel
