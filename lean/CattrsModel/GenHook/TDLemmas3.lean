import CattrsModel.GenHook.TDLemmas2
/-!
# TypedDict unstructure hook: popped names are absent; which keys of the output the forbid check rejects
-/
namespace CattrsModel
namespace GenHook

/-- the declared names of a TypedDict, as dictionary keys -/
def tdNames (attrs : List Attr) : List Obj := attrs.map (fun a => Obj.str a.name)

/-- the keys of an instance that are not declared by the TypedDict, in the instance's order (non-string keys
included) -/
def tdUndeclared (attrs : List Attr) (inst : List (Obj × Obj)) : List Obj :=
  (keysOf inst).filter (fun k => !Obj.memPy k (tdNames attrs))

theorem tdUndeclared_eq_nil_iff (attrs : List Attr) (inst : List (Obj × Obj)) :
    tdUndeclared attrs inst = [] ↔ ∀ k ∈ keysOf inst, ∃ a ∈ attrs, k = .str a.name := by
  simp only [tdUndeclared, List.filter_eq_nil_iff, Bool.not_eq_true', Bool.not_eq_false]
  constructor
  · intro h k hk
    obtain ⟨y, hy, hyk⟩ := memPy_iff.mp (h k hk)
    simp only [tdNames, List.mem_map] at hy
    obtain ⟨a, ha, rfl⟩ := hy
    exact ⟨a, ha, pyEq_str_left.mp hyk⟩
  · intro h k hk
    obtain ⟨a, ha, rfl⟩ := h k hk
    exact memPy_of_mem (List.mem_map.mpr ⟨a, ha, rfl⟩)

section Un
variable (un : UnFn) (unIsId : Option Ty → Bool) (hc : HookCfg) (inst : List (Obj × Obj))

/-- the name of an omitted key and the old name of a renamed key are absent from the output (the running copy
has duplicate-free keys, so `pop` removes the entry; no later step assigns a declared name that is not the
final key of its own attribute) -/
theorem hunTDSteps_popped : ∀ (as : List Attr) (res : List (Obj × Obj)),
    TDFacts hc as → nodupPy (keysOf res) = true →
    ∀ a ∈ as, (tdIncluded hc a = false ∨ (ovOf hc a).rename.isSome = true) →
      dlookup (hunTDSteps un unIsId hc inst as res) (.str a.name) = none := by
  intro as
  induction as with
  | nil => intro res _ _ a ha; cases ha
  | cons b as ih =>
    intro res hf hnd a ha hpop
    have hft := hf.tail
    have hdel : nodupPy (keysOf (dictDel res (.str b.name))) = true := dictDel_keys_nodup hnd _
    have h1 : nodupPy (keysOf (if (ovOf hc b).rename.isSome = true then dictDel res (.str b.name) else res)) = true := by
      split
      · exact hdel
      · exact hnd
    rcases List.mem_cons.mp ha with hab | hat
    · subst hab
      have hnone : ∀ res', dlookup res' (.str a.name) = none →
          dlookup (hunTDSteps un unIsId hc inst as res') (.str a.name) = none := fun res' h =>
        hunTDSteps_none un unIsId hc inst a.name as res'
          (fun c hc' hic => hf.key_ne_name (List.mem_cons_of_mem _ hc') (List.mem_cons_self ..) hic (hf.name_ne c hc')) h
      have hgone : dlookup (dictDel res (.str a.name)) (.str a.name) = none := dlookup_dictDel_same hnd _
      simp only [hunTDSteps]
      split
      · exact hnone _ hgone
      · rename_i hom
        have hi : tdIncluded hc a = true := by simpa [tdIncluded] using hom
        have hr : (ovOf hc a).rename.isSome = true := by
          rcases hpop with h | h
          · rw [hi] at h; cases h
          · exact h
        obtain ⟨r, hr'⟩ := Option.isSome_iff_exists.mp hr
        have hk : tdKey hc a = r := by simp [tdKey, hr']
        have hne : r ≠ a.name := fun e =>
          hf.fresh a (List.mem_cons_self ..) hi r hr' a (List.mem_cons_self ..) e.symm
        simp only [hr, if_true]
        split
        · exact hnone _ hgone
        · split
          · split
            · apply hnone
              rw [hk, dlookup_dictSet_str, if_neg hne]
              exact hgone
            · exact hnone _ hgone
          · apply hnone
            rw [hk, dlookup_dictSet_str, if_neg hne]
            exact hgone
    · simp only [hunTDSteps]
      split
      · exact ih _ hft hdel a hat hpop
      · split
        · exact ih _ hft h1 a hat hpop
        · split
          · split
            · exact ih _ hft (dictSet_keys_nodup h1 _ _) a hat hpop
            · exact ih _ hft h1 a hat hpop
          · exact ih _ hft (dictSet_keys_nodup h1 _ _) a hat hpop

/-- **Every key of the output of the TypedDict unstructure hook**: final keys of handled attributes hold the
unstructured entry (present iff the entry is), popped names are absent, every other key (string or not) is
as in the instance; and the output's keys are duplicate-free. -/
theorem hunTDSteps_keys (hid : ∀ t v, unIsId t = true → un t v = v) (attrs : List Attr)
    (hf : TDFacts hc attrs)
    (hfree : ∀ a ∈ attrs, tdIncluded hc a = true → ∀ r, (ovOf hc a).rename = some r → dlookup inst (.str r) = none)
    (hnd : nodupPy (keysOf inst) = true)
    (hreq : ∀ a ∈ attrs, tdIncluded hc a = true → a.required = true → (dlookup inst (.str a.name)).isSome = true) :
    (∀ a ∈ attrs, tdIncluded hc a = true →
      dlookup (hunTDSteps un unIsId hc inst attrs inst) (.str (tdKey hc a))
        = (dlookup inst (.str a.name)).map (attrUn un (ovOf hc a) a)) ∧
    (∀ a ∈ attrs, (tdIncluded hc a = false ∨ (ovOf hc a).rename.isSome = true) →
      dlookup (hunTDSteps un unIsId hc inst attrs inst) (.str a.name) = none) ∧
    (∀ k : Obj, (∀ a ∈ attrs, k ≠ .str a.name ∧ (tdIncluded hc a = true → k ≠ .str (tdKey hc a))) →
      dlookup (hunTDSteps un unIsId hc inst attrs inst) k = dlookup inst k) ∧
    nodupPy (keysOf (hunTDSteps un unIsId hc inst attrs inst)) = true :=
  ⟨hunTDSteps_main un unIsId hc inst hid attrs inst hf (fun _ _ => rfl) hfree hreq,
   hunTDSteps_popped un unIsId hc inst attrs inst hf hnd,
   fun k hk => hunTDSteps_frame_obj un unIsId hc inst k attrs inst hk,
   hunTDSteps_nodup un unIsId hc inst attrs inst hnd⟩

/-- **`KeyError`**: a handled required key whose assignment line is emitted (its hook is not the identity, or it is
renamed) and which is absent from the instance: `instance['a']` raises -- the marker sits under its final key. -/
theorem hunTDSteps_keyerror (a : Attr) (hi : tdIncluded hc a = true) (hreq : a.required = true)
    (habs : dlookup inst (.str a.name) = none)
    (hline : ((ovOf hc a).uh.isNone && unIsId a.ty && (ovOf hc a).rename.isNone) = false) :
    ∀ (as : List Attr) (res : List (Obj × Obj)), TDFacts hc as → a ∈ as →
      dlookup (hunTDSteps un unIsId hc inst as res) (.str (tdKey hc a)) = some keyErrMark := by
  intro as
  induction as with
  | nil => intro res _ ha; cases ha
  | cons b as ih =>
    intro res hf ha
    have hft := hf.tail
    rcases List.mem_cons.mp ha with hab | hat
    · subst hab
      have hom : ((ovOf hc a).omitted == some true) = false := by simpa [tdIncluded] using hi
      simp only [hunTDSteps, hom, Bool.false_eq_true, if_false, hline, habs, hreq, if_true]
      rw [hunTDSteps_frame un unIsId hc inst (tdKey hc a) as _
        (fun c hc' => ⟨fun e => hf.key_ne_name (List.mem_cons_self ..) (List.mem_cons_of_mem _ hc') hi (hf.name_ne c hc').symm e.symm,
          fun hic => hf.key_ne hi c hc' hic⟩)]
      exact dlookup_dictSet_same _ _ _
    · simp only [hunTDSteps]
      split
      · exact ih _ hft hat
      · split
        · exact ih _ hft hat
        · split
          · split
            · exact ih _ hft hat
            · exact ih _ hft hat
          · exact ih _ hft hat

theorem mem_tdAllowed {attrs : List Attr} {a : Attr} (ha : a ∈ attrs) (hi : tdIncluded hc a = true) :
    Obj.str (tdKey hc a) ∈ tdAllowed hc attrs := by
  simp only [tdAllowed, List.mem_map, List.mem_filter]
  exact ⟨a, ⟨ha, hi⟩, rfl⟩

/-- **What the forbid check of the structure hook rejects in the output of the unstructure hook**: exactly the
keys of the instance that the TypedDict does not declare, in the instance's order. -/
theorem extraKeys_hunTDSteps (attrs : List Attr)
    (hf : TDFacts hc attrs)
    (hfree : ∀ a ∈ attrs, tdIncluded hc a = true → ∀ r, (ovOf hc a).rename = some r → dlookup inst (.str r) = none)
    (hnd : nodupPy (keysOf inst) = true) :
    extraKeys (tdAllowed hc attrs) (hunTDSteps un unIsId hc inst attrs inst) = tdUndeclared attrs inst := by
  have hpopped := hunTDSteps_popped un unIsId hc inst attrs inst hf hnd
  -- the filter that rejects every declared name and every accepted key
  have hA := hunTDSteps_filter un unIsId hc inst
    (fun k => !Obj.memPy k (tdAllowed hc attrs) && !Obj.memPy k (tdNames attrs)) attrs inst
    (by
      intro b hb
      have hn : Obj.memPy (.str b.name) (tdNames attrs) = true :=
        memPy_of_mem (List.mem_map.mpr ⟨b, hb, rfl⟩)
      refine ⟨by simp only [hn, Bool.not_true, Bool.and_false], ?_⟩
      intro hi
      have : Obj.memPy (.str (tdKey hc b)) (tdAllowed hc attrs) = true := memPy_of_mem (mem_tdAllowed hc hb hi)
      simp only [this, Bool.not_true, Bool.false_and])
  -- on the keys of the output: a declared name that is still there is an accepted key
  have hB : extraKeys (tdAllowed hc attrs) (hunTDSteps un unIsId hc inst attrs inst)
      = (keysOf (hunTDSteps un unIsId hc inst attrs inst)).filter
          (fun k => !Obj.memPy k (tdAllowed hc attrs) && !Obj.memPy k (tdNames attrs)) := by
    unfold extraKeys
    apply List.filter_congr
    intro k hk
    cases hal : Obj.memPy k (tdAllowed hc attrs) with
    | true => rfl
    | false =>
      cases hnm : Obj.memPy k (tdNames attrs) with
      | false => rfl
      | true =>
        exfalso
        obtain ⟨y, hy, hyk⟩ := memPy_iff.mp hnm
        simp only [tdNames, List.mem_map] at hy
        obtain ⟨a, ha, rfl⟩ := hy
        have hka : k = .str a.name := pyEq_str_left.mp hyk
        subst hka
        have hpres : dlookup (hunTDSteps un unIsId hc inst attrs inst) (.str a.name) ≠ none := by
          intro e
          have := dlookup_none_iff.mp e
          rw [memPy_of_mem hk] at this; cases this
        cases hi : tdIncluded hc a with
        | false => exact hpres (hpopped a ha (Or.inl hi))
        | true =>
          cases hr : (ovOf hc a).rename with
          | some r => exact hpres (hpopped a ha (Or.inr (by rw [hr]; rfl)))
          | none =>
            have hkey : tdKey hc a = a.name := by simp [tdKey, hr]
            have := memPy_of_mem (mem_tdAllowed hc ha hi)
            rw [hkey, hal] at this; cases this
  -- on the keys of the instance: an undeclared key is not an accepted key
  have hC : (keysOf inst).filter (fun k => !Obj.memPy k (tdAllowed hc attrs) && !Obj.memPy k (tdNames attrs))
      = tdUndeclared attrs inst := by
    unfold tdUndeclared
    apply List.filter_congr
    intro k hk
    cases hnm : Obj.memPy k (tdNames attrs) with
    | true => simp only [Bool.not_true, Bool.and_false]
    | false =>
      cases hal : Obj.memPy k (tdAllowed hc attrs) with
      | false => rfl
      | true =>
        exfalso
        obtain ⟨y, hy, hyk⟩ := memPy_iff.mp hal
        simp only [tdAllowed, List.mem_map, List.mem_filter] at hy
        obtain ⟨a, ⟨ha, hi⟩, rfl⟩ := hy
        have hka : k = .str (tdKey hc a) := pyEq_str_left.mp hyk
        subst hka
        cases hr : (ovOf hc a).rename with
        | none =>
          have hkey : tdKey hc a = a.name := by simp [tdKey, hr]
          have : Obj.memPy (.str (tdKey hc a)) (tdNames attrs) = true := by
            rw [hkey]; exact memPy_of_mem (List.mem_map.mpr ⟨a, ha, rfl⟩)
          rw [this] at hnm; cases hnm
        | some r =>
          have hkey : tdKey hc a = r := by simp [tdKey, hr]
          have := dlookup_none_iff.mp (hfree a ha hi r hr)
          rw [← hkey, memPy_of_mem hk] at this; cases this
  rw [hB, hA, hC]

end Un

end GenHook
end CattrsModel
