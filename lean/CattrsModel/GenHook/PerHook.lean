import CattrsModel.GenHook.RoundTrip
import CattrsModel.GenHook.TDLemmas
import CattrsModel.GenHook.TDLemmas3
import CattrsModel.GenHook.ForbidLemmas
/-!
# The per-hook round trip, packaged for the nesting induction

`perhook_cls` and `perhook_td` are the statements `C09_roundtrip` / `C09_td_roundtrip` (same hypotheses, same
conclusions), placed below `Props/` so that the induction over the composition (`NestedRT.lean`) can use them.
-/
namespace CattrsModel
namespace GenHook

/-- what the handler pair of an attribute does on its own output, from what the handlers of its type do -/
theorem attr_pair_roundtrip (un : UnFn) (st : StFn) (hc : HookCfg) (rt : Attr → Obj → Obj) (a : Attr) (v : Obj)
    (hpair : (ovOf hc a).sh = (ovOf hc a).uh)
    (hrt : (ovOf hc a).sh = none → st a.ty (un a.ty v) = .ok (rt a v)) :
    attrSt st (ovOf hc a) a (attrUn un (ovOf hc a) a v) = .ok (rtWithHooks hc rt a v) := by
  cases hs : (ovOf hc a).sh with
  | none =>
    rw [hs] at hpair
    simp only [attrSt, attrUn, hs, ← hpair, rtWithHooks, Option.isSome_none, Bool.false_eq_true, if_false]
    exact hrt hs
  | some n =>
    rw [hs] at hpair
    simp [attrSt, attrUn, hs, ← hpair, rtWithHooks, tagUnwrap, tagWrap]

/-- attrs classes / dataclasses / NamedTuples (both templates, forbid on or off) -/
theorem perhook_cls (un : UnFn) (st : StFn) (ci : Nat) (c : GCls) (fs : List (String × Obj))
    (rt : Attr → Obj → Obj) (forbid : Bool)
    (hcons : ConsistentCls c.frozen c.hc c.attrs = true) (hlen : fs.length = c.attrs.length)
    (hrt : ∀ p ∈ c.attrs.zip fs, included c.hc p.1 = true → emitted c.hc p.1 p.2.2 = true → (ovOf c.hc p.1).sh = none →
      st p.1.ty (un p.1.ty p.2.2) = .ok (rt p.1 p.2.2)) :
    hstClsWith forbid st ci c (hunCls un c.hc c.attrs fs)
      = .ok (.inst ci (restored c.hc (rtWithHooks c.hc rt) c.attrs fs)) := by
  have hsu := (consistentCls_unpack hcons).2.2.2.2.1
  have hrt' : ∀ p ∈ c.attrs.zip fs, included c.hc p.1 = true → emitted c.hc p.1 p.2.2 = true →
      attrSt st (ovOf c.hc p.1) p.1 (attrUn un (ovOf c.hc p.1) p.1 p.2.2) = .ok (rtWithHooks c.hc rt p.1 p.2.2) :=
    fun p hp hi he => attr_pair_roundtrip un st c.hc rt p.1 p.2.2 (hsu p.1 (List.of_mem_zip hp).1) (hrt p hp hi he)
  unfold hstClsWith
  split
  · exact hstClsD_hunCls un st ci c fs _ forbid hcons hlen hrt'
  · exact hstClsF_hunCls un st ci c fs _ forbid hcons hlen hrt'

theorem hstTDWith_forbid_ok_iff (st : StFn) (ci : Nat) (c : GCls) (kvs : List (Obj × Obj)) (y : Obj) :
    hstTDWith true st ci c (.dict kvs) = .ok y ↔
      (hstTDWith false st ci c (.dict kvs) = .ok y ∧ extraKeys (tdAllowed c.hc c.attrs) kvs = []) := by
  unfold hstTDWith
  split
  · exact hstTDD_forbid_ok_iff st ci c kvs y
  · exact hstTDF_forbid_ok_iff st ci c kvs y

/-- TypedDicts (copy-then-patch; both templates; forbid on or off) -/
theorem perhook_td (un : UnFn) (unIsId : Option Ty → Bool) (st : StFn) (ci : Nat) (c : GCls)
    (inst : List (Obj × Obj)) (rt : Attr → Obj → Obj) (forbid : Bool)
    (hcons : ConsistentTD c.hc c.attrs = true)
    (hid : ∀ t v, unIsId t = true → un t v = v)
    (hreq : ∀ a ∈ c.attrs, tdIncluded c.hc a = true → a.required = true → (dlookup inst (.str a.name)).isSome = true)
    (hfree : ∀ a ∈ c.attrs, tdIncluded c.hc a = true → ∀ r, (ovOf c.hc a).rename = some r → dlookup inst (.str r) = none)
    (hrt : ∀ a ∈ c.attrs, tdIncluded c.hc a = true → (ovOf c.hc a).sh = none → ∀ v, dlookup inst (.str a.name) = some v →
      st a.ty (un a.ty v) = .ok (rt a v))
    (hnd : forbid = true → nodupPy (keysOf inst) = true)
    (hdecl : forbid = true → ∀ k ∈ keysOf inst, ∃ a ∈ c.attrs, k = .str a.name) :
    ∃ res, hstTDWith forbid st ci c (hunTD un unIsId c.hc c.attrs inst) = .ok (.dict res) ∧
      ∀ a ∈ c.attrs, tdIncluded c.hc a = true →
        dlookup res (.str a.name) = (dlookup inst (.str a.name)).map (rtWithHooks c.hc rt a) := by
  have hsu := (consistentTD_facts hcons).2
  have hrt' : ∀ a ∈ c.attrs, tdIncluded c.hc a = true → ∀ v, dlookup inst (.str a.name) = some v →
      attrSt st (ovOf c.hc a) a (attrUn un (ovOf c.hc a) a v) = .ok (rtWithHooks c.hc rt a v) :=
    fun a ha hi v hv => attr_pair_roundtrip un st c.hc rt a v (hsu a ha) (fun hs => hrt a ha hi hs v hv)
  have hoff : ∃ res, hstTDWith false st ci c (hunTD un unIsId c.hc c.attrs inst) = .ok (.dict res) ∧
      ∀ a ∈ c.attrs, tdIncluded c.hc a = true →
        dlookup res (.str a.name) = (dlookup inst (.str a.name)).map (rtWithHooks c.hc rt a) := by
    unfold hstTDWith
    split
    · exact hstTDD_hunTD un unIsId st ci c inst _ hcons hid hreq hfree hrt'
    · exact hstTDF_hunTD un unIsId st ci c inst _ hcons hid hreq hfree hrt'
  cases forbid with
  | false => exact hoff
  | true =>
    obtain ⟨res, hoff, hres⟩ := hoff
    have hex := extraKeys_hunTDSteps un unIsId c.hc inst c.attrs (consistentTD_facts hcons).1 hfree (hnd rfl)
    have hu : tdUndeclared c.attrs inst = [] := (tdUndeclared_eq_nil_iff c.attrs inst).mpr (hdecl rfl)
    rw [hu] at hex
    refine ⟨res, ?_, hres⟩
    unfold hunTD at hoff ⊢
    exact (hstTDWith_forbid_ok_iff st ci c _ _).mpr ⟨hoff, hex⟩

end GenHook
end CattrsModel
