import CattrsModel.GenHook.RoundTrip
/-!
# `omit_if_default` compares with the default — it does not test truthiness

The generated guard is `if instance.x != default:` (`!= factory()` for a factory default).  For the defaults people write
as `factory=list` / `dict` / `set` / `frozenset` / `tuple` the default is an empty collection, which is *falsy* — but so are
`None`, `0`, `""`, `False` and the empty collections of the other classes, and none of those `==` it.  The lemmas below
say exactly which values `==` each empty builtin collection (model `pyEqD` of Python `==`), hence exactly which values an
`omit_if_default` attribute with such a default drops.
-/
namespace CattrsModel
namespace GenHook

theorem pyEqD_empty_list (v : Obj) : pyEqD v (.coll .list []) = true ↔ v = .coll .list [] := by
  cases v with
  | coll k xs =>
    cases k <;> cases xs <;> simp [pyEqD, eqListD, subsetD, CK.isSet]
  | _ => simp [pyEqD, Obj.pyEq, Obj.num2?]

theorem pyEqD_empty_tuple (v : Obj) : pyEqD v (.coll .tuple []) = true ↔ v = .coll .tuple [] := by
  cases v with
  | coll k xs =>
    cases k <;> cases xs <;> simp [pyEqD, eqListD, subsetD, CK.isSet]
  | _ => simp [pyEqD, Obj.pyEq, Obj.num2?]

theorem pyEqD_empty_dict (v : Obj) : pyEqD v (.dict []) = true ↔ v = .dict [] := by
  cases v with
  | dict kvs => cases kvs <;> simp [pyEqD, subDictD]
  | _ => simp [pyEqD, Obj.pyEq, Obj.num2?]

/-- `set() == frozenset()` in Python: an empty set default is `==` to the empty set of either class, to nothing else -/
theorem pyEqD_empty_set (v : Obj) (k0 : CK) (hk0 : k0.isSet = true) :
    pyEqD v (.coll k0 []) = true ↔ ∃ k, k.isSet = true ∧ v = .coll k [] := by
  cases v with
  | coll k xs =>
    cases k <;> cases k0 <;> cases xs <;> simp_all [pyEqD, eqListD, subsetD, CK.isSet]
  | _ => simp [pyEqD, Obj.pyEq, Obj.num2?]

/-- the values Python calls falsy that are NOT `==` to an empty list -/
theorem falsy_ne_empty_list :
    ∀ v ∈ [Obj.none, .int 0, .flt 0, .bool false, .str "", .bytes "", .coll .tuple [], .coll .set [], .dict []],
      Obj.truthy v = false ∧ pyEqD v (.coll .list []) = false := by
  decide

theorem falsy_ne_empty_dict :
    ∀ v ∈ [Obj.none, .int 0, .flt 0, .bool false, .str "", .bytes "", .coll .tuple [], .coll .list [], .coll .set []],
      Obj.truthy v = false ∧ pyEqD v (.dict []) = false := by
  decide

/-- the guard a "cheaper" generator would emit for an empty-collection factory: `if instance.x:` -/
def emittedByTruthiness (hc : HookCfg) (a : Attr) (v : Obj) : Bool := !(oidApplies hc a && !Obj.truthy v)

/-- in a list whose first components are distinct, the second component is a function of the first -/
theorem zip_functional {α β : Type} : ∀ (l : List α) (r : List β) (a : α) (x y : β), l.Nodup →
    (a, x) ∈ l.zip r → (a, y) ∈ l.zip r → x = y := by
  intro l
  induction l with
  | nil => intro r a x y _ h; simp at h
  | cons b l ih =>
    intro r a x y hnd hx hy
    cases r with
    | nil => simp at hx
    | cons c r =>
      simp only [List.zip_cons_cons, List.mem_cons, Prod.mk.injEq] at hx hy
      have hnb : b ∉ l := (List.nodup_cons.mp hnd).1
      rcases hx with ⟨rfl, rfl⟩ | hx
      · rcases hy with ⟨_, rfl⟩ | hy
        · rfl
        · exact absurd (List.of_mem_zip hy).1 hnb
      · rcases hy with ⟨rfl, _⟩ | hy
        · exact absurd (List.of_mem_zip hx).1 hnb
        · exact ih r a x y (List.nodup_cons.mp hnd).2 hx hy

theorem nodup_map_inj {α β : Type} (f : α → β) : ∀ (l : List α), (l.map f).Nodup →
    ∀ x ∈ l, ∀ y ∈ l, f x = f y → x = y := by
  intro l
  induction l with
  | nil => intro _ x hx; simp at hx
  | cons a l ih =>
    intro hnd x hx y hy hxy
    simp only [List.map_cons, List.nodup_cons, List.mem_map, not_exists, not_and] at hnd
    simp only [List.mem_cons] at hx hy
    rcases hx with rfl | hx <;> rcases hy with rfl | hy
    · rfl
    · exact absurd hxy.symm (hnd.1 y hy)
    · exact absurd hxy (hnd.1 x hx)
    · exact ih hnd.2 x hx y hy hxy

theorem nodup_of_nodup_map {α β : Type} (f : α → β) : ∀ (l : List α), (l.map f).Nodup → l.Nodup := by
  intro l
  induction l with
  | nil => intro _; exact List.nodup_nil
  | cons a l ih =>
    intro hnd
    simp only [List.map_cons, List.nodup_cons, List.mem_map, not_exists, not_and] at hnd
    exact List.nodup_cons.mpr ⟨fun ha => hnd.1 a ha rfl, ih hnd.2⟩

end GenHook
end CattrsModel
