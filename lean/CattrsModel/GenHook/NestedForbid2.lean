import CattrsModel.GenHook.NestedForbid
import CattrsModel.GenHook.PerHook
/-!
# Nesting and `forbid_extra_keys`: the forbid check on arbitrary payloads; fuel monotonicity of `stTy`
-/
namespace CattrsModel
namespace GenHook

/-! ### the forbid check of the class templates, any payload -/

theorem hstClsD_forbid_ok_iff_any (st : StFn) (ci : Nat) (c : GCls) (o : Obj) (y : Obj) :
    hstClsD st ci true c o = .ok y ↔
      (hstClsD st ci false c o = .ok y ∧ extrasOf (allowedKeys c.hc c.attrs) o = some []) := by
  simp only [hstClsD, if_true, Bool.false_eq_true, if_false]
  split
  · simp
  · cases hex : extrasOf (allowedKeys c.hc c.attrs) o with
    | none => simp
    | some ex =>
      cases ex with
      | nil => simp
      | cons k ks => simp

theorem hstClsF_forbid_ok_iff_any (st : StFn) (ci : Nat) (c : GCls) (o : Obj) (y : Obj) :
    hstClsF st ci true c o = .ok y ↔
      (hstClsF st ci false c o = .ok y ∧ extrasOf (allowedKeys c.hc c.attrs) o = some []) := by
  simp only [hstClsF, if_true, Bool.false_eq_true, if_false]
  split
  · simp
  · cases hex : extrasOf (allowedKeys c.hc c.attrs) o with
    | none => simp
    | some ex =>
      cases ex with
      | nil => simp
      | cons k ks => simp

theorem hstClsWith_forbid_ok_iff_any (st : StFn) (ci : Nat) (c : GCls) (o : Obj) (y : Obj) :
    hstClsWith true st ci c o = .ok y ↔
      (hstClsWith false st ci c o = .ok y ∧ extrasOf (allowedKeys c.hc c.attrs) o = some []) := by
  unfold hstClsWith
  split
  · exact hstClsD_forbid_ok_iff_any st ci c o y
  · exact hstClsF_forbid_ok_iff_any st ci c o y

/-- the hook generated with flag `fb`: succeeds iff the non-forbidding hook does and (when `fb`) the check passes -/
theorem hstClsWith_flag_iff (fb : Bool) (st : StFn) (ci : Nat) (c : GCls) (o : Obj) (y : Obj) :
    hstClsWith fb st ci c o = .ok y ↔
      (hstClsWith false st ci c o = .ok y ∧
        (fb && (match extrasOf (allowedKeys c.hc c.attrs) o with | none => true | some ex => !ex.isEmpty)) = false) := by
  cases fb with
  | false => simp
  | true =>
    rw [hstClsWith_forbid_ok_iff_any]
    cases hex : extrasOf (allowedKeys c.hc c.attrs) o with
    | none => simp
    | some ex => cases ex <;> simp

theorem hstTDWith_flag_iff (fb : Bool) (st : StFn) (ci : Nat) (c : GCls) (kvs : List (Obj × Obj)) (y : Obj) :
    hstTDWith fb st ci c (.dict kvs) = .ok y ↔
      (hstTDWith false st ci c (.dict kvs) = .ok y ∧
        (fb && !(extraKeys (tdAllowed c.hc c.attrs) kvs).isEmpty) = false) := by
  cases fb with
  | false => simp
  | true =>
    rw [hstTDWith_forbid_ok_iff]
    cases extraKeys (tdAllowed c.hc c.attrs) kvs <;> simp

/-! ### handlers that agree on successes -/

theorem attrLe_of (st st' : StFn) (hc : HookCfg) (o : Obj) (a : Attr)
    (h : (ovOf hc a).sh = none → ∀ x y, pyGet o (keyName hc a) = some x → st a.ty x = .ok y → st' a.ty x = .ok y) :
    AttrLe st st' hc o a := by
  intro x y hx hy
  cases hs : (ovOf hc a).sh with
  | none => simp only [attrSt, hs] at hy ⊢; exact h hs x y hx hy
  | some m => simp only [attrSt, hs] at hy ⊢; exact hy

theorem tdAttrLe_of (st st' : StFn) (hc : HookCfg) (kvs : List (Obj × Obj)) (a : Attr)
    (h : (ovOf hc a).sh = none → ∀ x y, dlookup kvs (.str (tdKey hc a)) = some x → st a.ty x = .ok y → st' a.ty x = .ok y) :
    TDAttrLe st st' hc kvs a := by
  intro x y hx hy
  cases hs : (ovOf hc a).sh with
  | none => simp only [attrSt, hs] at hy ⊢; exact h hs x y hx hy
  | some m => simp only [attrSt, hs] at hy ⊢; exact hy

/-! ### fuel: a success is a success at every larger budget -/

theorem stTy_succ (g : GWorld) : ∀ (n : Nat) (t : Option Ty) (p y : Obj), stTy g n t p = .ok y → stTy g (n + 1) t p = .ok y := by
  intro n
  induction n with
  | zero => intro t p y h; simp [stTy] at h
  | succ n ih =>
    intro t p y h
    cases t with
    | none => simpa [stTy] using h
    | some t =>
      cases ht : tyHasCls t with
      | false => rw [stTy_leaf_fuel g (n + 1) ht n]; exact h
      | true =>
      rcases tyHasCls_cases ht with ⟨c, rfl⟩ | ⟨c, rfl⟩ | ⟨t', rfl, ht'⟩ | ⟨k, t', rfl, ht'⟩ | ⟨k, t', rfl, ht'⟩ | ⟨k, kt, vt, rfl⟩ | ⟨ts, rfl⟩
      · cases hk : g.classes[c]? with
        | none => rw [stTy_cls_none g n hk] at h; cases h
        | some k =>
          rw [stTy_cls g n hk] at h
          rw [stTy_cls g (n + 1) hk]
          exact hstClsWith_transfer (fun a _ _ => attrLe_of _ _ _ _ _ (fun _ x y _ hy => ih _ x y hy)) h
      · cases hk : g.classes[c]? with
        | none => rw [stTy_td_none g n hk] at h; cases h
        | some k =>
          rw [stTy_td g n hk] at h
          rw [stTy_td g (n + 1) hk]
          obtain ⟨kvs, rfl⟩ := hstTDWith_ok_dict h
          exact (hstTDWith_transfer (fun a _ _ => tdAttrLe_of _ _ _ _ _ (fun _ x y _ hy => ih _ x y hy)) h).1
      · by_cases hp : p = .none
        · subst hp; rw [stTy_opt_none g n ht'] at h; rw [stTy_opt_none g (n + 1) ht']; exact h
        · rw [stTy_opt_some g n ht' hp] at h; rw [stTy_opt_some g (n + 1) ht' hp]; exact ih _ _ _ h
      · rw [stTy_wrap g n ht'] at h; rw [stTy_wrap g (n + 1) ht']; exact ih _ _ _ h
      · obtain ⟨xs, hi, hitems⟩ := stTy_coll_ok_items g n ht' k h
        rw [stTy_coll_congr g g n (n + 1) ht' k hi rfl rfl
          (List.map_congr_left (fun x hx => by
            obtain ⟨v, hv⟩ := hitems x hx
            rw [hv, ih _ _ _ hv]))]
        exact h
      · simp [stTy, ht] at h
      · simp [stTy, ht] at h

/-- **Fuel sufficiency for structuring**: once the budget suffices for a payload, the result is the same at every
larger budget. -/
theorem stTy_mono (g : GWorld) {n m : Nat} (hnm : n ≤ m) {t : Option Ty} {p y : Obj} (h : stTy g n t p = .ok y) :
    stTy g m t p = .ok y := by
  induction hnm with
  | refl => exact h
  | step _ ih => exact stTy_succ g _ t p y ih

end GenHook
end CattrsModel
