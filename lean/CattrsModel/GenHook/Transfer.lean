import CattrsModel.GenHook.ForbidLemmas
/-!
# Changing the handlers of the attribute types under a structure hook

A structure hook that succeeds called every handler it needed successfully; handlers that agree with the
given ones on those calls give the same result (`*_transfer`).  A hook that succeeds structured the entry of
every handled attribute whose key is present (`*_ok_reads`).  Used for: fuel monotonicity of `stTy`, and the
forbidding world vs. the same world with forbidding switched off (C10 at every depth).
-/
namespace CattrsModel
namespace GenHook

/-- handlers `st'` answer as `st` wherever `st` succeeds on the entry of attribute `a` in payload `o` -/
def AttrLe (st st' : StFn) (hc : HookCfg) (o : Obj) (a : Attr) : Prop :=
  ∀ x y, pyGet o (keyName hc a) = some x → attrSt st (ovOf hc a) a x = .ok y → attrSt st' (ovOf hc a) a x = .ok y

theorem step_transfer {st st' : StFn} {hc : HookCfg} {fa : Bool} {o : Obj} {a : Attr} (hT : AttrLe st st' hc o a)
    (hne : ∀ e, step st hc fa o a ≠ .err e) : step st' hc fa o a = step st hc fa o a := by
  simp only [step] at hne ⊢
  cases hg : pyGet o (keyName hc a) with
  | none => rfl
  | some x =>
    cases hs : attrSt st (ovOf hc a) a x with
    | ok v => simp only [hT x v hg hs, hs]
    | error e =>
      rw [hg] at hne
      simp only [hs] at hne
      cases hd : a.hasDefault with
      | false => simp [hd] at hne
      | true =>
        simp only [hd, if_true] at hne ⊢
        cases hp : pyContains o (keyName hc a) with
        | none => rfl
        | some b =>
          cases b with
          | false => rfl
          | true => simp [hp] at hne

theorem phase_transfer {st st' : StFn} {hc : HookCfg} {fa : Bool} {o : Obj} (sel : Attr → Bool) :
    ∀ (as : List Attr), (∀ a ∈ as, sel a = true → AttrLe st st' hc o a) → (phase st hc fa o sel as).2 = [] →
      phase st' hc fa o sel as = phase st hc fa o sel as := by
  intro as
  induction as with
  | nil => intro _ _; rfl
  | cons a as ih =>
    intro hT hnil
    have ihT := fun b hb => hT b (List.mem_cons_of_mem _ hb)
    simp only [phase] at hnil ⊢
    by_cases hs : sel a = true
    · simp only [hs, Bool.not_true, Bool.false_eq_true, if_false] at hnil ⊢
      have hne : ∀ e, step st hc fa o a ≠ .err e := by
        intro e he; rw [he] at hnil; simp at hnil
      rw [step_transfer (hT a (List.mem_cons_self ..) hs) hne]
      cases hstep : step st hc fa o a with
      | skip => rw [hstep] at hnil; exact ih ihT hnil
      | val v => rw [hstep] at hnil; simp only at hnil ⊢; rw [ih ihT hnil]
      | err e => exact absurd hstep (hne e)
      | bare => rw [hstep] at hnil; simp at hnil
    · simp only [hs, Bool.not_false, if_true] at hnil ⊢
      exact ih ihT hnil

/-- a phase without errors structured the entry of every selected attribute whose key is present -/
theorem phase_ok_reads {st : StFn} {hc : HookCfg} {fa : Bool} {o : Obj} (sel : Attr → Bool) :
    ∀ (as : List Attr), (phase st hc fa o sel as).2 = [] → ∀ a ∈ as, sel a = true → ∀ x, pyGet o (keyName hc a) = some x →
      ∃ v, attrSt st (ovOf hc a) a x = .ok v := by
  intro as
  induction as with
  | nil => intro _ a ha; cases ha
  | cons b as ih =>
    intro hnil a ha hsa x hx
    simp only [phase] at hnil
    by_cases hs : sel b = true
    · simp only [hs, Bool.not_true, Bool.false_eq_true, if_false] at hnil
      have hrest : (phase st hc fa o sel as).2 = [] := by
        cases hstep : step st hc fa o b with
        | skip => rw [hstep] at hnil; exact hnil
        | val v => rw [hstep] at hnil; exact hnil
        | err e => rw [hstep] at hnil; simp at hnil
        | bare => rw [hstep] at hnil; simp at hnil
      rcases List.mem_cons.mp ha with rfl | ha'
      · cases o with
        | dict kvs =>
          simp only [pyGet] at hx
          cases hat : attrSt st (ovOf hc a) a x with
          | ok v => exact ⟨v, rfl⟩
          | error e =>
            exfalso
            have : step st hc fa (.dict kvs) a = .err e := by
              simp [step, pyGet, pyContains, dhas, hx, hat]
            rw [this] at hnil; simp at hnil
        | _ => simp [pyGet] at hx
      · exact ih hrest a ha' hsa x hx
    · simp only [hs, Bool.not_false, if_true] at hnil
      rcases List.mem_cons.mp ha with rfl | ha'
      · exact absurd hsa hs
      · exact ih hnil a ha' hsa x hx

theorem dropBare_nil {l : List StepErr} (h : dropBare l = []) : l = [] := by
  cases l <;> simp_all [dropBare]

end GenHook
end CattrsModel
