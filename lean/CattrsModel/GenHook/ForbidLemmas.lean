import CattrsModel.GenHook.Lemmas
/-!
# forbid_extra_keys: what the structure templates read of the payload, and what the check adds
-/
namespace CattrsModel
namespace GenHook

/-! ### the templates read the payload only through the accepted keys -/

theorem step_congr (st : StFn) (hc : HookCfg) (fa : Bool) {kvs kvs' : List (Obj × Obj)} (a : Attr)
    (h : dlookup kvs (.str (keyName hc a)) = dlookup kvs' (.str (keyName hc a))) :
    step st hc fa (.dict kvs) a = step st hc fa (.dict kvs') a := by
  simp only [step, pyGet, pyContains, dhas, h]

theorem phase_congr (st : StFn) (hc : HookCfg) (fa : Bool) (sel : Attr → Bool) {kvs kvs' : List (Obj × Obj)} :
    ∀ (as : List Attr), (∀ a ∈ as, sel a = true → dlookup kvs (.str (keyName hc a)) = dlookup kvs' (.str (keyName hc a))) →
      phase st hc fa (.dict kvs) sel as = phase st hc fa (.dict kvs') sel as := by
  intro as
  induction as with
  | nil => intro _; rfl
  | cons a as ih =>
    intro h
    have ih' := ih (fun b hb => h b (List.mem_cons_of_mem _ hb))
    simp only [phase]
    by_cases hs : sel a = true
    · rw [step_congr st hc fa a (h a (List.mem_cons_self ..) hs), ih']
    · simp only [hs, Bool.not_false, if_true]; simpa [hs] using ih'

/-- lookups of accepted keys coincide -/
def SameOnAccepted (hc : HookCfg) (attrs : List Attr) (kvs kvs' : List (Obj × Obj)) : Prop :=
  ∀ a ∈ attrs, included hc a = true → dlookup kvs (.str (keyName hc a)) = dlookup kvs' (.str (keyName hc a))

theorem hstClsD_off_congr (st : StFn) (ci : Nat) (c : GCls) {kvs kvs' : List (Obj × Obj)}
    (h : SameOnAccepted c.hc c.attrs kvs kvs') :
    hstClsD st ci false c (.dict kvs) = hstClsD st ci false c (.dict kvs') := by
  have e1 := phase_congr st c.hc false (fun a => included c.hc a && a.init) (kvs := kvs) (kvs' := kvs') c.attrs
    (fun a ha hs => h a ha (by simp only [Bool.and_eq_true] at hs; exact hs.1))
  have e2 := phase_congr st c.hc c.frozen (fun a => included c.hc a && !a.init) (kvs := kvs) (kvs' := kvs') c.attrs
    (fun a ha hs => h a ha (by simp only [Bool.and_eq_true] at hs; exact hs.1))
  simp only [hstClsD, e1, e2, Bool.false_eq_true, if_false]

theorem hstClsF_off_congr (st : StFn) (ci : Nat) (c : GCls) {kvs kvs' : List (Obj × Obj)}
    (h : SameOnAccepted c.hc c.attrs kvs kvs') :
    hstClsF st ci false c (.dict kvs) = hstClsF st ci false c (.dict kvs') := by
  have e : ∀ (fa : Bool) (sel : Attr → Bool), (∀ a, sel a = true → included c.hc a = true) →
      phase st c.hc fa (.dict kvs) sel c.attrs = phase st c.hc fa (.dict kvs') sel c.attrs :=
    fun fa sel hsel => phase_congr st c.hc fa sel c.attrs (fun a ha hs => h a ha (hsel a hs))
  have e1 := e false (fun a => included c.hc a && a.init && a.hasDefault) (by intro a; simp; intros; assumption)
  have e2 := e false (fun a => included c.hc a && a.init && !a.hasDefault && !a.kwOnly) (by intro a; simp; intros; assumption)
  have e3 := e false (fun a => included c.hc a && a.init && !a.hasDefault && a.kwOnly) (by intro a; simp; intros; assumption)
  have e4 := e c.frozen (fun a => included c.hc a && !a.init && !a.hasDefault) (by intro a; simp; intros; assumption)
  have e5 := e c.frozen (fun a => included c.hc a && !a.init && a.hasDefault) (by intro a; simp; intros; assumption)
  simp only [hstClsF, e1, e2, e3, e4, e5, Bool.false_eq_true, if_false]

theorem mem_allowedKeys {hc : HookCfg} {attrs : List Attr} {a : Attr} (ha : a ∈ attrs) (hi : included hc a = true) :
    Obj.str (keyName hc a) ∈ allowedKeys hc attrs := by
  simp only [allowedKeys, List.mem_map, List.mem_filter]
  exact ⟨a, ⟨ha, hi⟩, rfl⟩

theorem dlookup_filter_allowed (allowed : List Obj) (k : String) (hk : Obj.str k ∈ allowed) : ∀ (kvs : List (Obj × Obj)),
    dlookup (kvs.filter (fun kv => Obj.memPy kv.1 allowed)) (.str k) = dlookup kvs (.str k) := by
  intro kvs
  induction kvs with
  | nil => rfl
  | cons p rest ih =>
    obtain ⟨k', v⟩ := p
    rw [dlookup_cons_str]
    by_cases h : k' = .str k
    · subst h
      simp only [List.filter_cons, memPy_of_mem hk, if_true, dlookup_cons_str]
    · simp only [h, if_false, List.filter_cons]
      split
      · rw [dlookup_cons_str]; simp only [h, if_false]; exact ih
      · exact ih

/-- removing the entries whose key is not accepted does not change what the templates read -/
theorem sameOnAccepted_filter (hc : HookCfg) (attrs : List Attr) (kvs : List (Obj × Obj)) :
    SameOnAccepted hc attrs kvs (kvs.filter (fun kv => Obj.memPy kv.1 (allowedKeys hc attrs))) := by
  intro a ha hi
  exact (dlookup_filter_allowed _ _ (mem_allowedKeys ha hi) kvs).symm

/-- the reported extra keys are exactly the keys of the entries that are not accepted, in payload order -/
theorem extraKeys_eq_filter (allowed : List Obj) (kvs : List (Obj × Obj)) :
    extraKeys allowed kvs = keysOf (kvs.filter (fun kv => !Obj.memPy kv.1 allowed)) := by
  simp only [extraKeys, keysOf, List.filter_map]
  rfl

/-! ### what the forbid check adds -/

theorem isEmpty_eq_true_iff {α : Type} (l : List α) : l.isEmpty = true ↔ l = [] := by
  cases l <;> simp

theorem hstClsD_forbid_ok_iff (st : StFn) (ci : Nat) (c : GCls) (kvs : List (Obj × Obj)) (y : Obj) :
    hstClsD st ci true c (.dict kvs) = .ok y ↔
      (hstClsD st ci false c (.dict kvs) = .ok y ∧ extraKeys (allowedKeys c.hc c.attrs) kvs = []) := by
  simp only [hstClsD, extrasOf, if_true, Bool.false_eq_true, if_false]
  split
  · simp
  · by_cases hex : extraKeys (allowedKeys c.hc c.attrs) kvs = []
    · simp [hex]
    · have : (extraKeys (allowedKeys c.hc c.attrs) kvs).isEmpty = false := by
        cases h : extraKeys (allowedKeys c.hc c.attrs) kvs with
        | nil => exact absurd h hex
        | cons _ _ => rfl
      simp [hex, this]

theorem hstClsD_forbid_reports (st : StFn) (ci : Nat) (c : GCls) (kvs : List (Obj × Obj)) (y : Obj)
    (hok : hstClsD st ci false c (.dict kvs) = .ok y) (hex : extraKeys (allowedKeys c.hc c.attrs) kvs ≠ []) :
    hstClsD st ci true c (.dict kvs) = .error (.cve [(none, .extra ci (extraKeys (allowedKeys c.hc c.attrs) kvs))]) := by
  have hne : (extraKeys (allowedKeys c.hc c.attrs) kvs).isEmpty = false := by
    cases h : extraKeys (allowedKeys c.hc c.attrs) kvs with
    | nil => exact absurd h hex
    | cons _ _ => rfl
  simp only [hstClsD, extrasOf, if_true, Bool.false_eq_true, if_false] at hok ⊢
  split at hok
  · cases hok
  · rename_i hb
    simp only [hb, Bool.false_eq_true, if_false, hne]
    simp only [List.isEmpty_nil, if_true, List.append_nil] at hok
    split at hok
    · cases hok
    · rename_i he
      have : dropBare (phase st c.hc false (Obj.dict kvs) (fun a => included c.hc a && a.init) c.attrs).2 = [] := by
        cases h : dropBare (phase st c.hc false (Obj.dict kvs) (fun a => included c.hc a && a.init) c.attrs).2 with
        | nil => rfl
        | cons _ _ => rw [h] at he; simp at he
      simp [this]

theorem firstErr_none_iff (l : List StepErr) : firstErr l = none ↔ l = [] := by
  cases l with
  | nil => simp [firstErr]
  | cons p rest => obtain ⟨b, n, e⟩ := p; simp [firstErr]

theorem hstClsF_forbid_ok_iff (st : StFn) (ci : Nat) (c : GCls) (kvs : List (Obj × Obj)) (y : Obj) :
    hstClsF st ci true c (.dict kvs) = .ok y ↔
      (hstClsF st ci false c (.dict kvs) = .ok y ∧ extraKeys (allowedKeys c.hc c.attrs) kvs = []) := by
  simp only [hstClsF, extrasOf, if_true, Bool.false_eq_true, if_false]
  split
  · simp
  · by_cases hex : extraKeys (allowedKeys c.hc c.attrs) kvs = []
    · simp [hex]
    · have : (extraKeys (allowedKeys c.hc c.attrs) kvs).isEmpty = false := by
        cases h : extraKeys (allowedKeys c.hc c.attrs) kvs with
        | nil => exact absurd h hex
        | cons _ _ => rfl
      simp [hex, this]

theorem hstClsF_forbid_reports (st : StFn) (ci : Nat) (c : GCls) (kvs : List (Obj × Obj)) (y : Obj)
    (hok : hstClsF st ci false c (.dict kvs) = .ok y) (hex : extraKeys (allowedKeys c.hc c.attrs) kvs ≠ []) :
    hstClsF st ci true c (.dict kvs) = .error (.extra ci (extraKeys (allowedKeys c.hc c.attrs) kvs)) := by
  have hne : (extraKeys (allowedKeys c.hc c.attrs) kvs).isEmpty = false := by
    cases h : extraKeys (allowedKeys c.hc c.attrs) kvs with
    | nil => exact absurd h hex
    | cons _ _ => rfl
  simp only [hstClsF, extrasOf, if_true, Bool.false_eq_true, if_false] at hok ⊢
  split at hok
  · cases hok
  · rename_i hf
    simp_all

/-! ### TypedDicts -/

theorem hstTDD_forbid_ok_iff (st : StFn) (ci : Nat) (c : GCls) (kvs : List (Obj × Obj)) (y : Obj) :
    hstTDD st ci true c (.dict kvs) = .ok y ↔
      (hstTDD st ci false c (.dict kvs) = .ok y ∧ extraKeys (tdAllowed c.hc c.attrs) kvs = []) := by
  simp only [hstTDD, if_true, Bool.false_eq_true, if_false]
  by_cases hex : extraKeys (tdAllowed c.hc c.attrs) kvs = []
  · simp [hex]
  · have : (extraKeys (tdAllowed c.hc c.attrs) kvs).isEmpty = false := by
      cases h : extraKeys (tdAllowed c.hc c.attrs) kvs with
      | nil => exact absurd h hex
      | cons _ _ => rfl
    simp [hex, this]

theorem hstTDD_forbid_reports (st : StFn) (ci : Nat) (c : GCls) (kvs : List (Obj × Obj)) (y : Obj)
    (hok : hstTDD st ci false c (.dict kvs) = .ok y) (hex : extraKeys (tdAllowed c.hc c.attrs) kvs ≠ []) :
    hstTDD st ci true c (.dict kvs) = .error (.cve [(none, .extra ci (extraKeys (tdAllowed c.hc c.attrs) kvs))]) := by
  have hne : (extraKeys (tdAllowed c.hc c.attrs) kvs).isEmpty = false := by
    cases h : extraKeys (tdAllowed c.hc c.attrs) kvs with
    | nil => exact absurd h hex
    | cons _ _ => rfl
  simp only [hstTDD, if_true, Bool.false_eq_true, if_false, List.isEmpty_nil, List.append_nil] at hok ⊢
  split at hok
  · cases hok
  · rename_i he
    have : (hstTDStepsD st c.hc kvs c.attrs kvs).2 = [] := by
      cases h : (hstTDStepsD st c.hc kvs c.attrs kvs).2 with
      | nil => rfl
      | cons _ _ => rw [h] at he; simp at he
    simp [this, hne]

theorem hstTDF_forbid_ok_iff (st : StFn) (ci : Nat) (c : GCls) (kvs : List (Obj × Obj)) (y : Obj) :
    hstTDF st ci true c (.dict kvs) = .ok y ↔
      (hstTDF st ci false c (.dict kvs) = .ok y ∧ extraKeys (tdAllowed c.hc c.attrs) kvs = []) := by
  simp only [hstTDF, if_true, Bool.false_eq_true, if_false]
  split
  · simp
  · split
    · simp
    · by_cases hex : extraKeys (tdAllowed c.hc c.attrs) kvs = []
      · simp [hex]
      · have : (extraKeys (tdAllowed c.hc c.attrs) kvs).isEmpty = false := by
          cases h : extraKeys (tdAllowed c.hc c.attrs) kvs with
          | nil => exact absurd h hex
          | cons _ _ => rfl
        simp [hex, this]

theorem hstTDF_forbid_reports (st : StFn) (ci : Nat) (c : GCls) (kvs : List (Obj × Obj)) (y : Obj)
    (hok : hstTDF st ci false c (.dict kvs) = .ok y) (hex : extraKeys (tdAllowed c.hc c.attrs) kvs ≠ []) :
    hstTDF st ci true c (.dict kvs) = .error (.extra ci (extraKeys (tdAllowed c.hc c.attrs) kvs)) := by
  have hne : (extraKeys (tdAllowed c.hc c.attrs) kvs).isEmpty = false := by
    cases h : extraKeys (tdAllowed c.hc c.attrs) kvs with
    | nil => exact absurd h hex
    | cons _ _ => rfl
  simp only [hstTDF, if_true, Bool.false_eq_true, if_false] at hok ⊢
  split at hok
  · cases hok
  · split at hok
    · cases hok
    · simp_all

end GenHook
end CattrsModel
