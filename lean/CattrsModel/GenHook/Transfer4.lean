import CattrsModel.GenHook.Transfer3
/-!
# Changing the handlers under the TypedDict hooks (both templates)
-/
namespace CattrsModel
namespace GenHook

section TD
variable {st st' : StFn} {ci : Nat} {fb : Bool} {c : GCls} {kvs : List (Obj × Obj)} {y : Obj}

theorem hstTDD_ok_steps (h : hstTDD st ci fb c (.dict kvs) = .ok y) : (hstTDStepsD st c.hc kvs c.attrs kvs).2 = [] := by
  simp only [hstTDD] at h
  cases hr : (hstTDStepsD st c.hc kvs c.attrs kvs).2 with
  | nil => rfl
  | cons q rest => rw [hr] at h; simp at h

theorem hstTDD_transfer (hT : ∀ a ∈ c.attrs, tdIncluded c.hc a = true → TDAttrLe st st' c.hc kvs a)
    (h : hstTDD st ci fb c (.dict kvs) = .ok y) :
    hstTDD st' ci fb c (.dict kvs) = .ok y ∧
    ∀ a ∈ c.attrs, tdIncluded c.hc a = true → ∀ x, dlookup kvs (.str (tdKey c.hc a)) = some x →
      ∃ v, attrSt st (ovOf c.hc a) a x = .ok v := by
  obtain ⟨e1, e2⟩ := hstTDStepsD_transfer c.attrs kvs hT (hstTDD_ok_steps h)
  refine ⟨?_, e2⟩
  rw [← h]
  simp only [hstTDD, e1]

theorem hstTDF_transfer (hT : ∀ a ∈ c.attrs, tdIncluded c.hc a = true → TDAttrLe st st' c.hc kvs a)
    (h : hstTDF st ci fb c (.dict kvs) = .ok y) :
    hstTDF st' ci fb c (.dict kvs) = .ok y ∧
    ∀ a ∈ c.attrs, tdIncluded c.hc a = true → ∀ x, dlookup kvs (.str (tdKey c.hc a)) = some x →
      ∃ v, attrSt st (ovOf c.hc a) a x = .ok v := by
  simp only [hstTDF] at h
  cases h1 : hstTDStepsF st c.hc kvs (fun a => a.required) c.attrs kvs with
  | error e => rw [h1] at h; cases h
  | ok r1 =>
    rw [h1] at h
    simp only at h
    cases h2 : hstTDOptF st c.hc kvs c.attrs (tdPops c.hc c.attrs r1) with
    | error e => rw [h2] at h; cases h
    | ok r2 =>
      rw [h2] at h
      simp only at h
      obtain ⟨e1, f1⟩ := hstTDStepsF_transfer (fun a => a.required) c.attrs kvs r1 hT h1
      obtain ⟨e2, f2⟩ := hstTDOptF_transfer c.attrs (tdPops c.hc c.attrs r1) r2 hT h2
      refine ⟨?_, ?_⟩
      · simp only [hstTDF, e1, e2]; exact h
      · intro a ha hi x hx
        cases hr : a.required with
        | true => exact f1 a ha hi hr x hx
        | false => exact f2 a ha hi hr x hx

/-- handlers that answer as `st` wherever `st` succeeded on the payload's entries give the same result; and a
successful hook structured the entry of every handled key that is in the payload -/
theorem hstTDWith_transfer (hT : ∀ a ∈ c.attrs, tdIncluded c.hc a = true → TDAttrLe st st' c.hc kvs a)
    (h : hstTDWith fb st ci c (.dict kvs) = .ok y) :
    hstTDWith fb st' ci c (.dict kvs) = .ok y ∧
    ∀ a ∈ c.attrs, tdIncluded c.hc a = true → ∀ x, dlookup kvs (.str (tdKey c.hc a)) = some x →
      ∃ v, attrSt st (ovOf c.hc a) a x = .ok v := by
  unfold hstTDWith at h ⊢
  split
  · rename_i hd; rw [if_pos hd] at h; exact hstTDD_transfer hT h
  · rename_i hd; rw [if_neg hd] at h; exact hstTDF_transfer hT h

/-- a TypedDict hook never accepts a payload that is not a dict -/
theorem hstTDWith_ok_dict {o : Obj} (h : hstTDWith fb st ci c o = .ok y) : ∃ kvs, o = .dict kvs := by
  cases o with
  | dict kvs => exact ⟨kvs, rfl⟩
  | _ => unfold hstTDWith at h; split at h <;> simp [hstTDD, hstTDF] at h

end TD

end GenHook
end CattrsModel
