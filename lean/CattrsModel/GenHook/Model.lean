import CattrsModel.Conv.StructDetailed
/-!
# Customised generated hooks (`cattrs.gen`, `cattrs.gen.typeddicts`, `cattrs.cols.namedtuple_dict_*`)

The code generators of cattrs are folds over the attribute list of a class; what they emit depends
on the per-attribute overrides (`rename`, `omit`, `omit_if_default`, `struct_hook`, `unstruct_hook`)
and on the generator flags (`_cattrs_use_alias`, `_cattrs_include_init_false`,
`_cattrs_omit_if_default`, `_cattrs_forbid_extra_keys`, `_cattrs_detailed_validation`).
This file models the *generated functions* (what the emitted source computes), line by line:

* `hunCls` / `hstClsD` / `hstClsF` — `make_dict_unstructure_fn_from_attrs` and the two templates of
  `make_dict_structure_fn_from_attrs` (attrs classes, dataclasses, and NamedTuples through the
  pseudo-attributes of `cols._namedtuple_to_attrs`);
* `hunTD` / `hstTDD` / `hstTDF` — the TypedDict generators (copy, then patch);
* `pyQuote` / `pyUnquote` — `repr()` of a `str` (how key names are spliced into the source as
  `{kn!r}`) and the literal reader for what `repr` produces;
* `unTy` / `stTy` — how the class hooks are tied together through the field types (collections,
  optionals, wrappers), class-free types being delegated to the data-path model `Conv`;
* `expectedKeys`, `ConsistentCls`, `ConsistentTD` — the vocabulary of property C09.

The handlers of the component types are *parameters* of the class-level hooks (`un`, `st`): a
generated hook calls whatever hook the converter resolved for the attribute's type.
-/
namespace CattrsModel
namespace GenHook

/-! ## Class tables with hook configuration -/

/-- `cattrs.gen.override(...)`; the custom hooks used by the harness are the tagging pair
`tag_wrap n` / `tag_unwrap n` -/
structure Ovr where
  oid : Option Bool          -- omit_if_default
  rename : Option String
  omitted : Option Bool
  sh : Option Nat            -- struct_hook   = tag_unwrap n
  uh : Option Nat            -- unstruct_hook = tag_wrap n
  deriving DecidableEq, Repr, Inhabited

def Ovr.neutral : Ovr := { oid := none, rename := none, omitted := none, sh := none, uh := none }

inductive GKind where
  | attrs | dataclass | typeddict | namedtuple
  deriving DecidableEq, Repr, Inhabited

structure Attr where
  name : String
  alias : String
  ty : Option Ty             -- `none`: no annotation
  dflt : Dflt
  init : Bool
  required : Bool            -- TypedDict: is the key required
  kwOnly : Bool
  deriving Repr, Inhabited

/-- the options one pair of generated hooks was built with -/
structure HookCfg where
  ovs : List (String × Ovr)  -- `**kwargs`: attribute name ↦ override
  useAlias : Bool
  inclInitFalse : Bool
  oid : Bool                 -- `_cattrs_omit_if_default`
  forbid : Bool              -- `_cattrs_forbid_extra_keys`
  detailed : Bool            -- `_cattrs_detailed_validation`
  deriving Repr, Inhabited

structure GCls where
  kind : GKind
  frozen : Bool
  attrs : List Attr
  hc : HookCfg
  deriving Repr, Inhabited

structure GWorld where
  detailed : Bool            -- the converter's `detailed_validation` (collection hooks)
  classes : List GCls
  enums : List (List Obj)
  deriving Repr, Inhabited

def Attr.hasDefault (a : Attr) : Bool := a.dflt.value?.isSome

/-- `kwargs.get(a.name, neutral)` -/
def ovOf (hc : HookCfg) (a : Attr) : Ovr := (hc.ovs.lookup a.name).getD Ovr.neutral

/-- Is the attribute handled by the hooks?  (`if override.omitted: continue` /
`if override.omitted is None and not a.init and not _cattrs_include_init_false: continue`) -/
def included (hc : HookCfg) (a : Attr) : Bool :=
  let o := ovOf hc a
  if o.omitted == some true then false
  else !(o.omitted == none && !a.init && !hc.inclInitFalse)

/-- the dictionary key of an attribute: rename | alias (if `use_alias`) | name -/
def keyName (hc : HookCfg) (a : Attr) : String :=
  match (ovOf hc a).rename with
  | some r => r
  | none => if hc.useAlias then a.alias else a.name

/-- does `omit_if_default` apply to the attribute (it must have a default) -/
def oidApplies (hc : HookCfg) (a : Attr) : Bool :=
  let o := ovOf hc a
  a.hasDefault && ((hc.oid && o.oid != some false) || o.oid == some true)

mutual
/-- Python `==` at depth: numeric tower on leaves, sequences element-wise, sets and dicts regardless
of order, instances field-wise -/
def pyEqD : Obj → Obj → Bool
  | .coll k xs, .coll k' ys =>
      if k.isSet then k'.isSet && xs.length == ys.length && subsetD xs ys
      else k == k' && eqListD xs ys
  | .dict kvs, .dict kvs' => kvs.length == kvs'.length && subDictD kvs kvs'
  | .inst c fs, .inst c' fs' => c == c' && eqFieldsD fs fs'
  | x, y => Obj.pyEq x y
termination_by structural x => x
def eqListD : List Obj → List Obj → Bool
  | [], [] => true
  | x :: xs, y :: ys => pyEqD x y && eqListD xs ys
  | _, _ => false
termination_by structural x => x
def subsetD : List Obj → List Obj → Bool
  | [], _ => true
  | x :: xs, ys => ys.any (fun y => pyEqD x y) && subsetD xs ys
termination_by structural x => x
def subDictD : List (Obj × Obj) → List (Obj × Obj) → Bool
  | [], _ => true
  | (k, v) :: rest, kvs' => kvs'.any (fun p => Obj.pyEq p.1 k && pyEqD v p.2) && subDictD rest kvs'
termination_by structural x => x
def eqFieldsD : List (String × Obj) → List (String × Obj) → Bool
  | [], [] => true
  | (n, x) :: xs, (m, y) :: ys => n == m && pyEqD x y && eqFieldsD xs ys
  | _, _ => false
termination_by structural x => x
end

/-- `instance.a != default` is false (constant default, or the value a factory returns) -/
def defaultEq (a : Attr) (v : Obj) : Bool :=
  match a.dflt.value? with
  | some d => pyEqD v d
  | none => false

/-- keys accepted by the structure hook (`allowed_fields`) -/
def allowedKeys (hc : HookCfg) (attrs : List Attr) : List Obj :=
  (attrs.filter (included hc)).map (fun a => Obj.str (keyName hc a))

/-! ## Errors -/

/-- error trees: `cve` = `ClassValidationError` (children carry the attribute name of their
`AttributeValidationNote`), `ive` = `IterableValidationError` (index note),
`extra c ks` = `ForbiddenExtraKeysError(cl = class c, extra_fields = ks)`, `leaf` = anything else -/
inductive HErr where
  | leaf
  | extra (c : Nat) (ks : List Obj)
  | cve (es : List (Option String × HErr))
  | ive (es : List (Option Obj × HErr))
  deriving Repr, Inhabited

abbrev HRes := Except HErr Obj

mutual
def HErr.ofErr : Err → HErr
  | .leaf => .leaf
  | .extra ks => .extra 0 ks
  | .cve es => .cve (HErr.ofErrS es)
  | .ive es => .ive (HErr.ofErrO es)
def HErr.ofErrS : List (Option String × Err) → List (Option String × HErr)
  | [] => []
  | (n, e) :: rest => (n, HErr.ofErr e) :: HErr.ofErrS rest
def HErr.ofErrO : List (Option Obj × Err) → List (Option Obj × HErr)
  | [] => []
  | (n, e) :: rest => (n, HErr.ofErr e) :: HErr.ofErrO rest
end

/-! ## The custom hooks of the harness, and per-attribute handler resolution -/

/-- `tag_wrap n` -/
def tagWrap (n : Nat) (v : Obj) : Obj := .coll .list [.int n, v]

/-- `tag_unwrap n` -/
def tagUnwrap (n : Nat) : Obj → HRes
  | .coll .list [.int m, v] => if m == (n : Int) then .ok v else .error .leaf
  | _ => .error .leaf

abbrev UnFn := Option Ty → Obj → Obj
abbrev StFn := Option Ty → Obj → HRes

/-- `handler = override.unstruct_hook or converter.get_unstructure_hook(a.type)` -/
def attrUn (un : UnFn) (o : Ovr) (a : Attr) (v : Obj) : Obj :=
  match o.uh with
  | some n => tagWrap n v
  | none => un a.ty v

/-- `handler = override.struct_hook or find_structure_handler(a, a.type, converter)` -/
def attrSt (st : StFn) (o : Ovr) (a : Attr) (x : Obj) : HRes :=
  match o.sh with
  | some n => tagUnwrap n x
  | none => st a.ty x

/-! ## attrs classes, dataclasses, NamedTuples: the unstructure hook

```
def unstructure_C(instance):
  res = { 'k1': h1(instance.a1), ... }          # attributes that are not omit-if-default candidates
  if instance.a != default: res['k'] = h(instance.a)   # candidates, afterwards
  return res
```
Instances are `inst c fs` with `fs` in declaration order; attributes are paired with their values
positionally. -/

/-- entries of the dict literal (`post = false`) or of the trailing assignments (`post = true`) -/
def unPart (un : UnFn) (hc : HookCfg) (post : Bool) : List Attr → List (String × Obj) → List (Obj × Obj)
  | a :: as, (_, v) :: fs =>
      if included hc a && (if oidApplies hc a then post && !defaultEq a v else !post) then
        (Obj.str (keyName hc a), attrUn un (ovOf hc a) a v) :: unPart un hc post as fs
      else unPart un hc post as fs
  | _, _ => []

/-- the generated unstructure hook of an attrs class / dataclass / NamedTuple -/
def hunCls (un : UnFn) (hc : HookCfg) (attrs : List Attr) (fs : List (String × Obj)) : Obj :=
  .dict (mkDict (unPart un hc false attrs fs ++ unPart un hc true attrs fs))

/-- **Specification of the emitted key set** (property C09), written from the documentation:
per attribute in declaration order; skipped if omitted, or `init=False` without the include flag;
key = rename | alias | name; absent iff `omit_if_default` applies and the value equals the default.
The candidates of `omit_if_default` come after the others (they are assigned after the literal). -/
def expectedPart (hc : HookCfg) (post : Bool) : List Attr → List (String × Obj) → List String
  | a :: as, (_, v) :: fs =>
      let rest := expectedPart hc post as fs
      if !included hc a then rest
      else if oidApplies hc a then (if post && !defaultEq a v then keyName hc a :: rest else rest)
      else (if post then rest else keyName hc a :: rest)
  | _, _ => []

def expectedKeys (hc : HookCfg) (attrs : List Attr) (fs : List (String × Obj)) : List String :=
  expectedPart hc false attrs fs ++ expectedPart hc true attrs fs

/-- is the attribute's entry present in the emitted dict -/
def emitted (hc : HookCfg) (a : Attr) (v : Obj) : Bool := !(oidApplies hc a && defaultEq a v)

/-- **Specification of the round trip**: the instance the structure hook rebuilds from the output of the
unstructure hook for an instance with fields `fs`; `rt a v` is what the handler pair of attribute `a`
restores from `v`.  Attributes the hooks skip, and attributes dropped by `omit_if_default`, hold their
default (which, in the second case, is `==` to the original value). -/
def restored (hc : HookCfg) (rt : Attr → Obj → Obj) : List Attr → List (String × Obj) → List (String × Obj)
  | a :: as, (_, v) :: fs =>
      (a.name, if included hc a && emitted hc a v then rt a v else a.dflt.value?.getD .none) :: restored hc rt as fs
  | _, _ => []

/-- what the handler pair of an attribute restores, given what the handlers of its *type* restore (`rt`): a
pair of custom hooks (`tag_wrap n` / `tag_unwrap n`) restores the value itself -/
def rtWithHooks (hc : HookCfg) (rt : Attr → Obj → Obj) (a : Attr) (v : Obj) : Obj :=
  if (ovOf hc a).sh.isSome then v else rt a v

/-! ## attrs classes, dataclasses, NamedTuples: the structure hook -/

/-- `k in o` / `o[k]` / `o.keys()` on an arbitrary payload -/
def pyGet (o : Obj) (k : String) : Option Obj :=
  match o with
  | .dict kvs => dlookup kvs (.str k)
  | _ => none

/-- outcome of one attribute block of a template -/
inductive Step where
  | skip                      -- `if 'k' in o:` answered False
  | val (v : Obj)             -- converted value
  | err (e : HErr)            -- raised inside the `try` (detailed) / raised (fast)
  | bare                      -- the test `'k' in o` itself raised (outside any `try`)
  deriving Repr, Inhabited

/-- ```
[if 'kn' in o:]                 # only when the attribute has a default
    try: res['alias'] = handler(o['kn'])      # or: instance.a = ... (assign, after instantiation)
``` -/
def step (st : StFn) (hc : HookCfg) (frozenAssign : Bool) (o : Obj) (a : Attr) : Step :=
  let conv : Step :=
    match pyGet o (keyName hc a) with
    | none => .err .leaf
    | some x =>
      match attrSt st (ovOf hc a) a x with
      | .error e => .err e
      | .ok v => if frozenAssign then .err .leaf else .val v       -- FrozenInstanceError
  if a.hasDefault then
    match pyContains o (keyName hc a) with
    | none => .bare
    | some false => .skip
    | some true => conv
  else conv

/-- error list entries: `(bare?, note, error)` -/
abbrev StepErr := Bool × Option String × HErr

/-- the blocks of the selected attributes, in declaration order: values by attribute name, and every
error in evaluation order -/
def phase (st : StFn) (hc : HookCfg) (frozenAssign : Bool) (o : Obj) (sel : Attr → Bool) :
    List Attr → List (String × Obj) × List StepErr
  | [] => ([], [])
  | a :: as =>
    if !sel a then phase st hc frozenAssign o sel as
    else match step st hc frozenAssign o a with
      | .skip => phase st hc frozenAssign o sel as
      | .val v => ((a.name, v) :: (phase st hc frozenAssign o sel as).1, (phase st hc frozenAssign o sel as).2)
      | .err e => ((phase st hc frozenAssign o sel as).1, (false, some a.name, e) :: (phase st hc frozenAssign o sel as).2)
      | .bare => ((phase st hc frozenAssign o sel as).1, (true, none, .leaf) :: (phase st hc frozenAssign o sel as).2)

/-- `__cl(**res)`: every attribute in declaration order; a value that was not passed is the default.
`none`: a required argument is missing (`TypeError`). -/
def argOrDefault (res : List (String × Obj)) (a : Attr) : Option Obj :=
  match res.lookup a.name with
  | some v => some v
  | none => a.dflt.value?

def mkInst (res : List (String × Obj)) : List Attr → Option (List (String × Obj))
  | [] => some []
  | a :: as =>
    match argOrDefault res a, mkInst res as with
    | some v, some r => some ((a.name, v) :: r)
    | _, _ => none

/-- `instance.a = v` -/
def setField (fs : List (String × Obj)) (n : String) (v : Obj) : List (String × Obj) :=
  fs.map (fun p => if p.1 == n then (p.1, v) else p)

def setFields (fs : List (String × Obj)) (assigns : List (String × Obj)) : List (String × Obj) :=
  assigns.foldl (fun acc p => setField acc p.1 p.2) fs

/-- `set(o.keys()) - allowed_fields`; `none`: `o.keys()` raises -/
def extrasOf (allowed : List Obj) (o : Obj) : Option (List Obj) :=
  match o with
  | .dict kvs => some (extraKeys allowed kvs)
  | _ => none

def dropBare (es : List StepErr) : List (Option String × HErr) := es.map (·.2)

/-- **Detailed template** of `make_dict_structure_fn_from_attrs` (class number `ci` is reported in
`ForbiddenExtraKeysError.cl`). -/
def hstClsD (st : StFn) (ci : Nat) (forbid : Bool) (c : GCls) (o : Obj) : HRes :=
  let hc := c.hc
  let p1 := phase st hc false o (fun a => included hc a && a.init) c.attrs
  if p1.2.any (·.1) then .error .leaf
  else
    -- post_lines: the forbid check is outside any `try`
    match (if forbid then extrasOf (allowedKeys hc c.attrs) o else some []) with
    | none => .error .leaf
    | some ex =>
      let errs := dropBare p1.2 ++ (if ex.isEmpty then [] else [(none, HErr.extra ci ex)])
      if !errs.isEmpty then .error (.cve errs)
      else
        match mkInst p1.1 c.attrs with
        | none => .error (.cve [(none, .leaf)])
        | some fs =>
          -- post-instantiation lines: `init=False` attributes are assigned
          let p2 := phase st hc c.frozen o (fun a => included hc a && !a.init) c.attrs
          if p2.2.any (·.1) then .error .leaf
          else if !p2.2.isEmpty then .error (.cve (dropBare p2.2))
          else .ok (.inst ci (setFields fs p2.1))

/-- first error of a phase, if any -/
def firstErr : List StepErr → Option HErr
  | [] => none
  | (_, _, e) :: _ => some e

/-- **Fast template**: optional `__init__` arguments, then the forbid check, then the call (required
positional arguments in order, then keyword-only ones), then the `init=False` attributes (required
ones first); the first exception propagates. -/
def hstClsF (st : StFn) (ci : Nat) (forbid : Bool) (c : GCls) (o : Obj) : HRes :=
  let hc := c.hc
  let p1 := phase st hc false o (fun a => included hc a && a.init && a.hasDefault) c.attrs
  match firstErr p1.2 with
  | some e => .error e
  | none =>
    match (if forbid then extrasOf (allowedKeys hc c.attrs) o else some []) with
    | none => .error .leaf
    | some ex =>
      if !ex.isEmpty then .error (.extra ci ex)
      else
        let p2 := phase st hc false o (fun a => included hc a && a.init && !a.hasDefault && !a.kwOnly) c.attrs
        match firstErr p2.2 with
        | some e => .error e
        | none =>
          let p3 := phase st hc false o (fun a => included hc a && a.init && !a.hasDefault && a.kwOnly) c.attrs
          match firstErr p3.2 with
          | some e => .error e
          | none =>
            match mkInst (p2.1 ++ p3.1 ++ p1.1) c.attrs with
            | none => .error .leaf
            | some fs =>
              let p4 := phase st hc c.frozen o (fun a => included hc a && !a.init && !a.hasDefault) c.attrs
              match firstErr p4.2 with
              | some e => .error e
              | none =>
                let p5 := phase st hc c.frozen o (fun a => included hc a && !a.init && a.hasDefault) c.attrs
                match firstErr p5.2 with
                | some e => .error e
                | none => .ok (.inst ci (setFields fs (p4.1 ++ p5.1)))

/-- the structure hook for a given value of `_cattrs_forbid_extra_keys` (the template is selected by
`_cattrs_detailed_validation`) -/
def hstClsWith (forbid : Bool) (st : StFn) (ci : Nat) (c : GCls) (o : Obj) : HRes :=
  if c.hc.detailed then hstClsD st ci forbid c o else hstClsF st ci forbid c o

/-- the structure hook generated with the class's own configuration -/
def hstCls (st : StFn) (ci : Nat) (c : GCls) (o : Obj) : HRes := hstClsWith c.hc.forbid st ci c o

/-- what a failing forbid check reports: the class and the extra keys; under detailed validation as an
un-noted child of the class's `ClassValidationError` -/
def forbidReport (detailed : Bool) (ci : Nat) (ex : List Obj) : HErr :=
  if detailed then .cve [(none, .extra ci ex)] else .extra ci ex

/-! ## TypedDicts: copy, then patch -/

/-- TypedDict generators take no `use_alias`: key = rename | name -/
def tdKey (hc : HookCfg) (a : Attr) : String :=
  match (ovOf hc a).rename with
  | some r => r
  | none => a.name

def tdIncluded (hc : HookCfg) (a : Attr) : Bool := (ovOf hc a).omitted != some true

def tdAllowed (hc : HookCfg) (attrs : List Attr) : List Obj :=
  (attrs.filter (tdIncluded hc)).map (fun a => Obj.str (tdKey hc a))

/-- `instance['a']` raised `KeyError` inside an unstructure hook.  Unstructure hooks have no `try`, compute nothing
from the values they emit and are otherwise total in the model, so "the call raises" is "the marker occurs in the
output" (the driver answers `(err (leaf))` then).  Exact for consistent customisations (`ConsistentTD`: no later step
pops or assigns the final key of another attribute -- `C09_td_keyerror`); outside them the driver answers
`unmodelled` for an instance that lacks a required key. -/
def keyErrMark : Obj := .str (String.singleton (Char.ofNat 0xFFFE))

/-- ```
res = instance.copy()
res.pop('a', None)                              # omitted; also when renamed
[if 'a' in instance:] res['kn'] = h(instance['a'])    # skipped when h is the identity and not renamed
```
`unIsId t`: the hook the converter resolved for `t` *is* `cattrs.fns.identity`. -/
def hunTDSteps (un : UnFn) (unIsId : Option Ty → Bool) (hc : HookCfg) (inst : List (Obj × Obj)) :
    List Attr → List (Obj × Obj) → List (Obj × Obj)
  | [], res => res
  | a :: as, res =>
    let o := ovOf hc a
    if o.omitted == some true then hunTDSteps un unIsId hc inst as (dictDel res (.str a.name))
    else
      let res1 := if o.rename.isSome then dictDel res (.str a.name) else res
      if o.uh.isNone && unIsId a.ty && o.rename.isNone then hunTDSteps un unIsId hc inst as res1
      else
        match dlookup inst (.str a.name) with
        | none =>
          -- key absent: the assignment of a non-required key is guarded by `if 'a' in instance:`; that of a required
          -- key is not, and `instance['a']` raises `KeyError` (the raised exception is the entry `keyErrMark`)
          if a.required then hunTDSteps un unIsId hc inst as (dictSet res1 (.str (tdKey hc a)) keyErrMark)
          else hunTDSteps un unIsId hc inst as res1
        | some v => hunTDSteps un unIsId hc inst as (dictSet res1 (.str (tdKey hc a)) (attrUn un o a v))

def hunTD (un : UnFn) (unIsId : Option Ty → Bool) (hc : HookCfg) (attrs : List Attr) (inst : List (Obj × Obj)) : Obj :=
  .dict (hunTDSteps un unIsId hc inst attrs inst)

/-- is the generated TypedDict unstructure hook the identity function itself (the short-circuit) -/
def tdUnIsIdentity (unIsId : Option Ty → Bool) (hc : HookCfg) (attrs : List Attr) : Bool :=
  attrs.all (fun a => ovOf hc a == Ovr.neutral && unIsId a.ty)

/-- one block of the TypedDict structure templates on the running copy `res`:
```
[if 'kn' in o:]
    res['a'] = handler(o['kn'])
    del res['kn']                      # when renamed
``` -/
inductive TDStep where
  | skip
  | ok (res : List (Obj × Obj))
  | err (e : HErr)
  deriving Repr, Inhabited

def tdStep (st : StFn) (hc : HookCfg) (kvs : List (Obj × Obj)) (a : Attr) (res : List (Obj × Obj)) : TDStep :=
  let o := ovOf hc a
  if !a.required && !dhas kvs (.str (tdKey hc a)) then .skip
  else
    match dlookup kvs (.str (tdKey hc a)) with
    | none => .err .leaf
    | some x =>
      match attrSt st o a x with
      | .error e => .err e
      | .ok v =>
        let res1 := dictSet res (.str a.name) v
        match o.rename with
        | none => .ok res1
        | some r => if dhas res1 (.str r) then .ok (dictDel res1 (.str r)) else .err .leaf   -- `del`: KeyError

/-- detailed: every non-omitted attribute in order -/
def hstTDStepsD (st : StFn) (hc : HookCfg) (kvs : List (Obj × Obj)) :
    List Attr → List (Obj × Obj) → List (Obj × Obj) × List (Option String × HErr)
  | [], res => (res, [])
  | a :: as, res =>
    if !tdIncluded hc a then hstTDStepsD st hc kvs as res
    else match tdStep st hc kvs a res with
      | .skip => hstTDStepsD st hc kvs as res
      | .ok res' => hstTDStepsD st hc kvs as res'
      | .err e => ((hstTDStepsD st hc kvs as res).1, (some a.name, e) :: (hstTDStepsD st hc kvs as res).2)

def hstTDD (st : StFn) (ci : Nat) (forbid : Bool) (c : GCls) (o : Obj) : HRes :=
  match o with
  | .dict kvs =>
    let r := hstTDStepsD st c.hc kvs c.attrs kvs
    let ex := if forbid then extraKeys (tdAllowed c.hc c.attrs) kvs else []
    let errs := r.2 ++ (if ex.isEmpty then [] else [(none, HErr.extra ci ex)])
    if !errs.isEmpty then .error (.cve errs) else .ok (.dict r.1)
  | _ => .error (.cve [(none, .leaf)])               -- `isinstance(o, Mapping)` fails

/-- fast: the selected attributes in order, first error wins -/
def hstTDStepsF (st : StFn) (hc : HookCfg) (kvs : List (Obj × Obj)) (sel : Attr → Bool) :
    List Attr → List (Obj × Obj) → Except HErr (List (Obj × Obj))
  | [], res => .ok res
  | a :: as, res =>
    if !(tdIncluded hc a && sel a) then hstTDStepsF st hc kvs sel as res
    else match tdStep st hc kvs a res with
      | .skip => hstTDStepsF st hc kvs sel as res
      | .ok res' => hstTDStepsF st hc kvs sel as res'
      | .err e => .error e

/-- `res.pop('rename', None)` for the renamed non-required keys (emitted before their blocks) -/
def tdPops (hc : HookCfg) : List Attr → List (Obj × Obj) → List (Obj × Obj)
  | [], res => res
  | a :: as, res =>
    if tdIncluded hc a && !a.required then
      match (ovOf hc a).rename with
      | some r => tdPops hc as (dictDel res (.str r))
      | none => tdPops hc as res
    else tdPops hc as res

/-- a non-required block of the fast template: the rename is *not* deleted here (it was popped) -/
def tdStepOpt (st : StFn) (hc : HookCfg) (kvs : List (Obj × Obj)) (a : Attr) (res : List (Obj × Obj)) : TDStep :=
  if !dhas kvs (.str (tdKey hc a)) then .skip
  else
    match dlookup kvs (.str (tdKey hc a)) with
    | none => .err .leaf
    | some x =>
      match attrSt st (ovOf hc a) a x with
      | .error e => .err e
      | .ok v => .ok (dictSet res (.str a.name) v)

def hstTDOptF (st : StFn) (hc : HookCfg) (kvs : List (Obj × Obj)) :
    List Attr → List (Obj × Obj) → Except HErr (List (Obj × Obj))
  | [], res => .ok res
  | a :: as, res =>
    if !(tdIncluded hc a && !a.required) then hstTDOptF st hc kvs as res
    else match tdStepOpt st hc kvs a res with
      | .skip => hstTDOptF st hc kvs as res
      | .ok res' => hstTDOptF st hc kvs as res'
      | .err e => .error e

def hstTDF (st : StFn) (ci : Nat) (forbid : Bool) (c : GCls) (o : Obj) : HRes :=
  match o with
  | .dict kvs =>
    match hstTDStepsF st c.hc kvs (fun a => a.required) c.attrs kvs with
    | .error e => .error e
    | .ok r1 =>
      match hstTDOptF st c.hc kvs c.attrs (tdPops c.hc c.attrs r1) with
      | .error e => .error e
      | .ok r2 =>
        let ex := if forbid then extraKeys (tdAllowed c.hc c.attrs) kvs else []
        if !ex.isEmpty then .error (.extra ci ex) else .ok (.dict r2)
  | _ => .error .leaf

def hstTDWith (forbid : Bool) (st : StFn) (ci : Nat) (c : GCls) (o : Obj) : HRes :=
  if c.hc.detailed then hstTDD st ci forbid c o else hstTDF st ci forbid c o

def hstTD (st : StFn) (ci : Nat) (c : GCls) (o : Obj) : HRes := hstTDWith c.hc.forbid st ci c o

/-! ## Consistent customisations (hypotheses of the round-trip theorems; decidable) -/

def nodupS : List String → Bool
  | [] => true
  | x :: xs => !xs.contains x && nodupS xs

/-- attrs / dataclass / NamedTuple: final keys of the handled attributes pairwise distinct, attribute
names distinct, whatever the hooks skip has a default (so `__init__` can run), custom hooks come as
inverse pairs, every `init=False` attribute has a default, and not the recorded region F25
(frozen class whose hooks assign an `init=False` attribute). -/
def ConsistentCls (frozen : Bool) (hc : HookCfg) (attrs : List Attr) : Bool :=
  nodupS ((attrs.filter (included hc)).map (keyName hc))
  && nodupS (attrs.map (·.name))
  && attrs.all (fun a => included hc a || a.hasDefault)
  && attrs.all (fun a => a.init || a.hasDefault)
  && attrs.all (fun a => (ovOf hc a).sh == (ovOf hc a).uh)
  && !(frozen && attrs.any (fun a => included hc a && !a.init))

/-- TypedDict: keys of the handled attributes pairwise distinct, names distinct, inverse hook pairs,
and not the recorded region F24 (a rename target that is a declared name). -/
def ConsistentTD (hc : HookCfg) (attrs : List Attr) : Bool :=
  nodupS ((attrs.filter (tdIncluded hc)).map (tdKey hc))
  && nodupS (attrs.map (·.name))
  && attrs.all (fun a => (ovOf hc a).sh == (ovOf hc a).uh)
  && attrs.all (fun a => !tdIncluded hc a || (match (ovOf hc a).rename with
      | some r => !(attrs.map (·.name)).contains r
      | none => true))

def GCls.consistent (c : GCls) : Bool :=
  if c.kind == .typeddict then ConsistentTD c.hc c.attrs else ConsistentCls c.frozen c.hc c.attrs

/-! ## Converter-level options (`Converter(omit_if_default=, forbid_extra_keys=, type_overrides=)`) -/

structure ConvOpts where
  oid : Bool
  forbid : Bool
  detailed : Bool
  tovs : List (Ty × Ovr)
  deriving Repr, Inhabited

/-- `{a.name: type_overrides[a.type] for a in fields if a.type in type_overrides}` (`teq`: equality
of types as dictionary keys) -/
def typeOverrides (teq : Ty → Ty → Bool) (tovs : List (Ty × Ovr)) : List Attr → List (String × Ovr)
  | [] => []
  | a :: as =>
    match a.ty with
    | none => typeOverrides teq tovs as
    | some t =>
      match tovs.find? (fun p => teq p.1 t) with
      | some p => (a.name, p.2) :: typeOverrides teq tovs as
      | none => typeOverrides teq tovs as

/-- the configuration `gen_(un)structure_attrs_fromdict` / `gen_(un)structure_typeddict` pass to the
generators -/
def convHc (teq : Ty → Ty → Bool) (co : ConvOpts) (kind : GKind) (attrs : List Attr) : HookCfg :=
  if kind == .typeddict then
    { ovs := [], useAlias := false, inclInitFalse := false, oid := false, forbid := co.forbid, detailed := co.detailed }
  else
    { ovs := typeOverrides teq co.tovs attrs, useAlias := false, inclInitFalse := false, oid := co.oid,
      forbid := co.forbid, detailed := co.detailed }

/-! ## Key quoting: `repr(str)` and the literal reader -/

def hexDigitC (n : Nat) : Char := if n < 10 then Char.ofNat (48 + n) else Char.ofNat (87 + n)

/-- `w` lower-case hex digits of `n`, most significant first -/
def hexN : Nat → Nat → List Char
  | 0, _ => []
  | w + 1, n => hexDigitC ((n / 16 ^ w) % 16) :: hexN w n

/-- `str.isprintable()` of a single character, exact below U+0100 (above, `false`: the escape is
still a correct literal, and the driver answers `unmodelled` when asked for the spelling) -/
def isPrintable (c : Char) : Bool :=
  (0x20 ≤ c.toNat && c.toNat < 0x7f) || (0xa1 ≤ c.toNat && c.toNat ≤ 0xff && c.toNat != 0xad)

/-- CPython `unicode_repr`, one character -/
def escChar (q : Char) (c : Char) : List Char :=
  if c == q || c == '\\' then ['\\', c]
  else if c == '\t' then ['\\', 't']
  else if c == '\n' then ['\\', 'n']
  else if c == '\r' then ['\\', 'r']
  else if isPrintable c then [c]
  else if c.toNat < 0x100 then '\\' :: 'x' :: hexN 2 c.toNat
  else if c.toNat < 0x10000 then '\\' :: 'u' :: hexN 4 c.toNat
  else '\\' :: 'U' :: hexN 8 c.toNat

/-- single quotes unless the string contains `'` and no `"` -/
def quoteChar (cs : List Char) : Char := if cs.contains '\'' && !cs.contains '"' then '"' else '\''

def escBody (q : Char) : List Char → List Char
  | [] => []
  | c :: cs => escChar q c ++ escBody q cs

/-- `repr(s)` for a `str` — what `{kn!r}` splices into the generated source -/
def pyQuote (s : String) : String :=
  let cs := s.toList
  String.ofList (quoteChar cs :: (escBody (quoteChar cs) cs ++ [quoteChar cs]))

def hexVal? (c : Char) : Option Nat :=
  if '0' ≤ c && c ≤ '9' then some (c.toNat - 48)
  else if 'a' ≤ c && c ≤ 'f' then some (c.toNat - 87)
  else none

def hexNum? : List Char → Option Nat
  | [] => some 0
  | c :: cs => match hexVal? c, hexNum? cs with
    | some d, some r => some (d * 16 ^ cs.length + r)
    | _, _ => none

/-- body of a short string literal delimited by `q`: up to the closing quote, which must end the text -/
def unescBody (q : Char) : List Char → Option (List Char)
  | [] => none
  | c :: rest =>
    if c == q then (if rest.isEmpty then some [] else none)
    else if c == '\n' || c == '\r' then none                    -- a short literal cannot span lines
    else if c == '\\' then
      match rest with
      | '\\' :: r => (unescBody q r).map ('\\' :: ·)
      | '\'' :: r => (unescBody q r).map ('\'' :: ·)
      | '"' :: r => (unescBody q r).map ('"' :: ·)
      | 'n' :: r => (unescBody q r).map ('\n' :: ·)
      | 't' :: r => (unescBody q r).map ('\t' :: ·)
      | 'r' :: r => (unescBody q r).map ('\r' :: ·)
      | 'x' :: a :: b :: r =>
          match hexNum? [a, b], unescBody q r with
          | some n, some t => some (Char.ofNat n :: t)
          | _, _ => none
      | 'u' :: a :: b :: c1 :: d :: r =>
          match hexNum? [a, b, c1, d], unescBody q r with
          | some n, some t => some (Char.ofNat n :: t)
          | _, _ => none
      | 'U' :: a :: b :: c1 :: d :: e :: f :: g :: h :: r =>
          match hexNum? [a, b, c1, d, e, f, g, h], unescBody q r with
          | some n, some t => some (Char.ofNat n :: t)
          | _, _ => none
      | _ => none
    else (unescBody q rest).map (c :: ·)

/-- the string a Python short string literal denotes (`ast.literal_eval`), for the escapes `repr` emits -/
def pyUnquote (s : String) : Option String :=
  match s.toList with
  | q :: rest => if q == '\'' || q == '"' then (unescBody q rest).map String.ofList else none
  | [] => none

/-- hook generation succeeds iff every spliced key is a well-formed literal -/
def genOk (hc : HookCfg) (attrs : List Attr) : Bool :=
  attrs.all (fun a => (pyUnquote (pyQuote (keyName hc a))).isSome && (pyUnquote (pyQuote a.name)).isSome)

/-! ## Tying the hooks together through the field types -/

mutual
def tyHasCls : Ty → Bool
  | .cls _ | .td _ => true
  | .coll _ t | .opt t | .wrap _ t => tyHasCls t
  | .map _ k v => tyHasCls k || tyHasCls v
  | .tupleHet ts => tyHasClsL ts
  | _ => false
def tyHasClsL : List Ty → Bool
  | [] => false
  | t :: ts => tyHasCls t || tyHasClsL ts
end

/-- the data-path world used for class-free types (enums; no classes: a class-free type never consults the class
table, and an instance met at an untyped / `Any` position is outside the model -- the driver answers `unmodelled`) -/
def GWorld.core (g : GWorld) : World := { classes := [], enums := g.enums }

def convCfg : Cfg := { gen := true, tupleStrat := false, detailed := false, forbid := false }

/-- result when the recursion budget is exhausted (the driver answers `unmodelled`) -/
def fuelMark : Obj := .str (String.singleton unmodelledMark)

/-- `converter.get_unstructure_hook(t) == identity` -/
def unIsIdTy (g : GWorld) : Nat → Option Ty → Bool
  | 0, _ => false
  | _ + 1, none => false
  | n + 1, some t =>
    match t with
    | .int | .float | .str | .bytes | .bool => true
    | .lit vs => !litHasEnum vs      -- (a literal containing enum members is unstructured by `self.unstructure`)
    | .wrap _ t' => unIsIdTy g n (some t')
    | .td c => (match g.classes[c]? with
        | some k => tdUnIsIdentity (unIsIdTy g n) k.hc k.attrs
        | none => false)
    | _ => false

/-- `converter.unstructure(x, unstructure_as=t)` with the customised hooks registered for the classes -/
def unTy (g : GWorld) : Nat → Option Ty → Obj → Obj
  | 0, _, _ => fuelMark
  | _ + 1, none, x => unAny g.core convCfg x
  | n + 1, some t, x =>
    if !tyHasCls t then un g.core convCfg t x
    else match t, x with
      | .cls c, .inst _ fs =>
        (match g.classes[c]? with
         | some k => hunCls (unTy g n) k.hc k.attrs fs
         | none => x)
      | .td c, .dict kvs =>
        (match g.classes[c]? with
         | some k => hunTD (unTy g n) (unIsIdTy g n) k.hc k.attrs kvs
         | none => x)
      | .opt _, .none => .none
      | .opt t', x => unTy g n (some t') x
      | .wrap _ t', x => unTy g n (some t') x
      | .coll k t', .coll _ xs => mkColl k.unstructTo (xs.map (unTy g n (some t')))
      | _, x => x

/-- detailed collection hook: every element is tried; failures carry their index -/
def collectD (w : World) (isSet : Bool) : Nat → List HRes → List Obj × List (Option Obj × HErr)
  | _, [] => ([], [])
  | ix, r :: rs =>
    match r with
    | .ok y =>
      if isSet && !hashable w y then ((collectD w isSet (ix + 1) rs).1, (some (.int ix), HErr.leaf) :: (collectD w isSet (ix + 1) rs).2)
      else (y :: (collectD w isSet (ix + 1) rs).1, (collectD w isSet (ix + 1) rs).2)
    | .error e => ((collectD w isSet (ix + 1) rs).1, (some (.int ix), e) :: (collectD w isSet (ix + 1) rs).2)

/-- fast collection hook: first error wins -/
def collectF : List HRes → Except HErr (List Obj)
  | [] => .ok []
  | r :: rs =>
    match r with
    | .error e => .error e
    | .ok y => match collectF rs with
      | .error e => .error e
      | .ok ys => .ok (y :: ys)

/-- `converter.structure(x, t)` with the customised hooks registered for the classes -/
def stTy (g : GWorld) : Nat → Option Ty → Obj → HRes
  | 0, _, _ => .error .leaf
  | _ + 1, none, x => .ok x
  | n + 1, some t, x =>
    if !tyHasCls t then
      (if g.detailed then
        (match stD g.core convCfg t x with
         | .ok v => .ok v
         | .error e => .error (HErr.ofErr e))
       else
        (match stF g.core convCfg t x with
         | some v => .ok v
         | none => .error .leaf))
    else match t with
      | .cls c =>
        (match g.classes[c]? with
         | some k => hstCls (stTy g n) c k x
         | none => .error .leaf)
      | .td c =>
        (match g.classes[c]? with
         | some k => hstTD (stTy g n) c k x
         | none => .error .leaf)
      | .opt t' => (match x with
         | .none => .ok .none
         | _ => stTy g n (some t') x)
      | .wrap _ t' => stTy g n (some t') x
      | .coll k t' =>
        (match iterItems x with
         | none => .error .leaf
         | some xs =>
           if g.detailed then
             let r := collectD g.core k.structTo.isSet 0 (xs.map (stTy g n (some t')))
             if !r.2.isEmpty then .error (.ive r.2) else .ok (mkColl k.structTo r.1)
           else
             match collectF (xs.map (stTy g n (some t'))) with
             | .error e => .error e
             | .ok ys => (match finishColl g.core k.structTo ys with
               | some v => .ok v
               | none => .error .leaf))
      | _ => .error .leaf

end GenHook
end CattrsModel
