import CattrsModel.GenHook.Transfer
/-!
# Changing the handlers under the class templates (attrs / dataclass / NamedTuple)
-/
namespace CattrsModel
namespace GenHook

section Cls
variable {st st' : StFn} {ci : Nat} {fb : Bool} {c : GCls} {o : Obj} {y : Obj}

theorem hstClsD_ok_phases (h : hstClsD st ci fb c o = .ok y) :
    (phase st c.hc false o (fun a => included c.hc a && a.init) c.attrs).2 = [] ∧
    (phase st c.hc c.frozen o (fun a => included c.hc a && !a.init) c.attrs).2 = [] := by
  simp only [hstClsD] at h
  generalize phase st c.hc false o (fun a => included c.hc a && a.init) c.attrs = p1 at h ⊢
  generalize phase st c.hc c.frozen o (fun a => included c.hc a && !a.init) c.attrs = p2 at h ⊢
  by_cases hb : (p1.2.any (·.1)) = true
  · simp [hb] at h
  · simp only [hb, Bool.false_eq_true, if_false] at h
    cases hex : (if fb = true then extrasOf (allowedKeys c.hc c.attrs) o else some []) with
    | none => rw [hex] at h; cases h
    | some ex =>
      rw [hex] at h
      simp only at h
      cases hp1 : p1.2 with
      | cons q rest => rw [hp1] at h; simp [dropBare] at h
      | nil =>
        refine ⟨rfl, ?_⟩
        cases hp2 : p2.2 with
        | nil => rfl
        | cons q rest =>
          exfalso
          rw [hp1, hp2] at h
          simp only [dropBare, List.map_nil, List.nil_append] at h
          cases hem : ex.isEmpty with
          | false => simp [hem] at h
          | true =>
            simp only [hem, if_true, List.isEmpty_nil, Bool.not_true, Bool.false_eq_true, if_false] at h
            cases hm : mkInst p1.1 c.attrs with
            | none => rw [hm] at h; cases h
            | some fs =>
              rw [hm] at h
              simp only at h
              split at h
              · cases h
              · simp at h

theorem hstClsD_transfer (hT : ∀ a ∈ c.attrs, included c.hc a = true → AttrLe st st' c.hc o a)
    (h : hstClsD st ci fb c o = .ok y) : hstClsD st' ci fb c o = .ok y := by
  obtain ⟨h1, h2⟩ := hstClsD_ok_phases h
  have e1 := phase_transfer (st := st) (st' := st') (fa := false) (fun a => included c.hc a && a.init) c.attrs
    (fun a ha hs => hT a ha (by simp only [Bool.and_eq_true] at hs; exact hs.1)) h1
  have e2 := phase_transfer (st := st) (st' := st') (fa := c.frozen) (fun a => included c.hc a && !a.init) c.attrs
    (fun a ha hs => hT a ha (by simp only [Bool.and_eq_true] at hs; exact hs.1)) h2
  rw [← h]
  simp only [hstClsD, e1, e2]

theorem hstClsD_ok_reads (h : hstClsD st ci fb c o = .ok y) :
    ∀ a ∈ c.attrs, included c.hc a = true → ∀ x, pyGet o (keyName c.hc a) = some x →
      ∃ v, attrSt st (ovOf c.hc a) a x = .ok v := by
  obtain ⟨h1, h2⟩ := hstClsD_ok_phases h
  intro a ha hi x hx
  cases hin : a.init with
  | true => exact phase_ok_reads _ c.attrs h1 a ha (by simp [hi, hin]) x hx
  | false => exact phase_ok_reads _ c.attrs h2 a ha (by simp [hi, hin]) x hx

theorem hstClsF_ok_phases (h : hstClsF st ci fb c o = .ok y) :
    (phase st c.hc false o (fun a => included c.hc a && a.init && a.hasDefault) c.attrs).2 = [] ∧
    (phase st c.hc false o (fun a => included c.hc a && a.init && !a.hasDefault && !a.kwOnly) c.attrs).2 = [] ∧
    (phase st c.hc false o (fun a => included c.hc a && a.init && !a.hasDefault && a.kwOnly) c.attrs).2 = [] ∧
    (phase st c.hc c.frozen o (fun a => included c.hc a && !a.init && !a.hasDefault) c.attrs).2 = [] ∧
    (phase st c.hc c.frozen o (fun a => included c.hc a && !a.init && a.hasDefault) c.attrs).2 = [] := by
  simp only [hstClsF] at h
  split at h
  · cases h
  · rename_i e1
    split at h
    · cases h
    · split at h
      · cases h
      · split at h
        · cases h
        · rename_i e2
          split at h
          · cases h
          · rename_i e3
            split at h
            · cases h
            · split at h
              · cases h
              · rename_i e4
                split at h
                · cases h
                · rename_i e5
                  exact ⟨(firstErr_none_iff _).mp e1, (firstErr_none_iff _).mp e2, (firstErr_none_iff _).mp e3,
                    (firstErr_none_iff _).mp e4, (firstErr_none_iff _).mp e5⟩

theorem hstClsF_transfer (hT : ∀ a ∈ c.attrs, included c.hc a = true → AttrLe st st' c.hc o a)
    (h : hstClsF st ci fb c o = .ok y) : hstClsF st' ci fb c o = .ok y := by
  obtain ⟨h1, h2, h3, h4, h5⟩ := hstClsF_ok_phases h
  have e : ∀ (fa : Bool) (sel : Attr → Bool), (∀ a, sel a = true → included c.hc a = true) →
      (phase st c.hc fa o sel c.attrs).2 = [] → phase st' c.hc fa o sel c.attrs = phase st c.hc fa o sel c.attrs :=
    fun fa sel hsel hnil => phase_transfer sel c.attrs (fun a ha hs => hT a ha (hsel a hs)) hnil
  have e1 := e _ _ (by intro a; simp; intros; assumption) h1
  have e2 := e _ _ (by intro a; simp; intros; assumption) h2
  have e3 := e _ _ (by intro a; simp; intros; assumption) h3
  have e4 := e _ _ (by intro a; simp; intros; assumption) h4
  have e5 := e _ _ (by intro a; simp; intros; assumption) h5
  rw [← h]
  simp only [hstClsF, e1, e2, e3, e4, e5]

theorem hstClsF_ok_reads (h : hstClsF st ci fb c o = .ok y) :
    ∀ a ∈ c.attrs, included c.hc a = true → ∀ x, pyGet o (keyName c.hc a) = some x →
      ∃ v, attrSt st (ovOf c.hc a) a x = .ok v := by
  obtain ⟨h1, h2, h3, h4, h5⟩ := hstClsF_ok_phases h
  intro a ha hi x hx
  cases hin : a.init with
  | true =>
    cases hd : a.hasDefault with
    | true => exact phase_ok_reads _ c.attrs h1 a ha (by simp [hi, hin, hd]) x hx
    | false =>
      cases hk : a.kwOnly with
      | false => exact phase_ok_reads _ c.attrs h2 a ha (by simp [hi, hin, hd, hk]) x hx
      | true => exact phase_ok_reads _ c.attrs h3 a ha (by simp [hi, hin, hd, hk]) x hx
  | false =>
    cases hd : a.hasDefault with
    | false => exact phase_ok_reads _ c.attrs h4 a ha (by simp [hi, hin, hd]) x hx
    | true => exact phase_ok_reads _ c.attrs h5 a ha (by simp [hi, hin, hd]) x hx

/-- handlers that answer as `st` wherever `st` succeeded on the payload's entries give the same result -/
theorem hstClsWith_transfer (hT : ∀ a ∈ c.attrs, included c.hc a = true → AttrLe st st' c.hc o a)
    (h : hstClsWith fb st ci c o = .ok y) : hstClsWith fb st' ci c o = .ok y := by
  unfold hstClsWith at h ⊢
  split
  · rename_i hd; rw [if_pos hd] at h; exact hstClsD_transfer hT h
  · rename_i hd; rw [if_neg hd] at h; exact hstClsF_transfer hT h

/-- a successful hook structured the entry of every handled attribute whose key is in the payload -/
theorem hstClsWith_ok_reads (h : hstClsWith fb st ci c o = .ok y) :
    ∀ a ∈ c.attrs, included c.hc a = true → ∀ x, pyGet o (keyName c.hc a) = some x →
      ∃ v, attrSt st (ovOf c.hc a) a x = .ok v := by
  unfold hstClsWith at h
  split at h
  · exact hstClsD_ok_reads h
  · exact hstClsF_ok_reads h

end Cls

end GenHook
end CattrsModel
