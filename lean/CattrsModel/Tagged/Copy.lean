import CattrsModel.Tagged.Reconfigure
/-!
# Converters produced by `copy()`: the union registry as a dict OBJECT

`BaseConverter.__init__` makes one dict, stores it in the attribute `_union_struct_registry`, and registers the union
entry of the structure dispatch as

    (lambda t: is_union_type(t) and t in self._union_struct_registry,   -- the ATTRIBUTE, read on every call
     self._union_struct_registry.__getitem__,                           -- bound ONCE, to the dict made here
     True)

`register_structure_hook(U, f)` writes `self._union_struct_registry[U] = f` (the attribute again).  `copy()` builds
`res = self.__class__(…)` (its own dict, its own bound factory), copies the user's handlers
(`FunctionDispatch.copy_to`: `other._handler_pairs = self._handler_pairs[:-skip] + other._handler_pairs`), registers the
source's singledispatch entries into the copy's, and ends in
`res._union_struct_registry.update(self._union_struct_registry)` — an update IN PLACE, so that attribute and bound
factory of the copy keep denoting the same dict.

`Disp` (`Tagged/Model.lean`) keeps the registry by value and cannot tell these apart.  Here dicts live at locations of a
small heap; a converter knows the location its attribute denotes (`attr`) and the location its factory was bound to
(`bound`).  `kCopy` is the code; `kCopyRebind` is what "give the copy its own dict by assignment" would be.
-/
namespace CattrsModel.Tagged
open CattrsModel

variable {T H : Type} [DecidableEq T]

/-- what asking a dispatcher for the hook of a type produces -/
inductive Res (H : Type) where
  | hook (h : H)
  | keyError          -- `dict.__getitem__` of a dict that does not hold the type: `KeyError` escapes from `dispatch`
  deriving Repr, DecidableEq

/-- dict objects by location -/
structure DHeap (T H : Type) where
  dict : Nat → List (T × H)
  next : Nat

def DHeap.write (h : DHeap T H) (l : Nat) (d : List (T × H)) : DHeap T H :=
  { h with dict := fun l' => if l' = l then d else h.dict l' }

/-- `{}`: a new dict object -/
def DHeap.alloc (h : DHeap T H) (d : List (T × H)) : DHeap T H × Nat :=
  ({ dict := fun l' => if l' = h.next then d else h.dict l', next := h.next + 1 }, h.next)

structure KConv (T H : Type) where
  single : T → Option H                 -- `_structure_func._single_dispatch`
  handlers : List (Handler T H)         -- `_structure_func._function_dispatch._handler_pairs`
  skip : Nat                            -- `_struct_copy_skip` = number of handlers `__init__` installed
  fallback : T → H
  attr : Nat                            -- the dict the attribute `_union_struct_registry` denotes
  bound : Nat                           -- the dict whose `__getitem__` is the union factory

/-- `FunctionDispatch.dispatch` with the union entry spelled out: the predicate reads the attribute's dict, the factory
the bound dict -/
def kFirstMatch (attrD boundD : List (T × H)) : List (Handler T H) → T → Option (Res H)
  | [], _ => Option.none
  | .pred p mk :: rest, t => if p t then some (.hook (mk t)) else kFirstMatch attrD boundD rest t
  | .unionRegistry :: rest, t =>
    if (regGet attrD t).isSome then
      (match regGet boundD t with
       | some h => some (.hook h)
       | Option.none => some .keyError)
    else kFirstMatch attrD boundD rest t

/-- `dispatch_without_caching(t)` (every registration and `copy_to` clear the caches) -/
def KConv.resolve (c : KConv T H) (h : DHeap T H) (t : T) : Res H :=
  match c.single t with
  | some f => .hook f
  | Option.none =>
    match kFirstMatch (h.dict c.attr) (h.dict c.bound) c.handlers t with
    | some r => r
    | Option.none => .hook (c.fallback t)

/-- the by-value reading of a converter: what `Tagged/Model.lean` and the C13 theorems talk about -/
def KConv.view (c : KConv T H) (h : DHeap T H) : Disp T H :=
  { single := c.single, direct := [], handlers := c.handlers, unionReg := h.dict c.attr, fallback := c.fallback }

/-- `__init__`: `base` = the handlers it installs, `single0` its singledispatch entries -/
def kInit (h : DHeap T H) (single0 : T → Option H) (base : List (Handler T H)) (fb : T → H) : DHeap T H × KConv T H :=
  ((h.alloc []).1,
   { single := single0, handlers := base, skip := base.length, fallback := fb, attr := h.next, bound := h.next })

/-- `register_structure_hook(U, f)` for a union: `self._union_struct_registry[U] = f` -/
def kRegSt (h : DHeap T H) (c : KConv T H) (U : T) (f : H) : DHeap T H :=
  h.write c.attr (regSet (h.dict c.attr) U f)

/-- `register_structure_hook_func(p, f)` / the unstructure side's `register_unstructure_hook(U, f)`: a predicate entry
in front -/
def KConv.regPred (c : KConv T H) (p : T → Bool) (mk : T → H) : KConv T H :=
  { c with handlers := .pred p mk :: c.handlers }

/-- `acc.update(d)` -/
def regUpdate (acc : List (T × H)) : List (T × H) → List (T × H)
  | [] => acc
  | (k, f) :: rest => regUpdate (regSet acc k f) rest

/-- `self._handler_pairs[:-skip]` (Python: `[:-0]` is empty) -/
def userHandlers (c : KConv T H) : List (Handler T H) :=
  if c.skip = 0 then [] else c.handlers.take (c.handlers.length - c.skip)

/-- what `copy()` makes of the freshly constructed `res`, before the union registry is dealt with -/
def copyShell (c r : KConv T H) : KConv T H :=
  { r with handlers := userHandlers c ++ r.handlers,
           single := fun t => match c.single t with
             | some f => some f
             | Option.none => r.single t }

/-- `copy()` as the code does it -/
def kCopy (h : DHeap T H) (c : KConv T H) (single0 : T → Option H) (base : List (Handler T H)) : DHeap T H × KConv T H :=
  let i := kInit h single0 base c.fallback
  let r := copyShell c i.2
  (i.1.write r.attr (regUpdate (i.1.dict r.attr) (h.dict c.attr)), r)

/-- NOT the code: `res._union_struct_registry = self._union_struct_registry.copy()` — the attribute is re-bound to a
new dict; the factory stays bound to the (empty) dict `res.__init__` made -/
def kCopyRebind (h : DHeap T H) (c : KConv T H) (single0 : T → Option H) (base : List (Handler T H)) :
    DHeap T H × KConv T H :=
  let i := kInit h single0 base c.fallback
  let r := copyShell c i.2
  let a := i.1.alloc (h.dict c.attr)
  (a.1, { r with attr := a.2 })

/-! ### histories over a store of converters -/

inductive KOp (T H : Type) where
  | new
  | copy (src : Nat)
  | regSt (i : Nat) (U : T) (f : H)
  | regPred (i : Nat) (p : T → Bool) (mk : T → H)

structure KStore (T H : Type) where
  heap : DHeap T H
  convs : List (KConv T H)

/-- one step; `cp` = the copy operation in force -/
def kStepWith (cp : DHeap T H → KConv T H → (T → Option H) → List (Handler T H) → DHeap T H × KConv T H)
    (single0 : T → Option H) (base : List (Handler T H)) (fb : T → H) (σ : KStore T H) : KOp T H → KStore T H
  | .new => let r := kInit σ.heap single0 base fb; ⟨r.1, σ.convs ++ [r.2]⟩
  | .copy i =>
    match σ.convs[i]? with
    | Option.none => σ
    | some c => let r := cp σ.heap c single0 base; ⟨r.1, σ.convs ++ [r.2]⟩
  | .regSt i U f =>
    match σ.convs[i]? with
    | Option.none => σ
    | some c => ⟨kRegSt σ.heap c U f, σ.convs⟩
  | .regPred i p mk =>
    match σ.convs[i]? with
    | Option.none => σ
    | some c => ⟨σ.heap, σ.convs.set i (c.regPred p mk)⟩

def kRunWith (cp : DHeap T H → KConv T H → (T → Option H) → List (Handler T H) → DHeap T H × KConv T H)
    (single0 : T → Option H) (base : List (Handler T H)) (fb : T → H) : KStore T H → List (KOp T H) → KStore T H
  | σ, [] => σ
  | σ, op :: ops => kRunWith cp single0 base fb (kStepWith cp single0 base fb σ op) ops

def kRun (single0 : T → Option H) (base : List (Handler T H)) (fb : T → H) : KStore T H → List (KOp T H) → KStore T H :=
  kRunWith kCopy single0 base fb

def KStore.empty : KStore T H := ⟨⟨fun _ => [], 0⟩, []⟩

end CattrsModel.Tagged
