import CattrsModel.Tagged.Lemmas
/-!
# Re-configuration: the dispatch cache around the local dispatch model

`MultiStrategyDispatch.dispatch` is `lru_cache(maxsize=None)(self.dispatch_without_caching)`: once the converter has
been asked for the hook of a type, the hook object itself is remembered.  `register_structure_hook(U, f)` for a union
does `_union_struct_registry[U] = f; _structure_func.clear_cache()`; `register_unstructure_hook(U, f)` goes through
`register_func_list`, which ends in `self.dispatch.cache_clear()`.  `CDisp` adds that cache to `Disp`
(`Tagged/Model.lean`), `useAll` is "the converter is used for these types, in this order".
-/
namespace CattrsModel.Tagged
open CattrsModel

variable {T H : Type} [DecidableEq T]

structure CDisp (T H : Type) where
  base : Disp T H
  cache : List (T × H)          -- the `lru_cache` of `dispatch`

/-- `self.dispatch(t)`: the remembered hook, else `dispatch_without_caching(t)`, which is then remembered -/
def CDisp.dispatch (c : CDisp T H) (t : T) : H × CDisp T H :=
  match regGet c.cache t with
  | some h => (h, c)
  | Option.none => (c.base.resolve t, { c with cache := (t, c.base.resolve t) :: c.cache })

/-- the converter is used: hooks are requested for these types, in this order -/
def CDisp.useAll (c : CDisp T H) : List T → CDisp T H
  | [] => c
  | t :: ts => CDisp.useAll (c.dispatch t).2 ts

/-- `register_structure_hook(U, f)`, `U` a union: `… ; self._structure_func.clear_cache()` -/
def CDisp.registerUnionSt (c : CDisp T H) (U : T) (f : H) : CDisp T H :=
  { base := c.base.registerUnionSt U f, cache := [] }

/-- `register_unstructure_hook(U, f)`, `U` a union: `register_func_list` ends in `self.dispatch.cache_clear()` -/
def CDisp.registerUnionUn (c : CDisp T H) (U : T) (f : H) : CDisp T H :=
  { base := c.base.registerUnionUn U f, cache := [] }

/-- NOT the code: the cache is cleared only when the union is new to `_union_struct_registry` (negative witness) -/
def CDisp.registerUnionStLazy (c : CDisp T H) (U : T) (f : H) : CDisp T H :=
  { base := c.base.registerUnionSt U f, cache := if (regGet c.base.unionReg U).isSome then c.cache else [] }

theorem CDisp.dispatch_base (c : CDisp T H) (t : T) : (c.dispatch t).2.base = c.base := by
  unfold CDisp.dispatch; split <;> rfl

theorem CDisp.useAll_base (c : CDisp T H) (ts : List T) : (c.useAll ts).base = c.base := by
  induction ts generalizing c with
  | nil => rfl
  | cons t ts ih => simp only [CDisp.useAll, ih, CDisp.dispatch_base]

theorem CDisp.dispatch_empty (b : Disp T H) (t : T) : ((⟨b, []⟩ : CDisp T H).dispatch t).1 = b.resolve t := by
  simp [CDisp.dispatch, regGet]

theorem regSet_regSet (d : List (T × H)) (U : T) (f g : H) : regSet (regSet d U f) U g = regSet d U g := by
  induction d with
  | nil => simp [regSet]
  | cons q rest ih =>
    obtain ⟨k, h⟩ := q
    simp only [regSet]
    split
    · rename_i hk; simp [regSet, hk]
    · rename_i hk; simp [regSet, hk, ih]

theorem resolve_registerUnionSt_twice (s : Disp T H) (U : T) (f g : H) (t : T) :
    ((s.registerUnionSt U f).registerUnionSt U g).resolve t = (s.registerUnionSt U g).resolve t := by
  simp only [Disp.resolve, Disp.registerUnionSt, Disp.slow, regSet_regSet]

theorem resolve_registerUnionUn_twice (s : Disp T H) (U : T) (f g : H) (t : T) :
    ((s.registerUnionUn U f).registerUnionUn U g).resolve t = (s.registerUnionUn U g).resolve t := by
  simp only [Disp.resolve, Disp.registerUnionUn, Disp.slow, firstMatch]
  by_cases ht : t = U <;> simp [ht]

theorem resolve_registerUnionUn_self (s : Disp T H) (U : T) (g : H) (hs : s.single U = Option.none) :
    (s.registerUnionUn U g).resolve U = g := by
  simp [Disp.resolve, Disp.registerUnionUn, Disp.slow, firstMatch, hs, regGet]

end CattrsModel.Tagged
