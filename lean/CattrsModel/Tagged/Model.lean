import CattrsModel.Conv.Basic
/-!
# Model of `cattrs.strategies.configure_tagged_union` (`strategies/_unions.py`)

Read line by line from the pinned source.  What is modelled:

* the two tables built at configuration time — `tag_to_hook` (a `dict` filled by successive assignment in
  member order, hence *the last* member wins when two tags are `==`) and `exact_cl_unstruct_hooks` /
  `cl_to_tag` (keyed by class);
* `unstructure_tagged_union`: `res = hooks[val.__class__](val); res[tag_name] = cl_to_tag[val.__class__]`;
* all four `structure_tagged_union` variants (default × `forbid_extra_keys`), with the local name `val`, the
  caller's object and whether they are still the same object (`Frame`), so that "copy, then pop" and "pop
  without copy" are different programs;
* what registering a hook for the exact union does to the two dispatchers (`Disp`).

Member hooks are *abstract* (`Hooks`): the strategy captures whatever the converter gives it.  The tag
generator is an arbitrary function `Nat → Obj` (class index to tag).
-/
namespace CattrsModel.Tagged
open CattrsModel

/-- one call of `configure_tagged_union(union, converter, tag_generator, tag_name, default)` -/
structure TU where
  members : List Nat          -- `union.__args__`, as class indices, in order
  tag : Nat → Obj             -- `tag_generator`
  tagName : String            -- `tag_name`
  default : Option Nat        -- `default` (`NOTHING` = none); need not be a member
  forbid : Bool               -- `getattr(converter, "forbid_extra_keys", False)`

def TU.key (U : TU) : Obj := .str U.tagName

/-- `val.__class__`, for the classes that can be union members here -/
def classOf : Obj → Option Nat
  | .inst c _ => some c
  | _ => Option.none

/-- can the object be hashed (it is about to be used as a `dict` key)?  Instances of the generated
(non-frozen, `eq=True`) classes are not. -/
def tagHashable (o : Obj) : Bool := hashable { classes := [], enums := [] } o

/-! ### `tag_to_hook`: a Python `dict` from tag to member hook (represented by the member's class index) -/

/-- `d[k] = c` -/
def hookSet : List (Obj × Nat) → Obj → Nat → List (Obj × Nat)
  | [], k, c => [(k, c)]
  | (k', c') :: rest, k, c => if Obj.pyEq k' k then (k', c) :: rest else (k', c') :: hookSet rest k c

/-- `d.get(k)` (the key is hashable) -/
def hookGet : List (Obj × Nat) → Obj → Option Nat
  | [], _ => Option.none
  | (k', c) :: rest, k => if Obj.pyEq k' k then some c else hookGet rest k

/-- `for cl in args: tag_to_hook[tag_generator(cl)] = structure_union_member` -/
def tagToHook (U : TU) : List (Obj × Nat) :=
  U.members.foldl (fun d c => hookSet d (U.tag c) c) []

/-! specification-level vocabulary used by the theorems -/

/-- the member a tag reaches: the LAST member (in `union.__args__` order) whose tag is `==` -/
def lastMember (tag : Nat → Obj) (t : Obj) : List Nat → Option Nat
  | [] => Option.none
  | c :: cs =>
    match lastMember tag t cs with
    | some k => some k
    | Option.none => if Obj.pyEq (tag c) t then some c else Option.none

/-- the tag generator is injective (up to `==`) on the members of the union -/
def InjectiveOn (tag : Nat → Obj) (ms : List Nat) : Prop :=
  ∀ a ∈ ms, ∀ b ∈ ms, Obj.pyEq (tag a) (tag b) = true → a = b

/-- configuration itself raises when a generated tag cannot be a `dict` key -/
def configureOk (U : TU) : Bool := U.members.all (fun c => tagHashable (U.tag c))

/-- outcome of `tag_to_hook[t]` before the `defaultdict` fallback is applied -/
inductive Look where
  | unhashable             -- `TypeError: unhashable type` (also raised by a `defaultdict`)
  | missing                -- `KeyError`, or `default_factory()` of the `defaultdict`
  | found (k : Nat)
  deriving Repr, DecidableEq

def lookTag (U : TU) (t : Obj) : Look :=
  if tagHashable t then
    match hookGet (tagToHook U) t with
    | some k => .found k
    | Option.none => .missing
  else .unhashable

/-! ### unstructuring -/

/-- `res[_tag_name] = _cl_to_tag[val.__class__]`; item assignment with a `str` key works on dicts only -/
def setTag (U : TU) (c : Nat) (res : Obj) : Option Obj :=
  match res with
  | .dict kvs => some (.dict (dictSet kvs U.key (U.tag c)))
  | _ => Option.none

/-- `unstructure_tagged_union` for an instance of class `c` whose member hook returned `res`
(`none` = the member hook raised).  `_exact_cl_unstruct_hooks[val.__class__]` raises `KeyError` for a class
outside the union — also when a default is configured (`cl_to_tag` is a `defaultdict` then, but is consulted
second). -/
def tagUnWith (U : TU) (c : Nat) (res : Option Obj) : Option Obj :=
  if c ∈ U.members then res.bind (setTag U c) else Option.none

/-- the member hooks captured at configuration time -/
structure Hooks where
  un : Nat → Obj → Option Obj       -- `converter.get_unstructure_hook(cl)`; `none` = raises
  st : Nat → Obj → Option Obj       -- `converter.get_structure_hook(cl)(·, cl)`; `none` = raises

def tagUn (U : TU) (H : Hooks) (x : Obj) : Option Obj :=
  match classOf x with
  | some c => tagUnWith U c (H.un c x)
  | Option.none => Option.none

/-! ### structuring: the local name `val` and the caller's object -/

structure Frame where
  caller : Obj        -- the object the caller handed in, as the caller sees it now
  val : Obj           -- what the local name `val` denotes
  aliased : Bool      -- is `val` still the caller's object?
  deriving Repr

def Frame.enter (p : Obj) : Frame := { caller := p, val := p, aliased := true }

/-- `val = val.copy()` (`none` = `AttributeError`) -/
def Frame.copy (f : Frame) : Option Frame :=
  match f.val with
  | .dict _ => some { f with aliased := false }
  | .coll .list _ => some { f with aliased := false }
  | .coll .deque _ => some { f with aliased := false }
  | .coll .set _ => some { f with aliased := false }
  | .coll .fset _ => some f
  | _ => Option.none

/-- `val.pop(key)` with a `str` key: only a dict can do that (`list.pop(str)`, `set.pop(x)`, `deque.pop(x)` raise
`TypeError`, the rest `AttributeError`; a dict without the key raises `KeyError`) -/
def Frame.pop (f : Frame) (key : Obj) : Option (Obj × Frame) :=
  match f.val with
  | .dict kvs =>
    match dlookup kvs key with
    | some v =>
      let d := Obj.dict (dictDel kvs key)
      some (v, { caller := if f.aliased then d else f.caller, val := d, aliased := f.aliased })
    | Option.none => Option.none
  | _ => Option.none

/-- `val[key]` with a `str` key -/
def getItem (o key : Obj) : Option Obj :=
  match o with
  | .dict kvs => dlookup kvs key
  | _ => Option.none

inductive Decision where
  | err                          -- the hook raises before reaching a member hook
  | call (k : Nat) (q : Obj)     -- returns `member_hook_k(q)`
  deriving Repr

structure Run where
  decision : Decision
  callerAfter : Obj
  deriving Repr

/-- `copyFirst = true` is the code as it is; `false` is the program without `val = val.copy()` -/
def Frame.copyIf (f : Frame) (copyFirst : Bool) : Option Frame := if copyFirst then f.copy else some f

/-- default `NOTHING`, `forbid_extra_keys`:  `val = val.copy(); return _tag_to_cl[val.pop(_tag_name)](val)` -/
def stForbidNoDefault (U : TU) (copyFirst : Bool) (f : Frame) : Run :=
  match f.copyIf copyFirst with
  | Option.none => ⟨.err, f.caller⟩
  | some f1 =>
    match f1.pop U.key with
    | Option.none => ⟨.err, f1.caller⟩
    | some (t, f2) =>
      match lookTag U t with
      | .found k => ⟨.call k f2.val, f2.caller⟩
      | _ => ⟨.err, f2.caller⟩

/-- default `NOTHING`, no `forbid_extra_keys`:  `return _tag_to_cl[val[_tag_name]](val)` -/
def stPlainNoDefault (U : TU) (f : Frame) : Run :=
  match getItem f.val U.key with
  | Option.none => ⟨.err, f.caller⟩
  | some t =>
    match lookTag U t with
    | .found k => ⟨.call k f.val, f.caller⟩
    | _ => ⟨.err, f.caller⟩

/-- default `d`, `forbid_extra_keys`:
`if _tag_name in val: val = val.copy(); return _tag_to_hook[val.pop(_tag_name)](val)`; `return _dh(val, _default)` -/
def stForbidDefault (U : TU) (d : Nat) (copyFirst : Bool) (f : Frame) : Run :=
  match pyContains f.val U.tagName with
  | Option.none => ⟨.err, f.caller⟩
  | some false => ⟨.call d f.val, f.caller⟩
  | some true =>
    match f.copyIf copyFirst with
    | Option.none => ⟨.err, f.caller⟩
    | some f1 =>
      match f1.pop U.key with
      | Option.none => ⟨.err, f1.caller⟩
      | some (t, f2) =>
        match lookTag U t with
        | .found k => ⟨.call k f2.val, f2.caller⟩
        | .missing => ⟨.call d f2.val, f2.caller⟩
        | .unhashable => ⟨.err, f2.caller⟩

/-- default `d`, no `forbid_extra_keys`:
`if _tag_name in val: return _tag_to_hook[val[_tag_name]](val)`; `return _dh(val, _default)` -/
def stPlainDefault (U : TU) (d : Nat) (f : Frame) : Run :=
  match pyContains f.val U.tagName with
  | Option.none => ⟨.err, f.caller⟩
  | some false => ⟨.call d f.val, f.caller⟩
  | some true =>
    match getItem f.val U.key with
    | Option.none => ⟨.err, f.caller⟩
    | some t =>
      match lookTag U t with
      | .found k => ⟨.call k f.val, f.caller⟩
      | .missing => ⟨.call d f.val, f.caller⟩
      | .unhashable => ⟨.err, f.caller⟩

/-- `structure_tagged_union(val, _)` as selected at configuration time -/
def tagStRun (U : TU) (copyFirst : Bool) (p : Obj) : Run :=
  match U.default, U.forbid with
  | Option.none, true => stForbidNoDefault U copyFirst (Frame.enter p)
  | Option.none, false => stPlainNoDefault U (Frame.enter p)
  | some d, true => stForbidDefault U d copyFirst (Frame.enter p)
  | some d, false => stPlainDefault U d (Frame.enter p)

/-- the code as it is -/
def tagDecide (U : TU) (p : Obj) : Decision := (tagStRun U true p).decision

def tagSt (U : TU) (H : Hooks) (p : Obj) : Option Obj :=
  match tagDecide U p with
  | .err => Option.none
  | .call k q => H.st k q

/-! ### what the two registrations do to dispatch

`register_unstructure_hook(union, f)` → `_unstructure_func.register_func_list([(lambda t: t == cls, f)])`;
`register_structure_hook(union, f)` → `_union_struct_registry[cl] = f; _structure_func.clear_cache()`.
`T` is the type of type objects up to Python `==` (a union's key is its set of members), `H` the hooks. -/

inductive Handler (T H : Type) where
  | pred (p : T → Bool) (mk : T → H)     -- predicate + handler / hook factory
  | unionRegistry                         -- `is_union_type(t) and t in self._union_struct_registry`

structure Disp (T H : Type) where
  single : T → Option H                   -- `functools.singledispatch` registry (classes)
  direct : List (T × H)                   -- `_direct_dispatch`
  handlers : List (Handler T H)           -- `FunctionDispatch._handler_pairs`, first match wins
  unionReg : List (T × H)                 -- `_union_struct_registry`
  fallback : T → H

variable {T H : Type} [DecidableEq T]

def regGet : List (T × H) → T → Option H
  | [], _ => Option.none
  | (k, h) :: rest, t => if k = t then some h else regGet rest t

def regSet : List (T × H) → T → H → List (T × H)
  | [], t, h => [(t, h)]
  | (k, h') :: rest, t, h => if k = t then (k, h) :: rest else (k, h') :: regSet rest t h

def firstMatch (reg : List (T × H)) : List (Handler T H) → T → Option H
  | [], _ => Option.none
  | .pred p mk :: rest, t => if p t then some (mk t) else firstMatch reg rest t
  | .unionRegistry :: rest, t =>
    match regGet reg t with
    | some h => some h
    | Option.none => firstMatch reg rest t

/-- `dispatch_without_caching` below the singledispatch / direct layers -/
def Disp.slow (s : Disp T H) (t : T) : H :=
  match firstMatch s.unionReg s.handlers t with
  | some h => h
  | Option.none => s.fallback t

/-- `MultiStrategyDispatch.dispatch_without_caching` -/
def Disp.resolve (s : Disp T H) (t : T) : H :=
  match s.single t with
  | some h => h
  | Option.none =>
    match regGet s.direct t with
    | some h => h
    | Option.none => s.slow t

/-- `register_unstructure_hook(U, f)` for a union `U` -/
def Disp.registerUnionUn (s : Disp T H) (U : T) (f : H) : Disp T H :=
  { s with handlers := .pred (fun t => decide (t = U)) (fun _ => f) :: s.handlers, direct := [] }

/-- `register_structure_hook(U, f)` for a union `U` -/
def Disp.registerUnionSt (s : Disp T H) (U : T) (f : H) : Disp T H :=
  { s with unionReg := regSet s.unionReg U f, direct := [] }

/-- `_direct_dispatch` only ever holds hooks the slow path would produce (it is filled with generated hooks as
a cache); every registration empties it -/
def Disp.DirectCoherent (s : Disp T H) : Prop :=
  ∀ t h, regGet s.direct t = some h → h = s.slow t

end CattrsModel.Tagged
