import CattrsModel.Sexp
import CattrsModel.Core.Wire
import CattrsModel.Tagged.Model
/-!
# Line-protocol operations of the tagged-union model (driver only)

`<tu>` = `(tu (members <class#>…) (tags (<class#> <obj>)…) "<tag name>" <default class#|-> <forbid 0|1>)`

* `TAGUN <tu> <class#> <obj>`   the member hook of class `<class#>` returned `<obj>`;
                                 reply `(ok <obj>)` (tag added) | `(err)`
* `TAGST <tu> <obj>`            reply `(st <decision> (arg <obj>))`, `<decision>` = `(err)` | `(call <class#> <obj>)`:
                                 which member hook the payload reaches and with which payload; `arg` is the caller's
                                 object after the call
-/
namespace CattrsModel.Tagged
open CattrsModel Sexp

def tagTableGet : List (Nat × Obj) → Nat → Option Obj
  | [], _ => Option.none
  | (c, t) :: rest, k => if c = k then some t else tagTableGet rest k

def tuOfSexp : Sexp → Option TU
  | .list [.atom "tu", .list (.atom "members" :: ms), .list (.atom "tags" :: ts), .str name, d, f] => do
      let ms ← ms.mapM atomNat?
      let ts ← ts.mapM (fun (e : Sexp) => match e with
        | .list [c, t] => do pure ((← atomNat? c), (← objOfSexp t))
        | _ => Option.none)
      let d ← match d with
        | .atom "-" => some Option.none
        | x => (atomNat? x).map some
      let f ← bool? f
      -- every member must have a tag (the tag generator is total on the union's members)
      let _ ← ms.mapM (tagTableGet ts)
      pure { members := ms, tag := fun c => (tagTableGet ts c).getD (.opaque 0), tagName := name, default := d, forbid := f }
  | _ => Option.none

def sexpOfDecision : Decision → Sexp
  | .err => .list [.atom "err"]
  | .call k q => .list [.atom "call", ofNat k, sexpOfObj q]

def taggedHandle (op : String) (args : List Sexp) : Option Sexp :=
  match op, args with
  | "TAGUN", [tu, c, o] => do
      let U ← tuOfSexp tu
      let c ← atomNat? c
      let o ← objOfSexp o
      match tagUnWith U c (some o) with
      | some r => pure (.list [.atom "ok", sexpOfObj r])
      | Option.none => pure (.list [.atom "err"])
  | "TAGST", [tu, p] => do
      let U ← tuOfSexp tu
      let p ← objOfSexp p
      let r := tagStRun U true p
      pure (.list [.atom "st", sexpOfDecision r.decision, .list [.atom "arg", sexpOfObj r.callerAfter]])
  | _, _ => Option.none

end CattrsModel.Tagged
