import CattrsModel.Sexp
import CattrsModel.Core.Wire
import CattrsModel.Tagged.Model
import CattrsModel.Tagged.Copy
/-!
# Line-protocol operations of the tagged-union model (driver only)

`<tu>` = `(tu (members <class#>…) (tags (<class#> <obj>)…) "<tag name>" <default class#|-> <forbid 0|1>)`

* `TAGUN <tu> <class#> <obj>`   the member hook of class `<class#>` returned `<obj>`;
                                 reply `(ok <obj>)` (tag added) | `(err)`
* `TAGST <tu> <obj>`            reply `(st <decision> (arg <obj>))`, `<decision>` = `(err)` | `(call <class#> <obj>)`:
                                 which member hook the payload reaches and with which payload; `arg` is the caller's
                                 object after the call
* `TAGROUTE (ops <op>…) <n>`    a history over converters of one class; `<op>` = `(new)` | `(copy <conv#>)` |
                                 `(st <conv#> <union#> <hook#>)` (`register_structure_hook(U, f)`) |
                                 `(un <conv#> <union#> <hook#>)` (`register_unstructure_hook(U, f)`);
                                 reply `(route (<st> <un> …)…)`: per converter, per union `0..n-1`, what the structure and
                                 the unstructure dispatcher return: `(hook <hook#>)` | `other` | `keyerror`
                                 (`Tagged/Copy.lean`: `kRun`, the union registry as a dict object)
-/
namespace CattrsModel.Tagged
open CattrsModel Sexp

def tagTableGet : List (Nat × Obj) → Nat → Option Obj
  | [], _ => Option.none
  | (c, t) :: rest, k => if c = k then some t else tagTableGet rest k

def tuOfSexp : Sexp → Option TU
  | .list [.atom "tu", .list (.atom "members" :: ms), .list (.atom "tags" :: ts), .str name, d, f] => do
      let ms ← ms.mapM atomNat?
      let ts ← ts.mapM (fun (e : Sexp) => match e with
        | .list [c, t] => do pure ((← atomNat? c), (← objOfSexp t))
        | _ => Option.none)
      let d ← match d with
        | .atom "-" => some Option.none
        | x => (atomNat? x).map some
      let f ← bool? f
      -- every member must have a tag (the tag generator is total on the union's members)
      let _ ← ms.mapM (tagTableGet ts)
      pure { members := ms, tag := fun c => (tagTableGet ts c).getD (.opaque 0), tagName := name, default := d, forbid := f }
  | _ => Option.none

def sexpOfDecision : Decision → Sexp
  | .err => .list [.atom "err"]
  | .call k q => .list [.atom "call", ofNat k, sexpOfObj q]

/-- hook number standing for "whatever the converter does for a union nobody registered" -/
def routeOther : Nat := 1000000

inductive RouteOp where
  | new | copy (i : Nat) | st (i U f : Nat) | un (i U f : Nat)

def routeOpOfSexp : Sexp → Option RouteOp
  | .list [.atom "new"] => some .new
  | .list [.atom "copy", i] => (atomNat? i).map .copy
  | .list [.atom "st", i, u, f] => do pure (.st (← atomNat? i) (← atomNat? u) (← atomNat? f))
  | .list [.atom "un", i, u, f] => do pure (.un (← atomNat? i) (← atomNat? u) (← atomNat? f))
  | _ => Option.none

/-- structure side: `__init__` installs (among entries that never match a union) the union-registry entry -/
def routeStOps : List RouteOp → List (KOp Nat Nat)
  | [] => []
  | .new :: r => .new :: routeStOps r
  | .copy i :: r => .copy i :: routeStOps r
  | .st i u f :: r => .regSt i u f :: routeStOps r
  | .un _ _ _ :: r => routeStOps r

/-- unstructure side: no registry; `register_unstructure_hook(U, f)` puts `(lambda t: t == U, f)` in front -/
def routeUnOps : List RouteOp → List (KOp Nat Nat)
  | [] => []
  | .new :: r => .new :: routeUnOps r
  | .copy i :: r => .copy i :: routeUnOps r
  | .st _ _ _ :: r => routeUnOps r
  | .un i u f :: r => .regPred i (fun t => t == u) (fun _ => f) :: routeUnOps r

def sexpOfRes : Res Nat → Sexp
  | .keyError => .atom "keyerror"
  | .hook f => if f = routeOther then .atom "other" else .list [.atom "hook", ofNat f]

def taggedHandle (op : String) (args : List Sexp) : Option Sexp :=
  match op, args with
  | "TAGUN", [tu, c, o] => do
      let U ← tuOfSexp tu
      let c ← atomNat? c
      let o ← objOfSexp o
      match tagUnWith U c (some o) with
      | some r => pure (.list [.atom "ok", sexpOfObj r])
      | Option.none => pure (.list [.atom "err"])
  | "TAGST", [tu, p] => do
      let U ← tuOfSexp tu
      let p ← objOfSexp p
      let r := tagStRun U true p
      pure (.list [.atom "st", sexpOfDecision r.decision, .list [.atom "arg", sexpOfObj r.callerAfter]])
  | "TAGROUTE", [.list (.atom "ops" :: ops), n] => do
      let ops ← ops.mapM routeOpOfSexp
      let n ← atomNat? n
      let other : Nat → Nat := fun _ => routeOther
      let σs := kRun (fun _ => Option.none) [.unionRegistry] other KStore.empty (routeStOps ops)
      let σu := kRun (fun _ => Option.none) [.pred (fun _ => true) other] other KStore.empty (routeUnOps ops)
      let rows := (σs.convs.zip σu.convs).map (fun (cs, cu) =>
        Sexp.list ((List.range n).flatMap (fun t => [sexpOfRes (cs.resolve σs.heap t), sexpOfRes (cu.resolve σu.heap t)])))
      pure (.list (.atom "route" :: rows))
  | _, _ => Option.none

end CattrsModel.Tagged
