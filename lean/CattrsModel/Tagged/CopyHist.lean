import CattrsModel.Tagged.CopyLemmas
/-!
# `copy()` preserves "constructed by this class", for one step and along every history
-/
namespace CattrsModel.Tagged
open CattrsModel

variable {T H : Type} [DecidableEq T]

/-- `c` was produced by `__init__` or by `copy()` of a class whose `__init__` installs the handlers `base` and the
singledispatch entries `single0`, and may have been registered on since -/
structure Built (single0 : T → Option H) (base : List (Handler T H)) (h : DHeap T H) (c : KConv T H) : Prop where
  bound : c.attr = c.bound
  live : c.attr < h.next
  shape : ∃ user, c.handlers = user ++ base
  skip : c.skip = base.length
  dict : DictOK (h.dict c.attr)
  single : ∀ t, c.single t = Option.none → single0 t = Option.none

omit [DecidableEq T] in
theorem Built.mono {single0 : T → Option H} {base : List (Handler T H)} {h h' : DHeap T H} {c : KConv T H}
    (b : Built single0 base h c) (hd : h'.dict c.attr = h.dict c.attr) (hn : h.next ≤ h'.next) :
    Built single0 base h' c :=
  ⟨b.bound, Nat.lt_of_lt_of_le b.live hn, b.shape, b.skip, by rw [hd]; exact b.dict, b.single⟩

omit [DecidableEq T] in
theorem kInit_built (h : DHeap T H) (single0 : T → Option H) (base : List (Handler T H)) (fb : T → H) :
    Built single0 base (kInit h single0 base fb).1 (kInit h single0 base fb).2 := by
  refine ⟨rfl, ?_, ⟨[], rfl⟩, rfl, ?_, fun _ h => h⟩
  · simp [kInit, DHeap.alloc]
  · simp [kInit, DHeap.alloc, DictOK]

omit [DecidableEq T] in
theorem kInit_frame (h : DHeap T H) (single0 : T → Option H) (base : List (Handler T H)) (fb : T → H) (l : Nat)
    (hl : l < h.next) : (kInit h single0 base fb).1.dict l = h.dict l := by
  simp [kInit, DHeap.alloc, Nat.ne_of_lt hl]

/-- everything about one `copy()` of a converter constructed by this class -/
theorem kCopy_spec {single0 : T → Option H} {base : List (Handler T H)} (hbase : base ≠ []) {h : DHeap T H}
    {c : KConv T H} (b : Built single0 base h c) :
    Built single0 base (kCopy h c single0 base).1 (kCopy h c single0 base).2
    ∧ (∀ l, l < h.next → (kCopy h c single0 base).1.dict l = h.dict l)
    ∧ (kCopy h c single0 base).1.next = h.next + 1
    ∧ (kCopy h c single0 base).2.attr = h.next
    ∧ (∀ t, regGet ((kCopy h c single0 base).1.dict (kCopy h c single0 base).2.attr) t = regGet (h.dict c.attr) t)
    ∧ (kCopy h c single0 base).2.handlers = c.handlers
    ∧ (∀ t, (kCopy h c single0 base).2.single t = c.single t)
    ∧ (kCopy h c single0 base).2.fallback = c.fallback := by
  obtain ⟨user, hu⟩ := b.shape
  have huser : userHandlers c = user := userHandlers_eq hu b.skip hbase
  have hdict : (kCopy h c single0 base).1.dict h.next = regUpdate [] (h.dict c.attr) := by
    simp [kCopy, kInit, copyShell, DHeap.write, DHeap.alloc]
  have hframe : ∀ l, l < h.next → (kCopy h c single0 base).1.dict l = h.dict l := by
    intro l hl
    simp [kCopy, kInit, copyShell, DHeap.write, DHeap.alloc, Nat.ne_of_lt hl]
  have hattr : (kCopy h c single0 base).2.attr = h.next := rfl
  have hsingle : ∀ t, (kCopy h c single0 base).2.single t = c.single t := by
    intro t
    show (match c.single t with | some f => some f | Option.none => single0 t) = c.single t
    cases hs : c.single t with
    | some f => rfl
    | none => exact b.single t hs
  refine ⟨⟨rfl, ?_, ⟨user, ?_⟩, rfl, ?_, ?_⟩, hframe, rfl, hattr, ?_, ?_, hsingle, rfl⟩
  · show h.next < h.next + 1
    exact Nat.lt_succ_self _
  · show userHandlers c ++ base = user ++ base
    rw [huser]
  · rw [hattr, hdict]; exact DictOK_regUpdate (by simp [DictOK]) _
  · intro t ht; rw [hsingle] at ht; exact b.single t ht
  · intro t
    rw [hattr, hdict, regGet_regUpdate _ _ b.dict]
    cases regGet (h.dict c.attr) t <;> rfl
  · show userHandlers c ++ base = c.handlers
    rw [huser, hu]

/-- the copy resolves every type as its source does; the source is not disturbed -/
theorem kCopy_resolve {single0 : T → Option H} {base : List (Handler T H)} (hbase : base ≠ []) {h : DHeap T H}
    {c : KConv T H} (b : Built single0 base h c) (t : T) :
    (kCopy h c single0 base).2.resolve (kCopy h c single0 base).1 t = c.resolve h t
    ∧ c.resolve (kCopy h c single0 base).1 t = c.resolve h t := by
  obtain ⟨b', hframe, _, _, hreg, hh, hs, hf⟩ := kCopy_spec hbase b
  constructor
  · unfold KConv.resolve
    rw [hs t, hh, hf, ← b'.bound, ← b.bound, kFirstMatch_congr hreg hreg]
  · exact resolve_frame c _ _ (hframe _ b.live) (hframe _ (b.bound ▸ b.live)) t

/-! ### every history -/

def StoreOK (single0 : T → Option H) (base : List (Handler T H)) (σ : KStore T H) : Prop :=
  ∀ c ∈ σ.convs, Built single0 base σ.heap c

theorem Built.regSt {single0 : T → Option H} {base : List (Handler T H)} {h : DHeap T H} {c d : KConv T H}
    (b : Built single0 base h d) (U : T) (f : H) : Built single0 base (kRegSt h c U f) d := by
  refine ⟨b.bound, b.live, b.shape, b.skip, ?_, b.single⟩
  by_cases e : d.attr = c.attr
  · have : (kRegSt h c U f).dict d.attr = regSet (h.dict d.attr) U f := by simp [kRegSt, DHeap.write, e]
    rw [this]; exact DictOK_regSet b.dict U f
  · rw [kRegSt_frame h c U f _ e]; exact b.dict

theorem kStep_ok {single0 : T → Option H} {base : List (Handler T H)} (hbase : base ≠ []) (fb : T → H)
    {σ : KStore T H} (ok : StoreOK single0 base σ) (op : KOp T H) :
    StoreOK single0 base (kStepWith kCopy single0 base fb σ op) := by
  cases op with
  | new =>
    intro c hc
    simp only [kStepWith, List.mem_append, List.mem_singleton] at hc
    rcases hc with hc | rfl
    · have b := ok c hc
      exact b.mono (kInit_frame σ.heap single0 base fb _ b.live) (Nat.le_succ _)
    · exact kInit_built _ _ _ _
  | copy i =>
    simp only [kStepWith]
    cases hi : σ.convs[i]? with
    | none => exact ok
    | some src =>
      have bs := ok src (List.mem_of_getElem? hi)
      obtain ⟨b', hframe, hnext, _⟩ := kCopy_spec hbase bs
      intro c hc
      simp only [List.mem_append, List.mem_singleton] at hc
      rcases hc with hc | rfl
      · have b := ok c hc
        exact b.mono (hframe _ b.live) (by rw [hnext]; exact Nat.le_succ _)
      · exact b'
  | regSt i U f =>
    simp only [kStepWith]
    cases hi : σ.convs[i]? with
    | none => exact ok
    | some c => intro d hd; exact (ok d hd).regSt U f
  | regPred i p mk =>
    simp only [kStepWith]
    cases hi : σ.convs[i]? with
    | none => exact ok
    | some c =>
      intro d hd
      rcases List.mem_or_eq_of_mem_set hd with hd | rfl
      · exact ok d hd
      · have b := ok c (List.mem_of_getElem? hi)
        obtain ⟨user, hu⟩ := b.shape
        exact ⟨b.bound, b.live, ⟨.pred p mk :: user, by simp [KConv.regPred, hu]⟩, b.skip, b.dict, b.single⟩

theorem kRun_ok {single0 : T → Option H} {base : List (Handler T H)} (hbase : base ≠ []) (fb : T → H)
    (ops : List (KOp T H)) : ∀ {σ : KStore T H}, StoreOK single0 base σ → StoreOK single0 base (kRun single0 base fb σ ops) := by
  induction ops with
  | nil => intro σ ok; exact ok
  | cons op ops ih => intro σ ok; exact ih (kStep_ok hbase fb ok op)

omit [DecidableEq T] in
theorem storeOK_empty (single0 : T → Option H) (base : List (Handler T H)) :
    StoreOK single0 base (KStore.empty : KStore T H) := by
  intro c hc; simp [KStore.empty] at hc

end CattrsModel.Tagged
