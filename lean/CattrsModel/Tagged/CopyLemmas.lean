import CattrsModel.Tagged.Copy
/-!
# Lemmas about the copy model (`Tagged/Copy.lean`)
-/
namespace CattrsModel.Tagged
open CattrsModel

variable {T H : Type} [DecidableEq T]

/-- with predicate and factory on the SAME dict the union entry is the by-value `firstMatch` -/
theorem kFirstMatch_same (d : List (T × H)) (hs : List (Handler T H)) (t : T) :
    kFirstMatch d d hs t = (firstMatch d hs t).map Res.hook := by
  induction hs with
  | nil => rfl
  | cons hd rest ih =>
    cases hd with
    | pred p mk =>
      simp only [kFirstMatch, firstMatch]
      split
      · rfl
      · exact ih
    | unionRegistry =>
      simp only [kFirstMatch, firstMatch]
      cases hg : regGet d t with
      | none => simpa using ih
      | some f => simp

/-- `kFirstMatch` looks at the two dicts through `regGet` only -/
theorem kFirstMatch_congr {a a' b b' : List (T × H)} (ha : ∀ t, regGet a t = regGet a' t)
    (hb : ∀ t, regGet b t = regGet b' t) (hs : List (Handler T H)) (t : T) :
    kFirstMatch a b hs t = kFirstMatch a' b' hs t := by
  induction hs with
  | nil => rfl
  | cons hd rest ih =>
    cases hd with
    | pred p mk => simp only [kFirstMatch, ih]
    | unionRegistry => simp only [kFirstMatch, ih, ha t, hb t]

/-- a converter whose factory is bound to the dict its attribute denotes never raises `KeyError` from dispatch: it
resolves exactly as its by-value reading -/
theorem resolve_of_bound (c : KConv T H) (h : DHeap T H) (hb : c.attr = c.bound) (t : T) :
    c.resolve h t = .hook ((c.view h).resolve t) := by
  unfold KConv.resolve Disp.resolve Disp.slow KConv.view
  simp only [regGet]
  cases c.single t with
  | some f => rfl
  | none =>
    simp only
    rw [← hb, kFirstMatch_same]
    cases firstMatch (h.dict c.attr) c.handlers t <;> rfl

/-- registering on the heap is `registerUnionSt` on the by-value reading -/
theorem view_kRegSt (c : KConv T H) (h : DHeap T H) (U : T) (f : H) :
    c.view (kRegSt h c U f) = (c.view h).registerUnionSt U f := by
  simp [KConv.view, kRegSt, DHeap.write, Disp.registerUnionSt]

/-- a registration writes one location -/
theorem kRegSt_frame (h : DHeap T H) (r : KConv T H) (U : T) (f : H) (l : Nat) (hl : l ≠ r.attr) :
    (kRegSt h r U f).dict l = h.dict l := by
  simp [kRegSt, DHeap.write, hl]

theorem resolve_frame (c : KConv T H) (h h' : DHeap T H) (ha : h'.dict c.attr = h.dict c.attr)
    (hb : h'.dict c.bound = h.dict c.bound) (t : T) : c.resolve h' t = c.resolve h t := by
  unfold KConv.resolve; rw [ha, hb]

/-! ### dicts -/

/-- a dict holds every key once -/
def DictOK (d : List (T × H)) : Prop := (d.map Prod.fst).Nodup

theorem regGet_none_of_not_mem {d : List (T × H)} {t : T} (h : t ∉ d.map Prod.fst) : regGet d t = Option.none := by
  induction d with
  | nil => rfl
  | cons q rest ih =>
    obtain ⟨k, f⟩ := q
    simp only [List.map_cons, List.mem_cons, not_or] at h
    simp only [regGet]
    rw [if_neg (fun e => h.1 e.symm)]
    exact ih h.2

theorem keys_regSet (d : List (T × H)) (U : T) (f : H) :
    (regSet d U f).map Prod.fst = if U ∈ d.map Prod.fst then d.map Prod.fst else d.map Prod.fst ++ [U] := by
  induction d with
  | nil => simp [regSet]
  | cons q rest ih =>
    obtain ⟨k, g⟩ := q
    simp only [regSet]
    by_cases hk : k = U
    · subst hk; simp
    · simp only [hk, if_false, List.map_cons, ih, List.mem_cons]
      have hk' : ¬ U = k := fun e => hk e.symm
      simp only [hk', false_or]
      split <;> simp

theorem DictOK_regSet {d : List (T × H)} (hd : DictOK d) (U : T) (f : H) : DictOK (regSet d U f) := by
  unfold DictOK at *
  rw [keys_regSet]
  split
  · exact hd
  · rename_i hU
    rw [List.nodup_append]
    refine ⟨hd, by simp, ?_⟩
    intro a ha b hb
    simp only [List.mem_singleton] at hb
    subst hb
    intro e; subst e; exact hU ha

theorem DictOK_regUpdate {acc : List (T × H)} (ha : DictOK acc) (d : List (T × H)) : DictOK (regUpdate acc d) := by
  induction d generalizing acc with
  | nil => exact ha
  | cons q rest ih => obtain ⟨k, f⟩ := q; exact ih (DictOK_regSet ha k f)

/-- `acc.update(d)`: `d`'s entries, then what `acc` had -/
theorem regGet_regUpdate (acc d : List (T × H)) (hd : DictOK d) (t : T) :
    regGet (regUpdate acc d) t = match regGet d t with
      | some f => some f
      | Option.none => regGet acc t := by
  induction d generalizing acc with
  | nil => rfl
  | cons q rest ih =>
    obtain ⟨k, f⟩ := q
    have hn : k ∉ rest.map Prod.fst ∧ DictOK rest := by
      unfold DictOK at hd ⊢
      rw [List.map_cons, List.nodup_cons] at hd
      exact hd
    simp only [regUpdate, regGet]
    rw [ih _ hn.2]
    by_cases hk : k = t
    · subst hk
      rw [regGet_none_of_not_mem hn.1, regGet_regSet_same]; simp
    · simp only [hk, if_false]
      rw [regGet_regSet_ne _ (fun e => hk e.symm)]

/-! ### one `copy()` -/

omit [DecidableEq T] in
theorem userHandlers_eq {c : KConv T H} {user base : List (Handler T H)} (hshape : c.handlers = user ++ base)
    (hskip : c.skip = base.length) (hbase : base ≠ []) : userHandlers c = user := by
  unfold userHandlers
  have : base.length ≠ 0 := fun e => hbase (List.length_eq_zero_iff.mp e)
  rw [hskip, if_neg this, hshape]
  simp

end CattrsModel.Tagged
