import CattrsModel.Tagged.Model
import CattrsModel.Lemmas.Assoc
/-!
# Helper lemmas for the tagged-union model
-/
namespace CattrsModel.Tagged
open CattrsModel

theorem pyEq_trans' {a b c : Obj} (h1 : Obj.pyEq a b = true) (h2 : Obj.pyEq b c = true) : Obj.pyEq a c = true := by
  unfold Obj.pyEq at *
  cases ha : Obj.num2? a <;> cases hb : Obj.num2? b <;> cases hc : Obj.num2? c <;> simp_all

/-! ### the tag table -/

theorem hookGet_hookSet (d : List (Obj × Nat)) (k : Obj) (c : Nat) (t : Obj) :
    hookGet (hookSet d k c) t = if Obj.pyEq k t then some c else hookGet d t := by
  induction d with
  | nil => simp [hookSet, hookGet]
  | cons q rest ih =>
    obtain ⟨k0, c0⟩ := q
    simp only [hookSet]
    by_cases h0 : Obj.pyEq k0 k = true
    · rw [if_pos h0]
      simp only [hookGet]
      by_cases h1 : Obj.pyEq k0 t = true
      · have : Obj.pyEq k t = true := pyEq_trans' (by rw [Obj.pyEq_symm]; exact h0) h1
        simp [h1, this]
      · have : ¬ Obj.pyEq k t = true := fun h => h1 (pyEq_trans' h0 h)
        simp [h1, this]
    · rw [if_neg h0]
      simp only [hookGet, ih]
      by_cases h1 : Obj.pyEq k0 t = true
      · have : ¬ Obj.pyEq k t = true := fun h =>
          h0 (pyEq_trans' h1 (by rw [Obj.pyEq_symm]; exact h))
        simp [h1, this]
      · simp [h1]

theorem hookGet_foldl (tag : Nat → Obj) (t : Obj) (cs : List Nat) (d : List (Obj × Nat)) :
    hookGet (cs.foldl (fun d c => hookSet d (tag c) c) d) t
      = match lastMember tag t cs with
        | some k => some k
        | Option.none => hookGet d t := by
  induction cs generalizing d with
  | nil => simp [lastMember]
  | cons c cs ih =>
    simp only [List.foldl_cons, lastMember]
    rw [ih]
    cases h : lastMember tag t cs with
    | some k => rfl
    | none =>
      simp only [hookGet_hookSet]
      split <;> rfl

theorem hookGet_tagToHook (U : TU) (t : Obj) : hookGet (tagToHook U) t = lastMember U.tag t U.members := by
  unfold tagToHook
  rw [hookGet_foldl]
  cases lastMember U.tag t U.members <;> simp [hookGet]

theorem lastMember_some {tag : Nat → Obj} {t : Obj} {cs : List Nat} {k : Nat}
    (h : lastMember tag t cs = some k) : k ∈ cs ∧ Obj.pyEq (tag k) t = true := by
  induction cs with
  | nil => simp [lastMember] at h
  | cons c cs ih =>
    simp only [lastMember] at h
    cases h' : lastMember tag t cs with
    | some k' =>
      rw [h'] at h; simp at h; subst h
      exact ⟨List.mem_cons_of_mem _ (ih h').1, (ih h').2⟩
    | none =>
      rw [h'] at h
      simp only at h
      split at h
      · rename_i hc; cases h; exact ⟨List.mem_cons_self, hc⟩
      · cases h

theorem lastMember_none {tag : Nat → Obj} {t : Obj} {cs : List Nat}
    (h : lastMember tag t cs = Option.none) : ∀ c ∈ cs, Obj.pyEq (tag c) t = false := by
  induction cs with
  | nil => intro c hc; cases hc
  | cons c cs ih =>
    simp only [lastMember] at h
    cases h' : lastMember tag t cs with
    | some k' => rw [h'] at h; cases h
    | none =>
      rw [h'] at h
      simp only at h
      split at h
      · cases h
      · rename_i hc
        intro x hx
        rcases List.mem_cons.mp hx with rfl | hx
        · simpa using hc
        · exact ih h' x hx

theorem lastMember_injective {tag : Nat → Obj} {cs : List Nat} (hinj : InjectiveOn tag cs) {c : Nat} (hc : c ∈ cs) :
    lastMember tag (tag c) cs = some c := by
  cases h : lastMember tag (tag c) cs with
  | some k =>
    have := lastMember_some h
    rw [hinj k this.1 c hc this.2]
  | none =>
    have := lastMember_none h c hc
    rw [Obj.pyEq_refl] at this
    cases this

theorem lookTag_hashable {U : TU} {t : Obj} (ht : tagHashable t = true) :
    lookTag U t = match lastMember U.tag t U.members with
      | some k => .found k
      | Option.none => .missing := by
  unfold lookTag
  rw [if_pos ht, hookGet_tagToHook]
  cases lastMember U.tag t U.members <;> rfl

theorem lookTag_unhashable {U : TU} {t : Obj} (ht : tagHashable t = false) : lookTag U t = .unhashable := by
  unfold lookTag
  simp [ht]

/-! ### dict facts about the tag key -/

theorem dictSet_fresh' {d : List (Obj × Obj)} {k : Obj} (h : dlookup d k = Option.none) (v : Obj) :
    dictSet d k v = d ++ [(k, v)] := by
  induction d with
  | nil => simp [dictSet]
  | cons q rest ih =>
    obtain ⟨k', v'⟩ := q
    simp only [dlookup] at h
    split at h
    · cases h
    · rename_i hne
      simp only [dictSet, if_neg hne, ih h, List.cons_append]

theorem dlookup_append_fresh {d : List (Obj × Obj)} {k : Obj} (h : dlookup d k = Option.none) (v : Obj) :
    dlookup (d ++ [(k, v)]) k = some v := by
  induction d with
  | nil => simp [dlookup, Obj.pyEq_refl]
  | cons q rest ih =>
    obtain ⟨k', v'⟩ := q
    simp only [dlookup] at h
    split at h
    · cases h
    · rename_i hne
      simp only [List.cons_append, dlookup, if_neg hne, ih h]

theorem dictDel_append_fresh {d : List (Obj × Obj)} {k : Obj} (h : dlookup d k = Option.none) (v : Obj) :
    dictDel (d ++ [(k, v)]) k = d := by
  induction d with
  | nil => simp [dictDel, Obj.pyEq_refl]
  | cons q rest ih =>
    obtain ⟨k', v'⟩ := q
    simp only [dlookup] at h
    split at h
    · cases h
    · rename_i hne
      simp only [List.cons_append, dictDel, if_neg hne, ih h]

/-- `res[tag_name] = tag` when the key is already there: that item is overwritten in place, nothing else moves -/
theorem dictSet_present_str {d : List (Obj × Obj)} {a : String} {old : Obj} (h : dlookup d (.str a) = some old) (v : Obj) :
    ∃ pre post, d = pre ++ (.str a, old) :: post ∧ dlookup pre (.str a) = Option.none ∧
      dictSet d (.str a) v = pre ++ (.str a, v) :: post := by
  induction d with
  | nil => simp [dlookup] at h
  | cons q rest ih =>
    obtain ⟨k', v'⟩ := q
    simp only [dlookup] at h
    split at h
    · rename_i heq
      have hk : k' = .str a := pyEq_str_right.mp heq
      cases h
      subst hk
      exact ⟨[], rest, by simp, by simp [dlookup], by simp [dictSet, Obj.pyEq_refl]⟩
    · rename_i hne
      obtain ⟨pre, post, h1, h2, h3⟩ := ih h
      refine ⟨(k', v') :: pre, post, by simp [h1], by simp [dlookup, hne, h2], ?_⟩
      simp only [dictSet, if_neg hne, h3, List.cons_append]

theorem pyContains_dict (kvs : List (Obj × Obj)) (name : String) :
    pyContains (.dict kvs) name = some (dlookup kvs (.str name)).isSome := rfl


theorem lastMember_injective' {tag : Nat → Obj} {cs : List Nat} (hinj : InjectiveOn tag cs) {c : Nat} (hc : c ∈ cs)
    {t : Obj} (ht : Obj.pyEq (tag c) t = true) : lastMember tag t cs = some c := by
  cases h : lastMember tag t cs with
  | some k =>
    have := lastMember_some h
    have hkc : Obj.pyEq (tag k) (tag c) = true := pyEq_trans' this.2 (by rw [Obj.pyEq_symm]; exact ht)
    rw [hinj k this.1 c hc hkc]
  | none =>
    have := lastMember_none h c hc
    rw [ht] at this
    cases this

theorem configureOk_hashable {U : TU} (h : configureOk U = true) {c : Nat} (hc : c ∈ U.members) :
    tagHashable (U.tag c) = true := by
  unfold configureOk at h
  exact List.all_eq_true.mp h c hc

theorem dictDel_absent {d : List (Obj × Obj)} {k : Obj} (h : dlookup d k = Option.none) : dictDel d k = d := by
  induction d with
  | nil => rfl
  | cons q rest ih =>
    obtain ⟨k', v'⟩ := q
    simp only [dlookup] at h
    split at h
    · cases h
    · rename_i hne
      simp only [dictDel, if_neg hne, ih h]

/-! ### frames -/

theorem Frame.copy_dict {f : Frame} {kvs : List (Obj × Obj)} (h : f.val = .dict kvs) :
    f.copy = some { f with aliased := false } := by
  unfold Frame.copy; rw [h]

theorem Frame.copy_caller {f f1 : Frame} (h : f.copy = some f1) : f1.caller = f.caller ∧ f1.val = f.val := by
  unfold Frame.copy at h
  split at h <;> first | (cases h; exact ⟨rfl, rfl⟩) | cases h

theorem Frame.copy_unaliased_or_nondict {f f1 : Frame} (h : f.copy = some f1) :
    f1.aliased = false ∨ ∀ kvs, f1.val ≠ .dict kvs := by
  unfold Frame.copy at h
  split at h <;> first
    | (cases h; left; rfl)
    | (rename_i hv; cases h; right; intro kvs hk; rw [hv] at hk; cases hk)
    | cases h

theorem Frame.pop_caller {f f2 : Frame} {key t : Obj} (h : f.pop key = some (t, f2))
    (ha : f.aliased = false ∨ ∀ kvs, f.val ≠ .dict kvs) : f2.caller = f.caller := by
  unfold Frame.pop at h
  split at h
  · rename_i kvs hv
    split at h
    · cases h
      rcases ha with ha | ha
      · simp [ha]
      · exact absurd hv (ha kvs)
    · cases h
  · cases h

theorem Frame.pop_dict {f : Frame} {kvs : List (Obj × Obj)} (hv : f.val = .dict kvs) {key t : Obj}
    (h : dlookup kvs key = some t) :
    f.pop key = some (t, { caller := if f.aliased then .dict (dictDel kvs key) else f.caller,
                            val := .dict (dictDel kvs key), aliased := f.aliased }) := by
  unfold Frame.pop; rw [hv]; simp only [h]

theorem Frame.pop_dict_missing {f : Frame} {kvs : List (Obj × Obj)} (hv : f.val = .dict kvs) {key : Obj}
    (h : dlookup kvs key = Option.none) : f.pop key = Option.none := by
  unfold Frame.pop; rw [hv]; simp only [h]

/-! ### dispatch -/

section Dispatch
variable {T H : Type} [DecidableEq T]

theorem regGet_regSet_ne (d : List (T × H)) {U t : T} (h : t ≠ U) (f : H) : regGet (regSet d U f) t = regGet d t := by
  induction d with
  | nil => simp [regSet, regGet, Ne.symm h]
  | cons q rest ih =>
    obtain ⟨k, h'⟩ := q
    simp only [regSet]
    split
    · rename_i hk; subst hk; simp [regGet, Ne.symm h]
    · simp only [regGet, ih]

theorem regGet_regSet_same (d : List (T × H)) (U : T) (f : H) : regGet (regSet d U f) U = some f := by
  induction d with
  | nil => simp [regSet, regGet]
  | cons q rest ih =>
    obtain ⟨k, h'⟩ := q
    simp only [regSet]
    split
    · rename_i hk; simp [regGet, hk]
    · rename_i hk; simp [regGet, hk, ih]

theorem firstMatch_regSet_ne (reg : List (T × H)) (hs : List (Handler T H)) {U t : T} (h : t ≠ U) (f : H) :
    firstMatch (regSet reg U f) hs t = firstMatch reg hs t := by
  induction hs with
  | nil => rfl
  | cons x rest ih =>
    cases x with
    | pred p mk => simp only [firstMatch, ih]
    | unionRegistry => simp only [firstMatch, regGet_regSet_ne reg h f, ih]

end Dispatch

end CattrsModel.Tagged
