import CattrsModel.Core.ObjDef
/-!
# attrs field converters × structure hooks (`prefer_attrib_converters`) — model for C20

Line-by-line model of

* `find_structure_handler` (`gen/_shared.py` L16-64): `findHandler`;
* the per-attribute code the two templates of `make_dict_structure_fn_from_attrs`
  (`gen/__init__.py` L368-502 detailed, L503-663 fast) emit for a handler — `if handler:` /
  `handler == converter._structure_call` / `handler is None` — : `applyHandler`, `fastArg`, `detailedArgs`;
* the interpretive `_structure_attribute` (`converters.py` L729-749): `structAttr`, and its two callers
  `structure_attrs_fromdict` / `structure_attrs_fromtuple`: `interpDictArgs` / `interpTupleArgs`;
* the `__init__` attrs generates (argument or default, then the field converter): `attrsInit`.

Everything the property quantifies over is a parameter:

* `T` — the type expressions; `Env.disp : T → Disp` is what `c.get_structure_hook(t, cache_result=False)` /
  `c._structure_func.dispatch(t)` does (raise `StructureHandlerNotFoundError` — the default fallback factory
  since 24.2 —, raise something else — a registered hook factory that raises —, return `raise_error` — the legacy
  fallback factory —, return `_structure_call`, return any other hook `h`), `Env.construct t x` is the call `t(x)`;
* a hook returns `HR`: a value, a `StructureHandlerNotFoundError` raised *inside* the hook at call time
  (`shnf`; e.g. `_structure_optional` for `Optional[U]`, `U` unsupported), or any other exception (`fail`);
* a field converter `K : Obj → Option Obj` (`none` = it raises).

Normalisations (stated once): the outcome of a call is `Option` (which exception is raised is not part of the
property), therefore the order in which a template evaluates the per-attribute expressions (fast template:
defaulted attributes first into `res`, then the positional arguments, then `kw_only` ones) is not observable and
the argument list is kept in declaration order; arguments are bound to attributes by position in that list
(attrs forbids a mandatory positional attribute after a defaulted one, so the positional arguments of the fast
template bind to exactly the attributes they were computed for).  Only `init=True` attributes are modelled.
`RecursionError` (L62-64, reference cycles): `Disp.cycle` / `Handler.late` / `Env.late`.
Not modelled (generator never produces them): bare `Final` with a default (L40-56),
per-attribute overrides (`override.struct_hook`, `rename`, `omit`), non-mapping payloads.
-/
namespace CattrsModel
namespace FieldConv

/-- result of calling a structure hook -/
inductive HR where
  | ok (v : Obj)
  | shnf          -- `StructureHandlerNotFoundError` raised inside the hook (late dispatch of a component)
  | fail          -- any other exception
  deriving Inhabited

/-- the value, if the call returned -/
def HR.toOption : HR → Option Obj
  | .ok v => some v
  | .shnf => Option.none
  | .fail => Option.none

/-- outcome of looking a type up in the structure dispatch -/
inductive Disp where
  | notFound                  -- the fallback factory raises `StructureHandlerNotFoundError`
  | lookupFails               -- the lookup raises something else (a registered hook factory that raises)
  | raiseError                -- the (legacy) fallback factory returns `raise_error`
  | structureCall             -- `BaseConverter._structure_call`
  | fn (h : Obj → HR)         -- any other hook
  | cycle                     -- the lookup raises `RecursionError`: the type is (or wraps) a class whose hook is being
                              -- generated right now (`already_generating`) — a reference cycle; the hook exists once
                              -- generation has finished, and `c.structure(x, t)` reaches it at call time
  deriving Inhabited

structure Env (T : Type) where
  disp : T → Disp
  construct : T → Obj → HR
  /-- `c.structure(x, t)` at call time, for a type whose lookup ended in a `RecursionError` while a hook was generated -/
  late : T → Obj → HR := fun _ _ => .fail

/-- an `init=True` attrs attribute -/
structure FField (T : Type) where
  name : String
  ty : Option T                          -- `a.type` (`None` = no annotation)
  conv : Option (Obj → Option Obj)       -- `a.converter`
  dflt : Option Obj                      -- `a.default` (`NOTHING` = `none`; factories: their product)

/-- an attribute together with the argument passed for it (`none` = not passed) -/
abbrev Args (T : Type) := List (FField T × Option Obj)
abbrev Inst := List (String × Obj)

variable {T : Type}

/-! ### `find_structure_handler` -/

inductive Handler (T : Type) where
  | none                        -- `handler = None`
  | found (t : T) (d : Disp)    -- the object returned by `c.get_structure_hook(t)`
  | structure                   -- `c.structure`
  | late (t : T)                -- `c.structure` returned by the outer `except RecursionError` (L62-64), called on `(x, t)`

/-- `find_structure_handler(a, type, c, prefer_attrs_converters)`; `none` = the call raises
(`StructureHandlerNotFoundError` out of the unguarded lookup of L58) -/
def findHandler (env : Env T) (prefer : Bool) (f : FField T) : Option (Handler T) :=
  if f.conv.isSome && prefer then                                   -- L24
    some .none                                                      -- L27
  else if f.conv.isSome && !prefer && f.ty.isSome then              -- L28-30
    match f.ty with
    | some t =>
      match env.disp t with                                         -- L32
      | .notFound => some .none                                     -- L33-34
      | .lookupFails => Option.none                                 -- not a `StructureHandlerNotFoundError`: propagates
      | .raiseError => some .none                                   -- L37-38 `handler == raise_error`
      | .structureCall => some (.found t .structureCall)
      | .fn h => some (.found t (.fn h))
      | .cycle => some (.late t)                                    -- not caught by L33: reaches L62-64, late binding
    | Option.none => some .structure                                -- (unreachable)
  else
    match f.ty with
    | some t =>                                                     -- L39
      match env.disp t with                                         -- L58 (not guarded)
      | .notFound => Option.none
      | .lookupFails => Option.none
      | .raiseError => some (.found t .raiseError)
      | .structureCall => some (.found t .structureCall)
      | .fn h => some (.found t (.fn h))
      | .cycle => some (.late t)                                    -- L62-64
    | Option.none => some .structure                                -- L60

/-! ### what a template emits for a handler -/

/-- calling the object the dispatch returned, on `(x, t)` -/
def callDisp (env : Env T) (t : T) : Disp → Obj → HR
  | .notFound, _ => .shnf                -- interpretive path only: the dispatch itself raises
  | .lookupFails, _ => .fail             -- interpretive path only: the dispatch raises another exception
  | .raiseError, _ => .shnf              -- `raise_error(x, t)`
  | .structureCall, x => env.construct t x   -- templates: the *type* is bound to the handler name, `t(o[k])`
  | .fn h, x => h x
  | .cycle, x => env.late t x            -- interpretive path: no hook is being generated, the dispatch returns the hook

/-- the expression emitted for the attribute: `o[k]` when `handler` is `None`/falsy, `t(o[k])` when it is
`_structure_call`, `handler(o[k], t)` otherwise; `c.structure(o[k], None)` dispatches on `None`, whose hook
is the identity (first predicate of `BaseConverter.__init__`) -/
def applyHandler (env : Env T) : Handler T → Obj → HR
  | .none, x => .ok x
  | .found t d, x => callDisp env t d x
  | .structure, x => .ok x
  | .late t, x => env.late t x

/-- handlers of all attributes, computed when the hook is generated; `none` = generation raises -/
def genHandlers (env : Env T) (prefer : Bool) : List (FField T) → Option (List (FField T × Handler T))
  | [] => some []
  | f :: fs =>
    match findHandler env prefer f with
    | Option.none => Option.none
    | some h => (genHandlers env prefer fs).map ((f, h) :: ·)

def lookup (kvs : List (String × Obj)) (k : String) : Option Obj :=
  match kvs with
  | [] => Option.none
  | (k', v) :: rest => if k' == k then some v else lookup rest k

/-- fast template, one attribute: required → `handler(o['k'], t),` (a `KeyError` when absent);
defaulted → `if 'k' in o: res['a'] = handler(o['k'], t)`.  `none` = raises -/
def fastArg (env : Env T) (kvs : List (String × Obj)) (f : FField T) (h : Handler T) : Option (Option Obj) :=
  match lookup kvs f.name with
  | Option.none => if f.dflt.isSome then some Option.none else Option.none
  | some raw =>
    match (applyHandler env h raw).toOption with
    | some v => some (some v)
    | Option.none => Option.none

def fastArgs (env : Env T) (kvs : List (String × Obj)) : List (FField T × Handler T) → Option (Args T)
  | [] => some []
  | (f, h) :: rest =>
    match fastArg env kvs f h with
    | Option.none => Option.none
    | some a => (fastArgs env kvs rest).map ((f, a) :: ·)

/-- detailed template, one attribute: `[if 'k' in o:] try: res['a'] = handler(o['k'], t)
except Exception as e: errors.append(e)`; `none` = an exception was recorded (a `KeyError` for an absent
required key, or whatever the handler raised), `some none` = the `if` was not entered -/
def detailedArg (env : Env T) (kvs : List (String × Obj)) (f : FField T) (h : Handler T) : Option (Option Obj) :=
  match lookup kvs f.name with
  | Option.none => if f.dflt.isSome then some Option.none else Option.none
  | some raw =>
    match (applyHandler env h raw).toOption with
    | some v => some (some v)
    | Option.none => Option.none

/-- detailed template: all attributes are processed; returns `res` and whether `errors` is non-empty -/
def detailedArgs (env : Env T) (kvs : List (String × Obj)) : List (FField T × Handler T) → Args T × Bool
  | [] => ([], false)
  | (f, h) :: rest =>
    let r := detailedArgs env kvs rest
    let a := detailedArg env kvs f h
    -- entry of `res` (none when the block raised or was skipped); `errors` grows when the block raised
    ((f, a.join) :: r.1, a.isNone || r.2)

/-! ### the class's `__init__` -/

def applyConv (f : FField T) (v : Obj) : Option Obj :=
  match f.conv with
  | some k => k v
  | Option.none => some v

/-- attrs-generated `__init__`: the argument or the default (a `TypeError` when neither), then the converter -/
def attrsInit : Args T → Option Inst
  | [] => some []
  | (f, a) :: rest =>
    match (match a with | some v => some v | Option.none => f.dflt) with
    | Option.none => Option.none
    | some v =>
      match applyConv f v with
      | Option.none => Option.none
      | some v' => (attrsInit rest).map ((f.name, v') :: ·)

/-- `Converter`, dict strategy, `detailed_validation=False` -/
def genFast (env : Env T) (prefer : Bool) (fields : List (FField T)) (kvs : List (String × Obj)) : Option Inst :=
  match genHandlers env prefer fields with
  | Option.none => Option.none
  | some hs =>
    match fastArgs env kvs hs with
    | Option.none => Option.none
    | some args => attrsInit args

/-- `Converter`, dict strategy, `detailed_validation=True`: `if errors: raise ClassValidationError`, then
`__cl(**res)` inside `try … except Exception as exc: raise ClassValidationError([exc])` -/
def genDetailed (env : Env T) (prefer : Bool) (fields : List (FField T)) (kvs : List (String × Obj)) : Option Inst :=
  match genHandlers env prefer fields with
  | Option.none => Option.none
  | some hs =>
    let r := detailedArgs env kvs hs
    match r.2 with
    | true => Option.none            -- `if errors: raise ClassValidationError`
    | false => attrsInit r.1

/-! ### the interpretive path -/

/-- `_structure_attribute(a, value)`; `none` = raises -/
def structAttr (env : Env T) (prefer : Bool) (f : FField T) (value : Obj) : Option Obj :=
  if prefer && f.conv.isSome then some value                       -- L733-738
  else
    match f.ty with
    | Option.none => some value                                     -- L739-741
    | some t =>
      match callDisp env t (env.disp t) value with                  -- L744 (lookup *and* call inside the `try`)
      | .ok v => some v
      | .shnf => if f.conv.isSome then some value else Option.none  -- L745-749
      | .fail => Option.none

/-- `structure_attrs_fromdict`: `try: val = obj[a.name] except KeyError: continue` -/
def interpDictArgs (env : Env T) (prefer : Bool) (kvs : List (String × Obj)) : List (FField T) → Option (Args T)
  | [] => some []
  | f :: fs =>
    match lookup kvs f.name with
    | Option.none => (interpDictArgs env prefer kvs fs).map ((f, Option.none) :: ·)
    | some val =>
      match structAttr env prefer f val with
      | Option.none => Option.none
      | some v => (interpDictArgs env prefer kvs fs).map ((f, some v) :: ·)

/-- `structure_attrs_fromtuple`: `for a, value in zip(fields(cl), obj)` -/
def interpTupleArgs (env : Env T) (prefer : Bool) : List (FField T) → List Obj → Option (Args T)
  | [], _ => some []
  | f :: fs, [] => (interpTupleArgs env prefer fs []).map ((f, Option.none) :: ·)
  | f :: fs, x :: xs =>
    match structAttr env prefer f x with
    | Option.none => Option.none
    | some v => (interpTupleArgs env prefer fs xs).map ((f, some v) :: ·)

def interpDict (env : Env T) (prefer : Bool) (fields : List (FField T)) (kvs : List (String × Obj)) : Option Inst :=
  match interpDictArgs env prefer kvs fields with
  | Option.none => Option.none
  | some args => attrsInit args

def interpTuple (env : Env T) (prefer : Bool) (fields : List (FField T)) (xs : List Obj) : Option Inst :=
  match interpTupleArgs env prefer fields xs with
  | Option.none => Option.none
  | some args => attrsInit args

/-! ### converters -/

/-- the options of a converter that matter here -/
structure FCfg where
  gen : Bool          -- `Converter` (generated hooks) / `BaseConverter`
  tupleStrat : Bool   -- `unstruct_strat=AS_TUPLE`: both classes use `structure_attrs_fromtuple`
  detailed : Bool     -- `detailed_validation`
  prefer : Bool       -- `prefer_attrib_converters`
  deriving Repr, DecidableEq, Inhabited

/-- `converter.structure(mapping, cl)` under the dict strategy -/
def structDict (cfg : FCfg) (env : Env T) (fields : List (FField T)) (kvs : List (String × Obj)) : Option Inst :=
  if cfg.gen then
    (if cfg.detailed then genDetailed env cfg.prefer fields kvs else genFast env cfg.prefer fields kvs)
  else interpDict env cfg.prefer fields kvs

/-- `converter.structure(sequence, cl)` under the tuple strategy (either class, either validation mode) -/
def structTuple (cfg : FCfg) (env : Env T) (fields : List (FField T)) (xs : List Obj) : Option Inst :=
  interpTuple env cfg.prefer fields xs

/-! ### the declarative rule of the property statement -/

/-- "a structure hook exists for `T`" -/
def hasHook (env : Env T) (t : T) : Bool :=
  match env.disp t with
  | .structureCall => true
  | .fn _ => true
  | .cycle => true            -- the hook exists: it is the one being generated
  | .notFound => false
  | .lookupFails => false
  | .raiseError => false

/-- the lookup of a hook for `T` raises something other than `StructureHandlerNotFoundError` (outside the
property statement, which only knows "a hook exists" / "no hook can be found"; both code paths raise) -/
def lookupBroken (env : Env T) (t : T) : Bool :=
  match env.disp t with
  | .lookupFails => true
  | .notFound => false
  | .raiseError => false
  | .structureCall => false
  | .fn _ => false
  | .cycle => false

/-- "the result of `T`'s structure hook" on `raw` (`none`: there is no hook, or it raises) -/
def hookResult (env : Env T) (t : T) (raw : Obj) : Option Obj :=
  match env.disp t with
  | .structureCall => (env.construct t raw).toOption
  | .fn h => (h raw).toOption
  | .cycle => (env.late t raw).toOption
  | .notFound => Option.none
  | .lookupFails => Option.none
  | .raiseError => Option.none

/-- the three-way rule: field with converter `K` and type `T`: by default `K (hook_T raw)` when `T` has a hook,
`K raw` when the field has no type or no hook can be found; with the flag always `K raw`; fields without a
converter: the hook's result (an error when there is none), the raw value when untyped -/
def fieldSpec (env : Env T) (prefer : Bool) (f : FField T) (raw : Obj) : Option Obj :=
  match f.conv with
  | some k =>
    if prefer then k raw
    else
      match f.ty with
      | Option.none => k raw
      | some t =>
        if hasHook env t then (hookResult env t raw).bind k
        else if lookupBroken env t then Option.none      -- neither a hook nor "no hook": the lookup itself fails
        else k raw
  | Option.none =>
    match f.ty with
    | Option.none => some raw
    | some t => hookResult env t raw

/-- value of one field given its raw input, or its absence (then the default, through the converter) -/
def fieldOutcome (env : Env T) (prefer : Bool) (f : FField T) : Option Obj → Option Obj
  | some raw => fieldSpec env prefer f raw
  | Option.none =>
    match f.dflt with
    | Option.none => Option.none
    | some d => applyConv f d

/-- the instance: every field by `fieldOutcome`; any failing field fails the call -/
def classSpec (env : Env T) (prefer : Bool) : Args T → Option Inst
  | [] => some []
  | (f, r) :: rest =>
    match fieldOutcome env prefer f r with
    | Option.none => Option.none
    | some v => (classSpec env prefer rest).map ((f.name, v) :: ·)

/-- raw inputs selected by a mapping payload -/
def rawsDict (fields : List (FField T)) (kvs : List (String × Obj)) : Args T :=
  fields.map (fun f => (f, lookup kvs f.name))

/-- raw inputs selected by a sequence payload -/
def rawsTuple : List (FField T) → List Obj → Args T
  | [], _ => []
  | f :: fs, [] => (f, Option.none) :: rawsTuple fs []
  | f :: fs, x :: xs => (f, some x) :: rawsTuple fs xs

/-! ### the two regions where the code departs from the rule (findings F35, F36) -/

/-- hook generation raises for this attribute, whatever the payload: the unguarded lookup of L58 (no converter,
no hook), or a lookup that raises something else (unless L24 skips the lookup) -/
def eagerField (env : Env T) (prefer : Bool) (f : FField T) : Bool :=
  match f.ty with
  | some t =>
    (match env.disp t with
      | .notFound => f.conv.isNone
      | .lookupFails => !(f.conv.isSome && prefer)
      | .raiseError => false
      | .structureCall => false
      | .fn _ => false
      | .cycle => false)
  | Option.none => false

def eagerFail (env : Env T) (prefer : Bool) (fields : List (FField T)) : Bool := fields.any (eagerField env prefer)

/-- F35 excluded: an attribute whose hook generation fails has no default (so the interpretive path cannot
succeed by skipping it) -/
def NoLazyEscape (env : Env T) (prefer : Bool) (fields : List (FField T)) : Prop :=
  ∀ f ∈ fields, eagerField env prefer f = true → f.dflt = Option.none

/-- F36 excluded: a hook that was found does not raise `StructureHandlerNotFoundError` itself -/
def NoDeepSHNF (env : Env T) : Prop :=
  (∀ t h x, env.disp t = .fn h → h x ≠ .shnf) ∧ (∀ t x, env.disp t = .structureCall → env.construct t x ≠ .shnf) ∧
  (∀ t x, env.disp t = .cycle → env.late t x ≠ .shnf)

end FieldConv
end CattrsModel
