import CattrsModel.Conv.Driver
import CattrsModel.FieldConv.Model
/-!
# Line-protocol operation of the field-converter model (driver only; no theorem depends on this file)

`FIELDCONV <world> <fcfg> (fields <field>…) <payload>`

* `<world>`   as for `WORLD` (classes / enums the field types may mention)
* `<fcfg>`    `(fcfg <gen> <tuple> <detailed> <prefer> <legacy>)`, all `0|1`; `legacy` = the converter was built with
              `structure_fallback_factory=lambda _: raise_error`
* `<field>`   `(ff <name> <ty> <conv> <dflt>)`; `<ty>` = `-` (no annotation) | `unsup` (a class without hook) |
              `optunsup` (`Optional[<class without hook>]`) | `broken` (a class whose registered hook factory raises
              `ValueError`) | `(ty <type term>)`;
              `<conv>` = `-` | `(k <kind> <tag>)`, kind `tag` (never raises), `boom` (raises on the string "boom"),
              `needint` (raises unless the argument is exactly an `int`); a converter returns the tuple `(tag, x)`;
              `<dflt>` = `-` | `(c <obj>)`
* `<payload>` a dict object with string keys (dict strategy) or a list/tuple object (tuple strategy)

reply `(r <NoLazyEscape 0|1> <NoDeepSHNF-for-this-class 0|1> <outcome>)`, `<outcome>` = `(ok (I 0 (<name> <obj>)…))` |
`(err)` | `unmodelled` (a leaf coercion outside the modelled fragment is involved).

The instantiation of the abstract parameters of the model: `T := FTy`; supported types dispatch to the data-path
model (`convStructure`, i.e. `stF`/`stD` of `Conv/`), the classes registered with `_structure_call` in
`BaseConverter.__init__` (`int float str bytes Enum`, and `bool` through `int`) answer `structureCall`.
-/
namespace CattrsModel.FieldConv
open CattrsModel Sexp

inductive FTy where
  | sup (t : Ty)
  | unsup
  | optUnsup
  | broken

structure DCfg where
  fc : FCfg
  legacy : Bool

def dataCfg (c : FCfg) : Cfg := { gen := c.gen, tupleStrat := c.tupleStrat, detailed := c.detailed, forbid := false }

def runHook (w : World) (c : FCfg) (t : Ty) (x : Obj) : HR :=
  match convStructure w (dataCfg c) t x with
  | some v => .ok v
  | Option.none => .fail

def isCallTy : Ty → Bool
  | .int | .float | .str | .bytes | .bool | .enum _ => true
  | _ => false

def drvEnv (w : World) (c : DCfg) : Env FTy :=
  { disp := fun t =>
      match t with
      | .sup ty => if isCallTy ty then .structureCall else .fn (runHook w c.fc ty)
      | .unsup => if c.legacy then .raiseError else .notFound
      | .optUnsup => .fn (fun x => match x with | .none => .ok .none | _ => .shnf)
      | .broken => .lookupFails
    construct := fun t x =>
      match t with
      | .sup ty => runHook w c.fc ty x
      | _ => .fail }

def tagged (tag : String) (x : Obj) : Obj := .coll .tuple [.str tag, x]

def convOf (kind tag : String) : Option (Obj → Option Obj) :=
  match kind with
  | "tag" => some (fun x => some (tagged tag x))
  | "boom" => some (fun x => match x with | .str "boom" => Option.none | x => some (tagged tag x))
  | "needint" => some (fun x => match x with | .int i => some (tagged tag (.int i)) | _ => Option.none)
  | _ => Option.none

def fcfgOfSexp : Sexp → Option DCfg
  | .list [.atom "fcfg", g, t, d, p, l] => do
      some { fc := { gen := (← bool? g), tupleStrat := (← bool? t), detailed := (← bool? d), prefer := (← bool? p) },
             legacy := (← bool? l) }
  | _ => Option.none

def ffOfSexp : Sexp → Option (FField FTy)
  | .list [.atom "ff", .str name, ty, conv, dflt] => do
      let ty ← (match ty with
        | .atom "-" => some Option.none
        | .atom "unsup" => some (some FTy.unsup)
        | .atom "optunsup" => some (some FTy.optUnsup)
        | .atom "broken" => some (some FTy.broken)
        | .list [.atom "ty", t] => (tyOfSexp t).map (fun t => some (FTy.sup t))
        | _ => Option.none)
      let conv ← (match conv with
        | .atom "-" => some Option.none
        | .list [.atom "k", .atom kind, .str tag] => (convOf kind tag).map some
        | _ => Option.none)
      let dflt ← (match dflt with
        | .atom "-" => some Option.none
        | .list [.atom "c", v] => (objOfSexp v).map some
        | _ => Option.none)
      some { name := name, ty := ty, conv := conv, dflt := dflt }
  | _ => Option.none

def strKeys : List (Obj × Obj) → Option (List (String × Obj))
  | [] => some []
  | (.str k, v) :: rest => (strKeys rest).map ((k, v) :: ·)
  | _ => Option.none

/-- is a leaf coercion outside the modelled fragment involved? (over-approximation) -/
def unmodelledField (w : World) (c : FCfg) (f : FField FTy) (raw : Option Obj) : Bool :=
  match f.ty, raw with
  | some (.sup ty), some x => unmodelledST w (dataCfg c) ty x
  | _, _ => false

def scopeLazy (env : Env FTy) (prefer : Bool) (fields : List (FField FTy)) : Bool :=
  fields.all (fun f => !eagerField env prefer f || f.dflt.isNone)

def scopeDeep (fields : List (FField FTy)) : Bool :=
  fields.all (fun f => match f.ty with | some .optUnsup => false | _ => true)

def replyInst (r : Option Inst) : Sexp :=
  match r with
  | Option.none => .list [.atom "err"]
  | some fs =>
    let s := sexpOfObj (.inst 0 fs)
    if hasMark s.toString then .atom "unmodelled" else .list [.atom "ok", s]

def fieldConvHandle (op : String) (args : List Sexp) : Option Sexp :=
  match op, args with
  | "FIELDCONV", [wd, cfg, .list (.atom "fields" :: ffs), payload] => do
      let w ← worldOfSexp wd
      let c ← fcfgOfSexp cfg
      let fields ← ffs.mapM ffOfSexp
      let p ← objOfSexp payload
      let env := drvEnv w c
      let scope (o : Sexp) : Sexp := .list [.atom "r", ofBool (scopeLazy env c.fc.prefer fields), ofBool (scopeDeep fields), o]
      if c.fc.tupleStrat then
        match p with
        | .coll .list xs | .coll .tuple xs =>
          if (rawsTuple fields xs).any (fun a => unmodelledField w c.fc a.1 a.2) then some (scope (.atom "unmodelled"))
          else some (scope (replyInst (structTuple c.fc env fields xs)))
        | _ => some (scope (.atom "unmodelled"))
      else
        match p with
        | .dict kvs =>
          match strKeys kvs with
          | some skvs =>
            if (rawsDict fields skvs).any (fun a => unmodelledField w c.fc a.1 a.2) then some (scope (.atom "unmodelled"))
            else some (scope (replyInst (structDict c.fc env fields skvs)))
          | Option.none => some (scope (.atom "unmodelled"))
        | _ => some (scope (.atom "unmodelled"))
  | _, _ => Option.none

end CattrsModel.FieldConv
