import CattrsModel.Conv.Driver
import CattrsModel.FieldConv.Model
import CattrsModel.FieldConv.History
import CattrsModel.FieldConv.Presence
/-!
# Line-protocol operations of the field-converter model (driver only; no theorem depends on this file)

`FIELDCONV` (below), `FIELDHIST` (one converter over a history of registrations / uses / copies: `History.lean`) and
`FIELDCYCLE` (reference cycles: `Disp.cycle` / `Handler.late`) — the latter two are described where they are defined.

`FIELDCONV <world> <fcfg> (fields <field>…) <payload>`

* `<world>`   as for `WORLD` (classes / enums the field types may mention)
* `<fcfg>`    `(fcfg <gen> <tuple> <detailed> <prefer> <legacy>)`, all `0|1`; `legacy` = the converter was built with
              `structure_fallback_factory=lambda _: raise_error`
* `<field>`   `(ff <name> <ty> <conv> <dflt>)`; `<ty>` = `-` (no annotation) | `unsup` (a class without hook) |
              `optunsup` (`Optional[<class without hook>]`) | `broken` (a class whose registered hook factory raises
              `ValueError`) | `(ty <type term>)`;
              `<conv>` = `-` | `(k <kind> <tag>)`, kind `tag` (never raises), `boom` (raises on the string "boom"),
              `needint` (raises unless the argument is exactly an `int`); a converter returns the tuple `(tag, x)`;
              `(kf <kind> <tag>)` = the same converter as a callable OBJECT whose truth value is `False`
              (`FieldConv/Presence.lean`: the interpretive path tests the converter by truthiness);
              `<dflt>` = `-` | `(c <obj>)`
* `<payload>` a dict object with string keys (dict strategy) or a list/tuple object (tuple strategy)

reply `(r <NoLazyEscape 0|1> <NoDeepSHNF-for-this-class 0|1> <outcome>)`, `<outcome>` = `(ok (I 0 (<name> <obj>)…))` |
`(err)` | `unmodelled` (a leaf coercion outside the modelled fragment is involved).

The instantiation of the abstract parameters of the model: `T := FTy`; supported types dispatch to the data-path
model (`convStructure`, i.e. `stF`/`stD` of `Conv/`), the classes registered with `_structure_call` in
`BaseConverter.__init__` (`int float str bytes Enum`, and `bool` through `int`) answer `structureCall`.
-/
namespace CattrsModel.FieldConv
open CattrsModel Sexp

inductive FTy where
  | sup (t : Ty)
  | unsup
  | optUnsup
  | broken
  | ht (j : Nat)      -- history stream: a plain class that has a hook only once one was registered (`FIELDHIST`)
  | link (i : Nat)    -- cycle stream: the type of the `link` field of class `i` of a reference cycle (`FIELDCYCLE`)

structure DCfg where
  fc : FCfg
  legacy : Bool

def dataCfg (c : FCfg) : Cfg := { gen := c.gen, tupleStrat := c.tupleStrat, detailed := c.detailed, forbid := false }

def runHook (w : World) (c : FCfg) (t : Ty) (x : Obj) : HR :=
  match convStructure w (dataCfg c) t x with
  | some v => .ok v
  | Option.none => .fail

def isCallTy : Ty → Bool
  | .int | .float | .str | .bytes | .bool | .enum _ => true
  | _ => false

def drvEnv (w : World) (c : DCfg) : Env FTy :=
  { disp := fun t =>
      match t with
      | .sup ty => if isCallTy ty then .structureCall else .fn (runHook w c.fc ty)
      | .unsup => if c.legacy then .raiseError else .notFound
      | .optUnsup => .fn (fun x => match x with | .none => .ok .none | _ => .shnf)
      | .broken => .lookupFails
      | .ht _ => if c.legacy then .raiseError else .notFound
      | .link _ => .notFound
    construct := fun t x =>
      match t with
      | .sup ty => runHook w c.fc ty x
      | _ => .fail }

def tagged (tag : String) (x : Obj) : Obj := .coll .tuple [.str tag, x]

def convOf (kind tag : String) : Option (Obj → Option Obj) :=
  match kind with
  | "tag" => some (fun x => some (tagged tag x))
  | "boom" => some (fun x => match x with | .str "boom" => Option.none | x => some (tagged tag x))
  | "needint" => some (fun x => match x with | .int i => some (tagged tag (.int i)) | _ => Option.none)
  | _ => Option.none

def fcfgOfSexp : Sexp → Option DCfg
  | .list [.atom "fcfg", g, t, d, p, l] => do
      some { fc := { gen := (← bool? g), tupleStrat := (← bool? t), detailed := (← bool? d), prefer := (← bool? p) },
             legacy := (← bool? l) }
  | _ => Option.none

def ffOfSexp : Sexp → Option (FField FTy)
  | .list [.atom "ff", .str name, ty, conv, dflt] => do
      let ty ← (match ty with
        | .atom "-" => some Option.none
        | .atom "unsup" => some (some FTy.unsup)
        | .atom "optunsup" => some (some FTy.optUnsup)
        | .atom "broken" => some (some FTy.broken)
        | .list [.atom "ty", t] => (tyOfSexp t).map (fun t => some (FTy.sup t))
        | .list [.atom "ht", j] => (atomNat? j).map (fun j => some (FTy.ht j))
        | .list [.atom "link", i] => (atomNat? i).map (fun i => some (FTy.link i))
        | _ => Option.none)
      let conv ← (match conv with
        | .atom "-" => some Option.none
        | .list [.atom "k", .atom kind, .str tag] => (convOf kind tag).map some
        | _ => Option.none)
      let dflt ← (match dflt with
        | .atom "-" => some Option.none
        | .list [.atom "c", v] => (objOfSexp v).map some
        | _ => Option.none)
      some { name := name, ty := ty, conv := conv, dflt := dflt }
  | _ => Option.none

/-- a field with the truth value of its converter object: `(kf …)` = falsy -/
def pfOfSexp : Sexp → Option (Presence.PField FTy)
  | .list [.atom "ff", name, ty, .list [.atom "kf", kind, tag], dflt] =>
      (ffOfSexp (.list [.atom "ff", name, ty, .list [.atom "k", kind, tag], dflt])).map (fun f => { f := f, truthy := false })
  | s => (ffOfSexp s).map (fun f => { f := f, truthy := true })

def strKeys : List (Obj × Obj) → Option (List (String × Obj))
  | [] => some []
  | (.str k, v) :: rest => (strKeys rest).map ((k, v) :: ·)
  | _ => Option.none

/-- is a leaf coercion outside the modelled fragment involved? (over-approximation) -/
def unmodelledField (w : World) (c : FCfg) (f : FField FTy) (raw : Option Obj) : Bool :=
  match f.ty, raw with
  | some (.sup ty), some x => unmodelledST w (dataCfg c) ty x
  | _, _ => false

def scopeLazy (env : Env FTy) (prefer : Bool) (fields : List (FField FTy)) : Bool :=
  fields.all (fun f => !eagerField env prefer f || f.dflt.isNone)

def scopeDeep (fields : List (FField FTy)) : Bool :=
  fields.all (fun f => match f.ty with | some .optUnsup => false | _ => true)

def replyInst (r : Option Inst) : Sexp :=
  match r with
  | Option.none => .list [.atom "err"]
  | some fs =>
    let s := sexpOfObj (.inst 0 fs)
    if hasMark s.toString then .atom "unmodelled" else .list [.atom "ok", s]

/-! ### `FIELDHIST`: one converter over time (model `FieldConv/History.lean`)

`FIELDHIST <fcfg> (classes (cls <field>…)…) (steps <step>…)`, `<step>` = `(reg <j>)` | `(copy)` | `(use <class index> <payload>)`;
field types additionally `(ht <j>)`.  The k-th registration for `ht j` installs the hook `x ↦ ("HVal", j, k, x)` (raising on
the string "boom").  Reply `(r <outcome>…)`, one outcome per `use` (dict strategy only). -/

def emptyWorld : World := { classes := [], enums := [] }

def histHook (j v : Nat) : Obj → HR
  | .str "boom" => .fail
  | x => .ok (.coll .tuple [.str "HVal", .int (Int.ofNat j), .int (Int.ofNat v), x])

def histEnvAt (c : DCfg) (regs : List Nat) : Env FTy :=
  let base := drvEnv emptyWorld c
  { base with disp := fun t =>
      match t with
      | .ht j => (match regs.count j with
          | 0 => base.disp (.ht j)
          | v => .fn (histHook j v))
      | t => base.disp t }

def histRun (c : DCfg) (world : Nat → List (FField FTy)) : List (Step Nat) → CState Nat FTy → List Sexp
  | [], _ => []
  | .use i kvs :: rest, st =>
    let r := useStep c.fc world (histEnvAt c) st i kvs
    (if (rawsDict (world i) kvs).any (fun a => unmodelledField emptyWorld c.fc a.1 a.2) then .atom "unmodelled"
     else replyInst r.2) :: histRun c world rest r.1
  | s :: rest, st => histRun c world rest (stepWith true c.fc world (histEnvAt c) st s)

def stepOfSexp : Sexp → Option (Step Nat)
  | .list [.atom "reg", j] => (atomNat? j).map .reg
  | .list [.atom "copy"] => some .copy
  | .list [.atom "use", i, p] => do
      let i ← atomNat? i
      match (← objOfSexp p) with
      | .dict kvs => (strKeys kvs).map (.use i)
      | _ => Option.none
  | _ => Option.none

def clsOfSexp : Sexp → Option (List (FField FTy))
  | .list (.atom "cls" :: ffs) => ffs.mapM ffOfSexp
  | _ => Option.none

/-! ### `FIELDCYCLE`: reference cycles (`Disp.cycle`, `Handler.late`, `Env.late`)

`FIELDCYCLE <fcfg> (cycle (c <wrap> <link has K> <v has K>)…) <entry> <payload>`: class `i` has `v: int` and
`link: <wrap>[class (i+1) mod n] = None`; the lookup for the type of a `link` field ends in a `RecursionError`
(`Disp.cycle`), at call time `c.structure(x, t)` (`Env.late`) is the hook of the wrapper around the next class. -/

def hrList (f : Obj → HR) : List Obj → Option (List Obj)
  | [] => some []
  | x :: xs => match (f x).toOption, hrList f xs with
    | some v, some vs => some (v :: vs)
    | _, _ => Option.none

def hrVals (f : Obj → HR) : List (Obj × Obj) → Option (List (Obj × Obj))
  | [] => some []
  | (k, x) :: xs => match k, (f x).toOption, hrVals f xs with
    | .str k, some v, some vs => some ((.str k, v) :: vs)
    | _, _, _ => Option.none

def ofOpt : Option Obj → HR
  | some v => .ok v
  | Option.none => .fail

/-- the structure hook of `<wrap>[C]`, given the hook `f` of `C` -/
def wrapApply (c : DCfg) (wrap : String) (f : Obj → HR) (x : Obj) : HR :=
  let dictOf (g : Obj → HR) (x : Obj) : HR := match x with
    | .dict kvs => ofOpt ((hrVals g kvs).map .dict)
    | _ => .fail
  let listOf (k : CK) (g : Obj → HR) (x : Obj) : HR := match x with
    | .coll .list xs => ofOpt ((hrList g xs).map (.coll k))
    | _ => .fail
  if wrap ∈ ["bare", "final", "annotated", "newtype", "alias", "annotated-newtype"] then f x
  else if wrap ∈ ["optional", "pep604"] then (match x with | .none => .ok .none | x => f x)
  else if wrap ∈ ["dict", "mapping", "dict-newtype"] then dictOf f x
  else if wrap = "optional-dict" then (match x with | .none => .ok .none | x => dictOf f x)
  else if wrap ∈ ["list", "sequence"] then listOf .list f x
  else if wrap = "tuple-var" then listOf .tuple f x
  else if wrap = "dict-list" then dictOf (listOf .list f) x
  else if wrap = "tuple2" then (match x with
    | .coll .list [a, b] => (match (f a).toOption, (runHook emptyWorld c.fc .int b).toOption with
      | some va, some vb => .ok (.coll .tuple [va, vb])
      | _, _ => .fail)
    | _ => .fail)
  else .fail

def cycFieldsOf (spec : List (String × Bool × Bool)) (i : Nat) : List (FField FTy) :=
  match spec[i]? with
  | Option.none => []
  | some (_, lk, vk) =>
    [ { name := "v", ty := some (.sup .int), conv := if vk then convOf "tag" "K" else Option.none, dflt := Option.none },
      { name := "link", ty := some (.link i), conv := if lk then convOf "tag" "K" else Option.none, dflt := some .none } ]

def cycStruct (c : DCfg) (spec : List (String × Bool × Bool)) : Nat → Nat → Obj → HR
  | 0 => fun _ _ => .fail
  | fuel + 1 => fun i raw =>
    match raw with
    | .dict kvs =>
      match strKeys kvs with
      | some skvs =>
        let base := drvEnv emptyWorld c
        let env : Env FTy := { base with
          disp := fun t => match t with | .link _ => .cycle | t => base.disp t
          late := fun t x => match t with
            | .link k => wrapApply c (match spec[k]? with | some (w, _, _) => w | Option.none => "") 
                (cycStruct c spec fuel ((k + 1) % spec.length)) x
            | _ => .fail }
        match structDict c.fc env (cycFieldsOf spec i) skvs with
        | some inst => .ok (.inst i inst)
        | Option.none => .fail
      | Option.none => .fail
    | _ => .fail

def cycSpecOfSexp : Sexp → Option (String × Bool × Bool)
  | .list [.atom "c", .str w, lk, vk] => do some (w, (← bool? lk), (← bool? vk))
  | _ => Option.none

def fieldConvHandle (op : String) (args : List Sexp) : Option Sexp :=
  match op, args with
  | "FIELDHIST", [cfg, .list (.atom "classes" :: cls), .list (.atom "steps" :: steps)] => do
      let c ← fcfgOfSexp cfg
      let classes ← cls.mapM clsOfSexp
      let steps ← steps.mapM stepOfSexp
      some (.list (.atom "r" :: histRun c (fun i => classes.getD i []) steps init))
  | "FIELDCYCLE", [cfg, .list (.atom "cycle" :: spec), entry, payload] => do
      let c ← fcfgOfSexp cfg
      let spec ← spec.mapM cycSpecOfSexp
      let i ← atomNat? entry
      let p ← objOfSexp payload
      match cycStruct c spec 24 i p with
      | .ok v =>
        let s := sexpOfObj v
        some (if hasMark s.toString then .atom "unmodelled" else .list [.atom "ok", s])
      | _ => some (.list [.atom "err"])
  | "FIELDCONV", [wd, cfg, .list (.atom "fields" :: ffs), payload] => do
      let w ← worldOfSexp wd
      let c ← fcfgOfSexp cfg
      let pfs ← ffs.mapM pfOfSexp
      let fields := pfs.map (·.f)
      let p ← objOfSexp payload
      let env := drvEnv w c
      let scope (o : Sexp) : Sexp := .list [.atom "r", ofBool (scopeLazy env c.fc.prefer fields), ofBool (scopeDeep fields), o]
      if c.fc.tupleStrat then
        match p with
        | .coll .list xs | .coll .tuple xs =>
          if (rawsTuple fields xs).any (fun a => unmodelledField w c.fc a.1 a.2) then some (scope (.atom "unmodelled"))
          else some (scope (replyInst (Presence.structTupleP c.fc env pfs xs)))
        | _ => some (scope (.atom "unmodelled"))
      else
        match p with
        | .dict kvs =>
          match strKeys kvs with
          | some skvs =>
            if (rawsDict fields skvs).any (fun a => unmodelledField w c.fc a.1 a.2) then some (scope (.atom "unmodelled"))
            else some (scope (replyInst (Presence.structDictP c.fc env pfs skvs)))
          | Option.none => some (scope (.atom "unmodelled"))
        | _ => some (scope (.atom "unmodelled"))
  | _, _ => Option.none

end CattrsModel.FieldConv
