import CattrsModel.FieldConv.Model
import CattrsModel.FieldConv.Lemmas
/-!
# "Does this attribute declare a converter?" — presence vs truthiness (C20)

A field converter may be ANY callable, also a callable *object* whose truth value is `False` (a callable look-up
table that is empty, a zero-step pipeline, `__bool__` returning `False`).  The two implementations of the rule test
for the converter differently (read line by line):

* `find_structure_handler` (`gen/_shared.py` L24, L28): `a.converter is not None` — presence.  That is what
  `FieldConv.findHandler` says (`f.conv.isSome`); nothing changes for the generated templates.
* `BaseConverter._structure_attribute` (`converters.py`): `if self._prefer_attrib_converters and attrib_converter:`
  and, in the `except StructureHandlerNotFoundError:` branch, `if attrib_converter:` — TRUTHINESS.

`PField` = an attribute together with the truth value of its converter object; `structAttrP` is
`_structure_attribute` as written.  For truthy converters it is `FieldConv.structAttr` (so everything proved there
carries over: `interpDictP_truthy`, `interpTupleP_truthy`); for a falsy converter the interpretive path behaves as if
the attribute had NO converter while attrs' `__init__` still applies it (`structAttrP_seen`).
Own namespace; nothing in `Model.lean` / `Lemmas.lean` is changed.
-/
namespace CattrsModel.FieldConv.Presence
open CattrsModel CattrsModel.FieldConv

variable {T : Type}

/-- an attribute and `bool(a.converter)` (irrelevant when there is no converter) -/
structure PField (T : Type) where
  f : FField T
  truthy : Bool := true

/-- the attribute as the two truthiness tests of `_structure_attribute` see it -/
def PField.seen (p : PField T) : FField T :=
  if p.truthy then p.f else { p.f with conv := Option.none }

/-- `_structure_attribute(a, value)` as written; `none` = raises -/
def structAttrP (env : Env T) (prefer : Bool) (p : PField T) (value : Obj) : Option Obj :=
  if prefer && (p.f.conv.isSome && p.truthy) then some value           -- `and attrib_converter`
  else
    match p.f.ty with
    | Option.none => some value
    | some t =>
      match callDisp env t (env.disp t) value with
      | .ok v => some v
      | .shnf => if p.f.conv.isSome && p.truthy then some value else Option.none   -- `if attrib_converter:`
      | .fail => Option.none

/-- `structure_attrs_fromdict` (the arguments are bound to the REAL attribute: `__init__` applies its converter) -/
def interpDictArgsP (env : Env T) (prefer : Bool) (kvs : List (String × Obj)) : List (PField T) → Option (Args T)
  | [] => some []
  | p :: ps =>
    match lookup kvs p.f.name with
    | Option.none => (interpDictArgsP env prefer kvs ps).map ((p.f, Option.none) :: ·)
    | some val =>
      match structAttrP env prefer p val with
      | Option.none => Option.none
      | some v => (interpDictArgsP env prefer kvs ps).map ((p.f, some v) :: ·)

/-- `structure_attrs_fromtuple` -/
def interpTupleArgsP (env : Env T) (prefer : Bool) : List (PField T) → List Obj → Option (Args T)
  | [], _ => some []
  | p :: ps, [] => (interpTupleArgsP env prefer ps []).map ((p.f, Option.none) :: ·)
  | p :: ps, x :: xs =>
    match structAttrP env prefer p x with
    | Option.none => Option.none
    | some v => (interpTupleArgsP env prefer ps xs).map ((p.f, some v) :: ·)

def interpDictP (env : Env T) (prefer : Bool) (ps : List (PField T)) (kvs : List (String × Obj)) : Option Inst :=
  match interpDictArgsP env prefer kvs ps with
  | Option.none => Option.none
  | some args => attrsInit args

def interpTupleP (env : Env T) (prefer : Bool) (ps : List (PField T)) (xs : List Obj) : Option Inst :=
  match interpTupleArgsP env prefer ps xs with
  | Option.none => Option.none
  | some args => attrsInit args

/-- `converter.structure(mapping, cl)`, dict strategy, with converter objects of any truth value: the generated
templates read presence (`findHandler` on the attribute itself), the interpretive path truthiness -/
def structDictP (cfg : FCfg) (env : Env T) (ps : List (PField T)) (kvs : List (String × Obj)) : Option Inst :=
  if cfg.gen then structDict cfg env (ps.map (·.f)) kvs else interpDictP env cfg.prefer ps kvs

def structTupleP (cfg : FCfg) (env : Env T) (ps : List (PField T)) (xs : List Obj) : Option Inst :=
  interpTupleP env cfg.prefer ps xs

/-! ### lemmas -/

/-- the interpretive path treats a falsy converter as absent -/
theorem structAttrP_seen (env : Env T) (prefer : Bool) (p : PField T) (v : Obj) :
    structAttrP env prefer p v = structAttr env prefer p.seen v := by
  unfold structAttrP structAttr PField.seen
  cases ht : p.truthy <;> cases hc : p.f.conv <;> cases prefer <;> cases hty : p.f.ty <;> simp [hty] <;>
    (cases callDisp env _ (env.disp _) v <;> simp [hc])

theorem structAttrP_truthy (env : Env T) (prefer : Bool) (p : PField T) (v : Obj) (h : p.truthy = true) :
    structAttrP env prefer p v = structAttr env prefer p.f v := by
  rw [structAttrP_seen]; simp [PField.seen, h]

theorem interpDictArgsP_truthy (env : Env T) (prefer : Bool) (kvs : List (String × Obj)) :
    ∀ (ps : List (PField T)), (∀ p ∈ ps, p.truthy = true) →
      interpDictArgsP env prefer kvs ps = interpDictArgs env prefer kvs (ps.map (·.f)) := by
  intro ps
  induction ps with
  | nil => intro _; simp [interpDictArgsP, interpDictArgs]
  | cons p ps ih =>
    intro h
    have hp : p.truthy = true := h p (by simp)
    have hps : ∀ q ∈ ps, q.truthy = true := fun q hq => h q (by simp [hq])
    simp only [interpDictArgsP, List.map_cons, interpDictArgs, structAttrP_truthy env prefer p _ hp, ih hps]
    cases lookup kvs p.f.name with
    | none => rfl
    | some val => cases structAttr env prefer p.f val <;> rfl

theorem interpTupleArgsP_truthy (env : Env T) (prefer : Bool) :
    ∀ (ps : List (PField T)) (xs : List Obj), (∀ p ∈ ps, p.truthy = true) →
      interpTupleArgsP env prefer ps xs = interpTupleArgs env prefer (ps.map (·.f)) xs := by
  intro ps
  induction ps with
  | nil => intro xs _; simp [interpTupleArgsP, interpTupleArgs]
  | cons p ps ih =>
    intro xs h
    have hp : p.truthy = true := h p (by simp)
    have hps : ∀ q ∈ ps, q.truthy = true := fun q hq => h q (by simp [hq])
    cases xs with
    | nil => simp only [interpTupleArgsP, List.map_cons, interpTupleArgs, ih [] hps]
    | cons x xs =>
      simp only [interpTupleArgsP, List.map_cons, interpTupleArgs, structAttrP_truthy env prefer p _ hp, ih xs hps]
      cases structAttr env prefer p.f x <;> rfl

/-- all converters truthy: the machine with truth values is the machine of `Model.lean` -/
theorem interpDictP_truthy (env : Env T) (prefer : Bool) (ps : List (PField T)) (kvs : List (String × Obj))
    (h : ∀ p ∈ ps, p.truthy = true) :
    interpDictP env prefer ps kvs = interpDict env prefer (ps.map (·.f)) kvs := by
  unfold interpDictP interpDict
  rw [interpDictArgsP_truthy env prefer kvs ps h]
  cases interpDictArgs env prefer kvs (ps.map (·.f)) <;> rfl

theorem interpTupleP_truthy (env : Env T) (prefer : Bool) (ps : List (PField T)) (xs : List Obj)
    (h : ∀ p ∈ ps, p.truthy = true) :
    interpTupleP env prefer ps xs = interpTuple env prefer (ps.map (·.f)) xs := by
  unfold interpTupleP interpTuple
  rw [interpTupleArgsP_truthy env prefer ps xs h]
  cases interpTupleArgs env prefer (ps.map (·.f)) xs <;> rfl

end CattrsModel.FieldConv.Presence
