import CattrsModel.FieldConv.Model
/-!
# Lemmas for C20: the per-attribute case analysis and the folds over the attribute list
-/
namespace CattrsModel
namespace FieldConv

variable {T : Type}

/-! ### one attribute -/

/-- hook generation fails for exactly the attributes of the F35 region -/
theorem findHandler_none_iff (env : Env T) (prefer : Bool) (f : FField T) :
    findHandler env prefer f = Option.none ↔ eagerField env prefer f = true := by
  unfold findHandler eagerField
  cases hc : f.conv <;> cases prefer <;> cases ht : f.ty <;> simp
  all_goals (rename_i t; cases hd : env.disp t <;> simp)

/-- the generated expression followed by the field converter is the three-way rule -/
theorem handler_spec (env : Env T) (prefer : Bool) (f : FField T) (h : Handler T) (raw : Obj)
    (hh : findHandler env prefer f = some h) :
    (applyHandler env h raw).toOption.bind (applyConv f) = fieldSpec env prefer f raw := by
  unfold findHandler at hh
  unfold fieldSpec applyConv
  cases hc : f.conv <;> cases prefer <;> cases ht : f.ty <;> simp [hc, ht] at hh ⊢
  all_goals first
    | (subst hh; simp [applyHandler, HR.toOption])
    | (rename_i t
       cases hd : env.disp t <;> simp [hd] at hh
       all_goals (subst hh; simp [applyHandler, callDisp, hasHook, hookResult, lookupBroken, hd, HR.toOption]))

/-- in the F35 region the rule gives an error for every raw value -/
theorem fieldSpec_eager (env : Env T) (prefer : Bool) (f : FField T) (raw : Obj)
    (he : eagerField env prefer f = true) : fieldSpec env prefer f raw = Option.none := by
  unfold eagerField at he
  unfold fieldSpec
  cases hc : f.conv <;> cases hp : prefer <;> cases ht : f.ty <;> simp [hc, hp, ht] at he ⊢
  all_goals
    rename_i t
    cases hd : env.disp t <;> simp [hd] at he
  all_goals simp [hookResult, hasHook, lookupBroken, hd]

/-- `_structure_attribute` followed by the field converter is the three-way rule, F36 apart -/
theorem structAttr_spec (env : Env T) (hn : NoDeepSHNF env) (prefer : Bool) (f : FField T) (raw : Obj) :
    (structAttr env prefer f raw).bind (applyConv f) = fieldSpec env prefer f raw := by
  unfold structAttr fieldSpec applyConv
  cases hc : f.conv <;> cases prefer <;> cases ht : f.ty <;> simp
  all_goals
    rename_i t
    cases hd : env.disp t <;> simp [callDisp, hasHook, hookResult, lookupBroken, hd, HR.toOption]
  all_goals first
    | (have h2 := hn.2.1 t raw hd
       cases hr : env.construct t raw <;> simp [hr] at h2 ⊢)
    | (have h3 := hn.2.2 t raw hd
       cases hr : env.late t raw <;> simp [hr] at h3 ⊢)
    | (rename_i g
       have h1 := hn.1 t g raw hd
       cases hr : g raw <;> simp [hr] at h1 ⊢)
    | skip

/-! ### the attribute list -/

theorem genHandlers_none_iff (env : Env T) (prefer : Bool) (fields : List (FField T)) :
    genHandlers env prefer fields = Option.none ↔ eagerFail env prefer fields = true := by
  induction fields with
  | nil => simp [genHandlers, eagerFail]
  | cons f fs ih =>
    have hstep : eagerFail env prefer (f :: fs) = (eagerField env prefer f || eagerFail env prefer fs) := by
      simp [eagerFail]
    rw [hstep]
    simp only [genHandlers]
    cases hf : findHandler env prefer f with
    | none =>
      have := (findHandler_none_iff env prefer f).1 hf
      simp [this]
    | some h =>
      have h1 : eagerField env prefer f = false := by
        cases he : eagerField env prefer f with
        | false => rfl
        | true =>
          have := (findHandler_none_iff env prefer f).2 he
          simp [hf] at this
      rw [h1]
      simp only [Bool.false_or]
      rw [← ih]
      cases genHandlers env prefer fs <;> simp

/-- fast template + `__init__` = the rule, attribute by attribute -/
theorem fast_spec (env : Env T) (prefer : Bool) (kvs : List (String × Obj)) :
    ∀ (fields : List (FField T)) (hs : List (FField T × Handler T)),
      genHandlers env prefer fields = some hs →
      (match fastArgs env kvs hs with | Option.none => Option.none | some args => attrsInit args)
        = classSpec env prefer (rawsDict fields kvs) := by
  intro fields
  induction fields with
  | nil =>
    intro hs h
    simp [genHandlers] at h
    subst h
    simp [fastArgs, attrsInit, rawsDict, classSpec]
  | cons f fs ih =>
    intro hs h
    simp only [genHandlers] at h
    cases hf : findHandler env prefer f with
    | none => simp [hf] at h
    | some hd =>
      cases hg : genHandlers env prefer fs with
      | none => simp [hf, hg] at h
      | some hs' =>
        simp [hf, hg] at h
        subst h
        have ih' := ih hs' hg
        simp only [rawsDict, List.map_cons, classSpec, fastArgs, fastArg] at ih' ⊢
        cases hl : lookup kvs f.name with
        | none =>
          cases hdf : f.dflt with
          | none => simp [fieldOutcome, hdf]
          | some d =>
            simp only [Option.isSome_some, if_true, fieldOutcome, hdf]
            cases hfa : fastArgs env kvs hs' with
            | none =>
              simp only [hfa] at ih'
              simp only [Option.map_none]
              rw [← ih']
              cases applyConv f d <;> simp
            | some args =>
              simp only [hfa] at ih'
              simp only [Option.map_some, attrsInit, hdf]
              rw [← ih']
        | some raw =>
          have hsp := handler_spec env prefer f hd raw hf
          simp only [fieldOutcome]
          rw [← hsp]
          cases ha : (applyHandler env hd raw).toOption with
          | none => simp
          | some v =>
            simp only [Option.bind_some]
            cases hfa : fastArgs env kvs hs' with
            | none =>
              simp only [hfa] at ih'
              simp only [Option.map_none]
              rw [← ih']
              cases applyConv f v <;> simp
            | some args =>
              simp only [hfa] at ih'
              simp only [Option.map_some, attrsInit]
              rw [← ih']

theorem detailedArg_eq_fastArg (env : Env T) (kvs : List (String × Obj)) (f : FField T) (h : Handler T) :
    detailedArg env kvs f h = fastArg env kvs f h := rfl

/-- the detailed template collects errors where the fast one stops at the first: same acceptance, same arguments -/
theorem detailed_fast (env : Env T) (kvs : List (String × Obj)) :
    ∀ (hs : List (FField T × Handler T)),
      fastArgs env kvs hs = (match (detailedArgs env kvs hs).2 with
        | true => Option.none
        | false => some (detailedArgs env kvs hs).1) := by
  intro hs
  induction hs with
  | nil => simp [fastArgs, detailedArgs]
  | cons p rest ih =>
    obtain ⟨f, h⟩ := p
    simp only [fastArgs, detailedArgs, detailedArg_eq_fastArg]
    rw [ih]
    cases hfa : fastArg env kvs f h with
    | none => simp
    | some a => cases (detailedArgs env kvs rest).2 <;> simp

theorem interpDict_spec (env : Env T) (hn : NoDeepSHNF env) (prefer : Bool) (kvs : List (String × Obj)) :
    ∀ (fields : List (FField T)),
      (match interpDictArgs env prefer kvs fields with | Option.none => Option.none | some args => attrsInit args)
        = classSpec env prefer (rawsDict fields kvs) := by
  intro fields
  induction fields with
  | nil => simp [interpDictArgs, attrsInit, rawsDict, classSpec]
  | cons f fs ih =>
    simp only [rawsDict, List.map_cons, classSpec, interpDictArgs] at ih ⊢
    cases hl : lookup kvs f.name with
    | none =>
      simp only [fieldOutcome]
      cases hdf : f.dflt with
      | none =>
        cases hia : interpDictArgs env prefer kvs fs <;> simp [attrsInit, hdf]
      | some d =>
        cases hia : interpDictArgs env prefer kvs fs with
        | none =>
          simp only [hia] at ih
          simp only [Option.map_none]
          rw [← ih]
          cases applyConv f d <;> simp
        | some args =>
          simp only [hia] at ih
          simp only [Option.map_some, attrsInit, hdf]
          rw [← ih]
    | some raw =>
      have hsp := structAttr_spec env hn prefer f raw
      simp only [fieldOutcome]
      rw [← hsp]
      cases hs : structAttr env prefer f raw with
      | none => simp
      | some v =>
        simp only [Option.bind_some]
        cases hia : interpDictArgs env prefer kvs fs with
        | none =>
          simp only [hia] at ih
          simp only [Option.map_none]
          rw [← ih]
          cases applyConv f v <;> simp
        | some args =>
          simp only [hia] at ih
          simp only [Option.map_some, attrsInit]
          rw [← ih]

theorem interpTuple_spec (env : Env T) (hn : NoDeepSHNF env) (prefer : Bool) :
    ∀ (fields : List (FField T)) (xs : List Obj),
      (match interpTupleArgs env prefer fields xs with | Option.none => Option.none | some args => attrsInit args)
        = classSpec env prefer (rawsTuple fields xs) := by
  intro fields
  induction fields with
  | nil => intro xs; simp [interpTupleArgs, attrsInit, rawsTuple, classSpec]
  | cons f fs ih =>
    intro xs
    cases xs with
    | nil =>
      have ih' := ih []
      simp only [rawsTuple, classSpec, interpTupleArgs, fieldOutcome] at ih' ⊢
      cases hdf : f.dflt with
      | none =>
        cases hia : interpTupleArgs env prefer fs [] <;> simp [attrsInit, hdf]
      | some d =>
        cases hia : interpTupleArgs env prefer fs [] with
        | none =>
          simp only [hia] at ih'
          simp only [Option.map_none]
          rw [← ih']
          cases applyConv f d <;> simp
        | some args =>
          simp only [hia] at ih'
          simp only [Option.map_some, attrsInit, hdf]
          rw [← ih']
    | cons x xs =>
      have ih' := ih xs
      have hsp := structAttr_spec env hn prefer f x
      simp only [rawsTuple, classSpec, interpTupleArgs, fieldOutcome] at ih' ⊢
      rw [← hsp]
      cases hs : structAttr env prefer f x with
      | none => simp
      | some v =>
        simp only [Option.bind_some]
        cases hia : interpTupleArgs env prefer fs xs with
        | none =>
          simp only [hia] at ih'
          simp only [Option.map_none]
          rw [← ih']
          cases applyConv f v <;> simp
        | some args =>
          simp only [hia] at ih'
          simp only [Option.map_some, attrsInit]
          rw [← ih']

/-- in the F35 region (with the escape excluded) the rule rejects every payload -/
theorem classSpec_eager (env : Env T) (prefer : Bool) :
    ∀ (args : Args T), (∀ p ∈ args, eagerField env prefer p.1 = true → p.1.dflt = Option.none) →
      (args.any (fun p => eagerField env prefer p.1)) = true → classSpec env prefer args = Option.none := by
  intro args
  induction args with
  | nil => intro _ h; simp at h
  | cons p rest ih =>
    intro hne h
    obtain ⟨f, r⟩ := p
    simp only [List.any_cons, Bool.or_eq_true] at h
    simp only [classSpec]
    by_cases he : eagerField env prefer f = true
    · have hd : f.dflt = Option.none := hne (f, r) (by simp) he
      cases r with
      | none => simp [fieldOutcome, hd]
      | some raw => simp [fieldOutcome, fieldSpec_eager env prefer f raw he]
    · have h' : (rest.any (fun p => eagerField env prefer p.1)) = true := by
        rcases h with h | h
        · exact absurd h he
        · exact h
      have := ih (fun p hp => hne p (by simp [hp])) h'
      rw [this]
      cases fieldOutcome env prefer f r <;> simp

theorem rawsDict_any (env : Env T) (fields : List (FField T)) (kvs : List (String × Obj)) :
    ((rawsDict fields kvs).any (fun p => eagerField env prefer p.1)) = eagerFail env prefer fields := by
  simp [rawsDict, eagerFail, List.any_map, Function.comp_def]

theorem rawsDict_mem (fields : List (FField T)) (kvs : List (String × Obj)) (p : FField T × Option Obj)
    (hp : p ∈ rawsDict fields kvs) : p.1 ∈ fields := by
  simp only [rawsDict, List.mem_map] at hp
  obtain ⟨f, hf, rfl⟩ := hp
  exact hf

end FieldConv
end CattrsModel
