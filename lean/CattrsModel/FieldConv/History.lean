import CattrsModel.FieldConv.Lemmas
/-!
# One converter over time: structure, register a hook, structure again (C20)

The rule of C20 speaks about the hooks that exist *when a value is structured*.  A converter is a stateful object:
`register_structure_hook` / `_func` / `_factory` change what the lookup for a type answers, and the generating
`Converter` keeps the class hooks it generated (with the per-attribute handlers `find_structure_handler` chose at
generation time bound into them) in its dispatch cache.  This file models a converter as a machine over a history of

* `reg r`      — a registration (`r : R`, an arbitrary description: which API, which predicate, which hook);
* `use cls kvs` — `converter.structure(kvs, cls)`;
* `copy`       — `converter = converter.copy()` (same registrations, fresh caches);

and is parametric in **what the registrations mean**: `envAt : List R → Env T` is an arbitrary function from the
registrations made so far (newest first) to the lookup / call behaviour — whatever precedence the dispatch gives the
three registration APIs (that is C07's subject).

* `Converter` (`cfg.gen`): `use` looks the class hook up in the cache; on a miss it generates the handlers
  (`genHandlers`, i.e. `find_structure_handler` per attribute, under the registrations of THAT moment) and caches them
  unless generation raised; the cached handlers are then run by the template.  Every registration and `copy()` empty
  the cache (`MultiStrategyDispatch.clear_cache` via `register_*`; `copy()` builds a new dispatch).
* `BaseConverter`: `use` is `structure_attrs_fromdict` over `_structure_attribute`: the lookup happens at call time,
  there is no state besides the registrations.

`history_current` (Props: `C20_history_current`): after ANY history the outcome of `use` is `structDict` under the
CURRENT registrations — the handler choice is a function of the current registrations, not of what was structured
before.  `Stale` is the same machine without the invalidation (a memo that registrations do not clear): the negative
witness in `Props/C20.lean` shows what it answers.
-/
namespace CattrsModel
namespace FieldConv

variable {T R : Type}

inductive Step (R : Type) where
  | reg (r : R)
  | use (cls : Nat) (kvs : List (String × Obj))
  | copy

/-- generated class hooks: class index ↦ the handlers chosen when the hook was generated -/
abbrev HCache (T : Type) := List (Nat × List (FField T × Handler T))

def hcLookup : HCache T → Nat → Option (List (FField T × Handler T))
  | [], _ => Option.none
  | (k, hs) :: rest, c => if k = c then some hs else hcLookup rest c

structure CState (R T : Type) where
  regs : List R            -- newest first
  cache : HCache T

/-- the template run on handlers chosen earlier; `env` is consulted only for the calls (`t(x)`, `c.structure(x, t)`) -/
def runHandlers (detailed : Bool) (env : Env T) (hs : List (FField T × Handler T)) (kvs : List (String × Obj)) :
    Option Inst :=
  if detailed then
    (match (detailedArgs env kvs hs).2 with
     | true => Option.none
     | false => attrsInit (detailedArgs env kvs hs).1)
  else
    (match fastArgs env kvs hs with
     | Option.none => Option.none
     | some args => attrsInit args)

/-- `converter.structure(kvs, world cls)`; `invalidate = false` is the `Stale` machine (see `stepWith`) -/
def useStep (cfg : FCfg) (world : Nat → List (FField T)) (envAt : List R → Env T) (st : CState R T)
    (cls : Nat) (kvs : List (String × Obj)) : CState R T × Option Inst :=
  if cfg.gen then
    match hcLookup st.cache cls with
    | some hs => (st, runHandlers cfg.detailed (envAt st.regs) hs kvs)
    | Option.none =>
      match genHandlers (envAt st.regs) cfg.prefer (world cls) with
      | Option.none => (st, Option.none)
      | some hs => ({ st with cache := (cls, hs) :: st.cache }, runHandlers cfg.detailed (envAt st.regs) hs kvs)
  else (st, interpDict (envAt st.regs) cfg.prefer (world cls) kvs)

def stepWith (invalidate : Bool) (cfg : FCfg) (world : Nat → List (FField T)) (envAt : List R → Env T)
    (st : CState R T) : Step R → CState R T
  | .reg r => { regs := r :: st.regs, cache := if invalidate then [] else st.cache }
  | .use cls kvs => (useStep cfg world envAt st cls kvs).1
  | .copy => { st with cache := [] }

def runWith (invalidate : Bool) (cfg : FCfg) (world : Nat → List (FField T)) (envAt : List R → Env T) :
    List (Step R) → CState R T → CState R T
  | [], st => st
  | s :: rest, st => runWith invalidate cfg world envAt rest (stepWith invalidate cfg world envAt st s)

/-- the converter as it is -/
def run (cfg : FCfg) (world : Nat → List (FField T)) (envAt : List R → Env T) :=
  runWith (T := T) (R := R) true cfg world envAt

/-- the registrations of a history, newest first, on top of those already made -/
def regsOf : List (Step R) → List R → List R
  | [], acc => acc
  | .reg r :: rest, acc => regsOf rest (r :: acc)
  | _ :: rest, acc => regsOf rest acc

def init : CState R T := { regs := [], cache := [] }

/-- cache invariant: every cached class hook holds the handlers generation would choose under the CURRENT registrations -/
def CacheOk (cfg : FCfg) (world : Nat → List (FField T)) (envAt : List R → Env T) (st : CState R T) : Prop :=
  ∀ cls hs, hcLookup st.cache cls = some hs → genHandlers (envAt st.regs) cfg.prefer (world cls) = some hs

theorem runHandlers_eq (cfg : FCfg) (env : Env T) (fields : List (FField T)) (hs : List (FField T × Handler T))
    (kvs : List (String × Obj)) (hg : genHandlers env cfg.prefer fields = some hs) (hgen : cfg.gen = true) :
    runHandlers cfg.detailed env hs kvs = structDict cfg env fields kvs := by
  unfold structDict runHandlers
  simp only [hgen, if_true]
  cases cfg.detailed
  · simp [genFast, hg]
    cases fastArgs env kvs hs <;> rfl
  · simp [genDetailed, hg]
    cases (detailedArgs env kvs hs).2 <;> rfl

theorem useStep_spec (cfg : FCfg) (world : Nat → List (FField T)) (envAt : List R → Env T) (st : CState R T)
    (hok : CacheOk cfg world envAt st) (cls : Nat) (kvs : List (String × Obj)) :
    (useStep cfg world envAt st cls kvs).2 = structDict cfg (envAt st.regs) (world cls) kvs ∧
    CacheOk cfg world envAt (useStep cfg world envAt st cls kvs).1 ∧
    (useStep cfg world envAt st cls kvs).1.regs = st.regs := by
  unfold useStep
  cases hgen : cfg.gen with
  | false => exact ⟨by simp [structDict, hgen], hok, rfl⟩
  | true =>
    simp only [if_true]
    cases hl : hcLookup st.cache cls with
    | some hs => exact ⟨runHandlers_eq cfg _ _ hs kvs (hok cls hs hl) hgen, hok, rfl⟩
    | none =>
      cases hg : genHandlers (envAt st.regs) cfg.prefer (world cls) with
      | none =>
        refine ⟨?_, hok, rfl⟩
        unfold structDict
        cases cfg.detailed <;> simp [hgen, genFast, genDetailed, hg]
      | some hs =>
        refine ⟨runHandlers_eq cfg _ _ hs kvs hg hgen, ?_, rfl⟩
        intro c hs' hc
        simp only [hcLookup] at hc
        split at hc
        · next h => cases hc; subst h; exact hg
        · exact hok c hs' hc

theorem step_ok (cfg : FCfg) (world : Nat → List (FField T)) (envAt : List R → Env T) (st : CState R T)
    (hok : CacheOk cfg world envAt st) (s : Step R) :
    CacheOk cfg world envAt (stepWith true cfg world envAt st s) ∧
    (stepWith true cfg world envAt st s).regs = regsOf [s] st.regs := by
  cases s with
  | reg r => exact ⟨fun c hs h => by simp [stepWith, hcLookup] at h, rfl⟩
  | use cls kvs =>
    have h := useStep_spec cfg world envAt st hok cls kvs
    exact ⟨h.2.1, h.2.2⟩
  | copy => exact ⟨fun c hs h => by simp [stepWith, hcLookup] at h, rfl⟩

theorem regsOf_cons (s : Step R) (rest : List (Step R)) (acc : List R) :
    regsOf (s :: rest) acc = regsOf rest (regsOf [s] acc) := by
  cases s <;> rfl

theorem run_ok (cfg : FCfg) (world : Nat → List (FField T)) (envAt : List R → Env T) :
    ∀ (hist : List (Step R)) (st : CState R T), CacheOk cfg world envAt st →
      CacheOk cfg world envAt (run cfg world envAt hist st) ∧ (run cfg world envAt hist st).regs = regsOf hist st.regs := by
  intro hist
  induction hist with
  | nil => intro st h; exact ⟨h, rfl⟩
  | cons s rest ih =>
    intro st h
    have hs := step_ok cfg world envAt st h s
    have := ih _ hs.1
    simp only [run, runWith] at this ⊢
    rw [regsOf_cons, ← hs.2]
    exact this

/-- after ANY history: `use` answers what a converter holding exactly the current registrations answers -/
theorem history_current (cfg : FCfg) (world : Nat → List (FField T)) (envAt : List R → Env T)
    (hist : List (Step R)) (cls : Nat) (kvs : List (String × Obj)) :
    (useStep cfg world envAt (run cfg world envAt hist init) cls kvs).2
      = structDict cfg (envAt (regsOf hist [])) (world cls) kvs := by
  have h0 : CacheOk cfg world envAt (init : CState R T) := fun c hs h => by simp [init, hcLookup] at h
  have h := run_ok cfg world envAt hist init h0
  have hu := (useStep_spec cfg world envAt _ h.1 cls kvs).1
  rw [hu, h.2]
  rfl

end FieldConv
end CattrsModel
