import CattrsModel.Threads.Model
/-!
# Threads: invariants of the interleaving model (helper lemmas for Props/C19)
-/
namespace CattrsModel.Threads

@[simp] theorem upd_same {α : Type} (f : Nat → α) (i : Nat) (v : α) : upd f i v i = v := by simp [upd]
@[simp] theorem upd_other {α : Type} (f : Nat → α) (i j : Nat) (v : α) (h : j ≠ i) : upd f i v j = f j := by
  simp [upd, h]
@[simp] theorem owner_local (i : Nat) : owner false i = i := rfl
@[simp] theorem owner_shared (i : Nat) : owner true i = 0 := rfl

/-! ## Layer 1 -/

/-- two log states look the same to thread `i` -/
def WsState.agree (i : Nat) (s s' : WsState) : Prop := s.slot i = s'.slot i ∧ s.store i = s'.store i

theorem WsState.agree_refl (i : Nat) (s : WsState) : s.agree i s := ⟨rfl, rfl⟩

theorem wsStep_own (i : Nat) (s s' : WsState) (e : WsEv) (h : s.agree i s') (he : e.tid = i) :
    (wsStep false s e).2 = (wsStep false s' e).2 ∧ (wsStep false s e).1.agree i (wsStep false s' e).1 := by
  obtain ⟨h1, h2⟩ := h
  subst he
  simp [wsStep, WsState.agree, h1, h2]

theorem wsStep_other (i : Nat) (s : WsState) (e : WsEv) (he : e.tid ≠ i) :
    (wsStep false s e).1.agree i s := by
  have hi : i ≠ e.tid := fun h => he h.symm
  simp [wsStep, WsState.agree, hi]

/-- the answers thread `i` received, picked out of the answers to a global log -/
def ownAnswers (i : Nat) : List WsEv → List WsAns → List WsAns
  | e :: es, a :: as => if e.tid = i then a :: ownAnswers i es as else ownAnswers i es as
  | _, _ => []

theorem wsRun_projection (i : Nat) (log : List WsEv) : ∀ (s s' : WsState), s.agree i s' →
    (wsRun false log s).1.agree i (wsRun false (log.filter (fun e => decide (e.tid = i))) s').1 ∧
    ownAnswers i log (wsRun false log s).2 = (wsRun false (log.filter (fun e => decide (e.tid = i))) s').2 := by
  induction log with
  | nil => intro s s' h; exact ⟨h, rfl⟩
  | cons e es ih =>
    intro s s' h
    by_cases he : e.tid = i
    · have ⟨ha, hs⟩ := wsStep_own i s s' e h he
      have ⟨h1, h2⟩ := ih _ _ hs
      simp only [wsRun, List.filter_cons, he, decide_true, if_true, ownAnswers]
      exact ⟨h1, by rw [h2, ha]⟩
    · have hs := wsStep_other i s e he
      have hs' : (wsStep false s e).1.agree i s' := ⟨hs.1.trans h.1, hs.2.trans h.2⟩
      have ⟨h1, h2⟩ := ih _ _ hs'
      simp only [wsRun, List.filter_cons, he, decide_false, ownAnswers]
      exact ⟨h1, h2⟩

/-! ## Layer 2: the shape invariant (any sharing mode) -/

/-- the node whose hook the given stack (or, if empty, the top-level caller) is waiting for -/
def awaits (calls : List Nat) : List Frame → Option Nat
  | [] => calls.head?
  | f :: _ => f.todo.head?.map (·.1)

/-- every factory on the stack was started for the dispatch the frame below it (or the caller) is waiting for -/
def chainOK (calls : List Nat) : List Frame → Prop
  | [] => True
  | f :: fs => awaits calls fs = some f.node ∧ chainOK calls fs

def ctlOK (th : Thread) : Prop :=
  match th.ctl with
  | .idle => th.stack = []
  | .run => th.stack ≠ []
  | .disp n _ | .direct n _ | .enter n _ | .wdirect n _ _ | .clear n _ _ | .ret n _ _ =>
    awaits th.calls th.stack = some n
  | .raise _ => (awaits th.calls th.stack).isSome = true

/-- `calls0` = the calls the thread was given -/
structure SInv (calls0 : List Nat) (th : Thread) : Prop where
  chain : chainOK th.calls th.stack
  ctl : ctlOK th
  calls : th.results.map (·.1) ++ th.calls = calls0

theorem SInv_init (calls : List Nat) : SInv calls (Thread.init calls) :=
  ⟨trivial, rfl, by simp [Thread.init]⟩

theorem finish_SInv {c0 : List Nat} {th : Thread} (o : Outcome)
    (hc : th.results.map (·.1) ++ th.calls = c0) :
    SInv c0 (finish th o) := by
  unfold finish
  cases hcs : th.calls with
  | nil => exact ⟨trivial, rfl, by simpa [hcs] using hc⟩
  | cons r rs => exact ⟨trivial, rfl, by simpa [hcs] using hc⟩

theorem deliver_SInv {c0 : List Nat} {th : Thread} (h : Hook) (inv : SInv c0 th) : SInv c0 (deliver th h) := by
  unfold deliver
  cases hs : th.stack with
  | nil => exact finish_SInv _ inv.calls
  | cons f fs =>
    have hch := inv.chain
    rw [hs] at hch
    exact ⟨⟨hch.1, hch.2⟩, by simp [ctlOK], inv.calls⟩

theorem unwind_SInv {c0 : List Nat} (G : Graph) {th : Thread} (f : Frame) (fs : List Frame) (ws : List Nat) (M : Mem)
    (e : Exc) (inv : SInv c0 th) (hs : th.stack = f :: fs) : SInv c0 (unwind G th f fs ws M e).th := by
  have hch := inv.chain
  rw [hs] at hch
  have hok : (awaits th.calls fs).isSome = true := by rw [hch.1]; rfl
  unfold unwind
  split
  · split
    · exact ⟨hch.2, hok, inv.calls⟩
    · exact ⟨hch.2, hok, inv.calls⟩
  · exact ⟨hch.2, hok, inv.calls⟩

theorem tstep_SInv {c0 : List Nat} (G : Graph) (th : Thread) (ws : List Nat) (M : Mem) (inv : SInv c0 th) :
    SInv c0 (tstep G th ws M).th := by
  have hch := inv.chain
  have hct := inv.ctl
  have hca := inv.calls
  unfold tstep
  split
  next hc =>
    -- idle
    split
    · exact inv
    next r rs hcs =>
      simp only [ctlOK, hc] at hct
      refine ⟨hch, ?_, hca⟩
      simp [ctlOK, awaits, hcs, hct]
  next n c hc =>
    -- disp
    simp only [ctlOK, hc] at hct
    split
    · split
      · exact deliver_SInv _ inv
      · exact ⟨hch, by simpa [ctlOK] using hct, hca⟩
    · exact ⟨hch, by simpa [ctlOK] using hct, hca⟩
  next n c hc =>
    -- direct
    simp only [ctlOK, hc] at hct
    split
    · exact ⟨hch, by simpa [ctlOK] using hct, hca⟩
    · exact ⟨hch, by simpa [ctlOK] using hct, hca⟩
  next n c hc =>
    -- enter
    simp only [ctlOK, hc] at hct
    split
    · split
      · exact ⟨hch, by simp [ctlOK, hct], hca⟩
      · exact ⟨⟨hct, hch⟩, by simp [ctlOK], hca⟩
    · exact ⟨⟨hct, hch⟩, by simp [ctlOK], hca⟩
  next hc =>
    -- run
    split
    next hs => simp [ctlOK, hc, hs] at hct
    next f fs hs =>
      rw [hs] at hch
      split
      next j k rest htd =>
        refine ⟨by rw [hs]; exact hch, ?_, hca⟩
        simp [ctlOK, hs, awaits, htd]
      next htd =>
        have hnext : ctlOK { th with ctl := retCtl G f, stack := fs } := by
          unfold retCtl; split <;> simp [ctlOK, hch.1]
        have hkey : ctlOK { th with ctl := Ctl.raise Exc.key, stack := fs } := by
          simp [ctlOK, hch.1]
        unfold complete
        split
        · split
          · exact ⟨hch.2, hnext, hca⟩
          · exact ⟨hch.2, hkey, hca⟩
        · exact ⟨hch.2, hnext, hca⟩
  next n h c hc =>
    simp only [ctlOK, hc] at hct
    exact ⟨hch, by simpa [ctlOK] using hct, hca⟩
  next n h c hc =>
    simp only [ctlOK, hc] at hct
    exact ⟨hch, by simpa [ctlOK] using hct, hca⟩
  next n h c hc =>
    simp only [ctlOK, hc] at hct
    exact deliver_SInv _ inv
  next e hc =>
    -- raise
    split
    next hs => exact finish_SInv _ hca
    next f fs hs =>
      split
      · split
        next j k rest htd =>
          rw [hs] at hch
          exact ⟨⟨hch.1, hch.2⟩, by simp [ctlOK], hca⟩
        next htd => exact unwind_SInv G f fs ws M e inv hs
      · exact unwind_SInv G f fs ws M e inv hs

/-! ## Well-typed memo cells (any sharing mode) -/

@[simp] theorem wt_late (G : Graph) (j n : Nat) : Hook.wt G (.late j) n = (j == n) := by simp [Hook.wt]
@[simp] theorem wt_mk (G : Graph) (m n : Nat) (subs : List Hook) :
    Hook.wt G (.mk m subs) n = (m == n && Hook.wtList G subs ((G.node n).edges.map (·.1))) := by simp [Hook.wt]
@[simp] theorem wtList_nil (G : Graph) : Hook.wtList G [] [] = true := by simp [Hook.wtList]
@[simp] theorem wtList_cons (G : Graph) (s : Hook) (ss : List Hook) (t : Nat) (ts : List Nat) :
    Hook.wtList G (s :: ss) (t :: ts) = (Hook.wt G s t && Hook.wtList G ss ts) := by simp [Hook.wtList]
@[simp] theorem wtList_nil_cons (G : Graph) (t : Nat) (ts : List Nat) : Hook.wtList G [] (t :: ts) = false := by
  simp [Hook.wtList]
@[simp] theorem wtList_cons_nil (G : Graph) (s : Hook) (ss : List Hook) : Hook.wtList G (s :: ss) [] = false := by
  simp [Hook.wtList]

theorem wtList_snoc (G : Graph) (h : Hook) (t : Nat) : ∀ (ds : List Hook) (ts : List Nat),
    Hook.wtList G ds ts = true → Hook.wt G h t = true → Hook.wtList G (ds ++ [h]) (ts ++ [t]) = true := by
  intro ds
  induction ds with
  | nil => intro ts h1 h2; cases ts <;> simp_all
  | cons d ds ih =>
    intro ts h1 h2
    cases ts with
    | nil => simp at h1
    | cons t' ts =>
      simp at h1
      simp [h1.1, ih ts h1.2 h2]

def MemWT (G : Graph) (M : Mem) : Prop :=
  (∀ n h, M.lru n = some h → Hook.wt G h n = true) ∧ (∀ n h, M.direct n = some h → Hook.wt G h n = true)

/-- the handlers collected so far are well typed for the edges already processed -/
def FrameWT (G : Graph) (f : Frame) : Prop :=
  ∃ pre, (G.node f.node).edges = pre ++ f.todo ∧ Hook.wtList G f.done (pre.map (·.1)) = true

def ctlWT (G : Graph) : Ctl → Prop
  | .wdirect n h _ | .clear n h _ | .ret n h _ => Hook.wt G h n = true
  | _ => True

structure TWT (G : Graph) (th : Thread) : Prop where
  frames : ∀ f ∈ th.stack, FrameWT G f
  ctl : ctlWT G th.ctl
  results : ∀ r h, (r, Outcome.ok h) ∈ th.results → Hook.wt G h r = true

theorem MemWT_init (G : Graph) : MemWT G Mem.init := ⟨by simp [Mem.init], by simp [Mem.init]⟩
theorem TWT_init (G : Graph) (calls : List Nat) : TWT G (Thread.init calls) :=
  ⟨by simp [Thread.init], trivial, by simp [Thread.init]⟩

theorem finish_TWT {G : Graph} {th : Thread} (o : Outcome) (w : TWT G th)
    (ho : ∀ h, o = .ok h → ∀ r rs, th.calls = r :: rs → Hook.wt G h r = true) : TWT G (finish th o) := by
  unfold finish
  cases hcs : th.calls with
  | nil => exact ⟨by simp, trivial, w.results⟩
  | cons r rs =>
    refine ⟨by simp, trivial, ?_⟩
    intro r' h' hm
    simp at hm
    rcases hm with hm | ⟨rfl, rfl⟩
    · exact w.results r' h' hm
    · exact ho h' rfl r' rs hcs

theorem extend_FrameWT {G : Graph} {f : Frame} {j : Nat} {k : Bool} {rest : List (Nat × Bool)} (h : Hook)
    (fw : FrameWT G f) (htd : f.todo = (j, k) :: rest) (hw : Hook.wt G h j = true) :
    FrameWT G { f with done := f.done ++ [h], todo := rest } := by
  obtain ⟨pre, he, hd⟩ := fw
  refine ⟨pre ++ [(j, k)], by simp [he, htd], ?_⟩
  simpa using wtList_snoc G h j _ _ hd hw

theorem deliver_TWT {G : Graph} {th : Thread} (h : Hook) (n : Nat) (w : TWT G th)
    (ha : awaits th.calls th.stack = some n) (hw : Hook.wt G h n = true) : TWT G (deliver th h) := by
  unfold deliver
  cases hs : th.stack with
  | nil =>
    refine finish_TWT _ w ?_
    intro h' ho r rs hcs
    cases ho
    simp [hs, awaits, hcs] at ha
    subst ha; exact hw
  | cons f fs =>
    have hf := w.frames
    rw [hs] at hf
    simp only [hs, awaits] at ha
    cases htd : f.todo with
    | nil => simp [htd] at ha
    | cons e rest =>
      obtain ⟨j, k⟩ := e
      simp [htd] at ha
      subst ha
      refine ⟨?_, trivial, w.results⟩
      intro g hg
      simp at hg
      rcases hg with rfl | hg
      · rw [show f.todo.tail = rest by simp [htd]]
        exact extend_FrameWT h (hf f (by simp)) htd hw
      · exact hf g (by simp [hg])

theorem unwind_TWT {G : Graph} {th : Thread} (f : Frame) (fs : List Frame) (ws : List Nat) (M : Mem)
    (e : Exc) (w : TWT G th) (hs : th.stack = f :: fs) :
    TWT G (unwind G th f fs ws M e).th ∧ (unwind G th f fs ws M e).mem = M := by
  have hf := w.frames
  rw [hs] at hf
  have hfs : ∀ g ∈ fs, FrameWT G g := fun g hg => hf g (by simp [hg])
  unfold unwind
  split
  · split
    · exact ⟨⟨hfs, trivial, w.results⟩, rfl⟩
    · exact ⟨⟨hfs, trivial, w.results⟩, rfl⟩
  · exact ⟨⟨hfs, trivial, w.results⟩, rfl⟩

theorem tstep_WT {c0 : List Nat} (G : Graph) (th : Thread) (ws : List Nat) (M : Mem) (inv : SInv c0 th)
    (mw : MemWT G M) (w : TWT G th) : MemWT G (tstep G th ws M).mem ∧ TWT G (tstep G th ws M).th := by
  have hch := inv.chain
  have hct := inv.ctl
  have hf := w.frames
  have hcw := w.ctl
  unfold tstep
  split
  next hc =>
    split
    · exact ⟨mw, w⟩
    · exact ⟨mw, hf, trivial, w.results⟩
  next n c hc =>
    simp only [ctlOK, hc] at hct
    split
    · split
      next h hl => exact ⟨mw, deliver_TWT h n w hct (mw.1 n h hl)⟩
      · exact ⟨mw, hf, trivial, w.results⟩
    · exact ⟨mw, hf, trivial, w.results⟩
  next n c hc =>
    split
    next h hd => exact ⟨mw, hf, mw.2 n h hd, w.results⟩
    · exact ⟨mw, hf, trivial, w.results⟩
  next n c hc =>
    have hnew : ∀ g ∈ (⟨n, c, [], (G.node n).edges⟩ : Frame) :: th.stack, FrameWT G g := by
      intro g hg
      simp at hg
      rcases hg with rfl | hg
      · exact ⟨[], by simp, by simp⟩
      · exact hf g hg
    split
    · split
      · exact ⟨mw, hf, trivial, w.results⟩
      · exact ⟨mw, hnew, trivial, w.results⟩
    · exact ⟨mw, hnew, trivial, w.results⟩
  next hc =>
    split
    next hs => exact ⟨mw, by simp [hs], trivial, w.results⟩
    next f fs hs =>
      rw [hs] at hf hch
      have hfs : ∀ g ∈ fs, FrameWT G g := fun g hg => hf g (by simp [hg])
      split
      next j k rest htd => exact ⟨mw, by rw [hs]; exact hf, trivial, w.results⟩
      next htd =>
        have hret : ctlWT G (retCtl G f) := by
          obtain ⟨pre, he, hd⟩ := hf f (by simp)
          simp [htd] at he
          subst he
          unfold retCtl
          split <;> simp [ctlWT, hd]
        unfold complete
        split
        · split
          · exact ⟨mw, hfs, hret, w.results⟩
          · exact ⟨mw, hfs, trivial, w.results⟩
        · exact ⟨mw, hfs, hret, w.results⟩
  next n h c hc =>
    -- direct-table write
    rw [hc] at hcw
    refine ⟨⟨mw.1, ?_⟩, hf, hcw, w.results⟩
    intro m h' hm
    by_cases hmn : m = n
    · subst hmn; simp at hm; subst hm; exact hcw
    · simp [hmn] at hm; exact mw.2 m h' hm
  next n h c hc =>
    -- cache_clear
    rw [hc] at hcw
    exact ⟨⟨by simp, mw.2⟩, hf, hcw, w.results⟩
  next n h c hc =>
    -- lru write + delivery
    rw [hc] at hcw
    simp only [ctlOK, hc] at hct
    refine ⟨?_, deliver_TWT h n w hct hcw⟩
    split
    · refine ⟨?_, mw.2⟩
      intro m h' hm
      by_cases hmn : m = n
      · subst hmn; simp at hm; subst hm; exact hcw
      · simp [hmn] at hm; exact mw.1 m h' hm
    · exact mw
  next e hc =>
    split
    next hs => exact ⟨mw, finish_TWT _ w (by intro h ho; cases ho)⟩
    next f fs hs =>
      split
      · split
        next j k rest htd =>
          rw [hs] at hf
          refine ⟨mw, ?_, trivial, w.results⟩
          intro g hg
          simp at hg
          rcases hg with rfl | hg
          · exact extend_FrameWT (.late j) (hf f (by simp)) htd (by simp)
          · exact hf g (by simp [hg])
        next htd =>
          have := unwind_TWT f fs ws M e w hs
          exact ⟨by rw [this.2]; exact mw, this.1⟩
      · have := unwind_TWT f fs ws M e w hs
        exact ⟨by rw [this.2]; exact mw, this.1⟩

/-! ## Well-typed cells behave like the cache-free resolution -/

theorem behave_list (G : Graph) (M : Mem) (k : Nat)
    (ih : ∀ h n, Hook.wt G h n = true → behave G M k h = spec G k n) :
    ∀ (subs : List Hook) (ts : List Nat), Hook.wtList G subs ts = true →
      subs.map (behave G M k) = ts.map (spec G k) := by
  intro subs
  induction subs with
  | nil => intro ts h; cases ts <;> simp_all
  | cons s ss ihs =>
    intro ts h
    cases ts with
    | nil => simp at h
    | cons t ts =>
      simp at h
      simp [ih s t h.1, ihs ts h.2]

theorem Mem.find_wt {G : Graph} {M : Mem} (mw : MemWT G M) (j : Nat) (h : Hook) (hf : M.find j = some h) :
    Hook.wt G h j = true := by
  unfold Mem.find at hf
  split at hf
  next h' hl => cases hf; exact mw.1 j h hl
  next => exact mw.2 j h hf

theorem behave_eq_spec (G : Graph) (M : Mem) (mw : MemWT G M) :
    ∀ (k : Nat) (h : Hook) (n : Nat), Hook.wt G h n = true → behave G M k h = spec G k n := by
  intro k
  induction k with
  | zero => intro h n _; cases h <;> rfl
  | succ k ih =>
    intro h n hw
    cases h with
    | mk m subs =>
      simp at hw
      obtain ⟨rfl, hl⟩ := hw
      simp only [behave, spec]
      rw [behave_list G M k ih subs _ hl, List.map_map]
      rfl
    | late j =>
      simp at hw
      subst hw
      simp only [behave]
      split
      next m subs hfind =>
        have hw' := Mem.find_wt mw j _ hfind
        simp at hw'
        obtain ⟨rfl, hl⟩ := hw'
        simp only [spec]
        rw [behave_list G M k ih subs _ hl, List.map_map]
        rfl
      next => rfl

/-! ## Thread-local working sets: the working set is the thread's own stack; no exception escapes -/

theorem wsOf_cons (G : Graph) (f : Frame) (fs : List Frame) :
    wsOf G (f :: fs) = if (G.node f.node).usesWs then f.node :: wsOf G fs else wsOf G fs := rfl

theorem mem_wsOf {G : Graph} {n : Nat} : ∀ {fs : List Frame}, n ∈ wsOf G fs →
    ∃ f ∈ fs, f.node = n ∧ (G.node f.node).usesWs = true := by
  intro fs
  induction fs with
  | nil => intro h; simp [wsOf] at h
  | cons f fs ih =>
    intro h
    rw [wsOf_cons] at h
    split at h
    next hu =>
      simp at h
      rcases h with rfl | h
      · exact ⟨f, by simp, rfl, hu⟩
      · obtain ⟨g, hg, h1, h2⟩ := ih h
        exact ⟨g, by simp [hg], h1, h2⟩
    next =>
      obtain ⟨g, hg, h1, h2⟩ := ih h
      exact ⟨g, by simp [hg], h1, h2⟩

theorem deliver_stack_wsOf (G : Graph) (th : Thread) (h : Hook) :
    wsOf G (deliver th h).stack = wsOf G th.stack := by
  unfold deliver
  cases hs : th.stack with
  | nil => unfold finish; cases th.calls <;> simp [wsOf]
  | cons f fs => simp [wsOf_cons]

theorem unwind_ws (G : Graph) (th : Thread) (f : Frame) (fs : List Frame) (ws : List Nat) (M : Mem) (e : Exc)
    (hws : ws = wsOf G (f :: fs)) :
    (unwind G th f fs ws M e).ws = wsOf G (unwind G th f fs ws M e).th.stack := by
  rw [wsOf_cons] at hws
  unfold unwind
  split
  next hu =>
    simp only [hu, if_true] at hws
    split
    · simp [hws]
    next hn => exact absurd (by simp [hws]) hn
  next hu => simpa [hu] using hws

/-- the working set a thread sees is exactly the classes of its own unfinished factories -/
theorem tstep_ws (G : Graph) (th : Thread) (ws : List Nat) (M : Mem) (hws : ws = wsOf G th.stack) :
    (tstep G th ws M).ws = wsOf G (tstep G th ws M).th.stack := by
  unfold tstep
  split
  next hc => split <;> exact hws
  next n c hc =>
    split
    · split
      · simpa [deliver_stack_wsOf] using hws
      · exact hws
    · exact hws
  next n c hc => split <;> exact hws
  next n c hc =>
    split
    next hu =>
      split
      · exact hws
      · simp [wsOf_cons, hu, hws]
    next hu => simpa [wsOf_cons, hu] using hws
  next hc =>
    split
    · exact hws
    next f fs hs =>
      split
      · exact hws
      next htd =>
        rw [hs, wsOf_cons] at hws
        unfold complete
        split
        next hu =>
          simp only [hu, if_true] at hws
          split
          · simp [hws]
          next hn => exact absurd (by simp [hws]) hn
        next hu => simpa [hu] using hws
  next n h c hc => exact hws
  next n h c hc => exact hws
  next n h c hc => simpa [deliver_stack_wsOf] using hws
  next e hc =>
    split
    next hs =>
      rw [hs] at hws
      unfold finish
      cases th.calls <;> simpa [wsOf] using hws
    next f fs hs =>
      rw [hs] at hws
      split
      · split
        · simpa [wsOf_cons] using hws
        · exact unwind_ws G th f fs ws M e hws
      · exact unwind_ws G th f fs ws M e hws

/-- no `KeyError` is in flight, a `RecursionError` in flight has a catcher below it, every call so far returned a hook -/
structure NoEsc (G : Graph) (th : Thread) : Prop where
  nokey : th.ctl ≠ .raise .key
  caught : th.ctl = .raise .recur → ∃ f ∈ th.stack, (G.node f.node).catches = true
  results : ∀ r o, (r, o) ∈ th.results → o.isOk = true

theorem NoEsc_init (G : Graph) (calls : List Nat) : NoEsc G (Thread.init calls) :=
  ⟨by simp [Thread.init], by simp [Thread.init], by simp [Thread.init]⟩

theorem deliver_NoEsc {G : Graph} {th : Thread} (h : Hook) (ne : NoEsc G th) : NoEsc G (deliver th h) := by
  unfold deliver
  cases hs : th.stack with
  | nil =>
    unfold finish
    cases hcs : th.calls with
    | nil => exact ⟨by simp, by simp, ne.results⟩
    | cons r rs =>
      refine ⟨by simp, by simp, ?_⟩
      intro r' o hm
      simp at hm
      rcases hm with hm | ⟨rfl, rfl⟩
      · exact ne.results r' o hm
      · rfl
  | cons f fs => exact ⟨by simp, by simp, ne.results⟩

/-- what a step may emit when working sets are thread-local: a detected cycle is a real one (the class is being
generated by an unfinished factory of THIS thread), and `remove` never fails -/
def evOK (th : Thread) : Option Ev → Prop
  | some (.enter n false) => ∃ f ∈ th.stack, f.node = n
  | some (.exit _ false) => False
  | _ => True

theorem tstep_NoEsc {c0 : List Nat} (G : Graph) (hG : ∀ n, (G.node n).usesWs = true → (G.node n).catches = true)
    (th : Thread) (ws : List Nat) (M : Mem) (inv : SInv c0 th) (hws : ws = wsOf G th.stack) (ne : NoEsc G th) :
    NoEsc G (tstep G th ws M).th ∧ evOK th (tstep G th ws M).ev := by
  have hct := inv.ctl
  have keep : ∀ (c : Ctl) (st : List Frame), (∀ e, c ≠ .raise e) →
      NoEsc G { th with ctl := c, stack := st } := by
    intro c st hne
    exact ⟨hne _, fun h => absurd h (hne _), ne.results⟩
  unfold tstep
  split
  next hc =>
    split
    · exact ⟨ne, trivial⟩
    · exact ⟨keep _ _ (by simp), trivial⟩
  next n c hc =>
    split
    · split
      · exact ⟨deliver_NoEsc _ ne, trivial⟩
      · exact ⟨keep _ _ (by simp), trivial⟩
    · exact ⟨keep _ _ (by simp), trivial⟩
  next n c hc => split <;> exact ⟨keep _ _ (by simp), trivial⟩
  next n c hc =>
    split
    next hu =>
      split
      next hin =>
        rw [hws] at hin
        obtain ⟨f, hf, hn, hfu⟩ := mem_wsOf hin
        refine ⟨⟨by simp, fun _ => ⟨f, hf, hG _ hfu⟩, ne.results⟩, ?_⟩
        exact ⟨f, hf, hn⟩
      · exact ⟨keep _ _ (by simp), trivial⟩
    · exact ⟨keep _ _ (by simp), trivial⟩
  next hc =>
    split
    · exact ⟨keep _ _ (by simp), trivial⟩
    next f fs hs =>
      split
      · exact ⟨keep _ _ (by simp), trivial⟩
      next htd =>
        have hret : ∀ e, retCtl G f ≠ .raise e := by
          intro e; unfold retCtl; split <;> simp
        rw [hs, wsOf_cons] at hws
        unfold complete
        split
        next hu =>
          simp only [hu, if_true] at hws
          split
          · exact ⟨keep _ _ hret, trivial⟩
          next hn => exact absurd (by simp [hws]) hn
        next hu => exact ⟨keep _ _ hret, trivial⟩
  next n h c hc => exact ⟨keep _ _ (by simp), trivial⟩
  next n h c hc => exact ⟨keep _ _ (by simp), trivial⟩
  next n h c hc => exact ⟨deliver_NoEsc _ ne, trivial⟩
  next e hc =>
    have he : e = .recur := by
      cases e
      · rfl
      · exact absurd hc ne.nokey
    subst he
    obtain ⟨f', hf', hcat⟩ := ne.caught hc
    split
    next hs => simp [hs] at hf'
    next f fs hs =>
      have hunw : (G.node f.node).catches = false →
          NoEsc G (unwind G th f fs ws M .recur).th ∧ evOK th (unwind G th f fs ws M .recur).ev := by
        intro hnc
        have hf'' : f' ∈ fs := by
          rw [hs] at hf'
          simp at hf'
          rcases hf' with rfl | hf'
          · rw [hnc] at hcat; cases hcat
          · exact hf'
        rw [hs, wsOf_cons] at hws
        unfold unwind
        split
        next hu =>
          simp only [hu, if_true] at hws
          split
          · exact ⟨⟨by simp, fun _ => ⟨f', hf'', hcat⟩, ne.results⟩, trivial⟩
          next hn => exact absurd (by simp [hws]) hn
        next hu => exact ⟨⟨by simp, fun _ => ⟨f', hf'', hcat⟩, ne.results⟩, trivial⟩
      split
      next hcond =>
        split
        · exact ⟨keep _ _ (by simp), trivial⟩
        next htd =>
          simp [ctlOK, hc, hs, awaits, htd] at hct
      next hcond =>
        apply hunw
        simp at hcond
        cases hcc : (G.node f.node).catches
        · rfl
        · exact absurd hcc (by simpa using hcond)

/-! ## Lifting to global states and schedules -/

@[simp] theorem runSched_nil (shared : Bool) (G : Graph) (s : GState) : runSched shared G [] s = s := rfl
@[simp] theorem runSched_cons (shared : Bool) (G : Graph) (i : Nat) (is : List Nat) (s : GState) :
    runSched shared G (i :: is) s = runSched shared G is (gstep shared G s i) := rfl
theorem runSched_append (shared : Bool) (G : Graph) (a b : List Nat) (s : GState) :
    runSched shared G (a ++ b) s = runSched shared G b (runSched shared G a s) := by
  simp [runSched, List.foldl_append]

/-- induction over the schedule -/
theorem runSched_induct {shared : Bool} {G : Graph} (P : GState → Prop)
    (hstep : ∀ s i, P s → P (gstep shared G s i)) : ∀ (sched : List Nat) (s : GState), P s → P (runSched shared G sched s) := by
  intro sched
  induction sched with
  | nil => intro s h; exact h
  | cons i is ih => intro s h; exact ih _ (hstep s i h)

@[simp] theorem gstep_thread_self (shared : Bool) (G : Graph) (s : GState) (i : Nat) :
    (gstep shared G s i).threads i = (tstep G (s.threads i) (s.ws (owner shared i)) s.mem).th := by
  simp [gstep]

theorem gstep_thread_other (shared : Bool) (G : Graph) (s : GState) (i j : Nat) (h : j ≠ i) :
    (gstep shared G s i).threads j = s.threads j := by
  simp [gstep, h]

theorem gstep_ws_other (G : Graph) (s : GState) (i j : Nat) (h : j ≠ i) :
    (gstep false G s i).ws j = s.ws j := by
  simp [gstep, h]

/-- the sequential executions are schedules -/
theorem runThread_is_sched (shared : Bool) (G : Graph) (i : Nat) : ∀ (fuel : Nat) (s : GState),
    ∃ sched, runThread shared G i fuel s = runSched shared G sched s := by
  intro fuel
  induction fuel with
  | zero => intro s; exact ⟨[], rfl⟩
  | succ fuel ih =>
    intro s
    unfold runThread
    split
    · exact ⟨[], rfl⟩
    · obtain ⟨sched, h⟩ := ih (gstep shared G s i)
      exact ⟨i :: sched, by simpa using h⟩

theorem runSeq_is_sched (shared : Bool) (G : Graph) (fuel : Nat) : ∀ (ids : List Nat) (s : GState),
    ∃ sched, runSeq shared G fuel ids s = runSched shared G sched s := by
  intro ids
  induction ids with
  | nil => intro s; exact ⟨[], rfl⟩
  | cons i is ih =>
    intro s
    obtain ⟨a, ha⟩ := runThread_is_sched shared G i fuel s
    obtain ⟨b, hb⟩ := ih (runThread shared G i fuel s)
    exact ⟨a ++ b, by rw [runSched_append, ← ha]; simpa [runSeq] using hb⟩

/-- the invariant that holds in every sharing mode -/
structure GInv (G : Graph) (calls0 : Nat → List Nat) (s : GState) : Prop where
  sinv : ∀ i, SInv (calls0 i) (s.threads i)
  mem : MemWT G s.mem
  twt : ∀ i, TWT G (s.threads i)

theorem GInv_init (G : Graph) (calls : Nat → List Nat) : GInv G calls (GState.init calls) :=
  ⟨fun i => SInv_init (calls i), MemWT_init G, fun i => TWT_init G (calls i)⟩

theorem gstep_GInv {shared : Bool} {G : Graph} {calls0 : Nat → List Nat} (s : GState) (i : Nat)
    (inv : GInv G calls0 s) : GInv G calls0 (gstep shared G s i) := by
  have hwt := tstep_WT G (s.threads i) (s.ws (owner shared i)) s.mem (inv.sinv i) inv.mem (inv.twt i)
  refine ⟨?_, by simpa [gstep] using hwt.1, ?_⟩
  · intro j
    by_cases hj : j = i
    · subst hj; simpa using tstep_SInv G _ _ _ (inv.sinv j)
    · rw [gstep_thread_other _ _ _ _ _ hj]; exact inv.sinv j
  · intro j
    by_cases hj : j = i
    · subst hj; simpa using hwt.2
    · rw [gstep_thread_other _ _ _ _ _ hj]; exact inv.twt j

theorem runSched_GInv {shared : Bool} {G : Graph} (calls : Nat → List Nat) (sched : List Nat) :
    GInv G calls (runSched shared G sched (GState.init calls)) :=
  runSched_induct (GInv G calls) (fun s i h => gstep_GInv s i h) sched _ (GInv_init G calls)

/-- thread-local working sets: everybody's working set is his own stack -/
def WsLocal (G : Graph) (s : GState) : Prop := ∀ i, s.ws i = wsOf G (s.threads i).stack

theorem gstep_WsLocal {G : Graph} (s : GState) (i : Nat) (h : WsLocal G s) : WsLocal G (gstep false G s i) := by
  intro j
  by_cases hj : j = i
  · subst hj
    have := tstep_ws G (s.threads j) (s.ws j) s.mem (h j)
    simpa [gstep] using this
  · rw [gstep_thread_other _ _ _ _ _ hj, gstep_ws_other _ _ _ _ hj]; exact h j

theorem runSched_WsLocal {G : Graph} (calls : Nat → List Nat) (sched : List Nat) :
    WsLocal G (runSched false G sched (GState.init calls)) :=
  runSched_induct (WsLocal G) (fun s i h => gstep_WsLocal s i h) sched _ (fun _ => rfl)

/-- thread-local working sets + every factory that uses the working set catches `RecursionError` -/
structure LInv (G : Graph) (calls0 : Nat → List Nat) (s : GState) : Prop where
  ginv : GInv G calls0 s
  ws : WsLocal G s
  noesc : ∀ i, NoEsc G (s.threads i)
  trace : ∀ i n, (i, Ev.exit n false) ∉ s.trace
  cycles : ∀ i n, (i, Ev.enter n false) ∈ s.trace → (G.node n).usesWs = true

theorem LInv_init (G : Graph) (calls : Nat → List Nat) : LInv G calls (GState.init calls) :=
  ⟨GInv_init G calls, fun _ => rfl, fun i => NoEsc_init G (calls i), by simp [GState.init], by simp [GState.init]⟩

theorem tstep_enter_usesWs (G : Graph) (th : Thread) (ws : List Nat) (M : Mem) (n : Nat)
    (h : (tstep G th ws M).ev = some (.enter n false)) : (G.node n).usesWs = true := by
  unfold tstep at h
  split at h
  next => split at h <;> simp at h
  next => (repeat' split at h) <;> simp at h
  next => split at h <;> simp at h
  next m c hc =>
    split at h
    next hu =>
      split at h
      · simp at h; subst h; exact hu
      · simp at h
    · simp at h
  next =>
    split at h
    · simp at h
    · split at h
      · simp at h
      · unfold complete at h; (repeat' split at h) <;> simp at h
  next => simp at h
  next => simp at h
  next => simp at h
  next =>
    split at h
    · simp at h
    · unfold unwind at h; (repeat' split at h) <;> simp at h

theorem gstep_LInv {G : Graph} (hG : ∀ n, (G.node n).usesWs = true → (G.node n).catches = true)
    {calls0 : Nat → List Nat} (s : GState) (i : Nat) (inv : LInv G calls0 s) :
    LInv G calls0 (gstep false G s i) := by
  have hne := tstep_NoEsc G hG (s.threads i) (s.ws i) s.mem (inv.ginv.sinv i) (inv.ws i) (inv.noesc i)
  refine ⟨gstep_GInv s i inv.ginv, gstep_WsLocal s i inv.ws, ?_, ?_, ?_⟩
  · intro j
    by_cases hj : j = i
    · subst hj; simpa using hne.1
    · rw [gstep_thread_other _ _ _ _ _ hj]; exact inv.noesc j
  · intro j n hm
    simp only [gstep, owner_local] at hm
    split at hm
    next e he =>
      simp at hm
      rcases hm with ⟨rfl, rfl⟩ | hm
      · have := hne.2; rw [he] at this; exact this
      · exact inv.trace j n hm
    next => exact inv.trace j n hm
  · intro j n hm
    simp only [gstep, owner_local] at hm
    split at hm
    next e he =>
      simp at hm
      rcases hm with ⟨rfl, rfl⟩ | hm
      · exact tstep_enter_usesWs G _ _ _ n he
      · exact inv.cycles j n hm
    next => exact inv.cycles j n hm

theorem runSched_LInv {G : Graph} (hG : ∀ n, (G.node n).usesWs = true → (G.node n).catches = true)
    (calls : Nat → List Nat) (sched : List Nat) : LInv G calls (runSched false G sched (GState.init calls)) :=
  runSched_induct (LInv G calls) (fun s i h => gstep_LInv hG s i h) sched _ (LInv_init G calls)

end CattrsModel.Threads
