/-!
# Threads: the interleaving model behind property C19

Two layers, both executable and total (core Lean only).

## Layer 1 — the working-set log (`wsStep`, `wsRun`)

The real code keeps the classes whose hooks are being generated in
`cattrs.gen._consts.already_generating.working_set`, where `already_generating = threading.local()`.
Every factory that uses it (`gen/__init__.py: make_dict_unstructure_fn / make_dict_structure_fn`,
`gen/typeddicts.py: make_dict_unstructure_fn`, `cols.py: namedtuple_dict_*_factory`) runs

    try:    working_set = already_generating.working_set            -- `get`   (AttributeError | the set)
    except AttributeError:
            working_set = set(); already_generating.working_set = working_set     -- `set sid members`
    if cl in working_set: raise RecursionError()                    -- `mem sid cl`
    working_set.add(cl)                                             -- `add sid cl`
    try:    ... build the hook, dispatching for every field ...
    finally:
            working_set.remove(cl)                                  -- `rm sid cl`    (KeyError | unit)
            if not working_set:                                     -- `empty sid`
                del already_generating.working_set                  -- `del`          (AttributeError | unit)

An event is one of these accesses together with the id of the thread performing it.  `sid` is the identity
of the set object the access goes to (a thread keeps the set in a local variable, so the set it talks to is
named by the event, not looked up).  `wsRun shared` replays a global log:

* `shared = false` (what `threading.local` gives): the attribute slot AND every set reachable from it belong
  to the thread performing the access — thread `i` only ever sees what thread `i` did;
* `shared = true` (what a plain module-level object would give): one slot, one store, for everybody.

## Layer 2 — the hook-generation machine (`tstep`, `gstep`, `runSched`)

An abstract type graph (`Graph`): node `n` is a type (class, `list[K]`, `Optional[K]`, …); `Node` records what
its hook factory does: `usesWs` (runs the protocol above), `catches` (turns a `RecursionError` of a nested
dispatch into late binding: `handler = converter.structure`), `direct` (registers its result in
`MultiStrategyDispatch._direct_dispatch` and calls `dispatch.cache_clear()`), and the nested dispatches
`edges` in order, each through the `lru_cache` (`get_*_hook(t)`) or not (`get_*_hook(t, cache_result=False)`).

A thread is a control state + a stack of unfinished factories + the calls still to make + results so far.
`tstep` is ONE atomic step of one thread (lru read / direct-table read / test-and-add on the working set /
start of a nested dispatch / remove-on-exit / direct-table write / cache_clear / lru write + delivery /
one frame of exception unwinding).  `gstep shared G s i` lets thread `i` make its next step on the global
state (working set of `owner shared i`, the shared memo tables); a schedule is a list of thread ids and
`runSched` folds `gstep` over it.  Threads are indexed by `Nat`: any number of threads.
-/
namespace CattrsModel.Threads

/-- function update -/
def upd {α : Type} (f : Nat → α) (i : Nat) (v : α) : Nat → α := fun j => if j = i then v else f j

/-- whose slot/store an access of thread `tid` goes to -/
def owner (shared : Bool) (tid : Nat) : Nat := if shared then 0 else tid

/-! ## Layer 1: working-set log -/

inductive WsOp where
  | get
  | set (sid : Nat) (members : List Nat)
  | del
  | mem (sid c : Nat)
  | add (sid c : Nat)
  | rm (sid c : Nat)
  | empty (sid : Nat)
  deriving Repr, DecidableEq

structure WsEv where
  tid : Nat
  op : WsOp
  deriving Repr, DecidableEq

inductive WsAns where
  | attrErr
  | found (sid : Nat)
  | unit
  | keyErr
  | bool (b : Bool)
  deriving Repr, DecidableEq

/-- `slot k` = the set stored in `already_generating.working_set` as seen by owner `k` (none = attribute absent);
`store k sid` = the members of set `sid` as seen by owner `k`. -/
structure WsState where
  slot : Nat → Option Nat
  store : Nat → Nat → List Nat

def WsState.init : WsState := ⟨fun _ => none, fun _ _ => []⟩

/-- one access, on the slot and the sets of the owner it goes to: new slot, new sets, answer -/
def wsLocal (slot : Option Nat) (store : Nat → List Nat) : WsOp → Option Nat × (Nat → List Nat) × WsAns
  | .get =>
    match slot with
    | none => (slot, store, .attrErr)
    | some sid => (slot, store, .found sid)
  | .set sid ms => (some sid, upd store sid ms, .unit)
  | .del =>
    match slot with
    | none => (slot, store, .attrErr)
    | some _ => (none, store, .unit)
  | .mem sid c => (slot, store, .bool (decide (c ∈ store sid)))
  | .add sid c => (slot, upd store sid (if c ∈ store sid then store sid else c :: store sid), .unit)
  | .rm sid c =>
    if c ∈ store sid then (slot, upd store sid ((store sid).erase c), .unit)
    else (slot, store, .keyErr)
  | .empty sid => (slot, store, .bool (store sid).isEmpty)

def wsStep (shared : Bool) (s : WsState) (e : WsEv) : WsState × WsAns :=
  let k := owner shared e.tid
  let r := wsLocal (s.slot k) (s.store k) e.op
  (⟨upd s.slot k r.1, upd s.store k r.2.1⟩, r.2.2)

/-- replay a global log; returns the final state and the answer predicted for every event -/
def wsRun (shared : Bool) : List WsEv → WsState → WsState × List WsAns
  | [], s => (s, [])
  | e :: es, s =>
    let r := wsStep shared s e
    let r' := wsRun shared es r.1
    (r'.1, r.2 :: r'.2)

/-! ## Layer 2: hook generation -/

structure Node where
  usesWs : Bool
  catches : Bool
  direct : Bool
  edges : List (Nat × Bool)
  deriving Repr, DecidableEq

abbrev Graph := List Node

/-- nodes outside the table are leaves (`int`, `str`, …): no working set, no nested dispatch -/
def Graph.node (G : Graph) (n : Nat) : Node := G.getD n ⟨false, false, false, []⟩

/-- hook terms: `mk n subs` = the hook built by the factory of node `n` from the handlers `subs` of its nested
dispatches; `late j` = `converter.structure` / `converter.unstructure` bound late to type `j`. -/
inductive Hook where
  | late (n : Nat)
  | mk (n : Nat) (subs : List Hook)
  deriving Repr

inductive Exc where
  | recur
  | key
  deriving Repr, DecidableEq

inductive Outcome where
  | ok (h : Hook)
  | exc (e : Exc)
  deriving Repr

def Outcome.isOk : Outcome → Bool
  | .ok _ => true
  | .exc _ => false

def Outcome.isRec : Outcome → Bool
  | .exc .recur => true
  | _ => false

inductive Ctl where
  | idle
  | disp (n : Nat) (cached : Bool)
  | direct (n : Nat) (cached : Bool)
  | enter (n : Nat) (cached : Bool)
  | run
  | wdirect (n : Nat) (h : Hook) (cached : Bool)
  | clear (n : Nat) (h : Hook) (cached : Bool)
  | ret (n : Nat) (h : Hook) (cached : Bool)
  | raise (e : Exc)
  deriving Repr

/-- an unfinished factory: the node, whether its result goes into the lru, the handlers collected so far and
the nested dispatches still to do (the head of `todo` is the one in progress while the frame is not on top) -/
structure Frame where
  node : Nat
  cached : Bool
  done : List Hook
  todo : List (Nat × Bool)
  deriving Repr

structure Thread where
  ctl : Ctl
  stack : List Frame
  calls : List Nat
  results : List (Nat × Outcome)
  deriving Repr

/-- the memo tables of one `MultiStrategyDispatch`: `lru` = `lru_cache` around `dispatch`, `direct` =
`_direct_dispatch` -/
structure Mem where
  lru : Nat → Option Hook
  direct : Nat → Option Hook

inductive Ev where
  | enter (n : Nat) (ok : Bool)
  | exit (n : Nat) (ok : Bool)
  deriving Repr, DecidableEq

structure StepRes where
  th : Thread
  ws : List Nat
  mem : Mem
  ev : Option Ev

/-- the current top-level call ends with outcome `o` -/
def finish (th : Thread) (o : Outcome) : Thread :=
  match th.calls with
  | [] => { th with ctl := .idle, stack := [] }
  | r :: rs => { ctl := .idle, stack := [], calls := rs, results := th.results ++ [(r, o)] }

/-- a hook is handed to whoever waits for it: the factory on top of the stack, or the top-level caller -/
def deliver (th : Thread) (h : Hook) : Thread :=
  match th.stack with
  | [] => finish th (.ok h)
  | f :: fs => { th with ctl := .run, stack := { f with done := f.done ++ [h], todo := f.todo.tail } :: fs }

/-- an exception leaves frame `f` (the `finally:` clause of a factory that uses the working set) -/
def unwind (G : Graph) (th : Thread) (f : Frame) (fs : List Frame) (ws : List Nat) (M : Mem) (e : Exc) : StepRes :=
  if (G.node f.node).usesWs then
    if f.node ∈ ws then ⟨{ th with ctl := .raise e, stack := fs }, ws.erase f.node, M, some (.exit f.node true)⟩
    else ⟨{ th with ctl := .raise .key, stack := fs }, ws, M, some (.exit f.node false)⟩
  else ⟨{ th with ctl := .raise e, stack := fs }, ws, M, none⟩

/-- what a factory does with its finished hook: register it direct first, or just return it -/
def retCtl (G : Graph) (f : Frame) : Ctl :=
  if (G.node f.node).direct then .wdirect f.node (.mk f.node f.done) f.cached
  else .ret f.node (.mk f.node f.done) f.cached

/-- all nested dispatches of frame `f` are done: leave the working set (the `finally:` clause), hand on the hook -/
def complete (G : Graph) (th : Thread) (f : Frame) (fs : List Frame) (ws : List Nat) (M : Mem) : StepRes :=
  if (G.node f.node).usesWs then
    if f.node ∈ ws then ⟨{ th with ctl := retCtl G f, stack := fs }, ws.erase f.node, M, some (.exit f.node true)⟩
    else ⟨{ th with ctl := .raise .key, stack := fs }, ws, M, some (.exit f.node false)⟩
  else ⟨{ th with ctl := retCtl G f, stack := fs }, ws, M, none⟩

/-- one atomic step of a thread on (its view of) the working set and the shared memo tables -/
def tstep (G : Graph) (th : Thread) (ws : List Nat) (M : Mem) : StepRes :=
  match th.ctl with
  | .idle =>
    match th.calls with
    | [] => ⟨th, ws, M, none⟩
    | r :: _ => ⟨{ th with ctl := .disp r true }, ws, M, none⟩
  | .disp n c =>
    if c then
      match M.lru n with
      | some h => ⟨deliver th h, ws, M, none⟩
      | none => ⟨{ th with ctl := .direct n c }, ws, M, none⟩
    else ⟨{ th with ctl := .direct n c }, ws, M, none⟩
  | .direct n c =>
    match M.direct n with
    | some h => ⟨{ th with ctl := .ret n h c }, ws, M, none⟩
    | none => ⟨{ th with ctl := .enter n c }, ws, M, none⟩
  | .enter n c =>
    if (G.node n).usesWs then
      if n ∈ ws then ⟨{ th with ctl := .raise .recur }, ws, M, some (.enter n false)⟩
      else ⟨{ th with ctl := .run, stack := ⟨n, c, [], (G.node n).edges⟩ :: th.stack }, n :: ws, M, some (.enter n true)⟩
    else ⟨{ th with ctl := .run, stack := ⟨n, c, [], (G.node n).edges⟩ :: th.stack }, ws, M, none⟩
  | .run =>
    match th.stack with
    | [] => ⟨{ th with ctl := .idle }, ws, M, none⟩
    | f :: fs =>
      match f.todo with
      | (j, k) :: _ => ⟨{ th with ctl := .disp j k }, ws, M, none⟩
      | [] => complete G th f fs ws M
  | .wdirect n h c => ⟨{ th with ctl := .clear n h c }, ws, { M with direct := upd M.direct n (some h) }, none⟩
  | .clear n h c => ⟨{ th with ctl := .ret n h c }, ws, { M with lru := fun _ => none }, none⟩
  | .ret n h c => ⟨deliver th h, ws, if c then { M with lru := upd M.lru n (some h) } else M, none⟩
  | .raise e =>
    match th.stack with
    | [] => ⟨finish th (.exc e), ws, M, none⟩
    | f :: fs =>
      if e = .recur ∧ (G.node f.node).catches = true then
        match f.todo with
        | (j, _) :: rest =>
          ⟨{ th with ctl := .run, stack := { f with done := f.done ++ [.late j], todo := rest } :: fs }, ws, M, none⟩
        | [] => unwind G th f fs ws M e
      else unwind G th f fs ws M e

structure GState where
  threads : Nat → Thread
  ws : Nat → List Nat
  mem : Mem
  /-- newest first -/
  trace : List (Nat × Ev)

def Thread.init (calls : List Nat) : Thread := ⟨.idle, [], calls, []⟩

def Mem.init : Mem := ⟨fun _ => none, fun _ => none⟩

def GState.init (calls : Nat → List Nat) : GState :=
  ⟨fun i => Thread.init (calls i), fun _ => [], Mem.init, []⟩

/-- thread `i` makes its next step -/
def gstep (shared : Bool) (G : Graph) (s : GState) (i : Nat) : GState :=
  let r := tstep G (s.threads i) (s.ws (owner shared i)) s.mem
  { threads := upd s.threads i r.th
    ws := upd s.ws (owner shared i) r.ws
    mem := r.mem
    trace := match r.ev with
      | some e => (i, e) :: s.trace
      | none => s.trace }

/-- a schedule = the list of thread ids that get to make a step, in order -/
def runSched (shared : Bool) (G : Graph) (sched : List Nat) (s : GState) : GState :=
  sched.foldl (gstep shared G) s

def Thread.finished (th : Thread) : Bool :=
  match th.ctl, th.calls with
  | .idle, [] => true
  | _, _ => false

/-- run thread `i` alone until it has finished all its calls (or the fuel is used up) -/
def runThread (shared : Bool) (G : Graph) (i : Nat) : Nat → GState → GState
  | 0, s => s
  | fuel + 1, s => if (s.threads i).finished then s else runThread shared G i fuel (gstep shared G s i)

/-- the sequential execution: thread 0 to completion, then thread 1, … -/
def runSeq (shared : Bool) (G : Graph) (fuel : Nat) : List Nat → GState → GState
  | [], s => s
  | i :: is, s => runSeq shared G fuel is (runThread shared G i fuel s)

/-! ### Meaning of hooks -/

/-- the classes of a thread's own unfinished factories that use the working set, innermost first -/
def wsOf (G : Graph) : List Frame → List Nat
  | [] => []
  | f :: fs => if (G.node f.node).usesWs then f.node :: wsOf G fs else wsOf G fs

/-- observable behaviour, to depth `k`, as a tree of the factories that get to handle the sub-values -/
inductive Tree where
  | leaf
  | node (n : Nat) (kids : List Tree)
  deriving Repr

/-- cache-free, sequential resolution: the hook of `n` handles a value by handing its parts to the hooks of its edges -/
def spec (G : Graph) : Nat → Nat → Tree
  | 0, _ => .leaf
  | k + 1, n => .node n ((G.node n).edges.map (fun e => spec G k e.1))

/-- run-time lookup of a late-bound reference: lru, then direct table -/
def Mem.find (M : Mem) (j : Nat) : Option Hook :=
  match M.lru j with
  | some h => some h
  | none => M.direct j

/-- behaviour of a hook term against the memo tables `M` it finds at run time.  A late-bound reference that
misses both tables generates sequentially at run time: it gets the cache-free meaning BY DEFINITION. -/
def behave (G : Graph) (M : Mem) : Nat → Hook → Tree
  | 0, _ => .leaf
  | k + 1, .mk n subs => .node n (subs.map (behave G M k))
  | k + 1, .late j =>
    match M.find j with
    | some (.mk n subs) => .node n (subs.map (behave G M k))
    | _ => spec G (k + 1) j

mutual
/-- `h` is well typed for key `n`: built by `n`'s factory from handlers well typed for `n`'s edges -/
def Hook.wt (G : Graph) : Hook → Nat → Bool
  | .late j, n => j == n
  | .mk m subs, n => m == n && Hook.wtList G subs ((G.node n).edges.map (·.1))
def Hook.wtList (G : Graph) : List Hook → List Nat → Bool
  | [], [] => true
  | s :: ss, t :: ts => Hook.wt G s t && Hook.wtList G ss ts
  | _, _ => false
end

end CattrsModel.Threads
