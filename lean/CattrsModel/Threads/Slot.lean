import CattrsModel.Threads.Model
/-!
# Threads: the working-set SWAP and the attribute SLOT in the generation machine (property C19)

Two things the machine of `Threads/Model.lean` abstracts from (they were modelled at log level only, `wsRun`):

## 1. the swap of `strategies/_subclasses.py` (`SOp.swap`, `gop`, `runOps`)

    for cl in union_classes:
        already_generating.working_set = set(union_classes) - {cl}      -- swap i (U − {cl})
        try:     … converter.get_unstructure_hook(cl, cache_result=False) …
        finally: already_generating.working_set = set()                  -- swap i []

executed by a thread at top level (no hook factory of that thread is running).  An extended schedule is a list of
`SOp`: `step i` (thread `i` makes its next `tstep`) or `swap i P` (thread `i` stores a fresh set with members `P`).
The classes put there are *forced*: the factory of such a class raises `RecursionError` on purpose, so that the
reference to it is bound late.  `runSched sched = runOps (sched.map .step)`.

## 2. the attribute slot and the identity of set objects (`Cell`, `rstep`, `rop`, `runOpsR`)

`already_generating.working_set` may be ABSENT (the factories create a set on `AttributeError` and `del` the
attribute when their set becomes empty), and every running factory keeps the set object it found in a local variable,
while the slot may have been re-pointed to another object since.  A `Cell` is what one thread sees: the slot, the
members of every set object, a counter for fresh identities.  The refined thread state adds `sids`: the set object
each unfinished working-set factory of the thread holds (innermost first).  `rstep` takes the control decisions of
`tstep` from the answers of the CELL (membership in the set the slot holds on entry, membership in the set the
factory holds on exit); a `del` of an absent attribute (`AttributeError`) sets the sticky flag `fault`.

`Threads/SlotLemmas.lean` proves that under every extended schedule the refined machine is, step for step, the
abstract one (`runOpsR_abs`) and never faults — delete-when-empty and set identities are unobservable.
-/
namespace CattrsModel.Threads

/-! ## 1. swap -/

inductive SOp where
  | step (i : Nat)
  | swap (i : Nat) (P : List Nat)
  deriving Repr, DecidableEq

def SOp.tid : SOp → Nat
  | .step i => i
  | .swap i _ => i

/-- no call in progress, no unfinished factory: the thread is in user code -/
def Thread.atTop (th : Thread) : Bool :=
  match th.ctl, th.stack with
  | .idle, [] => true
  | _, _ => false

/-- thread `i` stores a fresh set with members `P` in the attribute (only at top level) -/
def gswap (shared : Bool) (s : GState) (i : Nat) (P : List Nat) : GState :=
  if (s.threads i).atTop then { s with ws := upd s.ws (owner shared i) P } else s

def gop (shared : Bool) (G : Graph) (s : GState) : SOp → GState
  | .step i => gstep shared G s i
  | .swap i P => gswap shared s i P

def runOps (shared : Bool) (G : Graph) (ops : List SOp) (s : GState) : GState :=
  ops.foldl (gop shared G) s

/-! ## 2. slot and set identities (thread-local) -/

structure Cell where
  /-- the set object stored in `already_generating.working_set`; none = the attribute is absent -/
  slot : Option Nat
  /-- members of set object `sid` -/
  sets : Nat → List Nat
  /-- next fresh set identity -/
  next : Nat

def Cell.init : Cell := ⟨none, fun _ => [], 0⟩

/-- what the abstract machine calls the working set: the members of the set the slot holds -/
def Cell.abs (c : Cell) : List Nat :=
  match c.slot with
  | none => []
  | some sid => c.sets sid

/-- entry of a working-set factory for class `n`: get the attribute (or create a set and store it), test, add.
Returns the new cell, the set object the factory keeps in its local variable, and whether the class was found. -/
def Cell.enter (c : Cell) (n : Nat) : Cell × Nat × Bool :=
  match c.slot with
  | none => (⟨some c.next, upd c.sets c.next [n], c.next + 1⟩, c.next, false)
  | some sid =>
    if n ∈ c.sets sid then (c, sid, true)
    else (⟨c.slot, upd c.sets sid (n :: c.sets sid), c.next⟩, sid, false)

inductive ExitAns where
  | ok
  | keyErr
  | attrErr
  deriving Repr, DecidableEq

/-- the `finally:` clause of a factory holding set object `sid`: `remove(n)`; if the set is now empty,
`del already_generating.working_set` (whatever object the slot holds by now) -/
def Cell.exit (c : Cell) (sid n : Nat) : Cell × ExitAns :=
  if n ∈ c.sets sid then
    let ms := (c.sets sid).erase n
    if ms.isEmpty then
      match c.slot with
      | none => (⟨none, upd c.sets sid ms, c.next⟩, .attrErr)
      | some _ => (⟨none, upd c.sets sid ms, c.next⟩, .ok)
    else (⟨c.slot, upd c.sets sid ms, c.next⟩, .ok)
  else (c, .keyErr)

/-- `already_generating.working_set = set(P)` -/
def Cell.swap (c : Cell) (P : List Nat) : Cell := ⟨some c.next, upd c.sets c.next P, c.next + 1⟩

/-- which access to the working set the next step of a thread makes -/
inductive WsAcc where
  | none
  | enter (n : Nat)
  | exit (n : Nat)
  deriving Repr, DecidableEq

def wsAcc (G : Graph) (th : Thread) : WsAcc :=
  match th.ctl with
  | .enter n _ => if (G.node n).usesWs then .enter n else .none
  | .run =>
    match th.stack with
    | [] => .none
    | f :: _ =>
      match f.todo with
      | _ :: _ => .none
      | [] => if (G.node f.node).usesWs then .exit f.node else .none
  | .raise e =>
    match th.stack with
    | [] => .none
    | f :: _ =>
      if e = .recur ∧ (G.node f.node).catches = true then
        match f.todo with
        | _ :: _ => .none
        | [] => if (G.node f.node).usesWs then .exit f.node else .none
      else if (G.node f.node).usesWs then .exit f.node else .none
  | _ => .none

structure RRes where
  th : Thread
  sids : List Nat
  cell : Cell
  mem : Mem
  ev : Option Ev
  fault : Bool

/-- one atomic step of a thread on ITS cell: the control decision is `tstep`'s, fed with the cell's answer -/
def rstep (G : Graph) (th : Thread) (sids : List Nat) (c : Cell) (M : Mem) : RRes :=
  match wsAcc G th with
  | .none =>
    let r := tstep G th [] M
    ⟨r.th, sids, c, r.mem, r.ev, false⟩
  | .enter n =>
    let e := c.enter n
    let r := tstep G th (if e.2.2 then [n] else []) M
    ⟨r.th, if e.2.2 then sids else e.2.1 :: sids, e.1, r.mem, r.ev, false⟩
  | .exit n =>
    match sids with
    | [] =>  -- no set object held: cannot happen (`RInv`); counted as a fault
      let r := tstep G th [] M
      ⟨r.th, [], c, r.mem, r.ev, true⟩
    | sid :: rest =>
      let x := c.exit sid n
      let r := tstep G th (if x.2 = .keyErr then [] else [n]) M
      ⟨r.th, rest, x.1, r.mem, r.ev, decide (x.2 = .attrErr)⟩

structure RState where
  threads : Nat → Thread
  sids : Nat → List Nat
  cells : Nat → Cell
  mem : Mem
  trace : List (Nat × Ev)
  fault : Bool

def RState.init (calls : Nat → List Nat) : RState :=
  ⟨fun i => Thread.init (calls i), fun _ => [], fun _ => Cell.init, Mem.init, [], false⟩

/-- forget slots and identities -/
def RState.abs (s : RState) : GState := ⟨s.threads, fun i => (s.cells i).abs, s.mem, s.trace⟩

def rgstep (G : Graph) (s : RState) (i : Nat) : RState :=
  let r := rstep G (s.threads i) (s.sids i) (s.cells i) s.mem
  { threads := upd s.threads i r.th
    sids := upd s.sids i r.sids
    cells := upd s.cells i r.cell
    mem := r.mem
    trace := match r.ev with
      | some e => (i, e) :: s.trace
      | none => s.trace
    fault := s.fault || r.fault }

def rgswap (s : RState) (i : Nat) (P : List Nat) : RState :=
  if (s.threads i).atTop then { s with cells := upd s.cells i ((s.cells i).swap P) } else s

def rop (G : Graph) (s : RState) : SOp → RState
  | .step i => rgstep G s i
  | .swap i P => rgswap s i P

def runOpsR (G : Graph) (ops : List SOp) (s : RState) : RState := ops.foldl (rop G) s

end CattrsModel.Threads
