import CattrsModel.Threads.Slot
import CattrsModel.Threads.Lemmas
/-!
# Threads: invariants of the swap-extended machine and the slot refinement (helper lemmas for Props/C19)
-/
namespace CattrsModel.Threads

/-! ## Extended schedules -/

@[simp] theorem runOps_nil (shared : Bool) (G : Graph) (s : GState) : runOps shared G [] s = s := rfl
@[simp] theorem runOps_cons (shared : Bool) (G : Graph) (op : SOp) (ops : List SOp) (s : GState) :
    runOps shared G (op :: ops) s = runOps shared G ops (gop shared G s op) := rfl
theorem runOps_append (shared : Bool) (G : Graph) (a b : List SOp) (s : GState) :
    runOps shared G (a ++ b) s = runOps shared G b (runOps shared G a s) := by
  simp [runOps, List.foldl_append]

/-- plain schedules are the extended schedules without swaps -/
theorem runOps_steps (shared : Bool) (G : Graph) (sched : List Nat) : ∀ (s : GState),
    runOps shared G (sched.map .step) s = runSched shared G sched s := by
  induction sched with
  | nil => intro s; rfl
  | cons i is ih => intro s; simp [gop, ih]

@[simp] theorem runOpsR_nil (G : Graph) (s : RState) : runOpsR G [] s = s := rfl
@[simp] theorem runOpsR_cons (G : Graph) (op : SOp) (ops : List SOp) (s : RState) :
    runOpsR G (op :: ops) s = runOpsR G ops (rop G s op) := rfl

theorem atTop_iff (th : Thread) : th.atTop = true ↔ th.ctl = .idle ∧ th.stack = [] := by
  unfold Thread.atTop
  split
  · simp_all
  · rename_i h
    constructor
    · intro hf; cases hf
    · intro ⟨h1, h2⟩; exact absurd h2 (h h1)

theorem gswap_threads (shared : Bool) (s : GState) (i : Nat) (P : List Nat) :
    (gswap shared s i P).threads = s.threads ∧ (gswap shared s i P).mem = s.mem ∧
    (gswap shared s i P).trace = s.trace := by
  unfold gswap; split <;> exact ⟨rfl, rfl, rfl⟩

/-- the invariant of every sharing mode does not mention the working set: a swap keeps it -/
theorem gop_GInv {shared : Bool} {G : Graph} {calls0 : Nat → List Nat} (s : GState) (op : SOp)
    (inv : GInv G calls0 s) : GInv G calls0 (gop shared G s op) := by
  cases op with
  | step i => exact gstep_GInv s i inv
  | swap i P =>
    obtain ⟨h1, h2, _⟩ := gswap_threads shared s i P
    exact ⟨by simp only [gop, h1]; exact inv.sinv, by simp only [gop, h2]; exact inv.mem,
           by simp only [gop, h1]; exact inv.twt⟩

theorem runOps_GInv {shared : Bool} {G : Graph} (calls : Nat → List Nat) (ops : List SOp) :
    ∀ s, GInv G calls s → GInv G calls (runOps shared G ops s) := by
  induction ops with
  | nil => intro s h; exact h
  | cons op ops ih => intro s h; exact ih _ (gop_GInv s op h)

/-! ## The working set = own stack ++ own forced classes -/

/-- what `tstep` does to the working set, by the access it makes -/
theorem tstep_of_none (G : Graph) (th : Thread) (M : Mem) (h : wsAcc G th = .none) (ws : List Nat) :
    tstep G th ws M = { tstep G th [] M with ws := ws } := by
  obtain ⟨ctl, stack, calls, results⟩ := th
  cases ctl with
  | idle => cases calls <;> simp [tstep]
  | disp n c => cases c <;> simp [tstep] <;> split <;> rfl
  | direct n c => simp [tstep]; split <;> rfl
  | enter n c =>
    simp [wsAcc] at h
    simp [tstep, h]
  | run =>
    cases stack with
    | nil => simp [tstep]
    | cons f fs =>
      cases htd : f.todo with
      | cons e rest => obtain ⟨j, k⟩ := e; simp [tstep, htd]
      | nil =>
        simp [wsAcc, htd] at h
        simp [tstep, htd, complete, h]
  | wdirect n hk c => simp [tstep]
  | clear n hk c => simp [tstep]
  | ret n hk c => simp [tstep]
  | raise e =>
    cases stack with
    | nil => simp [tstep]
    | cons f fs =>
      simp only [wsAcc] at h
      simp only [tstep]
      split
      next hcond =>
        simp only [hcond] at h
        cases htd : f.todo with
        | cons e' rest => obtain ⟨j, k⟩ := e'; simp
        | nil =>
          simp [htd] at h
          simp [unwind, h]
      next hcond =>
        simp only [hcond, if_false] at h
        simp at h
        simp [unwind, h]

theorem tstep_of_enter (G : Graph) (th : Thread) (M : Mem) (n : Nat) (h : wsAcc G th = .enter n) (ws : List Nat) :
    tstep G th ws M = { tstep G th (if n ∈ ws then [n] else []) M with ws := if n ∈ ws then ws else n :: ws } := by
  obtain ⟨ctl, stack, calls, results⟩ := th
  cases ctl with
  | enter m c =>
    simp only [wsAcc] at h
    split at h
    next hu =>
      cases h
      by_cases hin : n ∈ ws <;> simp [tstep, hu, hin]
    next => cases h
  | run =>
    simp only [wsAcc] at h
    (repeat' split at h) <;> cases h
  | raise e =>
    simp only [wsAcc] at h
    (repeat' split at h) <;> cases h
  | idle | disp _ _ | direct _ _ | wdirect _ _ _ | clear _ _ _ | ret _ _ _ => simp [wsAcc] at h

theorem tstep_of_exit (G : Graph) (th : Thread) (M : Mem) (n : Nat) (h : wsAcc G th = .exit n) (ws : List Nat) :
    tstep G th ws M = { tstep G th (if n ∈ ws then [n] else []) M with ws := if n ∈ ws then ws.erase n else ws } := by
  obtain ⟨ctl, stack, calls, results⟩ := th
  cases ctl with
  | enter m c =>
    simp only [wsAcc] at h
    split at h <;> cases h
  | run =>
    cases stack with
    | nil => simp [wsAcc] at h
    | cons f fs =>
      cases htd : f.todo with
      | cons e rest => simp [wsAcc, htd] at h
      | nil =>
        simp only [wsAcc, htd] at h
        split at h
        next hu =>
          cases h
          by_cases hin : f.node ∈ ws <;> simp [tstep, htd, complete, hu, hin]
        next => cases h
  | raise e =>
    cases stack with
    | nil => simp [wsAcc] at h
    | cons f fs =>
      simp only [wsAcc] at h
      simp only [tstep]
      split
      next hcond =>
        cases htd : f.todo with
        | cons e' rest => simp [htd, hcond] at h
        | nil =>
          by_cases hu : (G.node f.node).usesWs = true
          · simp [htd, hcond, hu] at h
            subst h
            by_cases hin : f.node ∈ ws <;> simp [unwind, hu, hin]
          · simp [htd, hcond, hu] at h
      next hcond =>
        by_cases hu : (G.node f.node).usesWs = true
        · simp [hcond, hu] at h
          subst h
          by_cases hin : f.node ∈ ws <;> simp [unwind, hu, hin]
        · simp [hcond, hu] at h
  | idle | disp _ _ | direct _ _ | wdirect _ _ _ | clear _ _ _ | ret _ _ _ => simp [wsAcc] at h

/-- … and to the thread's own stack of working-set classes -/
theorem tstep_stack_none (G : Graph) (th : Thread) (M : Mem) (h : wsAcc G th = .none) (ws : List Nat) :
    wsOf G (tstep G th ws M).th.stack = wsOf G th.stack := by
  obtain ⟨ctl, stack, calls, results⟩ := th
  cases ctl with
  | idle => cases calls <;> simp [tstep]
  | disp n c =>
    cases c with
    | false => rfl
    | true =>
      simp only [tstep]
      cases M.lru n with
      | some hk => exact deliver_stack_wsOf G _ _
      | none => rfl
  | direct n c => simp only [tstep]; split <;> rfl
  | enter n c =>
    simp [wsAcc] at h
    simp [tstep, h, wsOf_cons]
  | run =>
    cases stack with
    | nil => simp [tstep]
    | cons f fs =>
      cases htd : f.todo with
      | cons e rest => obtain ⟨j, k⟩ := e; simp [tstep, htd]
      | nil =>
        simp [wsAcc, htd] at h
        simp [tstep, htd, complete, h, wsOf_cons]
  | wdirect n hk c => simp [tstep]
  | clear n hk c => simp [tstep]
  | ret n hk c => simp [tstep, deliver_stack_wsOf]
  | raise e =>
    cases stack with
    | nil => simp only [tstep, finish]; cases calls <;> rfl
    | cons f fs =>
      simp only [wsAcc] at h
      simp only [tstep]
      split
      next hcond =>
        cases htd : f.todo with
        | cons e' rest => obtain ⟨j, k⟩ := e'; simp [wsOf_cons]
        | nil =>
          simp [htd, hcond] at h
          simp [unwind, h, wsOf_cons]
      next hcond =>
        simp [hcond] at h
        simp [unwind, h, wsOf_cons]

theorem tstep_stack_enter (G : Graph) (th : Thread) (M : Mem) (n : Nat) (h : wsAcc G th = .enter n) (ws : List Nat) :
    wsOf G (tstep G th ws M).th.stack = if n ∈ ws then wsOf G th.stack else n :: wsOf G th.stack := by
  obtain ⟨ctl, stack, calls, results⟩ := th
  cases ctl with
  | enter m c =>
    by_cases hu : (G.node m).usesWs = true
    · simp [wsAcc, hu] at h
      subst h
      by_cases hin : m ∈ ws <;> simp [tstep, hu, hin, wsOf_cons]
    · simp [wsAcc, hu] at h
  | run =>
    simp only [wsAcc] at h
    (repeat' split at h) <;> cases h
  | raise e =>
    simp only [wsAcc] at h
    (repeat' split at h) <;> cases h
  | idle | disp _ _ | direct _ _ | wdirect _ _ _ | clear _ _ _ | ret _ _ _ => simp [wsAcc] at h

theorem tstep_stack_exit (G : Graph) (th : Thread) (M : Mem) (n : Nat) (h : wsAcc G th = .exit n) (ws : List Nat) :
    wsOf G th.stack = n :: wsOf G (tstep G th ws M).th.stack := by
  obtain ⟨ctl, stack, calls, results⟩ := th
  cases ctl with
  | enter m c =>
    simp only [wsAcc] at h
    split at h <;> cases h
  | run =>
    cases stack with
    | nil => simp [wsAcc] at h
    | cons f fs =>
      cases htd : f.todo with
      | cons e rest => simp [wsAcc, htd] at h
      | nil =>
        by_cases hu : (G.node f.node).usesWs = true
        · simp [wsAcc, htd, hu] at h
          subst h
          by_cases hin : f.node ∈ ws <;> simp [tstep, htd, complete, hu, hin, wsOf_cons]
        · simp [wsAcc, htd, hu] at h
  | raise e =>
    cases stack with
    | nil => simp [wsAcc] at h
    | cons f fs =>
      simp only [wsAcc] at h
      simp only [tstep]
      split
      next hcond =>
        cases htd : f.todo with
        | cons e' rest => simp [htd, hcond] at h
        | nil =>
          by_cases hu : (G.node f.node).usesWs = true
          · simp [htd, hcond, hu] at h
            subst h
            by_cases hin : f.node ∈ ws <;> simp [unwind, hu, hin, wsOf_cons]
          · simp [htd, hcond, hu] at h
      next hcond =>
        by_cases hu : (G.node f.node).usesWs = true
        · simp [hcond, hu] at h
          subst h
          by_cases hin : f.node ∈ ws <;> simp [unwind, hu, hin, wsOf_cons]
        · simp [hcond, hu] at h
  | idle | disp _ _ | direct _ _ | wdirect _ _ _ | clear _ _ _ | ret _ _ _ => simp [wsAcc] at h

/-- the working set stays `own stack ++ forced classes` -/
theorem tstep_ws_ph (G : Graph) (th : Thread) (ws : List Nat) (M : Mem) (P : List Nat)
    (hws : ws = wsOf G th.stack ++ P) :
    (tstep G th ws M).ws = wsOf G (tstep G th ws M).th.stack ++ P := by
  cases hacc : wsAcc G th with
  | none =>
    have hw : (tstep G th ws M).ws = ws := by rw [tstep_of_none G th M hacc ws]
    rw [tstep_stack_none G th M hacc ws, hw]
    exact hws
  | enter n =>
    have hw : (tstep G th ws M).ws = if n ∈ ws then ws else n :: ws := by rw [tstep_of_enter G th M n hacc ws]
    rw [tstep_stack_enter G th M n hacc ws, hw]
    by_cases hin : n ∈ ws
    · simp only [hin, if_true]; exact hws
    · simp only [hin, if_false]; rw [hws]; rfl
  | exit n =>
    have hst := tstep_stack_exit G th M n hacc ws
    have hw : (tstep G th ws M).ws = if n ∈ ws then ws.erase n else ws := by rw [tstep_of_exit G th M n hacc ws]
    have hin : n ∈ ws := by rw [hws, hst]; simp
    rw [hw]
    simp only [hin, if_true]
    generalize wsOf G (tstep G th ws M).th.stack = S' at hst ⊢
    rw [hws, hst]
    simp

/-! ## No `KeyError`, and every detected cycle is the thread's own doing -/

/-- what a step may emit with thread-local working sets and swaps: a class found by test-and-add is being generated by
an unfinished factory of THIS thread or was put there by THIS thread's own swap (forced); `remove` never fails -/
def evOKph (th : Thread) (P : List Nat) : Option Ev → Prop
  | some (.enter n false) => (∃ f ∈ th.stack, f.node = n) ∨ n ∈ P
  | some (.exit _ false) => False
  | _ => True

theorem deliver_ctl_ne_raise (th : Thread) (h : Hook) (e : Exc) : (deliver th h).ctl ≠ .raise e := by
  unfold deliver
  split
  · unfold finish; split <;> simp
  · simp

theorem retCtl_ne_raise (G : Graph) (f : Frame) (e : Exc) : retCtl G f ≠ .raise e := by
  unfold retCtl; split <;> simp

theorem tstep_NoKey (G : Graph) (th : Thread) (ws : List Nat) (M : Mem) (P : List Nat)
    (hws : ws = wsOf G th.stack ++ P) (nk : th.ctl ≠ .raise .key) :
    (tstep G th ws M).th.ctl ≠ .raise .key ∧ evOKph th P (tstep G th ws M).ev := by
  unfold tstep
  split
  next hc => split <;> simp [evOKph, hc]
  next n c hc =>
    split
    · split
      · exact ⟨deliver_ctl_ne_raise _ _ _, trivial⟩
      · simp [evOKph]
    · simp [evOKph]
  next n c hc => split <;> simp [evOKph]
  next n c hc =>
    split
    next hu =>
      split
      next hin =>
        refine ⟨by simp, ?_⟩
        rw [hws] at hin
        rcases List.mem_append.1 hin with h1 | h2
        · obtain ⟨f, hf, hn, _⟩ := mem_wsOf h1
          exact Or.inl ⟨f, hf, hn⟩
        · exact Or.inr h2
      · simp [evOKph]
    · simp [evOKph]
  next hc =>
    split
    · simp [evOKph]
    next f fs hs =>
      split
      · simp [evOKph]
      next htd =>
        rw [hs, wsOf_cons] at hws
        unfold complete
        split
        next hu =>
          simp only [hu, if_true] at hws
          split
          · exact ⟨retCtl_ne_raise G f _, trivial⟩
          next hn => exact absurd (by simp [hws]) hn
        next hu => exact ⟨retCtl_ne_raise G f _, trivial⟩
  next n h c hc => simp [evOKph]
  next n h c hc => simp [evOKph]
  next n h c hc => exact ⟨deliver_ctl_ne_raise _ _ _, trivial⟩
  next e hc =>
    have he : e = .recur := by
      cases e
      · rfl
      · exact absurd hc nk
    subst he
    split
    next hs => unfold finish; split <;> simp [evOKph]
    next f fs hs =>
      have hunw : (unwind G th f fs ws M .recur).th.ctl ≠ .raise .key ∧ evOKph th P (unwind G th f fs ws M .recur).ev := by
        rw [hs, wsOf_cons] at hws
        unfold unwind
        split
        next hu =>
          simp only [hu, if_true] at hws
          split
          · simp [evOKph]
          next hn => exact absurd (by simp [hws]) hn
        next hu => simp [evOKph]
      split
      · split
        · simp [evOKph]
        · exact hunw
      · exact hunw

/-- the invariant of extended schedules with thread-local working sets; `ops` = the operations executed so far -/
structure XInv (G : Graph) (calls0 : Nat → List Nat) (ops : List SOp) (s : GState) : Prop where
  ginv : GInv G calls0 s
  ws : ∀ i, ∃ P, s.ws i = wsOf G (s.threads i).stack ++ P ∧ (P = [] ∨ SOp.swap i P ∈ ops)
  nokey : ∀ i, (s.threads i).ctl ≠ .raise .key
  trace : ∀ i n, (i, Ev.exit n false) ∉ s.trace

theorem XInv_init (G : Graph) (calls : Nat → List Nat) : XInv G calls [] (GState.init calls) :=
  ⟨GInv_init G calls, fun i => ⟨[], by simp [GState.init, Thread.init, wsOf], Or.inl rfl⟩,
   by simp [GState.init, Thread.init], by simp [GState.init]⟩

theorem gop_XInv {G : Graph} {calls0 : Nat → List Nat} (ops : List SOp) (s : GState) (op : SOp)
    (inv : XInv G calls0 ops s) : XInv G calls0 (ops ++ [op]) (gop false G s op) := by
  have mono : ∀ i, (∃ P, s.ws i = wsOf G (s.threads i).stack ++ P ∧ (P = [] ∨ SOp.swap i P ∈ ops)) →
      ∃ P, s.ws i = wsOf G (s.threads i).stack ++ P ∧ (P = [] ∨ SOp.swap i P ∈ ops ++ [op]) := by
    intro i ⟨P, h1, h2⟩
    exact ⟨P, h1, h2.imp id (fun h => List.mem_append_left _ h)⟩
  cases op with
  | step i =>
    obtain ⟨P, hP, hP'⟩ := inv.ws i
    have hk := tstep_NoKey G (s.threads i) (s.ws i) s.mem P hP (inv.nokey i)
    refine ⟨gstep_GInv s i inv.ginv, ?_, ?_, ?_⟩
    · intro j
      by_cases hj : j = i
      · subst hj
        refine ⟨P, ?_, hP'.imp id (fun h => List.mem_append_left _ h)⟩
        have := tstep_ws_ph G (s.threads j) (s.ws j) s.mem P hP
        simpa [gop, gstep] using this
      · simp only [gop]
        rw [gstep_thread_other _ _ _ _ _ hj, gstep_ws_other _ _ _ _ hj]
        exact mono j (inv.ws j)
    · intro j
      by_cases hj : j = i
      · subst hj; simpa [gop] using hk.1
      · simp only [gop]; rw [gstep_thread_other _ _ _ _ _ hj]; exact inv.nokey j
    · intro j n hm
      simp only [gop, gstep, owner_local] at hm
      split at hm
      next e he =>
        simp at hm
        rcases hm with ⟨rfl, rfl⟩ | hm
        · have := hk.2; rw [he] at this; exact this
        · exact inv.trace j n hm
      next => exact inv.trace j n hm
  | swap i Q =>
    obtain ⟨h1, h2, h3⟩ := gswap_threads false s i Q
    refine ⟨gop_GInv s _ inv.ginv, ?_, by simp only [gop, h1]; exact inv.nokey,
            by simp only [gop, h3]; exact inv.trace⟩
    intro j
    simp only [gop, h1]
    unfold gswap
    split
    next htop =>
      by_cases hj : j = i
      · subst hj
        obtain ⟨_, hst⟩ := (atTop_iff _).1 htop
        exact ⟨Q, by simp [hst, wsOf], Or.inr (by simp)⟩
      · simp only [owner_local, upd_other _ _ _ _ hj]
        exact mono j (inv.ws j)
    next => exact mono j (inv.ws j)

theorem runOps_XInv {G : Graph} (calls : Nat → List Nat) (ops : List SOp) : ∀ (pre : List SOp) (s : GState),
    XInv G calls pre s → XInv G calls (pre ++ ops) (runOps false G ops s) := by
  induction ops with
  | nil => intro pre s h; simpa using h
  | cons op ops ih =>
    intro pre s h
    have := ih (pre ++ [op]) _ (gop_XInv pre s op h)
    simpa using this

/-! ## The slot refinement -/

theorem Cell.enter_abs (c : Cell) (n : Nat) :
    (c.enter n).2.2 = decide (n ∈ c.abs) ∧
    (c.enter n).1.abs = if n ∈ c.abs then c.abs else n :: c.abs := by
  unfold Cell.enter Cell.abs
  cases hs : c.slot with
  | none => simp
  | some sid =>
    by_cases hin : n ∈ c.sets sid <;> simp [hin, hs]

theorem Cell.exit_abs (c : Cell) (sid n : Nat) (h : c.slot = some sid) :
    ((c.exit sid n).2 = .keyErr ↔ n ∉ c.abs) ∧ (c.exit sid n).2 ≠ .attrErr ∧
    (c.exit sid n).1.abs = if n ∈ c.abs then c.abs.erase n else c.abs := by
  unfold Cell.exit Cell.abs
  simp only [h]
  by_cases hin : n ∈ c.sets sid
  · simp only [hin, if_true]
    by_cases he : ((c.sets sid).erase n).isEmpty = true
    · simp only [he, if_true]
      refine ⟨by simp [hin], by simp, ?_⟩
      simpa using he
    · simp [he, hin]
  · simp [hin, h]

/-- the set objects held by the unfinished working-set factories of a thread are all THE object in the slot -/
structure RInvT (G : Graph) (th : Thread) (sids : List Nat) (c : Cell) : Prop where
  held : ∀ sid ∈ sids, c.slot = some sid
  len : sids.length = (wsOf G th.stack).length

theorem rstep_sim (G : Graph) (th : Thread) (sids : List Nat) (c : Cell) (M : Mem) (inv : RInvT G th sids c) :
    (rstep G th sids c M).th = (tstep G th c.abs M).th ∧ (rstep G th sids c M).mem = (tstep G th c.abs M).mem ∧
    (rstep G th sids c M).ev = (tstep G th c.abs M).ev ∧ (rstep G th sids c M).cell.abs = (tstep G th c.abs M).ws := by
  unfold rstep
  cases hacc : wsAcc G th with
  | none =>
    rw [tstep_of_none G th M hacc c.abs]
    exact ⟨rfl, rfl, rfl, rfl⟩
  | enter n =>
    obtain ⟨h1, h2⟩ := Cell.enter_abs c n
    rw [tstep_of_enter G th M n hacc c.abs]
    simp only [h1, decide_eq_true_eq]
    exact ⟨by first | rfl | trivial, by first | rfl | trivial, by first | rfl | trivial, h2⟩
  | exit n =>
    have hst := tstep_stack_exit G th M n hacc []
    cases sids with
    | nil =>
      have := inv.len
      rw [hst] at this
      simp at this
    | cons sid rest =>
      obtain ⟨h1, _, h3⟩ := Cell.exit_abs c sid n (inv.held sid (by simp))
      rw [tstep_of_exit G th M n hacc c.abs]
      have hfake : (if (c.exit sid n).2 = ExitAns.keyErr then ([] : List Nat) else [n]) = if n ∈ c.abs then [n] else [] := by
        by_cases hin : n ∈ c.abs
        · have : ¬ (c.exit sid n).2 = ExitAns.keyErr := fun hk => (h1.1 hk) hin
          simp [hin, this]
        · have : (c.exit sid n).2 = ExitAns.keyErr := h1.2 hin
          simp [hin, this]
      simp only [hfake]
      exact ⟨by first | rfl | trivial, by first | rfl | trivial, by first | rfl | trivial, h3⟩

theorem rstep_inv (G : Graph) (th : Thread) (sids : List Nat) (c : Cell) (M : Mem) (P : List Nat)
    (inv : RInvT G th sids c) (hws : c.abs = wsOf G th.stack ++ P) :
    (rstep G th sids c M).fault = false ∧
    RInvT G (rstep G th sids c M).th (rstep G th sids c M).sids (rstep G th sids c M).cell := by
  unfold rstep
  cases hacc : wsAcc G th with
  | none =>
    refine ⟨rfl, inv.held, ?_⟩
    show sids.length = (wsOf G (tstep G th [] M).th.stack).length
    rw [tstep_stack_none G th M hacc []]; exact inv.len
  | enter n =>
    obtain ⟨h1, _⟩ := Cell.enter_abs c n
    by_cases hin : n ∈ c.abs
    · have hf : (c.enter n).2.2 = true := by simp [h1, hin]
      have hc : (c.enter n).1 = c := by
        unfold Cell.enter
        cases hs : c.slot with
        | none => simp [Cell.abs, hs] at hin
        | some sid =>
          have : n ∈ c.sets sid := by simpa [Cell.abs, hs] using hin
          simp [this]
      simp only [hf, if_true, hc]
      refine ⟨by first | rfl | trivial, inv.held, ?_⟩
      show sids.length = (wsOf G (tstep G th [n] M).th.stack).length
      rw [tstep_stack_enter G th M n hacc [n]]; simpa using inv.len
    · have hf : (c.enter n).2.2 = false := by simp [h1, hin]
      simp only [hf]
      refine ⟨by first | rfl | trivial, ?_, ?_⟩
      · show ∀ sid ∈ (c.enter n).2.1 :: sids, (c.enter n).1.slot = some sid
        unfold Cell.enter
        cases hs : c.slot with
        | none =>
          have : sids = [] := by
            cases sids with
            | nil => rfl
            | cons a _ => have := inv.held a (by simp); rw [hs] at this; cases this
          subst this
          simp
        | some sid =>
          have hn : n ∉ c.sets sid := by simpa [Cell.abs, hs] using hin
          simp only [hn, if_false]
          intro x hx
          simp at hx
          rcases hx with rfl | hx
          · rfl
          · rw [← hs]; exact inv.held x hx
      · show ((c.enter n).2.1 :: sids).length = (wsOf G (tstep G th [] M).th.stack).length
        rw [tstep_stack_enter G th M n hacc []]; simpa using inv.len
  | exit n =>
    have hst := tstep_stack_exit G th M n hacc
    cases sids with
    | nil =>
      have := inv.len
      rw [hst []] at this
      simp at this
    | cons sid rest =>
      have hslot := inv.held sid (by simp)
      obtain ⟨_, h2, h3⟩ := Cell.exit_abs c sid n hslot
      have hin : n ∈ c.abs := by rw [hws, hst []]; simp
      simp only [hin, if_true] at h3
      dsimp only
      generalize hfk : (if (c.exit sid n).2 = ExitAns.keyErr then ([] : List Nat) else [n]) = fk
      have hst' := hst fk
      have hlen : rest.length = (wsOf G (tstep G th fk M).th.stack).length := by
        have := inv.len
        rw [hst'] at this
        simpa using this
      refine ⟨by simpa using h2, ?_, hlen⟩
      show ∀ x ∈ rest, (c.exit sid n).1.slot = some x
      intro x hx
      -- the set did not become empty: something is left below
      have hne : c.abs.erase n ≠ [] := by
        rw [hws, hst']
        simp only [List.cons_append, List.erase_cons_head]
        intro he
        have h0 : (wsOf G (tstep G th fk M).th.stack).length = 0 := by
          rw [(List.append_eq_nil_iff.1 he).1]; rfl
        rw [← hlen] at h0
        cases rest with
        | nil => cases hx
        | cons _ _ => simp at h0
      have hsets : c.sets sid = c.abs := by simp [Cell.abs, hslot]
      have hins : n ∈ c.sets sid := by rw [hsets]; exact hin
      have hemp : ((c.sets sid).erase n).isEmpty = false := by
        rw [hsets]
        cases hq : c.abs.erase n with
        | nil => exact absurd hq hne
        | cons _ _ => rfl
      unfold Cell.exit
      simp only [hins, if_true, hemp]
      exact inv.held x (by simp [hx])

structure RInvG (G : Graph) (s : RState) : Prop where
  thr : ∀ i, RInvT G (s.threads i) (s.sids i) (s.cells i)
  fault : s.fault = false

theorem RInvG_init (G : Graph) (calls : Nat → List Nat) : RInvG G (RState.init calls) :=
  ⟨fun _ => ⟨by simp [RState.init], by simp [RState.init, Thread.init, wsOf]⟩, rfl⟩

theorem RState.init_abs (calls : Nat → List Nat) : (RState.init calls).abs = GState.init calls := rfl

/-- one refined step IS the abstract step on the forgetful image -/
theorem rgstep_abs (G : Graph) (s : RState) (i : Nat) (inv : RInvG G s) :
    (rgstep G s i).abs = gstep false G s.abs i := by
  obtain ⟨h1, h2, h3, h4⟩ := rstep_sim G (s.threads i) (s.sids i) (s.cells i) s.mem (inv.thr i)
  have hws : (fun k => ((upd s.cells i (rstep G (s.threads i) (s.sids i) (s.cells i) s.mem).cell) k).abs)
      = upd (fun k => (s.cells k).abs) i (tstep G (s.threads i) (s.cells i).abs s.mem).ws := by
    funext k
    by_cases hk : k = i
    · subst hk; simp [h4]
    · simp [hk]
  simp only [rgstep, gstep, RState.abs, owner_local, h1, h2, h3, hws]
  rfl

theorem rgswap_abs (s : RState) (i : Nat) (P : List Nat) : (rgswap s i P).abs = gswap false s.abs i P := by
  unfold rgswap gswap
  by_cases htop : (s.threads i).atTop = true
  · have : (fun k => ((upd s.cells i ((s.cells i).swap P)) k).abs) = upd (fun k => (s.cells k).abs) i P := by
      funext k
      by_cases hk : k = i
      · subst hk; simp [Cell.swap, Cell.abs]
      · simp [hk]
    simp only [RState.abs, htop, if_true, owner_local, this]
  · simp only [RState.abs, htop]
    rfl

theorem rop_abs (G : Graph) (s : RState) (op : SOp) (inv : RInvG G s) : (rop G s op).abs = gop false G s.abs op := by
  cases op with
  | step i => exact rgstep_abs G s i inv
  | swap i P => exact rgswap_abs s i P

theorem rop_RInvG (G : Graph) (s : RState) (op : SOp) (inv : RInvG G s)
    (hws : ∀ i, ∃ P, (s.cells i).abs = wsOf G (s.threads i).stack ++ P) : RInvG G (rop G s op) := by
  cases op with
  | step i =>
    obtain ⟨P, hP⟩ := hws i
    obtain ⟨hf, hi⟩ := rstep_inv G (s.threads i) (s.sids i) (s.cells i) s.mem P (inv.thr i) hP
    refine ⟨?_, by simp [rop, rgstep, inv.fault, hf]⟩
    intro j
    by_cases hj : j = i
    · subst hj; simpa [rop, rgstep] using hi
    · simpa [rop, rgstep, hj] using inv.thr j
  | swap i P =>
    simp only [rop]
    unfold rgswap
    split
    next htop =>
      refine ⟨?_, inv.fault⟩
      intro j
      by_cases hj : j = i
      · subst hj
        obtain ⟨_, hst⟩ := (atTop_iff _).1 htop
        have hl := (inv.thr j).len
        rw [hst] at hl
        have hs : s.sids j = [] := by
          cases hq : s.sids j with
          | nil => rfl
          | cons _ _ => rw [hq] at hl; simp [wsOf] at hl
        exact ⟨by simp [hs], by simp [hs, hst, wsOf]⟩
      · simpa [hj] using inv.thr j
    next => exact inv

/-- **the slot refinement**: under every extended schedule the refined machine (attribute slot, set identities,
delete-when-empty) is the abstract machine, and it never faults -/
theorem runOpsR_sim {G : Graph} (calls : Nat → List Nat) (ops : List SOp) : ∀ (pre : List SOp) (s : RState),
    s.abs = runOps false G pre (GState.init calls) → RInvG G s →
    (runOpsR G ops s).abs = runOps false G (pre ++ ops) (GState.init calls) ∧ RInvG G (runOpsR G ops s) := by
  induction ops with
  | nil => intro pre s h inv; exact ⟨by simpa using h, inv⟩
  | cons op ops ih =>
    intro pre s h inv
    have hx : XInv G calls pre s.abs := by
      rw [h]
      simpa using runOps_XInv calls pre [] _ (XInv_init G calls)
    have hws : ∀ i, ∃ P, (s.cells i).abs = wsOf G (s.threads i).stack ++ P := by
      intro i
      obtain ⟨P, hP, _⟩ := hx.ws i
      exact ⟨P, hP⟩
    have h' : (rop G s op).abs = runOps false G (pre ++ [op]) (GState.init calls) := by
      rw [rop_abs G s op inv, h, runOps_append]; rfl
    have := ih (pre ++ [op]) _ h' (rop_RInvG G s op inv hws)
    simpa using this

end CattrsModel.Threads
