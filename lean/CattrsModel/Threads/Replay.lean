import CattrsModel.Threads.Model
import CattrsModel.Threads.Slot
/-!
# Threads: replaying an OBSERVED interleaving on the generation machine (corr:C19:GENSCHED)

A real concurrent run (harness/sched.py) is observed as the global sequence of *accesses*: every read / write of
the two memo tables (`lru_cache` around `dispatch`, `_direct_dispatch`), every `cache_clear`, and every
test-and-add / remove on the working set, each with the thread that performed it and the answer it got.
Between two accesses a thread only changes its own control state.

`accOf` says which access (if any) the NEXT step of a thread performs and which answer it gets — a function of
the state before the step, so `tstep` itself is untouched.  `runToAcc i` lets thread `i` run up to and including
its next access; `replay` does that for a list of thread ids (one per observed access) and returns the accesses
the machine performed.  `Threads/ReplayLemmas.lean`: a step without access changes neither the memo tables nor
the working set (`tstep_silent`), and every replay IS a schedule of `runSched` (`replay_is_sched`), so the C19
theorems speak about exactly the state the driver computed.

`runToAccR` / `replayR` are the same on the REFINED machine of `Threads/Slot.lean` (attribute slot, set identities,
swap): the items of an observed run are `step i` (thread `i` up to its next access) and `swap i P`; `replayR_is_ops`:
the result is `runOpsR` of the expanded operation list, whose forgetful image is `runOps` of it (`runOpsR_sim`).
-/
namespace CattrsModel.Threads

inductive Acc where
  | lruRead (n : Nat) (hit : Bool)
  | dirRead (n : Nat) (hit : Bool)
  | ws (e : Ev)
  | dirWrite (n : Nat)
  | clear
  | lruWrite (n : Nat)
  deriving Repr, DecidableEq

/-- the access the next step of `th` performs (none = a step on the thread's own control state only) -/
def accOf (G : Graph) (th : Thread) (ws : List Nat) (M : Mem) : Option Acc :=
  match th.ctl with
  | .disp n true => some (.lruRead n (M.lru n).isSome)
  | .direct n _ => some (.dirRead n (M.direct n).isSome)
  | .wdirect n _ _ => some (.dirWrite n)
  | .clear _ _ _ => some .clear
  | .ret n _ true => some (.lruWrite n)
  | _ => (tstep G th ws M).ev.map .ws

/-- thread `i` runs up to and including its next access (at most `fuel` steps); the thread ids of the steps made -/
def runToAcc (shared : Bool) (G : Graph) (i : Nat) : Nat → GState → GState × Option Acc × List Nat
  | 0, s => (s, none, [])
  | fuel + 1, s =>
    if (s.threads i).finished then (s, none, [])
    else
      match accOf G (s.threads i) (s.ws (owner shared i)) s.mem with
      | some a => (gstep shared G s i, some a, [i])
      | none =>
        let r := runToAcc shared G i fuel (gstep shared G s i)
        (r.1, r.2.1, i :: r.2.2)

/-- one `runToAcc` per observed access; returns the final state, the accesses performed (newest LAST) and the
expanded schedule (one thread id per machine step) -/
def replay (shared : Bool) (G : Graph) (fuel : Nat) : List Nat → GState → GState × List (Nat × Option Acc) × List Nat
  | [], s => (s, [], [])
  | i :: is, s =>
    let r := runToAcc shared G i fuel s
    let r' := replay shared G fuel is r.1
    (r'.1, (i, r.2.1) :: r'.2.1, r.2.2 ++ r'.2.2)

/-! ## the same on the refined machine -/

def runToAccR (G : Graph) (i : Nat) : Nat → RState → RState × Option Acc × List SOp
  | 0, s => (s, none, [])
  | fuel + 1, s =>
    if (s.threads i).finished then (s, none, [])
    else
      match accOf G (s.threads i) (s.cells i).abs s.mem with
      | some a => (rgstep G s i, some a, [.step i])
      | none =>
        let r := runToAccR G i fuel (rgstep G s i)
        (r.1, r.2.1, .step i :: r.2.2)

/-- what an observer of thread `i`'s attribute sees: absent, or the members of the set stored there -/
def slotView (s : RState) (i : Nat) : Option (List Nat) := (s.cells i).slot.map (s.cells i).sets

/-- items: `step i` = thread `i` up to and including its next access, `swap i P`.  Returns the final state, per item
the access performed and the slot of that thread afterwards, and the expanded operation list. -/
def replayR (G : Graph) (fuel : Nat) : List SOp → RState → RState × List (Nat × Option Acc × Option (List Nat)) × List SOp
  | [], s => (s, [], [])
  | .step i :: is, s =>
    let r := runToAccR G i fuel s
    let r' := replayR G fuel is r.1
    (r'.1, (i, r.2.1, slotView r.1 i) :: r'.2.1, r.2.2 ++ r'.2.2)
  | .swap i P :: is, s =>
    let s1 := rgswap s i P
    let r' := replayR G fuel is s1
    (r'.1, (i, none, slotView s1 i) :: r'.2.1, .swap i P :: r'.2.2)

end CattrsModel.Threads
