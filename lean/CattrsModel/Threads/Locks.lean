import CattrsModel.Threads.Lemmas
/-!
# Threads: what a lock around hook generation would do (property C19; negative witness + progress)

cattrs' hook generation takes NO lock: every step of the generation machine (`tstep`) is defined in every state and
moves the thread (`tstep_moves`): a thread never waits for another one.  `LState` is the smallest model of what
"one (reentrant) lock per class around the generation of its hook" adds: a thread is a list of acquire / release
operations, an acquire is ENABLED only while the lock is free or its own.  Two threads entering a class cycle from two
ends take two class locks in opposite orders: after one step each nobody is enabled and nobody is finished.
-/
namespace CattrsModel.Threads

/-! ## the lock-free machine never waits -/

theorem deliver_ctl (th : Thread) (h : Hook) : (deliver th h).ctl = .run ∨ (deliver th h).ctl = .idle := by
  unfold deliver
  split
  · right; unfold finish; split <;> rfl
  · left; rfl

/-- every step of an unfinished thread changes its control state or its stack: there is no waiting step -/
theorem tstep_moves (G : Graph) (th : Thread) (ws : List Nat) (M : Mem) (hf : th.finished = false) :
    (tstep G th ws M).th.ctl ≠ th.ctl ∨ (tstep G th ws M).th.stack.length ≠ th.stack.length := by
  obtain ⟨ctl, stack, calls, results⟩ := th
  cases ctl with
  | idle =>
    cases calls with
    | nil => simp [Thread.finished] at hf
    | cons r rs => left; simp [tstep]
  | disp n c =>
    left
    cases c with
    | false => simp [tstep]
    | true =>
      simp only [tstep]
      cases M.lru n with
      | none => simp
      | some h => rcases deliver_ctl ⟨.disp n true, stack, calls, results⟩ h with e | e <;> simp [e]
  | direct n c => left; simp only [tstep]; split <;> simp
  | enter n c => left; simp only [tstep]; (repeat' split) <;> simp
  | run =>
    cases stack with
    | nil => left; simp [tstep]
    | cons f fs =>
      simp only [tstep]
      split
      · left; simp
      · unfold complete
        (repeat' split) <;> first | (left; unfold retCtl; split <;> simp) | (left; simp)
  | wdirect n h c => left; simp [tstep]
  | clear n h c => left; simp [tstep]
  | ret n h c =>
    left
    simp only [tstep]
    rcases deliver_ctl ⟨.ret n h c, stack, calls, results⟩ h with e | e <;> simp [e]
  | raise e =>
    cases stack with
    | nil => left; simp only [tstep, finish]; split <;> simp
    | cons f fs =>
      simp only [tstep]
      split
      · split
        · left; simp
        · right; unfold unwind; (repeat' split) <;> simp
      · right; unfold unwind; (repeat' split) <;> simp

/-! ## locks -/

inductive LOp where
  | acq (l : Nat)
  | rel (l : Nat)
  deriving Repr, DecidableEq

def LOp.isAcq : LOp → Bool
  | .acq _ => true
  | .rel _ => false

structure LState where
  /-- what each thread still has to do -/
  progs : Nat → List LOp
  /-- holder and reentrancy count of each lock -/
  held : Nat → Option (Nat × Nat)

def LState.enabled (s : LState) (i : Nat) : Bool :=
  match s.progs i with
  | [] => false
  | .rel _ :: _ => true
  | .acq l :: _ =>
    match s.held l with
    | none => true
    | some (o, _) => o == i

def LState.step (s : LState) (i : Nat) : LState :=
  if s.enabled i then
    match s.progs i with
    | [] => s
    | .acq l :: rest =>
      { progs := upd s.progs i rest
        held := upd s.held l (match s.held l with | none => some (i, 1) | some (o, k) => some (o, k + 1)) }
    | .rel l :: rest =>
      { progs := upd s.progs i rest
        held := upd s.held l (match s.held l with | some (o, k + 2) => some (o, k + 1) | _ => none) }
  else s

def LState.run (s : LState) (sched : List Nat) : LState := sched.foldl LState.step s

def LState.init (progs : Nat → List LOp) : LState := ⟨progs, fun _ => none⟩

theorem LState.step_progs_other (s : LState) (i j : Nat) (h : j ≠ i) : (s.step i).progs j = s.progs j := by
  unfold LState.step
  split
  · split <;> simp [h]
  · rfl

/-- the program of a thread only ever shrinks to a suffix -/
theorem LState.step_progs_suffix (s : LState) (i j : Nat) : ∃ pre, s.progs j = pre ++ (s.step i).progs j := by
  by_cases h : j = i
  · subst h
    unfold LState.step
    split
    · split
      · exact ⟨[], by simp [*]⟩
      · rename_i l rest he; exact ⟨[.acq l], by simp [he]⟩
      · rename_i l rest he; exact ⟨[.rel l], by simp [he]⟩
    · exact ⟨[], rfl⟩
  · exact ⟨[], by rw [LState.step_progs_other s i j h]; rfl⟩

theorem LState.run_progs_suffix (sched : List Nat) : ∀ (s : LState) (j : Nat), ∃ pre, s.progs j = pre ++ (s.run sched).progs j := by
  induction sched with
  | nil => intro s j; exact ⟨[], rfl⟩
  | cons i is ih =>
    intro s j
    obtain ⟨p1, h1⟩ := LState.step_progs_suffix s i j
    obtain ⟨p2, h2⟩ := ih (s.step i) j
    exact ⟨p1 ++ p2, by rw [h1, h2]; simp [LState.run]⟩

end CattrsModel.Threads
