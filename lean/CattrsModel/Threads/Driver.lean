import CattrsModel.Sexp
import CattrsModel.Threads.Model
import CattrsModel.Threads.Replay
/-!
# Line-protocol operations of the Threads model (driver only; property C19)

`WSLOG <shared 0|1> (<event>…)` — replay a global working-set log with `wsRun`.
  `<event>` = `(<tid> get)` | `(<tid> set <sid> (<class>…))` | `(<tid> del)` | `(<tid> in <sid> <class>)` |
              `(<tid> add <sid> <class>)` | `(<tid> rm <sid> <class>)` | `(<tid> empty <sid>)`
  reply `(ok (<answer>…))`, one answer per event: `attrErr` | `(found <sid>)` | `unit` | `keyErr` | `1` | `0`.

`GENRUN <shared 0|1> <graph> (<roots of thread 0> <roots of thread 1> …) <how>` — run the generation machine.
  `<graph>` = `(<node>…)`, `<node>` = `(<usesWs> <catches> <direct> ((<target> <through-lru>)…))`
  `<roots …>` = `(<node index>…)` the top-level `get_*_hook` calls of that thread, in order
  `<how>` = `(seq <fuel>)`  every thread alone to completion, thread 0 first (`runSeq`), or
            `(sched (<tid>…) <fuel>)` the given schedule (`runSched`), then `runSeq` for whatever is left
            `(upto (<item>…) <fuel>)` replay of an OBSERVED interleaving on the REFINED machine (`replayR`:
                                     attribute slot, set identities, swap): `<item>` = `<tid>` — one per observed
                                     access; that thread runs up to and including its next access (≤ fuel steps) —
                                     or `(swap <tid> (<class>…))` = `already_generating.working_set = set(…)`.
            `(sched …)` accepts `(swap …)` items as well (`runOps`).
  reply `(ok (<thread>…) (<event>…))`, `<thread>` = `(<finished 0|1> (<root> ok|rec|key)…)`,
  `<event>` = `(<tid> enter <node> ok|rec)` | `(<tid> exit <node> ok|key)` in global order.
  For `upto` the reply has two more lists: `(<access>…)` — the access each replayed thread id performed:
  `(<tid> lru <node> hit|miss)` | `(<tid> dir <node> hit|miss)` | `(<tid> enter …)` | `(<tid> exit …)` |
  `(<tid> wdir <node>)` | `(<tid> clear)` | `(<tid> lruw <node>)` | `(<tid> none)` | `(<tid> swap)` — the expanded
  operation list `(<tid> | (swap <tid> (…)) …)` (one per machine step), which `(sched … 0)` must reproduce on the
  ABSTRACT machine (`replayR_is_ops`, `runOpsR_sim`) — per item the attribute slot of that thread afterwards,
  `(<tid> absent)` | `(<tid> (<class>…))` — and the fault flag `0|1` (a `del` of an absent attribute).
-/
namespace CattrsModel.Threads
open CattrsModel Sexp

def natOr (d : Nat) (s : Sexp) : Nat := (atomNat? s).getD d

def wsEvOfSexp : Sexp → Option WsEv
  | .list [t, .atom "get"] => do pure ⟨← atomNat? t, .get⟩
  | .list [t, .atom "set", sid, .list ms] => do pure ⟨← atomNat? t, .set (← atomNat? sid) (ms.map (natOr 999999))⟩
  | .list [t, .atom "del"] => do pure ⟨← atomNat? t, .del⟩
  | .list [t, .atom "in", sid, c] => do pure ⟨← atomNat? t, .mem (← atomNat? sid) (natOr 999999 c)⟩
  | .list [t, .atom "add", sid, c] => do pure ⟨← atomNat? t, .add (← atomNat? sid) (natOr 999999 c)⟩
  | .list [t, .atom "rm", sid, c] => do pure ⟨← atomNat? t, .rm (← atomNat? sid) (natOr 999999 c)⟩
  | .list [t, .atom "empty", sid] => do pure ⟨← atomNat? t, .empty (← atomNat? sid)⟩
  | _ => none

def sexpOfWsAns : WsAns → Sexp
  | .attrErr => .atom "attrErr"
  | .found sid => .list [.atom "found", ofNat sid]
  | .unit => .atom "unit"
  | .keyErr => .atom "keyErr"
  | .bool b => ofBool b

def nodeOfSexp : Sexp → Option Node
  | .list [t, c, d, .list es] => do
      let es ← es.mapM (fun (e : Sexp) => match e with
        | .list [j, k] => do pure ((← atomNat? j), (← bool? k))
        | _ => none)
      pure ⟨← bool? t, ← bool? c, ← bool? d, es⟩
  | _ => none

def natList? : Sexp → Option (List Nat)
  | .list xs => xs.mapM atomNat?
  | _ => none

def sexpOfOutcome : Outcome → Sexp
  | .ok _ => .atom "ok"
  | .exc .recur => .atom "rec"
  | .exc .key => .atom "key"

def sexpOfEv (i : Nat) : Ev → Sexp
  | .enter n ok => .list [ofNat i, .atom "enter", ofNat n, .atom (if ok then "ok" else "rec")]
  | .exit n ok => .list [ofNat i, .atom "exit", ofNat n, .atom (if ok then "ok" else "key")]

def sexpOfAcc (i : Nat) : Option Acc → Sexp
  | none => .list [ofNat i, .atom "none"]
  | some (.lruRead n hit) => .list [ofNat i, .atom "lru", ofNat n, .atom (if hit then "hit" else "miss")]
  | some (.dirRead n hit) => .list [ofNat i, .atom "dir", ofNat n, .atom (if hit then "hit" else "miss")]
  | some (.ws e) => sexpOfEv i e
  | some (.dirWrite n) => .list [ofNat i, .atom "wdir", ofNat n]
  | some .clear => .list [ofNat i, .atom "clear"]
  | some (.lruWrite n) => .list [ofNat i, .atom "lruw", ofNat n]

def sopOfSexp : Sexp → Option SOp
  | .list [.atom "swap", t, .list ms] => do pure (.swap (← atomNat? t) (← ms.mapM atomNat?))
  | t => do pure (.step (← atomNat? t))

def sexpOfSOp : SOp → Sexp
  | .step i => ofNat i
  | .swap i P => .list [.atom "swap", ofNat i, .list (P.map ofNat)]

def sexpOfSlot (i : Nat) : Option (List Nat) → Sexp
  | none => .list [ofNat i, .atom "absent"]
  | some ms => .list [ofNat i, .list (ms.map ofNat)]

def sexpOfThread (th : Thread) : Sexp :=
  .list (ofBool th.finished :: th.results.map (fun (r, o) => .list [ofNat r, sexpOfOutcome o]))

def threadsHandle (op : String) (args : List Sexp) : Option Sexp :=
  match op, args with
  | "WSLOG", [sh, .list evs] => do
      let sh ← bool? sh
      let evs ← evs.mapM wsEvOfSexp
      let r := wsRun sh evs WsState.init
      pure (.list [.atom "ok", .list (r.2.map sexpOfWsAns)])
  | "GENRUN", [sh, .list nodes, .list roots, how] => do
      let sh ← bool? sh
      let G ← nodes.mapM nodeOfSexp
      let roots ← roots.mapM natList?
      let n := roots.length
      let s0 := GState.init (fun i => roots.getD i [])
      let ids := List.range n
      let (s, extra) ← match how with
        | .list [.atom "seq", fuel] => do pure (runSeq sh G (← atomNat? fuel) ids s0, [])
        | .list [.atom "sched", .list items, fuel] => do
            pure (runSeq sh G (← atomNat? fuel) ids (runOps sh G (← items.mapM sopOfSexp) s0), [])
        | .list [.atom "upto", .list items, fuel] => do
            let items ← items.mapM sopOfSexp
            let r := replayR G (← atomNat? fuel) items (RState.init (fun i => roots.getD i []))
            let accs := (items.zip r.2.1).map (fun (it, (i, a, _)) =>
              match it with
              | .swap _ _ => Sexp.list [ofNat i, .atom "swap"]
              | .step _ => sexpOfAcc i a)
            pure (r.1.abs, [.list accs, .list (r.2.2.map sexpOfSOp),
                            .list (r.2.1.map (fun (i, _, v) => sexpOfSlot i v)), ofBool r.1.fault])
        | _ => none
      pure (.list ([.atom "ok", .list (ids.map (fun i => sexpOfThread (s.threads i))),
                   .list (s.trace.reverse.map (fun (i, e) => sexpOfEv i e))] ++ extra))
  | _, _ => none

end CattrsModel.Threads
