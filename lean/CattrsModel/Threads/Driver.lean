import CattrsModel.Sexp
import CattrsModel.Threads.Model
/-!
# Line-protocol operations of the Threads model (driver only; property C19)

`WSLOG <shared 0|1> (<event>…)` — replay a global working-set log with `wsRun`.
  `<event>` = `(<tid> get)` | `(<tid> set <sid> (<class>…))` | `(<tid> del)` | `(<tid> in <sid> <class>)` |
              `(<tid> add <sid> <class>)` | `(<tid> rm <sid> <class>)` | `(<tid> empty <sid>)`
  reply `(ok (<answer>…))`, one answer per event: `attrErr` | `(found <sid>)` | `unit` | `keyErr` | `1` | `0`.

`GENRUN <shared 0|1> <graph> (<roots of thread 0> <roots of thread 1> …) <how>` — run the generation machine.
  `<graph>` = `(<node>…)`, `<node>` = `(<usesWs> <catches> <direct> ((<target> <through-lru>)…))`
  `<roots …>` = `(<node index>…)` the top-level `get_*_hook` calls of that thread, in order
  `<how>` = `(seq <fuel>)`  every thread alone to completion, thread 0 first (`runSeq`), or
            `(sched (<tid>…) <fuel>)` the given schedule (`runSched`), then `runSeq` for whatever is left
  reply `(ok (<thread>…) (<event>…))`, `<thread>` = `(<finished 0|1> (<root> ok|rec|key)…)`,
  `<event>` = `(<tid> enter <node> ok|rec)` | `(<tid> exit <node> ok|key)` in global order.
-/
namespace CattrsModel.Threads
open CattrsModel Sexp

def natOr (d : Nat) (s : Sexp) : Nat := (atomNat? s).getD d

def wsEvOfSexp : Sexp → Option WsEv
  | .list [t, .atom "get"] => do pure ⟨← atomNat? t, .get⟩
  | .list [t, .atom "set", sid, .list ms] => do pure ⟨← atomNat? t, .set (← atomNat? sid) (ms.map (natOr 999999))⟩
  | .list [t, .atom "del"] => do pure ⟨← atomNat? t, .del⟩
  | .list [t, .atom "in", sid, c] => do pure ⟨← atomNat? t, .mem (← atomNat? sid) (natOr 999999 c)⟩
  | .list [t, .atom "add", sid, c] => do pure ⟨← atomNat? t, .add (← atomNat? sid) (natOr 999999 c)⟩
  | .list [t, .atom "rm", sid, c] => do pure ⟨← atomNat? t, .rm (← atomNat? sid) (natOr 999999 c)⟩
  | .list [t, .atom "empty", sid] => do pure ⟨← atomNat? t, .empty (← atomNat? sid)⟩
  | _ => none

def sexpOfWsAns : WsAns → Sexp
  | .attrErr => .atom "attrErr"
  | .found sid => .list [.atom "found", ofNat sid]
  | .unit => .atom "unit"
  | .keyErr => .atom "keyErr"
  | .bool b => ofBool b

def nodeOfSexp : Sexp → Option Node
  | .list [t, c, d, .list es] => do
      let es ← es.mapM (fun (e : Sexp) => match e with
        | .list [j, k] => do pure ((← atomNat? j), (← bool? k))
        | _ => none)
      pure ⟨← bool? t, ← bool? c, ← bool? d, es⟩
  | _ => none

def natList? : Sexp → Option (List Nat)
  | .list xs => xs.mapM atomNat?
  | _ => none

def sexpOfOutcome : Outcome → Sexp
  | .ok _ => .atom "ok"
  | .exc .recur => .atom "rec"
  | .exc .key => .atom "key"

def sexpOfEv (i : Nat) : Ev → Sexp
  | .enter n ok => .list [ofNat i, .atom "enter", ofNat n, .atom (if ok then "ok" else "rec")]
  | .exit n ok => .list [ofNat i, .atom "exit", ofNat n, .atom (if ok then "ok" else "key")]

def sexpOfThread (th : Thread) : Sexp :=
  .list (ofBool th.finished :: th.results.map (fun (r, o) => .list [ofNat r, sexpOfOutcome o]))

def threadsHandle (op : String) (args : List Sexp) : Option Sexp :=
  match op, args with
  | "WSLOG", [sh, .list evs] => do
      let sh ← bool? sh
      let evs ← evs.mapM wsEvOfSexp
      let r := wsRun sh evs WsState.init
      pure (.list [.atom "ok", .list (r.2.map sexpOfWsAns)])
  | "GENRUN", [sh, .list nodes, .list roots, how] => do
      let sh ← bool? sh
      let G ← nodes.mapM nodeOfSexp
      let roots ← roots.mapM natList?
      let n := roots.length
      let s0 := GState.init (fun i => roots.getD i [])
      let ids := List.range n
      let s ← match how with
        | .list [.atom "seq", fuel] => do pure (runSeq sh G (← atomNat? fuel) ids s0)
        | .list [.atom "sched", sched, fuel] => do
            pure (runSeq sh G (← atomNat? fuel) ids (runSched sh G (← natList? sched) s0))
        | _ => none
      pure (.list [.atom "ok", .list (ids.map (fun i => sexpOfThread (s.threads i))),
                   .list (s.trace.reverse.map (fun (i, e) => sexpOfEv i e))])
  | _, _ => none

end CattrsModel.Threads
