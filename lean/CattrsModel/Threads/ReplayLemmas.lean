import CattrsModel.Threads.Replay
import CattrsModel.Threads.Lemmas
import CattrsModel.Threads.SlotLemmas
/-!
# Threads: lemmas about replaying an observed interleaving (helper lemmas for Props/C19)
-/
namespace CattrsModel.Threads

/-- only steps that emit an event change the working set -/
theorem tstep_ev_none_ws (G : Graph) (th : Thread) (ws : List Nat) (M : Mem)
    (h : (tstep G th ws M).ev = none) : (tstep G th ws M).ws = ws := by
  have key : ∀ r : StepRes, r = tstep G th ws M → r.ev = none → r.ws = ws := by
    intro r hr
    unfold tstep complete unwind at hr
    (repeat' split at hr) <;> subst hr <;> simp
  exact key _ rfl h

/-- a step that `accOf` calls silent touches neither the memo tables nor the working set and emits no event -/
theorem tstep_silent (G : Graph) (th : Thread) (ws : List Nat) (M : Mem) (h : accOf G th ws M = none) :
    (tstep G th ws M).mem = M ∧ (tstep G th ws M).ws = ws ∧ (tstep G th ws M).ev = none := by
  unfold accOf at h
  split at h
  · cases h
  · cases h
  · cases h
  · cases h
  · cases h
  next hne1 hne2 hne3 hne4 hne5 =>
    have hev : (tstep G th ws M).ev = none := by
      cases hx : (tstep G th ws M).ev with
      | none => rfl
      | some e => rw [hx] at h; cases h
    refine ⟨?_, ?_, hev⟩
    · -- memo tables: only wdirect / clear / ret-cached write them
      unfold tstep
      split
      · split <;> rfl
      · (repeat' split) <;> rfl
      · split <;> rfl
      · (repeat' split) <;> rfl
      · split
        · rfl
        · split
          · rfl
          · unfold complete; (repeat' split) <;> rfl
      next n hk c hc => exact absurd hc (hne3 n hk c)
      next n hk c hc => exact absurd hc (hne4 n hk c)
      next n hk c hc =>
        cases c with
        | true => exact absurd hc (hne5 n hk)
        | false => rfl
      · split
        · rfl
        · unfold unwind; (repeat' split) <;> rfl
    · exact tstep_ev_none_ws G th ws M hev

/-- a silent step does not even READ the memo tables: with other tables it does the same and hands them on -/
theorem tstep_silent_mem (G : Graph) (th : Thread) (ws : List Nat) (M : Mem) (h : accOf G th ws M = none) (M' : Mem) :
    tstep G th ws M' = { tstep G th ws M with mem := M' } := by
  obtain ⟨ctl, stack, calls, results⟩ := th
  cases ctl with
  | idle => cases calls <;> simp [tstep]
  | disp n c =>
    cases c with
    | true => simp [accOf] at h
    | false => simp [tstep]
  | direct n c => simp [accOf] at h
  | enter n c => simp only [tstep]; (repeat' split) <;> rfl
  | run =>
    cases stack with
    | nil => simp [tstep]
    | cons f fs =>
      simp only [tstep]
      split
      · rfl
      · unfold complete; (repeat' split) <;> rfl
  | wdirect n hk c => simp [accOf] at h
  | clear n hk c => simp [accOf] at h
  | ret n hk c =>
    cases c with
    | true => simp [accOf] at h
    | false => simp [tstep]
  | raise e =>
    cases stack with
    | nil => simp [tstep]
    | cons f fs =>
      simp only [tstep]
      split
      · split
        · rfl
        · unfold unwind; (repeat' split) <;> rfl
      · unfold unwind; (repeat' split) <;> rfl

theorem upd_upd_comm {α : Type} (f : Nat → α) (i j : Nat) (a b : α) (h : i ≠ j) :
    upd (upd f i a) j b = upd (upd f j b) i a := by
  funext k
  unfold upd
  by_cases h1 : k = j
  · by_cases h2 : k = i
    · exact absurd (h2.symm.trans h1) h
    · subst h1; simp [h2]
  · by_cases h2 : k = i
    · subst h2; simp [h1]
    · simp [h1, h2]

theorem upd_self {α : Type} (f : Nat → α) (i : Nat) : upd f i (f i) = f := by
  funext k
  unfold upd
  by_cases h : k = i <;> simp [h]

/-- **a silent step of thread `i` commutes with ANY step of another thread `j`** (thread-local working sets): where
the silent steps sit between the observed accesses of a replayed interleaving does not matter -/
theorem gstep_silent_comm (G : Graph) (s : GState) (i j : Nat) (hij : i ≠ j)
    (h : accOf G (s.threads i) (s.ws i) s.mem = none) :
    gstep false G (gstep false G s i) j = gstep false G (gstep false G s j) i := by
  obtain ⟨hm, hw, he⟩ := tstep_silent G _ _ _ h
  have hji : j ≠ i := fun e => hij e.symm
  have hmem := tstep_silent_mem G _ _ _ h
  -- left: i first (nothing shared changes), then j
  have L : gstep false G (gstep false G s i) j =
      { threads := upd (upd s.threads i (tstep G (s.threads i) (s.ws i) s.mem).th) j (tstep G (s.threads j) (s.ws j) s.mem).th
        ws := upd s.ws j (tstep G (s.threads j) (s.ws j) s.mem).ws
        mem := (tstep G (s.threads j) (s.ws j) s.mem).mem
        trace := match (tstep G (s.threads j) (s.ws j) s.mem).ev with
          | some e => (j, e) :: s.trace
          | none => s.trace } := by
    simp only [gstep, owner_local, upd_other _ _ _ _ hji, hm, hw, he, upd_self]
    rfl
  -- right: j first, then i on the new memo tables
  have R : gstep false G (gstep false G s j) i =
      { threads := upd (upd s.threads j (tstep G (s.threads j) (s.ws j) s.mem).th) i (tstep G (s.threads i) (s.ws i) s.mem).th
        ws := upd s.ws j (tstep G (s.threads j) (s.ws j) s.mem).ws
        mem := (tstep G (s.threads j) (s.ws j) s.mem).mem
        trace := match (tstep G (s.threads j) (s.ws j) s.mem).ev with
          | some e => (j, e) :: s.trace
          | none => s.trace } := by
    have hmem' := hmem (tstep G (s.threads j) (s.ws j) s.mem).mem
    have e1 : (tstep G (s.threads i) (s.ws i) (tstep G (s.threads j) (s.ws j) s.mem).mem).th
        = (tstep G (s.threads i) (s.ws i) s.mem).th := by rw [hmem']
    have e2 : (tstep G (s.threads i) (s.ws i) (tstep G (s.threads j) (s.ws j) s.mem).mem).ws = s.ws i := by
      rw [hmem']; exact hw
    have e3 : (tstep G (s.threads i) (s.ws i) (tstep G (s.threads j) (s.ws j) s.mem).mem).mem
        = (tstep G (s.threads j) (s.ws j) s.mem).mem := by rw [hmem']
    have e4 : (tstep G (s.threads i) (s.ws i) (tstep G (s.threads j) (s.ws j) s.mem).mem).ev = none := by
      rw [hmem']; exact he
    have e5 : upd (upd s.ws j (tstep G (s.threads j) (s.ws j) s.mem).ws) i (s.ws i)
        = upd s.ws j (tstep G (s.threads j) (s.ws j) s.mem).ws := by
      funext k
      unfold upd
      by_cases hk : k = i
      · subst hk; simp [hij]
      · simp [hk]
    simp only [gstep, owner_local, upd_other _ _ _ _ hij, upd_same, e1, e2, e3, e4, e5]
    rfl
  rw [L, R, upd_upd_comm _ _ _ _ _ hij]

/-- the steps `runToAcc` makes are a schedule -/
theorem runToAcc_is_sched (shared : Bool) (G : Graph) (i : Nat) : ∀ (fuel : Nat) (s : GState),
    (runToAcc shared G i fuel s).1 = runSched shared G (runToAcc shared G i fuel s).2.2 s := by
  intro fuel
  induction fuel with
  | zero => intro s; rfl
  | succ fuel ih =>
    intro s
    unfold runToAcc
    split
    · rfl
    · split
      · rfl
      · simp only [runSched_cons]; exact ih _

/-- **every replay is a schedule**: the state the driver computes for an observed interleaving is
`runSched` of the expanded schedule it returns -/
theorem replay_is_sched (shared : Bool) (G : Graph) (fuel : Nat) : ∀ (tids : List Nat) (s : GState),
    (replay shared G fuel tids s).1 = runSched shared G (replay shared G fuel tids s).2.2 s := by
  intro tids
  induction tids with
  | nil => intro s; rfl
  | cons i is ih =>
    intro s
    simp only [replay, runSched_append]
    rw [← runToAcc_is_sched]
    exact ih _

theorem runOpsR_append (G : Graph) (a b : List SOp) (s : RState) :
    runOpsR G (a ++ b) s = runOpsR G b (runOpsR G a s) := by
  simp [runOpsR, List.foldl_append]

theorem runToAccR_is_ops (G : Graph) (i : Nat) : ∀ (fuel : Nat) (s : RState),
    (runToAccR G i fuel s).1 = runOpsR G (runToAccR G i fuel s).2.2 s := by
  intro fuel
  induction fuel with
  | zero => intro s; rfl
  | succ fuel ih =>
    intro s
    unfold runToAccR
    split
    · rfl
    · split
      · rfl
      · simp only [runOpsR_cons]; exact ih _

/-- every replay on the refined machine is `runOpsR` of the expanded operation list it returns -/
theorem replayR_is_ops (G : Graph) (fuel : Nat) : ∀ (items : List SOp) (s : RState),
    (replayR G fuel items s).1 = runOpsR G (replayR G fuel items s).2.2 s := by
  intro items
  induction items with
  | nil => intro s; rfl
  | cons it is ih =>
    intro s
    cases it with
    | step i =>
      simp only [replayR, runOpsR_append]
      rw [← runToAccR_is_ops]
      exact ih _
    | swap i P =>
      simp only [replayR, runOpsR_cons, rop]
      exact ih _

end CattrsModel.Threads
