import CattrsModel.Heap.FreshFull
/-!
# Non-vacuity of the full freshness theorem and of the F34-free region
-/
namespace CattrsModel.Heap
open CattrsModel

def ex_w0 : World := { classes := [], enums := [] }
/-- caller's store: `0 ↦ [1]`, `1 ↦ [<0>, 'a']` -/
def ex_stNest : St := { cells := [.coll .list [.leaf (.int 1)], .coll .list [.ref 0, .leaf (.str "a")]] }

/-- `structure(arg, list[Any])` is inside the region (no TypedDict position at all) -/
theorem ex_nest_free :
    f34free ex_w0 { cfg := default } (fun _ => False) ex_stNest.cells 3 (.st (.coll .list .any)) (.ref 1) := by
  simp [f34free, plan, planSt, viewOf, itemsOf, ex_stNest, Prog.NoExtras, Prog.calls]

/-- non-vacuity of `fresh_full_documented`: all hypotheses hold, the caller's inner list `<0>` is reachable from
the result `<2>`, and the theorem yields its provenance: logged by `ident` at a documented position -/
example : ∃ p, p < ex_stNest.cells.length ∧ Reach ex_stNest.cells (.ref p) 0 ∧
    p ∈ (run ex_w0 { cfg := default } 3 (.st (.coll .list .any)) (.ref 1) ex_stNest).2.ilog ∧
    ∃ n' call', DocPos ex_w0 { cfg := default } n' call' (.ref p) (viewOf ex_stNest (.ref p)) :=
  fresh_full_documented ex_w0 { cfg := default } 3 (.st (.coll .list .any)) (.ref 1) ex_stNest (by decide) (by decide)
    rfl rfl ex_nest_free (.ref 2) (by decide) 0
    (Reach.step (c := .coll .list [.ref 0, .leaf (.str "a")]) (v := .ref 0) (by decide) (by decide) (Reach.here 0))
    (by decide)

example : (run ex_w0 { cfg := default } 3 (.st (.coll .list .any)) (.ref 1) ex_stNest).2.ilog = [0] := by decide

/-- one TypedDict class `TD` with a key `x: list[int]` -/
def ex_wTD : World :=
  { classes := [Cls.mk .typeddict false [Field.mk "x" "x" (some (.coll .list .any)) Dflt.none true true]], enums := [] }
def ex_cfg : HCfg := { cfg := { gen := true, tupleStrat := false, detailed := false, forbid := false } }
/-- caller's store: `0 ↦ [1]`, `1 ↦ {'x': <0>}` -/
def ex_stTD : St := { cells := [.coll .list [.leaf (.int 1)], .dict [(.leaf (.str "x"), .ref 0)]] }

/-- a TypedDict payload with declared keys only is inside the region … -/
example : f34free ex_wTD ex_cfg (fun _ => False) ex_stTD.cells 3 (.st (.td 0)) (.ref 1) := by
  simp [f34free, plan, planSt, viewOf, itemsOf, ex_stTD, ex_wTD, ex_cfg, Prog.NoExtras, Prog.calls, tdStPatches, World.fields,
    HCfg.ovrOf, lookupS, keyIs, fieldCallSt, NoExtras, KeysDistinct, covered, Patch.covers, isLeafV]
/-- … and nothing is handed out by reference: both logs stay empty -/
example : (run ex_wTD ex_cfg 3 (.st (.td 0)) (.ref 1) ex_stTD).1 = some (.ref 2) ∧
    (run ex_wTD ex_cfg 3 (.st (.td 0)) (.ref 1) ex_stTD).2.log = [] ∧
    (run ex_wTD ex_cfg 3 (.st (.td 0)) (.ref 1) ex_stTD).2.ilog = [] := by decide

/-- the payload of finding F34 (an undeclared key `zzz` holding a container) is outside the region -/
def ex_stExtras : St :=
  { cells := [.coll .list [.leaf (.int 1)], .dict [(.leaf (.str "x"), .ref 0), (.leaf (.str "zzz"), .ref 0)]] }
example : ¬ f34free ex_wTD ex_cfg (fun _ => False) ex_stExtras.cells 3 (.st (.td 0)) (.ref 1) := by
  simp [f34free, plan, planSt, viewOf, itemsOf, ex_stExtras, ex_wTD, ex_cfg, Prog.NoExtras, Prog.calls, tdStPatches, World.fields,
    HCfg.ovrOf, lookupS, keyIs, fieldCallSt, NoExtras, KeysDistinct, covered, Patch.covers, isLeafV]
end CattrsModel.Heap
