import CattrsModel.Heap.RefBase
/-!
# Refinement, part 2: the pure meaning of a sub-hook call, and `runTasks` against it
-/
namespace CattrsModel.Heap
open CattrsModel

/-- a *proper* slot value: a `.leaf` holds an immutable leaf object, never a container (containers live in
cells).  `inject` only builds proper values; `denote` would read an improper leaf as the container it holds while
the programs treat it as a leaf. -/
def Proper (v : HVal) : Prop := ∀ o, v = .leaf o → isLeafObj o = true

theorem Proper.ref (l : Loc) : Proper (.ref l) := fun _ h => by cases h
theorem Proper.leaf {o : Obj} (h : isLeafObj o = true) : Proper (.leaf o) := fun _ e => by cases e; exact h

/-- the store facts every hook call starts from (and re-establishes) -/
structure Good (b : Nat) (st : St) : Prop where
  inv : Inv b st
  oc : OldClosed b st
  le : b ≤ st.cells.length
  proper : ∀ (l : Nat) c, l < b → st.cells[l]? = some c → ∀ v, v ∈ c.children → Proper v

theorem Good.ev {b N : Nat} {st st' : St} (g : Good b st) (e : Ev b N st st') : Good b st' :=
  ⟨e.inv g.inv, g.oc.ev e, Nat.le_trans g.le e.len, fun l c hl hc v hv => by
    rw [e.frame l (Nat.lt_of_lt_of_le hl e.bN)] at hc
    exact g.proper l c hl hc v hv⟩

/-- executable: every leaf slot of the store holds a leaf object -/
def properStore (st : St) : Bool :=
  st.cells.all (fun c => c.children.all (fun v => match v with | .leaf o => isLeafObj o | .ref _ => true))

theorem Good.of_wf {st : St} (h : wfStore st = true) (hp : properStore st = true) : Good st.cells.length st :=
  ⟨wfStore_inv h, wfStore_closed h, Nat.le_refl _, fun l c _ hc v hv o ho => by
    subst ho
    simp only [properStore, List.all_eq_true] at hp
    exact hp c (List.mem_of_getElem? hc) _ hv⟩

/-- one call of a hook that satisfies the invariant: how the store evolves -/
theorem hook_ev {b : Nat} {rec : Rec} (hrec : HookOK b rec) {st : St} (g : Good b st) (c : Call) (x : HVal)
    (hx : ArgOld b x) : Ev b st.cells.length st (rec c x st).2 :=
  (hrec st.cells.length c x hx st g.oc g.le (Nat.le_refl _) g.inv).1

/-- the pure data-path meaning of a sub-hook call (`cfg` is the core configuration) -/
def callPure (w : World) (cfg : Cfg) : Call → Obj → Option Obj
  | .un t, o => some (un w cfg t o)
  | .unAny, o => some (unAny w cfg o)
  | .st t, o => stF w cfg t o
  | .pass, o => some o
  | .fresh d, _ => some d

/-- `rec` computes `callPure`: on an argument that reads as `o` within `k ≤ K` hops, for calls inside `okc`,
a returned value reads as the pure result (within `k + W` hops); a raised exception means the pure model
fails too, for the calls in `tot` -/
def RecRef (w : World) (cfg : Cfg) (b W K : Nat) (okc : Call → Obj → Prop) (tot : Call → Prop) (rec : Rec) : Prop :=
  ∀ (c : Call) (x : HVal) (st : St) (k : Nat) (o : Obj), Good b st → ArgOld b x → Proper x →
    denote st.cells k x = some o → k ≤ K → okc c o →
    (∀ r, (rec c x st).1 = some r →
        ∃ y, callPure w cfg c o = some y ∧ denote (rec c x st).2.cells (k + W) r = some y) ∧
    ((rec c x st).1 = none → tot c → (rec c x st).2.unmod = false → callPure w cfg c o = none)

theorem RecRef.mono {w : World} {cfg : Cfg} {b W K K' : Nat} {okc : Call → Obj → Prop} {tot : Call → Prop} {rec : Rec}
    (h : RecRef w cfg b W K okc tot rec) (hk : K' ≤ K) : RecRef w cfg b W K' okc tot rec :=
  fun c x st k o g hx hp hd hkk hok => h c x st k o g hx hp hd (Nat.le_trans hkk hk) hok

/-- the pure meaning of a task list (`os`: what the arguments read as) -/
def pureTasks (w : World) (cfg : Cfg) : List (Call × HVal) → List Obj → Option (List Obj)
  | (c, _) :: ts, o :: os =>
    match callPure w cfg c o with
    | none => none
    | some y => (pureTasks w cfg ts os).map (y :: ·)
  | _, _ => some []

/-- the arguments of the tasks read as `os` (within `K` hops) and every call is inside `okc` -/
def TasksDen (K : Nat) (okc : Call → Obj → Prop) (cs : List Cell) : List (Call × HVal) → List Obj → Prop
  | [], [] => True
  | (c, x) :: ts, o :: os => denote cs K x = some o ∧ okc c o ∧ TasksDen K okc cs ts os
  | _, _ => False

theorem TasksDen.pre {K okc} {cs cs' : List Cell} (hp : Pre cs cs') :
    ∀ {ts : List (Call × HVal)} {os : List Obj}, TasksDen K okc cs ts os → TasksDen K okc cs' ts os
  | [], [], _ => trivial
  | [], _ :: _, h => h.elim
  | _ :: _, [], h => by cases ‹Call × HVal›; exact h.elim
  | (c, x) :: ts, o :: os, h => ⟨denote_pre hp h.1, h.2.1, TasksDen.pre hp h.2.2⟩

theorem denoteL_pre {cs cs' : List Cell} (hp : Pre cs cs') {k : Nat} {xs : List HVal} {os : List Obj}
    (h : denoteL cs k xs = some os) : denoteL cs' k xs = some os :=
  denoteL_transfer (fun _ _ h => denote_pre hp h) xs os h

/-- **`runTasks` against the pure task list.**  Both template styles (stop at the first exception / run them all
and raise at the end) return exactly when every pure call succeeds. -/
theorem runTasks_ref {w : World} {cfg : Cfg} {b W K : Nat} {okc : Call → Obj → Prop} {tot : Call → Prop}
    {rec : Rec} (hrec : HookOK b rec) (href : RecRef w cfg b W K okc tot rec) (det : Bool) :
    ∀ (tasks : List (Call × HVal)) (os : List Obj) (st : St), Good b st →
      (∀ t, t ∈ tasks → ArgOld b t.2 ∧ Proper t.2) → TasksDen K okc st.cells tasks os →
      Ev b st.cells.length st (runTasks rec det tasks st).2 ∧
      (∀ ys, (runTasks rec det tasks st).1 = some ys →
        ∃ ps, pureTasks w cfg tasks os = some ps ∧
          denoteL (runTasks rec det tasks st).2.cells (K + W) ys = some ps) ∧
      ((runTasks rec det tasks st).1 = none → (∀ t, t ∈ tasks → tot t.1) →
        (runTasks rec det tasks st).2.unmod = false → pureTasks w cfg tasks os = none)
  | [], os, st, g, _, _ => by
    refine ⟨by unfold runTasks; exact Ev.refl g.le st, fun ys hys => ?_, fun h => ?_⟩
    · unfold runTasks at hys ⊢
      simp only [Heap.ret, Option.some.injEq] at hys
      subst hys
      exact ⟨[], by cases os <;> rfl, denoteL_nil _ _⟩
    · unfold runTasks at h; simp [Heap.ret] at h
  | (c, x) :: ts, [], st, _, _, hd => hd.elim
  | (c, x) :: ts, o :: os, st, g, hargs, hd => by
    have hx : ArgOld b x := (hargs (c, x) (List.mem_cons_self ..)).1
    have hxp : Proper x := (hargs (c, x) (List.mem_cons_self ..)).2
    have hargs' : ∀ t, t ∈ ts → ArgOld b t.2 ∧ Proper t.2 := fun t ht => hargs t (List.mem_cons_of_mem _ ht)
    have e1 := hook_ev hrec g c x hx
    have r1 := href c x st K o g hx hxp hd.1 (Nat.le_refl _) hd.2.1
    have g1 := g.ev e1
    have hd1 : TasksDen K okc (rec c x st).2.cells ts os := hd.2.2.pre (Pre.of_ev e1)
    have ih := runTasks_ref hrec href det ts os (rec c x st).2 g1 hargs' hd1
    have e2 : Ev b st.cells.length st (runTasks rec det ts (rec c x st).2).2 :=
      e1.trans (ih.1.weaken e1.len g.le)
    unfold runTasks
    simp only [Heap.bind, Heap.attempt]
    cases hr : rec c x st with
    | mk r st1 =>
      rw [hr] at r1 ih e2 e1
      simp only at r1 ih e2 e1 ⊢
      cases r with
      | none =>
        simp only
        have hnone : tot c → st1.unmod = false → callPure w cfg c o = none := r1.2 rfl
        cases det with
        | true =>
          simp only [if_true, Heap.bind, Heap.attempt]
          cases hrt : runTasks rec true ts st1 with
          | mk r2 st2 =>
            rw [hrt] at e2 ih
            simp only [Heap.raise]
            refine ⟨e2, fun ys hys => by simp at hys, fun _ htot hu => ?_⟩
            have hu1 : st1.unmod = false := by
              cases h : st1.unmod with
              | false => rfl
              | true => have := ih.1.unmodKeep h; simp only at hu this; rw [hu] at this; cases this
            simp only [pureTasks, hnone (htot (c, x) (List.mem_cons_self ..)) hu1]
        | false =>
          simp only [Bool.false_eq_true, if_false, Heap.raise]
          refine ⟨e1, fun ys hys => by simp at hys, fun _ htot hu => ?_⟩
          simp only [pureTasks, hnone (htot (c, x) (List.mem_cons_self ..)) hu]
      | some y =>
        simp only [Heap.bind]
        obtain ⟨py, hpy, hdy⟩ := r1.1 y rfl
        cases hrt : runTasks rec det ts st1 with
        | mk r2 st2 =>
          rw [hrt] at ih e2
          simp only at ih e2 ⊢
          cases r2 with
          | none =>
            simp only
            refine ⟨e2, fun ys hys => by simp at hys, fun _ htot hu => ?_⟩
            simp only [pureTasks, hpy, ih.2.2 rfl (fun t ht => htot t (List.mem_cons_of_mem _ ht)) hu, Option.map_none]
          | some ys' =>
            simp only [Heap.ret]
            refine ⟨e2, fun ys hys => ?_, fun h => by simp at h⟩
            simp only [Option.some.injEq] at hys
            subst hys
            obtain ⟨ps, hps, hdl⟩ := ih.2.1 ys' rfl
            refine ⟨py :: ps, by simp only [pureTasks, hpy, hps, Option.map_some], ?_⟩
            refine denoteL_cons_some.2 ⟨py, ps, rfl, ?_, hdl⟩
            exact denote_pre (Pre.of_ev ih.1) hdy

end CattrsModel.Heap
