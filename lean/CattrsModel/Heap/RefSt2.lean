import CattrsModel.Heap.RefSt1
/-!
# Refinement, structuring (2): the class hooks' task lists (dict and tuple strategy)
-/
namespace CattrsModel.Heap
open CattrsModel

/-- what is assumed of the fields a class hook walks over: defaults within the depth bound, literal members leaves -/
def FieldsOK (w : World) (fds : List Field) : Prop :=
  ∀ f, f ∈ fds → (∀ d, f.dflt.value? = some d → hd d ≤ dD w) ∧ (∀ t, f.ty = some t → litLeaf t = true)

theorem fieldsOK_world {w : World} (hw : WLit w) (c : Nat) : FieldsOK w (w.fields c) :=
  fun f hf => ⟨fun _ hd' => field_dflt_le hf hd', fun t ht => hw c f hf t ht⟩

theorem FieldsOK.tail {w : World} {f : Field} {fds : List Field} (h : FieldsOK w (f :: fds)) : FieldsOK w fds :=
  fun g hg => h g (List.mem_cons_of_mem _ hg)

/-- the pure fields result, as the heap program computes it -/
def fieldsPure (w : World) (cfg : Cfg) (doomed : Bool) (names : List String) (ts : List (Call × HVal)) (os : List Obj) :
    Option (List (String × Obj)) :=
  if doomed then none else (pureTasks w cfg ts os).map (fun ys => names.zip ys)

/-- one more field in front: its task, then the rest -/
theorem fieldsPure_cons (w : World) (cfg : Cfg) (doomed : Bool) (n : String) (names : List String)
    (c : Call) (x : HVal) (o : Obj) (ts : List (Call × HVal)) (os : List Obj) :
    fieldsPure w cfg doomed (n :: names) ((c, x) :: ts) (o :: os) =
      match callPure w cfg c o with
      | none => none
      | some y => (fieldsPure w cfg doomed names ts os).map ((n, y) :: ·) := by
  unfold fieldsPure
  cases doomed with
  | true => cases callPure w cfg c o <;> simp
  | false =>
    simp only [Bool.false_eq_true, if_false, pureTasks]
    cases callPure w cfg c o with
    | none => rfl
    | some y => cases pureTasks w cfg ts os <;> simp

theorem fieldsPure_doomed (w : World) (cfg : Cfg) (names : List String) (ts : List (Call × HVal)) (os : List Obj) :
    fieldsPure w cfg true names ts os = none := by simp [fieldsPure]

theorem callPure_field (w : World) (cfg : Cfg) (f : Field) (o : Obj) :
    callPure w cfg (fieldCallSt f) o = (match f.ty with | none => some o | some t => stF w cfg t o) := by
  unfold fieldCallSt
  cases f.ty <;> rfl

theorem okcSt_field {w : World} {f : Field} (h : ∀ t, f.ty = some t → litLeaf t = true) (o : Obj) :
    okcSt w (fieldCallSt f) o := by
  unfold fieldCallSt
  cases hf : f.ty with
  | none => trivial
  | some t => exact h t hf

/-- the value of a task argument: a slot of the payload dict, or the constant `None` of a default task -/
def ArgSrc (kids : List HVal) (x : HVal) : Prop := x ∈ kids ∨ x = .leaf .none

/-! ### one-step equations, stated without dependent matches -/

def dfltStep (f : Field) (rest : Option (List (String × Obj))) : Option (List (String × Obj)) :=
  match f.dflt.value? with
  | none => none
  | some d => rest.map ((f.name, d) :: ·)

def convStep (w : World) (cfg : Cfg) (f : Field) (x : Obj) (rest : Option (List (String × Obj))) :
    Option (List (String × Obj)) :=
  match callPure w cfg (fieldCallSt f) x with
  | none => none
  | some y => rest.map ((f.name, y) :: ·)

def viaDflt (f : Field) (r : List (Call × HVal) × Bool) : List (Call × HVal) × Bool :=
  match dfltTask f with
  | some t => (t :: r.1, r.2)
  | none => (r.1, true)

theorem stFFields_noinit (w : World) (cfg : Cfg) (f : Field) (fds : List Field) (kvs : List (Obj × Obj))
    (h : f.init = false) : stFFields w cfg (f :: fds) kvs = dfltStep f (stFFields w cfg fds kvs) := by
  rw [stFFields]; simp only [h, Bool.not_false, if_true, dfltStep]
  cases f.dflt.value? <;> rfl

theorem stFFields_miss (w : World) (cfg : Cfg) (f : Field) (fds : List Field) (kvs : List (Obj × Obj))
    (h : f.init = true) (hl : dlookup kvs (.str f.name) = none) :
    stFFields w cfg (f :: fds) kvs = dfltStep f (stFFields w cfg fds kvs) := by
  rw [stFFields]; simp only [h, Bool.not_true, Bool.false_eq_true, if_false, dfltStep, Field.key]
  split
  · cases f.dflt.value? <;> rfl
  · rename_i x hx; rw [hl] at hx; cases hx

theorem stFFields_hit (w : World) (cfg : Cfg) (f : Field) (fds : List Field) (kvs : List (Obj × Obj))
    (h : f.init = true) {x : Obj} (hl : dlookup kvs (.str f.name) = some x) :
    stFFields w cfg (f :: fds) kvs = convStep w cfg f x (stFFields w cfg fds kvs) := by
  rw [stFFields]; simp only [h, Bool.not_true, Bool.false_eq_true, if_false, convStep, Field.key, callPure_field]
  split
  · rename_i hx; rw [hl] at hx; cases hx
  · rename_i x' hx
    rw [hl] at hx; cases hx
    cases f.ty with
    | none => rfl
    | some t => simp only []; cases stF w cfg t x <;> rfl

theorem clsStTasks_noinit (f : Field) (fds : List Field) (kvs : List (HVal × HVal)) (h : f.init = false) :
    clsStTasks (f :: fds) kvs = viaDflt f (clsStTasks fds kvs) := by
  simp only [clsStTasks, h, Bool.not_false, if_true, viaDflt]
  cases dfltTask f <;> rfl

theorem clsStTasks_miss (f : Field) (fds : List Field) (kvs : List (HVal × HVal)) (h : f.init = true)
    (hl : lookupS kvs f.name = none) : clsStTasks (f :: fds) kvs = viaDflt f (clsStTasks fds kvs) := by
  simp only [clsStTasks, h, Bool.not_true, Bool.false_eq_true, if_false, hl, viaDflt]
  cases dfltTask f <;> rfl

theorem clsStTasks_hit (f : Field) (fds : List Field) (kvs : List (HVal × HVal)) (h : f.init = true)
    {x : HVal} (hl : lookupS kvs f.name = some x) :
    clsStTasks (f :: fds) kvs = ((fieldCallSt f, x) :: (clsStTasks fds kvs).1, (clsStTasks fds kvs).2) := by
  simp only [clsStTasks, h, Bool.not_true, Bool.false_eq_true, if_false, hl]

/-- the step through a default (shared by `init=False` fields and missing keys, both strategies) -/
theorem dflt_step {w : World} {cfg : Cfg} {cs : List Cell} {K : Nat} {kids : List HVal} {f : Field}
    (hf : ∀ d, f.dflt.value? = some d → hd d ≤ dD w) {names : List String}
    {r : List (Call × HVal) × Bool} {os : List Obj} {rest : Option (List (String × Obj))}
    (hden : TasksDen K (okcSt w) cs r.1 os) (heq : rest = fieldsPure w cfg r.2 names r.1 os)
    (hsrc : ∀ t, t ∈ r.1 → ArgSrc kids t.2) :
    ∃ os', TasksDen K (okcSt w) cs (viaDflt f r).1 os' ∧
      dfltStep f rest = fieldsPure w cfg (viaDflt f r).2 (f.name :: names) (viaDflt f r).1 os' ∧
      (∀ t, t ∈ (viaDflt f r).1 → ArgSrc kids t.2) := by
  unfold viaDflt dfltStep dfltTask
  cases hd' : f.dflt.value? with
  | none =>
    simp only [Option.map_none]
    exact ⟨os, hden, (fieldsPure_doomed w cfg _ _ _).symm, hsrc⟩
  | some d =>
    simp only [Option.map_some]
    refine ⟨.none :: os, ⟨denote_leaf _ _ _, hf d hd', hden⟩, ?_, ?_⟩
    · rw [fieldsPure_cons, heq]; rfl
    · intro t ht
      simp only [List.mem_cons] at ht
      rcases ht with rfl | ht
      · exact Or.inr rfl
      · exact hsrc t ht

/-- the step through a converted slot value -/
theorem conv_step {w : World} {cfg : Cfg} {cs : List Cell} {K : Nat} {kids : List HVal} {f : Field}
    (hf : ∀ t, f.ty = some t → litLeaf t = true) {names : List String}
    {ts : List (Call × HVal)} {doomed : Bool} {os : List Obj} {rest : Option (List (String × Obj))}
    (hden : TasksDen K (okcSt w) cs ts os) (heq : rest = fieldsPure w cfg doomed names ts os)
    (hsrc : ∀ t, t ∈ ts → ArgSrc kids t.2) {x : HVal} {o : Obj} (hx : denote cs K x = some o) (hxk : x ∈ kids) :
    TasksDen K (okcSt w) cs ((fieldCallSt f, x) :: ts) (o :: os) ∧
      convStep w cfg f o rest = fieldsPure w cfg doomed (f.name :: names) ((fieldCallSt f, x) :: ts) (o :: os) ∧
      (∀ t, t ∈ (fieldCallSt f, x) :: ts → ArgSrc kids t.2) := by
  refine ⟨⟨hx, okcSt_field hf o, hden⟩, by rw [fieldsPure_cons, heq]; rfl, ?_⟩
  intro t ht
  simp only [List.mem_cons] at ht
  rcases ht with rfl | ht
  · exact Or.inl hxk
  · exact hsrc t ht

/-- **class hook, dict strategy**: tasks and "doomed" against `stFFields` -/
theorem clsStTasks_ref (w : World) (cfg : Cfg) {cs : List Cell} {K : Nat} (kvs : List (HVal × HVal))
    (okvs : List (Obj × Obj)) (hkv : denoteKV cs K kvs = some okvs) :
    ∀ (fds : List Field), FieldsOK w fds →
      ∃ os, TasksDen K (okcSt w) cs (clsStTasks fds kvs).1 os ∧
        stFFields w cfg fds okvs = fieldsPure w cfg (clsStTasks fds kvs).2 (fds.map (·.name)) (clsStTasks fds kvs).1 os ∧
        (∀ t, t ∈ (clsStTasks fds kvs).1 → ArgSrc (Cell.dict kvs).children t.2)
  | [], _ => ⟨[], trivial, by rw [stFFields]; rfl, fun t h => by simp [clsStTasks] at h⟩
  | f :: fds, hok => by
    obtain ⟨os, hden, heq, hsrc⟩ := clsStTasks_ref w cfg kvs okvs hkv fds hok.tail
    have hf := hok f (List.mem_cons_self ..)
    have hlk := lookupS_den f.name kvs okvs hkv
    simp only [List.map_cons]
    cases hinit : f.init with
    | false =>
      rw [stFFields_noinit w cfg f fds okvs hinit, clsStTasks_noinit f fds kvs hinit]
      exact dflt_step hf.1 hden heq hsrc
    | true =>
      cases hl : lookupS kvs f.name with
      | none =>
        rw [stFFields_miss w cfg f fds okvs hinit (hlk.2 hl), clsStTasks_miss f fds kvs hinit hl]
        exact dflt_step hf.1 hden heq hsrc
      | some xh =>
        obtain ⟨o, hdl, hdo⟩ := hlk.1 xh hl
        rw [stFFields_hit w cfg f fds okvs hinit hdl, clsStTasks_hit f fds kvs hinit hl]
        exact ⟨o :: os, conv_step hf.2 hden heq hsrc hdo (lookupS_mem kvs f.name xh hl)⟩

end CattrsModel.Heap
