import CattrsModel.Heap.RefAsm
/-!
# Refinement, part 4: `inject` loads an object that reads back as itself; the depth of default values
-/
namespace CattrsModel.Heap
open CattrsModel

mutual
/-- number of reference hops needed to read the object back once it is loaded into a store -/
def hd : Obj → Nat
  | .coll _ xs => hdL xs + 1
  | .dict kvs => hdKV kvs + 1
  | .inst _ fs => hdF fs + 1
  | .opaque _ => 1
  | _ => 0
termination_by structural x => x
def hdL : List Obj → Nat
  | [] => 0
  | x :: xs => max (hd x) (hdL xs)
termination_by structural x => x
def hdKV : List (Obj × Obj) → Nat
  | [] => 0
  | (k, v) :: rest => max (max (hd k) (hd v)) (hdKV rest)
termination_by structural x => x
def hdF : List (String × Obj) → Nat
  | [] => 0
  | (_, v) :: rest => max (hd v) (hdF rest)
termination_by structural x => x
end

theorem getElem?_append_self (cs : List Cell) (c : Cell) : (cs ++ [c])[cs.length]? = some c := by simp

theorem cellDen_pre {cs cs' : List Cell} (hp : Pre cs cs') {k : Nat} {c : Cell} {y : Obj}
    (h : cellDen cs k c = some y) : cellDen cs' k c = some y := by
  cases c with
  | coll ck xs =>
    simp only [cellDen, Option.map_eq_some_iff] at h ⊢
    obtain ⟨os, hos, rfl⟩ := h
    exact ⟨os, denoteL_pre hp hos, rfl⟩
  | dict kvs =>
    simp only [cellDen, Option.map_eq_some_iff] at h ⊢
    obtain ⟨os, hos, rfl⟩ := h
    exact ⟨os, denoteKV_transfer (fun _ _ h => denote_pre hp h) kvs os hos, rfl⟩
  | inst c fs =>
    simp only [cellDen, Option.map_eq_some_iff] at h ⊢
    obtain ⟨os, hos, rfl⟩ := h
    exact ⟨os, denoteF_transfer (fun _ _ h => denote_pre hp h) fs os hos, rfl⟩
  | «opaque» n => exact h

/-- allocating a cell that reads as `y`: the new location reads as `y` with one more hop -/
theorem alloc_den (c : Cell) (st : St) (k : Nat) (y : Obj) (h : cellDen st.cells k c = some y) :
    (alloc c st).1 = some st.cells.length ∧ Pre st.cells (alloc c st).2.cells ∧
    (alloc c st).2.cells[st.cells.length]? = some c ∧
    denote (alloc c st).2.cells (k + 1) (.ref st.cells.length) = some y := by
  have hp : Pre st.cells (st.cells ++ [c]) := Pre.append _ _
  refine ⟨rfl, hp, getElem?_append_self _ _, ?_⟩
  show denote (st.cells ++ [c]) (k + 1) (.ref st.cells.length) = some y
  rw [denote_ref_cell (getElem?_append_self _ _)]
  exact cellDen_pre hp h

mutual
theorem inject_den : (o : Obj) → ∀ st : St, ∃ v st', inject o st = (some v, st') ∧ Pre st.cells st'.cells ∧
    ∀ k, hd o ≤ k → denote st'.cells k v = some o
  | .none, st => ⟨_, st, by unfold inject; rfl, Pre.refl _, fun k _ => denote_leaf _ _ _⟩
  | .bool _, st => ⟨_, st, by unfold inject; rfl, Pre.refl _, fun k _ => denote_leaf _ _ _⟩
  | .int _, st => ⟨_, st, by unfold inject; rfl, Pre.refl _, fun k _ => denote_leaf _ _ _⟩
  | .flt _, st => ⟨_, st, by unfold inject; rfl, Pre.refl _, fun k _ => denote_leaf _ _ _⟩
  | .str _, st => ⟨_, st, by unfold inject; rfl, Pre.refl _, fun k _ => denote_leaf _ _ _⟩
  | .bytes _, st => ⟨_, st, by unfold inject; rfl, Pre.refl _, fun k _ => denote_leaf _ _ _⟩
  | .enumM _ _, st => ⟨_, st, by unfold inject; rfl, Pre.refl _, fun k _ => denote_leaf _ _ _⟩
  | .mdict _ _, st => ⟨_, st, by unfold inject; rfl, Pre.refl _, fun k _ => denote_leaf _ _ _⟩
  | .coll ck xs, st => by
    obtain ⟨ys, st1, h1, hp1, hd1⟩ := injectL_den xs st
    refine ⟨.ref st1.cells.length, (alloc (.coll ck ys) st1).2, ?_, hp1.trans (Pre.append _ _), fun k hk => ?_⟩
    · unfold inject; simp only [Heap.bind, h1, Heap.ret]; rfl
    · cases k with
      | zero => simp [hd] at hk
      | succ k =>
        have : cellDen st1.cells k (.coll ck ys) = some (.coll ck xs) := by
          simp only [cellDen, hd1 k (by simp only [hd] at hk; omega), Option.map_some]
        exact (alloc_den _ st1 k _ this).2.2.2
  | .dict kvs, st => by
    obtain ⟨ys, st1, h1, hp1, hd1⟩ := injectKV_den kvs st
    refine ⟨.ref st1.cells.length, (alloc (.dict ys) st1).2, ?_, hp1.trans (Pre.append _ _), fun k hk => ?_⟩
    · unfold inject; simp only [Heap.bind, h1, Heap.ret]; rfl
    · cases k with
      | zero => simp [hd] at hk
      | succ k =>
        have : cellDen st1.cells k (.dict ys) = some (.dict kvs) := by
          simp only [cellDen, hd1 k (by simp only [hd] at hk; omega), Option.map_some]
        exact (alloc_den _ st1 k _ this).2.2.2
  | .inst c fs, st => by
    obtain ⟨ys, st1, h1, hp1, hd1⟩ := injectF_den fs st
    refine ⟨.ref st1.cells.length, (alloc (.inst c ys) st1).2, ?_, hp1.trans (Pre.append _ _), fun k hk => ?_⟩
    · unfold inject; simp only [Heap.bind, h1, Heap.ret]; rfl
    · cases k with
      | zero => simp [hd] at hk
      | succ k =>
        have : cellDen st1.cells k (.inst c ys) = some (.inst c fs) := by
          simp only [cellDen, hd1 k (by simp only [hd] at hk; omega), Option.map_some]
        exact (alloc_den _ st1 k _ this).2.2.2
  | .opaque n, st => by
    refine ⟨.ref st.cells.length, (alloc (.opaque n) st).2, ?_, Pre.append _ _, fun k hk => ?_⟩
    · unfold inject; simp only [Heap.bind, Heap.ret]; rfl
    · cases k with
      | zero => simp [hd] at hk
      | succ k => exact (alloc_den (.opaque n) st k _ rfl).2.2.2
theorem injectL_den : (xs : List Obj) → ∀ st : St, ∃ ys st', injectL xs st = (some ys, st') ∧
    Pre st.cells st'.cells ∧ ∀ k, hdL xs ≤ k → denoteL st'.cells k ys = some xs
  | [], st => ⟨[], st, by unfold injectL; rfl, Pre.refl _, fun k _ => denoteL_nil _ _⟩
  | x :: xs, st => by
    obtain ⟨a, st1, h1, hp1, hd1⟩ := inject_den x st
    obtain ⟨r, st2, h2, hp2, hd2⟩ := injectL_den xs st1
    refine ⟨a :: r, st2, ?_, hp1.trans hp2, fun k hk => ?_⟩
    · unfold injectL; simp only [Heap.bind, h1, h2, Heap.ret]
    · simp only [hdL] at hk
      exact denoteL_cons_some.2 ⟨x, xs, rfl, denote_pre hp2 (hd1 k (by omega)), hd2 k (by omega)⟩
theorem injectKV_den : (kvs : List (Obj × Obj)) → ∀ st : St, ∃ ys st', injectKV kvs st = (some ys, st') ∧
    Pre st.cells st'.cells ∧ ∀ k, hdKV kvs ≤ k → denoteKV st'.cells k ys = some kvs
  | [], st => ⟨[], st, by unfold injectKV; rfl, Pre.refl _, fun k _ => denoteKV_nil _ _⟩
  | (kx, vx) :: rest, st => by
    obtain ⟨a, st1, h1, hp1, hd1⟩ := inject_den kx st
    obtain ⟨b, st2, h2, hp2, hd2⟩ := inject_den vx st1
    obtain ⟨r, st3, h3, hp3, hd3⟩ := injectKV_den rest st2
    refine ⟨(a, b) :: r, st3, ?_, (hp1.trans hp2).trans hp3, fun k hk => ?_⟩
    · unfold injectKV; simp only [Heap.bind, h1, h2, h3, Heap.ret]
    · simp only [hdKV] at hk
      exact denoteKV_cons_some.2 ⟨kx, vx, rest, rfl, denote_pre (hp2.trans hp3) (hd1 k (by omega)),
        denote_pre hp3 (hd2 k (by omega)), hd3 k (by omega)⟩
theorem injectF_den : (fs : List (String × Obj)) → ∀ st : St, ∃ ys st', injectF fs st = (some ys, st') ∧
    Pre st.cells st'.cells ∧ ∀ k, hdF fs ≤ k → denoteF st'.cells k ys = some fs
  | [], st => ⟨[], st, by unfold injectF; rfl, Pre.refl _, fun k _ => denoteF_nil _ _⟩
  | (s, vx) :: rest, st => by
    obtain ⟨b, st1, h1, hp1, hd1⟩ := inject_den vx st
    obtain ⟨r, st2, h2, hp2, hd2⟩ := injectF_den rest st1
    refine ⟨(s, b) :: r, st2, ?_, hp1.trans hp2, fun k hk => ?_⟩
    · unfold injectF; simp only [Heap.bind, h1, h2, Heap.ret]
    · simp only [hdF] at hk
      exact denoteF_cons_some.2 ⟨vx, rest, rfl, denote_pre hp2 (hd1 k (by omega)), hd2 k (by omega)⟩
end

/-! ### the depth of the default values of a class table -/

def fieldD (f : Field) : Nat := match f.dflt.value? with | some d => hd d | none => 0

def maxL : List Nat → Nat
  | [] => 0
  | x :: xs => max x (maxL xs)

theorem le_maxL {x : Nat} : ∀ {xs : List Nat}, x ∈ xs → x ≤ maxL xs
  | y :: ys, h => by
    simp only [List.mem_cons] at h
    simp only [maxL]
    rcases h with rfl | h
    · omega
    · have := le_maxL h; omega

/-- deepest default value of the class table -/
def dD (w : World) : Nat := maxL (w.classes.map (fun c => maxL (c.fields.map fieldD)))

/-- the bound on how much deeper than its argument a result can be: an all-defaults instance -/
def dW (w : World) : Nat := dD w + 1

theorem field_dflt_le {w : World} {c : Nat} {f : Field} (hf : f ∈ w.fields c) {d : Obj}
    (hd' : f.dflt.value? = some d) : hd d ≤ dD w := by
  unfold World.fields at hf
  cases hc : w.classes[c]? with
  | none => rw [hc] at hf; simp at hf
  | some k =>
    rw [hc] at hf
    have h1 : fieldD f ≤ maxL (k.fields.map fieldD) := le_maxL (List.mem_map.2 ⟨f, hf, rfl⟩)
    have h2 : maxL (k.fields.map fieldD) ≤ dD w :=
      le_maxL (List.mem_map.2 ⟨k, List.mem_of_getElem? hc, rfl⟩)
    have : fieldD f = hd d := by simp only [fieldD, hd']
    omega

end CattrsModel.Heap
