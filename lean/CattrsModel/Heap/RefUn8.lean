import CattrsModel.Heap.RefUn7
/-!
# Refinement of the unstructure hooks, part 8: TypedDict hooks; `planUn` for every type; `plan`; `run`
-/
namespace CattrsModel.Heap
open CattrsModel

local macro "catchall" : tactic =>
  `(tactic| exact ident_ref (Ctx.hrec ‹_›) _ _ ‹Good _ _› ‹ArgOld _ _› ‹denote _ _ _ = some _›
      (by simp only [planUn]) (by simp only [un]))

local macro "leafcases" o:ident hl:ident : tactic =>
  `(tactic| (cases $o:ident <;> first | (exfalso; simp [isLeafObj] at $hl:ident; done) | catchall))

section
variable {w : World} {hc : HCfg} {b Ks n : Nat} {rec : Rec} (cx : Ctx w hc b Ks n rec)
  {st : St} (g : Good b st) {v : HVal} {k : Nat} {o : Obj} (hv : ArgOld b v) (hd : denote st.cells k v = some o)
  {view : Option Cell} (hs : Shp b st k v view o) (hk : k ≤ Ks + 1) (hok : OKU w o = true)
include cx g hv hd hs hk hok

theorem un_td_ref (hId : IdOK w hc n) (hTD : TDOK w hc b n) (c : Nat) (hcf : conf w (.td c) o = true) :
    Outcome b st (exec w n rec (planUn w hc n (.td c) v view) st) k
      (some (un w hc.cfg.core (.td c) o)) False := by
  cases hs with
  | leaf k o hl => leafcases o hl
  | dict k0 l kvs os hl hcell hos =>
    have hk0 : k0 ≤ Ks := by omega
    have hn : k0 ≤ n := by have := cx.hKs; omega
    have hok0 := hok
    simp only [OKU, Bool.and_eq_true] at hok
    simp only [planUn]
    cases hgen : hc.cfg.gen with
    | false =>
      have hgen' : hc.cfg.core.gen = false := hgen
      simp only [Bool.not_false, if_true]
      rw [un_td]
      simp only [hgen', Bool.false_eq_true, if_false]
      exact build_un_ref cx.hrec (cx.href.mono hk0) n hn _ _ _ _ st g
        (tf_kv_unAny w hc kvs os (fun x hx => OP.child g hl hcell hx) hos hok.2) _
        (fun y hy => asmPure_dict hy)
    | true =>
      simp only [Bool.not_true, Bool.false_eq_true, if_false]
      cases hid : isIdUn w hc (n + 1) (.td c) with
      | true =>
        simp only [if_true]
        exact ident_ref cx.hrec w n g hv hd rfl (hId c _ hid hcf hok0)
      | false =>
        simp only [Bool.false_eq_true, if_false]
        have hgen' : hc.cfg.core.gen = true := hgen
        have hch : ∀ x, x ∈ (Cell.dict kvs).children → OP b x := fun x hx => OP.child g hl hcell hx
        obtain ⟨hpok, hpp⟩ := hTD c st.cells k0 kvs os hos (conf_td hcf) hok.1 hok.2 hch
        have := exec_copyPatch_ref cx.hrec (cx.href.mono hk0) n false (tdUnPatches w hc n c kvs (w.fields c)).snd l kvs
          (tdUnPatches w hc n c kvs (w.fields c)).fst (denote st.cells k0) os st g hl
          (fun kv hkv => ⟨(hch kv.1 (mem_dict_children.2 ⟨kv, hkv, Or.inl rfl⟩)).1,
            (hch kv.2 (mem_dict_children.2 ⟨kv, hkv, Or.inr rfl⟩)).1⟩) hos hpok
        refine this.imp (fun y hy => ?_)
        unfold copyPatchPure at hy
        split at hy
        · simp at hy
        · obtain ⟨z, hz, rfl⟩ := Option.map_eq_some_iff.1 hy
          rw [un_td, hpp z hz]
          simp only [hgen', if_true]
  | _ => catchall
end

theorem planUn_any (w : World) (hc : HCfg) (n : Nat) (v : HVal) (view : Option Cell) :
    planUn w hc n .any v view = planUnAny w hc n v view := by simp only [planUn]

theorem planUn_union (w : World) (hc : HCfg) (n : Nat) (cs hn) (v : HVal) (view : Option Cell) :
    planUn w hc n (.union cs hn) v view = planUnAny w hc n v view := by simp only [planUn]

theorem planUn_wrap (w : World) (hc : HCfg) (n : Nat) (k t) (v : HVal) (view : Option Cell) :
    planUn w hc n (.wrap k t) v view =
      if hc.cfg.gen || k == .final || k == .alias then planUn w hc n t v view else .ident v := by
  simp only [planUn]

theorem planUn_opt (w : World) (hc : HCfg) (n : Nat) (t) {v : HVal} (view : Option Cell) (hv : v ≠ .leaf .none) :
    planUn w hc n (.opt t) v view = if hc.cfg.gen then planUn w hc n t v view else planUnAny w hc n v view := by
  cases v with
  | ref l => simp only [planUn]
  | leaf o => cases o <;> first | exact absurd rfl hv | simp only [planUn]

theorem shp_ne_none {b : Nat} {st : St} {k : Nat} {v : HVal} {view : Option Cell} {o : Obj}
    (hs : Shp b st k v view o) (hv : v ≠ .leaf .none) : o ≠ .none := by
  cases hs with
  | leaf k o hl => intro h; subst h; exact hv rfl
  | _ => intro h; cases h

/-- **the hook of the declared type** -/
theorem un_ref {w : World} {hc : HCfg} {b Ks n : Nat} {rec : Rec} (cx : Ctx w hc b Ks n rec)
    (hId : IdOK w hc n) (hTD : TDOK w hc b n) : (t : Ty) →
    ∀ {st : St} (_ : Good b st) {v : HVal} {k : Nat} {o : Obj} (_ : ArgOld b v) (_ : denote st.cells k v = some o)
      {view : Option Cell} (_ : Shp b st k v view o) (_ : k ≤ Ks + 1) (_ : conf w t o = true) (_ : OKU w o = true),
      Outcome b st (exec w n rec (planUn w hc n t v view) st) k (some (un w hc.cfg.core t o)) False
  | .any, _, g, _, _, _, hv, hd, _, hs, hk, _, hok => by
    rw [planUn_any, un_any]; exact unAny_ref cx g hv hd hs hk hok
  | .union cs hn, _, g, _, _, _, hv, hd, _, hs, hk, _, hok => by
    rw [planUn_union, un_union]; exact unAny_ref cx g hv hd hs hk hok
  | .int, _, g, _, _, _, hv, hd, _, hs, hk, _, hok => un_scalar_ref cx g hv hd hs hk hok _ (Or.inl rfl)
  | .float, _, g, _, _, _, hv, hd, _, hs, hk, _, hok => un_scalar_ref cx g hv hd hs hk hok _ (Or.inr (Or.inl rfl))
  | .str, _, g, _, _, _, hv, hd, _, hs, hk, _, hok =>
    un_scalar_ref cx g hv hd hs hk hok _ (Or.inr (Or.inr (Or.inl rfl)))
  | .bytes, _, g, _, _, _, hv, hd, _, hs, hk, _, hok =>
    un_scalar_ref cx g hv hd hs hk hok _ (Or.inr (Or.inr (Or.inr (Or.inl rfl))))
  | .bool, _, g, _, _, _, hv, hd, _, hs, hk, _, hok =>
    un_scalar_ref cx g hv hd hs hk hok _ (Or.inr (Or.inr (Or.inr (Or.inr rfl))))
  | .lit vs, _, g, _, _, _, hv, hd, _, hs, hk, _, hok => un_lit_ref cx g hv hd hs hk hok vs
  | .enum e, _, g, _, _, _, hv, hd, _, hs, hk, _, hok => un_enum_ref cx g hv hd hs hk hok e
  | .coll sk t, _, g, _, _, _, hv, hd, _, hs, hk, hcf, hok => un_coll_ref cx g hv hd hs hk hok sk t hcf
  | .tupleHet ts, _, g, _, _, _, hv, hd, _, hs, hk, hcf, hok => un_tupleHet_ref cx g hv hd hs hk hok ts hcf
  | .map mk kt vt, _, g, _, _, _, hv, hd, _, hs, hk, hcf, hok => un_map_ref cx g hv hd hs hk hok mk kt vt hcf
  | .cls c, _, g, _, _, _, hv, hd, _, hs, hk, hcf, hok => un_cls_ref cx g hv hd hs hk hok c hcf
  | .nt c, _, g, _, _, _, hv, hd, _, hs, hk, hcf, hok => un_nt_ref cx g hv hd hs hk hok c hcf
  | .td c, _, g, _, _, _, hv, hd, _, hs, hk, hcf, hok => un_td_ref cx g hv hd hs hk hok hId hTD c hcf
  | .wrap wk t, st, g, v, k, o, hv, hd, view, hs, hk, hcf, hok => by
    rw [planUn_wrap, un_wrap]
    have hcf' : conf w t o = true := by rw [← conf_wrap (k := wk)]; exact hcf
    have ih := un_ref cx hId hTD t g hv hd hs hk hcf' hok
    show Outcome b st (exec w n rec (if hc.cfg.gen || wk == .final || wk == .alias then planUn w hc n t v view
      else .ident v) st) k (some (if hc.cfg.gen || wk == .final || wk == .alias then un w hc.cfg.core t o else o)) False
    cases hcond : (hc.cfg.gen || wk == .final || wk == .alias) with
    | true => simp only [if_true]; exact ih
    | false =>
      simp only [Bool.false_eq_true, if_false]
      exact exec_ident_ref cx.hrec w n v st g hv k o hd False
  | .opt t, st, g, v, k, o, hv, hd, view, hs, hk, hcf, hok => by
    by_cases hnone : v = .leaf .none
    · subst hnone
      cases hs with
      | leaf k o hl => exact leafProg_ref (r := .none) w n g k (by simp only [planUn]) (un_opt_none ..)
    · have hone := shp_ne_none hs hnone
      rw [planUn_opt w hc n t view hnone, un_opt w _ t hone]
      have hcf' : conf w t o = true := by rw [← conf_opt hone]; exact hcf
      have ih := un_ref cx hId hTD t g hv hd hs hk hcf' hok
      show Outcome b st (exec w n rec (if hc.cfg.gen then planUn w hc n t v view else planUnAny w hc n v view) st) k
        (some (if hc.cfg.gen then un w hc.cfg.core t o else unAny w hc.cfg.core o)) False
      cases hgen : hc.cfg.gen with
      | true => simp only [if_true]; exact ih
      | false =>
        simp only [Bool.false_eq_true, if_false]
        exact unAny_ref cx g hv hd hs hk hok

end CattrsModel.Heap
