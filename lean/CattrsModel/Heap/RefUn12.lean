import CattrsModel.Heap.RefUn11
/-!
# Refinement of the unstructure hooks, part 12: `unTD` as a map; `dictSet` under `str` keys
-/
namespace CattrsModel.Heap
open CattrsModel

/-- what `unTD` does to one entry -/
def updV (w : World) (cfg : Cfg) (fds : List Field) (kv : Obj × Obj) : Obj × Obj :=
  (kv.1, match findField fds kv.1 with | none => kv.2 | some f => fieldUn w cfg f kv.2)

theorem unTD_eq_map (w : World) (cfg : Cfg) (fds : List Field) : ∀ kvs : List (Obj × Obj),
    unTD w cfg fds kvs = kvs.map (updV w cfg fds)
  | [] => by simp only [unTD, List.map_nil]
  | (k, v) :: rest => by
    simp only [unTD, List.map_cons, updV, unTD_eq_map w cfg fds rest]
    cases hff : findField fds k with
    | none => rfl
    | some f =>
      obtain ⟨nm, al, ty, df, ini, rq⟩ := f
      cases ty <;> rfl

theorem findField_cons_pos {f : Field} {fds : List Field} {k : Obj} (h : Obj.pyEq f.key k = true) :
    findField (f :: fds) k = some f := by
  simp [findField, List.find?, h]

theorem findField_cons_neg {f : Field} {fds : List Field} {k : Obj} (h : Obj.pyEq f.key k = false) :
    findField (f :: fds) k = findField fds k := by
  simp [findField, List.find?, h]

theorem findField_none {s : String} : ∀ {fds : List Field}, s ∉ fds.map (·.name) → findField fds (.str s) = none
  | [], _ => rfl
  | f :: fds, h => by
    simp only [List.map_cons, List.mem_cons, not_or] at h
    have : Obj.pyEq f.key (.str s) = false := by
      show Obj.pyEq (.str f.name) (.str s) = false
      rw [pyEq_str]
      cases hb : f.name == s with
      | false => rfl
      | true => exact absurd (by simpa using hb : f.name = s).symm h.1
    rw [findField_cons_neg this]
    exact findField_none h.2

theorem updV_nil (w : World) (cfg : Cfg) (cur : List (Obj × Obj)) : cur.map (updV w cfg []) = cur := by
  have : updV w cfg [] = id := funext (fun kv => rfl)
  rw [this, List.map_id]

section
variable {w : World} {cfg : Cfg} {f : Field} {fds : List Field} (hnm : f.name ∉ fds.map (·.name))
include hnm

/-- a field that changes nothing (identity hook, or key absent) can be dropped -/
theorem map_updV_skip {cur : List (Obj × Obj)}
    (h : ∀ kv, kv ∈ cur → Obj.pyEq f.key kv.1 = true → fieldUn w cfg f kv.2 = kv.2) :
    cur.map (updV w cfg (f :: fds)) = cur.map (updV w cfg fds) := by
  refine List.map_congr_left (fun kv hkv => ?_)
  obtain ⟨k, v⟩ := kv
  cases hp : Obj.pyEq f.key k with
  | true =>
    have hk : k = .str f.name := pyEq_str_left hp
    subst hk
    simp only [updV, findField_cons_pos hp, findField_none hnm, h _ hkv hp]
  | false => simp only [updV, findField_cons_neg hp]

/-- `res[name] = hook(o[name])` is what `unTD` does for that field -/
theorem map_updV_set {o0 y : Obj} (hy : y = fieldUn w cfg f o0) : ∀ cur : List (Obj × Obj),
    nodupPy (keysOf cur) = true → dlookup cur (.str f.name) = some o0 →
    (dictSet cur (.str f.name) y).map (updV w cfg fds) = cur.map (updV w cfg (f :: fds))
  | [], _, h => by simp [dlookup] at h
  | (k', v') :: rest, hn, hl => by
    simp only [keysOf, List.map_cons, nodupPy, Bool.and_eq_true, Bool.not_eq_true'] at hn
    simp only [dlookup] at hl
    simp only [dictSet]
    cases hp : Obj.pyEq k' (.str f.name) with
    | true =>
      rw [hp] at hl
      simp only [if_true, Option.some.injEq] at hl
      subst hl
      have hk : k' = .str f.name := pyEq_str_right hp
      subst hk
      have hp' : Obj.pyEq f.key (.str f.name) = true := Obj.pyEq_refl _
      simp only [if_true, List.map_cons]
      congr 1
      · simp only [updV, findField_cons_pos hp', findField_none hnm, hy]
      · symm
        refine map_updV_skip hnm (fun kv hkv hpk => ?_)
        exfalso
        have hk : kv.1 = .str f.name := pyEq_str_left hpk
        have : Obj.memPy (.str f.name) (rest.map (·.1)) = true :=
          memPy_of_mem (List.mem_map.2 ⟨kv, hkv, hk⟩)
        rw [this] at hn
        exact Bool.noConfusion hn.1
    | false =>
      rw [hp] at hl
      simp only [Bool.false_eq_true, if_false] at hl ⊢
      simp only [List.map_cons]
      congr 1
      · have hp' : Obj.pyEq f.key k' = false := by
          show Obj.pyEq (.str f.name) k' = false
          rw [Obj.pyEq_symm]; exact hp
        simp only [updV, findField_cons_neg hp']
      · exact map_updV_set hy rest hn.2 hl
end

theorem keysOf_dictSet {K y o : Obj} : ∀ {cur : List (Obj × Obj)}, dlookup cur K = some o →
    keysOf (dictSet cur K y) = keysOf cur
  | (k', v') :: rest, h => by
    simp only [dlookup] at h
    simp only [dictSet]
    split
    · rfl
    · rename_i hp
      rw [if_neg hp] at h
      simp only [keysOf, List.map_cons, List.cons.injEq, true_and]
      exact keysOf_dictSet h

theorem dlookup_dictSet_ne {a b : String} (hab : a ≠ b) (y : Obj) : ∀ cur : List (Obj × Obj),
    dlookup (dictSet cur (.str a) y) (.str b) = dlookup cur (.str b)
  | [] => by
    have : (a == b) = false := by simpa using hab
    simp only [dictSet, dlookup, pyEq_str, this, Bool.false_eq_true, if_false]
  | (k', v') :: rest => by
    simp only [dictSet]
    cases hp : Obj.pyEq k' (.str a) with
    | true =>
      have hk : k' = .str a := pyEq_str_right hp
      subst hk
      have : (a == b) = false := by simpa using hab
      simp only [if_true, dlookup, pyEq_str, this, Bool.false_eq_true, if_false]
    | false =>
      simp only [Bool.false_eq_true, if_false, dlookup, dlookup_dictSet_ne hab y rest]

end CattrsModel.Heap
