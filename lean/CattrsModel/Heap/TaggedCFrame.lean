import CattrsModel.Heap.TaggedCLemmas
/-!
# Frame and freshness for the concrete tagged-union closures (`runTaggedC`), with concrete instances
-/
namespace CattrsModel.Heap
open CattrsModel

/-- **Frame, concrete tagged-union closures**: `configure_tagged_union`'s closures composed with the member hooks the
converter dispatches to — every location that existed before the call holds the same content afterwards, whether
the call returns or raises. -/
theorem taggedC_frame (w : World) (hc : HCfg) (n : Nat) (tg : Tagged) (isSt : Bool) (v : HVal) (st : St)
    (hwf : wfStore st = true) (hv : inB st.cells.length v = true) :
    ∀ l : Nat, l < st.cells.length → (runTaggedC w hc n tg isSt v st).2.cells[l]? = st.cells[l]? :=
  (runTaggedC_spec w hc n tg isSt st.cells.length st.cells.length v (inB_argOld hv) st (wfStore_closed hwf)
    (Nat.le_refl _) (Nat.le_refl _) (wfStore_inv hwf)).1.frame

/-- **Freshness, concrete tagged-union closures**: a caller's location reachable from the result is reachable (in
the caller's store) from a location the call logged as handed out by reference.  The popped copy itself is never
part of the result (it stays `raw`, and `OKv` excludes raw cells). -/
theorem taggedC_fresh (w : World) (hc : HCfg) (n : Nat) (tg : Tagged) (isSt : Bool) (v : HVal) (st : St)
    (hwf : wfStore st = true) (hv : inB st.cells.length v = true)
    (r : HVal) (hr : (runTaggedC w hc n tg isSt v st).1 = some r) (l : Loc)
    (hreach : Reach (runTaggedC w hc n tg isSt v st).2.cells r l) (hl : l < st.cells.length) :
    ∃ p, p ∈ (runTaggedC w hc n tg isSt v st).2.log ∧ p < st.cells.length ∧ Reach st.cells (.ref p) l := by
  have h := runTaggedC_spec w hc n tg isSt st.cells.length st.cells.length v (inB_argOld hv) st (wfStore_closed hwf)
    (Nat.le_refl _) (Nat.le_refl _) (wfStore_inv hwf)
  exact reach_fresh (h.1.inv (wfStore_inv hwf)) h.1.frame (wfStore_closed hwf) hreach (h.2 r hr).2 hl

/-- the result of the concrete closures is `OKv`: immutable, a logged caller's location, or a *finished* fresh cell —
in particular never the popped copy, which stays raw -/
theorem taggedC_result_ok (w : World) (hc : HCfg) (n : Nat) (tg : Tagged) (isSt : Bool) (v : HVal) (st : St)
    (hwf : wfStore st = true) (hv : inB st.cells.length v = true)
    (r : HVal) (hr : (runTaggedC w hc n tg isSt v st).1 = some r) :
    OKv st.cells.length (runTaggedC w hc n tg isSt v st).2 r :=
  ((runTaggedC_spec w hc n tg isSt st.cells.length st.cells.length v (inB_argOld hv) st (wfStore_closed hwf)
    (Nat.le_refl _) (Nat.le_refl _) (wfStore_inv hwf)).2 r hr).2

/-! ### non-vacuity -/

/-- one attrs class `A` with an untyped attribute `x` -/
def tc_w : World :=
  { classes := [Cls.mk .attrs false [Field.mk "x" "x" none Dflt.none true true]], enums := [] }

def tc_tg : Tagged := { tagName := "_type", members := [(0, "A")], dflt := none }

def tc_forbid : HCfg := { cfg := { gen := true, tupleStrat := false, detailed := false, forbid := true } }

/-- caller's store: `0 ↦ [1]`, `1 ↦ {'_type': 'A', 'x': <0>}`; argument `<1>` -/
def tc_st : St :=
  { cells := [.coll .list [.leaf (.int 1)],
              .dict [(.leaf (.str "_type"), .leaf (.str "A")), (.leaf (.str "x"), .ref 0)]] }

example : wfStore tc_st = true ∧ inB tc_st.cells.length (.ref 1) = true := by decide

/-- structure, `forbid_extra_keys`: the copy `<2>` is popped (and stays raw), the member hook — called on `<2>` —
builds the instance `<3>`; the untyped attribute passes the caller's list `<0>` through (logged); the caller's cells
are unchanged -/
example :
    (runTaggedC tc_w tc_forbid 3 tc_tg true (.ref 1) tc_st).1 = some (.ref 3) ∧
    (runTaggedC tc_w tc_forbid 3 tc_tg true (.ref 1) tc_st).2.cells
      = tc_st.cells ++ [.dict [(.leaf (.str "x"), .ref 0)], .inst 0 [("x", .ref 0)]] ∧
    (runTaggedC tc_w tc_forbid 3 tc_tg true (.ref 1) tc_st).2.log = [0] ∧
    (runTaggedC tc_w tc_forbid 3 tc_tg true (.ref 1) tc_st).2.raw = [2] := by decide

/-- caller's store: `0 ↦ A(x=1)`; argument `<0>` -/
def tc_stUn : St := { cells := [.inst 0 [("x", .leaf (.int 1))]] }

example : wfStore tc_stUn = true ∧ inB tc_stUn.cells.length (.ref 0) = true := by decide

/-- unstructure: the member hook returns the fresh dict `<1>`, and the closure writes the tag into that very cell;
nothing else changes (`decide` cannot evaluate `denote`, which `assemble` uses to hash the keys: hence `simp`) -/
example :
    runTaggedC tc_w tc_forbid 3 tc_tg false (.ref 0) tc_stUn
      = (some (.ref 1), { tc_stUn with cells := tc_stUn.cells ++
          [.dict [(.leaf (.str "x"), .leaf (.int 1)), (.leaf (.str "_type"), .leaf (.str "A"))]] }) := by
  simp [runTaggedC, runTaggedUnC, viewM, tc_tg, Tagged.tagOf, setTag, readLoc, write, dictSetS, keyIs, run, plan,
    planUn, tc_stUn, viewOf, planClsUn, tc_forbid, exec, buildLoc, runTasks, Heap.bind, Heap.attempt, tc_w,
    World.fields, clsUnTasks, emits, fieldCallUn, planUnAny, strKey, logPass, logIdent, Heap.ret, assemble, pairUp,
    denote_leaf, alloc, hashable, mkDictH, dictSetH, hshH, eqH]

/-- tuple strategy: the member hook returns a tuple, `res[tag_name] = tag` raises (`TypeError`) -/
example :
    (runTaggedC tc_w { cfg := { gen := true, tupleStrat := true, detailed := false, forbid := false } } 3 tc_tg false
      (.ref 0) tc_stUn).1 = none := by decide

/-- a missing tag raises *after* the copy exists (`val.pop`: `KeyError`) — the caller's cells are still unchanged -/
example :
    (runTaggedC tc_w tc_forbid 3 { tc_tg with tagName := "kind" } true (.ref 1) tc_st).1 = none ∧
    (runTaggedC tc_w tc_forbid 3 { tc_tg with tagName := "kind" } true (.ref 1) tc_st).2.cells
      = tc_st.cells ++ [.dict [(.leaf (.str "_type"), .leaf (.str "A")), (.leaf (.str "x"), .ref 0)]] := by decide

end CattrsModel.Heap
