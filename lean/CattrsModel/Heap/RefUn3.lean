import CattrsModel.Heap.RefUn2
/-!
# Refinement of the unstructure hooks, part 3: the planners' task lists against the pure list functions
-/
namespace CattrsModel.Heap
open CattrsModel

/-- everything `exec_build_ref` wants to know about a task list: the arguments satisfy `S` (old and proper),
read as `os`, the calls are inside `okc`, and the pure results are `ps` -/
structure TasksFor (S : HVal → Prop) (K : Nat) (okc : Call → Obj → Prop) (cs : List Cell) (w : World) (cfg : Cfg)
    (tasks : List (Call × HVal)) (os ps : List Obj) : Prop where
  args : ∀ t, t ∈ tasks → S t.2
  den : TasksDen K okc cs tasks os
  pure : pureTasks w cfg tasks os = some ps

section
variable {S : HVal → Prop} {K : Nat} {okc : Call → Obj → Prop} {cs : List Cell} {w : World} {cfg : Cfg}

theorem TasksFor.nil : TasksFor S K okc cs w cfg [] [] [] :=
  ⟨fun t ht => by simp at ht, trivial, rfl⟩

theorem TasksFor.cons {c : Call} {x : HVal} {o y : Obj} {ts : List (Call × HVal)} {os ps : List Obj}
    (hs : S x) (hd : denote cs K x = some o) (hk : okc c o) (hp : callPure w cfg c o = some y)
    (h : TasksFor S K okc cs w cfg ts os ps) : TasksFor S K okc cs w cfg ((c, x) :: ts) (o :: os) (y :: ps) :=
  ⟨fun t ht => by
      rcases List.mem_cons.1 ht with rfl | ht
      · exact hs
      · exact h.args t ht,
    ⟨hd, hk, h.den⟩, by simp only [pureTasks, hp, h.pure, Option.map_some]⟩
end

def flatKVU : List (Obj × Obj) → List Obj
  | [] => []
  | (a, b) :: rest => a :: b :: flatKVU rest

theorem pairUpO_flatKV : ∀ kvs : List (Obj × Obj), pairUpO (flatKVU kvs) = kvs
  | [] => rfl
  | (a, b) :: rest => by simp only [flatKVU, pairUpO, pairUpO_flatKV rest]

section
variable {S : HVal → Prop} {K : Nat} {cs : List Cell} (w : World) (hc : HCfg)

theorem tf_map_un (t : Ty) : ∀ (xs : List HVal) (os : List Obj), (∀ x, x ∈ xs → S x) →
    denoteL cs K xs = some os → confL w t os = true → OKUL w os = true →
    TasksFor S K (okcUn w hc) cs w hc.cfg.core (xs.map fun x => (Call.un t, x)) os (unL w hc.cfg.core t os)
  | [], os, _, hd, _, _ => by
    rw [denoteL_nil] at hd; cases hd
    simp only [List.map_nil, unL]; exact TasksFor.nil
  | x :: xs, os, hs, hd, hcf, hok => by
    obtain ⟨a, r, rfl, ha, hr⟩ := denoteL_cons_some.1 hd
    simp only [confL, OKUL, Bool.and_eq_true] at hcf hok
    simp only [List.map_cons, unL]
    exact TasksFor.cons (hs x (List.mem_cons_self ..)) ha ⟨hcf.1, hok.1⟩ rfl
      (tf_map_un t xs r (fun y hy => hs y (List.mem_cons_of_mem _ hy)) hr hcf.2 hok.2)

theorem tf_map_unAny : ∀ (xs : List HVal) (os : List Obj), (∀ x, x ∈ xs → S x) →
    denoteL cs K xs = some os → OKUL w os = true →
    TasksFor S K (okcUn w hc) cs w hc.cfg.core (xs.map fun x => (Call.unAny, x)) os (unAnyL w hc.cfg.core os)
  | [], os, _, hd, _ => by
    rw [denoteL_nil] at hd; cases hd
    simp only [List.map_nil, unAnyL]; exact TasksFor.nil
  | x :: xs, os, hs, hd, hok => by
    obtain ⟨a, r, rfl, ha, hr⟩ := denoteL_cons_some.1 hd
    simp only [OKUL, Bool.and_eq_true] at hok
    simp only [List.map_cons, unAnyL]
    exact TasksFor.cons (hs x (List.mem_cons_self ..)) ha hok.1 rfl
      (tf_map_unAny xs r (fun y hy => hs y (List.mem_cons_of_mem _ hy)) hr hok.2)

theorem tf_zip_un : ∀ (ts : List Ty) (xs : List HVal) (os : List Obj), (∀ x, x ∈ xs → S x) →
    denoteL cs K xs = some os → confT w ts os = true → OKUL w os = true →
    TasksFor S K (okcUn w hc) cs w hc.cfg.core (zipTasks (ts.map .un) xs) os (unT w hc.cfg.core ts os)
  | [], [], os, _, hd, _, _ => by
    rw [denoteL_nil] at hd; cases hd
    simp only [List.map_nil, zipTasks, unT]; exact TasksFor.nil
  | [], x :: xs, os, _, hd, hcf, _ => by
    obtain ⟨a, r, rfl, _, _⟩ := denoteL_cons_some.1 hd
    simp [confT] at hcf
  | t :: ts, [], os, _, hd, hcf, _ => by
    rw [denoteL_nil] at hd; cases hd
    simp [confT] at hcf
  | t :: ts, x :: xs, os, hs, hd, hcf, hok => by
    obtain ⟨a, r, rfl, ha, hr⟩ := denoteL_cons_some.1 hd
    simp only [confT, OKUL, Bool.and_eq_true] at hcf hok
    simp only [List.map_cons, zipTasks, unT]
    exact TasksFor.cons (hs x (List.mem_cons_self ..)) ha ⟨hcf.1, hok.1⟩ rfl
      (tf_zip_un ts xs r (fun y hy => hs y (List.mem_cons_of_mem _ hy)) hr hcf.2 hok.2)

theorem tf_kv_un (kt vt : Ty) : ∀ (kvs : List (HVal × HVal)) (os : List (Obj × Obj)),
    (∀ x, x ∈ (Cell.dict kvs).children → S x) →
    denoteKV cs K kvs = some os → confKV w kt vt os = true → OKUKV w os = true →
    TasksFor S K (okcUn w hc) cs w hc.cfg.core (kvTasks (.un kt) (.un vt) kvs) (flatKVU os)
      (flatKVU (unKV w hc.cfg.core kt vt os))
  | [], os, _, hd, _, _ => by
    rw [denoteKV_nil] at hd; cases hd
    simp only [kvTasks, unKV, flatKVU]; exact TasksFor.nil
  | (k, v) :: rest, os, hs, hd, hcf, hok => by
    obtain ⟨a, b, r, rfl, ha, hb, hr⟩ := denoteKV_cons_some.1 hd
    simp only [confKV, OKUKV, Bool.and_eq_true] at hcf hok
    simp only [kvTasks, unKV, flatKVU]
    have hsk : S k := hs k (mem_dict_children.2 ⟨(k, v), List.mem_cons_self .., Or.inl rfl⟩)
    have hsv : S v := hs v (mem_dict_children.2 ⟨(k, v), List.mem_cons_self .., Or.inr rfl⟩)
    refine TasksFor.cons hsk ha ⟨hcf.1.1, hok.1.1⟩ rfl (TasksFor.cons hsv hb ⟨hcf.1.2, hok.1.2⟩ rfl
      (tf_kv_un kt vt rest r (fun y hy => hs y ?_) hr hcf.2 hok.2))
    obtain ⟨kv, hkv, hx⟩ := mem_dict_children.1 hy
    exact mem_dict_children.2 ⟨kv, List.mem_cons_of_mem _ hkv, hx⟩

theorem tf_kv_unAny : ∀ (kvs : List (HVal × HVal)) (os : List (Obj × Obj)),
    (∀ x, x ∈ (Cell.dict kvs).children → S x) →
    denoteKV cs K kvs = some os → OKUKV w os = true →
    TasksFor S K (okcUn w hc) cs w hc.cfg.core (kvTasks .unAny .unAny kvs) (flatKVU os)
      (flatKVU (unAnyKV w hc.cfg.core os))
  | [], os, _, hd, _ => by
    rw [denoteKV_nil] at hd; cases hd
    simp only [kvTasks, unAnyKV, flatKVU]; exact TasksFor.nil
  | (k, v) :: rest, os, hs, hd, hok => by
    obtain ⟨a, b, r, rfl, ha, hb, hr⟩ := denoteKV_cons_some.1 hd
    simp only [OKUKV, Bool.and_eq_true] at hok
    simp only [kvTasks, unAnyKV, flatKVU]
    have hsk : S k := hs k (mem_dict_children.2 ⟨(k, v), List.mem_cons_self .., Or.inl rfl⟩)
    have hsv : S v := hs v (mem_dict_children.2 ⟨(k, v), List.mem_cons_self .., Or.inr rfl⟩)
    refine TasksFor.cons hsk ha hok.1.1 rfl (TasksFor.cons hsv hb hok.1.2 rfl
      (tf_kv_unAny rest r (fun y hy => hs y ?_) hr hok.2))
    obtain ⟨kv, hkv, hx⟩ := mem_dict_children.1 hy
    exact mem_dict_children.2 ⟨kv, List.mem_cons_of_mem _ hkv, hx⟩
end

end CattrsModel.Heap
