import CattrsModel.Heap.RefUn8
/-!
# Refinement of the unstructure hooks, part 9: one level of `run`, and the induction on the fuel
(relative to the two TypedDict facts `IdOK`, `TDOK`)
-/
namespace CattrsModel.Heap
open CattrsModel

/-- one level of the interpreter, given sub-hooks that refine the pure model one level below -/
theorem plan_ref {w : World} {hc : HCfg} {b Ks n : Nat} {rec : Rec} (cx : Ctx w hc b Ks n rec)
    (hId : IdOK w hc n) (hTD : TDOK w hc b n) (c : Call) (x : HVal) (st : St) (k : Nat) (o : Obj) (obj : Option Obj)
    (g : Good b st) (hv : ArgOld b x) (hp : Proper x) (hd : denote st.cells k x = some o) (hk : k ≤ Ks + 1)
    (hok : okcUn w hc c o) :
    Outcome b st (exec w n rec (plan w hc n c x (viewOf st x) obj) st) k (callPure w hc.cfg.core c o) False := by
  have hs := shp_of hv hp hd
  cases c with
  | un t => exact un_ref cx hId hTD t g hv hd hs hk hok.1 hok.2
  | unAny => exact unAny_ref cx g hv hd hs hk hok
  | pass => exact exec_ident_ref cx.hrec w n x st g hv k o hd False
  | st t => exact hok.elim
  | fresh d => exact hok.elim

theorem recRef_of_outcome {w : World} {hc : HCfg} {b K : Nat} {rec : Rec}
    (h : ∀ (c : Call) (x : HVal) (st : St) (k : Nat) (o : Obj), Good b st → ArgOld b x → Proper x →
      denote st.cells k x = some o → k ≤ K → okcUn w hc c o →
      Outcome b st (rec c x st) k (callPure w hc.cfg.core c o) False) :
    RecRef w hc.cfg.core b 0 K (okcUn w hc) (fun _ => False) rec :=
  fun c x st k o g hv hp hd hk hok =>
    ⟨fun r hr => (h c x st k o g hv hp hd hk hok).ok r hr, fun _ hf => hf.elim⟩

theorem run_ref_un_of (w : World) (hc : HCfg) (hovr : hc.ovr = []) (hw : WorldOK w) (b : Nat)
    (hId : ∀ n, IdOK w hc n) (hTD : ∀ n, TDOK w hc b n) :
    ∀ K, RecRef w hc.cfg.core b 0 K (okcUn w hc) (fun _ => False) (run w hc (K + 1))
  | 0 => by
    have cx : Ctx w hc b 0 0 (run w hc 0) :=
      ⟨hw, hovr, run_hookOK w hc b 0, RecRef.raise w hc.cfg.core b 0 0 (okcUn w hc), Nat.le_refl _⟩
    exact recRef_of_outcome (fun c x st k o g hv hp hd hk hok =>
      plan_ref cx (hId 0) (hTD 0) c x st k o _ g hv hp hd (by omega) hok)
  | K + 1 => by
    have cx : Ctx w hc b K (K + 1) (run w hc (K + 1)) :=
      ⟨hw, hovr, run_hookOK w hc b (K + 1), run_ref_un_of w hc hovr hw b hId hTD K, Nat.le_succ _⟩
    exact recRef_of_outcome (fun c x st k o g hv hp hd hk hok =>
      plan_ref cx (hId (K + 1)) (hTD (K + 1)) c x st k o _ g hv hp hd hk hok)

end CattrsModel.Heap
