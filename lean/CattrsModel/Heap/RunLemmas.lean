import CattrsModel.Heap.PlanLemmas3
/-!
# The late-bound interpreter respects the invariant for every type, value, configuration and fuel;
consequences for reachability
-/
namespace CattrsModel.Heap
open CattrsModel

theorem run_hookOK (w : World) (hc : HCfg) (b : Nat) : ∀ n, HookOK b (run w hc n)
  | 0 => fun N c v _ => by
    show Spec b N _ (raise : M HVal) _
    exact Spec.raise
  | n + 1 => fun N c v hv => by
    intro st hOC hb hN hI
    have hpl := plan_planned w hc n c v (viewOf st v) (denote st.cells n v)
    have hwf : (plan w hc n c v (viewOf st v) (denote st.cells n v)).WF b := by
      intro x hx
      rcases hpl.2 x hx with rfl | ⟨c', hview, hmem⟩ | ⟨o, rfl⟩
      · exact hv
      · cases v with
        | leaf o => simp [viewOf] at hview
        | ref a => exact hOC a c' hv hview x hmem
      · trivial
    exact exec_spec (run_hookOK w hc b n) w n _ N hpl.1 hwf st hOC hb hN hI

/-- executable well-formedness of a store: every reference and every raw mark is in bounds -/
def inB (n : Nat) : HVal → Bool
  | .leaf _ => true
  | .ref a => decide (a < n)

def wfStore (st : St) : Bool :=
  st.cells.all (fun c => c.children.all (inB st.cells.length)) && st.raw.all (fun a => decide (a < st.cells.length))

theorem inB_argOld {n : Nat} {v : HVal} (h : inB n v = true) : ArgOld n v := by
  cases v with
  | leaf o => trivial
  | ref a =>
    have : a < n := by simpa [inB] using h
    exact this

theorem wfStore_closed {st : St} (h : wfStore st = true) : OldClosed st.cells.length st := by
  intro l c _ hc v hv
  simp only [wfStore, Bool.and_eq_true, List.all_eq_true] at h
  exact inB_argOld (h.1 c (List.mem_of_getElem? hc) v hv)

theorem wfStore_inv {st : St} (h : wfStore st = true) : Inv st.cells.length st := by
  simp only [wfStore, Bool.and_eq_true, List.all_eq_true] at h
  refine ⟨fun a ha => by simpa using h.2 a ha, fun l c hl _ hc => ?_⟩
  have : l < st.cells.length := (List.getElem?_eq_some_iff.1 hc).1
  exact absurd this (Nat.not_lt.2 hl)

/-- inside the caller's part nothing changed, so reachability there is the old one -/
theorem reach_old {b : Nat} {cs cs' : List Cell}
    (hframe : ∀ l : Nat, l < b → cs'[l]? = cs[l]?)
    (hclosed : ∀ (l : Nat) c, l < b → cs[l]? = some c → ∀ v, v ∈ c.children → ArgOld b v) :
    ∀ {v l}, Reach cs' v l → ArgOld b v → Reach cs v l ∧ l < b := by
  intro v l h
  induction h with
  | here l => intro hv; exact ⟨Reach.here l, hv⟩
  | step hc hmem _ ih =>
    intro hv
    rw [hframe _ hv] at hc
    have := ih (hclosed _ _ hv hc _ hmem)
    exact ⟨Reach.step hc hmem this.1, this.2⟩

/-- from an `OKv` value, the caller's locations are only reached through a logged location -/
theorem reach_fresh {b : Nat} {st st' : St} (hinv : Inv b st')
    (hframe : ∀ l : Nat, l < b → st'.cells[l]? = st.cells[l]?)
    (hclosed : OldClosed b st) :
    ∀ {v l}, Reach st'.cells v l → OKv b st' v → l < b →
      ∃ p, p ∈ st'.log ∧ p < b ∧ Reach st.cells (.ref p) l := by
  intro v l h
  induction h with
  | here l =>
    intro hv hl
    rcases hv with ⟨_, h2⟩ | ⟨h1, _⟩
    · exact ⟨l, h2, hl, Reach.here l⟩
    · exact absurd hl (Nat.not_lt.2 h1)
  | @step l0 c v' l' hc hmem hr ih =>
    intro hv hl
    rcases hv with ⟨h1, h2⟩ | ⟨h1, _, h3⟩
    · have := reach_old hframe hclosed (Reach.step hc hmem hr) (show ArgOld b (.ref l0) from h1)
      exact ⟨l0, h2, h1, this.1⟩
    · exact ih (hinv.edges l0 c h1 h3 hc v' hmem) hl

end CattrsModel.Heap
