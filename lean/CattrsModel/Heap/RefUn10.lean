import CattrsModel.Heap.RefUn9
/-!
# Refinement of the unstructure hooks, part 10: string keys, `confTD`, soundness of `isIdUn` (`IdOK`)
-/
namespace CattrsModel.Heap
open CattrsModel

/-! ### `==` against a `str` -/

theorem pyEq_str_right {a : Obj} {s : String} (h : Obj.pyEq a (.str s) = true) : a = .str s := by
  cases a <;> simp [Obj.pyEq, Obj.num2?] at h
  rw [h]

theorem pyEq_str_left {a : Obj} {s : String} (h : Obj.pyEq (.str s) a = true) : a = .str s :=
  pyEq_str_right (by rw [Obj.pyEq_symm]; exact h)

theorem memPy_of_mem {x : Obj} : ∀ {ys : List Obj}, x ∈ ys → Obj.memPy x ys = true
  | y :: ys, h => by
    simp only [Obj.memPy, Bool.or_eq_true]
    rcases List.mem_cons.1 h with rfl | h
    · exact Or.inl (Obj.pyEq_refl _)
    · exact Or.inr (memPy_of_mem h)

/-- in a dict payload with pairwise non-`==` keys, an entry under a `str` key is the one `d[key]` finds -/
theorem dlookup_of_mem {s : String} {v : Obj} : ∀ {kvs : List (Obj × Obj)}, nodupPy (keysOf kvs) = true →
    (Obj.str s, v) ∈ kvs → dlookup kvs (.str s) = some v
  | (k', v') :: rest, hn, hm => by
    simp only [keysOf, List.map_cons, nodupPy, Bool.and_eq_true, Bool.not_eq_true'] at hn
    simp only [dlookup]
    rcases List.mem_cons.1 hm with h | h
    · cases h; simp only [Obj.pyEq_refl, if_true]
    · cases hp : Obj.pyEq k' (.str s) with
      | true =>
        have := pyEq_str_right hp; subst this
        have : Obj.memPy (.str s) (rest.map (·.1)) = true := memPy_of_mem (List.mem_map.2 ⟨_, h, rfl⟩)
        rw [this] at hn; exact Bool.noConfusion hn.1
      | false =>
        simp only [Bool.false_eq_true, if_false]
        exact dlookup_of_mem hn.2 h

theorem dlookup_mem {k v : Obj} : ∀ {kvs : List (Obj × Obj)}, dlookup kvs k = some v → ∃ k', (k', v) ∈ kvs
  | (k', v') :: rest, h => by
    simp only [dlookup] at h
    split at h
    · cases h; exact ⟨k', List.mem_cons_self ..⟩
    · obtain ⟨k'', hk⟩ := dlookup_mem h; exact ⟨k'', List.mem_cons_of_mem _ hk⟩

theorem OKUKV_mem {w : World} {k v : Obj} : ∀ {kvs : List (Obj × Obj)}, OKUKV w kvs = true → (k, v) ∈ kvs →
    OKU w v = true
  | (k', v') :: rest, h, hm => by
    simp only [OKUKV, Bool.and_eq_true] at h
    rcases List.mem_cons.1 hm with e | e
    · cases e; exact h.1.2
    · exact OKUKV_mem h.2 e

/-! ### `confTD` -/

theorem confTD_cons {w : World} {f : Field} {fds : List Field} {kvs : List (Obj × Obj)}
    (h : confTD w (f :: fds) kvs = true) :
    confTD w fds kvs = true ∧ ∀ x, dlookup kvs f.key = some x → ∀ t, f.ty = some t → conf w t x = true := by
  rw [confTD] at h
  split at h
  · rename_i hn
    simp only [Bool.and_eq_true] at h
    exact ⟨h.2, fun x hx => by rw [hn] at hx; cases hx⟩
  · rename_i x hx
    simp only [Bool.and_eq_true] at h
    refine ⟨h.2, fun x' hx' t ht => ?_⟩
    rw [hx] at hx'; cases hx'
    have h1 := h.1
    rw [ht] at h1
    exact h1

theorem confTD_mem {w : World} {kvs : List (Obj × Obj)} : ∀ {fds : List Field}, confTD w fds kvs = true →
    ∀ f, f ∈ fds → ∀ x, dlookup kvs f.key = some x → ∀ t, f.ty = some t → conf w t x = true
  | f' :: fds, h, f, hf, x, hx, t, ht => by
    obtain ⟨h1, h2⟩ := confTD_cons h
    rcases List.mem_cons.1 hf with rfl | hf
    · exact h2 x hx t ht
    · exact confTD_mem h1 f hf x hx t ht

/-! ### the TypedDict body when every field hook is the identity -/

theorem unTD_id {w : World} {cfg : Cfg} {fds : List Field} {full : List (Obj × Obj)}
    (hfld : ∀ f, f ∈ fds → ∃ t, f.ty = some t ∧ ∀ x, conf w t x = true → OKU w x = true → un w cfg t x = x)
    (hcf : confTD w fds full = true) (hnd : nodupPy (keysOf full) = true) (hok : OKUKV w full = true) :
    ∀ kvs : List (Obj × Obj), (∀ kv, kv ∈ kvs → kv ∈ full) → unTD w cfg fds kvs = kvs
  | [], _ => by simp only [unTD]
  | (k, v) :: rest, hsub => by
    have ih := unTD_id hfld hcf hnd hok rest (fun kv h => hsub kv (List.mem_cons_of_mem _ h))
    have hm : (k, v) ∈ full := hsub _ (List.mem_cons_self ..)
    simp only [unTD, ih]
    cases hff : findField fds k with
    | none => rfl
    | some f =>
      have hf : f ∈ fds := List.mem_of_find?_eq_some hff
      have hpk : Obj.pyEq f.key k = true := by simpa using List.find?_some hff
      have hk : k = .str f.name := pyEq_str_left hpk
      subst hk
      obtain ⟨t, hty, hid⟩ := hfld f hf
      have hcv : conf w t v = true := confTD_mem hcf f hf v (dlookup_of_mem hnd hm) t hty
      simp only [hty, hid v hcv (OKUKV_mem hok hm)]

/-! ### `isIdUn` is sound -/

theorem hasOvr_nil {hc : HCfg} (h : hc.ovr = []) (c : Nat) : hc.hasOvr c = false := by
  simp [HCfg.hasOvr, h]

theorem isIdUn_sound (w : World) (hc : HCfg) : ∀ (n : Nat) (t : Ty) (x : Obj),
    isIdUn w hc n t = true → conf w t x = true → OKU w x = true → un w hc.cfg.core t x = x
  | 0, _, _, h, _, _ => by simp [isIdUn] at h
  | n + 1, t, x, h, hcf, hok => by
    cases t with
    | any => simp [isIdUn] at h
    | enum => simp [isIdUn] at h
    | coll => simp [isIdUn] at h
    | map => simp [isIdUn] at h
    | opt => simp [isIdUn] at h
    | cls => simp [isIdUn] at h
    | union => simp [isIdUn] at h
    | int => cases x <;> simp only [un]
    | float => cases x <;> simp only [un]
    | str => cases x <;> simp only [un]
    | bytes => cases x <;> simp only [un]
    | bool => cases x <;> simp only [un]
    | lit vs =>
      have hl : litHasEnum vs = false := by simpa [isIdUn] using h
      rw [un]; simp [hl]
    | wrap k t' =>
      simp only [isIdUn] at h
      rw [un_wrap]
      show (if hc.cfg.gen || k == .final || k == .alias then un w hc.cfg.core t' x else x) = x
      split
      · rename_i hcond
        rw [if_pos hcond] at h
        exact isIdUn_sound w hc n t' x h (by rw [← conf_wrap (k := k)]; exact hcf) hok
      · rfl
    | tupleHet ts =>
      simp only [isIdUn, Bool.not_eq_true'] at h
      have hgen : hc.cfg.core.gen = false := h
      cases x with
      | coll ck xs =>
        cases ck <;> first | (rw [un_tupleHet]; simp only [hgen, Bool.false_eq_true, if_false]) | simp only [un]
      | _ => simp only [un]
    | nt c =>
      cases x with
      | inst c' fs =>
        exfalso
        simp only [OKU, Bool.and_eq_true, Bool.not_eq_true'] at hok
        obtain ⟨rfl, hnt⟩ := conf_nt hcf
        rw [hnt] at hok
        exact Bool.noConfusion hok.1.1
      | _ => simp only [un]
    | td c =>
      cases x with
      | dict kvs =>
        simp only [isIdUn] at h
        cases hgen : hc.cfg.gen with
        | false => rw [hgen] at h; simp at h
        | true =>
          have hgen' : hc.cfg.core.gen = true := hgen
          rw [hgen] at h
          simp only [if_true, Bool.and_eq_true, List.all_eq_true] at h
          simp only [OKU, Bool.and_eq_true] at hok
          rw [un_td]
          simp only [hgen', if_true]
          rw [unTD_id (full := kvs) (fun f hf => ?_) (conf_td hcf) hok.1 hok.2 kvs (fun _ h => h)]
          have hf' := h.2 f hf
          cases hty : f.ty with
          | none => rw [hty] at hf'; simp at hf'
          | some t' =>
            rw [hty] at hf'
            exact ⟨t', rfl, fun x hx hox => isIdUn_sound w hc n t' x hf' hx hox⟩
      | _ => simp only [un]

theorem idOK (w : World) (hc : HCfg) (n : Nat) : IdOK w hc n :=
  fun c x h hcf hok => isIdUn_sound w hc (n + 1) (.td c) x h hcf hok

end CattrsModel.Heap
