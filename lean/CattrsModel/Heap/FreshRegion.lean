import CattrsModel.Heap.FreshFull
/-!
# The F34-free side condition follows from "declared keys only" (structuring)

For the TypedDict structure hook the side condition `NoExtras` of the planned `copyPatch` program is implied by a
condition on the payload's own cell, the world and the overrides: the keys are pairwise distinct and every key is
the (possibly renamed) name of a declared, non-omitted field — `keyStrs kvs allowed`, exactly what
`forbid_extra_keys` checks.
-/
namespace CattrsModel.Heap
open CattrsModel

theorem lookupS_isSome : ∀ (kvs : List (HVal × HVal)) (s : String) (k x : HVal),
    (k, x) ∈ kvs → keyIs k s = true → ∃ y, lookupS kvs s = some y
  | [], _, _, _, hm, _ => by simp at hm
  | (k', v') :: rest, s, k, x, hm, hk => by
    simp only [lookupS]
    split
    · exact ⟨_, rfl⟩
    · rename_i hne
      simp only [List.mem_cons, Prod.mk.injEq] at hm
      rcases hm with ⟨rfl, _⟩ | hm
      · exact absurd hk hne
      · exact lookupS_isSome rest s k x hm hk

theorem covered_cons_of {p : Patch} {ps : List Patch} {k : HVal} (h : covered ps k = true) :
    covered (p :: ps) k = true := by
  simp only [covered, List.any_cons, Bool.or_eq_true] at h ⊢
  exact Or.inr h

theorem tdSt_covered (hc : HCfg) (c : Nat) (kvs : List (HVal × HVal)) (k x : HVal) (hm : (k, x) ∈ kvs) :
    ∀ (fds : List Field) (s : String), s ∈ (tdStPatches hc c kvs fds).2.2 → keyIs k s = true →
      covered (tdStPatches hc c kvs fds).1 k = true
  | [], s, hs, _ => by simp [tdStPatches] at hs
  | f :: fds, s, hs, hk => by
    have ih := tdSt_covered hc c kvs k x hm fds s
    simp only [tdStPatches] at hs ⊢
    cases hrec : tdStPatches hc c kvs fds with
    | mk ps rest =>
      cases rest with
      | mk doomed allowed =>
        rw [hrec] at ih hs
        simp only [] at ih hs ⊢
        cases hsk : (hc.ovrOf c f.name).2 with
        | true =>
          simp only [hsk, if_true] at hs ⊢
          exact ih hs hk
        | false =>
          simp only [hsk, Bool.false_eq_true, if_false] at hs ⊢
          cases hl : lookupS kvs ((hc.ovrOf c f.name).1.getD f.name) with
          | none =>
            simp only [hl, List.mem_cons] at hs ⊢
            rcases hs with rfl | hs
            · obtain ⟨y, hy⟩ := lookupS_isSome kvs _ k x hm hk
              rw [hl] at hy
              cases hy
            · exact ih hs hk
          | some y =>
            simp only [hl, List.mem_cons] at hs ⊢
            rcases hs with rfl | hs
            · cases hren : (hc.ovrOf c f.name).1 with
              | none =>
                rw [hren] at hk
                simp only [covered, List.any_cons, Patch.covers, Bool.or_eq_true]
                left; right
                simpa using hk
              | some r =>
                rw [hren] at hk
                simp only [covered, List.any_cons, Patch.covers, Bool.or_eq_true]
                left; left
                simpa using hk
            · exact covered_cons_of (ih hs hk)

/-- **"declared keys only" implies the side condition**, for the program `planSt` plans at a TypedDict position -/
theorem tdSt_noExtras (D : Nat → Prop) (hc : HCfg) (c : Nat) (kvs : List (HVal × HVal)) (fds : List Field)
    (hd : KeysDistinct kvs) (hdecl : keyStrs kvs (tdStPatches hc c kvs fds).2.2 = true) :
    NoExtras D kvs (tdStPatches hc c kvs fds).1 := by
  refine ⟨hd, fun kv hkv => ?_⟩
  simp only [keyStrs, List.all_eq_true, List.any_eq_true] at hdecl
  obtain ⟨s, hs, hk⟩ := hdecl kv hkv
  refine ⟨?_, Or.inl (tdSt_covered hc c kvs kv.1 kv.2 hkv fds s hs hk)⟩
  rw [keyIs_iff.1 hk]
  rfl

/-- the same, stated for `planSt` itself -/
theorem planSt_td_noExtras (D : Nat → Prop) (w : World) (hc : HCfg) (c : Nat) (v : HVal)
    (kvs : List (HVal × HVal)) (obj : Option Obj) (hd : KeysDistinct kvs)
    (hdecl : keyStrs kvs (tdStPatches hc c kvs (w.fields c)).2.2 = true) :
    (planSt w hc (.td c) v (some (.dict kvs)) obj).NoExtras D := by
  simp only [planSt]
  split
  · trivial
  · cases v with
    | leaf o => trivial
    | ref l =>
      simp only []
      have := tdSt_noExtras D hc c kvs (w.fields c) hd hdecl
      cases hrec : tdStPatches hc c kvs (w.fields c) with
      | mk ps rest =>
        cases rest with
        | mk doomed allowed =>
          rw [hrec] at this
          exact this

end CattrsModel.Heap
