import CattrsModel.Heap.RefUn10
/-!
# Refinement of the unstructure hooks, part 11: the patch list of a generated TypedDict hook (`TDOK`)
-/
namespace CattrsModel.Heap
open CattrsModel

/-- is the hook of the field the identity? (`tdUnPatches` skips such fields) -/
def isIdF (w : World) (hc : HCfg) (n : Nat) (f : Field) : Bool :=
  match f.ty with | some t => isIdUn w hc n t | none => false

def fieldUn (w : World) (cfg : Cfg) (f : Field) (v : Obj) : Obj :=
  match f.ty with | none => unAny w cfg v | some t => un w cfg t v

theorem ovrOf_nilU {hc : HCfg} (h : hc.ovr = []) (c : Nat) (s : String) : hc.ovrOf c s = (none, false) := by
  simp [HCfg.ovrOf, h]

section
variable (w : World) (hc : HCfg) (hovr : hc.ovr = []) (n c : Nat) (kvs : List (HVal × HVal))
include hovr

theorem td_cons_id {f : Field} (fds : List Field) (h : isIdF w hc n f = true) :
    (tdUnPatches w hc n c kvs (f :: fds)).1 = (tdUnPatches w hc n c kvs fds).1 := by
  obtain ⟨nm, al, ty, df, ini, rq⟩ := f
  cases ty with
  | none => simp [isIdF] at h
  | some t =>
    simp only [isIdF] at h
    simp only [tdUnPatches, ovrOf_nilU hovr, h]
    simp

theorem td_cons_some {f : Field} (fds : List Field) (h : isIdF w hc n f = false) {x : HVal}
    (hl : lookupS kvs f.name = some x) :
    (tdUnPatches w hc n c kvs (f :: fds)).1 =
      { dels := [], call := some (fieldCallUn f, x, f.name) } :: (tdUnPatches w hc n c kvs fds).1 := by
  obtain ⟨nm, al, ty, df, ini, rq⟩ := f
  cases ty with
  | none =>
    simp only [tdUnPatches, ovrOf_nilU hovr]
    simp [hl]
  | some t =>
    simp only [isIdF] at h
    simp only [tdUnPatches, ovrOf_nilU hovr, h]
    simp [hl]

theorem td_cons_none {f : Field} (fds : List Field) (h : isIdF w hc n f = false)
    (hl : lookupS kvs f.name = none) :
    (tdUnPatches w hc n c kvs (f :: fds)).1 =
      { dels := [], call := none } :: (tdUnPatches w hc n c kvs fds).1 := by
  obtain ⟨nm, al, ty, df, ini, rq⟩ := f
  cases ty with
  | none =>
    simp only [tdUnPatches, ovrOf_nilU hovr]
    simp [hl]
  | some t =>
    simp only [isIdF] at h
    simp only [tdUnPatches, ovrOf_nilU hovr, h]
    simp [hl]
end

theorem okc_field {w : World} {hc : HCfg} {f : Field} {o : Obj} (h1 : ∀ t, f.ty = some t → conf w t o = true)
    (h2 : OKU w o = true) : okcUn w hc (fieldCallUn f) o := by
  obtain ⟨nm, al, ty, df, ini, rq⟩ := f
  cases ty with
  | none => exact h2
  | some t => exact ⟨h1 t rfl, h2⟩

theorem callPure_fieldU (w : World) (cfg : Cfg) (f : Field) (o : Obj) :
    callPure w cfg (fieldCallUn f) o = some (fieldUn w cfg f o) := by
  obtain ⟨nm, al, ty, df, ini, rq⟩ := f
  cases ty <;> rfl

/-- the patches are well-formed: arguments are entries of the payload, inside the precondition -/
theorem td_patchesOK (w : World) (hc : HCfg) (hovr : hc.ovr = []) (n c : Nat) {b k0 : Nat} {cs : List Cell}
    {kvs : List (HVal × HVal)} {kvsO : List (Obj × Obj)} (hden : denoteKV cs k0 kvs = some kvsO)
    (hok : OKUKV w kvsO = true) (hch : ∀ x, x ∈ (Cell.dict kvs).children → OP b x) :
    ∀ fds : List Field, confTD w fds kvsO = true →
      PatchesOK b k0 (okcUn w hc) (denote cs k0) cs (tdUnPatches w hc n c kvs fds).1
  | [], _ => fun p hp => by simp [tdUnPatches] at hp
  | f :: fds, hcf => by
    obtain ⟨hcf1, hcf2⟩ := confTD_cons hcf
    have ih := td_patchesOK w hc hovr n c hden hok hch fds hcf1
    cases hid : isIdF w hc n f with
    | true => rw [td_cons_id w hc hovr n c kvs fds hid]; exact ih
    | false =>
      cases hl : lookupS kvs f.name with
      | none =>
        rw [td_cons_none w hc hovr n c kvs fds hid hl]
        intro p hp
        rcases List.mem_cons.1 hp with rfl | hp
        · exact ⟨rfl, fun c' x' key h => by simp at h⟩
        · exact ih p hp
      | some x =>
        rw [td_cons_some w hc hovr n c kvs fds hid hl]
        intro p hp
        rcases List.mem_cons.1 hp with rfl | hp
        · refine ⟨rfl, fun c' x' key h => ?_⟩
          simp only [Option.some.injEq, Prod.mk.injEq] at h
          obtain ⟨rfl, rfl, rfl⟩ := h
          obtain ⟨o, hdl, hdx⟩ := (lookupS_den f.name kvs kvsO hden).1 x hl
          have hopx := hch x (lookupS_mem kvs f.name x hl)
          obtain ⟨k', hk'⟩ := dlookup_mem hdl
          exact ⟨hopx.1, hopx.2, o, hdx, hdx, okc_field (fun t ht => hcf2 o hdl t ht) (OKUKV_mem hok hk')⟩
        · exact ih p hp

end CattrsModel.Heap
