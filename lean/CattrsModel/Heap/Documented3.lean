import CattrsModel.Heap.Documented2
/-!
# `Prog.ident` is planned at the documented positions only — the theorem for `plan`, and its converse
-/
namespace CattrsModel.Heap
open CattrsModel

/-- **(A)** for every world, configuration, fuel, call, value, view and pure value: if the hook amounts to
`return v'` then `v'` is the argument itself and the position is one of the documented pass-throughs. -/
theorem ident_only_at_documented_positions (w : World) (hc : HCfg) (n : Nat) (call : Call) (v : HVal)
    (view : Option Cell) (obj : Option Obj) (v' : HVal) (h : plan w hc n call v view obj = .ident v') :
    v' = v ∧ DocPos w hc n call v view := by
  unfold plan at h
  split at h
  · exact ⟨(planUn_ident _ _ _ _ _ _ _ h).1, .un (planUn_ident _ _ _ _ _ _ _ h).2⟩
  · exact ⟨(planUnAny_ident h).1, .unAny (planUnAny_ident h).2⟩
  · exact ⟨(planSt_ident _ _ _ _ _ _ _ h).1, .st (planSt_ident _ _ _ _ _ _ _ h).2⟩
  · cases h
    exact ⟨rfl, .pass⟩
  · cases h

/-! ### the converse: every documented position does plan `ident` -/

theorem planSt_doc (w : World) (hc : HCfg) {t : Ty} {v : HVal} (view : Option Cell) (obj : Option Obj)
    (h : DocSt t v) : planSt w hc t v view obj = .ident v := by
  induction h with
  | any => simp only [planSt]
  | @opt t v hv _ ih =>
    have hv' : v = HVal.leaf Obj.none → False := hv
    simp only [planSt, ih]
  | wrap _ ih => simp only [planSt, ih]

theorem planUn_mismatch (w : World) (hc : HCfg) (n : Nat) {t : Ty} {v : HVal} {view : Option Cell}
    (h : shapeOK t v view = false) : planUn w hc n t v view = .ident v := by
  cases t with
  | enum e =>
    cases v with
    | ref l => simp only [planUn]
    | leaf o => cases o <;> first | (simp [shapeOK, isEnumV] at h; done) | simp only [planUn]
  | coll k t =>
    cases view with
    | none => simp only [planUn]
    | some c => cases c <;> first | (simp [shapeOK, isCollC] at h; done) | simp only [planUn]
  | tupleHet ts =>
    cases view with
    | none => simp only [planUn]
    | some c =>
      cases c with
      | coll k xs => cases k <;> first | (simp [shapeOK, isTupleC] at h; done) | simp only [planUn]
      | _ => simp only [planUn]
  | map k kt vt =>
    cases view with
    | none => simp only [planUn]
    | some c => cases c <;> first | (simp [shapeOK, isDictC] at h; done) | simp only [planUn]
  | cls c =>
    cases view with
    | none => simp only [planUn]
    | some c => cases c <;> first | (simp [shapeOK, isInstC] at h; done) | simp only [planUn]
  | td c =>
    cases view with
    | none => simp only [planUn]
    | some c => cases c <;> first | (simp [shapeOK, isDictC] at h; done) | simp only [planUn]
  | nt c =>
    cases view with
    | none => simp only [planUn]
    | some c => cases c <;> first | (simp [shapeOK, isInstC] at h; done) | simp only [planUn]
  | _ => simp [shapeOK] at h

theorem planUn_doc (w : World) (hc : HCfg) (n : Nat) {t : Ty} {v : HVal} {view : Option Cell}
    (h : DocUn w hc n t v view) : planUn w hc n t v view = .ident v := by
  induction h with
  | @leafTy t v view ht =>
    cases t <;> first | (simp [isLeafTy] at ht; done) | simp only [planUn] | skip
    rename_i vs
    have hl : litHasEnum vs = false := by simpa [isLeafTy] using ht
    simp only [planUn, hl, Bool.false_eq_true, if_false]
  | any h => simp only [planUn]; exact planUnAny_doc h
  | litEnum hl h => simp only [planUn, hl, if_true]; exact planUnAny_doc h
  | union h => simp only [planUn]; exact planUnAny_doc h
  | @optBase t v view hg hv h =>
    have hv' : v = HVal.leaf Obj.none → False := hv
    simp only [planUn, hg, Bool.false_eq_true, if_false]; exact planUnAny_doc h
  | @optInner t v view hg hv _ ih =>
    have hv' : v = HVal.leaf Obj.none → False := hv
    simp only [planUn, hg, if_true]; exact ih
  | wrapBase hk => simp only [planUn, hk, Bool.false_eq_true, if_false]
  | wrapInner hk _ ih => simp only [planUn, hk, if_true]; exact ih
  | tupleHetBase hg => simp only [planUn, hg, Bool.false_eq_true, if_false]
  | tdIdentity hg hid => simp [planUn, hg, hid]
  | ntPass h => simp only [planUn]; exact planNTUn_doc h
  | mismatch h => exact planUn_mismatch w hc n h

/-- **(A), converse**: the list is exact — at every documented position the hook is `return v` -/
theorem documented_positions_plan_ident (w : World) (hc : HCfg) (n : Nat) (call : Call) (v : HVal)
    (view : Option Cell) (obj : Option Obj) (h : DocPos w hc n call v view) :
    plan w hc n call v view obj = .ident v := by
  cases h with
  | pass => rfl
  | st h => exact planSt_doc w hc view obj h
  | un h => exact planUn_doc w hc n h
  | unAny h => exact planUnAny_doc h

/-! ### `plan` never nests programs -/

def Prog.flat : Prog → Bool
  | .popCopy _ _ _ => false
  | .popInPlace _ _ _ => false
  | _ => true

theorem planNTUn_flat (w : World) (hc : HCfg) (n c : Nat) (v : HVal) (fs : List (String × HVal)) :
    (planNTUn w hc n c v fs).flat = true := by
  unfold planNTUn; split <;> rfl

theorem planClsUn_flat (w : World) (cfg : Cfg) (c : Nat) (fs : List (String × HVal)) :
    (planClsUn w cfg c fs).flat = true := by
  unfold planClsUn; split <;> rfl

theorem planUnAny_flat (w : World) (hc : HCfg) (n : Nat) (v : HVal) (view : Option Cell) :
    (planUnAny w hc n v view).flat = true := by
  unfold planUnAny
  simp only []
  repeat' split
  all_goals first | rfl | exact planNTUn_flat .. | exact planClsUn_flat ..

theorem planUn_flat (w : World) (hc : HCfg) (n : Nat) (t : Ty) (v : HVal) (view : Option Cell) :
    (planUn w hc n t v view).flat = true := by
  fun_induction planUn w hc n t v view
  all_goals first | rfl | assumption | exact planUnAny_flat .. | exact planNTUn_flat .. | exact planClsUn_flat ..

theorem planClsSt_flat (w : World) (cfg : Cfg) (c : Nat) (v : HVal) (view : Option Cell) (obj : Option Obj) :
    (planClsSt w cfg c v view obj).flat = true := by
  unfold planClsSt noItems
  simp only []
  repeat' split
  all_goals rfl

theorem planSt_flat (w : World) (hc : HCfg) (t : Ty) (v : HVal) (view : Option Cell) (obj : Option Obj) :
    (planSt w hc t v view obj).flat = true := by
  fun_induction planSt w hc t v view obj
  all_goals first
    | rfl | assumption | exact planClsSt_flat ..
    | (unfold noItems; split <;> rfl)

theorem plan_flat (w : World) (hc : HCfg) (n : Nat) (call : Call) (v : HVal) (view : Option Cell)
    (obj : Option Obj) : (plan w hc n call v view obj).flat = true := by
  unfold plan
  split
  · exact planUn_flat ..
  · exact planUnAny_flat ..
  · exact planSt_flat ..
  · rfl
  · rfl

end CattrsModel.Heap
