import CattrsModel.Heap.RefSt5
/-!
# Refinement, structuring (6): one-step equations of the pure `stF`, stated on what the payload iterates as
-/
namespace CattrsModel.Heap
open CattrsModel

theorem stF_coll_some (w : World) (cfg : Cfg) (sk : SK) (t : Ty) {o : Obj} {os : List Obj} (hi : iterItems o = some os) :
    stF w cfg (.coll sk t) o = (stFL w cfg t os).bind (finishColl w sk.structTo) := by
  rw [stF]
  split
  · rename_i h; rw [hi] at h; cases h
  · rename_i xs h
    rw [hi] at h; cases h
    cases stFL w cfg t os <;> rfl

theorem stF_coll_none (w : World) (cfg : Cfg) (sk : SK) (t : Ty) {o : Obj} (hi : iterItems o = none)
    (hl : leafItems o = none) : stF w cfg (.coll sk t) o = none := by
  rw [CattrsModel.stF_coll_none w cfg hi, Leaf.stLF_coll, hl]

theorem stF_tuple_some (w : World) (cfg : Cfg) (ts : List Ty) {o : Obj} {os : List Obj} (hi : iterItems o = some os) :
    stF w cfg (.tupleHet ts) o = (stFT w cfg ts os).map (.coll .tuple) := by
  rw [stF]
  split
  · rename_i h; rw [hi] at h; cases h
  · rename_i xs h; rw [hi] at h; cases h; rfl

theorem stF_tuple_none (w : World) (cfg : Cfg) (ts : List Ty) {o : Obj} (hi : iterItems o = none)
    (hl : leafItems o = none) : stF w cfg (.tupleHet ts) o = none := by
  rw [CattrsModel.stF_tup_none w cfg hi, Leaf.stLF_tup, hl]

theorem stF_nt_some (w : World) (cfg : Cfg) (c : Nat) {o : Obj} {os : List Obj} (hi : iterItems o = some os) :
    stF w cfg (.nt c) o = if w.isNT c then (stFT w cfg (w.ntTys c) os).map (ntMk w c) else none := by
  rw [stF]
  split
  · rename_i h; rw [hi] at h; cases h
  · rename_i xs h; rw [hi] at h; cases h; rfl

theorem stF_nt_none (w : World) (cfg : Cfg) (c : Nat) {o : Obj} (hi : iterItems o = none)
    (hl : leafItems o = none) : stF w cfg (.nt c) o = none := by
  rw [CattrsModel.stF_nt_none w cfg hi]; unfold leafFuel; rw [Leaf.stLF_nt_succ, hl]

theorem stF_map_nondict (w : World) (cfg : Cfg) (mk : MK) (kt vt : Ty) {o : Obj} (ho : ∀ okvs, o ≠ .dict okvs) :
    stF w cfg (.map mk kt vt) o = none := by
  cases o <;> first | (exact absurd rfl (ho _)) | simp only [stF]

theorem stF_td_nondict (w : World) (cfg : Cfg) (c : Nat) {o : Obj} (ho : ∀ okvs, o ≠ .dict okvs) :
    stF w cfg (.td c) o = none := by
  cases o <;> first | (exact absurd rfl (ho _)) | simp only [stF]

theorem stF_opt_some (w : World) (cfg : Cfg) (t : Ty) {o : Obj} (ho : o ≠ .none) :
    stF w cfg (.opt t) o = stF w cfg t o := by
  cases o <;> first | (exact absurd rfl ho) | simp only [stF]

theorem litLeaf_tyA {w : World} (hw : WLit w) {c : Nat} {f : Field} (hf : f ∈ w.fields c) : litLeaf f.tyA = true := by
  unfold Field.tyA
  cases hty : f.ty with
  | none => rfl
  | some t => exact hw c f hf t hty

theorem litLeafL_map {w : World} (hw : WLit w) (c : Nat) : ∀ (fds : List Field), (∀ f, f ∈ fds → f ∈ w.fields c) →
    litLeafL (fds.map Field.tyA) = true
  | [], _ => rfl
  | f :: fds, h => by
    simp only [List.map_cons, litLeafL, Bool.and_eq_true]
    exact ⟨litLeaf_tyA hw (h f (List.mem_cons_self ..)),
      litLeafL_map hw c fds (fun g hg => h g (List.mem_cons_of_mem _ hg))⟩

theorem litLeafL_ntTys {w : World} (hw : WLit w) (c : Nat) : litLeafL (w.ntTys c) = true :=
  litLeafL_map hw c (w.fields c) (fun _ h => h)

theorem take_length_eq {α} {xs : List α} {n : Nat} (h : xs.length = n) : xs.take n = xs := by
  subst h; exact List.take_length

/-- the pure outcome of the heterogeneous-tuple hook against the zipped task list, in `buildPure` form -/
theorem buildPure_tuple (w : World) (cfg : Cfg) (sh : Shape) (ts : List Ty) (xs : List HVal) (os : List Obj)
    (hlen : xs.length = os.length) (f : List Obj → Obj) (hasm : ∀ ps, asmPure w sh ps = some (f ps)) :
    buildPure w cfg (xs.length != ts.length) sh (zipTasks (ts.map Call.st) xs) (os.take ts.length)
      = (stFT w cfg ts os).map f := by
  unfold buildPure
  rw [pureTasks_stFT w cfg ts xs os hlen, hlen]
  by_cases h : os.length = ts.length
  · simp only [h, bne_self_eq_false, Bool.false_eq_true, if_false, if_true]
    cases pureTasks w cfg (zipTasks (ts.map Call.st) xs) (os.take ts.length) with
    | none => rfl
    | some ps => simp only [Option.bind_some, Option.map_some, hasm]
  · have : (os.length != ts.length) = true := by simpa using h
    simp only [this, if_true, h, if_false, Option.map_none]

end CattrsModel.Heap
