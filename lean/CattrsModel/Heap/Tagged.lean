import CattrsModel.Heap.PlanSt
/-!
# Tagged unions (`strategies/_unions.py`, `configure_tagged_union`)

Structure: four closures, chosen by `forbid_extra_keys` (copy + pop, or plain lookup) and by
whether a default class was given.  Unstructure: `res = member_hook(val); res[tag_name] = tag`.
-/
namespace CattrsModel.Heap
open CattrsModel

structure Tagged where
  tagName : String
  members : List (Nat × String)        -- class, tag
  dflt : Option Nat
  deriving Repr, Inhabited

def Tagged.classOf (tg : Tagged) (tag : String) : Option Nat :=
  (tg.members.find? (fun m => m.2 == tag)).map (·.1)

def Tagged.tagOf (tg : Tagged) (c : Nat) : Option String :=
  (tg.members.find? (fun m => m.1 == c)).map (·.2)

/-- `tag_to_hook[tagvalue]`: the member's class, the default's for an unknown tag, `KeyError`
without a default, `TypeError` for an unhashable tag value -/
def Tagged.pick (w : World) (tg : Tagged) (tagObj : Option Obj) : Option Nat :=
  match tagObj with
  | some (.str s) => match tg.classOf s with
    | some c => some c
    | none => tg.dflt
  | some o => if hashable w o then tg.dflt else none
  | none => none

def tagObjOf (tg : Tagged) (obj : Option Obj) : Option Obj :=
  match obj with
  | some (.dict kvs) => (kvs.find? (fun kv => kv.1 == Obj.str tg.tagName)).map (·.2)
  | _ => none

def planTaggedSt (w : World) (cfg : Cfg) (tg : Tagged) (view : Option Cell) (obj : Option Obj) : Prog :=
  match view with
  | some (.dict kvs) =>
    match lookupS kvs tg.tagName with
    | some _ =>
      if cfg.gen && cfg.forbid then
        -- `val = val.copy(); hook = tag_to_hook[val.pop(tag_name)]; hook(val)`
        let c1 := dictDelS kvs tg.tagName
        match tg.pick w (tagObjOf tg obj) with
        | some c => .popCopy kvs c1 (planClsSt w cfg c (.leaf .none) (some (.dict c1)) obj)
        | none => .popCopy kvs c1 .fail
      else
        match tg.pick w (tagObjOf tg obj) with
        | some c => planClsSt w cfg c (.leaf .none) view obj
        | none => .fail
    | none =>
      match tg.dflt with
      | some d => planClsSt w cfg d (.leaf .none) view obj          -- `_dh(val, default)` on the argument itself
      | none => if cfg.gen && cfg.forbid then .popCopy kvs kvs .fail else .fail   -- `KeyError`
  | _ => .fail

def toTagInsert (name : String) (tag : Obj) : Prog → Prog
  | .build det doomed sh tasks => .tagInsert det doomed sh tasks name tag
  | p => p

def planTaggedUn (w : World) (cfg : Cfg) (tg : Tagged) (view : Option Cell) : Prog :=
  match view with
  | some (.inst c fs) =>
    match tg.tagOf c with
    | some tag => toTagInsert tg.tagName (.str tag) (planClsUn w cfg c fs)
    | none => .fail                      -- `_exact_cl_unstruct_hooks[val.__class__]`: KeyError
  | _ => .fail

def runTagged (w : World) (hc : HCfg) (n : Nat) (tg : Tagged) (isSt : Bool) (v : HVal) : M HVal := fun st =>
  let p := if isSt then planTaggedSt w hc.cfg tg (viewOf st v) (denote st.cells n v)
           else planTaggedUn w hc.cfg tg (viewOf st v)
  exec w n (run w hc n) p st

end CattrsModel.Heap
