import CattrsModel.Heap.Tagged
/-!
# Tagged unions, concretely: the closures of `configure_tagged_union` composed with the converter's hooks

`Tagged.lean` plans the tagged-union hooks with the member's class hook *inlined* (`planClsSt` / `planClsUn` inside
`Prog.popCopy` / `Prog.tagInsert`).  Here the closures of `strategies/_unions.py` are written line by line as store
computations that *call* the member's hook the converter dispatches to -- `run w hc n (.st (.cls c))` /
`run w hc n (.un (.cls c))` --

* on the popped **copy** (`forbid_extra_keys`): a cell that belongs to the call, not to the caller;
* and, when unstructuring, **write into the cell the member hook returned** (`res[tag_name] = tag`).

The copy is a temporary of the call: it is never sealed (it keeps its ghost mark `raw`), so the specification
(`OKv` excludes raw cells) also says that nothing returned references it.
-/
namespace CattrsModel.Heap
open CattrsModel

/-- the argument's own cell (reading does not change the store) -/
def viewM (v : HVal) : M (Option Cell) := fun st => (some (viewOf st v), st)

/-- ghost: the run left the modelled fragment -/
def unmodelledM {α} : M α := fun st => (none, { st with unmod := true })

/-- outcome of `tag_name in val` -/
inductive InRes where
  | yes | no
  | error          -- `TypeError: argument of type … is not iterable`
  | unmodelled     -- substring test on a `str`, unknown classes
  deriving Repr, Inhabited, DecidableEq

/-- `_tag_name in val` -/
def tagIn (w : World) (name : String) (v : HVal) (view : Option Cell) : InRes :=
  match view with
  | some (.dict kvs) => if (lookupS kvs name).isSome then .yes else .no
  | some (.coll _ xs) => if xs.any (fun x => keyIs x name) then .yes else .no
  | some (.inst c fs) =>
      if w.isNT c then (if fs.any (fun p => keyIs p.2 name) then .yes else .no) else .error
  | some (.opaque _) => .unmodelled
  | none => match v with
    | .leaf (.str _) | .leaf (.bytes _) => .unmodelled
    | _ => .error

/-- the tag object behind the value stored under the tag key (a leaf is the object itself) -/
def tagObjM (n : Nat) (tv : HVal) : M (Option Obj) :=
  match tv with
  | .leaf o => ret (some o)
  | .ref _ => attempt (peek n tv)

/-- `tag_to_hook[tagvalue](val)`: the hook of the member class (the default's for an unknown tag when there is
one), applied to `val`; `KeyError` / `TypeError: unhashable` otherwise.  The tag object is read out of the store. -/
def callMember (w : World) (hc : HCfg) (n : Nat) (tg : Tagged) (tv : HVal) (val : HVal) : M HVal :=
  bind (tagObjM n tv) fun tagObj =>
    match tg.pick w tagObj with
    | some c => run w hc n (.st (.cls c)) val
    | none => raise

/-- `val = val.copy(); return tag_to_hook[val.pop(tag_name)](val)` -/
def copyPopCall (w : World) (hc : HCfg) (n : Nat) (tg : Tagged) (view : Option Cell) : M HVal :=
  match view with
  | some (.dict c0) =>
      bind (allocRaw (.dict c0)) fun cp =>                                   -- `val = val.copy()`
        match lookupS c0 tg.tagName with
        | none => raise                                                        -- `val.pop(name)`: KeyError
        | some tv =>
          bind (write cp (.dict (dictDelS c0 tg.tagName))) fun _ =>            -- `val.pop(name)`
            callMember w hc n tg tv (.ref cp)                                  -- the member hook, on the copy
  | some (.coll k xs) =>
      -- `list.copy()` / `set.copy()` / `deque.copy()` exist, `.pop('name')` then raises; tuples have no `.copy`,
      -- `frozenset.copy()` returns the object itself
      if k == .tuple || k == .fset then raise else bind (allocRaw (.coll k xs)) fun _ => raise
  | _ => raise                                                                -- `AttributeError: copy`

/-- `return tag_to_hook[val[tag_name]](val)` -/
def lookupCall (w : World) (hc : HCfg) (n : Nat) (tg : Tagged) (v : HVal) (view : Option Cell) : M HVal :=
  match view with
  | some (.dict c0) =>
      match lookupS c0 tg.tagName with
      | none => raise                                                          -- KeyError
      | some tv => callMember w hc n tg tv v                                   -- the member hook, on the argument
  | _ => raise                                                                -- `val['name']`: TypeError

/-- the four closures `structure_tagged_union` of `configure_tagged_union` -/
def runTaggedStC (w : World) (hc : HCfg) (n : Nat) (tg : Tagged) (v : HVal) : M HVal :=
  bind (viewM v) fun view =>
    let forbid := hc.cfg.gen && hc.cfg.forbid          -- `getattr(converter, "forbid_extra_keys", False)`
    match tg.dflt with
    | none => if forbid then copyPopCall w hc n tg view else lookupCall w hc n tg v view
    | some d =>
      match tagIn w tg.tagName v view with               -- `if _tag_name in val:`
      | .yes => if forbid then copyPopCall w hc n tg view else lookupCall w hc n tg v view
      | .no => run w hc n (.st (.cls d)) v               -- `return _dh(val, _default)`
      | .error => raise
      | .unmodelled => unmodelledM

/-- `res[tag_name] = tag` on what the member hook returned -/
def setTag (name : String) (tag : Obj) (res : HVal) : M HVal :=
  match res with
  | .ref l => bind (readLoc l) fun cell =>
      match cell with
      | .dict kvs => bind (write l (.dict (dictSetS kvs name (.leaf tag)))) fun _ => ret (.ref l)
      | _ => raise                       -- `TypeError: 'tuple' object does not support item assignment`
  | .leaf _ => raise

/-- `unstructure_tagged_union`: `res = _exact_cl_unstruct_hooks[val.__class__](val); res[tag_name] = tag; return res` -/
def runTaggedUnC (w : World) (hc : HCfg) (n : Nat) (tg : Tagged) (v : HVal) : M HVal :=
  bind (viewM v) fun view =>
    match view with
    | some (.inst c _) =>
      match tg.tagOf c with
      | none => raise                                  -- `_exact_cl_unstruct_hooks[val.__class__]`: KeyError
      | some tag => bind (run w hc n (.un (.cls c)) v) fun res => setTag tg.tagName (.str tag) res
    | _ => raise

def runTaggedC (w : World) (hc : HCfg) (n : Nat) (tg : Tagged) (isSt : Bool) (v : HVal) : M HVal :=
  if isSt then runTaggedStC w hc n tg v else runTaggedUnC w hc n tg v

end CattrsModel.Heap
