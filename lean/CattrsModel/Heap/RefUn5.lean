import CattrsModel.Heap.RefUn4
/-!
# Refinement of the unstructure hooks, part 5: class-hook task lists; the generic `build` step; `planClsUn`
-/
namespace CattrsModel.Heap
open CattrsModel

section
variable {S : HVal → Prop} {K : Nat} {cs : List Cell} (w : World) (hc : HCfg)

theorem tf_cls (hleaf : ∀ s, S (strKey s)) : ∀ (fds : List Field) (fs : List (String × HVal)) (fos : List (String × Obj)),
    (∀ x, x ∈ fs.map (·.2) → S x) →
    denoteF cs K fs = some fos → confF w fds fos = true → OKUF w fos = true →
    TasksFor S K (okcUn w hc) cs w hc.cfg.core (clsUnTasks hc.cfg.core fds fs) (clsOs hc.cfg.core fds fos)
      (flatKVU (unFields w hc.cfg.core fds fos))
  | [], [], fos, _, hd, _, _ => by
    rw [denoteF_nil] at hd; cases hd
    simp only [clsUnTasks, clsOs, unFields, flatKVU]; exact TasksFor.nil
  | [], (s, x) :: rest, fos, _, hd, hcf, _ => by
    obtain ⟨b', r, rfl, _, _⟩ := denoteF_cons_some.1 hd
    simp [confF] at hcf
  | f :: fds, [], fos, _, hd, hcf, _ => by
    rw [denoteF_nil] at hd; cases hd
    simp [confF] at hcf
  | ⟨nm, al, ty, df, ini, rq⟩ :: fds, (s, x) :: rest, fos, hs, hd, hcf, hok => by
    obtain ⟨xo, r, rfl, hx, hr⟩ := denoteF_cons_some.1 hd
    simp only [confF, OKUF, Bool.and_eq_true] at hcf hok
    have ih := tf_cls hleaf fds rest r (fun y hy => hs y (by
      simp only [List.map_cons, List.mem_cons]; exact Or.inr hy)) hr hcf.2 hok.2
    have hsx : S x := hs x (by simp)
    simp only [clsUnTasks, clsOs, unFields]
    split
    · simp only [flatKVU, Field.key]
      refine TasksFor.cons (hleaf nm) (denote_leaf _ _ _) trivial rfl ?_
      cases ty with
      | none => exact TasksFor.cons hsx hx hok.1 rfl ih
      | some t => exact TasksFor.cons hsx hx ⟨hcf.1.1.2, hok.1⟩ rfl ih
    · exact ih

theorem tf_clsT : ∀ (fds : List Field) (fs : List (String × HVal)) (fos : List (String × Obj)),
    (∀ x, x ∈ fs.map (·.2) → S x) →
    denoteF cs K fs = some fos → confF w fds fos = true → OKUF w fos = true →
    TasksFor S K (okcUn w hc) cs w hc.cfg.core (clsUnTasksT fds fs) (vals fos) (unFieldsT w hc.cfg.core fds fos)
  | [], [], fos, _, hd, _, _ => by
    rw [denoteF_nil] at hd; cases hd
    simp only [clsUnTasksT, vals, List.map_nil, unFieldsT]; exact TasksFor.nil
  | [], (s, x) :: rest, fos, _, hd, hcf, _ => by
    obtain ⟨b', r, rfl, _, _⟩ := denoteF_cons_some.1 hd
    simp [confF] at hcf
  | f :: fds, [], fos, _, hd, hcf, _ => by
    rw [denoteF_nil] at hd; cases hd
    simp [confF] at hcf
  | ⟨nm, al, ty, df, ini, rq⟩ :: fds, (s, x) :: rest, fos, hs, hd, hcf, hok => by
    obtain ⟨xo, r, rfl, hx, hr⟩ := denoteF_cons_some.1 hd
    simp only [confF, OKUF, Bool.and_eq_true] at hcf hok
    have ih := tf_clsT fds rest r (fun y hy => hs y (by
      simp only [List.map_cons, List.mem_cons]; exact Or.inr hy)) hr hcf.2 hok.2
    have hsx : S x := hs x (by simp)
    simp only [clsUnTasksT, vals, List.map_cons, unFieldsT]
    cases ty with
    | none => exact TasksFor.cons hsx hx hok.1 rfl ih
    | some t => exact TasksFor.cons hsx hx ⟨hcf.1.1.2, hok.1⟩ rfl ih
end

/-- old and proper: what `exec_build_ref` asks of every task argument -/
def OP (b : Nat) (x : HVal) : Prop := ArgOld b x ∧ Proper x

theorem OP.strKey (b : Nat) (s : String) : OP b (strKey s) := ⟨trivial, Proper.leaf rfl⟩

/-- the children of a caller's cell are old and proper -/
theorem OP.child {b : Nat} {st : St} (g : Good b st) {l : Loc} {c : Cell} (hl : l < b) (hc : st.cells[l]? = some c)
    {x : HVal} (hx : x ∈ c.children) : OP b x :=
  ⟨g.oc l c hl hc x hx, g.proper l c hl hc x hx⟩

/-- **the generic `build` step of the unstructure direction** (no deepening, nothing claimed on exceptions) -/
theorem build_un_ref {w : World} {cfg : Cfg} {b k' : Nat} {okc : Call → Obj → Prop} {rec : Rec}
    (hrec : HookOK b rec) (href : RecRef w cfg b 0 k' okc (fun _ => False) rec) (fuel : Nat) (hf : k' ≤ fuel)
    (sh : Shape) (tasks : List (Call × HVal)) (os ps : List Obj) (st : St) (g : Good b st)
    (h : TasksFor (OP b) k' okc st.cells w cfg tasks os ps) (target : Obj)
    (ht : ∀ y, asmPure w sh ps = some y → y = target) :
    Outcome b st (exec w fuel rec (.build false false sh tasks) st) (k' + 1) (some target) False := by
  have := exec_build_ref hrec href fuel (by omega) false false sh tasks os st g h.args h.den
  refine this.imp (fun y hy => ?_)
  simp only [buildPure, Bool.false_eq_true, if_false, h.pure, Option.bind_some] at hy
  rw [ht y hy]

/-- the class hook (both strategies) on an instance that conforms to the class -/
theorem clsUn_ref {w : World} {hc : HCfg} (hw : WorldOK w) {b k' : Nat} {rec : Rec}
    (hrec : HookOK b rec) (href : RecRef w hc.cfg.core b 0 k' (okcUn w hc) (fun _ => False) rec) (fuel : Nat)
    (hf : k' ≤ fuel) (st : St) (g : Good b st) (c : Nat) (fs : List (String × HVal)) (fos : List (String × Obj))
    (hS : ∀ x, x ∈ fs.map (·.2) → OP b x) (hd : denoteF st.cells k' fs = some fos)
    (hcf : confF w (w.fields c) fos = true) (hok : OKUF w fos = true) :
    Outcome b st (exec w fuel rec (planClsUn w hc.cfg c fs) st) (k' + 1)
      (some (if hc.cfg.core.tupleStrat then .coll .tuple (unFieldsT w hc.cfg.core (w.fields c) fos)
        else .dict (unFields w hc.cfg.core (w.fields c) fos))) False := by
  rw [planClsUn_core]
  unfold planClsUn
  cases hts : hc.cfg.core.tupleStrat with
  | true =>
    simp only [if_true]
    exact build_un_ref hrec href fuel hf _ _ _ _ st g (tf_clsT w hc (w.fields c) fs fos hS hd hcf hok) _
      (fun y hy => asmPure_coll hy)
  | false =>
    simp only [Bool.false_eq_true, if_false]
    refine build_un_ref hrec href fuel hf _ _ _ _ st g
      (tf_cls w hc (OP.strKey b) (w.fields c) fs fos hS hd hcf hok) _ (fun y hy => ?_)
    rw [asmPure_dict hy, mkDict_nodup (nodup_keys_unFields w _ _ _ (hw c))]

end CattrsModel.Heap
