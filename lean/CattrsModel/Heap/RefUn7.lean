import CattrsModel.Heap.RefUn6
/-!
# Refinement of the unstructure hooks, part 7: dispatch on the declared type (`planUn`)

The two facts about TypedDict hooks (`IdOK`: the identity short-cut is sound; `TDOK`: the patch list computes
`unTD`) are hypotheses here; `RefUn8` proves them.
-/
namespace CattrsModel.Heap
open CattrsModel

/-- soundness of the identity short-cut of the TypedDict hook factory -/
def IdOK (w : World) (hc : HCfg) (n : Nat) : Prop :=
  ∀ (c : Nat) (x : Obj), isIdUn w hc (n + 1) (.td c) = true → conf w (.td c) x = true → OKU w x = true →
    un w hc.cfg.core (.td c) x = x

/-- the patch list of a generated TypedDict hook is well-formed and computes `unTD` -/
def TDOK (w : World) (hc : HCfg) (b n : Nat) : Prop :=
  ∀ (c : Nat) (cs : List Cell) (k0 : Nat) (kvs : List (HVal × HVal)) (kvsO : List (Obj × Obj)),
    denoteKV cs k0 kvs = some kvsO → confTD w (w.fields c) kvsO = true → nodupPy (keysOf kvsO) = true →
    OKUKV w kvsO = true → (∀ x, x ∈ (Cell.dict kvs).children → OP b x) →
    PatchesOK b k0 (okcUn w hc) (denote cs k0) cs (tdUnPatches w hc n c kvs (w.fields c)).1 ∧
    ∀ z, patchPure w hc.cfg.core (denote cs k0) (tdUnPatches w hc n c kvs (w.fields c)).1 kvsO = some z →
      z = unTD w hc.cfg.core (w.fields c) kvsO

local macro "catchall" : tactic =>
  `(tactic| exact ident_ref (Ctx.hrec ‹_›) _ _ ‹Good _ _› ‹ArgOld _ _› ‹denote _ _ _ = some _›
      (by simp only [planUn]) (by simp only [un]))

local macro "leafcases" o:ident hl:ident : tactic =>
  `(tactic| (cases $o:ident <;> first | (exfalso; simp [isLeafObj] at $hl:ident; done) | catchall))

section
variable {w : World} {hc : HCfg} {b Ks n : Nat} {rec : Rec} (cx : Ctx w hc b Ks n rec)
  {st : St} (g : Good b st) {v : HVal} {k : Nat} {o : Obj} (hv : ArgOld b v) (hd : denote st.cells k v = some o)
  {view : Option Cell} (hs : Shp b st k v view o) (hk : k ≤ Ks + 1) (hok : OKU w o = true)
include cx g hv hd hs hk hok

/-- types whose hook is `identity` whatever the argument -/
theorem un_scalar_ref (t : Ty) (ht : t = .int ∨ t = .float ∨ t = .str ∨ t = .bytes ∨ t = .bool) :
    Outcome b st (exec w n rec (planUn w hc n t v view) st) k (some (un w hc.cfg.core t o)) False := by
  rcases ht with rfl | rfl | rfl | rfl | rfl <;>
    (cases hs with
     | leaf k o hl => leafcases o hl
     | _ => catchall)

/-- `Literal[...]`: `identity`, or -- when the literal contains enum members -- `self.unstructure` -/
theorem un_lit_ref (vs : List Obj) :
    Outcome b st (exec w n rec (planUn w hc n (.lit vs) v view) st) k (some (un w hc.cfg.core (.lit vs) o)) False := by
  have hp : planUn w hc n (.lit vs) v view = if litHasEnum vs then planUnAny w hc n v view else .ident v := by
    simp only [planUn]
  have hu : un w hc.cfg.core (.lit vs) o = if litHasEnum vs then unAny w hc.cfg.core o else o := by
    rw [un]
  rw [hp, hu]
  cases litHasEnum vs with
  | true => simp only [if_true]; exact unAny_ref cx g hv hd hs hk hok
  | false =>
    simp only [Bool.false_eq_true, if_false]
    exact exec_ident_ref cx.hrec w n v st g hv k o hd False

theorem un_enum_ref (e : Nat) :
    Outcome b st (exec w n rec (planUn w hc n (.enum e) v view) st) k (some (un w hc.cfg.core (.enum e) o)) False := by
  cases hs with
  | leaf k o hl =>
    cases o with
    | enumM e' m => exact leafProg_ref (r := enumValue w e' m) w n g k (by simp only [planUn]) (by simp only [un])
    | coll => simp [isLeafObj] at hl
    | dict => simp [isLeafObj] at hl
    | inst => simp [isLeafObj] at hl
    | «opaque» => simp [isLeafObj] at hl
    | _ => catchall
  | _ => catchall

theorem un_coll_ref (sk : SK) (t : Ty) (hcf : conf w (.coll sk t) o = true) :
    Outcome b st (exec w n rec (planUn w hc n (.coll sk t) v view) st) k
      (some (un w hc.cfg.core (.coll sk t) o)) False := by
  cases hs with
  | leaf k o hl => leafcases o hl
  | coll k0 l ck xs os hl hcell hos =>
    have hk0 : k0 ≤ Ks := by omega
    have hn : k0 ≤ n := by have := cx.hKs; omega
    simp only [OKU] at hok
    simp only [planUn]
    rw [un_coll]
    cases hgen : hc.cfg.gen with
    | true =>
      have hgen' : hc.cfg.core.gen = true := hgen
      simp only [hgen', if_true]
      exact build_un_ref cx.hrec (cx.href.mono hk0) n hn _ _ _ _ st g
        (tf_map_un w hc t xs os (fun x hx => OP.child g hl hcell hx) hos (conf_coll hcf) hok) _
        (fun y hy => asmPure_coll hy)
    | false =>
      have hgen' : hc.cfg.core.gen = false := hgen
      simp only [hgen', Bool.false_eq_true, if_false]
      exact build_un_ref cx.hrec (cx.href.mono hk0) n hn _ _ _ _ st g
        (tf_map_unAny w hc xs os (fun x hx => OP.child g hl hcell hx) hos hok) _
        (fun y hy => asmPure_coll hy)
  | _ => catchall

theorem un_tupleHet_ref (ts : List Ty) (hcf : conf w (.tupleHet ts) o = true) :
    Outcome b st (exec w n rec (planUn w hc n (.tupleHet ts) v view) st) k
      (some (un w hc.cfg.core (.tupleHet ts) o)) False := by
  cases hs with
  | leaf k o hl => leafcases o hl
  | coll k0 l ck xs os hl hcell hos =>
    have hk0 : k0 ≤ Ks := by omega
    have hn : k0 ≤ n := by have := cx.hKs; omega
    simp only [OKU] at hok
    cases ck with
    | tuple =>
      simp only [planUn]
      rw [un_tupleHet]
      cases hgen : hc.cfg.gen with
      | true =>
        have hgen' : hc.cfg.core.gen = true := hgen
        simp only [hgen', if_true]
        exact build_un_ref cx.hrec (cx.href.mono hk0) n hn _ _ _ _ st g
          (tf_zip_un w hc ts xs os (fun x hx => OP.child g hl hcell hx) hos (conf_tupleHet hcf) hok) _
          (fun y hy => asmPure_coll hy)
      | false =>
        have hgen' : hc.cfg.core.gen = false := hgen
        simp only [hgen', Bool.false_eq_true, if_false]
        exact exec_ident_ref cx.hrec w n _ st g hv _ _ hd False
    | _ => catchall
  | _ => catchall

theorem un_map_ref (mk : MK) (kt vt : Ty) (hcf : conf w (.map mk kt vt) o = true) :
    Outcome b st (exec w n rec (planUn w hc n (.map mk kt vt) v view) st) k
      (some (un w hc.cfg.core (.map mk kt vt) o)) False := by
  cases hs with
  | leaf k o hl => leafcases o hl
  | dict k0 l kvs os hl hcell hos =>
    have hk0 : k0 ≤ Ks := by omega
    have hn : k0 ≤ n := by have := cx.hKs; omega
    simp only [OKU, Bool.and_eq_true] at hok
    simp only [planUn]
    rw [un_map]
    cases hgen : hc.cfg.gen with
    | true =>
      have hgen' : hc.cfg.core.gen = true := hgen
      simp only [hgen', if_true]
      exact build_un_ref cx.hrec (cx.href.mono hk0) n hn _ _ _ _ st g
        (tf_kv_un w hc kt vt kvs os (fun x hx => OP.child g hl hcell hx) hos (conf_map hcf) hok.2) _
        (fun y hy => asmPure_dict hy)
    | false =>
      have hgen' : hc.cfg.core.gen = false := hgen
      simp only [hgen', Bool.false_eq_true, if_false]
      exact build_un_ref cx.hrec (cx.href.mono hk0) n hn _ _ _ _ st g
        (tf_kv_unAny w hc kvs os (fun x hx => OP.child g hl hcell hx) hos hok.2) _
        (fun y hy => asmPure_dict hy)
  | _ => catchall

theorem un_cls_ref (c : Nat) (hcf : conf w (.cls c) o = true) :
    Outcome b st (exec w n rec (planUn w hc n (.cls c) v view) st) k
      (some (un w hc.cfg.core (.cls c) o)) False := by
  cases hs with
  | leaf k o hl => leafcases o hl
  | inst k0 l c' fs os hl hcell hos =>
    have hk0 : k0 ≤ Ks := by omega
    have hn : k0 ≤ n := by have := cx.hKs; omega
    simp only [OKU, Bool.and_eq_true] at hok
    simp only [planUn]
    rw [un_cls]
    exact clsUn_ref cx.hw cx.hrec (cx.href.mono hk0) n hn st g c fs os
      (fun x hx => OP.child g hl hcell hx) hos (conf_cls hcf).2 hok.2
  | _ => catchall

theorem un_nt_ref (c : Nat) (hcf : conf w (.nt c) o = true) :
    Outcome b st (exec w n rec (planUn w hc n (.nt c) v view) st) k
      (some (un w hc.cfg.core (.nt c) o)) False := by
  cases hs with
  | leaf k o hl => leafcases o hl
  | inst k0 l c' fs os hl hcell hos =>
    exfalso
    simp only [OKU, Bool.and_eq_true, Bool.not_eq_true'] at hok
    obtain ⟨rfl, hnt⟩ := conf_nt hcf
    rw [hnt] at hok
    exact Bool.noConfusion hok.1.1
  | _ => catchall
end

end CattrsModel.Heap
