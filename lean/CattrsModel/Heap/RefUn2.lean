import CattrsModel.Heap.RefUn1
/-!
# Refinement of the unstructure hooks, part 2: the precondition `OKU` / `okcUn`; one-step equations of the pure model
-/
namespace CattrsModel.Heap
open CattrsModel

mutual
/-- what the refinement of the unstructure hooks needs of an argument, at every depth: no NamedTuple instance,
every instance is a conforming instance of its class, dict payloads have pairwise non-`==` keys -/
def OKU (w : World) : Obj → Bool
  | .coll _ xs => OKUL w xs
  | .dict kvs => nodupPy (keysOf kvs) && OKUKV w kvs
  | .inst c fs => !w.isNT c && confF w (w.fields c) fs && OKUF w fs
  | _ => true
termination_by structural x => x
def OKUL (w : World) : List Obj → Bool
  | [] => true
  | x :: xs => OKU w x && OKUL w xs
termination_by structural x => x
def OKUKV (w : World) : List (Obj × Obj) → Bool
  | [] => true
  | (k, v) :: rest => OKU w k && OKU w v && OKUKV w rest
termination_by structural x => x
def OKUF (w : World) : List (String × Obj) → Bool
  | [] => true
  | (_, v) :: rest => OKU w v && OKUF w rest
termination_by structural x => x
end

/-- the precondition of a sub-hook call of the unstructure direction -/
def okcUn (w : World) (_hc : HCfg) : Call → Obj → Prop
  | .un t, o => conf w t o = true ∧ OKU w o = true
  | .unAny, o => OKU w o = true
  | .pass, _ => True
  | .st _, _ => False
  | .fresh _, _ => False

/-- field names of every class are pairwise distinct -/
def WorldOK (w : World) : Prop := ∀ c, ((w.fields c).map (·.name)).Nodup

/-! ### `conf`, one step -/

theorem conf_coll {w : World} {k t ck xs} (h : conf w (.coll k t) (.coll ck xs) = true) : confL w t xs = true := by
  simp only [conf, Bool.and_eq_true] at h
  exact h.1.2

theorem conf_tupleHet {w : World} {ts xs} (h : conf w (.tupleHet ts) (.coll .tuple xs) = true) :
    confT w ts xs = true := by
  simpa only [conf] using h

theorem conf_map {w : World} {mk kt vt kvs} (h : conf w (.map mk kt vt) (.dict kvs) = true) :
    confKV w kt vt kvs = true := by
  simp only [conf, Bool.and_eq_true] at h
  exact h.1.1.1

theorem conf_cls {w : World} {c c' fs} (h : conf w (.cls c) (.inst c' fs) = true) :
    c = c' ∧ confF w (w.fields c) fs = true := by
  simp only [conf, Bool.and_eq_true, beq_iff_eq] at h
  exact h

theorem conf_td {w : World} {c kvs} (h : conf w (.td c) (.dict kvs) = true) : confTD w (w.fields c) kvs = true := by
  simpa only [conf] using h

theorem conf_nt {w : World} {c c' fs} (h : conf w (.nt c) (.inst c' fs) = true) : c = c' ∧ w.isNT c = true := by
  simp only [conf, Bool.and_eq_true, beq_iff_eq] at h
  exact ⟨h.1.1.1, h.1.1.2⟩

theorem conf_wrap {w : World} {k t x} : conf w (.wrap k t) x = conf w t x := by
  cases x <;> simp only [conf]

theorem conf_opt {w : World} {t x} (hx : x ≠ .none) : conf w (.opt t) x = conf w t x := by
  cases x <;> first | exact absurd rfl hx | simp only [conf]

/-! ### `un` / `unAny`, one step -/

theorem un_any (w : World) (cfg : Cfg) (x : Obj) : un w cfg .any x = unAny w cfg x := by
  cases x <;> simp only [un]

theorem un_union (w : World) (cfg : Cfg) (cs hn) (x : Obj) : un w cfg (.union cs hn) x = unAny w cfg x := by
  cases x <;> simp only [un]

theorem un_wrap (w : World) (cfg : Cfg) (k t) (x : Obj) :
    un w cfg (.wrap k t) x = if cfg.gen || k == .final || k == .alias then un w cfg t x else x := by
  cases x <;> simp only [un]

theorem un_opt_none (w : World) (cfg : Cfg) (t) : un w cfg (.opt t) .none = .none := by
  simp only [un]

theorem un_opt (w : World) (cfg : Cfg) (t) {x : Obj} (hx : x ≠ .none) :
    un w cfg (.opt t) x = if cfg.gen then un w cfg t x else unAny w cfg x := by
  cases x <;> first | exact absurd rfl hx | simp only [un]

theorem un_coll (w : World) (cfg : Cfg) (k t ck xs) :
    un w cfg (.coll k t) (.coll ck xs) =
      if cfg.gen then mkColl k.unstructTo (unL w cfg t xs) else mkColl ck (unAnyL w cfg xs) := by
  simp only [un]

theorem un_tupleHet (w : World) (cfg : Cfg) (ts xs) :
    un w cfg (.tupleHet ts) (.coll .tuple xs) =
      if cfg.gen then .coll .tuple (unT w cfg ts xs) else .coll .tuple xs := by
  simp only [un]

theorem un_map (w : World) (cfg : Cfg) (mk kt vt kvs) :
    un w cfg (.map mk kt vt) (.dict kvs) =
      if cfg.gen then .dict (mkDict (unKV w cfg kt vt kvs)) else .dict (mkDict (unAnyKV w cfg kvs)) := by
  simp only [un]

theorem un_cls (w : World) (cfg : Cfg) (c c' fs) :
    un w cfg (.cls c) (.inst c' fs) =
      if cfg.tupleStrat then .coll .tuple (unFieldsT w cfg (w.fields c) fs)
      else .dict (unFields w cfg (w.fields c) fs) := by
  simp only [un]

theorem un_td (w : World) (cfg : Cfg) (c kvs) :
    un w cfg (.td c) (.dict kvs) =
      if cfg.gen then .dict (unTD w cfg (w.fields c) kvs) else .dict (mkDict (unAnyKV w cfg kvs)) := by
  simp only [un]

theorem unAny_coll (w : World) (cfg : Cfg) (ck xs) :
    unAny w cfg (.coll ck xs) = mkColl (if cfg.gen then ck.anyTo else ck) (unAnyL w cfg xs) := by
  simp only [unAny]

theorem unAny_dict (w : World) (cfg : Cfg) (kvs) :
    unAny w cfg (.dict kvs) = .dict (mkDict (unAnyKV w cfg kvs)) := by
  simp only [unAny]

theorem unAny_inst (w : World) (cfg : Cfg) (c fs) (h : w.isNT c = false) :
    unAny w cfg (.inst c fs) =
      if cfg.tupleStrat then .coll .tuple (unFieldsT w cfg (w.fields c) fs)
      else .dict (unFields w cfg (w.fields c) fs) := by
  simp only [unAny, h, Bool.false_eq_true, if_false]

theorem unAny_enum (w : World) (cfg : Cfg) (e m) : unAny w cfg (.enumM e m) = enumValue w e m := by
  simp only [unAny]

theorem unAny_opaque (w : World) (cfg : Cfg) (n) : unAny w cfg (.opaque n) = .opaque n := by
  simp only [unAny]

/-- a leaf object that is not an enum member is left alone by run-time-class dispatch -/
theorem unAny_leaf (w : World) (cfg : Cfg) {o : Obj} (hl : isLeafObj o = true) (he : ∀ e m, o ≠ .enumM e m) :
    unAny w cfg o = o := by
  cases o <;> first | exact absurd rfl (he _ _) | (simp [isLeafObj] at hl; done) | simp only [unAny]

end CattrsModel.Heap
