import CattrsModel.Heap.RefInject
/-!
# Refinement, part 5: the programs `build`, `fresh`, `leaf`, `ident`, `fail`, `unmodelled`
-/
namespace CattrsModel.Heap
open CattrsModel

/-- the pure counterpart of `Prog.build` -/
def buildPure (w : World) (cfg : Cfg) (doomed : Bool) (sh : Shape) (tasks : List (Call × HVal)) (os : List Obj) :
    Option Obj :=
  if doomed then none else (pureTasks w cfg tasks os).bind (asmPure w sh)

/-- what a refinement step establishes about one program run -/
structure Outcome (b : Nat) (st : St) (res : Option HVal × St) (k : Nat) (pure : Option Obj) (total : Prop) : Prop where
  ev : Ev b st.cells.length st res.2
  ok : ∀ r, res.1 = some r → ∃ y, pure = some y ∧ denote res.2.cells k r = some y
  /-- a failed run that stayed inside the modelled fragment (`unmod` not set: no `str` / `bytes` payload was iterated)
  means the pure model rejects -/
  err : res.1 = none → total → res.2.unmod = false → pure = none

theorem exec_build_ref {w : World} {cfg : Cfg} {b W K : Nat} {okc : Call → Obj → Prop} {tot : Call → Prop}
    {rec : Rec} (hrec : HookOK b rec) (href : RecRef w cfg b W K okc tot rec) (fuel : Nat) (hf : K + W ≤ fuel)
    (det doomed : Bool) (sh : Shape) (tasks : List (Call × HVal)) (os : List Obj) (st : St) (g : Good b st)
    (hargs : ∀ t, t ∈ tasks → ArgOld b t.2 ∧ Proper t.2) (hd : TasksDen K okc st.cells tasks os) :
    Outcome b st (exec w fuel rec (.build det doomed sh tasks) st) (K + W + 1)
      (buildPure w cfg doomed sh tasks os) (∀ t, t ∈ tasks → tot t.1) := by
  have hwf : (Prog.build det doomed sh tasks).WF b := by
    intro x hx
    simp only [Prog.vals, List.mem_map] at hx
    obtain ⟨t, ht, rfl⟩ := hx
    exact (hargs t ht).1
  have hev := (exec_spec hrec w fuel (.build det doomed sh tasks) st.cells.length rfl hwf st g.oc g.le
    (Nat.le_refl _) g.inv).1
  have hrt := runTasks_ref hrec href det tasks os st g hargs hd
  refine ⟨hev, ?_, ?_⟩ <;> clear hev
  ·
    unfold exec buildLoc
    simp only [Heap.bind]
    cases hr : runTasks rec det tasks st with
    | mk r st1 =>
    rw [hr] at hrt
    simp only at hrt ⊢
    cases r with
    | none =>
      simp only
      intro r h; simp at h
    | some ys =>
      obtain ⟨ps, hps, hdl⟩ := hrt.2.1 ys rfl
      cases doomed with
      | true =>
        simp only [if_true, Heap.raise]
        intro r h; simp at h
      | false =>
        simp only [Bool.false_eq_true, if_false, Heap.bind]
        have has := assemble_ref w fuel (K + W) hf sh ys ps st1 hdl
        have hst := assemble_state w fuel sh ys st1
        cases ha : assemble w fuel sh ys st1 with
        | mk ca sa =>
        rw [ha] at has hst
        simp only at has hst ⊢
        subst hst
        cases ca with
        | none =>
          simp only
          intro r h; simp at h
        | some c =>
          obtain ⟨y, hy, hcd⟩ := has.1 c rfl
          have hal := alloc_den c sa (K + W) y hcd
          simp only [Heap.ret]
          intro r h
          simp only [Heap.alloc, Option.some.injEq] at h
          subst h
          exact ⟨y, by simp only [buildPure, Bool.false_eq_true, if_false, hps, Option.bind_some, hy],
            hal.2.2.2⟩
  ·
    unfold exec buildLoc
    simp only [Heap.bind]
    cases hr : runTasks rec det tasks st with
    | mk r st1 =>
    rw [hr] at hrt
    simp only at hrt ⊢
    cases r with
    | none =>
      simp only
      intro _ htot hu; simp only [buildPure, hrt.2.2 rfl htot hu, Option.bind_none, ite_self]
    | some ys =>
      obtain ⟨ps, hps, hdl⟩ := hrt.2.1 ys rfl
      cases doomed with
      | true =>
        simp only [if_true, Heap.raise]
        intro _ _ _; simp only [buildPure, if_true]
      | false =>
        simp only [Bool.false_eq_true, if_false, Heap.bind]
        have has := assemble_ref w fuel (K + W) hf sh ys ps st1 hdl
        have hst := assemble_state w fuel sh ys st1
        cases ha : assemble w fuel sh ys st1 with
        | mk ca sa =>
        rw [ha] at has hst
        simp only at has hst ⊢
        subst hst
        cases ca with
        | none =>
          simp only
          intro _ _ _; simp only [buildPure, Bool.false_eq_true, if_false, hps, Option.bind_some, has.2 rfl]
        | some c =>
          obtain ⟨y, hy, hcd⟩ := has.1 c rfl
          have hal := alloc_den c sa (K + W) y hcd
          simp only [Heap.ret]
          intro h; simp [Heap.alloc] at h

theorem exec_leaf_ref {b : Nat} (w : World) (fuel : Nat) (rec : Rec) (o : Obj) (st : St) (g : Good b st) (k : Nat)
    (total : Prop) : Outcome b st (exec w fuel rec (.leaf o) st) k (some o) total := by
  unfold exec
  exact ⟨Ev.refl g.le st, fun r h => by
    simp only [Heap.ret, Option.some.injEq] at h; subst h; exact ⟨o, rfl, denote_leaf _ _ _⟩,
    fun h => by simp [Heap.ret] at h⟩

theorem exec_fail_ref {b : Nat} (w : World) (fuel : Nat) (rec : Rec) (st : St) (g : Good b st) (k : Nat)
    (total : Prop) : Outcome b st (exec w fuel rec .fail st) k none total := by
  unfold exec
  exact ⟨Ev.refl g.le st, fun r h => by simp [Heap.raise] at h, fun _ _ _ => rfl⟩

/-- a run that leaves the modelled fragment sets the ghost flag `unmod`: it says nothing about the pure model (whatever
`pure` is) -/
theorem exec_unmodelled_ref {b : Nat} (w : World) (fuel : Nat) (rec : Rec) (st : St) (g : Good b st) (k : Nat)
    {pure : Option Obj} (total : Prop) : Outcome b st (exec w fuel rec .unmodelled st) k pure total := by
  unfold exec
  exact ⟨⟨g.le, Nat.le_refl _, fun _ _ => rfl, fun _ h => h, fun _ h => Or.inl h, fun _ _ h => h,
    fun h => ⟨h.rawB, h.edges⟩, fun _ => rfl⟩, fun r h => by simp at h, fun _ _ h => by simp at h⟩

theorem exec_ident_ref {b : Nat} {rec : Rec} (hrec : HookOK b rec) (w : World) (fuel : Nat) (v : HVal) (st : St)
    (g : Good b st) (hv : ArgOld b v) (k : Nat) (o : Obj) (hden : denote st.cells k v = some o) (total : Prop) :
    Outcome b st (exec w fuel rec (.ident v) st) k (some o) total := by
  have hwf : (Prog.ident v).WF b := by
    intro x hx; simp only [Prog.vals, List.mem_singleton] at hx; subst hx; exact hv
  have hev := (exec_spec hrec w fuel (.ident v) st.cells.length rfl hwf st g.oc g.le (Nat.le_refl _) g.inv).1
  refine ⟨hev, fun r h => ?_, fun h => ?_⟩
  · have hp := Pre.of_ev hev
    have hr : r = v := by
      unfold exec at h
      cases v <;> simp [Heap.bind, Heap.logIdent, Heap.ret] at h <;> exact h.symm
    subst hr
    exact ⟨o, rfl, denote_pre hp hden⟩
  · unfold exec at h
    cases v <;> simp [Heap.bind, Heap.logIdent, Heap.ret] at h

theorem exec_fresh_ref {b : Nat} {rec : Rec} (hrec : HookOK b rec) (w : World) (fuel : Nat) (o : Obj) (st : St)
    (g : Good b st) (k : Nat) (hk : hd o ≤ k) (total : Prop) :
    Outcome b st (exec w fuel rec (.fresh o) st) k (some o) total := by
  have hwf : (Prog.fresh o).WF b := by intro x hx; simp [Prog.vals] at hx
  have hev := (exec_spec hrec w fuel (.fresh o) st.cells.length rfl hwf st g.oc g.le (Nat.le_refl _) g.inv).1
  obtain ⟨v, st', hi, _, hdn⟩ := inject_den o st
  refine ⟨hev, fun r h => ?_, fun h => ?_⟩
  · unfold exec at h ⊢
    rw [hi] at h ⊢
    simp only [Option.some.injEq] at h
    subst h
    exact ⟨o, rfl, hdn k hk⟩
  · unfold exec at h
    rw [hi] at h
    simp at h

theorem Outcome.mono {b : Nat} {st : St} {res : Option HVal × St} {k k' : Nat} {pure : Option Obj} {total : Prop}
    (h : Outcome b st res k pure total) (hk : k ≤ k') : Outcome b st res k' pure total :=
  ⟨h.ev, fun r hr => by obtain ⟨y, hy, hd⟩ := h.ok r hr; exact ⟨y, hy, denote_mono hk hd⟩, h.err⟩

theorem Outcome.pure_eq {b : Nat} {st : St} {res : Option HVal × St} {k : Nat} {p p' : Option Obj} {total : Prop}
    (h : Outcome b st res k p total) (hp : p = p') : Outcome b st res k p' total := hp ▸ h

theorem Outcome.weaken {b : Nat} {st : St} {res : Option HVal × St} {k : Nat} {p : Option Obj} {t t' : Prop}
    (h : Outcome b st res k p t) (ht : t' → t) : Outcome b st res k p t' :=
  ⟨h.ev, h.ok, fun hr h' => h.err hr (ht h')⟩

end CattrsModel.Heap
