import CattrsModel.Heap.Plan
/-!
# Planning the structure hooks, and the late-bound interpreter `run`
-/
namespace CattrsModel.Heap
open CattrsModel

/-- what iterating the argument yields (`for e in obj`); `none`: not iterable / not modelled -/
def itemsOf : Option Cell → Option (List HVal)
  | some (.coll _ xs) => some xs
  | some (.dict kvs) => some (kvs.map (·.1))
  | _ => none

/-- iterating a `str` / `bytes` payload is outside the modelled fragment -/
def noItems (v : HVal) : Prog :=
  match v with
  | .leaf (.str _) | .leaf (.bytes _) => .unmodelled
  | _ => .fail

def dfltTask (f : Field) : Option (Call × HVal) :=
  f.dflt.value?.map fun d => (Call.fresh d, HVal.leaf .none)

/-- class hooks reading a mapping by key (generated and interpretive agree on what is read):
tasks in declaration order and "a required key is missing" -/
def clsStTasks : List Field → List (HVal × HVal) → List (Call × HVal) × Bool
  | [], _ => ([], false)
  | f :: fds, kvs =>
    let (ts, doomed) := clsStTasks fds kvs
    let viaDefault := match dfltTask f with
      | some t => (t :: ts, doomed)
      | none => (ts, true)
    if !f.init then viaDefault
    else match lookupS kvs f.name with
      | some x => ((fieldCallSt f, x) :: ts, doomed)
      | none => viaDefault

/-- tuple strategy: fields zipped with the items -/
def clsStTasksT : List Field → List HVal → List (Call × HVal) × Bool
  | [], _ => ([], false)
  | f :: fds, [] =>
    let (ts, doomed) := clsStTasksT fds []
    match dfltTask f with
    | some t => (t :: ts, doomed)
    | none => (ts, true)
  | f :: fds, x :: xs =>
    let (ts, doomed) := clsStTasksT fds xs
    if !f.init then
      match dfltTask f with
      | some t => (t :: ts, doomed)
      | none => (ts, true)
    else ((fieldCallSt f, x) :: ts, doomed)

def keyStrs (kvs : List (HVal × HVal)) (allowed : List String) : Bool :=
  kvs.all (fun kv => allowed.any (fun s => keyIs kv.1 s))

def planClsSt (w : World) (cfg : Cfg) (c : Nat) (v : HVal) (view : Option Cell) (obj : Option Obj) : Prog :=
  let fds := w.fields c
  let names := fds.map (·.name)
  if cfg.tupleStrat then
    match itemsOf view with
    | some xs => let (ts, doomed) := clsStTasksT fds xs
                 .build false doomed (.inst c names) ts          -- interpretive: first error propagates
    | none => noItems v
  else match view with
    | some (.dict kvs) =>
        let (ts, doomed) := clsStTasks fds kvs
        let extra := cfg.gen && cfg.forbid && !keyStrs kvs ((initFields fds).map (·.name))
        .build (cfg.gen && cfg.detailed) (doomed || extra) (.inst c names) ts
    | _ =>
        -- not a mapping: only an all-defaults instance can come out; decided by the pure model
        match obj with
        | some o => match convStructure w cfg (.cls c) o with
          | some r => .fresh r
          | none => .fail
        | none => .fail

/-- body of `make_dict_structure_fn` (typeddicts.py L322-512) on a mapping with entries `kvs` -/
def tdStPatches (hc : HCfg) (c : Nat) (kvs : List (HVal × HVal)) : List Field → List Patch × Bool × List String
  | [] => ([], false, [])
  | f :: fds =>
    let (ps, doomed, allowed) := tdStPatches hc c kvs fds
    let (rename, skip) := hc.ovrOf c f.name
    if skip then (ps, doomed, allowed)
    else
      let kn := rename.getD f.name
      let dels := if rename.isSome then [kn] else []
      match lookupS kvs kn with
      | some x => ({ dels := dels, call := some (fieldCallSt f, x, f.name) } :: ps, doomed, kn :: allowed)
      | none => (ps, doomed || f.required, kn :: allowed)

def planSt (w : World) (hc : HCfg) : Ty → HVal → Option Cell → Option Obj → Prog
  | .any, v, _, _ => .ident v
  | .coll k t, v, view, _ =>
      match itemsOf view with
      | some xs => .build hc.cfg.detailed false (.coll k.structTo) (xs.map fun x => (.st t, x))
      | none => noItems v
  | .tupleHet ts, v, view, _ =>
      match itemsOf view with
      | some xs => .build hc.cfg.detailed (xs.length != ts.length) (.coll .tuple) (zipTasks (ts.map .st) xs)
      | none => noItems v
  -- NamedTuple: the heterogeneous-tuple hook over the field types, then `cl(*res)` (a new instance)
  | .nt c, v, view, _ =>
      if w.isNT c then
        match itemsOf view with
        | some xs => .build hc.cfg.detailed (xs.length != (w.ntTys c).length) (.inst c (w.ntNames c))
                       (zipTasks ((w.ntTys c).map .st) xs)
        | none => noItems v
      else .fail
  | .map _ kt vt, _, some (.dict kvs), _ => .build hc.cfg.detailed false .dict (kvTasks (.st kt) (.st vt) kvs)
  | .map _ _ _, _, some _, _ => .unmodelled            -- `dict(iterable of pairs)`
  | .map _ _ _, v, none, _ => noItems v
  | .opt _, .leaf .none, _, _ => .leaf .none
  | .opt t, v, view, obj => planSt w hc t v view obj
  | .wrap _ t, v, view, obj => planSt w hc t v view obj
  | .cls c, v, view, obj => planClsSt w hc.cfg c v view obj
  | .td c, v, some (.dict kvs), _ =>
      if !hc.cfg.gen then .fail
      else match v with
        | .ref l =>
          let (ps, doomed, allowed) := tdStPatches hc c kvs (w.fields c)
          .copyPatch hc.cfg.detailed (doomed || (hc.cfg.forbid && !keyStrs kvs allowed)) false l kvs ps
        | _ => .fail
  | .td _, _, _, _ => .fail
  -- `structure_attrs_union`: the decision function only reads the payload; the hook of the chosen class does
  -- all the building (the union hook builds nothing itself)
  | .union cs hn, v, view, obj =>
      match obj with
      | some o => match unionPick w cs hn o with
        | .ok m => if cs.contains m then planClsSt w hc.cfg m v view obj else .fail   -- (the decision function only names members)
        | .none => .leaf .none
        | _ => .fail
      | none => .fail
  -- builtin leaf coercions (`int(x)`, `str(x)`, `Enum(x)`, literal membership …): the pure model
  -- says whether they raise; what they return is immutable
  | t, _, _, obj =>
      match obj with
      | some o => match stF w hc.cfg.core t o with
        | some r => if isLeafObj r then .leaf r else .fail
        | none => .fail
      | none => .fail

def plan (w : World) (hc : HCfg) (n : Nat) (call : Call) (v : HVal) (view : Option Cell) (obj : Option Obj) : Prog :=
  match call with
  | .un t => planUn w hc n t v view
  | .unAny => planUnAny w hc n v view
  | .st t => planSt w hc t v view obj
  | .pass => .ident v
  | .fresh o => .fresh o

def viewOf (st : St) : HVal → Option Cell
  | .ref l => st.cells[l]?
  | .leaf _ => none

/-- the interpreter: fuel bounds the nesting depth (exhaustion = `RecursionError`) -/
def run (w : World) (hc : HCfg) : Nat → Rec
  | 0 => fun _ _ => raise
  | n + 1 => fun call v st =>
      exec w n (run w hc n) (plan w hc n call v (viewOf st v) (denote st.cells n v)) st

end CattrsModel.Heap
