import CattrsModel.Heap.PlanLemmas2
/-!
# `plan` lemmas, part 3: the planners themselves
-/
namespace CattrsModel.Heap
open CattrsModel

theorem planClsUn_planned (w : World) (cfg : Cfg) (c c' : Nat) (fs : List (String × HVal)) (v : HVal) :
    Planned v (some (.inst c' fs)) (planClsUn w cfg c fs) := by
  unfold planClsUn
  split
  · exact Planned.build _ _ _ _ (fun x hx => Or.inr (Or.inl ⟨_, rfl, clsUnTasksT_vals _ _ x hx⟩))
  · refine Planned.build _ _ _ _ (fun x hx => ?_)
    rcases clsUnTasks_vals cfg _ _ x hx with h | h
    · exact Or.inr (Or.inr h)
    · exact Or.inr (Or.inl ⟨_, rfl, h⟩)

theorem planNTUn_planned (w : World) (hc : HCfg) (n c c' : Nat) (fs : List (String × HVal)) (v : HVal) :
    Planned v (some (.inst c' fs)) (planNTUn w hc n c v fs) := by
  unfold planNTUn
  split
  · exact Planned.build _ _ _ _ (fun x hx => Or.inr (Or.inl ⟨_, rfl, zipTasks_vals _ _ x hx⟩))
  · exact Planned.ident v _

theorem planUnAny_planned (w : World) (hc : HCfg) (n : Nat) (v : HVal) (view : Option Cell) :
    Planned v view (planUnAny w hc n v view) := by
  unfold planUnAny
  simp only []
  split
  · exact Planned.build _ _ _ _ (fun x hx => Or.inr (Or.inl ⟨_, rfl, mapTasks_vals _ _ x hx⟩))
  · exact Planned.build _ _ _ _ (fun x hx => Or.inr (Or.inl ⟨_, rfl, kvTasks_vals _ _ _ x hx⟩))
  · split
    · exact planNTUn_planned w hc n _ _ _ v
    · exact planClsUn_planned w hc.cfg _ _ _ v
  · exact Planned.ident v _
  · split
    · exact Planned.trivial rfl rfl
    · exact Planned.ident v _

theorem planUn_planned (w : World) (hc : HCfg) (n : Nat) (t : Ty) (v : HVal) (view : Option Cell) :
    Planned v view (planUn w hc n t v view) := by
  fun_induction planUn w hc n t v view
  all_goals first
    | exact planUnAny_planned w _ _ _ _
    | exact planNTUn_planned w _ _ _ _ _ _
    | exact Planned.ident _ _
    | exact Planned.trivial rfl rfl
    | assumption
    | exact planClsUn_planned w _ _ _ _ _
    | exact Planned.build _ _ _ _ (fun x hx => Or.inr (Or.inl ⟨_, rfl, mapTasks_vals _ _ x hx⟩))
    | exact Planned.build _ _ _ _ (fun x hx => Or.inr (Or.inl ⟨_, rfl, kvTasks_vals _ _ _ x hx⟩))
    | exact Planned.build _ _ _ _ (fun x hx => Or.inr (Or.inl ⟨_, rfl, zipTasks_vals _ _ x hx⟩))
    | skip
  rename_i c kvs _ _ l ps doomed hps
  have := tdUnPatches_args w hc n c kvs (w.fields c)
  rw [hps] at this
  exact Planned.copyPatch _ _ _ this

theorem noItems_planned (v v' : HVal) (view : Option Cell) : Planned v view (noItems v') := by
  unfold noItems
  split <;> exact Planned.trivial rfl rfl

theorem planClsSt_planned (w : World) (cfg : Cfg) (c : Nat) (v v' : HVal) (view : Option Cell) (obj : Option Obj) :
    Planned v view (planClsSt w cfg c v' view obj) := by
  unfold planClsSt
  simp only []
  split
  · split
    · rename_i xs hxs
      refine Planned.build _ _ _ _ (fun x hx => ?_)
      rcases clsStTasksT_vals _ _ x hx with h | h
      · exact Or.inr (Or.inr h)
      · exact Or.inr (Or.inl (itemsOf_mem hxs x h))
    · exact noItems_planned _ _ _
  · split
    · refine Planned.build _ _ _ _ (fun x hx => ?_)
      rcases clsStTasks_vals _ _ x hx with h | h
      · exact Or.inr (Or.inr h)
      · exact Or.inr (Or.inl ⟨_, rfl, h⟩)
    · repeat' split
      all_goals exact Planned.trivial rfl rfl

theorem planSt_planned (w : World) (hc : HCfg) (t : Ty) (v : HVal) (view : Option Cell) (obj : Option Obj) :
    Planned v view (planSt w hc t v view obj) := by
  fun_induction planSt w hc t v view obj
  all_goals first
    | exact Planned.ident _ _
    | exact Planned.trivial rfl rfl
    | assumption
    | exact planClsSt_planned w _ _ _ _ _ _
    | exact noItems_planned _ _ _
    | exact Planned.build _ _ _ _ (fun x hx => Or.inr (Or.inl ⟨_, rfl, kvTasks_vals _ _ _ x hx⟩))
    | (rename_i hxs; exact Planned.build _ _ _ _ (fun x hx => Or.inr (Or.inl (itemsOf_mem hxs x (mapTasks_vals _ _ x hx)))))
    | (rename_i hxs; exact Planned.build _ _ _ _ (fun x hx => Or.inr (Or.inl (itemsOf_mem hxs x (zipTasks_vals _ _ x hx)))))
    | skip
  rename_i c kvs _ _ l ps doomed allowed hps
  have := tdStPatches_args hc c kvs (w.fields c)
  rw [hps] at this
  exact Planned.copyPatch _ _ _ this

theorem plan_planned (w : World) (hc : HCfg) (n : Nat) (call : Call) (v : HVal) (view : Option Cell)
    (obj : Option Obj) : Planned v view (plan w hc n call v view obj) := by
  unfold plan
  split
  · exact planUn_planned w hc n _ v view
  · exact planUnAny_planned w hc n v view
  · exact planSt_planned w hc _ v view obj
  · exact Planned.ident v view
  · exact Planned.trivial rfl rfl


end CattrsModel.Heap
