import CattrsModel.Heap.RefSt2
/-!
# Refinement, structuring (3): tuple strategy, forbidden extra keys, TypedDict patches, all-defaults instances
-/
namespace CattrsModel.Heap
open CattrsModel

theorem stFFieldsT_nil (w : World) (cfg : Cfg) (f : Field) (fds : List Field) :
    stFFieldsT w cfg (f :: fds) [] = dfltStep f (stFFieldsT w cfg fds []) := by
  rw [stFFieldsT]; simp only [dfltStep]; cases f.dflt.value? <;> rfl

theorem stFFieldsT_noinit (w : World) (cfg : Cfg) (f : Field) (fds : List Field) (x : Obj) (xs : List Obj)
    (h : f.init = false) : stFFieldsT w cfg (f :: fds) (x :: xs) = dfltStep f (stFFieldsT w cfg fds xs) := by
  rw [stFFieldsT]; simp only [h, Bool.not_false, if_true, dfltStep]; cases f.dflt.value? <;> rfl

theorem stFFieldsT_init (w : World) (cfg : Cfg) (f : Field) (fds : List Field) (x : Obj) (xs : List Obj)
    (h : f.init = true) : stFFieldsT w cfg (f :: fds) (x :: xs) = convStep w cfg f x (stFFieldsT w cfg fds xs) := by
  rw [stFFieldsT]; simp only [h, Bool.not_true, Bool.false_eq_true, if_false, convStep, callPure_field]
  cases f.ty with
  | none => rfl
  | some t => simp only []; cases stF w cfg t x <;> rfl

theorem clsStTasksT_nil (f : Field) (fds : List Field) :
    clsStTasksT (f :: fds) [] = viaDflt f (clsStTasksT fds []) := by
  simp only [clsStTasksT, viaDflt]; cases dfltTask f <;> rfl

theorem clsStTasksT_noinit (f : Field) (fds : List Field) (x : HVal) (xs : List HVal) (h : f.init = false) :
    clsStTasksT (f :: fds) (x :: xs) = viaDflt f (clsStTasksT fds xs) := by
  simp only [clsStTasksT, h, Bool.not_false, if_true, viaDflt]; cases dfltTask f <;> rfl

theorem clsStTasksT_init (f : Field) (fds : List Field) (x : HVal) (xs : List HVal) (h : f.init = true) :
    clsStTasksT (f :: fds) (x :: xs) = ((fieldCallSt f, x) :: (clsStTasksT fds xs).1, (clsStTasksT fds xs).2) := by
  simp only [clsStTasksT, h, Bool.not_true, Bool.false_eq_true, if_false]

/-- **class hook, tuple strategy** -/
theorem clsStTasksT_ref (w : World) (cfg : Cfg) {cs : List Cell} {K : Nat} :
    ∀ (fds : List Field) (xs : List HVal) (os : List Obj), FieldsOK w fds → denoteL cs K xs = some os →
      ∃ os', TasksDen K (okcSt w) cs (clsStTasksT fds xs).1 os' ∧
        stFFieldsT w cfg fds os = fieldsPure w cfg (clsStTasksT fds xs).2 (fds.map (·.name)) (clsStTasksT fds xs).1 os' ∧
        (∀ t, t ∈ (clsStTasksT fds xs).1 → ArgSrc xs t.2)
  | [], xs, os, _, _ => ⟨[], by simp only [clsStTasksT]; trivial, by rw [stFFieldsT]; simp [clsStTasksT, fieldsPure, pureTasks],
      fun t h => by simp [clsStTasksT] at h⟩
  | f :: fds, [], os, hok, hd => by
    rw [denoteL_nil] at hd; cases hd
    obtain ⟨os', hden, heq, hsrc⟩ := clsStTasksT_ref w cfg fds [] [] hok.tail (denoteL_nil _ _)
    simp only [List.map_cons]
    rw [stFFieldsT_nil, clsStTasksT_nil]
    exact dflt_step (hok f (List.mem_cons_self ..)).1 hden heq hsrc
  | f :: fds, x :: xs, os, hok, hd => by
    obtain ⟨o, r, rfl, ho, hr⟩ := denoteL_cons_some.1 hd
    obtain ⟨os', hden, heq, hsrc⟩ := clsStTasksT_ref w cfg fds xs r hok.tail hr
    have hsrc' : ∀ t, t ∈ (clsStTasksT fds xs).1 → ArgSrc (x :: xs) t.2 :=
      fun t ht => (hsrc t ht).imp (List.mem_cons_of_mem _) id
    simp only [List.map_cons]
    cases hinit : f.init with
    | false =>
      rw [stFFieldsT_noinit w cfg f fds o r hinit, clsStTasksT_noinit f fds x xs hinit]
      exact dflt_step (hok f (List.mem_cons_self ..)).1 hden heq hsrc'
    | true =>
      rw [stFFieldsT_init w cfg f fds o r hinit, clsStTasksT_init f fds x xs hinit]
      exact ⟨o :: os', conv_step (hok f (List.mem_cons_self ..)).2 hden heq hsrc' ho (List.mem_cons_self ..)⟩

/-! ### `forbid_extra_keys` -/

theorem any_keyIs_memPy {cs : List Cell} {k : Nat} {kx : HVal} {ko : Obj} (h : denote cs k kx = some ko) :
    ∀ (allowed : List String), allowed.any (fun s => keyIs kx s) = Obj.memPy ko (allowed.map Obj.str)
  | [] => rfl
  | s :: ss => by
    simp only [List.any_cons, List.map_cons, Obj.memPy, keyIs_pyEq h s, Obj.pyEq_symm (Obj.str s) ko,
      any_keyIs_memPy h ss]

theorem keyStrs_den {cs : List Cell} {k : Nat} (allowed : List String) :
    ∀ (kvs : List (HVal × HVal)) (okvs : List (Obj × Obj)), denoteKV cs k kvs = some okvs →
      keyStrs kvs allowed = (extraKeys (allowed.map Obj.str) okvs).isEmpty
  | [], okvs, h => by rw [denoteKV_nil] at h; cases h; rfl
  | (kx, vx) :: rest, okvs, h => by
    obtain ⟨a, b, r, rfl, ha, _, hr⟩ := denoteKV_cons_some.1 h
    have ih := keyStrs_den allowed rest r hr
    unfold keyStrs at ih ⊢
    unfold extraKeys at ih ⊢
    simp only [List.all_cons, keysOf, List.map_cons, List.filter_cons, any_keyIs_memPy ha allowed, ih]
    cases Obj.memPy a (allowed.map Obj.str) <;> simp

/-! ### TypedDict structure hook -/

theorem ovrOf_nil {hc : HCfg} (h : hc.ovr = []) (c : Nat) (s : String) : hc.ovrOf c s = (none, false) := by
  simp [HCfg.ovrOf, h]

theorem tdStPatches_miss {hc : HCfg} (h : hc.ovr = []) (c : Nat) (kvs : List (HVal × HVal)) (f : Field) (fds : List Field)
    (hl : lookupS kvs f.name = none) :
    tdStPatches hc c kvs (f :: fds) =
      ((tdStPatches hc c kvs fds).1, ((tdStPatches hc c kvs fds).2.1 || f.required),
        f.name :: (tdStPatches hc c kvs fds).2.2) := by
  simp only [tdStPatches, ovrOf_nil h, Bool.false_eq_true, if_false, Option.getD_none, hl]

theorem tdStPatches_hit {hc : HCfg} (h : hc.ovr = []) (c : Nat) (kvs : List (HVal × HVal)) (f : Field) (fds : List Field)
    {x : HVal} (hl : lookupS kvs f.name = some x) :
    tdStPatches hc c kvs (f :: fds) =
      ({ dels := [], call := some (fieldCallSt f, x, f.name) } :: (tdStPatches hc c kvs fds).1,
        (tdStPatches hc c kvs fds).2.1, f.name :: (tdStPatches hc c kvs fds).2.2) := by
  simp only [tdStPatches, ovrOf_nil h, Bool.false_eq_true, if_false, Option.getD_none, hl, Option.isSome_none]

theorem stFTD_miss (w : World) (cfg : Cfg) (f : Field) (fds : List Field) (kvs res : List (Obj × Obj))
    (hl : dlookup kvs (.str f.name) = none) :
    stFTD w cfg (f :: fds) kvs res = if f.required then none else stFTD w cfg fds kvs res := by
  rw [stFTD]; simp only [Field.key]
  split
  · rfl
  · rename_i x hx; rw [hl] at hx; cases hx

theorem stFTD_hit (w : World) (cfg : Cfg) (f : Field) (fds : List Field) (kvs res : List (Obj × Obj))
    {x : Obj} (hl : dlookup kvs (.str f.name) = some x) {y : Obj} (hy : callPure w cfg (fieldCallSt f) x = some y) :
    stFTD w cfg (f :: fds) kvs res = stFTD w cfg fds kvs (dictSet res (.str f.name) y) := by
  rw [stFTD]; simp only [Field.key]
  rw [callPure_field] at hy
  split
  · rename_i hx; rw [hl] at hx; cases hx
  · rename_i x' hx
    rw [hl] at hx; cases hx
    cases hty : f.ty with
    | none => rw [hty] at hy; simp only [Option.some.injEq] at hy; subst hy; rfl
    | some t => rw [hty] at hy; simp only [] at hy ⊢; rw [hy]

theorem stFTD_hit_none (w : World) (cfg : Cfg) (f : Field) (fds : List Field) (kvs res : List (Obj × Obj))
    {x : Obj} (hl : dlookup kvs (.str f.name) = some x) (hy : callPure w cfg (fieldCallSt f) x = none) :
    stFTD w cfg (f :: fds) kvs res = none := by
  rw [stFTD]; simp only [Field.key]
  rw [callPure_field] at hy
  split
  · rename_i hx; rw [hl] at hx; cases hx
  · rename_i x' hx
    rw [hl] at hx; cases hx
    cases hty : f.ty with
    | none => rw [hty] at hy; simp at hy
    | some t => rw [hty] at hy; simp only [] at hy ⊢; rw [hy]

/-- **TypedDict structure hook**: the patches against `stFTD` -/
theorem tdStPatches_ref (w : World) (cfg : Cfg) {hc : HCfg} (hovr : hc.ovr = []) (c : Nat) {b : Nat} {cs : List Cell} {K : Nat}
    (kvs : List (HVal × HVal)) (okvs : List (Obj × Obj)) (hkv : denoteKV cs K kvs = some okvs)
    (hkids : ∀ x, x ∈ (Cell.dict kvs).children → ArgOld b x ∧ Proper x) :
    ∀ (fds : List Field), FieldsOK w fds →
      PatchesOK b K (okcSt w) (denote cs K) cs (tdStPatches hc c kvs fds).1 ∧
      (tdStPatches hc c kvs fds).2.2 = fds.map (·.name) ∧
      ∀ res, stFTD w cfg fds okvs res =
        if (tdStPatches hc c kvs fds).2.1 then none else patchPure w cfg (denote cs K) (tdStPatches hc c kvs fds).1 res
  | [], _ => ⟨fun p hp => by simp [tdStPatches] at hp, rfl, fun res => by rw [stFTD]; simp [tdStPatches, patchPure]⟩
  | f :: fds, hok => by
    obtain ⟨hpo, hal, heq⟩ := tdStPatches_ref w cfg hovr c kvs okvs hkv hkids fds hok.tail
    have hf := hok f (List.mem_cons_self ..)
    have hlk := lookupS_den f.name kvs okvs hkv
    cases hl : lookupS kvs f.name with
    | none =>
      rw [tdStPatches_miss hovr c kvs f fds hl]
      refine ⟨hpo, by simp only [hal, List.map_cons], fun res => ?_⟩
      rw [stFTD_miss w cfg f fds okvs res (hlk.2 hl), heq res]
      simp only
      cases f.required <;> cases (tdStPatches hc c kvs fds).2.1 <;> simp
    | some xh =>
      obtain ⟨o, hdl, hdo⟩ := hlk.1 xh hl
      rw [tdStPatches_hit hovr c kvs f fds hl]
      have hxk := hkids xh (lookupS_mem kvs f.name xh hl)
      refine ⟨fun p hp => ?_, by simp only [hal, List.map_cons], fun res => ?_⟩
      · simp only [List.mem_cons] at hp
        rcases hp with rfl | hp
        · refine ⟨rfl, fun c' x' key' hcall => ?_⟩
          simp only [Option.some.injEq, Prod.mk.injEq] at hcall
          obtain ⟨rfl, rfl, rfl⟩ := hcall
          exact ⟨hxk.1, hxk.2, o, hdo, hdo, okcSt_field hf.2 o⟩
        · exact hpo p hp
      · simp only [patchPure, hdo]
        cases hy : callPure w cfg (fieldCallSt f) o with
        | none =>
          rw [stFTD_hit_none w cfg f fds okvs res hdl hy]
          simp
        | some y =>
          rw [stFTD_hit w cfg f fds okvs res hdl hy, heq]

/-! ### all-defaults instances (a class hook given something that is not a mapping) -/

theorem defaultsOf_hd {w : World} : ∀ {fds : List Field} {fs : List (String × Obj)}, FieldsOK w fds →
    defaultsOf fds = some fs → hdF fs ≤ dD w
  | [], fs, _, h => by simp only [defaultsOf, Option.some.injEq] at h; subst h; simp [hdF]
  | f :: fds, fs, hok, h => by
    simp only [defaultsOf] at h
    cases hv : f.dflt.value? with
    | none => rw [hv] at h; simp at h
    | some v =>
      cases hr : defaultsOf fds with
      | none => rw [hv, hr] at h; simp at h
      | some r =>
        rw [hv, hr] at h
        simp only [Option.some.injEq] at h
        subst h
        have h1 := (hok f (List.mem_cons_self ..)).1 v hv
        have h2 := defaultsOf_hd hok.tail hr
        simp only [hdF]; omega

end CattrsModel.Heap
