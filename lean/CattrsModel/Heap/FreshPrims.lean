import CattrsModel.Heap.FreshLogic
/-!
# Provenance logic: the primitives, `inject`, `runTasks`, `buildLoc`
-/
namespace CattrsModel.Heap
open CattrsModel

section
variable {b : Nat} {cs0 : List Cell} {D J : Nat → Prop}

theorem Sp.alloc {P : St → Prop} (c : Cell) (hP : ∀ st st', P st → Tr b D J st st' → P st') :
    Sp b cs0 D J P (alloc c) (fun l st => P st ∧ b ≤ l) := by
  intro st hp hB
  have hev : Tr b D J st { st with cells := st.cells ++ [c] } :=
    Tr.of_cells rfl rfl (by simp) (fun l hl => List.getElem?_append_left (Nat.lt_of_lt_of_le hl hB.le))
  refine ⟨hev, fun r hr => ?_⟩
  have hr' : st.cells.length = r := by simpa [Heap.alloc] using hr
  subst hr'
  exact ⟨hP st _ hp hev, hB.le⟩

theorem Sp.allocRaw {P : St → Prop} (c : Cell) (hP : ∀ st st', P st → Tr b D J st st' → P st') :
    Sp b cs0 D J P (allocRaw c) (fun l st => P st ∧ b ≤ l) := by
  intro st hp hB
  have hev : Tr b D J st { st with cells := st.cells ++ [c], raw := st.cells.length :: st.raw } :=
    Tr.of_cells rfl rfl (by simp) (fun l hl => List.getElem?_append_left (Nat.lt_of_lt_of_le hl hB.le))
  refine ⟨hev, fun r hr => ?_⟩
  have hr' : st.cells.length = r := by simpa [Heap.allocRaw] using hr
  subst hr'
  exact ⟨hP st _ hp hev, hB.le⟩

theorem Sp.write {P : St → Prop} (l : Loc) (c : Cell) (hl : b ≤ l)
    (hP : ∀ st st', P st → Tr b D J st st' → P st') :
    Sp b cs0 D J P (write l c) (fun _ st => P st) := by
  intro st hp hB
  unfold Heap.write
  by_cases hlt : l < st.cells.length
  · simp only [hlt, if_true]
    have hev : Tr b D J st { st with cells := st.cells.set l c } :=
      Tr.of_cells rfl rfl (by simp) (fun l' hl' => by
        have : l ≠ l' := Nat.ne_of_gt (Nat.lt_of_lt_of_le hl' hl)
        show (st.cells.set l c)[l']? = st.cells[l']?
        simp [List.getElem?_set_ne this])
    exact ⟨hev, fun _ _ => hP st _ hp hev⟩
  · simp only [hlt, if_false]
    exact ⟨Tr.refl _, fun r hr => by simp at hr⟩

theorem Sp.sealRaw {P : St → Prop} (l : Loc) (hP : ∀ st st', P st → Tr b D J st st' → P st') :
    Sp b cs0 D J P (sealRaw l) (fun _ st => P st) := by
  intro st hp hB
  have hev : Tr b D J st { st with raw := st.raw.filter (· != l) } :=
    Tr.of_cells rfl rfl (Nat.le_refl _) (fun _ _ => rfl)
  exact ⟨hev, fun _ _ => hP st _ hp hev⟩

/-- the survivors' `logPass`: the value must already be accounted for -/
theorem Sp.logPass {P : St → Prop} (v : HVal) (hP : ∀ st st', P st → Tr b D J st st' → P st') :
    Sp b cs0 D J (fun st => P st ∧ Res b D v st) (logPass v) (fun _ st => P st) := by
  intro st hp hB
  cases v with
  | leaf o => exact ⟨Tr.refl _, fun _ _ => hp.1⟩
  | ref a =>
    have hev : Tr b D J st { st with log := a :: st.log } := by
      refine ⟨Nat.le_refl _, fun _ _ => rfl, fun _ h => h, fun _ h => Or.inl h, fun a' h => ?_⟩
      have h : a' ∈ a :: st.log := h
      simp only [List.mem_cons] at h
      rcases h with rfl | h
      · exact Or.inr (hp.2 a' rfl)
      · exact Or.inl h
    exact ⟨hev, fun _ _ => hP st _ hp.1 hev⟩

/-- `Prog.ident`'s log: the location goes to both logs; `J` must hold for it -/
theorem Sp.logIdent {P : St → Prop} (v : HVal) (hJ : ∀ a, v = .ref a → J a)
    (hP : ∀ st st', P st → Tr b D J st st' → P st') :
    Sp b cs0 D J P (logIdent v) (fun _ st => P st ∧ Res b D v st) := by
  intro st hp hB
  cases v with
  | leaf o => exact ⟨Tr.refl _, fun _ _ => ⟨hp, Res.leaf o st⟩⟩
  | ref a =>
    have hev : Tr b D J st { st with log := a :: st.log, ilog := a :: st.ilog } := by
      refine ⟨Nat.le_refl _, fun _ _ => rfl, fun _ h => List.mem_cons_of_mem _ h, fun a' h => ?_, fun a' h => ?_⟩
      · have h : a' ∈ a :: st.ilog := h
        simp only [List.mem_cons] at h
        rcases h with rfl | h
        · exact Or.inr (hJ a' rfl)
        · exact Or.inl h
      · have h : a' ∈ a :: st.log := h
        simp only [List.mem_cons] at h
        rcases h with rfl | h
        · exact Or.inr (Or.inl (by show a' ∈ a' :: st.ilog; simp))
        · exact Or.inl h
    refine ⟨hev, fun _ _ => ⟨hP st _ hp hev, fun a' h' => ?_⟩⟩
    cases h'
    exact Or.inl (by show a ∈ a :: st.ilog; simp)

theorem logAll_sp {P : St → Prop} (hP : ∀ st st', P st → Tr b D J st st' → P st') :
    ∀ vs : List HVal, Sp b cs0 D J (fun st => P st ∧ ∀ v, v ∈ vs → Res b D v st) (logAll vs) (fun _ st => P st)
  | [] => by
    unfold logAll
    exact Sp.conseq (Sp.ret _) (fun _ h => h) (fun _ _ h => h.2.1)
  | v :: vs => by
    unfold logAll
    have h1 := Sp.logPass (b := b) (cs0 := cs0) (D := D) (J := J) (P := fun st => P st ∧ ∀ v, v ∈ vs → Res b D v st) v
      (fun st st' h e => ⟨hP st st' h.1 e, fun v hv => (h.2 v hv).tr e⟩)
    refine Sp.bind (Sp.conseq h1 (fun st h => ⟨⟨h.1, fun v' hv' => h.2 v' (List.mem_cons_of_mem _ hv')⟩,
      h.2 v (List.mem_cons_self ..)⟩) (fun _ _ h => h)) (fun _ => logAll_sp hP vs)

/-! ### `inject` only allocates -/

/-- a computation that only appends cells -/
def AllocOnly {α} (m : M α) : Prop :=
  ∀ st, (m st).2.log = st.log ∧ (m st).2.ilog = st.ilog ∧ st.cells.length ≤ (m st).2.cells.length ∧
    ∀ l : Nat, l < st.cells.length → (m st).2.cells[l]? = st.cells[l]?

theorem AllocOnly.ret {α} (a : α) : AllocOnly (ret a) :=
  fun _ => ⟨rfl, rfl, Nat.le_refl _, fun _ _ => rfl⟩

theorem AllocOnly.alloc (c : Cell) : AllocOnly (alloc c) :=
  fun st => ⟨rfl, rfl, by simp [Heap.alloc], fun l hl => by
    show (st.cells ++ [c])[l]? = st.cells[l]?
    exact List.getElem?_append_left hl⟩

theorem AllocOnly.bind {α β} {m : M α} {f : α → M β} (hm : AllocOnly m) (hf : ∀ a, AllocOnly (f a)) :
    AllocOnly (bind m f) := by
  intro st
  have h1 := hm st
  unfold Heap.bind
  cases hms : m st with
  | mk r st1 =>
    rw [hms] at h1
    cases r with
    | none => exact h1
    | some a =>
      have h2 := hf a st1
      exact ⟨h2.1.trans h1.1, h2.2.1.trans h1.2.1, Nat.le_trans h1.2.2.1 h2.2.2.1,
        fun l hl => (h2.2.2.2 l (Nat.lt_of_lt_of_le hl h1.2.2.1)).trans (h1.2.2.2 l hl)⟩

mutual
theorem inject_allocOnly : (o : Obj) → AllocOnly (inject o)
  | .none => by unfold inject; exact AllocOnly.ret _
  | .bool _ => by unfold inject; exact AllocOnly.ret _
  | .int _ => by unfold inject; exact AllocOnly.ret _
  | .flt _ => by unfold inject; exact AllocOnly.ret _
  | .str _ => by unfold inject; exact AllocOnly.ret _
  | .bytes _ => by unfold inject; exact AllocOnly.ret _
  | .enumM _ _ => by unfold inject; exact AllocOnly.ret _
  | .mdict _ _ => by unfold inject; exact AllocOnly.ret _
  | .coll k xs => by
    unfold inject
    exact (injectL_allocOnly xs).bind fun _ => (AllocOnly.alloc _).bind fun _ => AllocOnly.ret _
  | .dict kvs => by
    unfold inject
    exact (injectKV_allocOnly kvs).bind fun _ => (AllocOnly.alloc _).bind fun _ => AllocOnly.ret _
  | .inst c fs => by
    unfold inject
    exact (injectF_allocOnly fs).bind fun _ => (AllocOnly.alloc _).bind fun _ => AllocOnly.ret _
  | .opaque n => by
    unfold inject
    exact (AllocOnly.alloc _).bind fun _ => AllocOnly.ret _
theorem injectL_allocOnly : (xs : List Obj) → AllocOnly (injectL xs)
  | [] => by unfold injectL; exact AllocOnly.ret _
  | x :: xs => by
    unfold injectL
    exact (inject_allocOnly x).bind fun _ => (injectL_allocOnly xs).bind fun _ => AllocOnly.ret _
theorem injectKV_allocOnly : (kvs : List (Obj × Obj)) → AllocOnly (injectKV kvs)
  | [] => by unfold injectKV; exact AllocOnly.ret _
  | (k, v) :: rest => by
    unfold injectKV
    exact (inject_allocOnly k).bind fun _ => (inject_allocOnly v).bind fun _ =>
      (injectKV_allocOnly rest).bind fun _ => AllocOnly.ret _
theorem injectF_allocOnly : (fs : List (String × Obj)) → AllocOnly (injectF fs)
  | [] => by unfold injectF; exact AllocOnly.ret _
  | (s, v) :: rest => by
    unfold injectF
    exact (inject_allocOnly v).bind fun _ => (injectF_allocOnly rest).bind fun _ => AllocOnly.ret _
end

/-- what `bind m (fun x => bind (alloc c) (fun l => ret (.ref l)))` returns is a new location -/
theorem allocTail_fresh {α} {m : M α} (hm : AllocOnly m) (mk : α → Cell) (st : St) (a : Nat)
    (h : (bind m (fun x => bind (alloc (mk x)) fun l => ret (HVal.ref l)) st).1 = some (HVal.ref a)) :
    st.cells.length ≤ a := by
  have h1 := hm st
  unfold Heap.bind at h
  cases hms : m st with
  | mk r st1 =>
    rw [hms] at h h1
    cases r with
    | none => simp at h
    | some x =>
      simp [Heap.alloc, Heap.ret] at h
      rw [← h]
      exact h1.2.2.1

theorem inject_fresh (o : Obj) (st : St) (a : Nat) (h : (inject o st).1 = some (.ref a)) :
    st.cells.length ≤ a := by
  cases o with
  | coll k xs => unfold inject at h; exact allocTail_fresh (injectL_allocOnly xs) _ st a h
  | dict kvs => unfold inject at h; exact allocTail_fresh (injectKV_allocOnly kvs) _ st a h
  | inst c fs => unfold inject at h; exact allocTail_fresh (injectF_allocOnly fs) _ st a h
  | «opaque» n =>
    unfold inject at h
    simp [Heap.bind, Heap.alloc, Heap.ret] at h
    exact Nat.le_of_eq h
  | _ => simp [inject, Heap.ret] at h

theorem inject_sp {P : St → Prop} (o : Obj) (hP : ∀ st st', P st → Tr b D J st st' → P st') :
    Sp b cs0 D J P (inject o) (fun r st => P st ∧ Res b D r st) := by
  intro st hp hB
  have h := inject_allocOnly o st
  have hev : Tr b D J st (inject o st).2 :=
    Tr.of_cells h.1 h.2.1 h.2.2.1 (fun l hl => h.2.2.2 l (Nat.lt_of_lt_of_le hl hB.le))
  refine ⟨hev, fun r hr => ⟨hP st _ hp hev, ?_⟩⟩
  cases r with
  | leaf o' => exact Res.leaf _ _
  | ref a => exact Res.fresh _ (Nat.le_trans hB.le (inject_fresh o st a hr))

end

end CattrsModel.Heap
