import CattrsModel.Heap.RunLemmas
/-!
# Provenance of the pass-through log (towards the full freshness theorem)

`St.ilog` is written by `Prog.ident` only (`logIdent`).  This file sets up a second, much simpler program
logic that tracks *who wrote the log*: relation `Tr` between the state before and after a computation,
triples `Sp`.  Parameters:
* `b`   — the length of the caller's store (locations `< b` are the caller's);
* `cs0` — the caller's cells;
* `D`   — the caller's locations that may be handed out by reference at a *declared identity-typed TypedDict key*
          (`fun _ => False` for the plain statement);
* `J`   — what is known about a location at the moment `Prog.ident` logs it.
-/
namespace CattrsModel.Heap
open CattrsModel

section
variable (b : Nat) (cs0 : List Cell) (D J : Nat → Prop)

/-- the caller's part of the store is still what it was -/
structure Base (st : St) : Prop where
  le : b ≤ st.cells.length
  fr : ∀ l : Nat, l < b → st.cells[l]? = cs0[l]?

/-- how a computation may change the state: the caller's cells are left alone; `ilog` grows, and only by locations
satisfying `J`; whatever is new in `log` is in `ilog`, is not a caller's location, or satisfies `D` -/
structure Tr (st st' : St) : Prop where
  len : st.cells.length ≤ st'.cells.length
  frame : ∀ l : Nat, l < b → st'.cells[l]? = st.cells[l]?
  imono : ∀ a, a ∈ st.ilog → a ∈ st'.ilog
  idoc : ∀ a, a ∈ st'.ilog → a ∈ st.ilog ∨ J a
  prov : ∀ a, a ∈ st'.log → a ∈ st.log ∨ a ∈ st'.ilog ∨ b ≤ a ∨ D a

/-- a value that may be stored / returned: immutable, logged by `ident`, not the caller's, or `D` -/
def Res (v : HVal) (st : St) : Prop := ∀ a, v = .ref a → a ∈ st.ilog ∨ b ≤ a ∨ D a

variable {b cs0 D J}

theorem Tr.refl (st : St) : Tr b D J st st :=
  ⟨Nat.le_refl _, fun _ _ => rfl, fun _ h => h, fun _ h => Or.inl h, fun _ h => Or.inl h⟩

theorem Tr.trans {st1 st2 st3 : St} (h1 : Tr b D J st1 st2) (h2 : Tr b D J st2 st3) : Tr b D J st1 st3 := by
  refine ⟨Nat.le_trans h1.len h2.len, fun l hl => (h2.frame l hl).trans (h1.frame l hl),
    fun a h => h2.imono a (h1.imono a h), fun a h => ?_, fun a h => ?_⟩
  · rcases h2.idoc a h with h | h
    · exact h1.idoc a h
    · exact Or.inr h
  · rcases h2.prov a h with h | h
    · rcases h1.prov a h with h | h | h
      · exact Or.inl h
      · exact Or.inr (Or.inl (h2.imono a h))
      · exact Or.inr (Or.inr h)
    · exact Or.inr h

theorem Base.tr {st st' : St} (h : Base b cs0 st) (e : Tr b D J st st') : Base b cs0 st' :=
  ⟨Nat.le_trans h.le e.len, fun l hl => (e.frame l hl).trans (h.fr l hl)⟩

theorem Res.tr {v : HVal} {st st' : St} (h : Res b D v st) (e : Tr b D J st st') : Res b D v st' :=
  fun a ha => (h a ha).imp (e.imono a) id

theorem Res.leaf (o : Obj) (st : St) : Res b D (.leaf o) st := fun _ h => by cases h

theorem Res.fresh {a : Nat} (st : St) (h : b ≤ a) : Res b D (.ref a) st :=
  fun a' h' => by cases h'; exact Or.inr (Or.inl h)

/-- `Res` only looks at `ilog` -/
theorem Res.of_ilog {v : HVal} {st st' : St} (h : Res b D v st) (hi : ∀ a, a ∈ st.ilog → a ∈ st'.ilog) :
    Res b D v st' := fun a ha => (h a ha).imp (hi a) id

variable (b cs0 D J)

/-- triples of the provenance logic -/
def Sp {α} (P : St → Prop) (m : M α) (Q : α → St → Prop) : Prop :=
  ∀ st, P st → Base b cs0 st → Tr b D J st (m st).2 ∧ ∀ r, (m st).1 = some r → Q r (m st).2

variable {b cs0 D J}

theorem Sp.ret {α} {P : St → Prop} (a : α) : Sp b cs0 D J P (ret a) (fun r st => r = a ∧ P st) := by
  intro st hP _
  exact ⟨Tr.refl _, fun r hr => by simp [Heap.ret] at hr; exact ⟨hr.symm, hP⟩⟩

theorem Sp.raise {α} {P : St → Prop} {Q : α → St → Prop} : Sp b cs0 D J P (raise : M α) Q := by
  intro st _ _
  exact ⟨Tr.refl _, fun r hr => by simp [Heap.raise] at hr⟩

theorem Sp.bind {α β} {P : St → Prop} {m : M α} {Q : α → St → Prop} {f : α → M β}
    {R : β → St → Prop} (hm : Sp b cs0 D J P m Q) (hf : ∀ a, Sp b cs0 D J (Q a) (f a) R) :
    Sp b cs0 D J P (bind m f) R := by
  intro st hP hB
  have h1 := hm st hP hB
  unfold Heap.bind
  cases hms : m st with
  | mk r st1 =>
    rw [hms] at h1
    cases r with
    | none => exact ⟨h1.1, fun r hr => by simp at hr⟩
    | some a =>
      have h2 := hf a st1 (h1.2 a rfl) (hB.tr h1.1)
      exact ⟨h1.1.trans h2.1, h2.2⟩

theorem Sp.conseq {α} {P P' : St → Prop} {m : M α} {Q Q' : α → St → Prop}
    (hm : Sp b cs0 D J P m Q) (hP : ∀ st, P' st → P st) (hQ : ∀ a st, Q a st → Q' a st) :
    Sp b cs0 D J P' m Q' := by
  intro st hp hB
  have h1 := hm st (hP st hp) hB
  exact ⟨h1.1, fun r hr => hQ r _ (h1.2 r hr)⟩

/-- facts stable under `Tr` are carried across; this also covers the error path (`attempt`) -/
theorem Sp.frame {α} {P : St → Prop} {m : M α} {Q : α → St → Prop} (F : St → Prop)
    (hm : Sp b cs0 D J P m Q) (hF : ∀ st st', F st → Tr b D J st st' → F st') :
    Sp b cs0 D J (fun st => P st ∧ F st) m (fun a st => Q a st ∧ F st) := by
  intro st hp hB
  have h1 := hm st hp.1 hB
  exact ⟨h1.1, fun r hr => ⟨h1.2 r hr, hF st _ hp.2 h1.1⟩⟩

theorem Sp.attempt {α} {P : St → Prop} {m : M α} {Q : α → St → Prop} (F : St → Prop)
    (hm : Sp b cs0 D J P m Q) (hF : ∀ st st', F st → Tr b D J st st' → F st') :
    Sp b cs0 D J (fun st => P st ∧ F st) (attempt m) (fun r st => (∀ a, r = some a → Q a st) ∧ F st) := by
  intro st hp hB
  have h1 := hm st hp.1 hB
  unfold Heap.attempt
  cases hms : m st with
  | mk r st1 =>
    rw [hms] at h1
    refine ⟨h1.1, fun r' hr' => ?_⟩
    simp at hr'
    subst hr'
    exact ⟨fun a ha => h1.2 a ha, hF st st1 hp.2 h1.1⟩

/-- computations that do not touch the state -/
theorem Sp.readonly {α} {P : St → Prop} (m : M α) (h : ∀ st, (m st).2 = st) :
    Sp b cs0 D J P m (fun r st => P st ∧ (m st).1 = some r) := by
  intro st hp _
  rw [h st]
  exact ⟨Tr.refl _, fun r hr => ⟨hp, hr⟩⟩

/-- a step that only changes `cells` (by appending), `raw`, `unmod`: given as the two facts needed -/
theorem Tr.of_cells {st st' : St} (hlog : st'.log = st.log) (hilog : st'.ilog = st.ilog)
    (hlen : st.cells.length ≤ st'.cells.length) (hfr : ∀ l : Nat, l < b → st'.cells[l]? = st.cells[l]?) :
    Tr b D J st st' :=
  ⟨hlen, hfr, fun a h => by rw [hilog]; exact h, fun a h => by rw [hilog] at h; exact Or.inl h,
   fun a h => by rw [hlog] at h; exact Or.inl h⟩

end

end CattrsModel.Heap
