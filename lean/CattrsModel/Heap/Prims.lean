import CattrsModel.Heap.Lemmas
/-!
# Specifications of the primitives
-/
namespace CattrsModel.Heap
open CattrsModel

def AllOK (b : Nat) (vs : List HVal) (st : St) : Prop := ∀ v, v ∈ vs → OKv b st v

theorem AllOK.mono {b N st st' vs} (h : Ev b N st st') (hv : AllOK b vs st) : AllOK b vs st' :=
  fun v hm => OKv.mono h (hv v hm)

/-- `OKv` only looks at the log, the raw marks and the length -/
theorem OKv.of_same {b v} (st st' : St) (hlog : ∀ a, a ∈ st.log → a ∈ st'.log)
    (hraw : ∀ a, a < st.cells.length → a ∈ st'.raw → a ∈ st.raw)
    (hlen : st.cells.length ≤ st'.cells.length) (hv : OKv b st v) : OKv b st' v := by
  cases v with
  | leaf o => trivial
  | ref a =>
    rcases hv with ⟨h1, h2⟩ | ⟨h1, h2, h3⟩
    · exact Or.inl ⟨h1, hlog a h2⟩
    · exact Or.inr ⟨h1, Nat.lt_of_lt_of_le h2 hlen, fun hr => h3 (hraw a h2 hr)⟩

theorem getElem?_append_last {α} (xs : List α) (c : α) (l : Nat) (x : α)
    (h : (xs ++ [c])[l]? = some x) : (l < xs.length ∧ xs[l]? = some x) ∨ (l = xs.length ∧ x = c) := by
  by_cases hl : l < xs.length
  · left
    rw [List.getElem?_append_left hl] at h
    exact ⟨hl, h⟩
  · right
    have hge : xs.length ≤ l := Nat.le_of_not_lt hl
    rw [List.getElem?_append_right hge] at h
    have : l - xs.length = 0 := by
      cases hd : l - xs.length with
      | zero => rfl
      | succ k => rw [hd] at h; simp at h
    rw [this] at h
    simp at h
    exact ⟨by omega, h.symm⟩

theorem Spec.alloc {b N} {P : St → Prop} (c : Cell) (hP : ∀ st st', P st → Ev b N st st' → P st') :
    Spec b N (fun st => P st ∧ AllOK b c.children st) (alloc c)
      (fun l st => P st ∧ OKv b st (.ref l) ∧ N ≤ l ∧ st.cells[l]? = some c) := by
  intro st hp hb hN hI
  have hbl : b ≤ st.cells.length := Nat.le_trans hb hN
  have hok : ∀ v, OKv b st v → OKv b { st with cells := st.cells ++ [c] } v := fun v hv =>
    OKv.of_same st _ (fun _ h => h) (fun _ _ h => h) (by simp) hv
  have hev : Ev b N st { st with cells := st.cells ++ [c] } := by
    refine ⟨hb, by simp, ?_, fun _ h => h, fun _ h => Or.inl h, fun _ _ h => h, ?_, fun h => h⟩
    · intro l hl
      exact List.getElem?_append_left (Nat.lt_of_lt_of_le hl hN)
    · intro hI
      refine ⟨fun a ha => ?_, ?_⟩
      · have := hI.rawB a ha
        show a < (st.cells ++ [c]).length
        simp only [List.length_append, List.length_singleton]
        omega
      · intro l c' hl hr hc v hv
        rcases getElem?_append_last _ _ _ _ hc with ⟨_, h2⟩ | ⟨_, h2⟩
        · exact hok v (hI.edges l c' hl hr h2 v hv)
        · subst h2
          exact hok v (hp.2 v hv)
  refine ⟨hev, fun r hr => ?_⟩
  have hr' : st.cells.length = r := by simpa [Heap.alloc] using hr
  subst hr'
  refine ⟨hP st _ hp.1 hev, Or.inr ⟨hbl, ?_, fun h => Nat.lt_irrefl _ (hI.rawB _ h)⟩, hN, ?_⟩
  · show st.cells.length < (st.cells ++ [c]).length
    simp
  · show (st.cells ++ [c])[st.cells.length]? = some c
    simp

theorem Spec.allocRaw {b N} {P : St → Prop} (c : Cell) (hP : ∀ st st', P st → Ev b N st st' → P st') :
    Spec b N P (allocRaw c)
      (fun l st => P st ∧ N ≤ l ∧ l < st.cells.length ∧ l ∈ st.raw ∧ b ≤ l ∧ st.cells[l]? = some c) := by
  intro st hp hb hN hI
  have hbl : b ≤ st.cells.length := Nat.le_trans hb hN
  have hok : ∀ v, OKv b st v →
      OKv b { st with cells := st.cells ++ [c], raw := st.cells.length :: st.raw } v := fun v hv =>
    OKv.of_same st _ (fun _ h => h)
      (fun a ha h => by
        have h : a ∈ st.cells.length :: st.raw := h
        simp only [List.mem_cons] at h
        rcases h with h | h
        · omega
        · exact h) (by simp) hv
  have hev : Ev b N st { st with cells := st.cells ++ [c], raw := st.cells.length :: st.raw } := by
    refine ⟨hb, by simp, ?_, fun _ h => h, ?_, fun _ _ h => List.mem_cons_of_mem _ h, ?_, fun h => h⟩
    · intro l hl
      exact List.getElem?_append_left (Nat.lt_of_lt_of_le hl hN)
    · intro a h
      have h : a ∈ st.cells.length :: st.raw := h
      simp only [List.mem_cons] at h
      rcases h with h | h
      · exact Or.inr (by omega)
      · exact Or.inl h
    · intro hI
      refine ⟨fun a ha => ?_, ?_⟩
      · have ha : a ∈ st.cells.length :: st.raw := ha
        simp only [List.mem_cons] at ha
        show a < (st.cells ++ [c]).length
        simp only [List.length_append, List.length_singleton]
        rcases ha with ha | ha
        · omega
        · have := hI.rawB a ha; omega
      · intro l c' hl hr hc v hv
        have hr : l ∉ st.cells.length :: st.raw := hr
        simp only [List.mem_cons, not_or] at hr
        rcases getElem?_append_last _ _ _ _ hc with ⟨_, h2⟩ | ⟨h1, _⟩
        · exact hok v (hI.edges l c' hl hr.2 h2 v hv)
        · exact absurd h1 hr.1
  refine ⟨hev, fun r hr => ?_⟩
  have hr' : st.cells.length = r := by simpa [Heap.allocRaw] using hr
  subst hr'
  refine ⟨hP st _ hp hev, hN, ?_, ?_, hbl, ?_⟩
  · show st.cells.length < (st.cells ++ [c]).length
    simp
  · show st.cells.length ∈ st.cells.length :: st.raw
    simp
  · show (st.cells ++ [c])[st.cells.length]? = some c
    simp

/-- writing a cell of the call's own: either it is still raw, or the new content is fine.
`P'` is what is known afterwards (given for the updated store, not via stability). -/
theorem Spec.write {b N} {P P' : St → Prop} (l : Loc) (c : Cell)
    (hP : ∀ st, P st → l < st.cells.length → P' { st with cells := st.cells.set l c }) :
    Spec b N (fun st => P st ∧ N ≤ l ∧ (l ∈ st.raw ∨ AllOK b c.children st)) (write l c)
      (fun _ st => P' st) := by
  intro st hp hb hN hI
  unfold Heap.write
  by_cases hl : l < st.cells.length
  · simp only [hl, if_true]
    have hok : ∀ v, OKv b st v → OKv b { st with cells := st.cells.set l c } v := fun v hv =>
      OKv.of_same st _ (fun _ h => h) (fun _ _ h => h) (by simp) hv
    have hev : Ev b N st { st with cells := st.cells.set l c } := by
      refine ⟨hb, by simp, ?_, fun _ h => h, fun _ h => Or.inl h, fun _ _ h => h, ?_, fun h => h⟩
      · intro l' hl'
        have : l ≠ l' := Nat.ne_of_gt (Nat.lt_of_lt_of_le hl' hp.2.1)
        show (st.cells.set l c)[l']? = st.cells[l']?
        simp [List.getElem?_set_ne this]
      · intro hI
        refine ⟨fun a ha => by
          show a < (st.cells.set l c).length
          simpa using hI.rawB a ha, ?_⟩
        intro l' c' hl' hr hc v hv
        have hc : (st.cells.set l c)[l']? = some c' := hc
        by_cases he : l = l'
        · subst he
          simp only [List.getElem?_set_self hl, Option.some.injEq] at hc
          subst hc
          rcases hp.2.2 with h | h
          · exact absurd h hr
          · exact hok v (h v hv)
        · simp only [List.getElem?_set_ne he] at hc
          exact hok v (hI.edges l' c' hl' hr hc v hv)
    exact ⟨hev, fun _ _ => hP st hp.1 hl⟩
  · simp only [hl, if_false]
    exact ⟨Ev.refl hb _, fun r hr => by simp at hr⟩

theorem Spec.logPass {b N} {P P' : St → Prop} (v : HVal) (h0 : ∀ st, P st → P' st)
    (hP : ∀ st a, P st → P' { st with log := a :: st.log }) :
    Spec b N P (logPass v) (fun _ st => P' st ∧ ∀ a, v = .ref a → a ∈ st.log) := by
  intro st hp hb hN hI
  cases v with
  | leaf o =>
    exact ⟨Ev.refl hb _, fun _ _ => ⟨h0 st hp, fun a h => by cases h⟩⟩
  | ref a =>
    have hok : ∀ v, OKv b st v → OKv b { st with log := a :: st.log } v := fun v hv =>
      OKv.of_same st _ (fun _ h => List.mem_cons_of_mem _ h) (fun _ _ h => h) (Nat.le_refl _) hv
    have hev : Ev b N st { st with log := a :: st.log } := by
      refine ⟨hb, Nat.le_refl _, fun _ _ => rfl, fun _ h => List.mem_cons_of_mem _ h, fun _ h => Or.inl h,
        fun _ _ h => h, ?_, fun h => h⟩
      intro hI
      exact ⟨hI.rawB, fun l c hl hr hc v hv => hok v (hI.edges l c hl hr hc v hv)⟩
    refine ⟨hev, fun _ _ => ⟨hP st a hp, fun a' h => ?_⟩⟩
    cases h
    show a ∈ a :: st.log
    simp

/-- `logPass` with the provenance mark (what `Prog.ident` executes) -/
theorem Spec.logIdent {b N} {P P' : St → Prop} (v : HVal) (h0 : ∀ st, P st → P' st)
    (hP : ∀ st a, P st → P' { st with log := a :: st.log, ilog := a :: st.ilog }) :
    Spec b N P (logIdent v) (fun _ st => P' st ∧ ∀ a, v = .ref a → a ∈ st.log) := by
  intro st hp hb hN hI
  cases v with
  | leaf o =>
    exact ⟨Ev.refl hb _, fun _ _ => ⟨h0 st hp, fun a h => by cases h⟩⟩
  | ref a =>
    have hok : ∀ v, OKv b st v → OKv b { st with log := a :: st.log, ilog := a :: st.ilog } v := fun v hv =>
      OKv.of_same st _ (fun _ h => List.mem_cons_of_mem _ h) (fun _ _ h => h) (Nat.le_refl _) hv
    have hev : Ev b N st { st with log := a :: st.log, ilog := a :: st.ilog } := by
      refine ⟨hb, Nat.le_refl _, fun _ _ => rfl, fun _ h => List.mem_cons_of_mem _ h, fun _ h => Or.inl h,
        fun _ _ h => h, ?_, fun h => h⟩
      intro hI
      exact ⟨hI.rawB, fun l c hl hr hc v hv => hok v (hI.edges l c hl hr hc v hv)⟩
    refine ⟨hev, fun _ _ => ⟨hP st a hp, fun a' h => ?_⟩⟩
    cases h
    show a ∈ a :: st.log
    simp

/-- ghost: finishing a raw cell of the call's own whose content is fine -/
theorem Spec.sealRaw {b N} {P : St → Prop} (l : Loc) (hP : ∀ st st', P st → Ev b N st st' → P st') :
    Spec b N (fun st => P st ∧ N ≤ l ∧ l < st.cells.length ∧
        ∀ c, st.cells[l]? = some c → AllOK b c.children st) (sealRaw l)
      (fun _ st => P st ∧ OKv b st (.ref l)) := by
  intro st hp hb hN hI
  have hmem : ∀ a, a ∈ st.raw.filter (· != l) → a ∈ st.raw := fun a h => (List.mem_filter.1 h).1
  have hok : ∀ v, OKv b st v → OKv b { st with raw := st.raw.filter (· != l) } v := fun v hv =>
    OKv.of_same st _ (fun _ h => h) (fun a _ h => hmem a h) (Nat.le_refl _) hv
  have hev : Ev b N st { st with raw := st.raw.filter (· != l) } := by
    refine ⟨hb, Nat.le_refl _, fun _ _ => rfl, fun _ h => h, fun a h => Or.inl (hmem a h), ?_, ?_, fun h => h⟩
    · intro a ha h
      refine List.mem_filter.2 ⟨h, ?_⟩
      have : a ≠ l := by have := hp.2.1; omega
      simpa using this
    · intro hI
      refine ⟨fun a ha => hI.rawB a (hmem a ha), ?_⟩
      intro l' c' hl' hr hc v hv
      by_cases he : l' = l
      · subst he
        exact hok v (hp.2.2.2 c' hc v hv)
      · have : l' ∉ st.raw := fun h => hr (List.mem_filter.2 ⟨h, by simpa using he⟩)
        exact hok v (hI.edges l' c' hl' this hc v hv)
  refine ⟨hev, fun _ _ => ⟨hP st _ hp.1 hev, Or.inr ⟨Nat.le_trans hb hp.2.1, hp.2.2.1, ?_⟩⟩⟩
  intro h
  have := (List.mem_filter.1 h).2
  simp at this

/-- computations that do not touch the state -/
theorem Spec.readonly {α} {b N} {P : St → Prop} (m : M α) (h : ∀ st, (m st).2 = st) :
    Spec b N P m (fun r st => P st ∧ (m st).1 = some r) := by
  intro st hp hb _ _
  rw [h st]
  exact ⟨Ev.refl hb _, fun r hr => ⟨hp, hr⟩⟩

end CattrsModel.Heap
