import CattrsModel.Heap.Safe2
/-!
# Part 3: copy-then-patch (`runPatches`), `logAll`
-/
namespace CattrsModel.Heap
open CattrsModel

/-- what is known about the copy `target` while it is being patched; `cur` is its content -/
structure Patching (b : Nat) (target : Loc) (c0 cur : List (HVal × HVal)) (st : St) : Prop where
  bt : b ≤ target
  closed : OldClosed b st
  lt : target < st.cells.length
  isRaw : target ∈ st.raw
  vals : ∀ x, x ∈ (Cell.dict cur).children → x ∈ (Cell.dict c0).children ∨ OKv b st x
  here : st.cells[target]? = some (.dict cur)

theorem Patching.ev {b target c0 cur st st'} (h : Patching b target c0 cur st)
    (e : Ev b (target + 1) st st') : Patching b target c0 cur st' :=
  ⟨h.bt, h.closed.ev e, Nat.lt_of_lt_of_le h.lt e.len, e.rawKeep _ (Nat.lt_succ_self _) h.isRaw,
   fun x hx => (h.vals x hx).imp id (OKv.mono e), by rw [e.frame _ (Nat.lt_succ_self _)]; exact h.here⟩

theorem Patching.log {b target c0 cur st} (a : Nat) (h : Patching b target c0 cur st) :
    Patching b target c0 cur { st with log := a :: st.log } :=
  ⟨h.bt, h.closed, h.lt, h.isRaw,
   fun x hx => (h.vals x hx).imp id
     (OKv.of_same st _ (fun _ h => List.mem_cons_of_mem _ h) (fun _ _ h => h) (Nat.le_refl _)), h.here⟩

/-- after `write target (.dict cur')` -/
theorem Patching.set {b target c0 cur cur' st} (h : Patching b target c0 cur st)
    (hv : ∀ x, x ∈ (Cell.dict cur').children → x ∈ (Cell.dict c0).children ∨ OKv b st x) :
    Patching b target c0 cur' { st with cells := st.cells.set target (.dict cur') } := by
  refine ⟨h.bt, ?_, ?_, h.isRaw, ?_, ?_⟩
  · intro l c hl hc v hv'
    have hne : target ≠ l := Nat.ne_of_gt (Nat.lt_of_lt_of_le hl h.bt)
    have hc : (st.cells.set target (.dict cur'))[l]? = some c := hc
    rw [List.getElem?_set_ne hne] at hc
    exact h.closed l c hl hc v hv'
  · show target < (st.cells.set target (.dict cur')).length
    simpa using h.lt
  · intro x hx
    exact (hv x hx).imp id (OKv.of_same st _ (fun _ h => h) (fun _ _ h => h) (by simp))
  · show (st.cells.set target (.dict cur'))[target]? = some (.dict cur')
    exact List.getElem?_set_self h.lt

theorem dictDelAll_children {cur : List (HVal × HVal)} {ss : List String} {x : HVal}
    (h : x ∈ (Cell.dict (dictDelAll cur ss)).children) : x ∈ (Cell.dict cur).children := by
  obtain ⟨kv, hkv, hx⟩ := mem_dict_children.1 h
  exact mem_dict_children.2 ⟨kv, dictDelAll_sub ss cur kv hkv, hx⟩

theorem runPatches_spec {b N : Nat} {rec : Rec} (hrec : HookOK b rec) (det : Bool) (target : Loc)
    (hNt : N ≤ target) (c0 : List (HVal × HVal)) :
    ∀ (ps : List Patch) (cur : List (HVal × HVal)) (failed : Bool),
      (∀ p, p ∈ ps → ∀ c x k, p.call = some (c, x, k) → ArgOld b x) →
      Spec b N (Patching b target c0 cur) (runPatches rec det target ps cur failed)
        (fun r st => Patching b target c0 r.1 st)
  | [], cur, failed, _ => by
    unfold runPatches
    exact Spec.conseq (Spec.ret _) (fun _ h => h) (fun a st h => by rw [h.1]; exact h.2)
  | p :: ps, cur, failed, hps => by
    have ih := fun cur' failed' => runPatches_spec hrec det target hNt c0 ps cur' failed'
      (fun p' hp' => hps p' (List.mem_cons_of_mem _ hp'))
    unfold runPatches
    simp only []
    cases hcall : p.call with
    | none =>
      simp only []
      refine Spec.bind (Q := fun _ st => Patching b target c0 (dictDelAll cur p.dels) st)
        (Spec.conseq (Spec.write (P := Patching b target c0 cur) target (.dict (dictDelAll cur p.dels))
          (fun st h _ => h.set (fun x hx => h.vals x (dictDelAll_children hx))))
          (fun st h => ⟨h, hNt, Or.inl h.isRaw⟩) (fun _ _ h => h)) (fun _ => ih _ _)
    | some cxk =>
      obtain ⟨c, x, key⟩ := cxk
      simp only []
      have hx : ArgOld b x := hps p (List.mem_cons_self ..) c x key hcall
      have hcallS : Spec b N (Patching b target c0 cur) (rec c x)
          (fun r st => OKv b st r ∧ Patching b target c0 cur st) :=
        Spec.conseq
          (Spec.lower (Spec.frame (Patching b target c0 cur) (hrec (target + 1) c x hx) (fun _ _ h e => h.ev e))
            (Nat.le_succ_of_le hNt) (fun st h => h.2.lt))
          (fun st h => ⟨h.closed, h⟩) (fun _ _ h => ⟨h.1.2, h.2⟩)
      have hcallT : SpecT b N (Patching b target c0 cur) (rec c x) (Patching b target c0 cur) :=
        SpecT.pre
          (SpecT.lower (Spec.frameT (Patching b target c0 cur) (hrec (target + 1) c x hx) (fun _ _ h e => h.ev e))
            (Nat.le_succ_of_le hNt) (fun st h => h.2.lt))
          (fun st h => ⟨h.closed, h⟩)
      refine Spec.bind (Spec.attempt2 hcallS hcallT) (fun r => ?_)
      cases r with
      | none =>
        show Spec b N _ (if det then _ else _) _
        split
        · exact Spec.conseq (ih cur true) (fun _ h => h.2) (fun _ _ h => h)
        · exact Spec.raise
      | some y =>
        show Spec b N _ (bind (write target _) _) _
        refine Spec.bind (Q := fun _ st => Patching b target c0 (dictSetS (dictDelAll cur p.dels) key y) st)
          (Spec.conseq (Spec.write (P := fun st => Patching b target c0 cur st ∧ OKv b st y) target
            (.dict (dictSetS (dictDelAll cur p.dels) key y)) (fun st h _ => h.1.set (fun x hx => ?_)))
            (fun st h => ⟨⟨h.2, (h.1 y rfl).1⟩, hNt, Or.inl h.2.isRaw⟩) (fun _ _ h => h)) (fun _ => ih _ _)
        obtain ⟨kv, hkv, hxkv⟩ := mem_dict_children.1 hx
        have := dictSetS_pres (fun z => z ∈ (Cell.dict c0).children ∨ OKv b st z) (dictDelAll cur p.dels) key y
          (fun kv' hkv' => ⟨h.1.vals _ (dictDelAll_children (mem_dict_children.2 ⟨kv', hkv', Or.inl rfl⟩)),
                            h.1.vals _ (dictDelAll_children (mem_dict_children.2 ⟨kv', hkv', Or.inr rfl⟩))⟩)
          (Or.inr trivial) (Or.inr h.2) kv hkv
        rcases hxkv with rfl | rfl
        · exact this.1
        · exact this.2

theorem logAll_spec {b N : Nat} : ∀ (vs : List HVal) (P : St → Prop),
    (∀ st a, P st → P { st with log := a :: st.log }) →
    Spec b N P (logAll vs) (fun _ st => P st ∧ ∀ x, x ∈ vs → ∀ a, x = .ref a → a ∈ st.log)
  | [], P, _ => by
    unfold logAll
    exact Spec.conseq (Spec.ret _) (fun _ h => h) (fun a st h => ⟨h.2, fun x hx => by simp at hx⟩)
  | v :: vs, P, hP => by
    unfold logAll
    refine Spec.bind (Spec.logPass (P' := P) v (fun _ h => h) hP) (fun _ => ?_)
    have ih := logAll_spec (b := b) (N := N) vs (fun st => P st ∧ ∀ a, v = .ref a → a ∈ st.log)
      (fun st a h => ⟨hP st a h.1, fun a' ha' => List.mem_cons_of_mem _ (h.2 a' ha')⟩)
    refine Spec.conseq ih (fun _ h => h) (fun _ st h => ⟨h.1.1, fun x hx => ?_⟩)
    simp only [List.mem_cons] at hx
    rcases hx with rfl | hx
    · exact h.1.2
    · exact h.2 x hx

end CattrsModel.Heap
