import CattrsModel.Heap.Programs
/-!
# Which program a hook amounts to on a given argument (`plan`), and the late-bound interpreter (`run`)

`plan` mirrors hook *construction* in `converters.py`, `cols.py`, `gen/__init__.py`,
`gen/typeddicts.py` (including its identity short-cut) — the same case analysis as the pure
data-path model (`un`, `stF`, `stD`), but producing store programs.  It only looks at the
argument's own cell (`view`) and, for builtin leaf coercions, at its pure value (`obj`).
-/
namespace CattrsModel.Heap
open CattrsModel

/-- `cattrs.gen.override(rename=…, skip=…)` for one TypedDict key -/
structure Ovr where
  cls : Nat
  field : String
  rename : Option String
  skip : Bool
  deriving Repr, Inhabited

structure HCfg where
  cfg : Cfg
  ovr : List Ovr := []
  deriving Repr, Inhabited

def HCfg.ovrOf (hc : HCfg) (c : Nat) (f : String) : Option String × Bool :=
  match hc.ovr.find? (fun o => o.cls == c && o.field == f) with
  | some o => (o.rename, o.skip)
  | none => (none, false)

def HCfg.hasOvr (hc : HCfg) (c : Nat) : Bool := hc.ovr.any (fun o => o.cls == c)

/-- is the unstructure hook of the type the function `identity`?  (decides the short-cuts) -/
def isIdUn (w : World) (hc : HCfg) : Nat → Ty → Bool
  | 0, _ => false
  | n + 1, t =>
    match t with
    | .int | .float | .str | .bytes | .bool => true
    -- `is_literal_containing_enums` -> `self.unstructure` (by run-time class); other literals: `identity`
    | .lit vs => !litHasEnum vs
    | .wrap k t' => if hc.cfg.gen || k == .final || k == .alias then isIdUn w hc n t' else true
    | .tupleHet _ => !hc.cfg.gen
    | .td c =>
        if hc.cfg.gen then
          !hc.hasOvr c && (w.fields c).all (fun f => match f.ty with | some t' => isIdUn w hc n t' | none => false)
        else false             -- BaseConverter: a TypedDict class `is_mapping` -> `_unstructure_mapping`
    -- `cols._is_passthrough`: every field hook is `identity` (Converter); a BaseConverter has no NamedTuple hook at all
    | .nt c => if hc.cfg.gen then (w.ntTys c).all (fun t' => isIdUn w hc n t') else true
    | _ => false

def strKey (s : String) : HVal := .leaf (.str s)

def fieldCallUn (f : Field) : Call := match f.ty with | some t => .un t | none => .unAny
def fieldCallSt (f : Field) : Call := match f.ty with | some t => .st t | none => .pass

/-! ### unstructuring -/

/-- class hook, dict strategy: `{'a': h_a(inst.a), …}` -/
def clsUnTasks (cfg : Cfg) : List Field → List (String × HVal) → List (Call × HVal)
  | f :: fds, (_, x) :: rest =>
      if emits cfg f then (.pass, strKey f.name) :: (fieldCallUn f, x) :: clsUnTasks cfg fds rest
      else clsUnTasks cfg fds rest
  | _, _ => []

def clsUnTasksT : List Field → List (String × HVal) → List (Call × HVal)
  | f :: fds, (_, x) :: rest => (fieldCallUn f, x) :: clsUnTasksT fds rest
  | _, _ => []

def planClsUn (w : World) (cfg : Cfg) (c : Nat) (fs : List (String × HVal)) : Prog :=
  if cfg.tupleStrat then .build false false (.coll .tuple) (clsUnTasksT (w.fields c) fs)
  else .build false false .dict (clsUnTasks cfg (w.fields c) fs)

def kvTasks (kc vc : Call) : List (HVal × HVal) → List (Call × HVal)
  | [] => []
  | (k, v) :: rest => (kc, k) :: (vc, v) :: kvTasks kc vc rest

def zipTasks : List Call → List HVal → List (Call × HVal)
  | c :: cs, x :: xs => (c, x) :: zipTasks cs xs
  | _, _ => []

/-- `namedtuple_unstructure_factory` on an instance with items `fs`: the instance itself when no item needs
conversion (`_is_passthrough`; always for a BaseConverter, which has no NamedTuple hook), else a fresh tuple -/
def planNTUn (w : World) (hc : HCfg) (n : Nat) (c : Nat) (v : HVal) (fs : List (String × HVal)) : Prog :=
  if hc.cfg.gen && !(w.ntTys c).all (fun t' => isIdUn w hc n t') then
    .build false false (.coll .tuple) (zipTasks ((w.ntTys c).map .un) (fs.map (·.2)))
  else .ident v

/-- `converter.unstructure(v)`: dispatch on the run-time class -/
def planUnAny (w : World) (hc : HCfg) (n : Nat) (v : HVal) (view : Option Cell) : Prog :=
  let cfg := hc.cfg
  match view with
  | some (.coll ck xs) => .build false false (.coll (if cfg.gen then ck.anyTo else ck)) (xs.map fun x => (.unAny, x))
  | some (.dict kvs) => .build false false .dict (kvTasks .unAny .unAny kvs)
  | some (.inst c fs) => if w.isNT c then planNTUn w hc n c v fs else planClsUn w cfg c fs
  | some (.opaque _) => .ident v                       -- unknown class: fallback hook is `identity`
  | none => match v with
    | .leaf (.enumM e m) => .leaf (enumValue w e m)
    | _ => .ident v

/-- body of `make_dict_unstructure_fn` (typeddicts.py L143-214) on an instance with entries `kvs` -/
def tdUnPatches (w : World) (hc : HCfg) (n : Nat) (c : Nat) (kvs : List (HVal × HVal)) :
    List Field → List Patch × Bool
  | [] => ([], false)
  | f :: fds =>
    let (ps, doomed) := tdUnPatches w hc n c kvs fds
    let (rename, skip) := hc.ovrOf c f.name
    if skip then ({ dels := [f.name], call := none } :: ps, doomed)
    else
      let dels := if rename.isSome then [f.name] else []
      let kn := rename.getD f.name
      let isId := match f.ty with | some t => isIdUn w hc n t | none => false
      if isId && rename.isNone then (ps, doomed)            -- `continue`
      else match lookupS kvs f.name with
        | some x => ({ dels := dels, call := some (if isId then .pass else fieldCallUn f, x, kn) } :: ps, doomed)
        | none => ({ dels := dels, call := none } :: ps, doomed || f.required)   -- `instance['a']`: KeyError

def planUn (w : World) (hc : HCfg) (n : Nat) : Ty → HVal → Option Cell → Prog
  | .any, v, view => planUnAny w hc n v view
  | .enum _, .leaf (.enumM e m), _ => .leaf (enumValue w e m)
  -- a literal containing enum members: `self.unstructure` (dispatch on the run-time class); else `identity`
  | .lit vs, v, view => if litHasEnum vs then planUnAny w hc n v view else .ident v
  | .coll k t, _, some (.coll ck xs) =>
      if hc.cfg.gen then .build false false (.coll k.unstructTo) (xs.map fun x => (.un t, x))
      else .build false false (.coll ck) (xs.map fun x => (.unAny, x))
  | .tupleHet ts, v, some (.coll .tuple xs) =>
      if hc.cfg.gen then .build false false (.coll .tuple) (zipTasks (ts.map .un) xs)
      else .ident v          -- BaseConverter: `is_sequence` excludes heterogeneous tuples, fallback `identity`
  | .map _ kt vt, _, some (.dict kvs) =>
      if hc.cfg.gen then .build false false .dict (kvTasks (.un kt) (.un vt) kvs)
      else .build false false .dict (kvTasks .unAny .unAny kvs)
  | .opt _, .leaf .none, _ => .leaf .none
  | .opt t, v, view => if hc.cfg.gen then planUn w hc n t v view else planUnAny w hc n v view
  | .wrap k t, v, view =>
      if hc.cfg.gen || k == .final || k == .alias then planUn w hc n t v view else .ident v
  | .cls c, _, some (.inst _ fs) => planClsUn w hc.cfg c fs
  | .td c, v, some (.dict kvs) =>
      if !hc.cfg.gen then .build false false .dict (kvTasks .unAny .unAny kvs)   -- `_unstructure_mapping`
      else if isIdUn w hc (n + 1) (.td c) then .ident v       -- typeddicts.py L110-141: `return identity`
      else match v with
        | .ref l => let (ps, doomed) := tdUnPatches w hc n c kvs (w.fields c)
                    .copyPatch false doomed false l kvs ps
        | _ => .fail
  | .union _ _, v, view => planUnAny w hc n v view     -- `_unstructure_union`: dispatch on the run-time class
  | .nt c, v, some (.inst _ fs) => planNTUn w hc n c v fs
  | _, v, _ => .ident v

end CattrsModel.Heap
