import CattrsModel.Heap.TaggedCLemmas
/-!
# A successful pure reading survives more fuel and a store that agrees on every cell that existed
-/
namespace CattrsModel.Heap
open CattrsModel

/-- `cs'` agrees with `cs` on every cell that exists in `cs` -/
def Extends (cs cs' : List Cell) : Prop := ∀ (l : Nat) c, cs[l]? = some c → cs'[l]? = some c

def DenP (cs cs' : List Cell) (m : Nat) : Prop :=
  ∀ v o, denote cs m v = some o → ∀ k, m ≤ k → denote cs' k v = some o

theorem denoteL_stable {cs cs' : List Cell} {m : Nat} (hp : DenP cs cs' m) :
    ∀ xs ys, denoteL cs m xs = some ys → ∀ k, m ≤ k → denoteL cs' k xs = some ys
  | [], ys, h, k, _ => by simpa [denoteL] using h
  | x :: xs, ys, h, k, hk => by
    simp only [denoteL] at h ⊢
    cases hx : denote cs m x with
    | none => simp [hx] at h
    | some a =>
      cases hr : denoteL cs m xs with
      | none => simp [hx, hr] at h
      | some r =>
        simp only [hx, hr] at h
        rw [hp x a hx k hk, denoteL_stable hp xs r hr k hk]
        exact h

theorem denoteKV_stable {cs cs' : List Cell} {m : Nat} (hp : DenP cs cs' m) :
    ∀ kvs r, denoteKV cs m kvs = some r → ∀ k, m ≤ k → denoteKV cs' k kvs = some r
  | [], r, h, k, _ => by simpa [denoteKV] using h
  | (a, b) :: rest, r, h, k, hk => by
    simp only [denoteKV] at h ⊢
    cases ha : denote cs m a with
    | none => simp [ha] at h
    | some a' =>
      cases hb : denote cs m b with
      | none => simp [ha, hb] at h
      | some b' =>
        cases hr : denoteKV cs m rest with
        | none => simp [ha, hb, hr] at h
        | some r' =>
          simp only [ha, hb, hr] at h
          rw [hp a a' ha k hk, hp b b' hb k hk, denoteKV_stable hp rest r' hr k hk]
          exact h

theorem denoteF_stable {cs cs' : List Cell} {m : Nat} (hp : DenP cs cs' m) :
    ∀ fs r, denoteF cs m fs = some r → ∀ k, m ≤ k → denoteF cs' k fs = some r
  | [], r, h, k, _ => by simpa [denoteF] using h
  | (s, b) :: rest, r, h, k, hk => by
    simp only [denoteF] at h ⊢
    cases hb : denote cs m b with
    | none => simp [hb] at h
    | some b' =>
      cases hr : denoteF cs m rest with
      | none => simp [hb, hr] at h
      | some r' =>
        simp only [hb, hr] at h
        rw [hp b b' hb k hk, denoteF_stable hp rest r' hr k hk]
        exact h

theorem denote_stable {cs cs' : List Cell} (hext : Extends cs cs') : ∀ m, DenP cs cs' m
  | 0 => by
    intro v o h k _
    cases v with
    | leaf x => rw [denote_leaf] at h ⊢; exact h
    | ref l => simp [denote] at h
  | m + 1 => by
    have ih := denote_stable hext m
    intro v o h k hk
    cases v with
    | leaf x => rw [denote_leaf] at h ⊢; exact h
    | ref l =>
      obtain ⟨k', rfl⟩ : ∃ k', k = k' + 1 := ⟨k - 1, by omega⟩
      have hk' : m ≤ k' := by omega
      simp only [denote] at h ⊢
      cases hc : cs[l]? with
      | none => simp [hc] at h
      | some c =>
        rw [hext l c hc]
        rw [hc] at h
        cases c with
        | coll ck xs =>
          simp only [Option.map_eq_some_iff] at h ⊢
          obtain ⟨ys, hys, rfl⟩ := h
          exact ⟨ys, denoteL_stable ih xs ys hys k' hk', rfl⟩
        | dict kvs =>
          simp only [Option.map_eq_some_iff] at h ⊢
          obtain ⟨ys, hys, rfl⟩ := h
          exact ⟨ys, denoteKV_stable ih kvs ys hys k' hk', rfl⟩
        | inst ci fs =>
          simp only [Option.map_eq_some_iff] at h ⊢
          obtain ⟨ys, hys, rfl⟩ := h
          exact ⟨ys, denoteF_stable ih fs ys hys k' hk', rfl⟩
        | «opaque» j => exact h

/-- what is stored under a key of a readable dict is readable -/
theorem denoteKV_lookup {cs : List Cell} {m : Nat} {name : String} :
    ∀ (kvs : List (HVal × HVal)) (r : List (Obj × Obj)) (tv : HVal), denoteKV cs m kvs = some r →
      lookupS kvs name = some tv → ∃ t, denote cs m tv = some t
  | [], _, _, _, hl => by simp [lookupS] at hl
  | (a, b) :: rest, r, tv, h, hl => by
    simp only [denoteKV] at h
    cases ha : denote cs m a with
    | none => simp [ha] at h
    | some a' =>
      cases hb : denote cs m b with
      | none => simp [ha, hb] at h
      | some b' =>
        cases hr : denoteKV cs m rest with
        | none => simp [ha, hb, hr] at h
        | some r' =>
          simp only [lookupS] at hl
          split at hl
          · cases hl
            exact ⟨b', hb⟩
          · exact denoteKV_lookup rest r' tv hr hl

end CattrsModel.Heap
