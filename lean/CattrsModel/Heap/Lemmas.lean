import CattrsModel.Heap.PlanSt
/-!
# A small program logic for the store programs

`b` is the length of the store when the top-level call started: locations `< b` are the
caller's (the argument lives there), locations `≥ b` were allocated by the call.
-/
namespace CattrsModel.Heap
open CattrsModel

/-- a slot value that may sit in a finished fresh cell (or be returned): immutable, a caller's
location handed out at a logged pass-through position, or a finished fresh cell -/
def OKv (b : Nat) (st : St) : HVal → Prop
  | .leaf _ => True
  | .ref a => (a < b ∧ a ∈ st.log) ∨ (b ≤ a ∧ a < st.cells.length ∧ a ∉ st.raw)

/-- store invariant: raw marks are in bounds; every finished fresh cell holds only `OKv` values -/
structure Inv (b : Nat) (st : St) : Prop where
  rawB : ∀ a : Nat, a ∈ st.raw → a < st.cells.length
  edges : ∀ (l : Nat) c, b ≤ l → l ∉ st.raw → st.cells[l]? = some c → ∀ v, v ∈ c.children → OKv b st v

/-- how a computation whose own cells are `≥ N` may change the state -/
structure Ev (b N : Nat) (st st' : St) : Prop where
  bN : b ≤ N
  len : st.cells.length ≤ st'.cells.length
  frame : ∀ l : Nat, l < N → st'.cells[l]? = st.cells[l]?            -- only cells `≥ N` are written
  log : ∀ a : Nat, a ∈ st.log → a ∈ st'.log
  rawNew : ∀ a : Nat, a ∈ st'.raw → a ∈ st.raw ∨ st.cells.length ≤ a     -- no existing cell becomes raw
  rawKeep : ∀ a : Nat, a < N → a ∈ st.raw → a ∈ st'.raw                   -- nobody seals a cell below `N`
  inv : Inv b st → Inv b st'
  /-- the ghost flag "the run left the modelled fragment" is never reset -/
  unmodKeep : st.unmod = true → st'.unmod = true

theorem Ev.refl {b N : Nat} (h : b ≤ N) (st : St) : Ev b N st st :=
  ⟨h, Nat.le_refl _, fun _ _ => rfl, fun _ h => h, fun _ h => Or.inl h, fun _ _ h => h, fun h => h, fun h => h⟩

theorem Ev.trans {b N st1 st2 st3} (h1 : Ev b N st1 st2) (h2 : Ev b N st2 st3) : Ev b N st1 st3 :=
  ⟨h1.bN, Nat.le_trans h1.len h2.len, fun l hl => (h2.frame l hl).trans (h1.frame l hl),
   fun a h => h2.log a (h1.log a h),
   fun a h => (h2.rawNew a h).elim (h1.rawNew a) (fun hl => Or.inr (Nat.le_trans h1.len hl)),
   fun a ha h => h2.rawKeep a ha (h1.rawKeep a ha h),
   fun h => h2.inv (h1.inv h), fun h => h2.unmodKeep (h1.unmodKeep h)⟩

theorem Ev.weaken {b N N' st st'} (h : Ev b N st st') (hN : N' ≤ N) (hb : b ≤ N') : Ev b N' st st' :=
  ⟨hb, h.len, fun l hl => h.frame l (Nat.lt_of_lt_of_le hl hN), h.log, h.rawNew,
   fun a ha => h.rawKeep a (Nat.lt_of_lt_of_le ha hN), h.inv, h.unmodKeep⟩

theorem OKv.mono {b N st st' v} (h : Ev b N st st') (hv : OKv b st v) :
    OKv b st' v := by
  cases v with
  | leaf o => trivial
  | ref a =>
    rcases hv with ⟨h1, h2⟩ | ⟨h1, h2, h3⟩
    · exact Or.inl ⟨h1, h.log a h2⟩
    · refine Or.inr ⟨h1, Nat.lt_of_lt_of_le h2 h.len, ?_⟩
      intro hr
      exact (h.rawNew a hr).elim h3 (fun hl => Nat.lt_irrefl _ (Nat.lt_of_lt_of_le h2 hl))

/-- Hoare triple: from a state satisfying `P` (and the invariant), with `b ≤ N ≤` store length -/
def Spec {α} (b N : Nat) (P : St → Prop) (m : M α) (Q : α → St → Prop) : Prop :=
  ∀ st, P st → b ≤ N → N ≤ st.cells.length → Inv b st →
    Ev b N st (m st).2 ∧ ∀ r, (m st).1 = some r → Q r (m st).2

theorem Spec.ret {α} {b N} {P : St → Prop} (a : α) : Spec b N P (ret a) (fun r st => r = a ∧ P st) := by
  intro st hP hb _ _
  exact ⟨Ev.refl hb _, fun r hr => by simp [Heap.ret] at hr; exact ⟨hr.symm, hP⟩⟩

theorem Spec.raise {α} {b N} {P : St → Prop} {Q : α → St → Prop} : Spec b N P (raise : M α) Q := by
  intro st _ hb _ _
  exact ⟨Ev.refl hb _, fun r hr => by simp [Heap.raise] at hr⟩

theorem Spec.bind {α β} {b N} {P : St → Prop} {m : M α} {Q : α → St → Prop} {f : α → M β}
    {R : β → St → Prop} (hm : Spec b N P m Q) (hf : ∀ a, Spec b N (Q a) (f a) R) :
    Spec b N P (bind m f) R := by
  intro st hP hb hN hI
  have h1 := hm st hP hb hN hI
  unfold Heap.bind
  cases hms : m st with
  | mk r st1 =>
    rw [hms] at h1
    cases r with
    | none => exact ⟨h1.1, fun r hr => by simp at hr⟩
    | some a =>
      have hq := h1.2 a rfl
      have h2 := hf a st1 hq hb (Nat.le_trans hN h1.1.len) (h1.1.inv hI)
      exact ⟨h1.1.trans h2.1, h2.2⟩

theorem Spec.attempt {α} {b N} {P : St → Prop} {m : M α} {Q : α → St → Prop}
    (hm : Spec b N P m Q) (hP : ∀ st st', P st → Ev b N st st' → P st') :
    Spec b N P (attempt m) (fun r st => (∀ a, r = some a → Q a st) ∧ P st) := by
  intro st hp hb hN hI
  have h1 := hm st hp hb hN hI
  unfold Heap.attempt
  cases hms : m st with
  | mk r st1 =>
    rw [hms] at h1
    refine ⟨h1.1, fun r' hr' => ?_⟩
    simp at hr'
    subst hr'
    exact ⟨fun a ha => h1.2 a ha, hP st st1 hp h1.1⟩

theorem Spec.conseq {α} {b N} {P P' : St → Prop} {m : M α} {Q Q' : α → St → Prop}
    (hm : Spec b N P m Q) (hP : ∀ st, P' st → P st) (hQ : ∀ a st, Q a st → Q' a st) :
    Spec b N P' m Q' := by
  intro st hp hb hN hI
  have h1 := hm st (hP st hp) hb hN hI
  exact ⟨h1.1, fun r hr => hQ r _ (h1.2 r hr)⟩

/-- facts that survive every evolution allowed at level `N` can be carried across `m` -/
theorem Spec.frame {α} {b N} {P : St → Prop} {m : M α} {Q : α → St → Prop} (F : St → Prop)
    (hm : Spec b N P m Q) (hF : ∀ st st', F st → Ev b N st st' → F st') :
    Spec b N (fun st => P st ∧ F st) m (fun a st => Q a st ∧ F st) := by
  intro st hp hb hN hI
  have h1 := hm st hp.1 hb hN hI
  exact ⟨h1.1, fun r hr => ⟨h1.2 r hr, hF st _ hp.2 h1.1⟩⟩

/-- a computation that leaves alone everything below `N` certainly leaves alone everything below `N'` -/
theorem Spec.lower {α} {b N N'} {P : St → Prop} {m : M α} {Q : α → St → Prop}
    (hm : Spec b N P m Q) (hNN : N' ≤ N) (hP : ∀ st, P st → N ≤ st.cells.length) :
    Spec b N' P m Q := by
  intro st hp hb hN hI
  by_cases hbN : b ≤ N
  · have h1 := hm st hp hbN (hP st hp) hI
    exact ⟨h1.1.weaken hNN hb, h1.2⟩
  · exact absurd (Nat.le_trans hb hNN) hbN

theorem Spec.withB {α} {b N} {P : St → Prop} {m : M α} {Q : α → St → Prop}
    (h : b ≤ N → Spec b N P m Q) : Spec b N P m Q :=
  fun st hp hb hN hI => h hb st hp hb hN hI

/-- a fact about the final state that holds whether or not the computation raises -/
def SpecT {α} (b N : Nat) (P : St → Prop) (m : M α) (R : St → Prop) : Prop :=
  ∀ st, P st → b ≤ N → N ≤ st.cells.length → Inv b st → R (m st).2

theorem Spec.frameT {α} {b N} {P : St → Prop} {m : M α} {Q : α → St → Prop} (F : St → Prop)
    (hm : Spec b N P m Q) (hF : ∀ st st', F st → Ev b N st st' → F st') :
    SpecT b N (fun st => P st ∧ F st) m F :=
  fun st hp hb hN hI => hF st _ hp.2 (hm st hp.1 hb hN hI).1

theorem SpecT.lower {α} {b N N'} {P : St → Prop} {m : M α} {R : St → Prop}
    (hm : SpecT b N P m R) (hNN : N' ≤ N) (hP : ∀ st, P st → N ≤ st.cells.length) :
    SpecT b N' P m R :=
  fun st hp hb _ hI => hm st hp (Nat.le_trans hb hNN) (hP st hp) hI

theorem SpecT.pre {α} {b N} {P P' : St → Prop} {m : M α} {R : St → Prop}
    (hm : SpecT b N P m R) (hP : ∀ st, P' st → P st) : SpecT b N P' m R :=
  fun st hp hb hN hI => hm st (hP st hp) hb hN hI

/-- `try: m except: …` when what is known afterwards does not depend on the outcome -/
theorem Spec.attempt2 {α} {b N} {P : St → Prop} {m : M α} {Q : α → St → Prop} {R : St → Prop}
    (hm : Spec b N P m Q) (hR : SpecT b N P m R) :
    Spec b N P (Heap.attempt m) (fun r st => (∀ a, r = some a → Q a st) ∧ R st) := by
  intro st hp hb hN hI
  have h1 := hm st hp hb hN hI
  have h2 := hR st hp hb hN hI
  unfold Heap.attempt
  cases hms : m st with
  | mk r st1 =>
    rw [hms] at h1 h2
    refine ⟨h1.1, fun r' hr' => ?_⟩
    simp at hr'
    subst hr'
    exact ⟨fun a ha => h1.2 a ha, h2⟩

end CattrsModel.Heap
