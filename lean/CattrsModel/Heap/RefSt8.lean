import CattrsModel.Heap.RefSt7
/-!
# Refinement, structuring (8): the interpreter `run` computes `stF` at every sufficient fuel
-/
namespace CattrsModel.Heap
open CattrsModel

/-- **`run` refines the pure structuring model**: on an argument that reads as `o` within `k ≤ K` hops, with fuel
`K + dW w + 1`, the calls a structure hook issues (`.st t`, untyped pass-through, default values) return a value that
reads as the pure result — and raise exactly when the pure model fails. -/
theorem run_ref_st (w : World) (hc : HCfg) (hovr : hc.ovr = []) (hw : WLit w) (b : Nat) :
    ∀ K, RecRef w hc.cfg.core b (dW w) K (okcSt w) (fun _ => True) (run w hc (K + dW w + 1)) := by
  intro K
  induction K with
  | zero =>
    exact go 0 (fun j hj => by omega)
  | succ K ih =>
    refine go (K + 1) (fun j hj => ?_)
    have : K + 1 + dW w = K + dW w + 1 := by omega
    rw [this]
    exact ih.mono (by omega)
where
  go (K : Nat) (href : ∀ j, j < K → RecRef w hc.cfg.core b (dW w) j (okcSt w) (fun _ => True) (run w hc (K + dW w))) :
      RecRef w hc.cfg.core b (dW w) K (okcSt w) (fun _ => True) (run w hc (K + dW w + 1)) := by
    intro c x st k o g hx hp hdn hk hok
    have hrec := run_hookOK w hc b (K + dW w)
    have hobj : denote st.cells (K + dW w) x = some o := denote_mono (by omega) hdn
    have hrun : run w hc (K + dW w + 1) c x st = exec w (K + dW w) (run w hc (K + dW w))
        (plan w hc (K + dW w) c x (viewOf st x) (some o)) st := by
      show exec w (K + dW w) (run w hc (K + dW w))
        (plan w hc (K + dW w) c x (viewOf st x) (denote st.cells (K + dW w) x)) st = _
      rw [hobj]
    rw [hrun]
    cases c with
    | st t =>
      have out := planSt_ref w hc hovr hw hrec href t x st k o g hx hp hdn hk hok
      exact ⟨out.ok, fun h _ => out.err h trivial⟩
    | pass =>
      have out := (exec_ident_ref hrec w (K + dW w) x st g hx k o hdn True).mono (Nat.le_add_right k (dW w))
      exact ⟨out.ok, fun h _ => out.err h trivial⟩
    | fresh d =>
      have hd' : hd d ≤ k + dW w := by
        have : hd d ≤ dD w := hok
        simp only [dW]; omega
      have out := exec_fresh_ref hrec w (K + dW w) d st g (k + dW w) hd' True
      exact ⟨out.ok, fun h _ => out.err h trivial⟩
    | un t => exact hok.elim
    | unAny => exact hok.elim

end CattrsModel.Heap
