import CattrsModel.Heap.RefUn5
/-!
# Refinement of the unstructure hooks, part 6: the shapes of an argument; dispatch on the run-time class (`planUnAny`)
-/
namespace CattrsModel.Heap
open CattrsModel

/-- the five ways an old, proper argument `v` (seen through its cell `view`) reads as `o` within `k` hops -/
inductive Shp (b : Nat) (st : St) : Nat → HVal → Option Cell → Obj → Prop where
  | leaf (k : Nat) (o : Obj) : isLeafObj o = true → Shp b st k (.leaf o) none o
  | coll (k0 : Nat) (l : Loc) (ck : CK) (xs : List HVal) (os : List Obj) : l < b →
      st.cells[l]? = some (.coll ck xs) → denoteL st.cells k0 xs = some os →
      Shp b st (k0 + 1) (.ref l) (some (.coll ck xs)) (.coll ck os)
  | dict (k0 : Nat) (l : Loc) (kvs : List (HVal × HVal)) (os : List (Obj × Obj)) : l < b →
      st.cells[l]? = some (.dict kvs) → denoteKV st.cells k0 kvs = some os →
      Shp b st (k0 + 1) (.ref l) (some (.dict kvs)) (.dict os)
  | inst (k0 : Nat) (l : Loc) (c : Nat) (fs : List (String × HVal)) (os : List (String × Obj)) : l < b →
      st.cells[l]? = some (.inst c fs) → denoteF st.cells k0 fs = some os →
      Shp b st (k0 + 1) (.ref l) (some (.inst c fs)) (.inst c os)
  | opq (k0 : Nat) (l : Loc) (m : Nat) : l < b → st.cells[l]? = some (.opaque m) →
      Shp b st (k0 + 1) (.ref l) (some (.opaque m)) (.opaque m)

theorem shp_of {b : Nat} {st : St} {k : Nat} {v : HVal} {o : Obj} (hv : ArgOld b v) (hp : Proper v)
    (hd : denote st.cells k v = some o) : Shp b st k v (viewOf st v) o := by
  rcases denote_cases hd with ⟨rfl, hview⟩ | ⟨l, k0, c, rfl, rfl, hc, hview, hcd⟩
  · rw [hview]; exact Shp.leaf k o (hp o rfl)
  · rw [hview]
    have hl : l < b := hv
    cases c with
    | coll ck xs =>
      obtain ⟨os, hos, rfl⟩ := Option.map_eq_some_iff.1 hcd
      exact Shp.coll k0 l ck xs os hl hc hos
    | dict kvs =>
      obtain ⟨os, hos, rfl⟩ := Option.map_eq_some_iff.1 hcd
      exact Shp.dict k0 l kvs os hl hc hos
    | inst c fs =>
      obtain ⟨os, hos, rfl⟩ := Option.map_eq_some_iff.1 hcd
      exact Shp.inst k0 l c fs os hl hc hos
    | «opaque» m =>
      simp only [cellDen, Option.some.injEq] at hcd
      subst hcd
      exact Shp.opq k0 l m hl hc

/-- the hook is the identity on this argument and so is the pure model -/
theorem ident_ref {b : Nat} {rec : Rec} (hrec : HookOK b rec) (w : World) (fuel : Nat) {v : HVal} {st : St}
    (g : Good b st) (hv : ArgOld b v) {k : Nat} {o : Obj} (hd : denote st.cells k v = some o)
    {p : Prog} {y : Obj} (hp : p = .ident v) (hy : y = o) :
    Outcome b st (exec w fuel rec p st) k (some y) False := by
  rw [hp, hy]
  exact exec_ident_ref hrec w fuel v st g hv k o hd False

theorem leafProg_ref {b : Nat} {rec : Rec} (w : World) (fuel : Nat) {st : St} (g : Good b st) (k : Nat)
    {p : Prog} {r y : Obj} (hp : p = .leaf r) (hy : y = r) :
    Outcome b st (exec w fuel rec p st) k (some y) False := by
  rw [hp, hy]
  exact exec_leaf_ref w fuel rec r st g k False

/-- everything the case lemmas share -/
structure Ctx (w : World) (hc : HCfg) (b Ks n : Nat) (rec : Rec) : Prop where
  hw : WorldOK w
  hovr : hc.ovr = []
  hrec : HookOK b rec
  href : RecRef w hc.cfg.core b 0 Ks (okcUn w hc) (fun _ => False) rec
  hKs : Ks ≤ n

/-- **dispatch on the run-time class** -/
theorem unAny_ref {w : World} {hc : HCfg} {b Ks n : Nat} {rec : Rec} (cx : Ctx w hc b Ks n rec)
    {st : St} (g : Good b st) {v : HVal} {k : Nat} {o : Obj} (hv : ArgOld b v) (hd : denote st.cells k v = some o)
    {view : Option Cell} (hs : Shp b st k v view o) (hk : k ≤ Ks + 1) (hok : OKU w o = true) :
    Outcome b st (exec w n rec (planUnAny w hc n v view) st) k (some (unAny w hc.cfg.core o)) False := by
  cases hs with
  | leaf k o hl =>
    cases o with
    | enumM e m => exact leafProg_ref w n g k (by simp only [planUnAny]) (unAny_enum ..)
    | coll => simp [isLeafObj] at hl
    | dict => simp [isLeafObj] at hl
    | mdict => simp [isLeafObj] at hl
    | inst => simp [isLeafObj] at hl
    | «opaque» => simp [isLeafObj] at hl
    | _ => exact ident_ref cx.hrec w n g hv hd (by simp only [planUnAny]) (by simp only [unAny])
  | coll k0 l ck xs os hl hcell hos =>
    have hk0 : k0 ≤ Ks := by omega
    simp only [OKU] at hok
    simp only [planUnAny]
    refine build_un_ref cx.hrec (cx.href.mono hk0) n (by have := cx.hKs; omega) _ _ _ _ st g
      (tf_map_unAny w hc xs os (fun x hx => OP.child g hl hcell hx) hos hok) _ (fun y hy => ?_)
    rw [asmPure_coll hy, unAny_coll]; rfl
  | dict k0 l kvs os hl hcell hos =>
    have hk0 : k0 ≤ Ks := by omega
    simp only [OKU, Bool.and_eq_true] at hok
    simp only [planUnAny]
    refine build_un_ref cx.hrec (cx.href.mono hk0) n (by have := cx.hKs; omega) _ _ _ _ st g
      (tf_kv_unAny w hc kvs os (fun x hx => OP.child g hl hcell hx) hos hok.2) _ (fun y hy => ?_)
    rw [asmPure_dict hy, unAny_dict]
  | inst k0 l c fs os hl hcell hos =>
    have hk0 : k0 ≤ Ks := by omega
    simp only [OKU, Bool.and_eq_true, Bool.not_eq_true'] at hok
    simp only [planUnAny, hok.1.1, Bool.false_eq_true, if_false]
    rw [unAny_inst w _ c os hok.1.1]
    exact clsUn_ref cx.hw cx.hrec (cx.href.mono hk0) n (by have := cx.hKs; omega) st g c fs os
      (fun x hx => OP.child g hl hcell hx) hos hok.1.2 hok.2
  | opq k0 l m hl hcell =>
    exact ident_ref cx.hrec w n g hv hd (by simp only [planUnAny]) (unAny_opaque ..)

end CattrsModel.Heap
