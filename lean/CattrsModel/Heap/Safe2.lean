import CattrsModel.Heap.Safe
/-!
# Every program of the family respects the invariant (part 2: `runTasks`, `build`)
-/
namespace CattrsModel.Heap
open CattrsModel

theorem oldClosed_stable {b N : Nat} : ∀ st st', OldClosed b st → Ev b N st st' → OldClosed b st' :=
  fun _ _ h e => h.ev e

theorem runTasks_spec {b N : Nat} {rec : Rec} (hrec : HookOK b rec) (det : Bool) :
    ∀ tasks : List (Call × HVal), (∀ t, t ∈ tasks → ArgOld b t.2) →
      Spec b N (OldClosed b) (runTasks rec det tasks) (fun ys st => OldClosed b st ∧ AllOK b ys st)
  | [], _ => by
    unfold runTasks
    exact Spec.conseq (Spec.ret _) (fun _ h => h)
      (fun a st h => by rw [h.1]; exact ⟨h.2, fun v hv => by simp at hv⟩)
  | (c, x) :: ts, hts => by
    have ih := runTasks_spec (N := N) hrec det ts (fun t ht => hts t (List.mem_cons_of_mem _ ht))
    unfold runTasks
    refine Spec.bind (Spec.attempt (hrec N c x (hts (c, x) (List.mem_cons_self ..))) oldClosed_stable) (fun r => ?_)
    cases r with
    | none =>
      show Spec b N _ (if det then _ else _) _
      split
      · exact Spec.bind (Spec.conseq (Spec.attempt ih oldClosed_stable) (fun _ h => h.2) (fun _ _ h => h))
          (fun _ => Spec.raise)
      · exact Spec.raise
    | some y =>
      show Spec b N _ (bind (runTasks rec det ts) _) _
      refine Spec.bind (Spec.conseq (Spec.frame (fun st => OKv b st y) ih (fun _ _ h e => OKv.mono e h))
        (fun st h => ⟨h.2, (h.1 y rfl).2⟩) (fun _ _ h => h)) (fun ys => ?_)
      refine Spec.conseq (Spec.ret _) (fun _ h => h) (fun rs st h => ?_)
      rw [h.1]
      refine ⟨h.2.1.1, fun v hv => ?_⟩
      simp only [List.mem_cons] at hv
      rcases hv with rfl | hv
      · exact h.2.2
      · exact h.2.1.2 v hv

/-- what `buildLoc` guarantees about the container it allocated -/
def BuiltOK (b N : Nat) (lc : Loc × Cell) (st : St) : Prop :=
  OldClosed b st ∧ OKv b st (.ref lc.1) ∧ N ≤ lc.1 ∧ AllOK b lc.2.children st

theorem buildLoc_spec {b N : Nat} {rec : Rec} (hrec : HookOK b rec) (w : World) (fuel : Nat)
    (det doomed : Bool) (sh : Shape) (tasks : List (Call × HVal)) (hts : ∀ t, t ∈ tasks → ArgOld b t.2) :
    Spec b N (OldClosed b) (buildLoc w fuel rec det doomed sh tasks) (BuiltOK b N) := by
  unfold buildLoc
  refine Spec.bind (runTasks_spec hrec det tasks hts) (fun ys => ?_)
  split
  · exact Spec.raise
  · refine Spec.bind (Spec.readonly (assemble w fuel sh ys) (assemble_state w fuel sh ys)) (fun c => ?_)
    have hstab : ∀ st st', (OldClosed b st ∧ AllOK b c.children st) → Ev b N st st' →
        (OldClosed b st' ∧ AllOK b c.children st') := fun _ _ h e => ⟨h.1.ev e, h.2.mono e⟩
    refine Spec.bind (Spec.conseq (Spec.alloc c hstab) (fun st h => ?_) (fun _ _ h => h)) (fun l => ?_)
    · have hc : AllOK b c.children st := fun v hv => h.1.2 v (assemble_children w fuel sh ys st c h.2 v hv)
      exact ⟨⟨h.1.1, hc⟩, hc⟩
    · refine Spec.conseq (Spec.ret _) (fun _ h => h) (fun lc st h => ?_)
      rw [h.1]
      exact ⟨h.2.1.1, h.2.2.1, h.2.2.2.1, h.2.1.2⟩

end CattrsModel.Heap
