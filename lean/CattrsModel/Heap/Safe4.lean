import CattrsModel.Heap.Safe3
/-!
# Part 4: every safe program of the family
-/
namespace CattrsModel.Heap
open CattrsModel

/-- the values of the argument a program mentions -/
def Prog.vals : Prog → List HVal
  | .ident v => [v]
  | .build _ _ _ tasks => tasks.map (·.2)
  | .copyPatch _ _ _ src c0 ps =>
      .ref src :: ((Cell.dict c0).children ++ ps.filterMap (fun p => p.call.map (·.2.1)))
  | .popCopy c0 _ inner => (Cell.dict c0).children ++ inner.vals
  | .popInPlace src _ inner => .ref src :: inner.vals
  | .tagInsert _ _ _ tasks _ _ => tasks.map (·.2)
  | _ => []

/-- the program was planned on a value of the caller -/
def Prog.WF (b : Nat) (p : Prog) : Prop := ∀ x, x ∈ p.vals → ArgOld b x

theorem tasks_old {b : Nat} {tasks : List (Call × HVal)} (h : ∀ x, x ∈ tasks.map (·.2) → ArgOld b x) :
    ∀ t, t ∈ tasks → ArgOld b t.2 :=
  fun t ht => h t.2 (List.mem_map.2 ⟨t, ht, rfl⟩)

theorem okv_set {b : Nat} {st : St} {l : Loc} {c : Cell} {v : HVal} (h : OKv b st v) :
    OKv b { st with cells := st.cells.set l c } v :=
  OKv.of_same st _ (fun _ h => h) (fun _ _ h => h) (by simp) h

theorem oldClosed_set {b : Nat} {st : St} {l : Loc} {c : Cell} (hbl : b ≤ l) (h : OldClosed b st) :
    OldClosed b { st with cells := st.cells.set l c } := by
  intro l' c' hl hc v hv
  have hne : l ≠ l' := Nat.ne_of_gt (Nat.lt_of_lt_of_le hl hbl)
  have hc : (st.cells.set l c)[l']? = some c' := hc
  rw [List.getElem?_set_ne hne] at hc
  exact h l' c' hl hc v hv

/-- the result of a hook: the caller's cells still only reference the caller's cells, and the
result value is immutable, a logged pass-through, or a finished fresh cell -/
def ResOK (b : Nat) (r : HVal) (st : St) : Prop := OldClosed b st ∧ OKv b st r

theorem exec_spec {b : Nat} {rec : Rec} (hrec : HookOK b rec) (w : World) (fuel : Nat) :
    ∀ (p : Prog) (N : Nat), p.safe = true → p.WF b → Spec b N (OldClosed b) (exec w fuel rec p) (ResOK b)
  | .fail, N, _, _ => by unfold exec; exact Spec.raise
  | .unmodelled, N, _, _ => by
    unfold exec
    intro st _ hb _ _
    exact ⟨⟨hb, Nat.le_refl _, fun _ _ => rfl, fun _ h => h, fun _ h => Or.inl h, fun _ _ h => h,
      fun h => ⟨h.rawB, h.edges⟩, fun _ => rfl⟩, fun r hr => by simp at hr⟩
  | .ident v, N, _, hwf => by
    unfold exec
    have hv : ArgOld b v := hwf v (by simp [Prog.vals])
    refine Spec.bind (Spec.logIdent (P' := OldClosed b) v (fun _ h => h) (fun _ _ h => h)) (fun _ => ?_)
    refine Spec.conseq (Spec.ret _) (fun _ h => h) (fun r st h => ?_)
    rw [h.1]
    refine ⟨h.2.1, ?_⟩
    cases v with
    | leaf o => trivial
    | ref a => exact Or.inl ⟨hv, h.2.2 a rfl⟩
  | .leaf o, N, _, _ => by unfold exec; exact leaf_ret oldClosed_stable o
  | .fresh o, N, _, _ => by unfold exec; exact inject_spec oldClosed_stable o
  | .build det doomed sh tasks, N, _, hwf => by
    unfold exec
    refine Spec.bind (buildLoc_spec hrec w fuel det doomed sh tasks (tasks_old hwf)) (fun lc => ?_)
    exact Spec.conseq (Spec.ret _) (fun _ h => h) (fun r st h => by rw [h.1]; exact ⟨h.2.1, h.2.2.1⟩)
  | .tagInsert det doomed sh tasks name tag, N, _, hwf => by
    unfold exec
    refine Spec.withB (fun hbN => ?_)
    refine Spec.bind (buildLoc_spec hrec w fuel det doomed sh tasks (tasks_old hwf)) (fun lc => ?_)
    cases hc : lc.2 with
    | dict kvs =>
      simp only []
      refine Spec.bind (Q := fun _ st => ResOK b (.ref lc.1) st)
        (Spec.conseq (Spec.write (P := fun st => ResOK b (.ref lc.1) st ∧ b ≤ lc.1) lc.1
          (.dict (dictSetS kvs name (.leaf tag)))
          (fun st h _ => ⟨oldClosed_set h.2 h.1.1, okv_set h.1.2⟩))
          (fun st h => ⟨⟨⟨h.1, h.2.1⟩, Nat.le_trans hbN h.2.2.1⟩, h.2.2.1, Or.inr (fun x hx => ?_)⟩)
          (fun _ _ h => h)) (fun _ => ?_)
      · obtain ⟨kv, hkv, hxkv⟩ := mem_dict_children.1 hx
        have hall := h.2.2.2
        rw [hc] at hall
        have := dictSetS_pres (fun z => OKv b st z) kvs name (.leaf tag)
          (fun kv' hkv' => ⟨hall _ (mem_dict_children.2 ⟨kv', hkv', Or.inl rfl⟩),
                            hall _ (mem_dict_children.2 ⟨kv', hkv', Or.inr rfl⟩)⟩) trivial trivial kv hkv
        rcases hxkv with rfl | rfl
        · exact this.1
        · exact this.2
      · exact Spec.conseq (Spec.ret _) (fun _ h => h) (fun r st h => by rw [h.1]; exact h.2)
    | _ => simp only []; exact Spec.raise
  | .popCopy c0 c1 inner, N, hs, hwf => by
    have hs' : inner.safe = true := by simpa [Prog.safe] using hs
    have hwf' : inner.WF b := fun x hx => hwf x (by simp [Prog.vals, hx])
    unfold exec
    refine Spec.bind (Spec.allocRaw (.dict c0) oldClosed_stable) (fun cp => ?_)
    refine Spec.bind (Q := fun _ st => OldClosed b st)
      (Spec.conseq (Spec.write (P := fun st => OldClosed b st ∧ b ≤ cp) cp (.dict c1)
        (fun st h _ => oldClosed_set h.2 h.1))
        (fun st h => ⟨⟨h.1, h.2.2.2.2.1⟩, h.2.1, Or.inl h.2.2.2.1⟩) (fun _ _ h => h)) (fun _ => ?_)
    exact exec_spec hrec w fuel inner N hs' hwf'
  | .popInPlace _ _ _, N, hs, _ => by simp [Prog.safe] at hs
  | .copyPatch det doomed inPlace src c0 ps, N, hs, hwf => by
    have hin : inPlace = false := by simpa [Prog.safe] using hs
    subst hin
    have hc0 : ∀ x, x ∈ (Cell.dict c0).children → ArgOld b x := fun x hx =>
      hwf x (by simp only [Prog.vals, List.mem_cons, List.mem_append]; exact Or.inr (Or.inl hx))
    have hps : ∀ p, p ∈ ps → ∀ c x k, p.call = some (c, x, k) → ArgOld b x := fun p hp c x k hk =>
      hwf x (by
        simp only [Prog.vals, List.mem_cons, List.mem_append, List.mem_filterMap]
        exact Or.inr (Or.inr ⟨p, hp, by simp [hk]⟩))
    unfold exec
    simp only [Bool.false_eq_true, if_false]
    refine Spec.bind (Spec.allocRaw (.dict c0) oldClosed_stable) (fun target => ?_)
    refine Spec.withB (fun hbN => ?_)
    by_cases hNt : N ≤ target
    · refine Spec.bind (Spec.conseq (runPatches_spec hrec det target hNt c0 ps c0 false hps)
        (fun st h => ⟨h.2.2.2.2.1, h.1, h.2.2.1, h.2.2.2.1, fun x hx => Or.inl hx, h.2.2.2.2.2⟩)
        (fun _ _ h => h)) (fun r => ?_)
      split
      · exact Spec.raise
      · refine Spec.bind (logAll_spec (survivors c0 r.1) (Patching b target c0 r.1) (fun st a h => h.log a)) (fun _ => ?_)
        refine Spec.bind (Spec.conseq (Spec.sealRaw (P := OldClosed b) target oldClosed_stable)
          (fun st h => ⟨h.1.closed, hNt, h.1.lt, fun c hc v hv => ?_⟩) (fun _ _ h => h)) (fun _ => ?_)
        · rw [h.1.here] at hc
          cases hc
          rcases h.1.vals v hv with h0 | h0
          · have hsurv : v ∈ survivors c0 r.1 := by
              unfold survivors
              exact List.mem_filter.2 ⟨hv, by simpa using h0⟩
            cases v with
            | leaf o => trivial
            | ref a => exact Or.inl ⟨hc0 _ h0, h.2 _ hsurv a rfl⟩
          · exact h0
        · exact Spec.conseq (Spec.ret _) (fun _ h => h) (fun r st h => by rw [h.1]; exact h.2)
    · -- impossible: `allocRaw` returned a location `≥ N`
      intro st h
      exact absurd h.2.1 hNt

end CattrsModel.Heap
