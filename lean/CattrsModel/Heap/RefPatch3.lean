import CattrsModel.Heap.RefPatch2
/-!
# Refinement, part 8: the program `copyPatch` (`res = o.copy()`, patch `res`, `return res`)
-/
namespace CattrsModel.Heap
open CattrsModel

theorem logAll_cells : ∀ (vs : List HVal) (st : St), (logAll vs st).1 = some () ∧ (logAll vs st).2.cells = st.cells
  | [], st => by unfold logAll; exact ⟨rfl, rfl⟩
  | v :: vs, st => by
    unfold logAll
    cases v with
    | leaf o =>
      simp only [Heap.bind, Heap.logPass]
      exact logAll_cells vs st
    | ref a =>
      simp only [Heap.bind, Heap.logPass]
      exact logAll_cells vs _

/-- the pure counterpart of `Prog.copyPatch` (safe variant, no deletions) -/
def copyPatchPure (w : World) (cfg : Cfg) (den : HVal → Option Obj) (doomed : Bool) (patches : List Patch)
    (c0O : List (Obj × Obj)) : Option Obj :=
  if doomed then none else (patchPure w cfg den patches c0O).map .dict

theorem exec_copyPatch_ref {w : World} {cfg : Cfg} {b W K : Nat} {okc : Call → Obj → Prop} {tot : Call → Prop}
    {rec : Rec} (hrec : HookOK b rec) (href : RecRef w cfg b W K okc tot rec) (fuel : Nat)
    (det doomed : Bool) (src : Loc) (c0 : List (HVal × HVal)) (patches : List Patch) (den : HVal → Option Obj)
    (c0O : List (Obj × Obj)) (st : St) (g : Good b st) (hsrc : src < b)
    (hc0 : ∀ kv, kv ∈ c0 → ArgOld b kv.1 ∧ ArgOld b kv.2) (hden : denoteKV st.cells K c0 = some c0O)
    (hok : PatchesOK b K okc den st.cells patches) :
    Outcome b st (exec w fuel rec (.copyPatch det doomed false src c0 patches) st) (K + W + 1)
      (copyPatchPure w cfg den doomed patches c0O) (PatchesTot tot patches) := by
  have hwf : (Prog.copyPatch det doomed false src c0 patches).WF b := by
    intro x hx
    simp only [Prog.vals, List.mem_cons, List.mem_append, List.mem_filterMap] at hx
    rcases hx with rfl | hx | ⟨p, hp, hpx⟩
    · exact hsrc
    · obtain ⟨kv, hkv, hx⟩ := mem_dict_children.1 hx
      rcases hx with rfl | rfl
      · exact (hc0 kv hkv).1
      · exact (hc0 kv hkv).2
    · cases hcall : p.call with
      | none => rw [hcall] at hpx; simp at hpx
      | some t =>
        obtain ⟨c, x', key⟩ := t
        rw [hcall] at hpx
        simp only [Option.map_some, Option.some.injEq] at hpx
        subst hpx
        exact ((hok p hp).2 c x' key hcall).1
  have hev := (exec_spec hrec w fuel _ st.cells.length rfl hwf st g.oc g.le (Nat.le_refl _) g.inv).1
  -- the copy
  have hsa := Spec.allocRaw (b := b) (N := st.cells.length) (P := fun _ => True) (.dict c0)
    (fun _ _ _ _ => trivial) st trivial g.le (Nat.le_refl _) g.inv
  have hT : allocRaw (.dict c0) st =
      (some st.cells.length, { st with cells := st.cells ++ [.dict c0], raw := st.cells.length :: st.raw }) := rfl
  rw [hT] at hsa
  have hp1 : Pre st.cells (st.cells ++ [Cell.dict c0]) := Pre.append _ _
  have hinv1 : PatchInv b st.cells.length (K + W) c0 c0O
      { st with cells := st.cells ++ [.dict c0], raw := st.cells.length :: st.raw } :=
    ⟨g.ev hsa.1, by simp, List.mem_cons_self .., getElem?_append_self _ _,
     fun kv hkv => ⟨Or.inl (hc0 kv hkv).1, Or.inl (hc0 kv hkv).2⟩,
     denoteKV_transfer (fun _ _ hd => denote_pre_mono hp1 K (K + W) _ _ (Nat.le_add_right _ _) hd) _ _ hden⟩
  have hok1 : PatchesOK b K okc den (st.cells ++ [Cell.dict c0]) patches :=
    hok.transfer (fun _ _ _ hd => denote_pre hp1 hd)
  have hrp := runPatches_ref hrec href det st.cells.length g.le den patches c0 c0O false _ hinv1 hok1
  refine ⟨hev, ?_, ?_⟩ <;> clear hev
  · intro r hr
    unfold exec at hr ⊢
    simp only [Bool.false_eq_true, if_false, Heap.bind, hT] at hr ⊢
    cases hrun : runPatches rec det st.cells.length patches c0 false
        { st with cells := st.cells ++ [.dict c0], raw := st.cells.length :: st.raw } with
    | mk rr st2 =>
      rw [hrun] at hrp hr
      simp only at hrp hr ⊢
      cases rr with
      | none => simp at hr
      | some cf =>
        obtain ⟨cfl, ff⟩ := cf
        simp only at hr ⊢
        cases ff with
        | true => simp [Heap.raise] at hr
        | false =>
          cases doomed with
          | true => simp [Heap.raise] at hr
          | false =>
            obtain ⟨_, cfO, hpp, hinv2⟩ := ((hrp.1 cfl false rfl).1 rfl)
            simp only [Bool.or_self, Bool.false_eq_true, if_false, Heap.bind] at hr ⊢
            have hl := logAll_cells (survivors c0 cfl) st2
            cases hlog : logAll (survivors c0 cfl) st2 with
            | mk lr st3 =>
              rw [hlog] at hl hr
              simp only at hl hr ⊢
              obtain ⟨hl1, hl2⟩ := hl
              subst hl1
              simp only [Heap.sealRaw, Heap.ret, Option.some.injEq] at hr ⊢
              subst hr
              refine ⟨.dict cfO, by simp only [copyPatchPure, Bool.false_eq_true, if_false, hpp, Option.map_some], ?_⟩
              show denote st3.cells (K + W + 1) (.ref st.cells.length) = some (.dict cfO)
              rw [hl2, denote_ref_cell hinv2.cell]
              simp only [cellDen, hinv2.den, Option.map_some]
  · intro hr htot hu
    unfold exec at hr hu
    simp only [Bool.false_eq_true, if_false, Heap.bind, hT] at hr hu
    cases hrun : runPatches rec det st.cells.length patches c0 false
        { st with cells := st.cells ++ [.dict c0], raw := st.cells.length :: st.raw } with
    | mk rr st2 =>
      rw [hrun] at hrp hr hu
      simp only at hrp hr hu
      cases rr with
      | none =>
        simp only [copyPatchPure, hrp.2.1 rfl htot hu, Option.map_none, ite_self]
      | some cf =>
        obtain ⟨cfl, ff⟩ := cf
        simp only at hr
        cases ff with
        | true =>
          have := ((hrp.1 cfl true rfl).2 rfl)
          rcases this with h | h
          · simp at h
          · simp only [Bool.true_or, if_true, Heap.raise] at hu
            simp only [copyPatchPure, h htot hu, Option.map_none, ite_self]
        | false =>
          cases doomed with
          | true => simp only [copyPatchPure, if_true]
          | false =>
            exfalso
            simp only [Bool.or_self, Bool.false_eq_true, if_false, Heap.bind] at hr
            have hl := logAll_cells (survivors c0 cfl) st2
            cases hlog : logAll (survivors c0 cfl) st2 with
            | mk lr st3 =>
              rw [hlog] at hl hr
              simp only at hl hr
              obtain ⟨hl1, _⟩ := hl
              subst hl1
              simp [Heap.sealRaw, Heap.ret] at hr

end CattrsModel.Heap
