import CattrsModel.Heap.FreshExec
import CattrsModel.Heap.Documented3
/-!
# Provenance logic: the late-bound interpreter `run` on the F34-free region

`f34free w hc D cs0 n call v` — **the F34-free region**, a condition on the argument (in the caller's store `cs0`),
the world and the configuration only: at the position `(call, v)` and, hereditarily, at every sub-hook position the
hook construction reaches from it (fuel `n`, exactly the recursion of `run`), the planned program has no
TypedDict extras (`Prog.NoExtras D`).  It is well defined on the caller's store because `run` never changes the
caller's cells (frame) and only ever calls sub-hooks on the caller's values.
-/
namespace CattrsModel.Heap
open CattrsModel

/-! ### reading the caller's part of the store -/

section
variable {b : Nat} {cs cs' : List Cell}

theorem denoteL_frame' {n : Nat} (ih : ∀ v, ArgOld b v → denote cs' n v = denote cs n v) :
    ∀ xs : List HVal, (∀ x, x ∈ xs → ArgOld b x) → denoteL cs' n xs = denoteL cs n xs
  | [], _ => by simp only [denoteL]
  | x :: xs, h => by
    simp only [denoteL, ih x (h x (List.mem_cons_self ..)),
      denoteL_frame' ih xs (fun y hy => h y (List.mem_cons_of_mem _ hy))]

theorem denoteKV_frame' {n : Nat} (ih : ∀ v, ArgOld b v → denote cs' n v = denote cs n v) :
    ∀ kvs : List (HVal × HVal), (∀ kv, kv ∈ kvs → ArgOld b kv.1 ∧ ArgOld b kv.2) →
      denoteKV cs' n kvs = denoteKV cs n kvs
  | [], _ => by simp only [denoteKV]
  | (k, v) :: rest, h => by
    simp only [denoteKV, ih k (h (k, v) (List.mem_cons_self ..)).1, ih v (h (k, v) (List.mem_cons_self ..)).2,
      denoteKV_frame' ih rest (fun y hy => h y (List.mem_cons_of_mem _ hy))]

theorem denoteF_frame' {n : Nat} (ih : ∀ v, ArgOld b v → denote cs' n v = denote cs n v) :
    ∀ fs : List (String × HVal), (∀ p, p ∈ fs → ArgOld b p.2) → denoteF cs' n fs = denoteF cs n fs
  | [], _ => by simp only [denoteF]
  | (s, v) :: rest, h => by
    simp only [denoteF, ih v (h (s, v) (List.mem_cons_self ..)),
      denoteF_frame' ih rest (fun y hy => h y (List.mem_cons_of_mem _ hy))]

/-- the pure value behind a caller's value only depends on the caller's cells -/
theorem denote_frame (hfr : ∀ l : Nat, l < b → cs'[l]? = cs[l]?)
    (hcl : ∀ (l : Nat) c, l < b → cs[l]? = some c → ∀ v, v ∈ c.children → ArgOld b v) :
    ∀ (n : Nat) (v : HVal), ArgOld b v → denote cs' n v = denote cs n v
  | n, .leaf o, _ => by cases n <;> simp only [denote]
  | 0, .ref _, _ => by simp only [denote]
  | n + 1, .ref l, hv => by
    have ih := denote_frame hfr hcl n
    simp only [denote, hfr l hv]
    cases hc : cs[l]? with
    | none => rfl
    | some c =>
      have hch := hcl l c hv hc
      cases c with
      | coll k xs => simp only [denoteL_frame' ih xs hch]
      | dict kvs =>
        simp only [denoteKV_frame' ih kvs (fun kv hkv =>
          ⟨hch _ (mem_dict_children.2 ⟨kv, hkv, Or.inl rfl⟩), hch _ (mem_dict_children.2 ⟨kv, hkv, Or.inr rfl⟩)⟩)]
      | inst c fs =>
        simp only [denoteF_frame' ih fs (fun p hp => hch _ (by
          simp only [Cell.children, List.mem_map]; exact ⟨p, hp, rfl⟩))]
      | «opaque» k => rfl

end

theorem calls_vals : ∀ (p : Prog) (t : Call × HVal), t ∈ p.calls → t.2 ∈ p.vals
  | .build _ _ _ tasks, t, h => List.mem_map.2 ⟨t, h, rfl⟩
  | .tagInsert _ _ _ tasks _ _, t, h => List.mem_map.2 ⟨t, h, rfl⟩
  | .copyPatch _ _ _ src c0 ps, t, h => by
    simp only [Prog.calls, List.mem_filterMap] at h
    obtain ⟨p, hp, hpt⟩ := h
    simp only [Prog.vals, List.mem_cons, List.mem_append, List.mem_filterMap]
    refine Or.inr (Or.inr ⟨p, hp, ?_⟩)
    cases hc : p.call with
    | none => rw [hc] at hpt; simp at hpt
    | some cxk =>
      rw [hc] at hpt
      simp only [Option.map_some, Option.some.injEq] at hpt
      rw [← hpt]
      rfl
  | .popCopy c0 _ inner, t, h => by
    simp only [Prog.vals, List.mem_append]
    exact Or.inr (calls_vals inner t h)
  | .popInPlace src _ inner, t, h => List.mem_cons_of_mem _ (calls_vals inner t h)
  | .fail, _, h => by simp [Prog.calls] at h
  | .unmodelled, _, h => by simp [Prog.calls] at h
  | .ident _, _, h => by simp [Prog.calls] at h
  | .leaf _, _, h => by simp [Prog.calls] at h
  | .fresh _, _, h => by simp [Prog.calls] at h

/-- **the F34-free region** (see the header) -/
def f34free (w : World) (hc : HCfg) (D : Nat → Prop) (cs0 : List Cell) : Nat → Call → HVal → Prop
  | 0, _, _ => True
  | n + 1, c, v =>
    (plan w hc n c v (viewOf { cells := cs0 } v) (denote cs0 n v)).NoExtras D ∧
    ∀ t, t ∈ (plan w hc n c v (viewOf { cells := cs0 } v) (denote cs0 n v)).calls → f34free w hc D cs0 n t.1 t.2

/-- what is known about a location in the provenance log: it was the argument at a documented position -/
def JDoc (w : World) (hc : HCfg) (cs0 : List Cell) (a : Nat) : Prop :=
  ∃ n call, DocPos w hc n call (.ref a) (viewOf { cells := cs0 } (.ref a))

theorem viewOf_base {b : Nat} {cs0 : List Cell} {st : St} (hB : Base b cs0 st) {v : HVal} (hv : ArgOld b v) :
    viewOf st v = viewOf { cells := cs0 } v := by
  cases v with
  | leaf o => rfl
  | ref a => exact hB.fr a hv

theorem plan_identJ (w : World) (hc : HCfg) (cs0 : List Cell) (n : Nat) (c : Call) (v : HVal) (obj : Option Obj) :
    (plan w hc n c v (viewOf { cells := cs0 } v) obj).IdentJ (JDoc w hc cs0) := by
  have hflat := plan_flat w hc n c v (viewOf { cells := cs0 } v) obj
  cases hp : plan w hc n c v (viewOf { cells := cs0 } v) obj with
  | ident v' =>
    cases v' with
    | leaf o => trivial
    | ref a =>
      have := ident_only_at_documented_positions w hc n c v _ obj _ hp
      have hv : v = .ref a := this.1.symm
      subst hv
      exact ⟨n, c, this.2⟩
  | popCopy c0 c1 inner => rw [hp] at hflat; cases hflat
  | popInPlace src c1 inner => rw [hp] at hflat; cases hflat
  | _ => trivial

/-- **`run` respects the provenance discipline on the F34-free region**, for every fuel -/
theorem run_good (w : World) (hc : HCfg) (D : Nat → Prop) (b : Nat) (cs0 : List Cell)
    (hcl : OldClosed b { cells := cs0 }) :
    ∀ n, GoodRec b cs0 D (JDoc w hc cs0) (run w hc n) (fun c x => f34free w hc D cs0 n c x ∧ ArgOld b x)
  | 0 => fun c x _ => by
    show Sp b cs0 D _ _ (raise : M HVal) _
    exact Sp.raise
  | n + 1 => fun c x hS => by
    intro st _ hB
    have hview := viewOf_base hB hS.2
    have hden : denote st.cells n x = denote cs0 n x := denote_frame hB.fr hcl n x hS.2
    have hrun : run w hc (n + 1) c x st
        = exec w n (run w hc n) (plan w hc n c x (viewOf st x) (denote st.cells n x)) st := rfl
    rw [hrun, hview, hden]
    have hpl := plan_planned w hc n c x (viewOf { cells := cs0 } x) (denote cs0 n x)
    refine exec_sp (run_good w hc D b cs0 hcl n) w n _ hpl.1 hS.1.1 (plan_identJ w hc cs0 n c x _) (fun t ht => ?_)
      st trivial hB
    refine ⟨hS.1.2 t ht, ?_⟩
    rcases hpl.2 t.2 (calls_vals _ t ht) with h | ⟨c', hview', hmem⟩ | ⟨o, h⟩
    · rw [h]; exact hS.2
    · cases x with
      | leaf o => simp [viewOf] at hview'
      | ref a => exact hcl a c' hS.2 hview' t.2 hmem
    · rw [h]; trivial

end CattrsModel.Heap
