import CattrsModel.Heap.Prims
/-!
# Where the slot values of an assembled / patched cell come from
-/
namespace CattrsModel.Heap
open CattrsModel

theorem mem_dict_children {kvs : List (HVal × HVal)} {v : HVal} :
    v ∈ (Cell.dict kvs).children ↔ ∃ kv, kv ∈ kvs ∧ (v = kv.1 ∨ v = kv.2) := by
  simp only [Cell.children, List.mem_append, List.mem_map]
  constructor
  · rintro (⟨kv, h, rfl⟩ | ⟨kv, h, rfl⟩)
    · exact ⟨kv, h, Or.inl rfl⟩
    · exact ⟨kv, h, Or.inr rfl⟩
  · rintro ⟨kv, h, rfl | rfl⟩
    · exact Or.inl ⟨kv, h, rfl⟩
    · exact Or.inr ⟨kv, h, rfl⟩

theorem mem_foldl_setAddH {eq : HVal → HVal → Bool} : ∀ (xs acc : List HVal) (x : HVal),
    x ∈ xs.foldl (setAddH eq) acc → x ∈ acc ∨ x ∈ xs
  | [], _, _, h => Or.inl h
  | y :: ys, acc, x, h => by
    simp only [List.foldl_cons] at h
    rcases mem_foldl_setAddH ys _ x h with h | h
    · unfold setAddH at h
      split at h
      · exact Or.inl h
      · simp only [List.mem_append, List.mem_singleton] at h
        rcases h with h | h
        · exact Or.inl h
        · exact Or.inr (List.mem_cons.2 (Or.inl h))
    · exact Or.inr (List.mem_cons_of_mem _ h)

theorem mem_dedupH {eq : HVal → HVal → Bool} {xs : List HVal} {x : HVal} (h : x ∈ dedupH eq xs) : x ∈ xs := by
  rcases mem_foldl_setAddH xs [] x h with h | h
  · simp at h
  · exact h

theorem pairUp_mem : ∀ {ys : List HVal} {kv : HVal × HVal}, kv ∈ pairUp ys → kv.1 ∈ ys ∧ kv.2 ∈ ys
  | [], kv, h => by simp [pairUp] at h
  | [_], kv, h => by simp [pairUp] at h
  | k :: v :: rest, kv, h => by
    simp only [pairUp, List.mem_cons] at h
    rcases h with h | h
    · subst h; simp
    · have := pairUp_mem h
      exact ⟨List.mem_cons_of_mem _ (List.mem_cons_of_mem _ this.1),
             List.mem_cons_of_mem _ (List.mem_cons_of_mem _ this.2)⟩

theorem dictSetH_pres (P : HVal → Prop) (eq : HVal → HVal → Bool) :
    ∀ (d : List (HVal × HVal)) (k v : HVal), (∀ kv, kv ∈ d → P kv.1 ∧ P kv.2) → P k → P v →
      ∀ kv, kv ∈ dictSetH eq d k v → P kv.1 ∧ P kv.2
  | [], k, v, _, hk, hv, kv, h => by
    simp only [dictSetH, List.mem_singleton] at h
    subst h; exact ⟨hk, hv⟩
  | (k', v') :: rest, k, v, hd, hk, hv, kv, h => by
    simp only [dictSetH] at h
    split at h
    · simp only [List.mem_cons] at h
      rcases h with h | h
      · subst h; exact ⟨(hd (k', v') (List.mem_cons_self ..)).1, hv⟩
      · exact hd kv (List.mem_cons_of_mem _ h)
    · simp only [List.mem_cons] at h
      rcases h with h | h
      · subst h; exact hd (k', v') (List.mem_cons_self ..)
      · exact dictSetH_pres P eq rest k v (fun kv' h' => hd kv' (List.mem_cons_of_mem _ h')) hk hv kv h

theorem foldl_dictSetH_pres (P : HVal → Prop) (eq : HVal → HVal → Bool) :
    ∀ (kvs d : List (HVal × HVal)), (∀ kv, kv ∈ d → P kv.1 ∧ P kv.2) → (∀ kv, kv ∈ kvs → P kv.1 ∧ P kv.2) →
      ∀ kv, kv ∈ kvs.foldl (fun d kv => dictSetH eq d kv.1 kv.2) d → P kv.1 ∧ P kv.2
  | [], d, hd, _, kv, h => hd kv h
  | x :: xs, d, hd, hk, kv, h => by
    simp only [List.foldl_cons] at h
    refine foldl_dictSetH_pres P eq xs _ ?_ (fun kv' h' => hk kv' (List.mem_cons_of_mem _ h')) kv h
    exact dictSetH_pres P eq d x.1 x.2 hd (hk x (List.mem_cons_self ..)).1 (hk x (List.mem_cons_self ..)).2

theorem mkDictH_pres (P : HVal → Prop) (eq : HVal → HVal → Bool) (kvs : List (HVal × HVal))
    (h : ∀ kv, kv ∈ kvs → P kv.1 ∧ P kv.2) : ∀ kv, kv ∈ mkDictH eq kvs → P kv.1 ∧ P kv.2 :=
  foldl_dictSetH_pres P eq kvs [] (fun _ h => by simp at h) h

theorem dictSetS_pres (P : HVal → Prop) :
    ∀ (d : List (HVal × HVal)) (s : String) (v : HVal), (∀ kv, kv ∈ d → P kv.1 ∧ P kv.2) →
      P (.leaf (.str s)) → P v → ∀ kv, kv ∈ dictSetS d s v → P kv.1 ∧ P kv.2
  | [], s, v, _, hk, hv, kv, h => by
    simp only [dictSetS, List.mem_singleton] at h
    subst h; exact ⟨hk, hv⟩
  | (k', v') :: rest, s, v, hd, hk, hv, kv, h => by
    simp only [dictSetS] at h
    split at h
    · simp only [List.mem_cons] at h
      rcases h with h | h
      · subst h; exact ⟨(hd (k', v') (List.mem_cons_self ..)).1, hv⟩
      · exact hd kv (List.mem_cons_of_mem _ h)
    · simp only [List.mem_cons] at h
      rcases h with h | h
      · subst h; exact hd (k', v') (List.mem_cons_self ..)
      · exact dictSetS_pres P rest s v (fun kv' h' => hd kv' (List.mem_cons_of_mem _ h')) hk hv kv h

theorem dictDelAll_sub : ∀ (ss : List String) (d : List (HVal × HVal)) (kv : HVal × HVal),
    kv ∈ dictDelAll d ss → kv ∈ d
  | [], _, _, h => h
  | s :: ss, d, kv, h => by
    simp only [dictDelAll, List.foldl_cons] at h
    have := dictDelAll_sub ss (dictDelS d s) kv h
    exact (List.mem_filter.1 this).1

theorem zip_snd_mem {names : List String} {ys : List HVal} {v : HVal}
    (h : v ∈ (names.zip ys).map (·.2)) : v ∈ ys := by
  simp only [List.mem_map] at h
  obtain ⟨p, hp, rfl⟩ := h
  exact (List.of_mem_zip hp).2

/-- `assemble` does not touch the state and only uses the given values -/
theorem assemble_state (w : World) (fuel : Nat) (sh : Shape) (ys : List HVal) (st : St) :
    (assemble w fuel sh ys st).2 = st := by
  unfold assemble
  cases sh <;> simp only [] <;> (repeat' split) <;> rfl

theorem assemble_children (w : World) (fuel : Nat) (sh : Shape) (ys : List HVal) (st : St) (c : Cell)
    (h : (assemble w fuel sh ys st).1 = some c) : ∀ v, v ∈ c.children → v ∈ ys := by
  unfold assemble at h
  cases sh with
  | coll k =>
    simp only [] at h
    split at h
    · split at h
      · simp only [Option.some.injEq] at h
        subst h
        intro v hv
        exact mem_dedupH hv
      · simp at h
    · simp only [Option.some.injEq] at h
      subst h
      intro v hv
      exact hv
  | dict =>
    simp only [] at h
    split at h
    · simp only [Option.some.injEq] at h
      subst h
      intro v hv
      obtain ⟨kv, hkv, hv⟩ := mem_dict_children.1 hv
      have := mkDictH_pres (fun x => x ∈ ys) _ (pairUp ys) (fun kv h => pairUp_mem h) kv hkv
      rcases hv with rfl | rfl
      · exact this.1
      · exact this.2
    · simp at h
  | inst c' names =>
    simp only [Option.some.injEq] at h
    subst h
    intro v hv
    exact zip_snd_mem hv

end CattrsModel.Heap
