import CattrsModel.Heap.RefPatch
/-!
# Refinement, part 7: `runPatches` against the pure patch semantics
-/
namespace CattrsModel.Heap
open CattrsModel

/-- the pure meaning of a patch list without deletions: `res[key] = hook(o[..])`, in order (`den`: what the
arguments read as) -/
def patchPure (w : World) (cfg : Cfg) (den : HVal → Option Obj) : List Patch → List (Obj × Obj) → Option (List (Obj × Obj))
  | [], cur => some cur
  | p :: ps, cur =>
    match p.call with
    | none => patchPure w cfg den ps cur
    | some (c, x, key) =>
      match den x with
      | none => none
      | some o =>
        match callPure w cfg c o with
        | none => none
        | some y => patchPure w cfg den ps (dictSet cur (.str key) y)

/-- no deletions (no overrides); every argument is the caller's, reads as `den` says, the call is inside `okc` -/
def PatchesOK (b K : Nat) (okc : Call → Obj → Prop) (den : HVal → Option Obj) (cs : List Cell) (ps : List Patch) : Prop :=
  ∀ p, p ∈ ps → p.dels = [] ∧ ∀ c x key, p.call = some (c, x, key) →
    ArgOld b x ∧ Proper x ∧ ∃ o, den x = some o ∧ denote cs K x = some o ∧ okc c o

def PatchesTot (tot : Call → Prop) (ps : List Patch) : Prop :=
  ∀ p, p ∈ ps → ∀ c x key, p.call = some (c, x, key) → tot c

theorem PatchesOK.transfer {b K okc den} {cs cs' : List Cell} {ps : List Patch}
    (h : PatchesOK b K okc den cs ps)
    (ht : ∀ x o, ArgOld b x → denote cs K x = some o → denote cs' K x = some o) : PatchesOK b K okc den cs' ps :=
  fun p hp => ⟨(h p hp).1, fun c x key hc => by
    obtain ⟨hx, hxp, o, ho, hd, hk⟩ := (h p hp).2 c x key hc
    exact ⟨hx, hxp, o, ho, ht x o hx hd, hk⟩⟩

theorem PatchesOK.tail {b K okc den} {cs : List Cell} {p : Patch} {ps : List Patch}
    (h : PatchesOK b K okc den cs (p :: ps)) : PatchesOK b K okc den cs ps :=
  fun q hq => h q (List.mem_cons_of_mem _ hq)

/-- the loop invariant: the copy `T` is a raw cell of the call's own holding `cur`, which reads as `curO` -/
structure PatchInv (b : Nat) (T : Loc) (kk : Nat) (cur : List (HVal × HVal)) (curO : List (Obj × Obj)) (st : St) : Prop where
  good : Good b st
  hTl : T < st.cells.length
  hT : T ∈ st.raw
  cell : st.cells[T]? = some (.dict cur)
  stab : ∀ kv, kv ∈ cur → Stable b st kv.1 ∧ Stable b st kv.2
  den : denoteKV st.cells kk cur = some curO

theorem PatchInv.ev {b T kk cur curO} {st st' : St} (h : PatchInv b T kk cur curO st)
    (e : Ev b st.cells.length st st') : PatchInv b T kk cur curO st' :=
  ⟨h.good.ev e, Nat.lt_of_lt_of_le h.hTl e.len, e.rawKeep T h.hTl h.hT, by rw [e.frame T h.hTl]; exact h.cell,
   fun kv hkv => ⟨(h.stab kv hkv).1.mono e, (h.stab kv hkv).2.mono e⟩,
   denoteKV_transfer (fun _ _ hd => denote_pre (Pre.of_ev e) hd) _ _ h.den⟩

/-- overwrite the copy with new stable content that reads as `newO` -/
theorem PatchInv.write {b T kk cur curO} {st : St} (h : PatchInv b T kk cur curO st) (hbT : b ≤ T)
    (new : List (HVal × HVal)) (newO : List (Obj × Obj))
    (hs : ∀ kv, kv ∈ new → Stable b st kv.1 ∧ Stable b st kv.2) (hd : denoteKV st.cells kk new = some newO) :
    (Heap.write T (.dict new) st).1 = some () ∧ PatchInv b T kk new newO (Heap.write T (.dict new) st).2 ∧
    WriteStep b T new st (Heap.write T (.dict new) st).2 := by
  obtain ⟨h1, ws⟩ := write_step h.good hbT h.hTl h.hT new
  have hst : ∀ v, Stable b st v → Stable b (Heap.write T (.dict new) st).2 v :=
    fun v hv => hv.elim Or.inl (fun hv => Or.inr (ws.okv v hv))
  refine ⟨h1, ⟨ws.good, by rw [ws.len]; exact h.hTl, by rw [ws.raw]; exact h.hT, ws.cell,
    fun kv hkv => ⟨hst _ (hs kv hkv).1, hst _ (hs kv hkv).2⟩, ?_⟩, ws⟩
  refine denoteKV_transfer_mem new newO (fun kv hkv x hx o ho => ws.den kk x o ?_ ho) hd
  rcases hx with rfl | rfl
  · exact (hs kv hkv).1
  · exact (hs kv hkv).2

theorem dictDelAll_nil (cur : List (HVal × HVal)) : dictDelAll cur [] = cur := rfl

theorem write_unmod (l : Loc) (c : Cell) (st : St) : (Heap.write l c st).2.unmod = st.unmod := by
  unfold Heap.write; split <;> rfl

theorem runPatches_ref {w : World} {cfg : Cfg} {b W K : Nat} {okc : Call → Obj → Prop} {tot : Call → Prop}
    {rec : Rec} (hrec : HookOK b rec) (href : RecRef w cfg b W K okc tot rec) (det : Bool) (T : Loc) (hbT : b ≤ T)
    (den : HVal → Option Obj) :
    ∀ (ps : List Patch) (cur : List (HVal × HVal)) (curO : List (Obj × Obj)) (failed : Bool) (st : St),
      PatchInv b T (K + W) cur curO st → PatchesOK b K okc den st.cells ps →
      (∀ cf ff, (runPatches rec det T ps cur failed st).1 = some (cf, ff) →
        (ff = false → failed = false ∧ ∃ cfO, patchPure w cfg den ps curO = some cfO ∧
            PatchInv b T (K + W) cf cfO (runPatches rec det T ps cur failed st).2) ∧
        (ff = true → failed = true ∨ (PatchesTot tot ps → (runPatches rec det T ps cur failed st).2.unmod = false →
            patchPure w cfg den ps curO = none))) ∧
      ((runPatches rec det T ps cur failed st).1 = none → PatchesTot tot ps →
        (runPatches rec det T ps cur failed st).2.unmod = false → patchPure w cfg den ps curO = none) ∧
      (st.unmod = true → (runPatches rec det T ps cur failed st).2.unmod = true)
  | [], cur, curO, failed, st, hinv, _ => by
    unfold runPatches
    refine ⟨fun cf ff h => ?_, fun h => by simp [Heap.ret] at h, fun h => h⟩
    simp only [Heap.ret, Option.some.injEq, Prod.mk.injEq] at h
    obtain ⟨rfl, rfl⟩ := h
    exact ⟨fun hf => ⟨hf, curO, rfl, hinv⟩, fun hf => Or.inl hf⟩
  | ⟨dels, none⟩ :: ps, cur, curO, failed, st, hinv, hok => by
    have hdels : dels = [] := (hok _ (List.mem_cons_self ..)).1
    subst hdels
    obtain ⟨hw1, hinv2, ws⟩ := hinv.write hbT cur curO hinv.stab hinv.den
    have hok2 : PatchesOK b K okc den (write T (.dict cur) st).2.cells ps :=
      hok.tail.transfer (fun x o hx hd => ws.den K x o (Or.inl hx) hd)
    have ih := runPatches_ref hrec href det T hbT den ps cur curO failed _ hinv2 hok2
    have hpp : patchPure w cfg den (⟨[], none⟩ :: ps) curO = patchPure w cfg den ps curO := by
      simp only [patchPure]
    have htot : PatchesTot tot (⟨[], none⟩ :: ps) → PatchesTot tot ps :=
      fun h q hq => h q (List.mem_cons_of_mem _ hq)
    unfold runPatches
    simp only [dictDelAll_nil, Heap.bind]
    cases hw : write T (.dict cur) st with
    | mk r1 st2 =>
      have hum : st2.unmod = st.unmod := by
        have := write_unmod T (.dict cur) st; rw [hw] at this; exact this
      rw [hw] at hw1 ih
      simp only at hw1 ih ⊢
      subst hw1
      rw [hpp]
      exact ⟨fun cf ff h => ⟨(ih.1 cf ff h).1, fun hf => ((ih.1 cf ff h).2 hf).imp id (fun h' ht hu => h' (htot ht) hu)⟩,
        fun h ht hu => ih.2.1 h (htot ht) hu, fun hu => ih.2.2 (by rw [hum]; exact hu)⟩
  | ⟨dels, some (c, x, key)⟩ :: ps, cur, curO, failed, st, hinv, hok => by
    have hp := hok _ (List.mem_cons_self ..)
    have hdels : dels = [] := hp.1
    subst hdels
    obtain ⟨hx, hxp, o, hdo, hdx, hokc⟩ := hp.2 c x key rfl
    have g := hinv.good
    have e1 := hook_ev hrec g c x hx
    have hpost := (hrec st.cells.length c x hx st g.oc g.le (Nat.le_refl _) g.inv).2
    have r1 := href c x st K o g hx hxp hdx (Nat.le_refl _) hokc
    have hinv1 := hinv.ev e1
    have hok1 : PatchesOK b K okc den (rec c x st).2.cells ps :=
      hok.tail.transfer (fun x o _ hd => denote_pre (Pre.of_ev e1) hd)
    have htot : PatchesTot tot (⟨[], some (c, x, key)⟩ :: ps) → PatchesTot tot ps :=
      fun h q hq => h q (List.mem_cons_of_mem _ hq)
    have htc : PatchesTot tot (⟨[], some (c, x, key)⟩ :: ps) → tot c :=
      fun h => h _ (List.mem_cons_self ..) c x key rfl
    unfold runPatches
    simp only [dictDelAll_nil, Heap.bind, Heap.attempt]
    cases hr : rec c x st with
    | mk r st1 =>
      rw [hr] at hpost r1 hinv1 hok1
      simp only at hpost r1 hinv1 hok1 ⊢
      cases r with
      | none =>
        simp only
        have hum1 : st.unmod = true → st1.unmod = true := by
          have := e1.unmodKeep; rw [hr] at this; exact this
        have hnone : PatchesTot tot (⟨[], some (c, x, key)⟩ :: ps) → st1.unmod = false →
            patchPure w cfg den (⟨[], some (c, x, key)⟩ :: ps) curO = none := by
          intro ht hu
          simp only [patchPure, hdo, r1.2 rfl (htc ht) hu]
        cases det with
        | true =>
          simp only [if_true]
          have ih := runPatches_ref hrec href true T hbT den ps cur curO true st1 hinv1 hok1
          have hback : (runPatches rec true T ps cur true st1).2.unmod = false → st1.unmod = false := by
            intro hu
            cases h : st1.unmod with
            | false => rfl
            | true => rw [ih.2.2 h] at hu; cases hu
          refine ⟨fun cf ff h => ⟨fun hf => ?_, fun _ => Or.inr (fun ht hu => hnone ht (hback hu))⟩,
            fun _ ht hu => hnone ht (hback hu), fun hu => ih.2.2 (hum1 hu)⟩
          exact absurd ((ih.1 cf ff h).1 hf).1 (by simp)
        | false =>
          simp only [Bool.false_eq_true, if_false, Heap.raise]
          exact ⟨fun cf ff h => by simp at h, fun _ ht hu => hnone ht hu, hum1⟩
      | some y =>
        simp only
        obtain ⟨py, hpy, hdy⟩ := r1.1 y rfl
        have hyok : OKv b st1 y := (hpost y rfl).2
        have hs2 : ∀ kv, kv ∈ dictSetS cur key y → Stable b st1 kv.1 ∧ Stable b st1 kv.2 :=
          dictSetS_pres (Stable b st1) cur key y hinv1.stab (Or.inl trivial) (Or.inr hyok)
        have hd2 := dictSetS_den key hdy cur curO hinv1.den
        obtain ⟨hw1, hinv2, ws⟩ := hinv1.write hbT (dictSetS cur key y) _ hs2 hd2
        have hok2 : PatchesOK b K okc den (write T (.dict (dictSetS cur key y)) st1).2.cells ps :=
          hok1.transfer (fun x o hx hd => ws.den K x o (Or.inl hx) hd)
        have ih := runPatches_ref hrec href det T hbT den ps (dictSetS cur key y) _ failed _ hinv2 hok2
        have hpp : patchPure w cfg den (⟨[], some (c, x, key)⟩ :: ps) curO
            = patchPure w cfg den ps (dictSet curO (.str key) py) := by
          simp only [patchPure, hdo, hpy]
        cases hw : write T (.dict (dictSetS cur key y)) st1 with
        | mk r2 st2 =>
          have hum1 : st.unmod = true → st1.unmod = true := by
            have := e1.unmodKeep; rw [hr] at this; exact this
          have hum : st2.unmod = st1.unmod := by
            have := write_unmod T (.dict (dictSetS cur key y)) st1; rw [hw] at this; exact this
          rw [hw] at hw1 ih
          simp only at hw1 ih ⊢
          subst hw1
          simp only [Heap.bind, hw]
          rw [hpp]
          exact ⟨fun cf ff h => ⟨(ih.1 cf ff h).1, fun hf => ((ih.1 cf ff h).2 hf).imp id (fun h' ht hu => h' (htot ht) hu)⟩,
            fun h ht hu => ih.2.1 h (htot ht) hu, fun hu => ih.2.2 (by rw [hum]; exact hum1 hu)⟩

end CattrsModel.Heap
