import CattrsModel.Heap.RefSt6
/-!
# Refinement, structuring (7): `planSt` computes `stF`, for every type
-/
namespace CattrsModel.Heap
open CattrsModel

theorem viewOf_nondict_cases {st : St} {v : HVal} (h : ∀ kvs, viewOf st v ≠ some (.dict kvs)) :
    viewOf st v = none ∨ ∃ c, viewOf st v = some c ∧ ∀ kvs, c ≠ .dict kvs := by
  cases hv : viewOf st v with
  | none => exact Or.inl rfl
  | some c => exact Or.inr ⟨c, rfl, fun kvs hc => h kvs (by rw [hv, hc])⟩

section
variable (w : World) (hc : HCfg) (hovr : hc.ovr = []) (hw : WLit w) {b K : Nat} {rec : Rec} (hrec : HookOK b rec)
  (href : ∀ j, j < K → RecRef w hc.cfg.core b (dW w) j (okcSt w) (fun _ => True) rec)
include hovr hw hrec href

theorem planSt_ref : (t : Ty) → ∀ (v : HVal) (st : St) (k : Nat) (o : Obj), Good b st → ArgOld b v → Proper v →
    denote st.cells k v = some o → k ≤ K → litLeaf t = true →
    Outcome b st (exec w (K + dW w) rec (planSt w hc t v (viewOf st v) (some o)) st) (k + dW w)
      (stF w hc.cfg.core t o) True
  | .any, v, st, k, o, g, hv, _, hdn, _, _ => by
    simp only [planSt]
    exact ((exec_ident_ref hrec w _ v st g hv k o hdn _).mono (by omega)).pure_eq (by simp only [stF])
  | .coll sk t, v, st, k, o, g, hv, hp, hdn, hk, hl => by
    simp only [planSt]
    rcases iter_cases g hv hp hdn with ⟨xs, os, k', h1, h2, rfl, h3, h4⟩ | ⟨h1, h2⟩
    · simp only [h1]
      have hl' : litLeaf t = true := by simpa only [litLeaf] using hl
      have := exec_build_ref hrec (href k' (by omega)) (K + dW w) (by omega) hc.cfg.detailed false
        (.coll sk.structTo) (xs.map fun x => (Call.st t, x)) os st g
        (fun t' ht => by
          obtain ⟨x, hx, rfl⟩ := List.mem_map.1 ht
          exact h4 x hx)
        (tasksDen_map (.st t) (fun _ => hl') xs os h3)
      refine ((this.mono (by omega)).weaken (fun _ _ _ => trivial)).pure_eq ?_
      rw [stF_coll_some w _ sk t h2]
      simp only [buildPure, Bool.false_eq_true, if_false, pureTasks_stFL w _ t xs os (denoteL_length h3)]
      rfl
    · simp only [h1]
      exact exec_noItems_ref w _ rec v st g _ hdn (fun hl => stF_coll_none w _ sk t h2 hl) _
  | .tupleHet ts, v, st, k, o, g, hv, hp, hdn, hk, hl => by
    simp only [planSt]
    rcases iter_cases g hv hp hdn with ⟨xs, os, k', h1, h2, rfl, h3, h4⟩ | ⟨h1, h2⟩
    · simp only [h1]
      have hl' : litLeafL ts = true := by simpa only [litLeaf] using hl
      have := exec_build_ref hrec (href k' (by omega)) (K + dW w) (by omega) hc.cfg.detailed
        (xs.length != ts.length) (.coll .tuple) (zipTasks (ts.map Call.st) xs) (os.take ts.length) st g
        (fun t' ht => h4 _ (zipTasks_args ht)) (tasksDen_zip ts xs os hl' h3)
      refine ((this.mono (by omega)).weaken (fun _ _ _ => trivial)).pure_eq ?_
      rw [stF_tuple_some w _ ts h2]
      exact buildPure_tuple w _ _ ts xs os (denoteL_length h3) (.coll .tuple) (fun ps => rfl)
    · simp only [h1]
      exact exec_noItems_ref w _ rec v st g _ hdn (fun hl => stF_tuple_none w _ ts h2 hl) _
  | .nt c, v, st, k, o, g, hv, hp, hdn, hk, _ => by
    simp only [planSt]
    rcases iter_cases g hv hp hdn with ⟨xs, os, k', h1, h2, rfl, h3, h4⟩ | ⟨h1, h2⟩
    · rw [stF_nt_some w _ c h2]
      cases hnt : w.isNT c with
      | false =>
        simp only [Bool.false_eq_true, if_false]
        exact exec_fail_ref w _ rec st g _ _
      | true =>
        simp only [if_true, h1]
        have := exec_build_ref hrec (href k' (by omega)) (K + dW w) (by omega) hc.cfg.detailed
          (xs.length != (w.ntTys c).length) (.inst c (w.ntNames c)) (zipTasks ((w.ntTys c).map Call.st) xs)
          (os.take (w.ntTys c).length) st g
          (fun t' ht => h4 _ (zipTasks_args ht)) (tasksDen_zip (w.ntTys c) xs os (litLeafL_ntTys hw c) h3)
        refine ((this.mono (by omega)).weaken (fun _ _ _ => trivial)).pure_eq ?_
        exact buildPure_tuple w _ _ (w.ntTys c) xs os (denoteL_length h3) (ntMk w c) (fun ps => rfl)
    · cases hnt : w.isNT c with
      | false =>
        have hno : stF w hc.cfg.core (.nt c) o = none := by
          rw [CattrsModel.stF_nt_none w _ h2]; unfold leafFuel; rw [Leaf.stLF_nt_succ]
          cases leafItems o <;> simp [hnt]
        rw [hno]
        simp only [Bool.false_eq_true, if_false]
        exact exec_fail_ref w _ rec st g _ _
      | true =>
        simp only [if_true, h1]
        exact exec_noItems_ref w _ rec v st g _ hdn (fun hl => stF_nt_none w _ c h2 hl) _
  | .map mk kt vt, v, st, k, o, g, hv, hp, hdn, hk, hl => by
    rcases dict_cases g hv hp hdn with ⟨l, kvs, okvs, k', rfl, _, h1, rfl, rfl, h3, h4⟩ | ⟨h1, h2⟩
    · simp only [h1, planSt]
      have hl0 : (mk.target.isNone = true ∧ litLeaf kt = true) ∧ litLeaf vt = true := by
        simpa only [litLeaf, Bool.and_eq_true] using hl
      have hmk : mk.target = Option.none := by simpa using hl0.1.1
      have hl' : litLeaf kt = true ∧ litLeaf vt = true := ⟨hl0.1.2, hl0.2⟩
      have := exec_build_ref hrec (href k' (by omega)) (K + dW w) (by omega) hc.cfg.detailed false
        .dict (kvTasks (.st kt) (.st vt) kvs) (flatKV okvs) st g
        (fun t' ht => h4 _ (kvTasks_args ht))
        (tasksDen_kv (.st kt) (.st vt) (fun _ => hl'.1) (fun _ => hl'.2) kvs okvs h3)
      refine ((this.mono (by omega)).weaken (fun _ _ _ => trivial)).pure_eq ?_
      simp only [buildPure, Bool.false_eq_true, if_false, pureTasks_stFKV w _ kt vt kvs okvs (denoteKV_length h3), stF]
      cases stFKV w hc.cfg.core kt vt okvs with
      | none => rfl
      | some r => simp only [Option.map_some, Option.bind_some, asmPure, pairUpO_flat, mapRes_plain _ _ hmk]
    · rw [stF_map_nondict w _ mk kt vt h2]
      rcases viewOf_nondict_cases h1 with hvw | ⟨c, hvw, hc'⟩
      · rw [hvw]; simp only [planSt]
        exact exec_noItems_ref w _ rec v st g _ hdn (fun _ => rfl) _
      · rw [hvw]
        cases c with
        | dict kvs => exact absurd rfl (hc' kvs)
        | coll _ _ => simp only [planSt]; exact exec_unmodelled_ref w _ rec st g _ _
        | inst _ _ => simp only [planSt]; exact exec_unmodelled_ref w _ rec st g _ _
        | «opaque» _ => simp only [planSt]; exact exec_unmodelled_ref w _ rec st g _ _
  | .opt t, v, st, k, o, g, hv, hp, hdn, hk, hl => by
    have hl' : litLeaf t = true := by simpa only [litLeaf] using hl
    by_cases hvn : v = .leaf .none
    · subst hvn
      have ho : o = .none := (den_none_iff hp hdn).1 rfl
      subst ho
      simp only [planSt]
      exact (exec_leaf_ref w _ rec .none st g _ _).pure_eq (by simp only [stF])
    · have ho : o ≠ .none := fun h => hvn ((den_none_iff hp hdn).2 h)
      rw [stF_opt_some w _ t ho]
      have ih := planSt_ref t v st k o g hv hp hdn hk hl'
      have : planSt w hc (.opt t) v (viewOf st v) (some o) = planSt w hc t v (viewOf st v) (some o) := by
        cases v with
        | ref l => simp only [planSt]
        | leaf o' => cases o' <;> first | (exact absurd rfl hvn) | simp only [planSt]
      rw [this]; exact ih
  | .wrap wk t, v, st, k, o, g, hv, hp, hdn, hk, hl => by
    have hl' : litLeaf t = true := by simpa only [litLeaf] using hl
    have ih := planSt_ref t v st k o g hv hp hdn hk hl'
    simp only [planSt]
    rw [stF]; exact ih
  | .cls c, v, st, k, o, g, hv, hp, hdn, hk, _ => by
    simp only [planSt]
    exact planClsSt_ref w hc hw hrec href c v st k o g hv hp hdn hk
  | .td c, v, st, k, o, g, hv, hp, hdn, hk, _ => by
    rcases dict_cases g hv hp hdn with ⟨l, kvs, okvs, k', rfl, hlb, h1, rfl, rfl, h3, h4⟩ | ⟨h1, h2⟩
    · simp only [h1, planSt]
      cases hgen : hc.cfg.gen with
      | false =>
        simp only [Bool.not_false, if_true]
        exact (exec_fail_ref w _ rec st g _ _).pure_eq (by
          have : hc.cfg.core.gen = false := hgen
          simp only [stF, this, Bool.not_false, if_true])
      | true =>
        simp only [Bool.not_true, Bool.false_eq_true, if_false]
        obtain ⟨hpo, hal, heq⟩ := tdStPatches_ref w hc.cfg.core hovr c kvs okvs h3 h4 (w.fields c) (fieldsOK_world hw c)
        cases hr : tdStPatches hc c kvs (w.fields c) with
        | mk ps rest =>
          obtain ⟨doomed, allowed⟩ := rest
          rw [hr] at hpo hal heq
          simp only at hpo hal heq ⊢
          have := exec_copyPatch_ref hrec (href k' (by omega)) (K + dW w) hc.cfg.detailed
            (doomed || (hc.cfg.forbid && !keyStrs kvs allowed)) l kvs ps (denote st.cells k') okvs st g hlb
            (fun kv hkv => ⟨(h4 kv.1 (mem_dict_children.2 ⟨kv, hkv, Or.inl rfl⟩)).1,
              (h4 kv.2 (mem_dict_children.2 ⟨kv, hkv, Or.inr rfl⟩)).1⟩) h3 hpo
          refine ((this.mono (by omega)).weaken (fun _ _ _ _ _ _ _ => trivial)).pure_eq ?_
          have hg' : hc.cfg.core.gen = true := hgen
          have hf' : hc.cfg.core.forbid = hc.cfg.forbid := rfl
          simp only [stF, hg', Bool.not_true, Bool.false_eq_true, if_false, heq, hf', fieldNames_eq, hal,
            ← keyStrs_den ((w.fields c).map (·.name)) kvs okvs h3, copyPatchPure]
          cases doomed <;> cases (hc.cfg.forbid && !keyStrs kvs ((w.fields c).map (·.name))) <;> simp <;>
            cases patchPure w hc.cfg.core (denote st.cells k') ps okvs <;> simp
    · rw [stF_td_nondict w _ c h2]
      rcases viewOf_nondict_cases h1 with hvw | ⟨c', hvw, hc'⟩
      · rw [hvw]; simp only [planSt]
        exact exec_fail_ref w _ rec st g _ _
      · rw [hvw]
        cases c' with
        | dict kvs => exact absurd rfl (hc' kvs)
        | coll _ _ => simp only [planSt]; exact exec_fail_ref w _ rec st g _ _
        | inst _ _ => simp only [planSt]; exact exec_fail_ref w _ rec st g _ _
        | «opaque» _ => simp only [planSt]; exact exec_fail_ref w _ rec st g _ _
  | .union cs hn, v, st, k, o, g, hv, hp, hdn, hk, _ => by
    simp only [planSt]
    rw [stF]
    cases hu : unionPick w cs hn o with
    | ok m =>
      simp only
      by_cases hm : m ∈ cs
      · have : cs.contains m = true := by simpa using hm
        simp only [this, if_true, hm, dite_true]
        exact planClsSt_ref w hc hw hrec href m v st k o g hv hp hdn hk
      · have : cs.contains m = false := by simpa using hm
        simp only [this, Bool.false_eq_true, if_false, hm, dite_false]
        exact exec_fail_ref w _ rec st g _ _
    | none => exact exec_leaf_ref w _ rec .none st g _ _
    | refuseCreate => exact exec_fail_ref w _ rec st g _ _
    | refuseResolve => exact exec_fail_ref w _ rec st g _ _
  | .int, v, st, k, o, g, _, _, _, _, hl => by
    simp only [planSt]
    cases hs : stF w hc.cfg.core .int o with
    | none => exact exec_fail_ref w _ rec st g _ _
    | some r => simp only [leaf_coercion hl trivial hs, if_true]; exact exec_leaf_ref w _ rec r st g _ _
  | .float, v, st, k, o, g, _, _, _, _, hl => by
    simp only [planSt]
    cases hs : stF w hc.cfg.core .float o with
    | none => exact exec_fail_ref w _ rec st g _ _
    | some r => simp only [leaf_coercion hl trivial hs, if_true]; exact exec_leaf_ref w _ rec r st g _ _
  | .str, v, st, k, o, g, _, _, _, _, hl => by
    simp only [planSt]
    cases hs : stF w hc.cfg.core .str o with
    | none => exact exec_fail_ref w _ rec st g _ _
    | some r => simp only [leaf_coercion hl trivial hs, if_true]; exact exec_leaf_ref w _ rec r st g _ _
  | .bytes, v, st, k, o, g, _, _, _, _, hl => by
    simp only [planSt]
    cases hs : stF w hc.cfg.core .bytes o with
    | none => exact exec_fail_ref w _ rec st g _ _
    | some r => simp only [leaf_coercion hl trivial hs, if_true]; exact exec_leaf_ref w _ rec r st g _ _
  | .bool, v, st, k, o, g, _, _, _, _, hl => by
    simp only [planSt]
    cases hs : stF w hc.cfg.core .bool o with
    | none => exact exec_fail_ref w _ rec st g _ _
    | some r => simp only [leaf_coercion hl trivial hs, if_true]; exact exec_leaf_ref w _ rec r st g _ _
  | .enum e, v, st, k, o, g, _, _, _, _, hl => by
    simp only [planSt]
    cases hs : stF w hc.cfg.core (.enum e) o with
    | none => exact exec_fail_ref w _ rec st g _ _
    | some r => simp only [leaf_coercion hl trivial hs, if_true]; exact exec_leaf_ref w _ rec r st g _ _
  | .lit vs, v, st, k, o, g, _, _, _, _, hl => by
    simp only [planSt]
    cases hs : stF w hc.cfg.core (.lit vs) o with
    | none => exact exec_fail_ref w _ rec st g _ _
    | some r => simp only [leaf_coercion hl trivial hs, if_true]; exact exec_leaf_ref w _ rec r st g _ _
end

end CattrsModel.Heap
