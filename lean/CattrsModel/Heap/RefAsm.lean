import CattrsModel.Heap.RefCore
/-!
# Refinement, part 3: `assemble` builds the container the pure model builds
-/
namespace CattrsModel.Heap
open CattrsModel

/-- what a cell reads as, given what its slots read as -/
def cellDen (cs : List Cell) (k : Nat) : Cell → Option Obj
  | .coll ck xs => (denoteL cs k xs).map (.coll ck)
  | .dict kvs => (denoteKV cs k kvs).map .dict
  | .inst c fs => (denoteF cs k fs).map (.inst c)
  | .opaque n => some (.opaque n)

theorem denote_ref_cell {cs : List Cell} {k : Nat} {l : Loc} {c : Cell} (h : cs[l]? = some c) :
    denote cs (k + 1) (.ref l) = cellDen cs k c := by
  cases c with
  | coll ck xs => exact denote_ref_coll h
  | dict kvs => exact denote_ref_dict h
  | inst c fs => exact denote_ref_inst h
  | «opaque» n => exact denote_ref_opaque h

def pairUpO : List Obj → List (Obj × Obj)
  | k :: v :: rest => (k, v) :: pairUpO rest
  | _ => []

/-- the pure counterpart of `assemble` -/
def asmPure (w : World) : Shape → List Obj → Option Obj
  | .coll k, ps => finishColl w k ps
  | .dict, ps => if hashableL w (keysOf (pairUpO ps)) then some (.dict (mkDict (pairUpO ps))) else none
  | .inst c names, ps => some (.inst c (names.zip ps))

section
variable {cs : List Cell} {k : Nat} {eq : HVal → HVal → Bool}
  (heq : ∀ a b oa ob, denote cs k a = some oa → denote cs k b = some ob → eq a b = Obj.pyEq oa ob)
include heq

theorem any_eq_memPy {x : HVal} {ox : Obj} (hx : denote cs k x = some ox) :
    ∀ (acc : List HVal) (accO : List Obj), denoteL cs k acc = some accO →
      acc.any (fun y => eq y x) = Obj.memPy ox accO
  | [], accO, h => by
    rw [denoteL_nil] at h; cases h; rfl
  | y :: ys, accO, h => by
    obtain ⟨a, r, rfl, ha, hr⟩ := denoteL_cons_some.1 h
    simp only [List.any_cons, Obj.memPy, heq y x a ox ha hx, any_eq_memPy hx ys r hr]

omit heq in
theorem denoteL_append_one {acc : List HVal} {accO : List Obj} {x : HVal} {ox : Obj}
    (ha : denoteL cs k acc = some accO) (hx : denote cs k x = some ox) :
    denoteL cs k (acc ++ [x]) = some (accO ++ [ox]) := by
  induction acc generalizing accO with
  | nil =>
    rw [denoteL_nil] at ha; cases ha
    exact denoteL_cons_some.2 ⟨ox, [], rfl, hx, denoteL_nil _ _⟩
  | cons y ys ih =>
    obtain ⟨a, r, rfl, hya, hr⟩ := denoteL_cons_some.1 ha
    exact denoteL_cons_some.2 ⟨a, r ++ [ox], rfl, hya, ih hr⟩

theorem foldl_setAddH_den : ∀ (ys acc : List HVal) (ps accO : List Obj),
    denoteL cs k acc = some accO → denoteL cs k ys = some ps →
      denoteL cs k (ys.foldl (setAddH eq) acc) = some (ps.foldl setAdd accO)
  | [], acc, ps, accO, ha, hy => by
    rw [denoteL_nil] at hy; cases hy; exact ha
  | y :: ys, acc, ps, accO, ha, hy => by
    obtain ⟨a, r, rfl, hya, hr⟩ := denoteL_cons_some.1 hy
    simp only [List.foldl_cons]
    refine foldl_setAddH_den ys _ r _ ?_ hr
    unfold setAddH setAdd
    rw [any_eq_memPy heq hya acc accO ha]
    split
    · exact ha
    · exact denoteL_append_one ha hya

theorem dictSetH_den {kx vx : HVal} {ko vo : Obj} (hk : denote cs k kx = some ko) (hv : denote cs k vx = some vo) :
    ∀ (d : List (HVal × HVal)) (dO : List (Obj × Obj)), denoteKV cs k d = some dO →
      denoteKV cs k (dictSetH eq d kx vx) = some (dictSet dO ko vo)
  | [], dO, h => by
    rw [denoteKV_nil] at h; cases h
    exact denoteKV_cons_some.2 ⟨ko, vo, [], rfl, hk, hv, denoteKV_nil _ _⟩
  | (k', v') :: rest, dO, h => by
    obtain ⟨a, b, r, rfl, ha, hb, hr⟩ := denoteKV_cons_some.1 h
    simp only [dictSetH, dictSet, heq k' kx a ko ha hk]
    split
    · exact denoteKV_cons_some.2 ⟨a, vo, r, rfl, ha, hv, hr⟩
    · exact denoteKV_cons_some.2 ⟨a, b, _, rfl, ha, hb, dictSetH_den hk hv rest r hr⟩

theorem foldl_dictSetH_den : ∀ (kvs d : List (HVal × HVal)) (ps dO : List (Obj × Obj)),
    denoteKV cs k d = some dO → denoteKV cs k kvs = some ps →
      denoteKV cs k (kvs.foldl (fun d kv => dictSetH eq d kv.1 kv.2) d)
        = some (ps.foldl (fun d kv => dictSet d kv.1 kv.2) dO)
  | [], d, ps, dO, hd, hk => by
    rw [denoteKV_nil] at hk; cases hk; exact hd
  | (kx, vx) :: rest, d, ps, dO, hd, hk => by
    obtain ⟨a, b, r, rfl, ha, hb, hr⟩ := denoteKV_cons_some.1 hk
    simp only [List.foldl_cons]
    exact foldl_dictSetH_den rest _ r _ (dictSetH_den heq ha hb d dO hd) hr
end

theorem pairUp_den {cs : List Cell} {k : Nat} : ∀ (ys : List HVal) (ps : List Obj),
    denoteL cs k ys = some ps → denoteKV cs k (pairUp ys) = some (pairUpO ps)
  | [], ps, h => by rw [denoteL_nil] at h; cases h; exact denoteKV_nil _ _
  | [y], ps, h => by
    obtain ⟨a, r, rfl, _, hr⟩ := denoteL_cons_some.1 h
    rw [denoteL_nil] at hr; cases hr
    exact denoteKV_nil _ _
  | y1 :: y2 :: rest, ps, h => by
    obtain ⟨a, r, rfl, ha, hr⟩ := denoteL_cons_some.1 h
    obtain ⟨b, r', rfl, hb, hr'⟩ := denoteL_cons_some.1 hr
    exact denoteKV_cons_some.2 ⟨a, b, _, rfl, ha, hb, pairUp_den rest r' hr'⟩

theorem all_hsh_L {cs : List Cell} {k : Nat} {w : World} {hsh : HVal → Bool}
    (hh : ∀ a oa, denote cs k a = some oa → hsh a = hashable w oa) :
    ∀ (ys : List HVal) (ps : List Obj), denoteL cs k ys = some ps → ys.all hsh = hashableL w ps
  | [], ps, h => by rw [denoteL_nil] at h; cases h; rfl
  | y :: ys, ps, h => by
    obtain ⟨a, r, rfl, ha, hr⟩ := denoteL_cons_some.1 h
    simp only [List.all_cons, hashableL, hh y a ha, all_hsh_L hh ys r hr]

theorem all_hsh_KV {cs : List Cell} {k : Nat} {w : World} {hsh : HVal → Bool}
    (hh : ∀ a oa, denote cs k a = some oa → hsh a = hashable w oa) :
    ∀ (kvs : List (HVal × HVal)) (ps : List (Obj × Obj)), denoteKV cs k kvs = some ps →
      kvs.all (fun kv => hsh kv.1) = hashableL w (keysOf ps)
  | [], ps, h => by rw [denoteKV_nil] at h; cases h; rfl
  | (kx, vx) :: rest, ps, h => by
    obtain ⟨a, b, r, rfl, ha, _, hr⟩ := denoteKV_cons_some.1 h
    simp only [List.all_cons, keysOf, List.map_cons, hashableL, hh kx a ha]
    rw [all_hsh_KV hh rest r hr]; rfl

theorem denoteF_zip {cs : List Cell} {k : Nat} : ∀ (names : List String) (ys : List HVal) (ps : List Obj),
    denoteL cs k ys = some ps → denoteF cs k (names.zip ys) = some (names.zip ps)
  | [], ys, ps, _ => by simp only [List.zip_nil_left]; exact denoteF_nil _ _
  | n :: ns, [], ps, h => by rw [denoteL_nil] at h; cases h; simp only [List.zip_nil_right]; exact denoteF_nil _ _
  | n :: ns, y :: ys, ps, h => by
    obtain ⟨a, r, rfl, ha, hr⟩ := denoteL_cons_some.1 h
    simp only [List.zip_cons_cons]
    exact denoteF_cons_some.2 ⟨a, _, rfl, ha, denoteF_zip ns ys r hr⟩

/-- **`assemble` = `asmPure`**, when the sub-results read as `ps` within the fuel `assemble` is given -/
theorem assemble_ref (w : World) (fuel k : Nat) (hk : k ≤ fuel) (sh : Shape) (ys : List HVal) (ps : List Obj) (st : St)
    (hys : denoteL st.cells k ys = some ps) :
    (∀ c, (assemble w fuel sh ys st).1 = some c → ∃ y, asmPure w sh ps = some y ∧ cellDen st.cells k c = some y) ∧
    ((assemble w fuel sh ys st).1 = none → asmPure w sh ps = none) := by
  have hden : ∀ a oa, denote st.cells k a = some oa → denote st.cells fuel a = some oa :=
    fun a oa h => denote_mono hk h
  have heq : ∀ a b oa ob, denote st.cells k a = some oa → denote st.cells k b = some ob →
      eqH st.cells fuel a b = Obj.pyEq oa ob := by
    intro a b oa ob ha hb
    unfold eqH
    rw [hden a oa ha, hden b ob hb]
  have hh : ∀ a oa, denote st.cells k a = some oa → hshH w st.cells fuel a = hashable w oa := by
    intro a oa ha
    unfold hshH
    rw [hden a oa ha]
  unfold assemble
  cases sh with
  | coll ck =>
    simp only [asmPure, finishColl]
    rw [all_hsh_L hh ys ps hys]
    cases hs : ck.isSet with
    | false =>
      simp only [Bool.false_eq_true, if_false]
      exact ⟨fun c hc => by
        simp only [Option.some.injEq] at hc; subst hc
        exact ⟨_, rfl, by simp only [cellDen, hys, Option.map_some]⟩, fun h => by simp at h⟩
    | true =>
      simp only [if_true]
      cases hhs : hashableL w ps with
      | false => simp
      | true =>
        simp only [if_true]
        refine ⟨fun c hc => ?_, fun h => by simp at h⟩
        simp only [Option.some.injEq] at hc; subst hc
        refine ⟨_, rfl, ?_⟩
        have := foldl_setAddH_den heq ys [] ps [] (denoteL_nil _ _) hys
        simp only [cellDen, dedupH, this, Option.map_some, mkSet]
  | dict =>
    have hkv := pairUp_den ys ps hys
    simp only [asmPure]
    rw [all_hsh_KV hh (pairUp ys) (pairUpO ps) hkv]
    cases hhs : hashableL w (keysOf (pairUpO ps)) with
    | false => simp
    | true =>
      simp only [if_true]
      refine ⟨fun c hc => ?_, fun h => by simp at h⟩
      simp only [Option.some.injEq] at hc; subst hc
      refine ⟨_, rfl, ?_⟩
      have := foldl_dictSetH_den heq (pairUp ys) [] (pairUpO ps) [] (denoteKV_nil _ _) hkv
      simp only [cellDen, mkDictH, this, Option.map_some, mkDict]
  | inst c names =>
    simp only [asmPure]
    refine ⟨fun c' hc => ?_, fun h => by simp at h⟩
    simp only [Option.some.injEq] at hc; subst hc
    exact ⟨_, rfl, by simp only [cellDen, denoteF_zip names ys ps hys, Option.map_some]⟩

end CattrsModel.Heap
