import CattrsModel.Heap.RunLemmas
/-!
# Refinement of the store programs to the pure data-path model: basic facts about `denote`

`denote cs k v = some o`: within `k` reference hops the value `v` of the store `cs` reads as the pure
object `o`.  Facts: determinism in the fuel (`denote_mono`), stability under every extension of the store
that keeps the existing cells (`Pre`, `denote_pre`), the list helpers as pointwise statements, and what
`inject` builds.
-/
namespace CattrsModel.Heap
open CattrsModel

/-- every existing cell keeps its content (cells may be added) -/
def Pre (cs cs' : List Cell) : Prop := ∀ (l : Nat) c, cs[l]? = some c → cs'[l]? = some c

theorem Pre.refl (cs : List Cell) : Pre cs cs := fun _ _ h => h
theorem Pre.trans {a b c : List Cell} (h1 : Pre a b) (h2 : Pre b c) : Pre a c :=
  fun l x h => h2 l x (h1 l x h)

theorem Pre.of_frame {cs cs' : List Cell} (h : ∀ l : Nat, l < cs.length → cs'[l]? = cs[l]?) : Pre cs cs' := by
  intro l c hc
  have hl : l < cs.length := (List.getElem?_eq_some_iff.1 hc).1
  rw [h l hl]; exact hc

theorem Pre.of_ev {b : Nat} {st st' : St} (h : Ev b st.cells.length st st') : Pre st.cells st'.cells :=
  Pre.of_frame h.frame

theorem Pre.append (cs : List Cell) (c : Cell) : Pre cs (cs ++ [c]) := by
  intro l x h
  have hl : l < cs.length := (List.getElem?_eq_some_iff.1 h).1
  rw [List.getElem?_append_left hl]; exact h

theorem Pre.set {cs cs' : List Cell} (h : Pre cs cs') {l : Nat} (hl : cs.length ≤ l) (c : Cell) :
    Pre cs (cs'.set l c) := by
  intro l' x hx
  have hl' : l' < cs.length := (List.getElem?_eq_some_iff.1 hx).1
  have hne : l ≠ l' := by omega
  rw [List.getElem?_set_ne hne]
  exact h l' x hx

/-! ### equations -/

theorem denote_leaf (cs : List Cell) (k : Nat) (o : Obj) : denote cs k (.leaf o) = some o := by
  cases k <;> simp only [denote]

theorem denote_ref_none {cs : List Cell} {n : Nat} {l : Loc} (h : cs[l]? = none) :
    denote cs (n + 1) (.ref l) = none := by simp only [denote, h]
theorem denote_ref_coll {cs : List Cell} {n : Nat} {l : Loc} {k xs} (h : cs[l]? = some (.coll k xs)) :
    denote cs (n + 1) (.ref l) = (denoteL cs n xs).map (.coll k) := by simp only [denote, h]
theorem denote_ref_dict {cs : List Cell} {n : Nat} {l : Loc} {kvs} (h : cs[l]? = some (.dict kvs)) :
    denote cs (n + 1) (.ref l) = (denoteKV cs n kvs).map .dict := by simp only [denote, h]
theorem denote_ref_inst {cs : List Cell} {n : Nat} {l : Loc} {c fs} (h : cs[l]? = some (.inst c fs)) :
    denote cs (n + 1) (.ref l) = (denoteF cs n fs).map (.inst c) := by simp only [denote, h]
theorem denote_ref_opaque {cs : List Cell} {n : Nat} {l : Loc} {m} (h : cs[l]? = some (.opaque m)) :
    denote cs (n + 1) (.ref l) = some (.opaque m) := by simp only [denote, h]

theorem denoteL_nil (cs : List Cell) (n : Nat) : denoteL cs n [] = some [] := by simp only [denoteL]
theorem denoteKV_nil (cs : List Cell) (n : Nat) : denoteKV cs n [] = some [] := by simp only [denoteKV]
theorem denoteF_nil (cs : List Cell) (n : Nat) : denoteF cs n [] = some [] := by simp only [denoteF]

theorem denoteL_cons_some {cs : List Cell} {n : Nat} {x : HVal} {xs : List HVal} {os : List Obj} :
    denoteL cs n (x :: xs) = some os ↔
      ∃ a r, os = a :: r ∧ denote cs n x = some a ∧ denoteL cs n xs = some r := by
  simp only [denoteL]
  constructor
  · intro h
    split at h
    · rename_i a r ha hr
      exact ⟨a, r, by simpa using h.symm, ha, hr⟩
    · simp at h
  · rintro ⟨a, r, rfl, ha, hr⟩
    rw [ha, hr]

theorem denoteKV_cons_some {cs : List Cell} {n : Nat} {k v : HVal} {rest : List (HVal × HVal)}
    {os : List (Obj × Obj)} :
    denoteKV cs n ((k, v) :: rest) = some os ↔
      ∃ a b r, os = (a, b) :: r ∧ denote cs n k = some a ∧ denote cs n v = some b ∧ denoteKV cs n rest = some r := by
  simp only [denoteKV]
  constructor
  · intro h
    split at h
    · rename_i a b r ha hb hr
      exact ⟨a, b, r, by simpa using h.symm, ha, hb, hr⟩
    · simp at h
  · rintro ⟨a, b, r, rfl, ha, hb, hr⟩
    rw [ha, hb, hr]

theorem denoteF_cons_some {cs : List Cell} {n : Nat} {s : String} {v : HVal} {rest : List (String × HVal)}
    {os : List (String × Obj)} :
    denoteF cs n ((s, v) :: rest) = some os ↔
      ∃ b r, os = (s, b) :: r ∧ denote cs n v = some b ∧ denoteF cs n rest = some r := by
  simp only [denoteF]
  constructor
  · intro h
    split at h
    · rename_i b r hb hr
      exact ⟨b, r, by simpa using h.symm, hb, hr⟩
    · simp at h
  · rintro ⟨b, r, rfl, hb, hr⟩
    rw [hb, hr]

/-! ### pointwise transfer -/

/-- a way of carrying single denotations over (more fuel, a bigger store, …) carries the list helpers over -/
theorem denoteL_transfer {cs cs' : List Cell} {n n' : Nat}
    (h : ∀ x o, denote cs n x = some o → denote cs' n' x = some o) :
    ∀ (xs : List HVal) (os : List Obj), denoteL cs n xs = some os → denoteL cs' n' xs = some os
  | [], os, hx => by rw [denoteL_nil] at hx; rw [denoteL_nil]; exact hx
  | x :: xs, os, hx => by
    obtain ⟨a, r, rfl, ha, hr⟩ := denoteL_cons_some.1 hx
    exact denoteL_cons_some.2 ⟨a, r, rfl, h x a ha, denoteL_transfer h xs r hr⟩

theorem denoteKV_transfer {cs cs' : List Cell} {n n' : Nat}
    (h : ∀ x o, denote cs n x = some o → denote cs' n' x = some o) :
    ∀ (xs : List (HVal × HVal)) (os : List (Obj × Obj)), denoteKV cs n xs = some os → denoteKV cs' n' xs = some os
  | [], os, hx => by rw [denoteKV_nil] at hx; rw [denoteKV_nil]; exact hx
  | (k, v) :: xs, os, hx => by
    obtain ⟨a, b, r, rfl, ha, hb, hr⟩ := denoteKV_cons_some.1 hx
    exact denoteKV_cons_some.2 ⟨a, b, r, rfl, h k a ha, h v b hb, denoteKV_transfer h xs r hr⟩

theorem denoteF_transfer {cs cs' : List Cell} {n n' : Nat}
    (h : ∀ x o, denote cs n x = some o → denote cs' n' x = some o) :
    ∀ (xs : List (String × HVal)) (os : List (String × Obj)), denoteF cs n xs = some os → denoteF cs' n' xs = some os
  | [], os, hx => by rw [denoteF_nil] at hx; rw [denoteF_nil]; exact hx
  | (s, v) :: xs, os, hx => by
    obtain ⟨b, r, rfl, hb, hr⟩ := denoteF_cons_some.1 hx
    exact denoteF_cons_some.2 ⟨b, r, rfl, h v b hb, denoteF_transfer h xs r hr⟩

/-- more fuel and a bigger store never change a reading -/
theorem denote_pre_mono {cs cs' : List Cell} (hp : Pre cs cs') :
    ∀ (k k' : Nat) (v : HVal) (o : Obj), k ≤ k' → denote cs k v = some o → denote cs' k' v = some o
  | k, k', .leaf o', o, _, h => by rw [denote_leaf] at h; rw [denote_leaf]; exact h
  | 0, _, .ref l, o, _, h => by simp [denote] at h
  | k + 1, 0, .ref l, o, hk, _ => by omega
  | k + 1, k' + 1, .ref l, o, hk, h => by
    have ih := fun x o => denote_pre_mono hp k k' x o (Nat.le_of_succ_le_succ hk)
    cases hc : cs[l]? with
    | none => rw [denote_ref_none hc] at h; simp at h
    | some c =>
      have hc' := hp l c hc
      cases c with
      | coll ck xs =>
        rw [denote_ref_coll hc] at h; rw [denote_ref_coll hc']
        simp only [Option.map_eq_some_iff] at h ⊢
        obtain ⟨os, hos, rfl⟩ := h
        exact ⟨os, denoteL_transfer ih xs os hos, rfl⟩
      | dict kvs =>
        rw [denote_ref_dict hc] at h; rw [denote_ref_dict hc']
        simp only [Option.map_eq_some_iff] at h ⊢
        obtain ⟨os, hos, rfl⟩ := h
        exact ⟨os, denoteKV_transfer ih kvs os hos, rfl⟩
      | inst c fs =>
        rw [denote_ref_inst hc] at h; rw [denote_ref_inst hc']
        simp only [Option.map_eq_some_iff] at h ⊢
        obtain ⟨os, hos, rfl⟩ := h
        exact ⟨os, denoteF_transfer ih fs os hos, rfl⟩
      | «opaque» n =>
        rw [denote_ref_opaque hc] at h; rw [denote_ref_opaque hc']; exact h

theorem denote_mono {cs : List Cell} {k k' : Nat} {v : HVal} {o : Obj} (hk : k ≤ k')
    (h : denote cs k v = some o) : denote cs k' v = some o :=
  denote_pre_mono (Pre.refl cs) k k' v o hk h

theorem denote_pre {cs cs' : List Cell} (hp : Pre cs cs') {k : Nat} {v : HVal} {o : Obj}
    (h : denote cs k v = some o) : denote cs' k v = some o :=
  denote_pre_mono hp k k v o (Nat.le_refl _) h

end CattrsModel.Heap
