import CattrsModel.Heap.RefPatch3
/-!
# Refinement of the unstructure hooks, part 1: small helpers on `RecRef`, `Outcome`, and the argument's cell
-/
namespace CattrsModel.Heap
open CattrsModel

/-- the exhausted interpreter (`run … 0`) never returns: it refines anything when nothing is claimed on errors -/
theorem RecRef.raise (w : World) (cfg : Cfg) (b W K : Nat) (okc : Call → Obj → Prop) :
    RecRef w cfg b W K okc (fun _ => False) (fun _ _ => raise) :=
  fun _ _ _ _ _ _ _ _ _ _ _ => ⟨fun r h => by simp [Heap.raise] at h, fun _ h => h.elim⟩

/-- with nothing claimed about exceptions, the pure side may be replaced by anything it implies -/
theorem Outcome.imp {b : Nat} {st : St} {res : Option HVal × St} {k : Nat} {p p' : Option Obj} {t : Prop}
    (h : Outcome b st res k p t) (hp : ∀ y, p = some y → p' = some y) : Outcome b st res k p' False :=
  ⟨h.ev, fun r hr => by obtain ⟨y, hy, hd⟩ := h.ok r hr; exact ⟨y, hp y hy, hd⟩, fun _ hf => hf.elim⟩

/-- the argument and its cell: either a leaf, or a reference to a cell that reads as `o` with one hop less -/
theorem denote_cases {st : St} {k : Nat} {v : HVal} {o : Obj} (h : denote st.cells k v = some o) :
    (v = .leaf o ∧ viewOf st v = none) ∨
    ∃ l k' c, v = .ref l ∧ k = k' + 1 ∧ st.cells[l]? = some c ∧ viewOf st v = some c ∧ cellDen st.cells k' c = some o := by
  cases v with
  | leaf o' =>
    rw [denote_leaf] at h; cases h
    exact Or.inl ⟨rfl, rfl⟩
  | ref l =>
    cases k with
    | zero => simp [denote] at h
    | succ k' =>
      cases hc : st.cells[l]? with
      | none => rw [denote_ref_none hc] at h; simp at h
      | some c =>
        rw [denote_ref_cell hc] at h
        exact Or.inr ⟨l, k', c, rfl, rfl, hc, by simp only [viewOf, hc], h⟩

end CattrsModel.Heap
