import CattrsModel.Heap.Documented
/-!
# `Prog.ident` is planned at the documented positions only — `planUn`, `planSt`, `plan`
-/
namespace CattrsModel.Heap
open CattrsModel

theorem isEnumV_false {v : HVal} (h : ∀ e m : Nat, v = .leaf (.enumM e m) → False) : isEnumV v = false := by
  cases v with
  | ref l => rfl
  | leaf o => cases o <;> first | rfl | exact absurd rfl (fun he => h _ _ he)

theorem isCollC_false {view : Option Cell} (h : ∀ ck xs, view = some (.coll ck xs) → False) :
    isCollC view = false := by
  cases view with
  | none => rfl
  | some c => cases c <;> first | rfl | exact absurd rfl (fun he => h _ _ he)

theorem isTupleC_false {view : Option Cell} (h : ∀ xs, view = some (.coll .tuple xs) → False) :
    isTupleC view = false := by
  cases view with
  | none => rfl
  | some c =>
    cases c with
    | coll k xs => cases k <;> first | rfl | exact absurd rfl (fun he => h _ he)
    | _ => rfl

theorem isDictC_false {view : Option Cell} (h : ∀ kvs, view = some (.dict kvs) → False) :
    isDictC view = false := by
  cases view with
  | none => rfl
  | some c => cases c <;> first | rfl | exact absurd rfl (fun he => h _ he)

theorem isInstC_false {view : Option Cell} (h : ∀ c fs, view = some (.inst c fs) → False) :
    isInstC view = false := by
  cases view with
  | none => rfl
  | some c => cases c <;> first | rfl | exact absurd rfl (fun he => h _ _ he)

/-- **`planUn` returns the argument by reference only at a documented position** -/
theorem planUn_ident (w : World) (hc : HCfg) (n : Nat) (t : Ty) (v : HVal) (view : Option Cell) (v' : HVal)
    (h : planUn w hc n t v view = .ident v') : v' = v ∧ DocUn w hc n t v view := by
  fun_induction planUn w hc n t v view
  case case1 => exact ⟨(planUnAny_ident h).1, .any (planUnAny_ident h).2⟩
  case case2 => cases h
  case case3 hl => exact ⟨(planUnAny_ident h).1, .litEnum hl (planUnAny_ident h).2⟩
  case case4 hl =>
    cases h
    exact ⟨rfl, .leafTy (by simpa [isLeafTy] using hl)⟩
  case case5 => cases h
  case case6 => cases h
  case case7 => cases h
  case case8 hg =>
    cases h
    exact ⟨rfl, .tupleHetBase (by simpa using hg)⟩
  case case9 => cases h
  case case10 => cases h
  case case11 => cases h
  case case12 hv hg ih =>
    exact ⟨(ih h).1, .optInner hg (fun he => hv he) (ih h).2⟩
  case case13 hv hg =>
    exact ⟨(planUnAny_ident h).1, .optBase (by simpa using hg) (fun he => hv he) (planUnAny_ident h).2⟩
  case case14 hk ih => exact ⟨(ih h).1, .wrapInner hk (ih h).2⟩
  case case15 hk =>
    cases h
    exact ⟨rfl, .wrapBase (by simpa using hk)⟩
  case case16 => exact absurd h (planClsUn_not_ident _ _ _ _ _)
  case case17 => cases h
  case case18 hg hid =>
    cases h
    exact ⟨rfl, .tdIdentity (by simpa using hg) hid⟩
  case case19 => cases h
  case case20 => cases h
  case case21 => exact ⟨(planUnAny_ident h).1, .union (planUnAny_ident h).2⟩
  case case22 => exact ⟨(planNTUn_ident h).1, .ntPass (planNTUn_ident h).2⟩
  case case23 t v view hany henum hlit hcoll htup hmap _ hopt hwrap hcls htd hunion hnt =>
    cases h
    refine ⟨rfl, ?_⟩
    cases t with
    | any => exact absurd rfl hany
    | int => exact .leafTy rfl
    | float => exact .leafTy rfl
    | str => exact .leafTy rfl
    | bytes => exact .leafTy rfl
    | bool => exact .leafTy rfl
    | lit vs => exact absurd rfl (hlit vs)
    | enum e => exact .mismatch (isEnumV_false (fun e' m he => henum e e' m rfl he))
    | coll k t => exact .mismatch (isCollC_false (fun ck xs he => hcoll k t ck xs rfl he))
    | tupleHet ts => exact .mismatch (isTupleC_false (fun xs he => htup ts xs rfl he))
    | map k kt vt => exact .mismatch (isDictC_false (fun kvs he => hmap k kt vt kvs rfl he))
    | opt t => exact absurd rfl (hopt t)
    | wrap k t => exact absurd rfl (hwrap k t)
    | cls c => exact .mismatch (isInstC_false (fun c' fs he => hcls c c' fs rfl he))
    | td c => exact .mismatch (isDictC_false (fun kvs he => htd c kvs rfl he))
    | union cs hn => exact absurd rfl (hunion cs hn)
    | nt c => exact .mismatch (isInstC_false (fun c' fs he => hnt c c' fs rfl he))

theorem planClsSt_not_ident (w : World) (cfg : Cfg) (c : Nat) (v : HVal) (view : Option Cell) (obj : Option Obj)
    (v' : HVal) : planClsSt w cfg c v view obj ≠ .ident v' := by
  unfold planClsSt noItems
  simp only []
  repeat' split
  all_goals exact fun h => nomatch h

theorem noItems_not_ident (v v' : HVal) : noItems v ≠ .ident v' := by
  unfold noItems
  split <;> exact fun h => nomatch h

/-- **`planSt` returns the argument by reference only at `Any`** (possibly under `Optional` / wrappers) -/
theorem planSt_ident (w : World) (hc : HCfg) (t : Ty) (v : HVal) (view : Option Cell) (obj : Option Obj) (v' : HVal)
    (h : planSt w hc t v view obj = .ident v') : v' = v ∧ DocSt t v := by
  fun_induction planSt w hc t v view obj
  all_goals first
    | (cases h; exact ⟨rfl, .any⟩)
    | exact absurd h (planClsSt_not_ident _ _ _ _ _ _ _)
    | exact absurd h (noItems_not_ident _ _)
    | (rename_i hv ih; exact ⟨(ih h).1, .opt (fun he => hv he) (ih h).2⟩)
    | (rename_i ih; exact ⟨(ih h).1, .wrap (ih h).2⟩)
    | cases h
    | skip

end CattrsModel.Heap
