import CattrsModel.Heap.RunLemmas
import CattrsModel.Heap.Tagged
/-!
# The tagged-union programs are planned inside the safe family
-/
namespace CattrsModel.Heap
open CattrsModel

theorem Planned.popCopy {v : HVal} {kvs c1 : List (HVal × HVal)} {inner : Prog}
    (hin : Planned (.leaf .none) (some (.dict c1)) inner)
    (hsub : ∀ x, x ∈ (Cell.dict c1).children → x ∈ (Cell.dict kvs).children) :
    Planned v (some (.dict kvs)) (.popCopy kvs c1 inner) := by
  refine ⟨by simpa [Prog.safe] using hin.1, fun x hx => ?_⟩
  simp only [Prog.vals, List.mem_append] at hx
  rcases hx with hx | hx
  · exact Or.inr (Or.inl ⟨_, rfl, hx⟩)
  · rcases hin.2 x hx with rfl | ⟨c, hc, hm⟩ | h
    · exact Or.inr (Or.inr ⟨_, rfl⟩)
    · cases hc
      exact Or.inr (Or.inl ⟨_, rfl, hsub x hm⟩)
    · exact Or.inr (Or.inr h)

theorem dictDelS_children {kvs : List (HVal × HVal)} {s : String} {x : HVal}
    (h : x ∈ (Cell.dict (dictDelS kvs s)).children) : x ∈ (Cell.dict kvs).children := by
  obtain ⟨kv, hkv, hx⟩ := mem_dict_children.1 h
  exact mem_dict_children.2 ⟨kv, (List.mem_filter.1 hkv).1, hx⟩

theorem planTaggedSt_planned (w : World) (cfg : Cfg) (tg : Tagged) (v : HVal) (view : Option Cell)
    (obj : Option Obj) : Planned v view (planTaggedSt w cfg tg view obj) := by
  unfold planTaggedSt
  repeat' split
  all_goals first
    | exact Planned.trivial rfl rfl
    | exact planClsSt_planned w cfg _ _ _ _ _
    | exact Planned.popCopy (planClsSt_planned w cfg _ _ _ _ _) (fun x hx => dictDelS_children hx)
    | exact Planned.popCopy (Planned.trivial rfl rfl) (fun x hx => dictDelS_children hx)
    | exact Planned.popCopy (Planned.trivial rfl rfl) (fun x hx => hx)

theorem toTagInsert_planned {v : HVal} {view : Option Cell} {p : Prog} (name : String) (tag : Obj)
    (h : Planned v view p) : Planned v view (toTagInsert name tag p) := by
  cases p <;> first
    | exact h
    | exact ⟨rfl, h.2⟩

theorem planTaggedUn_planned (w : World) (cfg : Cfg) (tg : Tagged) (v : HVal) (view : Option Cell) :
    Planned v view (planTaggedUn w cfg tg view) := by
  unfold planTaggedUn
  repeat' split
  all_goals first
    | exact Planned.trivial rfl rfl
    | exact toTagInsert_planned _ _ (planClsUn_planned w cfg _ _ _ v)

/-- the tagged-union hooks satisfy the same specification as every other hook -/
theorem runTagged_spec (w : World) (hc : HCfg) (n : Nat) (tg : Tagged) (isSt : Bool) (b N : Nat) (v : HVal)
    (hv : ArgOld b v) :
    Spec b N (OldClosed b) (runTagged w hc n tg isSt v) (ResOK b) := by
  intro st hOC hb hN hI
  unfold runTagged
  have hpl : Planned v (viewOf st v)
      (if isSt then planTaggedSt w hc.cfg tg (viewOf st v) (denote st.cells n v)
       else planTaggedUn w hc.cfg tg (viewOf st v)) := by
    split
    · exact planTaggedSt_planned w hc.cfg tg v _ _
    · exact planTaggedUn_planned w hc.cfg tg v _
  have hwf : Prog.WF b
      (if isSt then planTaggedSt w hc.cfg tg (viewOf st v) (denote st.cells n v)
       else planTaggedUn w hc.cfg tg (viewOf st v)) := by
    intro x hx
    rcases hpl.2 x hx with rfl | ⟨c', hview, hmem⟩ | ⟨o, rfl⟩
    · exact hv
    · cases v with
      | leaf o => simp [viewOf] at hview
      | ref a => exact hOC a c' hv hview x hmem
    · trivial
  exact exec_spec (run_hookOK w hc b n) w n _ N hpl.1 hwf st hOC hb hN hI

end CattrsModel.Heap
