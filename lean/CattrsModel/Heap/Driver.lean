import CattrsModel.Heap.TaggedC
import CattrsModel.Conv.Driver
/-!
# Line-protocol operations of the heap model (driver only)

`ALIAS <world> <cfg> <un|st> <type> <obj> (ovr (<cls#> "field" "rename"|- <omit 0|1>)…)`
`ALIAS-TAGGED <world> <cfg> <un|st> (tagged "tagname" ((<cls#> "tag")…) <default cls#|->) <obj>`

The argument is loaded into an empty store in post-order (children before parents; dict entries
key, value, key, value …; instance fields in declaration order), so that both sides number the
argument's containers identically.  Reply:
`(ok <changed> (alias <loc>…) <root loc|-> <result value> <agrees with the pure model 0|1|->)`
`(err <changed> <agree>)` | `unmodelled`.
-/
namespace CattrsModel.Heap
open CattrsModel Sexp

def fuelD : Nat := 48

def ovrOfSexp : Sexp → Option Ovr
  | .list [c, .str f, r, o] => do
      let c ← atomNat? c
      let r ← (match r with | .atom "-" => some none | .str s => some (some s) | _ => none)
      some { cls := c, field := f, rename := r, skip := (← bool? o) }
  | _ => none

def ovrsOfSexp : Sexp → Option (List Ovr)
  | .list (.atom "ovr" :: os) => os.mapM ovrOfSexp
  | _ => none

def taggedOfSexp : Sexp → Option Tagged
  | .list [.atom "tagged", .str name, .list ms, d] => do
      let ms ← ms.mapM (fun (m : Sexp) => match m with
        | .list [c, .str t] => (atomNat? c).map (·, t)
        | _ => none)
      let d ← (match d with | .atom "-" => some none | x => (atomNat? x).map some)
      some { tagName := name, members := ms, dflt := d }
  | _ => none

/-- is the identity of the cell at `l` observable?  (an instance of a NamedTuple class is an immutable tuple) -/
def cellAt (w : World) (cs : List Cell) (l : Nat) : Bool :=
  match cs[l]? with
  | some (.inst c _) => !w.isNT c
  | some c => c.mutable
  | none => false

def sortNat (xs : List Nat) : List Nat := (xs.toArray.qsort (· < ·)).toList

def canonStr (o : Obj) : String := (sexpOfObj o).toString

/-- run `m` on the freshly loaded argument and describe the outcome -/
def describe (w : World) (o : Obj) (m : HVal → M HVal) (pure : Option (Option Obj)) : Sexp :=
  match (inject o) { cells := [] } with
  | (none, _) => .atom "unmodelled"
  | (some v, st0) =>
    let n := st0.cells.length
    let (r, st1) := m v st0
    if st1.unmod then .atom "unmodelled" else
    let changed := ofBool (st1.cells.take n != st0.cells)
    match r with
    | none =>
      let agree := match pure with
        | none => Sexp.atom "-"
        | some p => ofBool p.isNone
      .list [.atom "err", changed, agree]
    | some rv =>
      match denote st1.cells (fuelD * 2) rv with
      | none => .atom "unmodelled"
      | some val =>
        let vs := sexpOfObj val
        if hasMark vs.toString then .atom "unmodelled" else
        let locs := (reachList st1.cells 100000 [rv] []).filter (fun l => decide (l < n) && cellAt w st1.cells l)
        let root := match rv with
          | .ref l => if l < n && cellAt w st1.cells l then ofNat l else .atom "-"
          | .leaf _ => .atom "-"
        let agree := match pure with
          | none => Sexp.atom "-"
          | some none => ofBool false
          | some (some p) => ofBool (canonStr p == vs.toString)
        .list [.atom "ok", changed, .list (.atom "alias" :: (sortNat locs).map ofNat), root, vs, agree]

def heapHandle (op : String) (args : List Sexp) : Option Sexp :=
  match op, args with
  | "ALIAS", [wd, cfg, .atom dir, ty, o, ovr] => do
      let w ← worldOfSexp wd; let cfg ← cfgOfSexp cfg; let ty ← tyOfSexp ty; let o ← objOfSexp o
      let ovr ← ovrsOfSexp ovr
      let hc : HCfg := { cfg := cfg, ovr := ovr }
      if dir == "un" then
        if !conf w ty o then some (.atom "unmodelled")
        else some (describe w o (run w hc fuelD (.un ty))
          (if ovr.isEmpty then some (some (convUnstructure w cfg ty o)) else none))
      else if dir == "st" then
        if unmodelledST w cfg ty o then some (.atom "unmodelled")
        else some (describe w o (run w hc fuelD (.st ty))
          (if ovr.isEmpty then some (convStructure w cfg ty o) else none))
      else none
  | "ALIAS-TAGGED", [wd, cfg, .atom dir, tg, o] => do
      let w ← worldOfSexp wd; let cfg ← cfgOfSexp cfg; let tg ← taggedOfSexp tg; let o ← objOfSexp o
      let hc : HCfg := { cfg := cfg }
      if dir == "un" then
        match o with
        | .inst c _ => if !conf w (.cls c) o then some (.atom "unmodelled")
                       else some (describe w o (runTaggedC w hc (fuelD + 1) tg false) none)
        | _ => some (.atom "unmodelled")
      else if dir == "st" then
        match o with
        | .dict kvs =>
          -- the member hook sees the payload with or without the tag entry
          let o' := Obj.dict (kvs.filter (fun kv => !(kv.1 == Obj.str tg.tagName)))
          if tg.members.any (fun m => unmodelledST w cfg (.cls m.1) o')
              || (match tg.dflt with | some d => unmodelledST w cfg (.cls d) o' | none => false)
          then some (.atom "unmodelled")
          else some (describe w o (runTaggedC w hc (fuelD + 1) tg true) none)
        | _ => some (.atom "unmodelled")
      else none
  | _, _ => none

end CattrsModel.Heap
