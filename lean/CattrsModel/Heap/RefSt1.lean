import CattrsModel.Heap.RefPatch3
import CattrsModel.Lemmas.ModesAgree
/-!
# Refinement, structuring (1): preconditions, reading a cell, task lists of the collection hooks
-/
namespace CattrsModel.Heap
open CattrsModel

mutual
/-- the members of every `Literal[...]` inside the type are leaf objects (as `typing.Literal` demands); every mapping
type has the target class `dict` (the heap programs build `dict` cells only: `OrderedDict[K, V]` / `defaultdict[K, V]` /
`Counter[K]` are outside the refinement, their instances are opaque to the store) -/
def litLeaf : Ty → Bool
  | .lit vs => vs.all isLeafObj
  | .coll _ t => litLeaf t
  | .tupleHet ts => litLeafL ts
  | .map mk kt vt => mk.target.isNone && litLeaf kt && litLeaf vt
  | .opt t => litLeaf t
  | .wrap _ t => litLeaf t
  | _ => true
termination_by structural t => t
def litLeafL : List Ty → Bool
  | [] => true
  | t :: ts => litLeaf t && litLeafL ts
termination_by structural ts => ts
end

/-- the same for every annotated field of the class table -/
def WLit (w : World) : Prop := ∀ c f, f ∈ w.fields c → ∀ t, f.ty = some t → litLeaf t = true

/-- the calls a structure hook issues, and what is assumed of them -/
def okcSt (w : World) : Call → Obj → Prop
  | .st t, _ => litLeaf t = true
  | .pass, _ => True
  | .fresh d, _ => hd d ≤ dD w
  | _, _ => False

theorem isLeafObj_of_pyEq {y x : Obj} (hy : isLeafObj y = true) (h : Obj.pyEq y x = true) : isLeafObj x = true := by
  unfold Obj.pyEq at h
  cases hy' : Obj.num2? y with
  | some a =>
    rw [hy'] at h
    cases hx' : Obj.num2? x with
    | some b => cases x <;> simp [Obj.num2?] at hx' <;> rfl
    | none => rw [hx'] at h; simp at h
  | none =>
    rw [hy'] at h
    cases hx' : Obj.num2? x with
    | some b => rw [hx'] at h; simp at h
    | none =>
      rw [hx'] at h
      simp only [beq_iff_eq] at h
      subst h; exact hy

theorem isLeafObj_of_memPy {x : Obj} : ∀ {vs : List Obj}, vs.all isLeafObj = true → Obj.memPy x vs = true →
    isLeafObj x = true
  | [], _, h => by simp [Obj.memPy] at h
  | y :: ys, hv, h => by
    simp only [List.all_cons, Bool.and_eq_true] at hv
    simp only [Obj.memPy, Bool.or_eq_true] at h
    rcases h with h | h
    · exact isLeafObj_of_pyEq hv.1 h
    · exact isLeafObj_of_memPy hv.2 h

/-! ### reading the argument -/

theorem den_ref {cs : List Cell} {k : Nat} {l : Loc} {o : Obj} (h : denote cs k (.ref l) = some o) :
    ∃ k' c, k = k' + 1 ∧ cs[l]? = some c ∧ cellDen cs k' c = some o := by
  cases k with
  | zero => simp [denote] at h
  | succ k' =>
    cases hc : cs[l]? with
    | none => rw [denote_ref_none hc] at h; simp at h
    | some c => exact ⟨k', c, rfl, rfl, by rw [denote_ref_cell hc] at h; exact h⟩

theorem iterItems_leaf {o : Obj} (h : isLeafObj o = true) : iterItems o = none := by
  cases o <;> simp [isLeafObj] at h <;> rfl

theorem denoteKV_keys {cs : List Cell} {k : Nat} : ∀ (kvs : List (HVal × HVal)) (os : List (Obj × Obj)),
    denoteKV cs k kvs = some os → denoteL cs k (kvs.map (·.1)) = some (keysOf os)
  | [], os, h => by rw [denoteKV_nil] at h; cases h; exact denoteL_nil _ _
  | (kx, vx) :: rest, os, h => by
    obtain ⟨a, b, r, rfl, ha, _, hr⟩ := denoteKV_cons_some.1 h
    exact denoteL_cons_some.2 ⟨a, keysOf r, rfl, ha, denoteKV_keys rest r hr⟩

/-- iterating the cell = iterating what it reads as -/
theorem items_cell {cs : List Cell} {k : Nat} {c : Cell} {o : Obj} (h : cellDen cs k c = some o) :
    (∃ xs os, itemsOf (some c) = some xs ∧ iterItems o = some os ∧ denoteL cs k xs = some os) ∨
    (itemsOf (some c) = none ∧ iterItems o = none) := by
  cases c with
  | coll ck xs =>
    simp only [cellDen, Option.map_eq_some_iff] at h
    obtain ⟨os, hos, rfl⟩ := h
    exact Or.inl ⟨xs, os, rfl, rfl, hos⟩
  | dict kvs =>
    simp only [cellDen, Option.map_eq_some_iff] at h
    obtain ⟨os, hos, rfl⟩ := h
    exact Or.inl ⟨_, _, rfl, rfl, denoteKV_keys kvs os hos⟩
  | inst c fs =>
    simp only [cellDen, Option.map_eq_some_iff] at h
    obtain ⟨os, _, rfl⟩ := h
    exact Or.inr ⟨rfl, rfl⟩
  | «opaque» n =>
    simp only [cellDen, Option.some.injEq] at h
    subst h
    exact Or.inr ⟨rfl, rfl⟩

theorem items_children {c : Cell} {xs : List HVal} (h : itemsOf (some c) = some xs) : ∀ x, x ∈ xs → x ∈ c.children := by
  intro x hx
  obtain ⟨c', hc', hm⟩ := itemsOf_mem h x hx
  cases hc'; exact hm

/-- the children of a caller's cell are the caller's and proper -/
theorem children_ok {b : Nat} {st : St} (g : Good b st) {l : Loc} {c : Cell} (hl : l < b) (hc : st.cells[l]? = some c) :
    ∀ x, x ∈ c.children → ArgOld b x ∧ Proper x :=
  fun x hx => ⟨g.oc l c hl hc x hx, g.proper l c hl hc x hx⟩

/-! ### task lists: homogeneous collections, heterogeneous tuples, mappings -/

theorem tasksDen_map {K : Nat} {okc : Call → Obj → Prop} {cs : List Cell} (c : Call) (hok : ∀ o, okc c o) :
    ∀ (xs : List HVal) (os : List Obj), denoteL cs K xs = some os → TasksDen K okc cs (xs.map fun x => (c, x)) os
  | [], os, h => by rw [denoteL_nil] at h; cases h; trivial
  | x :: xs, os, h => by
    obtain ⟨a, r, rfl, ha, hr⟩ := denoteL_cons_some.1 h
    exact ⟨ha, hok a, tasksDen_map c hok xs r hr⟩

theorem pureTasks_stFL (w : World) (cfg : Cfg) (t : Ty) : ∀ (xs : List HVal) (os : List Obj),
    xs.length = os.length → pureTasks w cfg (xs.map fun x => (Call.st t, x)) os = stFL w cfg t os
  | [], [], _ => by rw [stFL]; rfl
  | [], _ :: _, h => by simp at h
  | _ :: _, [], h => by simp at h
  | x :: xs, o :: os, h => by
    rw [stFL]
    simp only [List.map_cons, pureTasks, callPure]
    cases stF w cfg t o with
    | none => rfl
    | some y =>
      simp only
      rw [pureTasks_stFL w cfg t xs os (by simpa using h)]

theorem denoteL_length {cs : List Cell} {k : Nat} : ∀ {xs : List HVal} {os : List Obj},
    denoteL cs k xs = some os → xs.length = os.length
  | [], os, h => by rw [denoteL_nil] at h; cases h; rfl
  | x :: xs, os, h => by
    obtain ⟨a, r, rfl, _, hr⟩ := denoteL_cons_some.1 h
    simp [denoteL_length hr]

theorem tasksDen_zip {K : Nat} {w : World} {cs : List Cell} :
    ∀ (ts : List Ty) (xs : List HVal) (os : List Obj), litLeafL ts = true → denoteL cs K xs = some os →
      TasksDen K (okcSt w) cs (zipTasks (ts.map Call.st) xs) (os.take ts.length)
  | [], xs, os, _, _ => by simp only [List.map_nil, zipTasks, List.length_nil, List.take_zero]; trivial
  | t :: ts, [], os, _, h => by
    rw [denoteL_nil] at h; cases h
    simp only [List.map_cons, zipTasks, List.take_nil]; trivial
  | t :: ts, x :: xs, os, hl, h => by
    obtain ⟨a, r, rfl, ha, hr⟩ := denoteL_cons_some.1 h
    simp only [litLeafL, Bool.and_eq_true] at hl
    simp only [List.map_cons, zipTasks, List.length_cons, List.take_succ_cons]
    exact ⟨ha, hl.1, tasksDen_zip ts xs r hl.2 hr⟩

/-- exact arity: the heterogeneous-tuple hook fails on a length mismatch, else runs the zipped tasks -/
theorem pureTasks_stFT (w : World) (cfg : Cfg) : ∀ (ts : List Ty) (xs : List HVal) (os : List Obj),
    xs.length = os.length →
    stFT w cfg ts os = if os.length = ts.length then
        pureTasks w cfg (zipTasks (ts.map Call.st) xs) (os.take ts.length) else none
  | [], [], [], _ => by rw [stFT]; rfl
  | [], _ :: _, [], h => by simp at h
  | [], [], _ :: _, h => by simp at h
  | [], x :: xs, o :: os, _ => by simp [stFT]
  | t :: ts, [], [], _ => by simp [stFT]
  | t :: ts, _ :: _, [], h => by simp at h
  | t :: ts, [], _ :: _, h => by simp at h
  | t :: ts, x :: xs, o :: os, h => by
    rw [stFT]
    have ih := pureTasks_stFT w cfg ts xs os (by simpa using h)
    simp only [List.map_cons, zipTasks, List.length_cons, List.take_succ_cons, pureTasks, callPure,
      Nat.add_right_cancel_iff]
    cases stF w cfg t o with
    | none => simp
    | some y =>
      simp only
      rw [ih]
      split <;> rfl

def flatKV : List (Obj × Obj) → List Obj
  | [] => []
  | (a, b) :: rest => a :: b :: flatKV rest

theorem pairUpO_flat : ∀ (r : List (Obj × Obj)), pairUpO (flatKV r) = r
  | [] => rfl
  | (a, b) :: rest => by simp only [flatKV, pairUpO, pairUpO_flat rest]

theorem tasksDen_kv {K : Nat} {okc : Call → Obj → Prop} {cs : List Cell} (kc vc : Call)
    (hk : ∀ o, okc kc o) (hv : ∀ o, okc vc o) :
    ∀ (kvs : List (HVal × HVal)) (os : List (Obj × Obj)), denoteKV cs K kvs = some os →
      TasksDen K okc cs (kvTasks kc vc kvs) (flatKV os)
  | [], os, h => by rw [denoteKV_nil] at h; cases h; trivial
  | (kx, vx) :: rest, os, h => by
    obtain ⟨a, b, r, rfl, ha, hb, hr⟩ := denoteKV_cons_some.1 h
    exact ⟨ha, hk a, hb, hv b, tasksDen_kv kc vc hk hv rest r hr⟩

theorem pureTasks_stFKV (w : World) (cfg : Cfg) (kt vt : Ty) : ∀ (kvs : List (HVal × HVal)) (os : List (Obj × Obj)),
    kvs.length = os.length →
    pureTasks w cfg (kvTasks (.st kt) (.st vt) kvs) (flatKV os) = (stFKV w cfg kt vt os).map flatKV
  | [], [], _ => by rw [stFKV]; rfl
  | [], _ :: _, h => by simp at h
  | _ :: _, [], h => by simp at h
  | (kx, vx) :: rest, (a, b) :: os, h => by
    rw [stFKV]
    simp only [kvTasks, flatKV, pureTasks, callPure]
    have ih := pureTasks_stFKV w cfg kt vt rest os (by simpa using h)
    cases stF w cfg kt a with
    | none => rfl
    | some a' =>
      cases stF w cfg vt b with
      | none => rfl
      | some b' =>
        simp only
        rw [ih]
        cases stFKV w cfg kt vt os <;> rfl

theorem denoteKV_length {cs : List Cell} {k : Nat} : ∀ {xs : List (HVal × HVal)} {os : List (Obj × Obj)},
    denoteKV cs k xs = some os → xs.length = os.length
  | [], os, h => by rw [denoteKV_nil] at h; cases h; rfl
  | (kx, vx) :: xs, os, h => by
    obtain ⟨a, b, r, rfl, _, _, hr⟩ := denoteKV_cons_some.1 h
    simp [denoteKV_length hr]

theorem kvTasks_args {kc vc : Call} : ∀ {kvs : List (HVal × HVal)} {t : Call × HVal},
    t ∈ kvTasks kc vc kvs → t.2 ∈ (Cell.dict kvs).children
  | [], t, h => by simp [kvTasks] at h
  | (kx, vx) :: rest, t, h => by
    simp only [kvTasks, List.mem_cons] at h
    refine mem_dict_children.2 ?_
    rcases h with rfl | rfl | h
    · exact ⟨(kx, vx), List.mem_cons_self .., Or.inl rfl⟩
    · exact ⟨(kx, vx), List.mem_cons_self .., Or.inr rfl⟩
    · obtain ⟨kv, hkv, hx⟩ := mem_dict_children.1 (kvTasks_args h)
      exact ⟨kv, List.mem_cons_of_mem _ hkv, hx⟩

theorem zipTasks_args : ∀ {cs : List Call} {xs : List HVal} {t : Call × HVal}, t ∈ zipTasks cs xs → t.2 ∈ xs
  | [], _, t, h => by simp [zipTasks] at h
  | _ :: _, [], t, h => by simp [zipTasks] at h
  | c :: cs, x :: xs, t, h => by
    simp only [zipTasks, List.mem_cons] at h
    rcases h with rfl | h
    · exact List.mem_cons_self ..
    · exact List.mem_cons_of_mem _ (zipTasks_args h)

end CattrsModel.Heap
