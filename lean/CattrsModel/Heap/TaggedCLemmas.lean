import CattrsModel.Heap.TaggedLemmas
import CattrsModel.Heap.TaggedC
/-!
# The concrete tagged-union closures satisfy the hook specification

Two things go beyond `run_hookOK`:
* `run_on_own_cell` — a class structure hook may be called on a value that is *not* the caller's (the popped copy),
  as long as the slot values of that value's cell are the caller's: `planClsSt` never mentions the value itself;
* `run_unCls_fresh` / `setTag_spec` — the cell returned by a class unstructure hook was allocated by that very call
  (`N ≤ l`), it is finished and its slots are `OKv` (store invariant), so `res[tag_name] = tag` may write into it.
-/
namespace CattrsModel.Heap
open CattrsModel

/-- the slot values of `v`'s own cell are values of the caller (or immutable) -/
def OwnOld (b : Nat) (v : HVal) (st : St) : Prop :=
  ∀ c, viewOf st v = some c → ∀ x, x ∈ c.children → ArgOld b x

theorem OwnOld.of_argOld {b : Nat} {v : HVal} {st : St} (hv : ArgOld b v) (h : OldClosed b st) : OwnOld b v st := by
  intro c hc x hx
  cases v with
  | leaf o => simp [viewOf] at hc
  | ref a => exact h a c hv hc x hx

theorem denote_leaf (cs : List Cell) (n : Nat) (o : Obj) : denote cs n (.leaf o) = some o := by
  cases n <;> simp [denote]

/-- a state-independent consequence of the precondition may be used as a hypothesis -/
theorem Spec.purePre {α} {b N} {P : St → Prop} {m : M α} {Q : α → St → Prop} (φ : Prop)
    (hφ : ∀ st, P st → φ) (h : φ → Spec b N P m Q) : Spec b N P m Q :=
  fun st hp => h (hφ st hp) st hp

theorem unmodelledM_spec {α} {b N} {P : St → Prop} {Q : α → St → Prop} : Spec b N P (unmodelledM : M α) Q := by
  intro st _ hb _ _
  unfold unmodelledM
  exact ⟨⟨hb, Nat.le_refl _, fun _ _ => rfl, fun _ h => h, fun _ h => Or.inl h, fun _ _ h => h,
    fun h => ⟨h.rawB, h.edges⟩, fun _ => rfl⟩, fun r hr => by simp at hr⟩

theorem planSt_cls (w : World) (hc : HCfg) (c : Nat) (v : HVal) (view : Option Cell) (obj : Option Obj) :
    planSt w hc (.cls c) v view obj = planClsSt w hc.cfg c v view obj := by
  simp only [planSt]

/-- **the member's structure hook on a cell of the call's own** (difficulty (a)): the class hook only mentions the
slot values of the argument's cell, never the argument itself, so `ArgOld b v` is not needed — only `OwnOld` -/
theorem run_on_own_cell (w : World) (hc : HCfg) (b n N c : Nat) (v : HVal) :
    Spec b N (fun st => OldClosed b st ∧ OwnOld b v st) (run w hc n (.st (.cls c)) v) (ResOK b) := by
  cases n with
  | zero =>
    show Spec b N _ (raise : M HVal) _
    exact Spec.raise
  | succ n =>
    intro st hp hb hN hI
    have hpl := planClsSt_planned w hc.cfg c (.leaf .none) v (viewOf st v) (denote st.cells n v)
    have hwf : (planClsSt w hc.cfg c v (viewOf st v) (denote st.cells n v)).WF b := by
      intro x hx
      rcases hpl.2 x hx with rfl | ⟨c', hview, hmem⟩ | ⟨o, rfl⟩
      · trivial
      · exact hp.2 c' hview x hmem
      · trivial
    have h := exec_spec (run_hookOK w hc b n) w n _ N hpl.1 hwf st hp.1 hb hN hI
    have hrun : run w hc (n + 1) (.st (.cls c)) v st
        = exec w n (run w hc n) (planClsSt w hc.cfg c v (viewOf st v) (denote st.cells n v)) st := by
      simp only [run, plan, planSt_cls]
    rw [hrun]
    exact h

theorem planClsUn_build (w : World) (cfg : Cfg) (c : Nat) (fs : List (String × HVal)) :
    ∃ sh tasks, planClsUn w cfg c fs = .build false false sh tasks := by
  unfold planClsUn
  split
  · exact ⟨_, _, rfl⟩
  · exact ⟨_, _, rfl⟩

theorem planUn_cls_inst (w : World) (hc : HCfg) (n c c' : Nat) (fs : List (String × HVal)) (v : HVal) :
    planUn w hc n (.cls c) v (some (.inst c' fs)) = planClsUn w hc.cfg c fs := by
  simp only [planUn]

/-- **what a class unstructure hook returns on an instance** (difficulty (b)): a cell allocated by this very call -/
theorem run_unCls_fresh (w : World) (hc : HCfg) (b n N c c' : Nat) (fs : List (String × HVal)) (v : HVal)
    (hv : ArgOld b v) :
    Spec b N (fun st => OldClosed b st ∧ viewOf st v = some (.inst c' fs))
      (run w hc n (.un (.cls c)) v) (fun r st => ResOK b r st ∧ ∃ l, r = .ref l ∧ N ≤ l) := by
  cases n with
  | zero =>
    show Spec b N _ (raise : M HVal) _
    exact Spec.raise
  | succ n =>
    intro st hp hb hN hI
    have hrun : run w hc (n + 1) (.un (.cls c)) v st
        = exec w n (run w hc n) (planClsUn w hc.cfg c fs) st := by
      simp only [run, plan, hp.2, planUn_cls_inst]
    rw [hrun]
    have hpl := planClsUn_planned w hc.cfg c c' fs v
    obtain ⟨sh, tasks, he⟩ := planClsUn_build w hc.cfg c fs
    rw [he] at hpl ⊢
    have hwf : ∀ x, x ∈ tasks.map (·.2) → ArgOld b x := by
      intro x hx
      rcases hpl.2 x hx with rfl | ⟨c'', hview, hmem⟩ | ⟨o, rfl⟩
      · exact hv
      · exact OwnOld.of_argOld hv hp.1 c'' (hp.2.trans hview) x hmem
      · trivial
    have hs : Spec b N (OldClosed b) (exec w n (run w hc n) (.build false false sh tasks))
        (fun r st => ResOK b r st ∧ ∃ l, r = .ref l ∧ N ≤ l) := by
      unfold exec
      refine Spec.bind (buildLoc_spec (run_hookOK w hc b n) w n false false sh tasks (tasks_old hwf)) (fun lc => ?_)
      exact Spec.conseq (Spec.ret _) (fun _ h => h)
        (fun r st h => by rw [h.1]; exact ⟨⟨h.2.1, h.2.2.1⟩, lc.1, rfl, h.2.2.2.1⟩)
    exact hs st hp.1 hb hN hI

/-- `res[tag_name] = tag`: a write into a finished cell of the call's own; its slots are `OKv` by the invariant -/
theorem setTag_spec {b N : Nat} (name : String) (tag : Obj) (res : HVal) :
    Spec b N (fun st => ResOK b res st ∧ ∃ l, res = .ref l ∧ N ≤ l) (setTag name tag res) (ResOK b) := by
  cases res with
  | leaf o =>
    show Spec b N _ (raise : M HVal) _
    exact Spec.raise
  | ref l =>
    unfold setTag
    refine Spec.bind (Spec.readonly (readLoc l) (fun _ => rfl)) (fun cell => ?_)
    cases cell with
    | dict kvs =>
      simp only []
      refine Spec.bind (Q := fun _ st => ResOK b (.ref l) st) ?_
        (fun _ => Spec.conseq (Spec.ret _) (fun _ h => h) (fun r st h => by rw [h.1]; exact h.2))
      intro st hp hb hN hI
      obtain ⟨⟨⟨hOC, hok⟩, l', hl', hNl⟩, hread⟩ := hp
      cases hl'
      have hcell : st.cells[l]? = some (.dict kvs) := by simpa [readLoc] using hread
      have hbl : b ≤ l := Nat.le_trans hb hNl
      have hfin : l ∉ st.raw := by
        rcases hok with ⟨h1, _⟩ | ⟨_, _, h3⟩
        · exact absurd h1 (Nat.not_lt.2 hbl)
        · exact h3
      have hold : ∀ z, z ∈ (Cell.dict kvs).children → OKv b st z := hI.edges l _ hbl hfin hcell
      have hall : AllOK b (Cell.dict (dictSetS kvs name (.leaf tag))).children st := by
        intro x hx
        obtain ⟨kv, hkv, hxkv⟩ := mem_dict_children.1 hx
        have := dictSetS_pres (fun z => OKv b st z) kvs name (.leaf tag)
          (fun kv' hkv' => ⟨hold _ (mem_dict_children.2 ⟨kv', hkv', Or.inl rfl⟩),
                            hold _ (mem_dict_children.2 ⟨kv', hkv', Or.inr rfl⟩)⟩) trivial trivial kv hkv
        rcases hxkv with rfl | rfl
        · exact this.1
        · exact this.2
      exact Spec.write (P := fun st => ResOK b (.ref l) st ∧ b ≤ l) (P' := fun st => ResOK b (.ref l) st) l _
        (fun st h _ => ⟨oldClosed_set h.2 h.1.1, okv_set h.1.2⟩) st ⟨⟨⟨hOC, hok⟩, hbl⟩, hNl, Or.inr hall⟩ hb hN hI
    | _ => exact Spec.raise

/-! ### the structure closures -/

theorem callMember_spec (w : World) (hc : HCfg) (b n N : Nat) (tg : Tagged) (tv val : HVal) :
    Spec b N (fun st => OldClosed b st ∧ OwnOld b val st) (callMember w hc n tg tv val) (ResOK b) := by
  unfold callMember
  refine Spec.bind (Spec.readonly (tagObjM n tv) (fun _ => by cases tv <;> rfl)) (fun tagObj => ?_)
  cases tg.pick w tagObj with
  | none => exact Spec.raise
  | some c => exact Spec.conseq (run_on_own_cell w hc b n N c val) (fun _ h => h.1) (fun _ _ h => h)

/-- `val = val.copy(); tag_to_hook[val.pop(name)](val)`; `view` is the argument's cell, whose slots are the caller's -/
theorem copyPopCall_spec (w : World) (hc : HCfg) (b n N : Nat) (tg : Tagged) (view : Option Cell)
    (hview : ∀ c', view = some c' → ∀ x, x ∈ c'.children → ArgOld b x) :
    Spec b N (OldClosed b) (copyPopCall w hc n tg view) (ResOK b) := by
  unfold copyPopCall
  split
  · rename_i c0
    refine Spec.bind (Spec.allocRaw (.dict c0) oldClosed_stable) (fun cp => ?_)
    split
    · exact Spec.raise
    · rename_i tv _
      refine Spec.bind (Q := fun _ st => OldClosed b st ∧ OwnOld b (.ref cp) st)
        (Spec.conseq (Spec.write (P := fun st => OldClosed b st ∧ b ≤ cp) cp (.dict (dictDelS c0 tg.tagName))
          (fun st h hlt => ⟨oldClosed_set h.2 h.1, fun c' hc' x hx => ?_⟩))
          (fun st h => ⟨⟨h.1, h.2.2.2.2.1⟩, h.2.1, Or.inl h.2.2.2.1⟩) (fun _ _ h => h))
        (fun _ => callMember_spec w hc b n N tg tv (.ref cp))
      have hc'' : (st.cells.set cp (.dict (dictDelS c0 tg.tagName)))[cp]? = some c' := hc'
      rw [List.getElem?_set_self hlt] at hc''
      cases hc''
      exact hview _ rfl x (dictDelS_children hx)
  · split
    · exact Spec.raise
    · rename_i k xs _
      exact Spec.bind (Spec.allocRaw (.coll k xs) oldClosed_stable) (fun _ => Spec.raise)
  · exact Spec.raise

theorem lookupCall_spec (w : World) (hc : HCfg) (b n N : Nat) (tg : Tagged) (v : HVal) (view : Option Cell)
    (hv : ArgOld b v) : Spec b N (OldClosed b) (lookupCall w hc n tg v view) (ResOK b) := by
  unfold lookupCall
  split
  · split
    · exact Spec.raise
    · rename_i tv _
      exact Spec.conseq (callMember_spec w hc b n N tg tv v) (fun st h => ⟨h, OwnOld.of_argOld hv h⟩) (fun _ _ h => h)
  · exact Spec.raise

theorem runTaggedStC_spec (w : World) (hc : HCfg) (n : Nat) (tg : Tagged) (b N : Nat) (v : HVal) (hv : ArgOld b v) :
    Spec b N (OldClosed b) (runTaggedStC w hc n tg v) (ResOK b) := by
  unfold runTaggedStC
  refine Spec.bind (Spec.readonly (viewM v) (fun _ => rfl)) (fun view => ?_)
  refine Spec.purePre (∀ c', view = some c' → ∀ x, x ∈ c'.children → ArgOld b x)
    (fun st h c' hc' x hx => ?_) (fun hview => ?_)
  · have hvw : viewOf st v = view := by simpa [viewM] using h.2
    exact OwnOld.of_argOld hv h.1 c' (hvw.trans hc') x hx
  · refine Spec.conseq (P := OldClosed b) ?_ (fun _ h => h.1) (fun _ _ h => h)
    have hcp := copyPopCall_spec w hc b n N tg view hview
    have hlk := lookupCall_spec w hc b n N tg v view hv
    simp only []
    cases tg.dflt with
    | none =>
      simp only []
      split
      · exact hcp
      · exact hlk
    | some d =>
      simp only []
      cases tagIn w tg.tagName v view with
      | yes =>
        simp only []
        split
        · exact hcp
        · exact hlk
      | no => exact run_hookOK w hc b n N _ v hv
      | error => exact Spec.raise
      | unmodelled => exact unmodelledM_spec

theorem runTaggedUnC_spec (w : World) (hc : HCfg) (n : Nat) (tg : Tagged) (b N : Nat) (v : HVal) (hv : ArgOld b v) :
    Spec b N (OldClosed b) (runTaggedUnC w hc n tg v) (ResOK b) := by
  unfold runTaggedUnC
  refine Spec.bind (Spec.readonly (viewM v) (fun _ => rfl)) (fun view => ?_)
  split
  · rename_i c fs
    split
    · exact Spec.raise
    · rename_i tag _
      refine Spec.bind (Spec.conseq (run_unCls_fresh w hc b n N c c fs v hv)
        (fun st h => ⟨h.1, by simpa [viewM] using h.2⟩) (fun _ _ h => h)) (fun res => ?_)
      exact setTag_spec tg.tagName (.str tag) res
  · exact Spec.raise

/-- **the concrete tagged-union closures satisfy the same specification as every other hook** -/
theorem runTaggedC_spec (w : World) (hc : HCfg) (n : Nat) (tg : Tagged) (isSt : Bool) (b N : Nat) (v : HVal)
    (hv : ArgOld b v) :
    Spec b N (OldClosed b) (runTaggedC w hc n tg isSt v) (ResOK b) := by
  unfold runTaggedC
  split
  · exact runTaggedStC_spec w hc n tg b N v hv
  · exact runTaggedUnC_spec w hc n tg b N v hv

end CattrsModel.Heap
