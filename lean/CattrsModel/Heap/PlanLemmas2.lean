import CattrsModel.Heap.PlanLemmas
/-!
# `plan` lemmas, part 2: tuple-strategy class hooks and TypedDict patches
-/
namespace CattrsModel.Heap
open CattrsModel

theorem clsStTasksT_vals : ∀ (fds : List Field) (xs : List HVal) (x : HVal),
    x ∈ (clsStTasksT fds xs).1.map (fun t : Call × HVal => t.2) → LeafOr (fun z => z ∈ xs) x
  | [], _, x, h => by simp [clsStTasksT] at h
  | f :: fds, [], x, h => by
    have ih := clsStTasksT_vals fds [] x
    simp only [clsStTasksT] at h
    cases hd : dfltTask f with
    | none => rw [hd] at h; exact ih h
    | some t =>
      rw [hd] at h
      simp only [List.map_cons, List.mem_cons] at h
      rcases h with rfl | h
      · exact Or.inl ⟨_, dfltTask_val hd⟩
      · exact ih h
  | f :: fds, y :: ys, x, h => by
    have ih := clsStTasksT_vals fds ys x
    have lift : LeafOr (fun z => z ∈ ys) x → LeafOr (fun z => z ∈ y :: ys) x :=
      fun h => h.imp id (fun h' => List.mem_cons_of_mem _ h')
    simp only [clsStTasksT] at h
    split at h
    · cases hd : dfltTask f with
      | none => rw [hd] at h; exact lift (ih h)
      | some t =>
        rw [hd] at h
        simp only [List.map_cons, List.mem_cons] at h
        rcases h with rfl | h
        · exact Or.inl ⟨_, dfltTask_val hd⟩
        · exact lift (ih h)
    · simp only [List.map_cons, List.mem_cons] at h
      rcases h with rfl | h
      · exact Or.inr (List.mem_cons_self ..)
      · exact lift (ih h)

/-- every sub-hook argument of a patch list is a slot value of the dict being copied -/
def PatchArgs (kvs : List (HVal × HVal)) (ps : List Patch) : Prop :=
  ∀ p, p ∈ ps → ∀ c x k, p.call = some (c, x, k) → x ∈ (Cell.dict kvs).children

theorem PatchArgs.nil (kvs) : PatchArgs kvs [] := fun p hp => by simp at hp

theorem PatchArgs.cons {kvs p ps} (hp : ∀ c x k, p.call = some (c, x, k) → x ∈ (Cell.dict kvs).children)
    (h : PatchArgs kvs ps) : PatchArgs kvs (p :: ps) := by
  intro q hq
  simp only [List.mem_cons] at hq
  rcases hq with rfl | hq
  · exact hp
  · exact h q hq

theorem tdUnPatches_args (w : World) (hc : HCfg) (n c : Nat) (kvs : List (HVal × HVal)) :
    ∀ fds : List Field, PatchArgs kvs (tdUnPatches w hc n c kvs fds).1
  | [] => by simp only [tdUnPatches]; exact PatchArgs.nil kvs
  | f :: fds => by
    have ih := tdUnPatches_args w hc n c kvs fds
    simp only [tdUnPatches]
    cases hrec : tdUnPatches w hc n c kvs fds with
    | mk ps doomed =>
      rw [hrec] at ih
      simp only []
      cases hov : hc.ovrOf c f.name with
      | mk rename skip =>
        simp only []
        repeat' split
        all_goals first
          | exact ih
          | (refine PatchArgs.cons (fun c' x k h => ?_) ih; simp only [Option.some.injEq, Prod.mk.injEq] at h; rw [← h.2.1]; exact lookupS_mem kvs _ _ (by assumption))
          | exact PatchArgs.cons (fun c x k h => nomatch h) ih

theorem tdStPatches_args (hc : HCfg) (c : Nat) (kvs : List (HVal × HVal)) :
    ∀ fds : List Field, PatchArgs kvs (tdStPatches hc c kvs fds).1
  | [] => by simp only [tdStPatches]; exact PatchArgs.nil kvs
  | f :: fds => by
    have ih := tdStPatches_args hc c kvs fds
    simp only [tdStPatches]
    cases hrec : tdStPatches hc c kvs fds with
    | mk ps rest =>
      cases rest with
      | mk doomed allowed =>
        rw [hrec] at ih
        simp only []
        cases hov : hc.ovrOf c f.name with
        | mk rename skip =>
          simp only []
          repeat' split
          all_goals first
            | exact ih
            | (refine PatchArgs.cons (fun c' x k h => ?_) ih; simp only [Option.some.injEq, Prod.mk.injEq] at h; rw [← h.2.1]; exact lookupS_mem kvs _ _ (by assumption))

theorem itemsOf_mem {view : Option Cell} {xs : List HVal} (h : itemsOf view = some xs) :
    ∀ x, x ∈ xs → ∃ c, view = some c ∧ x ∈ c.children := by
  intro x hx
  cases view with
  | none => simp [itemsOf] at h
  | some c =>
    cases c with
    | coll k ys =>
      simp only [itemsOf, Option.some.injEq] at h
      subst h
      exact ⟨_, rfl, hx⟩
    | dict kvs =>
      simp only [itemsOf, Option.some.injEq] at h
      subst h
      refine ⟨_, rfl, ?_⟩
      simp only [List.mem_map] at hx
      obtain ⟨kv, hkv, rfl⟩ := hx
      exact mem_dict_children.2 ⟨kv, hkv, Or.inl rfl⟩
    | inst c fs => simp [itemsOf] at h
    | «opaque» n => simp [itemsOf] at h

/-- a copy-then-patch program planned on `v = ref l` whose cell is `dict kvs` -/
theorem Planned.copyPatch {l : Loc} {kvs : List (HVal × HVal)} (det doomed : Bool) (ps : List Patch)
    (h : PatchArgs kvs ps) : Planned (.ref l) (some (.dict kvs)) (.copyPatch det doomed false l kvs ps) := by
  refine ⟨rfl, fun x hx => ?_⟩
  simp only [Prog.vals, List.mem_cons, List.mem_append, List.mem_filterMap] at hx
  rcases hx with rfl | hx | ⟨p, hp, hx⟩
  · exact Or.inl rfl
  · exact Or.inr (Or.inl ⟨_, rfl, hx⟩)
  · cases hcall : p.call with
    | none => simp [hcall] at hx
    | some cxk =>
      obtain ⟨c, y, k⟩ := cxk
      simp only [hcall, Option.map_some, Option.some.injEq] at hx
      subst hx
      exact Or.inr (Or.inl ⟨_, rfl, h p hp c _ k hcall⟩)

end CattrsModel.Heap
