import CattrsModel.Heap.FreshRun
/-!
# Full freshness on the F34-free region (property C11, part B)

`fresh_full`: inside the F34-free region (`f34free`, a condition on the argument / world / configuration), every
caller's location reachable from the result of `run` is reachable, in the caller's store, from a location `p`
that is in the *provenance* log `ilog` (written by `Prog.ident` only), or was logged before the call, or is in `D`
(the parameter of the region: declared identity-typed TypedDict keys; `fun _ => False` for the plain statement).
`ilog_documented`: every location in `ilog` was the argument at a documented pass-through position (`DocPos`).
-/
namespace CattrsModel.Heap
open CattrsModel

/-- the provenance facts about one top-level call on a well-formed store -/
theorem run_tr (w : World) (hc : HCfg) (D : Nat → Prop) (n : Nat) (call : Call) (v : HVal) (st : St)
    (hwf : wfStore st = true) (hv : inB st.cells.length v = true)
    (hreg : f34free w hc D st.cells n call v) :
    Tr st.cells.length D (JDoc w hc st.cells) st (run w hc n call v st).2 :=
  (run_good w hc D st.cells.length st.cells (wfStore_closed hwf) n call v ⟨hreg, inB_argOld hv⟩ st trivial
    ⟨Nat.le_refl _, fun _ _ => rfl⟩).1

/-- **Full freshness on the F34-free region.** -/
theorem fresh_full (w : World) (hc : HCfg) (D : Nat → Prop) (n : Nat) (call : Call) (v : HVal) (st : St)
    (hwf : wfStore st = true) (hv : inB st.cells.length v = true)
    (hreg : f34free w hc D st.cells n call v)
    (r : HVal) (hr : (run w hc n call v st).1 = some r) (l : Loc)
    (hreach : Reach (run w hc n call v st).2.cells r l) (hl : l < st.cells.length) :
    ∃ p, p < st.cells.length ∧ Reach st.cells (.ref p) l ∧
      (p ∈ st.log ∨ p ∈ (run w hc n call v st).2.ilog ∨ D p) := by
  have h := run_hookOK w hc st.cells.length n st.cells.length call v (inB_argOld hv) st (wfStore_closed hwf)
    (Nat.le_refl _) (Nat.le_refl _) (wfStore_inv hwf)
  obtain ⟨p, hp, hpb, hpr⟩ :=
    reach_fresh (h.1.inv (wfStore_inv hwf)) h.1.frame (wfStore_closed hwf) hreach (h.2 r hr).2 hl
  refine ⟨p, hpb, hpr, ?_⟩
  rcases (run_tr w hc D n call v st hwf hv hreg).prov p hp with h1 | h1 | h1 | h1
  · exact Or.inl h1
  · exact Or.inr (Or.inl h1)
  · exact absurd hpb (Nat.not_lt.2 h1)
  · exact Or.inr (Or.inr h1)

/-- **The provenance log only holds arguments of documented pass-through positions** (with part A) -/
theorem ilog_documented (w : World) (hc : HCfg) (D : Nat → Prop) (n : Nat) (call : Call) (v : HVal) (st : St)
    (hwf : wfStore st = true) (hv : inB st.cells.length v = true)
    (hreg : f34free w hc D st.cells n call v) (a : Nat) (ha : a ∈ (run w hc n call v st).2.ilog) :
    a ∈ st.ilog ∨ ∃ n' call', DocPos w hc n' call' (.ref a) (viewOf st (.ref a)) :=
  (run_tr w hc D n call v st hwf hv hreg).idoc a ha

/-- the two together, in the property's words, for a call that starts with empty logs and the plain region
(`D = fun _ => False`: no TypedDict entry at all is handed out by reference unless a sub-hook `ident` did it) -/
theorem fresh_full_documented (w : World) (hc : HCfg) (n : Nat) (call : Call) (v : HVal) (st : St)
    (hwf : wfStore st = true) (hv : inB st.cells.length v = true)
    (hlog : st.log = []) (hilog : st.ilog = [])
    (hreg : f34free w hc (fun _ => False) st.cells n call v)
    (r : HVal) (hr : (run w hc n call v st).1 = some r) (l : Loc)
    (hreach : Reach (run w hc n call v st).2.cells r l) (hl : l < st.cells.length) :
    ∃ p, p < st.cells.length ∧ Reach st.cells (.ref p) l ∧ p ∈ (run w hc n call v st).2.ilog ∧
      ∃ n' call', DocPos w hc n' call' (.ref p) (viewOf st (.ref p)) := by
  obtain ⟨p, hpb, hpr, hp⟩ := fresh_full w hc (fun _ => False) n call v st hwf hv hreg r hr l hreach hl
  rcases hp with hp | hp | hp
  · rw [hlog] at hp; cases hp
  · refine ⟨p, hpb, hpr, hp, ?_⟩
    rcases ilog_documented w hc _ n call v st hwf hv hreg p hp with h | h
    · rw [hilog] at h; cases h
    · exact h
  · exact hp.elim

theorem Tr.monoJ {b : Nat} {D J J' : Nat → Prop} {st st' : St} (h : Tr b D J st st') (hJ : ∀ a, J a → J' a) :
    Tr b D J' st st' :=
  ⟨h.len, h.frame, h.imono, fun a ha => (h.idoc a ha).imp id (hJ a), h.prov⟩

theorem GoodRec.monoJ {b : Nat} {cs0 : List Cell} {D J J' : Nat → Prop} {rec : Rec} {S : Call → HVal → Prop}
    (h : GoodRec b cs0 D J rec S) (hJ : ∀ a, J a → J' a) : GoodRec b cs0 D J' rec S :=
  fun c x hS st hP hB => ⟨(h c x hS st hP hB).1.monoJ hJ, (h c x hS st hP hB).2⟩

theorem identJ_true : ∀ p : Prog, p.IdentJ (fun _ => True)
  | .ident (.ref _) => trivial
  | .ident (.leaf _) => trivial
  | .popCopy _ _ inner => identJ_true inner
  | .popInPlace _ _ inner => identJ_true inner
  | .fail | .unmodelled | .leaf _ | .fresh _ | .build .. | .copyPatch .. | .tagInsert .. => trivial

/-- program-level version: one safe program without extras, sub-hooks = `run` on the region -/
theorem fresh_full_program (w : World) (hc : HCfg) (D : Nat → Prop) (n fuel : Nat) (p : Prog) (st : St)
    (hs : p.safe = true) (hp : p.WF st.cells.length) (hwf : wfStore st = true)
    (hne : p.NoExtras D) (hcalls : ∀ t, t ∈ p.calls → f34free w hc D st.cells n t.1 t.2)
    (r : HVal) (hr : (exec w fuel (run w hc n) p st).1 = some r) (l : Loc)
    (hreach : Reach (exec w fuel (run w hc n) p st).2.cells r l) (hl : l < st.cells.length) :
    ∃ q, q < st.cells.length ∧ Reach st.cells (.ref q) l ∧
      (q ∈ st.log ∨ q ∈ (exec w fuel (run w hc n) p st).2.ilog ∨ D q) := by
  have h := exec_spec (run_hookOK w hc st.cells.length n) w fuel p st.cells.length hs hp st (wfStore_closed hwf)
    (Nat.le_refl _) (Nat.le_refl _) (wfStore_inv hwf)
  obtain ⟨q, hq, hqb, hqr⟩ :=
    reach_fresh (h.1.inv (wfStore_inv hwf)) h.1.frame (wfStore_closed hwf) hreach (h.2 r hr).2 hl
  refine ⟨q, hqb, hqr, ?_⟩
  have htr := (exec_sp (J := fun _ => True)
    ((run_good w hc D st.cells.length st.cells (wfStore_closed hwf) n).monoJ (fun _ _ => trivial)) w fuel p hs hne
    (identJ_true p) (fun t ht => ⟨hcalls t ht, hp t.2 (calls_vals p t ht)⟩) st trivial
    ⟨Nat.le_refl _, fun _ _ => rfl⟩).1
  rcases htr.prov q hq with h1 | h1 | h1 | h1
  · exact Or.inl h1
  · exact Or.inr (Or.inl h1)
  · exact absurd hqb (Nat.not_lt.2 h1)
  · exact Or.inr (Or.inr h1)

end CattrsModel.Heap
