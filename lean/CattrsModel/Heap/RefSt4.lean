import CattrsModel.Heap.RefSt3
/-!
# Refinement, structuring (4): how the argument is read; the leaf coercions
-/
namespace CattrsModel.Heap
open CattrsModel

theorem leafItems_of_ref {cs : List Cell} {k : Nat} {l : Loc} {o : Obj} (h : denote cs k (.ref l) = some o) :
    leafItems o = none := by
  obtain ⟨k', c, _, _, hc⟩ := den_ref h
  cases c <;> simp only [cellDen, Option.map_eq_some_iff] at hc
  · obtain ⟨_, _, rfl⟩ := hc; rfl
  · obtain ⟨_, _, rfl⟩ := hc; rfl
  · obtain ⟨_, _, rfl⟩ := hc; rfl
  · cases hc; rfl

/-- the argument is not a container: a `str` / `bytes` payload is iterated by the real hooks and by the pure model
(`stLF` / `stLD`) -- the heap program leaves the modelled fragment (`unmodelled`: the ghost flag `unmod` is set and the
refinement says nothing); anything else is not iterable and the pure model rejects (`hpure`) -/
theorem exec_noItems_ref {b : Nat} (w : World) (fuel : Nat) (rec : Rec) (v : HVal) (st : St) (g : Good b st) (k : Nat)
    {k' : Nat} {o : Obj} {pure : Option Obj} (hd : denote st.cells k' v = some o)
    (hpure : leafItems o = none → pure = none)
    (total : Prop) : Outcome b st (exec w fuel rec (noItems v) st) k pure total := by
  cases v with
  | ref l =>
    rw [hpure (leafItems_of_ref hd)]
    unfold noItems
    exact exec_fail_ref w fuel rec st g k total
  | leaf o' =>
    rw [denote_leaf] at hd; cases hd
    cases o with
    | str s => unfold noItems; exact exec_unmodelled_ref w fuel rec st g k total
    | bytes h => unfold noItems; exact exec_unmodelled_ref w fuel rec st g k total
    | _ => rw [hpure rfl]; unfold noItems; exact exec_fail_ref w fuel rec st g k total

/-- iterating the argument -/
theorem iter_cases {b : Nat} {st : St} (g : Good b st) {v : HVal} (hv : ArgOld b v) (hp : Proper v) {k : Nat} {o : Obj}
    (hd : denote st.cells k v = some o) :
    (∃ xs os k', itemsOf (viewOf st v) = some xs ∧ iterItems o = some os ∧ k = k' + 1 ∧
        denoteL st.cells k' xs = some os ∧ ∀ x, x ∈ xs → ArgOld b x ∧ Proper x) ∨
    (itemsOf (viewOf st v) = none ∧ iterItems o = none) := by
  cases v with
  | leaf o' =>
    rw [denote_leaf] at hd; cases hd
    exact Or.inr ⟨rfl, iterItems_leaf (hp o rfl)⟩
  | ref l =>
    obtain ⟨k', c, rfl, hc, hcd⟩ := den_ref hd
    have hview : viewOf st (.ref l) = some c := hc
    rw [hview]
    rcases items_cell hcd with ⟨xs, os, h1, h2, h3⟩ | ⟨h1, h2⟩
    · exact Or.inl ⟨xs, os, k', h1, h2, rfl, h3, fun x hx => children_ok g hv hc x (items_children h1 x hx)⟩
    · exact Or.inr ⟨h1, h2⟩

/-- reading the argument as a mapping -/
theorem dict_cases {b : Nat} {st : St} (g : Good b st) {v : HVal} (hv : ArgOld b v) (hp : Proper v) {k : Nat} {o : Obj}
    (hd : denote st.cells k v = some o) :
    (∃ l kvs okvs k', v = .ref l ∧ l < b ∧ viewOf st v = some (.dict kvs) ∧ o = .dict okvs ∧ k = k' + 1 ∧
        denoteKV st.cells k' kvs = some okvs ∧ ∀ x, x ∈ (Cell.dict kvs).children → ArgOld b x ∧ Proper x) ∨
    ((∀ kvs, viewOf st v ≠ some (.dict kvs)) ∧ (∀ okvs, o ≠ .dict okvs)) := by
  cases v with
  | leaf o' =>
    rw [denote_leaf] at hd; cases hd
    refine Or.inr ⟨fun kvs h => by simp [viewOf] at h, fun okvs h => ?_⟩
    have := hp o rfl
    subst h
    simp [isLeafObj] at this
  | ref l =>
    obtain ⟨k', c, rfl, hc, hcd⟩ := den_ref hd
    have hview : viewOf st (.ref l) = some c := hc
    rw [hview]
    cases c with
    | dict kvs =>
      simp only [cellDen, Option.map_eq_some_iff] at hcd
      obtain ⟨okvs, hos, rfl⟩ := hcd
      exact Or.inl ⟨l, kvs, okvs, k', rfl, hv, rfl, rfl, rfl, hos, children_ok g hv hc⟩
    | coll ck xs =>
      simp only [cellDen, Option.map_eq_some_iff] at hcd
      obtain ⟨os, _, rfl⟩ := hcd
      exact Or.inr ⟨fun kvs h => by simp at h, fun okvs h => by simp at h⟩
    | inst c fs =>
      simp only [cellDen, Option.map_eq_some_iff] at hcd
      obtain ⟨os, _, rfl⟩ := hcd
      exact Or.inr ⟨fun kvs h => by simp at h, fun okvs h => by simp at h⟩
    | «opaque» n =>
      simp only [cellDen, Option.some.injEq] at hcd
      subst hcd
      exact Or.inr ⟨fun kvs h => by simp at h, fun okvs h => by simp at h⟩

/-- `None` is read from the leaf `None` only -/
theorem den_none_iff {st : St} {v : HVal} (hp : Proper v) {k : Nat} {o : Obj} (hd : denote st.cells k v = some o) :
    v = .leaf .none ↔ o = .none := by
  cases v with
  | leaf o' =>
    rw [denote_leaf] at hd; cases hd
    exact ⟨fun h => (by cases h; rfl), fun h => (by rw [h])⟩
  | ref l =>
    obtain ⟨k', c, rfl, hc, hcd⟩ := den_ref hd
    refine ⟨fun h => (by cases h), fun h => ?_⟩
    subst h
    cases c <;> simp [cellDen] at hcd

/-- the builtin coercions return leaf objects (a `Literal` hook returns the payload itself, which then is a member) -/
theorem leaf_coercion {w : World} {cfg : Cfg} {t : Ty} (hl : litLeaf t = true) {o r : Obj}
    (ht : match t with | .int | .float | .str | .bytes | .bool | .enum _ | .lit _ => True | _ => False)
    (h : stF w cfg t o = some r) : isLeafObj r = true := by
  cases t <;> simp only at ht
  case int =>
    simp only [stF, Option.map_eq_some_iff] at h
    obtain ⟨_, _, rfl⟩ := h; rfl
  case float =>
    simp only [stF, Option.map_eq_some_iff] at h
    obtain ⟨_, _, rfl⟩ := h; rfl
  case str =>
    simp only [stF, Option.some.injEq] at h
    subst h; rfl
  case bytes =>
    simp only [stF, Option.map_eq_some_iff] at h
    obtain ⟨_, _, rfl⟩ := h; rfl
  case bool =>
    simp only [stF, Option.some.injEq] at h
    subst h; rfl
  case enum e =>
    simp only [stF] at h
    unfold enumOf at h
    split at h
    · split at h
      · simp only [Option.some.injEq] at h; subst h; rfl
      · simp at h
    · simp only [Option.map_eq_some_iff] at h
      obtain ⟨_, _, rfl⟩ := h; rfl
  case lit vs =>
    simp only [stF] at h
    exact isLeafObj_of_memPy (by simpa [litLeaf] using hl) (litStruct_memPy w h)

end CattrsModel.Heap
