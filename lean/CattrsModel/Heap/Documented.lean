import CattrsModel.Heap.RunLemmas
/-!
# `Prog.ident` is planned at the documented pass-through positions only (property C11, part A)

`DocPos w hc n call v view` is the explicit list of positions (world, configuration, fuel, call, argument, the
argument's own cell) at which `plan` returns the argument itself by reference.  Main theorem
`ident_only_at_documented_positions`: `plan … = .ident v'` implies `v' = v` and `DocPos …`; the converse
(`documented_positions_plan_ident`) holds too, so the list is exact.
-/
namespace CattrsModel.Heap
open CattrsModel

/-! ### structuring: `Any`, possibly under `Optional` / `NewType` / `Annotated` / `Final` / alias -/

inductive DocSt : Ty → HVal → Prop where
  | any {v} : DocSt .any v
  | opt {t v} : v ≠ .leaf .none → DocSt t v → DocSt (.opt t) v
  | wrap {k t v} : DocSt t v → DocSt (.wrap k t) v

/-! ### `converter.unstructure(v)`: dispatch on the run-time class -/

inductive DocUnAny (w : World) (hc : HCfg) (n : Nat) (v : HVal) : Option Cell → Prop where
  /-- the value is not a container at all: an immutable leaf other than an enum member (in a well-formed store
  a reference always has a cell) -/
  | noCell : (∀ e m, v ≠ .leaf (.enumM e m)) → DocUnAny w hc n v none
  /-- an instance of an unknown class: the fallback hook is `identity` -/
  | opaque (k : Nat) : DocUnAny w hc n v (some (.opaque k))
  /-- a NamedTuple instance that needs no conversion (`cols._is_passthrough`); a BaseConverter has no NamedTuple
  hook at all -/
  | ntPass (c : Nat) (fs : List (String × HVal)) : w.isNT c = true →
      (hc.cfg.gen = false ∨ (w.ntTys c).all (fun t' => isIdUn w hc n t') = true) →
      DocUnAny w hc n v (some (.inst c fs))

/-! ### unstructuring with a declared type -/

def isLeafTy : Ty → Bool
  | .int | .float | .str | .bytes | .bool => true
  | .lit vs => !litHasEnum vs
  | _ => false

def isEnumV : HVal → Bool
  | .leaf (.enumM _ _) => true
  | _ => false
def isCollC : Option Cell → Bool
  | some (.coll _ _) => true
  | _ => false
def isTupleC : Option Cell → Bool
  | some (.coll .tuple _) => true
  | _ => false
def isDictC : Option Cell → Bool
  | some (.dict _) => true
  | _ => false
def isInstC : Option Cell → Bool
  | some (.inst _ _) => true
  | _ => false

/-- does the argument's own cell have the run-time shape of a value of the declared type?  (`true` for the
types whose values have no particular cell shape) -/
def shapeOK : Ty → HVal → Option Cell → Bool
  | .enum _, v, _ => isEnumV v
  | .coll _ _, _, view => isCollC view
  | .tupleHet _, _, view => isTupleC view
  | .map _ _ _, _, view => isDictC view
  | .cls _, _, view => isInstC view
  | .td _, _, view => isDictC view
  | .nt _, _, view => isInstC view
  | _, _, _ => true

inductive DocUn (w : World) (hc : HCfg) (n : Nat) : Ty → HVal → Option Cell → Prop where
  /-- int / float / str / bytes / bool / Literal: the hook is `identity` -/
  | leafTy {t v view} : isLeafTy t = true → DocUn w hc n t v view
  | any {v view} : DocUnAny w hc n v view → DocUn w hc n .any v view
  /-- a `Literal[...]` containing enum members (`is_literal_containing_enums`): `self.unstructure`, by run-time class -/
  | litEnum {vs v view} : litHasEnum vs = true → DocUnAny w hc n v view → DocUn w hc n (.lit vs) v view
  /-- `_unstructure_union`: by run-time class -/
  | union {cs hn v view} : DocUnAny w hc n v view → DocUn w hc n (.union cs hn) v view
  /-- `Optional[T]`, BaseConverter: by run-time class -/
  | optBase {t v view} : hc.cfg.gen = false → v ≠ .leaf .none → DocUnAny w hc n v view → DocUn w hc n (.opt t) v view
  /-- `Optional[T]`, Converter: the hook of `T` -/
  | optInner {t v view} : hc.cfg.gen = true → v ≠ .leaf .none → DocUn w hc n t v view → DocUn w hc n (.opt t) v view
  /-- BaseConverter, `NewType` / `Annotated`: no hook, fallback `identity` -/
  | wrapBase {k t v view} : (hc.cfg.gen || k == .final || k == .alias) = false → DocUn w hc n (.wrap k t) v view
  /-- wrappers otherwise: the hook of the wrapped type -/
  | wrapInner {k t v view} : (hc.cfg.gen || k == .final || k == .alias) = true → DocUn w hc n t v view →
      DocUn w hc n (.wrap k t) v view
  /-- BaseConverter, heterogeneous tuple: `is_sequence` excludes it, fallback `identity` -/
  | tupleHetBase {ts v xs} : hc.cfg.gen = false → DocUn w hc n (.tupleHet ts) v (some (.coll .tuple xs))
  /-- the TypedDict identity short-cut (typeddicts.py L110-141) -/
  | tdIdentity {c v kvs} : hc.cfg.gen = true → isIdUn w hc (n + 1) (.td c) = true →
      DocUn w hc n (.td c) v (some (.dict kvs))
  /-- NamedTuple pass-through -/
  | ntPass {c v c' fs} : (hc.cfg.gen = false ∨ (w.ntTys c).all (fun t' => isIdUn w hc n t') = true) →
      DocUn w hc n (.nt c) v (some (.inst c' fs))
  /-- the object is not a value of the declared type (its cell has not even the right shape): the catch-all
  returns it as it is; only the frame property is claimed there -/
  | mismatch {t v view} : shapeOK t v view = false → DocUn w hc n t v view

/-- **the documented pass-through positions** -/
inductive DocPos (w : World) (hc : HCfg) (n : Nat) : Call → HVal → Option Cell → Prop where
  /-- an untyped attribute (structuring), key constants -/
  | pass {v view} : DocPos w hc n .pass v view
  | st {t v view} : DocSt t v → DocPos w hc n (.st t) v view
  | un {t v view} : DocUn w hc n t v view → DocPos w hc n (.un t) v view
  | unAny {v view} : DocUnAny w hc n v view → DocPos w hc n .unAny v view

/-! ### the planners -/

theorem planClsUn_not_ident (w : World) (cfg : Cfg) (c : Nat) (fs : List (String × HVal)) (v' : HVal) :
    planClsUn w cfg c fs ≠ .ident v' := by
  unfold planClsUn
  split <;> exact fun h => nomatch h

theorem planNTUn_ident {w : World} {hc : HCfg} {n c : Nat} {v : HVal} {fs : List (String × HVal)} {v' : HVal}
    (h : planNTUn w hc n c v fs = .ident v') :
    v' = v ∧ (hc.cfg.gen = false ∨ (w.ntTys c).all (fun t' => isIdUn w hc n t') = true) := by
  unfold planNTUn at h
  split at h
  · cases h
  · rename_i hcond
    cases h
    refine ⟨rfl, ?_⟩
    cases hg : hc.cfg.gen with
    | false => exact Or.inl rfl
    | true =>
      right
      cases ha : (w.ntTys c).all (fun t' => isIdUn w hc n t') with
      | true => rfl
      | false => rw [hg, ha] at hcond; simp at hcond

theorem planNTUn_doc {w : World} {hc : HCfg} {n c : Nat} {v : HVal} {fs : List (String × HVal)}
    (h : hc.cfg.gen = false ∨ (w.ntTys c).all (fun t' => isIdUn w hc n t') = true) :
    planNTUn w hc n c v fs = .ident v := by
  unfold planNTUn
  rcases h with h | h <;> simp [h]

theorem planUnAny_ident {w : World} {hc : HCfg} {n : Nat} {v : HVal} {view : Option Cell} {v' : HVal}
    (h : planUnAny w hc n v view = .ident v') : v' = v ∧ DocUnAny w hc n v view := by
  unfold planUnAny at h
  simp only [] at h
  split at h
  · cases h
  · cases h
  · split at h
    · rename_i hnt
      have := planNTUn_ident h
      exact ⟨this.1, .ntPass _ _ hnt this.2⟩
    · exact absurd h (planClsUn_not_ident _ _ _ _ _)
  · cases h
    exact ⟨rfl, .opaque _⟩
  · split at h
    · cases h
    · rename_i hne
      cases h
      exact ⟨rfl, .noCell (fun e m he => hne e m he)⟩

theorem planUnAny_doc {w : World} {hc : HCfg} {n : Nat} {v : HVal} {view : Option Cell}
    (h : DocUnAny w hc n v view) : planUnAny w hc n v view = .ident v := by
  cases h with
  | noCell hne =>
    unfold planUnAny
    simp only []
  | «opaque» k => rfl
  | ntPass c fs hnt hid =>
    unfold planUnAny
    simp only [hnt, if_true]
    exact planNTUn_doc hid

end CattrsModel.Heap
