import CattrsModel.Heap.RefUn3
/-!
# Refinement of the unstructure hooks, part 4: class hooks (dict and tuple strategy); `asmPure` vs `mkColl` / `mkDict`
-/
namespace CattrsModel.Heap
open CattrsModel

/-! ### `asmPure` -/

theorem asmPure_coll {w : World} {ck : CK} {ps : List Obj} {y : Obj} (h : asmPure w (.coll ck) ps = some y) :
    y = mkColl ck ps := by
  simp only [asmPure, finishColl] at h
  unfold mkColl
  cases hs : ck.isSet with
  | false => simp only [hs, Bool.false_eq_true, if_false, Option.some.injEq] at h ⊢; exact h.symm
  | true =>
    simp only [hs, if_true] at h ⊢
    split at h
    · simp only [Option.some.injEq] at h; exact h.symm
    · simp at h

theorem asmPure_dict {w : World} {kvs : List (Obj × Obj)} {y : Obj} (h : asmPure w .dict (flatKVU kvs) = some y) :
    y = .dict (mkDict kvs) := by
  simp only [asmPure, pairUpO_flatKV] at h
  split at h
  · simp only [Option.some.injEq] at h; exact h.symm
  · simp at h

/-! ### `mkDict` of pairwise non-`==` keys -/

theorem dictSet_fresh (k v : Obj) : ∀ d : List (Obj × Obj), (∀ a, a ∈ keysOf d → Obj.pyEq a k = false) →
    dictSet d k v = d ++ [(k, v)]
  | [], _ => rfl
  | (k', v') :: rest, h => by
    have h1 : Obj.pyEq k' k = false := h k' (by simp [keysOf])
    simp only [dictSet, h1, Bool.false_eq_true, if_false, List.cons_append]
    rw [dictSet_fresh k v rest (fun a ha => h a (by simp only [keysOf, List.map_cons, List.mem_cons] at ha ⊢; exact Or.inr ha))]

theorem memPy_false {x : Obj} : ∀ {ys : List Obj}, Obj.memPy x ys = false → ∀ y, y ∈ ys → Obj.pyEq y x = false
  | [], _, y, hy => by simp at hy
  | z :: zs, h, y, hy => by
    simp only [Obj.memPy, Bool.or_eq_false_iff] at h
    rcases List.mem_cons.1 hy with rfl | hy
    · exact h.1
    · exact memPy_false h.2 y hy

theorem foldl_dictSet_fresh : ∀ (kvs d : List (Obj × Obj)), nodupPy (keysOf kvs) = true →
    (∀ a, a ∈ keysOf d → ∀ b, b ∈ keysOf kvs → Obj.pyEq a b = false) →
    kvs.foldl (fun d kv => dictSet d kv.1 kv.2) d = d ++ kvs
  | [], d, _, _ => by simp
  | (k, v) :: rest, d, hn, hd => by
    simp only [keysOf, List.map_cons, nodupPy, Bool.and_eq_true, Bool.not_eq_true'] at hn
    simp only [List.foldl_cons]
    rw [dictSet_fresh k v d (fun a ha => hd a ha k (by simp [keysOf]))]
    rw [foldl_dictSet_fresh rest (d ++ [(k, v)]) hn.2 ?_]
    · simp
    · intro a ha b hb
      simp only [keysOf, List.map_append, List.map_cons, List.map_nil, List.mem_append, List.mem_singleton] at ha
      rcases ha with ha | rfl
      · exact hd a ha b (by simp only [keysOf, List.map_cons, List.mem_cons]; exact Or.inr hb)
      · rw [Obj.pyEq_symm]; exact memPy_false hn.1 b hb

theorem mkDict_nodup {kvs : List (Obj × Obj)} (h : nodupPy (keysOf kvs) = true) : mkDict kvs = kvs := by
  unfold mkDict
  rw [foldl_dictSet_fresh kvs [] h (fun a ha => by simp [keysOf] at ha)]
  simp

theorem pyEq_str (a b : String) : Obj.pyEq (.str a) (.str b) = (a == b) := by
  simp only [Obj.pyEq, Obj.num2?]
  by_cases h : a = b
  · subst h; simp
  · have : Obj.str a ≠ Obj.str b := fun e => h (by cases e; rfl)
    have h1 : (Obj.str a == Obj.str b) = false := by simpa using this
    have h2 : (a == b) = false := by simpa using h
    rw [h1, h2]

/-! ### the class hooks -/

theorem emits_core (cfg : Cfg) (f : Field) : emits cfg.core f = emits cfg f := rfl

theorem clsUnTasks_core (cfg : Cfg) : ∀ (fds : List Field) (fs : List (String × HVal)),
    clsUnTasks cfg.core fds fs = clsUnTasks cfg fds fs
  | [], _ => by simp only [clsUnTasks]
  | _ :: _, [] => by simp only [clsUnTasks]
  | f :: fds, (_, x) :: rest => by simp only [clsUnTasks, emits_core, clsUnTasks_core cfg fds rest]

theorem planClsUn_core (w : World) (cfg : Cfg) (c : Nat) (fs : List (String × HVal)) :
    planClsUn w cfg c fs = planClsUn w cfg.core c fs := by
  unfold planClsUn
  rw [clsUnTasks_core]
  rfl

/-- what the arguments of the dict-strategy tasks read as: key constant, field value, … -/
def clsOs (cfg : Cfg) : List Field → List (String × Obj) → List Obj
  | f :: fds, (_, x) :: rest => if emits cfg f then .str f.name :: x :: clsOs cfg fds rest else clsOs cfg fds rest
  | _, _ => []

theorem mem_keys_unFields (w : World) (cfg : Cfg) (s : String) : ∀ (fds : List Field) (fos : List (String × Obj)),
    Obj.memPy (.str s) (keysOf (unFields w cfg fds fos)) = true → s ∈ fds.map (·.name)
  | [], _, h => by simp [unFields, keysOf, Obj.memPy] at h
  | _ :: _, [], h => by simp [unFields, keysOf, Obj.memPy] at h
  | f :: fds, (_, x) :: rest, h => by
    simp only [unFields] at h
    split at h
    · simp only [keysOf, List.map_cons, Obj.memPy, Field.key, pyEq_str, Bool.or_eq_true, beq_iff_eq] at h
      rcases h with h | h
      · simp [h]
      · exact List.mem_cons_of_mem _ (mem_keys_unFields w cfg s fds rest h)
    · exact List.mem_cons_of_mem _ (mem_keys_unFields w cfg s fds rest h)

theorem nodup_keys_unFields (w : World) (cfg : Cfg) : ∀ (fds : List Field) (fos : List (String × Obj)),
    (fds.map (·.name)).Nodup → nodupPy (keysOf (unFields w cfg fds fos)) = true
  | [], _, _ => by simp [unFields, keysOf, nodupPy]
  | _ :: _, [], _ => by simp [unFields, keysOf, nodupPy]
  | f :: fds, (_, x) :: rest, hn => by
    simp only [List.map_cons, List.nodup_cons] at hn
    have ih := nodup_keys_unFields w cfg fds rest hn.2
    simp only [unFields]
    split
    · simp only [keysOf, List.map_cons, nodupPy, Bool.and_eq_true, Bool.not_eq_true']
      refine ⟨?_, ih⟩
      cases hm : Obj.memPy f.key (List.map (fun x => x.1) (unFields w cfg fds rest)) with
      | false => rfl
      | true => exact absurd (mem_keys_unFields w cfg f.name fds rest hm) hn.1
    · exact ih

end CattrsModel.Heap
