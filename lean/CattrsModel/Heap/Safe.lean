import CattrsModel.Heap.ListLemmas
/-!
# Every program of the family respects the invariant (part 1: sub-hook calls and `build`)
-/
namespace CattrsModel.Heap
open CattrsModel

/-- the value lives in the caller's part of the store (or is immutable) -/
def ArgOld (b : Nat) : HVal → Prop
  | .leaf _ => True
  | .ref a => a < b

/-- the caller's cells only reference the caller's cells -/
def OldClosed (b : Nat) (st : St) : Prop :=
  ∀ (l : Nat) c, l < b → st.cells[l]? = some c → ∀ v, v ∈ c.children → ArgOld b v

theorem OldClosed.ev {b N st st'} (h : OldClosed b st) (e : Ev b N st st') : OldClosed b st' := by
  intro l c hl hc v hv
  rw [e.frame l (Nat.lt_of_lt_of_le hl e.bN)] at hc
  exact h l c hl hc v hv

/-- what a (late-bound) hook guarantees when called on a value of the caller -/
def HookOK (b : Nat) (rec : Rec) : Prop :=
  ∀ N c v, ArgOld b v → Spec b N (OldClosed b) (rec c v) (fun r st => OldClosed b st ∧ OKv b st r)

section
variable {b N : Nat} {P : St → Prop} (hP : ∀ st st', P st → Ev b N st st' → P st')
include hP

theorem okv_stable (v : HVal) : ∀ st st', OKv b st v → Ev b N st st' → OKv b st' v :=
  fun _ _ h e => OKv.mono e h

theorem leaf_ret (o : Obj) : Spec b N P (ret (.leaf o)) (fun r st => P st ∧ OKv b st r) :=
  Spec.conseq (Spec.ret _) (fun _ h => h) (fun a st h => by rw [h.1]; exact ⟨h.2, trivial⟩)

mutual
theorem inject_spec : (o : Obj) → Spec b N P (inject o) (fun r st => P st ∧ OKv b st r)
  | .none => by unfold inject; exact leaf_ret hP _
  | .bool _ => by unfold inject; exact leaf_ret hP _
  | .int _ => by unfold inject; exact leaf_ret hP _
  | .flt _ => by unfold inject; exact leaf_ret hP _
  | .str _ => by unfold inject; exact leaf_ret hP _
  | .bytes _ => by unfold inject; exact leaf_ret hP _
  | .enumM _ _ => by unfold inject; exact leaf_ret hP _
  | .mdict _ _ => by unfold inject; exact leaf_ret hP _
  | .coll k xs => by
    unfold inject
    refine Spec.bind (injectL_spec xs) (fun ys => ?_)
    refine Spec.bind (Q := fun l st => P st ∧ OKv b st (.ref l))
      (Spec.conseq (Spec.alloc (.coll k ys) hP) (fun st h => ⟨h.1, h.2⟩) (fun l st h => ⟨h.1, h.2.1⟩)) (fun l => ?_)
    exact Spec.conseq (Spec.ret _) (fun _ h => h) (fun a st h => by rw [h.1]; exact h.2)
  | .dict kvs => by
    unfold inject
    refine Spec.bind (injectKV_spec kvs) (fun r => ?_)
    refine Spec.bind (Q := fun l st => P st ∧ OKv b st (.ref l))
      (Spec.conseq (Spec.alloc (.dict r) hP) (fun st h => ⟨h.1, ?_⟩) (fun l st h => ⟨h.1, h.2.1⟩)) (fun l => ?_)
    · intro v hv
      obtain ⟨kv, hkv, hv⟩ := mem_dict_children.1 hv
      rcases hv with rfl | rfl
      · exact (h.2 kv hkv).1
      · exact (h.2 kv hkv).2
    · exact Spec.conseq (Spec.ret _) (fun _ h => h) (fun a st h => by rw [h.1]; exact h.2)
  | .inst c fs => by
    unfold inject
    refine Spec.bind (injectF_spec fs) (fun r => ?_)
    refine Spec.bind (Q := fun l st => P st ∧ OKv b st (.ref l))
      (Spec.conseq (Spec.alloc (.inst c r) hP) (fun st h => ⟨h.1, ?_⟩) (fun l st h => ⟨h.1, h.2.1⟩)) (fun l => ?_)
    · intro v hv
      simp only [Cell.children, List.mem_map] at hv
      obtain ⟨p, hp, rfl⟩ := hv
      exact h.2 p hp
    · exact Spec.conseq (Spec.ret _) (fun _ h => h) (fun a st h => by rw [h.1]; exact h.2)
  | .opaque n => by
    unfold inject
    refine Spec.bind (Q := fun l st => P st ∧ OKv b st (.ref l))
      (Spec.conseq (Spec.alloc (.opaque n) hP) (fun st h => ⟨h, fun v hv => by simp [Cell.children] at hv⟩)
        (fun l st h => ⟨h.1, h.2.1⟩)) (fun l => ?_)
    exact Spec.conseq (Spec.ret _) (fun _ h => h) (fun a st h => by rw [h.1]; exact h.2)
theorem injectL_spec : (xs : List Obj) → Spec b N P (injectL xs) (fun rs st => P st ∧ AllOK b rs st)
  | [] => by
    unfold injectL
    exact Spec.conseq (Spec.ret _) (fun _ h => h) (fun a st h => by rw [h.1]; exact ⟨h.2, fun v hv => by simp at hv⟩)
  | x :: xs => by
    unfold injectL
    refine Spec.bind (inject_spec x) (fun a => ?_)
    refine Spec.bind (Spec.frame (fun st => OKv b st a) (injectL_spec xs) (okv_stable hP a)) (fun r => ?_)
    refine Spec.conseq (Spec.ret _) (fun _ h => h) (fun rs st h => ?_)
    rw [h.1]
    refine ⟨h.2.1.1, fun v hv => ?_⟩
    simp only [List.mem_cons] at hv
    rcases hv with rfl | hv
    · exact h.2.2
    · exact h.2.1.2 v hv
theorem injectKV_spec : (kvs : List (Obj × Obj)) →
    Spec b N P (injectKV kvs) (fun r st => P st ∧ ∀ kv, kv ∈ r → OKv b st kv.1 ∧ OKv b st kv.2)
  | [] => by
    unfold injectKV
    exact Spec.conseq (Spec.ret _) (fun _ h => h) (fun a st h => by rw [h.1]; exact ⟨h.2, fun v hv => by simp at hv⟩)
  | (k, v) :: rest => by
    unfold injectKV
    refine Spec.bind (inject_spec k) (fun a => ?_)
    refine Spec.bind (Spec.frame (fun st => OKv b st a) (inject_spec v) (okv_stable hP a)) (fun c => ?_)
    refine Spec.bind (P := fun st => P st ∧ (OKv b st a ∧ OKv b st c))
      (Spec.conseq (Spec.frame (fun st => OKv b st a ∧ OKv b st c) (injectKV_spec rest)
        (fun st st' h e => ⟨OKv.mono e h.1, OKv.mono e h.2⟩)) (fun st h => ⟨h.1, h.2⟩) (fun _ _ h => h)) (fun r => ?_) |>
      fun h => Spec.conseq h (fun st h => ⟨h.1.1, h.2, h.1.2⟩) (fun _ _ h => h)
    refine Spec.conseq (Spec.ret _) (fun _ h => h) (fun rs st h => ?_)
    rw [h.1]
    refine ⟨h.2.1.1, fun kv hkv => ?_⟩
    simp only [List.mem_cons] at hkv
    rcases hkv with rfl | hkv
    · exact h.2.2
    · exact h.2.1.2 kv hkv
theorem injectF_spec : (fs : List (String × Obj)) →
    Spec b N P (injectF fs) (fun r st => P st ∧ ∀ p, p ∈ r → OKv b st p.2)
  | [] => by
    unfold injectF
    exact Spec.conseq (Spec.ret _) (fun _ h => h) (fun a st h => by rw [h.1]; exact ⟨h.2, fun v hv => by simp at hv⟩)
  | (s, v) :: rest => by
    unfold injectF
    refine Spec.bind (inject_spec v) (fun a => ?_)
    refine Spec.bind (Spec.frame (fun st => OKv b st a) (injectF_spec rest) (okv_stable hP a)) (fun r => ?_)
    refine Spec.conseq (Spec.ret _) (fun _ h => h) (fun rs st h => ?_)
    rw [h.1]
    refine ⟨h.2.1.1, fun p hp => ?_⟩
    simp only [List.mem_cons] at hp
    rcases hp with rfl | hp
    · exact h.2.2
    · exact h.2.1.2 p hp
end
end

end CattrsModel.Heap
