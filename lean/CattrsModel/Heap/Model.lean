import CattrsModel.Conv.StructDetailed
/-!
# Object-identity model (property C11)

A *store* is a list of cells; a location `Loc` is an index into it.  `alloc` appends, nothing is
ever freed.  A slot of a cell holds an `HVal`: an immutable leaf object or a reference.
Tuples and frozensets are cells too (they can hold references to mutable containers); whether a
cell's identity is *observable* is decided by `Cell.mutable`.

The state carries two ghost components that no program reads:
* `log`  — the locations returned *by reference* at a documented pass-through position,
* `raw`  — fresh cells still under construction (`o.copy()` before it has been patched).
-/
namespace CattrsModel.Heap
open CattrsModel

abbrev Loc := Nat

inductive HVal where
  | leaf (o : Obj)
  | ref (l : Loc)
  deriving Repr, Inhabited, DecidableEq

inductive Cell where
  | coll (k : CK) (xs : List HVal)
  | dict (kvs : List (HVal × HVal))
  | inst (c : Nat) (fs : List (String × HVal))
  | opaque (n : Nat)
  deriving Repr, Inhabited, DecidableEq

/-- every slot value of a cell -/
def Cell.children : Cell → List HVal
  | .coll _ xs => xs
  | .dict kvs => kvs.map (·.1) ++ kvs.map (·.2)
  | .inst _ fs => fs.map (·.2)
  | .opaque _ => []

/-- is the identity of the cell observable (can it be mutated by the caller)? -/
def Cell.mutable : Cell → Bool
  | .coll .tuple _ => false
  | .coll .fset _ => false
  | _ => true

structure St where
  cells : List Cell
  log : List Nat := []
  ilog : List Nat := []          -- ghost: provenance — the part of `log` written by `Prog.ident` (`logIdent`) only
  raw : List Nat := []
  unmod : Bool := false          -- ghost: the run left the modelled fragment (driver answers `unmodelled`)
  deriving Repr, Inhabited

/-- a computation: result (`none` = an exception propagates) and the store afterwards —
the store is returned on the error path too, so that the frame property covers it -/
abbrev M (α : Type) := St → Option α × St

@[inline] def ret {α} (a : α) : M α := fun st => (some a, st)
@[inline] def raise {α} : M α := fun st => (none, st)
@[inline] def bind {α β} (m : M α) (f : α → M β) : M β := fun st =>
  match m st with
  | (some a, st') => f a st'
  | (none, st') => (none, st')

/-- `try: m  except Exception: <recorded>` of the detailed templates: run `m`, never propagate -/
@[inline] def attempt {α} (m : M α) : M (Option α) := fun st =>
  match m st with
  | (r, st') => (some r, st')

/-! ### primitives -/

/-- allocate a finished cell -/
def alloc (c : Cell) : M Loc := fun st => (some st.cells.length, { st with cells := st.cells ++ [c] })

/-- allocate a cell that is going to be patched (`x.copy()`): ghost-marked raw -/
def allocRaw (c : Cell) : M Loc := fun st =>
  (some st.cells.length, { st with cells := st.cells ++ [c], raw := st.cells.length :: st.raw })

/-- ghost: the cell is finished -/
def sealRaw (l : Loc) : M Unit := fun st => (some (), { st with raw := st.raw.filter (· != l) })

def readLoc (l : Loc) : M Cell := fun st => (st.cells[l]?, st)

/-- the cell behind a value; leaves have none -/
def readV (v : HVal) : M Cell :=
  match v with
  | .ref l => readLoc l
  | .leaf _ => raise

/-- overwrite a cell (every mutation — `setitem`, `delitem`, `pop`, `append` — is a read,
a pure edit and a `write`) -/
def write (l : Loc) (c : Cell) : M Unit := fun st =>
  if l < st.cells.length then (some (), { st with cells := st.cells.set l c }) else (none, st)

/-- ghost: the value is handed out by reference at a documented pass-through position -/
def logPass (v : HVal) : M Unit := fun st =>
  match v with
  | .ref l => (some (), { st with log := l :: st.log })
  | .leaf _ => (some (), st)

/-- ghost: `logPass` as executed by `Prog.ident`; the location is additionally recorded in the
provenance log `ilog`, which nothing else writes and nothing reads -/
def logIdent (v : HVal) : M Unit := fun st =>
  match v with
  | .ref l => (some (), { st with log := l :: st.log, ilog := l :: st.ilog })
  | .leaf _ => (some (), st)

/-! ### reachability -/

inductive Reach (cs : List Cell) : HVal → Loc → Prop where
  | here (l : Loc) : Reach cs (.ref l) l
  | step {l c v l'} : cs[l]? = some c → v ∈ c.children → Reach cs v l' → Reach cs (.ref l) l'

/-- executable reachability (fuel-bounded), used by the driver only -/
def reachList (cs : List Cell) : Nat → List HVal → List Loc → List Loc
  | 0, _, acc => acc
  | _, [], acc => acc
  | n + 1, .leaf _ :: rest, acc => reachList cs n rest acc
  | n + 1, .ref l :: rest, acc =>
    if acc.contains l then reachList cs n rest acc
    else match cs[l]? with
      | some c => reachList cs n (c.children ++ rest) (l :: acc)
      | none => reachList cs n rest (l :: acc)

/-! ### reading a value back as a pure object -/

def isLeafObj : Obj → Bool
  | .coll _ _ | .dict _ | .mdict _ _ | .inst _ _ | .opaque _ => false
  | _ => true

mutual
def denote (cs : List Cell) : Nat → HVal → Option Obj
  | _, .leaf o => some o
  | 0, .ref _ => none
  | n + 1, .ref l =>
    match cs[l]? with
    | some (.coll k xs) => (denoteL cs n xs).map (.coll k)
    | some (.dict kvs) => (denoteKV cs n kvs).map .dict
    | some (.inst c fs) => (denoteF cs n fs).map (.inst c)
    | some (.opaque k) => some (.opaque k)
    | none => none
def denoteL (cs : List Cell) : Nat → List HVal → Option (List Obj)
  | _, [] => some []
  | n, x :: xs => match denote cs n x, denoteL cs n xs with
    | some a, some r => some (a :: r)
    | _, _ => none
def denoteKV (cs : List Cell) : Nat → List (HVal × HVal) → Option (List (Obj × Obj))
  | _, [] => some []
  | n, (k, v) :: rest => match denote cs n k, denote cs n v, denoteKV cs n rest with
    | some a, some b, some r => some ((a, b) :: r)
    | _, _, _ => none
def denoteF (cs : List Cell) : Nat → List (String × HVal) → Option (List (String × Obj))
  | _, [] => some []
  | n, (s, v) :: rest => match denote cs n v, denoteF cs n rest with
    | some b, some r => some ((s, b) :: r)
    | _, _ => none
end

/-- read the pure value behind `v` (ghost-free read of the whole subtree) -/
def peek (fuel : Nat) (v : HVal) : M Obj := fun st => (denote st.cells fuel v, st)

/-! ### loading a pure object into the store (post-order: children first, then the parent) -/

mutual
def inject : Obj → M HVal
  | .coll k xs => bind (injectL xs) fun ys => bind (alloc (.coll k ys)) fun l => ret (.ref l)
  | .dict kvs => bind (injectKV kvs) fun r => bind (alloc (.dict r)) fun l => ret (.ref l)
  | .inst c fs => bind (injectF fs) fun r => bind (alloc (.inst c r)) fun l => ret (.ref l)
  | .opaque n => bind (alloc (.opaque n)) fun l => ret (.ref l)
  | o => ret (.leaf o)
def injectL : List Obj → M (List HVal)
  | [] => ret []
  | x :: xs => bind (inject x) fun a => bind (injectL xs) fun r => ret (a :: r)
def injectKV : List (Obj × Obj) → M (List (HVal × HVal))
  | [] => ret []
  | (k, v) :: rest => bind (inject k) fun a => bind (inject v) fun b => bind (injectKV rest) fun r => ret ((a, b) :: r)
def injectF : List (String × Obj) → M (List (String × HVal))
  | [] => ret []
  | (s, v) :: rest => bind (inject v) fun b => bind (injectF rest) fun r => ret ((s, b) :: r)
end

end CattrsModel.Heap
