import CattrsModel.Heap.RefExec
/-!
# Refinement, part 6: the copy-then-patch programs of the TypedDict hooks (helpers)

While a TypedDict hook patches its copy (a *raw* cell `T` of the call's own), sub-hooks run and the copy is
overwritten several times.  What the other values read as is not affected: a caller's value never reaches the
copy, a finished fresh cell never references a raw cell (`Inv.edges`).
-/
namespace CattrsModel.Heap
open CattrsModel

/-- values whose reading cannot depend on a raw cell: the caller's, and finished results -/
def Stable (b : Nat) (st : St) (v : HVal) : Prop := ArgOld b v ∨ OKv b st v

theorem denoteL_transfer_mem {cs cs' : List Cell} {n n' : Nat} :
    ∀ (xs : List HVal) (os : List Obj), (∀ x, x ∈ xs → ∀ o, denote cs n x = some o → denote cs' n' x = some o) →
      denoteL cs n xs = some os → denoteL cs' n' xs = some os
  | [], os, _, hx => by rw [denoteL_nil] at hx; rw [denoteL_nil]; exact hx
  | x :: xs, os, h, hx => by
    obtain ⟨a, r, rfl, ha, hr⟩ := denoteL_cons_some.1 hx
    exact denoteL_cons_some.2 ⟨a, r, rfl, h x (List.mem_cons_self ..) a ha,
      denoteL_transfer_mem xs r (fun y hy => h y (List.mem_cons_of_mem _ hy)) hr⟩

theorem denoteKV_transfer_mem {cs cs' : List Cell} {n n' : Nat} :
    ∀ (xs : List (HVal × HVal)) (os : List (Obj × Obj)),
      (∀ kv, kv ∈ xs → ∀ x, (x = kv.1 ∨ x = kv.2) → ∀ o, denote cs n x = some o → denote cs' n' x = some o) →
      denoteKV cs n xs = some os → denoteKV cs' n' xs = some os
  | [], os, _, hx => by rw [denoteKV_nil] at hx; rw [denoteKV_nil]; exact hx
  | (k, v) :: xs, os, h, hx => by
    obtain ⟨a, b, r, rfl, ha, hb, hr⟩ := denoteKV_cons_some.1 hx
    exact denoteKV_cons_some.2 ⟨a, b, r, rfl, h (k, v) (List.mem_cons_self ..) k (Or.inl rfl) a ha,
      h (k, v) (List.mem_cons_self ..) v (Or.inr rfl) b hb,
      denoteKV_transfer_mem xs r (fun kv hkv => h kv (List.mem_cons_of_mem _ hkv)) hr⟩

theorem denoteF_transfer_mem {cs cs' : List Cell} {n n' : Nat} :
    ∀ (xs : List (String × HVal)) (os : List (String × Obj)),
      (∀ p, p ∈ xs → ∀ o, denote cs n p.2 = some o → denote cs' n' p.2 = some o) →
      denoteF cs n xs = some os → denoteF cs' n' xs = some os
  | [], os, _, hx => by rw [denoteF_nil] at hx; rw [denoteF_nil]; exact hx
  | (s, v) :: xs, os, h, hx => by
    obtain ⟨b, r, rfl, hb, hr⟩ := denoteF_cons_some.1 hx
    exact denoteF_cons_some.2 ⟨b, r, rfl, h (s, v) (List.mem_cons_self ..) b hb,
      denoteF_transfer_mem xs r (fun p hp => h p (List.mem_cons_of_mem _ hp)) hr⟩

theorem cellDen_transfer_mem {cs cs' : List Cell} {n n' : Nat} {c : Cell} {y : Obj}
    (h : ∀ x, x ∈ c.children → ∀ o, denote cs n x = some o → denote cs' n' x = some o)
    (hc : cellDen cs n c = some y) : cellDen cs' n' c = some y := by
  cases c with
  | coll ck xs =>
    simp only [cellDen, Option.map_eq_some_iff] at hc ⊢
    obtain ⟨os, hos, rfl⟩ := hc
    exact ⟨os, denoteL_transfer_mem xs os h hos, rfl⟩
  | dict kvs =>
    simp only [cellDen, Option.map_eq_some_iff] at hc ⊢
    obtain ⟨os, hos, rfl⟩ := hc
    refine ⟨os, denoteKV_transfer_mem kvs os (fun kv hkv x hx => h x ?_) hos, rfl⟩
    exact mem_dict_children.2 ⟨kv, hkv, hx⟩
  | inst c fs =>
    simp only [cellDen, Option.map_eq_some_iff] at hc ⊢
    obtain ⟨os, hos, rfl⟩ := hc
    refine ⟨os, denoteF_transfer_mem fs os (fun p hp => h p.2 ?_) hos, rfl⟩
    simp only [Cell.children, List.mem_map]
    exact ⟨p, hp, rfl⟩
  | «opaque» n => exact hc

/-- overwriting a raw cell of the call's own does not change what a stable value reads as -/
theorem denote_set_raw {b : Nat} {st : St} (g : Good b st) {T : Loc} (hT : T ∈ st.raw) (hbT : b ≤ T) (c : Cell) :
    ∀ (k : Nat) (v : HVal) (o : Obj), Stable b st v → denote st.cells k v = some o →
      denote (st.cells.set T c) k v = some o
  | k, .leaf o', o, _, h => by rw [denote_leaf] at h; rw [denote_leaf]; exact h
  | 0, .ref a, o, _, h => by simp [denote] at h
  | k + 1, .ref a, o, hs, h => by
    cases hc : st.cells[a]? with
    | none => rw [denote_ref_none hc] at h; simp at h
    | some ca =>
      have hne : T ≠ a := by
        rcases hs with h1 | ⟨h1, _⟩ | ⟨_, _, h3⟩
        · have h1 : a < b := h1
          exact fun he => by subst he; exact Nat.lt_irrefl _ (Nat.lt_of_lt_of_le h1 hbT)
        · exact fun he => by subst he; exact Nat.lt_irrefl _ (Nat.lt_of_lt_of_le h1 hbT)
        · intro he; subst he; exact h3 hT
      have hc' : (st.cells.set T c)[a]? = some ca := by rw [List.getElem?_set_ne hne]; exact hc
      rw [denote_ref_cell hc] at h
      rw [denote_ref_cell hc']
      refine cellDen_transfer_mem (fun x hx o' ho' => denote_set_raw g hT hbT c k x o' ?_ ho') h
      rcases hs with h1 | ⟨h1, _⟩ | ⟨h1, _, h3⟩
      · exact Or.inl (g.oc a ca h1 hc x hx)
      · exact Or.inl (g.oc a ca h1 hc x hx)
      · exact Or.inr (g.inv.edges a ca h1 h3 hc x hx)

theorem Stable.mono {b N : Nat} {st st' : St} {v : HVal} (e : Ev b N st st') (h : Stable b st v) : Stable b st' v :=
  h.elim Or.inl (fun h => Or.inr (OKv.mono e h))

/-- what overwriting the raw cell `T` with a dict of stable entries gives -/
structure WriteStep (b : Nat) (T : Loc) (cur : List (HVal × HVal)) (st st2 : St) : Prop where
  good : Good b st2
  raw : st2.raw = st.raw
  len : st2.cells.length = st.cells.length
  cell : st2.cells[T]? = some (.dict cur)
  den : ∀ k v o, Stable b st v → denote st.cells k v = some o → denote st2.cells k v = some o
  okv : ∀ v, OKv b st v → OKv b st2 v

theorem write_step {b : Nat} {st : St} (g : Good b st) {T : Loc} (hbT : b ≤ T) (hTl : T < st.cells.length)
    (hT : T ∈ st.raw) (cur : List (HVal × HVal)) :
    (write T (.dict cur) st).1 = some () ∧ WriteStep b T cur st (write T (.dict cur) st).2 := by
  have hsp := Spec.write (b := b) (N := b) (P := fun _ => True) (P' := fun _ => True) T (.dict cur)
    (fun _ _ _ => trivial) st ⟨trivial, hbT, Or.inl hT⟩ (Nat.le_refl b) g.le g.inv
  have hw : write T (.dict cur) st = (some (), { st with cells := st.cells.set T (.dict cur) }) := by
    unfold write; simp only [hTl, if_true]
  rw [hw] at hsp ⊢
  refine ⟨rfl, g.ev hsp.1, rfl, by simp, ?_, fun k v o hs h => denote_set_raw g hT hbT _ k v o hs h,
    fun v hv => okv_set hv⟩
  show (st.cells.set T (.dict cur))[T]? = some (.dict cur)
  simp [hTl]

/-! ### string-keyed edits against the pure dict operations -/

theorem leaf_beq (a b : Obj) : (HVal.leaf a == HVal.leaf b) = (a == b) := by
  by_cases h : a = b
  · subst h; simp
  · have h' : HVal.leaf a ≠ HVal.leaf b := fun e => h (HVal.leaf.inj e)
    rw [beq_eq_false_iff_ne.2 h', beq_eq_false_iff_ne.2 h]

theorem keyIs_pyEq {cs : List Cell} {k : Nat} {kx : HVal} {ko : Obj} (h : denote cs k kx = some ko) (s : String) :
    keyIs kx s = Obj.pyEq ko (.str s) := by
  cases kx with
  | leaf o =>
    rw [denote_leaf] at h; cases h
    unfold keyIs Obj.pyEq
    rw [leaf_beq]
    cases ko <;> simp [Obj.num2?]
  | ref a =>
    cases k with
    | zero => simp [denote] at h
    | succ k =>
      cases hc : cs[a]? with
      | none => rw [denote_ref_none hc] at h; simp at h
      | some c =>
        rw [denote_ref_cell hc] at h
        have : keyIs (.ref a) s = false := by simp [keyIs]
        rw [this]
        cases c <;> simp only [cellDen, Option.map_eq_some_iff] at h
        · obtain ⟨_, _, rfl⟩ := h; simp [Obj.pyEq, Obj.num2?]
        · obtain ⟨_, _, rfl⟩ := h; simp [Obj.pyEq, Obj.num2?]
        · obtain ⟨_, _, rfl⟩ := h; simp [Obj.pyEq, Obj.num2?]
        · cases h; simp [Obj.pyEq, Obj.num2?]

theorem lookupS_den {cs : List Cell} {k : Nat} (s : String) : ∀ (kvs : List (HVal × HVal)) (os : List (Obj × Obj)),
    denoteKV cs k kvs = some os →
      (∀ v, lookupS kvs s = some v → ∃ o, dlookup os (.str s) = some o ∧ denote cs k v = some o) ∧
      (lookupS kvs s = none → dlookup os (.str s) = none)
  | [], os, h => by
    rw [denoteKV_nil] at h; cases h
    exact ⟨fun v hv => by simp [lookupS] at hv, fun _ => rfl⟩
  | (kx, vx) :: rest, os, h => by
    obtain ⟨a, b', r, rfl, ha, hb, hr⟩ := denoteKV_cons_some.1 h
    have ih := lookupS_den s rest r hr
    simp only [lookupS, dlookup, keyIs_pyEq ha s]
    cases Obj.pyEq a (.str s) with
    | true =>
      simp only [if_true]
      exact ⟨fun v hv => by simp only [Option.some.injEq] at hv; subst hv; exact ⟨b', rfl, hb⟩,
        fun h => by simp at h⟩
    | false =>
      simp only [Bool.false_eq_true, if_false]
      exact ih

theorem dictSetS_den {cs : List Cell} {k : Nat} (s : String) {vx : HVal} {vo : Obj} (hv : denote cs k vx = some vo) :
    ∀ (d : List (HVal × HVal)) (dO : List (Obj × Obj)), denoteKV cs k d = some dO →
      denoteKV cs k (dictSetS d s vx) = some (dictSet dO (.str s) vo)
  | [], dO, h => by
    rw [denoteKV_nil] at h; cases h
    exact denoteKV_cons_some.2 ⟨.str s, vo, [], rfl, denote_leaf _ _ _, hv, denoteKV_nil _ _⟩
  | (k', v') :: rest, dO, h => by
    obtain ⟨a, b', r, rfl, ha, hb, hr⟩ := denoteKV_cons_some.1 h
    simp only [dictSetS, dictSet, keyIs_pyEq ha s]
    split
    · exact denoteKV_cons_some.2 ⟨a, vo, r, rfl, ha, hv, hr⟩
    · exact denoteKV_cons_some.2 ⟨a, b', _, rfl, ha, hb, dictSetS_den s hv rest r hr⟩

end CattrsModel.Heap
