import CattrsModel.Heap.RefSt4
/-!
# Refinement, structuring (5): the class hooks
-/
namespace CattrsModel.Heap
open CattrsModel

theorem conv_eq (w : World) (cfg : Cfg) (t : Ty) (o : Obj) : convStructure w cfg t o = stF w cfg.core t o := by
  unfold convStructure
  split
  · exact modes_agree w cfg.core t o
  · rfl

theorem buildPure_inst (w : World) (cfg : Cfg) (doomed : Bool) (c : Nat) (names : List String)
    (ts : List (Call × HVal)) (os : List Obj) :
    buildPure w cfg doomed (.inst c names) ts os = (fieldsPure w cfg doomed names ts os).map (.inst c) := by
  unfold buildPure fieldsPure
  cases doomed with
  | true => rfl
  | false =>
    simp only [Bool.false_eq_true, if_false]
    cases pureTasks w cfg ts os <;> rfl

theorem stF_cls_tuple_some {w : World} {cfg : Cfg} (ht : cfg.tupleStrat = true) (c : Nat) {o : Obj} {os : List Obj}
    (hi : iterItems o = some os) :
    stF w cfg (.cls c) o = (stFFieldsT w cfg (w.fields c) os).map (.inst c) := by
  cases o <;> simp only [iterItems] at hi <;> try (cases hi)
  · simp only [stF, ht, if_true]
    split
    · rename_i h; simp [iterItems] at h
    · rename_i xs h; simp only [iterItems, Option.some.injEq] at h; subst h; rfl
  · simp only [stF, ht, if_true]

theorem stF_cls_tuple_none {w : World} {cfg : Cfg} (ht : cfg.tupleStrat = true) (c : Nat) {o : Obj}
    (hi : iterItems o = none) (hl : leafItems o = none) : stF w cfg (.cls c) o = none := by
  rw [CattrsModel.stF_cls_tuple w cfg ht, hi]
  simp only []
  unfold leafFuel
  rw [Leaf.stLF_cls_tuple_succ w cfg ht, hl]

theorem stF_cls_nonmap {w : World} {cfg : Cfg} (ht : cfg.tupleStrat = false) (c : Nat) {o r : Obj}
    (ho : ∀ okvs, o ≠ .dict okvs) (h : stF w cfg (.cls c) o = some r) :
    ∃ fs, r = .inst c fs ∧ defaultsOf (w.fields c) = some fs := by
  have key : (if cfg.gen then nonMappingClsGen w cfg c o else nonMappingClsInterp w c) = some r := by
    cases o <;> first
      | (exact absurd rfl (ho _))
      | (simpa only [stF, ht, Bool.false_eq_true, if_false] using h)
  unfold nonMappingClsGen nonMappingClsInterp at key
  repeat' split at key
  all_goals first
    | (simp at key; done)
    | (simp only [Option.map_eq_some_iff] at key
       obtain ⟨fs, hfs, rfl⟩ := key
       exact ⟨fs, rfl, hfs⟩)

theorem planClsSt_nondict {w : World} {cfg : Cfg} (ht : cfg.tupleStrat = false) (c : Nat) (v : HVal) {view : Option Cell}
    (hv : ∀ kvs, view ≠ some (.dict kvs)) (o : Obj) :
    planClsSt w cfg c v view (some o) =
      (match convStructure w cfg (.cls c) o with | some r => Prog.fresh r | none => Prog.fail) := by
  unfold planClsSt
  simp only [ht, Bool.false_eq_true, if_false]
  cases view with
  | none => rfl
  | some c' =>
    cases c' with
    | dict kvs => exact absurd rfl (hv kvs)
    | coll _ _ => rfl
    | inst _ _ => rfl
    | «opaque» _ => rfl

theorem fieldNames_eq (fds : List Field) : fieldNames fds = (fds.map (·.name)).map Obj.str := by
  simp only [fieldNames, List.map_map]; rfl

theorem argSrc_ok {b : Nat} {kids : List HVal} (hk : ∀ x, x ∈ kids → ArgOld b x ∧ Proper x) {x : HVal}
    (h : ArgSrc kids x) : ArgOld b x ∧ Proper x := by
  rcases h with h | rfl
  · exact hk x h
  · exact ⟨trivial, Proper.leaf rfl⟩

section
variable (w : World) (hc : HCfg) (hw : WLit w) {b K : Nat} {rec : Rec} (hrec : HookOK b rec)
  (href : ∀ j, j < K → RecRef w hc.cfg.core b (dW w) j (okcSt w) (fun _ => True) rec)
include hw hrec href

/-- **the class hooks** (generated and interpretive, dict and tuple strategy, forbidden extra keys, payloads that are
not mappings) compute `stF … (.cls c)` -/
theorem planClsSt_ref (c : Nat) (v : HVal) (st : St) (k : Nat) (o : Obj) (g : Good b st) (hv : ArgOld b v)
    (hp : Proper v) (hdn : denote st.cells k v = some o) (hk : k ≤ K) :
    Outcome b st (exec w (K + dW w) rec (planClsSt w hc.cfg c v (viewOf st v) (some o)) st) (k + dW w)
      (stF w hc.cfg.core (.cls c) o) True := by
  have hfo := fieldsOK_world hw c
  cases ht : hc.cfg.tupleStrat with
  | true =>
    have ht' : hc.cfg.core.tupleStrat = true := ht
    rcases iter_cases g hv hp hdn with ⟨xs, os, k', h1, h2, rfl, h3, h4⟩ | ⟨h1, h2⟩
    · obtain ⟨os', hden, heq, hsrc⟩ := clsStTasksT_ref w hc.cfg.core (w.fields c) xs os hfo h3
      rw [stF_cls_tuple_some ht' c h2, heq]
      unfold planClsSt
      simp only [ht, if_true, h1]
      cases hr : clsStTasksT (w.fields c) xs with
      | mk ts doomed =>
        rw [hr] at hden hsrc
        simp only at hden hsrc ⊢
        have := exec_build_ref hrec (href k' (by omega)) (K + dW w) (by omega) false doomed
          (.inst c ((w.fields c).map (·.name))) ts os' st g (fun t ht => argSrc_ok h4 (hsrc t ht)) hden
        rw [buildPure_inst] at this
        exact (this.mono (by omega)).weaken (fun _ _ _ => trivial)
    · unfold planClsSt
      simp only [ht, if_true, h1]
      exact exec_noItems_ref w _ rec v st g _ hdn (fun hl => stF_cls_tuple_none ht' c h2 hl) _
  | false =>
    have ht' : hc.cfg.core.tupleStrat = false := ht
    rcases dict_cases g hv hp hdn with ⟨l, kvs, okvs, k', rfl, hl, h1, rfl, rfl, h3, h4⟩ | ⟨h1, h2⟩
    · obtain ⟨os', hden, heq, hsrc⟩ := clsStTasks_ref w hc.cfg.core kvs okvs h3 (w.fields c) hfo
      unfold planClsSt
      simp only [ht, Bool.false_eq_true, if_false, h1]
      cases hr : clsStTasks (w.fields c) kvs with
      | mk ts doomed =>
        rw [hr] at hden hsrc heq
        simp only at hden hsrc heq ⊢
        have := exec_build_ref hrec (href k' (by omega)) (K + dW w) (by omega) (hc.cfg.gen && hc.cfg.detailed)
          (doomed || (hc.cfg.gen && hc.cfg.forbid && !keyStrs kvs ((initFields (w.fields c)).map (·.name))))
          (.inst c ((w.fields c).map (·.name))) ts os' st g (fun t ht => argSrc_ok h4 (hsrc t ht)) hden
        rw [buildPure_inst] at this
        refine ((this.mono (by omega)).weaken (fun _ _ _ => trivial)).pure_eq ?_
        simp only [stF, ht', Bool.false_eq_true, if_false, heq, fieldNames_eq,
          ← keyStrs_den ((initFields (w.fields c)).map (·.name)) kvs okvs h3]
        show _ = (match fieldsPure w hc.cfg.core doomed ((w.fields c).map (fun (f : Field) => f.name)) ts os' with
          | none => none
          | some fs => if (hc.cfg.gen && hc.cfg.forbid &&
              !keyStrs kvs ((initFields (w.fields c)).map (fun (f : Field) => f.name))) = true then none else some (Obj.inst c fs))
        unfold fieldsPure
        cases doomed <;>
          cases (hc.cfg.gen && hc.cfg.forbid && !keyStrs kvs ((initFields (w.fields c)).map (·.name))) <;>
          simp <;> cases pureTasks w hc.cfg.core ts os' <;> simp
    · rw [planClsSt_nondict ht c v h1 o, conv_eq]
      cases hs : stF w hc.cfg.core (.cls c) o with
      | none => exact exec_fail_ref w _ rec st g _ _
      | some r =>
        obtain ⟨fs, rfl, hfs⟩ := stF_cls_nonmap ht' c h2 hs
        have hdr : hd (Obj.inst c fs) ≤ k + dW w := by
          have := defaultsOf_hd hfo hfs
          simp only [hd, dW]; omega
        exact exec_fresh_ref hrec w _ _ st g _ hdr _
end

end CattrsModel.Heap
