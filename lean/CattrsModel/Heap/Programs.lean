import CattrsModel.Heap.Model
/-!
# Store programs of the hooks that build or mutate containers

A hook invocation is split in two phases:
* `plan` (file `Plan.lean`) only *reads* the argument (one level) and decides which program the
  generated / interpretive hook amounts to on this argument — it mirrors hook construction;
* `exec` runs the program: sub-hook calls (late-bound through `rec`), `alloc`, `copy`, `write`.

`Prog` is the program family; `Prog.safe` excludes exactly the two constructors kept for the
negative witnesses (`popInPlace`, `copyPatch` with `inPlace`).
-/
namespace CattrsModel.Heap
open CattrsModel

/-- which hook to call on a sub-value (resolved late, like `converter.structure`) -/
inductive Call where
  | un (t : Ty)        -- unstructure hook of the declared type
  | unAny              -- `converter.unstructure(v)`: by run-time class
  | st (t : Ty)        -- structure hook of the type
  | pass               -- `lambda v: v` (untyped attribute when structuring, key constants)
  | fresh (o : Obj)    -- a default value / factory result: a newly built object
  deriving Repr, Inhabited

abbrev Rec := Call → HVal → M HVal

/-- run the sub-hooks in order.  Fast templates stop at the first exception; detailed templates
wrap every call in `try/except`, run them all and raise at the end. -/
def runTasks (rec : Rec) (det : Bool) : List (Call × HVal) → M (List HVal)
  | [] => ret []
  | (c, x) :: ts => bind (attempt (rec c x)) fun r =>
      match r with
      | some y => bind (runTasks rec det ts) fun ys => ret (y :: ys)
      | none => if det then bind (attempt (runTasks rec det ts)) fun _ => raise else raise

inductive Shape where
  | coll (k : CK)
  | dict                                   -- results alternate key, value
  | inst (c : Nat) (names : List String)
  deriving Repr, Inhabited

def pairUp : List HVal → List (HVal × HVal)
  | k :: v :: rest => (k, v) :: pairUp rest
  | _ => []

/-- `s.add(x)`: the first of several `==`-equal members stays (the shape of the pure model's `setAdd` / `mkSet`) -/
def setAddH (eq : HVal → HVal → Bool) (acc : List HVal) (x : HVal) : List HVal :=
  if acc.any (fun y => eq y x) then acc else acc ++ [x]

def dedupH (eq : HVal → HVal → Bool) (xs : List HVal) : List HVal := xs.foldl (setAddH eq) []

/-- `d[k] = v` keyed by `eq`: the first key object stays, the value is replaced -/
def dictSetH (eq : HVal → HVal → Bool) : List (HVal × HVal) → HVal → HVal → List (HVal × HVal)
  | [], k, v => [(k, v)]
  | (k', v') :: rest, k, v => if eq k' k then (k', v) :: rest else (k', v') :: dictSetH eq rest k v

def mkDictH (eq : HVal → HVal → Bool) (kvs : List (HVal × HVal)) : List (HVal × HVal) :=
  kvs.foldl (fun d kv => dictSetH eq d kv.1 kv.2) []

/-- `==` on two store values: Python `==` on what they read as -/
def eqH (cs : List Cell) (fuel : Nat) (a b : HVal) : Bool :=
  match denote cs fuel a, denote cs fuel b with
  | some x, some y => Obj.pyEq x y
  | _, _ => a == b

/-- can the store value be hashed? -/
def hshH (w : World) (cs : List Cell) (fuel : Nat) (a : HVal) : Bool :=
  match denote cs fuel a with
  | some x => hashable w x
  | none => false

/-- put the results into the cell that is going to be allocated; sets and dict keys need
hashable members (`TypeError: unhashable`), compared with `==` -/
def assemble (w : World) (fuel : Nat) (sh : Shape) (ys : List HVal) : M Cell := fun st =>
  let eq := eqH st.cells fuel
  let hsh := hshH w st.cells fuel
  match sh with
  | .coll k =>
      if k.isSet then (if ys.all hsh then (some (.coll k (dedupH eq ys)), st) else (none, st))
      else (some (.coll k ys), st)
  | .dict =>
      let kvs := pairUp ys
      if kvs.all (fun kv => hsh kv.1) then (some (.dict (mkDictH eq kvs)), st) else (none, st)
  | .inst c names => (some (.inst c (names.zip ys)), st)

/-! ### string-keyed edits of a dict's content -/

def keyIs (k : HVal) (s : String) : Bool := k == .leaf (.str s)

def lookupS : List (HVal × HVal) → String → Option HVal
  | [], _ => none
  | (k, v) :: rest, s => if keyIs k s then some v else lookupS rest s

def dictSetS : List (HVal × HVal) → String → HVal → List (HVal × HVal)
  | [], s, v => [(.leaf (.str s), v)]
  | (k', v') :: rest, s, v => if keyIs k' s then (k', v) :: rest else (k', v') :: dictSetS rest s v

def dictDelS (kvs : List (HVal × HVal)) (s : String) : List (HVal × HVal) :=
  kvs.filter (fun kv => !keyIs kv.1 s)

def dictDelAll (kvs : List (HVal × HVal)) (ss : List String) : List (HVal × HVal) :=
  ss.foldl dictDelS kvs

/-- one line group of a TypedDict hook body: `res.pop(d, None)` for every `d`, then
`res[set] = hook(o[..])` when there is a call (`hook` may be the plain fetch `o[..]`) -/
structure Patch where
  dels : List String
  call : Option (Call × HVal × String)      -- sub-hook, its argument, key assigned
  deriving Repr, Inhabited

def logAll : List HVal → M Unit
  | [] => ret ()
  | v :: vs => bind (logPass v) fun _ => logAll vs

/-- apply the patches to the cell `target`, whose current content is `cur` -/
def runPatches (rec : Rec) (det : Bool) (target : Loc) :
    List Patch → List (HVal × HVal) → Bool → M (List (HVal × HVal) × Bool)
  | [], cur, failed => ret (cur, failed)
  | p :: ps, cur, failed =>
    let cur1 := dictDelAll cur p.dels
    match p.call with
    | none => bind (write target (.dict cur1)) fun _ => runPatches rec det target ps cur1 failed
    | some (c, x, key) => bind (attempt (rec c x)) fun r =>
        match r with
        | some y =>
            let cur2 := dictSetS cur1 key y
            bind (write target (.dict cur2)) fun _ => runPatches rec det target ps cur2 failed
        | none => if det then runPatches rec det target ps cur true else raise

inductive Prog where
  | fail                                     -- the hook raises before doing anything
  | unmodelled                               -- outside the modelled fragment (e.g. iterating a `str`)
  | ident (v : HVal)                         -- `return v`: documented pass-through (logged)
  | leaf (o : Obj)                           -- a builtin coercion returned an immutable object
  | fresh (o : Obj)                          -- a newly built object (defaults only)
  /-- run the sub-hooks, then (unless `doomed`: a missing key, wrong arity, forbidden extra
  keys … make the hook raise) allocate the filled container -/
  | build (det doomed : Bool) (sh : Shape) (tasks : List (Call × HVal))
  /-- TypedDict hooks: `res = o.copy()`, patch `res`, `return res`.
  `inPlace` (never planned; mutant / witness): patch `o` itself -/
  | copyPatch (det doomed inPlace : Bool) (src : Loc) (c0 : List (HVal × HVal)) (patches : List Patch)
  /-- tagged union, `forbid_extra_keys`: `val = val.copy(); tag = val.pop(name); member(val)`;
  `c1` is the content after the pop, `inner` the member's hook on it -/
  | popCopy (c0 c1 : List (HVal × HVal)) (inner : Prog)
  /-- the same without the copy (never planned; witness) -/
  | popInPlace (src : Loc) (c1 : List (HVal × HVal)) (inner : Prog)
  /-- tagged union, unstructure: `res = member(val); res[name] = tag; return res` -/
  | tagInsert (det doomed : Bool) (sh : Shape) (tasks : List (Call × HVal)) (name : String) (tag : Obj)
  deriving Repr, Inhabited

def Prog.safe : Prog → Bool
  | .copyPatch _ _ inPlace _ _ _ => !inPlace
  | .popCopy _ _ inner => inner.safe
  | .popInPlace _ _ _ => false
  | _ => true

/-- run the sub-hooks and allocate the result container -/
def buildLoc (w : World) (fuel : Nat) (rec : Rec) (det doomed : Bool) (sh : Shape)
    (tasks : List (Call × HVal)) : M (Loc × Cell) :=
  bind (runTasks rec det tasks) fun ys =>
    if doomed then raise
    else bind (assemble w fuel sh ys) fun c => bind (alloc c) fun l => ret (l, c)

def survivors (c0 cur : List (HVal × HVal)) : List HVal :=
  (Cell.dict cur).children.filter (fun v => (Cell.dict c0).children.contains v)

def exec (w : World) (fuel : Nat) (rec : Rec) : Prog → M HVal
  | .fail => raise
  | .unmodelled => fun st => (none, { st with unmod := true })
  | .ident v => bind (logIdent v) fun _ => ret v
  | .leaf o => ret (.leaf o)
  | .fresh o => inject o
  | .build det doomed sh tasks => bind (buildLoc w fuel rec det doomed sh tasks) fun lc => ret (.ref lc.1)
  | .copyPatch det doomed inPlace src c0 patches =>
      bind (if inPlace then ret src else allocRaw (.dict c0)) fun target =>
      bind (runPatches rec det target patches c0 false) fun r =>
        if r.2 || doomed then raise
        else
          -- what is left of the original entries is handed out by reference
          bind (logAll (survivors c0 r.1)) fun _ =>
          bind (sealRaw target) fun _ => ret (.ref target)
  | .popCopy c0 c1 inner =>
      bind (allocRaw (.dict c0)) fun cp =>
      bind (write cp (.dict c1)) fun _ => exec w fuel rec inner
  | .popInPlace src c1 inner =>
      bind (write src (.dict c1)) fun _ => exec w fuel rec inner
  | .tagInsert det doomed sh tasks name tag =>
      bind (buildLoc w fuel rec det doomed sh tasks) fun lc =>
        match lc.2 with
        | .dict kvs => bind (write lc.1 (.dict (dictSetS kvs name (.leaf tag)))) fun _ => ret (.ref lc.1)
        | _ => raise            -- `res[name] = tag` on a tuple

end CattrsModel.Heap
