import CattrsModel.Heap.FreshPatch
/-!
# Provenance logic: every safe program without TypedDict extras
-/
namespace CattrsModel.Heap
open CattrsModel

/-- the sub-hook calls of a program -/
def Prog.calls : Prog → List (Call × HVal)
  | .build _ _ _ tasks => tasks
  | .tagInsert _ _ _ tasks _ _ => tasks
  | .copyPatch _ _ _ _ _ ps => ps.filterMap (fun p => p.call.map (fun c => (c.1, c.2.1)))
  | .popCopy _ _ inner => inner.calls
  | .popInPlace _ _ inner => inner.calls
  | _ => []

/-- **the F34-free side condition of one program**: every `copyPatch` in it satisfies `NoExtras` -/
def Prog.NoExtras (D : Nat → Prop) : Prog → Prop
  | .copyPatch _ _ _ _ c0 ps => Heap.NoExtras D c0 ps
  | .popCopy _ _ inner => inner.NoExtras D
  | .popInPlace _ _ inner => inner.NoExtras D
  | _ => True

/-- what is known about the location a program hands out through `ident` -/
def Prog.IdentJ (J : Nat → Prop) : Prog → Prop
  | .ident (.ref a) => J a
  | .popCopy _ _ inner => inner.IdentJ J
  | .popInPlace _ _ inner => inner.IdentJ J
  | _ => True

section
variable {b : Nat} {cs0 : List Cell} {D J : Nat → Prop}

variable (b cs0 D J) in
/-- the late-bound sub-hooks: on the calls in `S` they respect the provenance discipline -/
def GoodRec (rec : Rec) (S : Call → HVal → Prop) : Prop :=
  ∀ c x, S c x → Sp b cs0 D J (fun _ => True) (rec c x) (fun r st => Res b D r st)

def AllRes (b : Nat) (D : Nat → Prop) (ys : List HVal) (st : St) : Prop := ∀ y, y ∈ ys → Res b D y st

theorem AllRes.tr {ys} {st st' : St} (h : AllRes b D ys st) (e : Tr b D J st st') : AllRes b D ys st' :=
  fun y hy => (h y hy).tr e

theorem runTasks_sp {rec : Rec} {S : Call → HVal → Prop} (hrec : GoodRec b cs0 D J rec S) (det : Bool) :
    ∀ tasks : List (Call × HVal), (∀ t, t ∈ tasks → S t.1 t.2) →
      Sp b cs0 D J (fun _ => True) (runTasks rec det tasks) (fun ys st => AllRes b D ys st)
  | [], _ => by
    unfold runTasks
    exact Sp.conseq (Sp.ret _) (fun _ h => h) (fun a st h => by rw [h.1]; exact fun y hy => by simp at hy)
  | (c, x) :: ts, hts => by
    have ih := runTasks_sp hrec det ts (fun t ht => hts t (List.mem_cons_of_mem _ ht))
    unfold runTasks
    refine Sp.bind (Sp.conseq (Sp.attempt (fun _ => True) (hrec c x (hts (c, x) (List.mem_cons_self ..)))
      (fun _ _ h _ => h)) (fun _ h => ⟨h, h⟩) (fun _ _ h => h)) (fun r => ?_)
    cases r with
    | none =>
      show Sp b cs0 D J _ (if det then _ else _) _
      split
      · exact Sp.bind (Sp.conseq (Sp.attempt (fun _ => True) ih (fun _ _ h _ => h)) (fun _ _ => ⟨trivial, trivial⟩)
          (fun _ _ h => h)) (fun _ => Sp.raise)
      · exact Sp.raise
    | some y =>
      show Sp b cs0 D J _ (bind (runTasks rec det ts) _) _
      refine Sp.bind (Sp.conseq (Sp.frame (fun st => Res b D y st) ih (fun _ _ h e => h.tr e))
        (fun st h => ⟨trivial, h.1 y rfl⟩) (fun _ _ h => h)) (fun ys => ?_)
      refine Sp.conseq (Sp.ret _) (fun _ h => h) (fun rs st h => ?_)
      rw [h.1]
      intro v hv
      simp only [List.mem_cons] at hv
      rcases hv with rfl | hv
      · exact h.2.2
      · exact h.2.1 v hv

theorem buildLoc_sp {rec : Rec} {S : Call → HVal → Prop} (hrec : GoodRec b cs0 D J rec S) (w : World) (fuel : Nat)
    (det doomed : Bool) (sh : Shape) (tasks : List (Call × HVal)) (hts : ∀ t, t ∈ tasks → S t.1 t.2) :
    Sp b cs0 D J (fun _ => True) (buildLoc w fuel rec det doomed sh tasks) (fun lc _ => b ≤ lc.1) := by
  unfold buildLoc
  refine Sp.bind (runTasks_sp hrec det tasks hts) (fun ys => ?_)
  split
  · exact Sp.raise
  · refine Sp.bind (Sp.readonly (assemble w fuel sh ys) (assemble_state w fuel sh ys)) (fun c => ?_)
    refine Sp.bind (Sp.conseq (Sp.alloc (P := fun _ => True) c (fun _ _ h _ => h)) (fun _ _ => trivial)
      (fun _ _ h => h)) (fun l => ?_)
    exact Sp.conseq (Sp.ret _) (fun _ h => h) (fun lc st h => by rw [h.1]; exact h.2.2)

theorem runPatches_sp {rec : Rec} {S : Call → HVal → Prop} (hrec : GoodRec b cs0 D J rec S) (det : Bool)
    (target : Loc) (hbt : b ≤ target) :
    ∀ (ps : List Patch) (cur : List (HVal × HVal)) (failed : Bool),
      (∀ p, p ∈ ps → ∀ c x k, p.call = some (c, x, k) → S c x) →
      Sp b cs0 D J (fun st => failed = false → PInv b D ps cur st) (runPatches rec det target ps cur failed)
        (fun r st => r.2 = false → PInv b D [] r.1 st)
  | [], cur, failed, _ => by
    unfold runPatches
    exact Sp.conseq (Sp.ret _) (fun _ h => h) (fun a st h => by rw [h.1]; exact h.2)
  | p :: ps, cur, failed, hps => by
    have ih := fun cur' failed' => runPatches_sp hrec det target hbt ps cur' failed'
      (fun p' hp' => hps p' (List.mem_cons_of_mem _ hp'))
    have hstab : ∀ (ps' : List Patch) (cur' : List (HVal × HVal)) (st st' : St),
        (failed = false → PInv b D ps' cur' st) → Tr b D J st st' → (failed = false → PInv b D ps' cur' st') :=
      fun _ _ _ _ h e hf => (h hf).tr e
    unfold runPatches
    simp only []
    cases hcall : p.call with
    | none =>
      simp only []
      refine Sp.bind (Sp.conseq (Sp.write (P := fun st => failed = false → PInv b D ps (dictDelAll cur p.dels) st)
        target _ hbt (hstab _ _)) (fun st h hf => (h hf).delNone hcall) (fun _ _ h => h)) (fun _ => ih _ _)
    | some cxk =>
      obtain ⟨c, x, key⟩ := cxk
      simp only []
      have hS : S c x := hps p (List.mem_cons_self ..) c x key hcall
      refine Sp.bind (Sp.conseq (Sp.attempt (fun st => failed = false → PInv b D (p :: ps) cur st) (hrec c x hS)
        (hstab _ _)) (fun _ h => ⟨trivial, h⟩) (fun _ _ h => h)) (fun r => ?_)
      cases r with
      | none =>
        show Sp b cs0 D J _ (if det then _ else _) _
        split
        · exact Sp.conseq (ih cur true) (fun _ _ hf => by cases hf) (fun _ _ h => h)
        · exact Sp.raise
      | some y =>
        show Sp b cs0 D J _ (bind (write target _) _) _
        refine Sp.bind (Sp.conseq (Sp.write
          (P := fun st => failed = false → PInv b D ps (dictSetS (dictDelAll cur p.dels) key y) st)
          target _ hbt (hstab _ _)) (fun st h hf => (h.2 hf).setCall hcall (h.1 y rfl)) (fun _ _ h => h))
          (fun _ => ih _ _)

/-- **Every safe program whose `copyPatch`es have no extras respects the provenance discipline.** -/
theorem exec_sp {rec : Rec} {S : Call → HVal → Prop} (hrec : GoodRec b cs0 D J rec S) (w : World) (fuel : Nat) :
    ∀ (p : Prog), p.safe = true → p.NoExtras D → p.IdentJ J → (∀ t, t ∈ p.calls → S t.1 t.2) →
      Sp b cs0 D J (fun _ => True) (exec w fuel rec p) (fun r st => Res b D r st)
  | .fail, _, _, _, _ => by unfold exec; exact Sp.raise
  | .unmodelled, _, _, _, _ => by
    unfold exec
    intro st _ _
    exact ⟨Tr.of_cells rfl rfl (Nat.le_refl _) (fun _ _ => rfl), fun r hr => by simp at hr⟩
  | .ident v, _, _, hJ, _ => by
    unfold exec
    have hJ' : ∀ a, v = .ref a → J a := fun a ha => by subst ha; exact hJ
    refine Sp.bind (Sp.logIdent (P := fun _ => True) v hJ' (fun _ _ h _ => h)) (fun _ => ?_)
    exact Sp.conseq (Sp.ret _) (fun _ h => h) (fun r st h => by rw [h.1]; exact h.2.2)
  | .leaf o, _, _, _, _ => by
    unfold exec
    exact Sp.conseq (Sp.ret _) (fun _ h => h) (fun r st h => by rw [h.1]; exact Res.leaf _ _)
  | .fresh o, _, _, _, _ => by
    unfold exec
    exact Sp.conseq (inject_sp (P := fun _ => True) o (fun _ _ h _ => h)) (fun _ h => h) (fun _ _ h => h.2)
  | .build det doomed sh tasks, _, _, _, hts => by
    unfold exec
    refine Sp.bind (buildLoc_sp hrec w fuel det doomed sh tasks hts) (fun lc => ?_)
    exact Sp.conseq (Sp.ret _) (fun _ h => h) (fun r st h => by rw [h.1]; exact Res.fresh _ h.2)
  | .tagInsert det doomed sh tasks name tag, _, _, _, hts => by
    unfold exec
    refine Sp.bind (buildLoc_sp hrec w fuel det doomed sh tasks hts) (fun lc => ?_)
    cases hc : lc.2 with
    | dict kvs =>
      simp only []
      by_cases hbl : b ≤ lc.1
      · refine Sp.bind (Sp.conseq (Sp.write (P := fun _ => True) lc.1 _ hbl (fun _ _ h _ => h))
          (fun _ _ => trivial) (fun _ _ h => h)) (fun _ => ?_)
        exact Sp.conseq (Sp.ret _) (fun _ h => h) (fun r st h => by rw [h.1]; exact Res.fresh _ hbl)
      · intro st h
        exact absurd h hbl
    | _ => simp only []; exact Sp.raise
  | .popCopy c0 c1 inner, hs, hne, hJ, hts => by
    have hs' : inner.safe = true := by simpa [Prog.safe] using hs
    unfold exec
    refine Sp.bind (Sp.allocRaw (P := fun _ => True) (.dict c0) (fun _ _ h _ => h)) (fun cp => ?_)
    by_cases hbl : b ≤ cp
    · refine Sp.bind (Sp.conseq (Sp.write (P := fun _ => True) cp _ hbl (fun _ _ h _ => h))
        (fun _ _ => trivial) (fun _ _ h => h)) (fun _ => ?_)
      exact exec_sp hrec w fuel inner hs' hne hJ hts
    · intro st h
      exact absurd h.2 hbl
  | .popInPlace _ _ _, hs, _, _, _ => by simp [Prog.safe] at hs
  | .copyPatch det doomed inPlace src c0 ps, hs, hne, _, hts => by
    have hin : inPlace = false := by simpa [Prog.safe] using hs
    subst hin
    have hps : ∀ p, p ∈ ps → ∀ c x k, p.call = some (c, x, k) → S c x := fun p hp c x k hk =>
      hts (c, x) (by
        simp only [Prog.calls, List.mem_filterMap]
        exact ⟨p, hp, by simp [hk]⟩)
    unfold exec
    simp only [Bool.false_eq_true, if_false]
    refine Sp.bind (Sp.allocRaw (P := fun _ => True) (.dict c0) (fun _ _ h _ => h)) (fun target => ?_)
    by_cases hbt : b ≤ target
    · refine Sp.bind (Sp.conseq (runPatches_sp hrec det target hbt ps c0 false hps)
        (fun st _ _ => PInv.init hne st) (fun _ _ h => h)) (fun r => ?_)
      split
      · exact Sp.raise
      · rename_i hr
        have hr2 : r.2 = false := by
          cases h2 : r.2 with
          | false => rfl
          | true => simp [h2] at hr
        refine Sp.bind (Sp.conseq (logAll_sp (P := fun _ => True) (fun _ _ h _ => h) (survivors c0 r.1))
          (fun st h => ⟨trivial, fun v hv => (h hr2).done v (List.mem_filter.1 hv).1⟩) (fun _ _ h => h)) (fun _ => ?_)
        refine Sp.bind (Sp.sealRaw (P := fun _ => True) target (fun _ _ h _ => h)) (fun _ => ?_)
        exact Sp.conseq (Sp.ret _) (fun _ h => h) (fun r st h => by rw [h.1]; exact Res.fresh _ hbt)
    · intro st h
      exact absurd h.2 hbt

end

end CattrsModel.Heap
