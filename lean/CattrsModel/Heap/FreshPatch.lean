import CattrsModel.Heap.FreshPrims
/-!
# Provenance logic: which entries of a TypedDict copy survive the patches

`NoExtras D c0 ps` — the syntactic side condition of the F34-free region for one `copyPatch` program: the keys
of the copied dict are pairwise distinct immutable objects, and every entry is either *covered* by a patch
(its key is deleted, or assigned the result of a sub-hook), or holds an immutable value, or holds a location
in `D` (a declared identity-typed key: a documented pass-through).
-/
namespace CattrsModel.Heap
open CattrsModel

def isLeafV : HVal → Bool
  | .leaf _ => true
  | .ref _ => false

/-- does the patch delete or assign the key? -/
def Patch.covers (p : Patch) (k : HVal) : Bool :=
  p.dels.any (fun s => keyIs k s) ||
    (match p.call with
     | some (_, _, key) => keyIs k key
     | none => false)

def covered (ps : List Patch) (k : HVal) : Bool := ps.any (fun p => p.covers k)

def KeysDistinct (kvs : List (HVal × HVal)) : Prop := kvs.Pairwise (fun a b => a.1 ≠ b.1)

def NoExtras (D : Nat → Prop) (c0 : List (HVal × HVal)) (ps : List Patch) : Prop :=
  KeysDistinct c0 ∧ ∀ kv, kv ∈ c0 → isLeafV kv.1 = true ∧
    (covered ps kv.1 = true ∨ isLeafV kv.2 = true ∨ ∃ a, kv.2 = .ref a ∧ D a)

theorem keyIs_iff {k : HVal} {s : String} : keyIs k s = true ↔ k = .leaf (.str s) := by
  simp [keyIs]

theorem KeysDistinct.delS {cur : List (HVal × HVal)} (h : KeysDistinct cur) (s : String) :
    KeysDistinct (dictDelS cur s) := List.Pairwise.filter _ h

theorem KeysDistinct.delAll : ∀ (ss : List String) {cur : List (HVal × HVal)}, KeysDistinct cur →
    KeysDistinct (dictDelAll cur ss)
  | [], _, h => h
  | s :: ss, cur, h => by
    show KeysDistinct (List.foldl dictDelS (dictDelS cur s) ss)
    exact KeysDistinct.delAll ss (h.delS s)

theorem mem_dictDelAll : ∀ (ss : List String) (cur : List (HVal × HVal)) (kv : HVal × HVal),
    kv ∈ dictDelAll cur ss → kv ∈ cur ∧ ∀ s, s ∈ ss → keyIs kv.1 s = false
  | [], _, _, h => ⟨h, fun s hs => by simp at hs⟩
  | s :: ss, cur, kv, h => by
    have h' : kv ∈ dictDelAll (dictDelS cur s) ss := h
    have ih := mem_dictDelAll ss _ kv h'
    have hm := List.mem_filter.1 ih.1
    refine ⟨hm.1, fun s' hs' => ?_⟩
    simp only [List.mem_cons] at hs'
    rcases hs' with rfl | hs'
    · simpa using hm.2
    · exact ih.2 s' hs'

theorem dictSetS_key (s : String) (y : HVal) : ∀ (cur : List (HVal × HVal)) (kv : HVal × HVal),
    kv ∈ dictSetS cur s y → kv.1 = .leaf (.str s) ∨ ∃ kv', kv' ∈ cur ∧ kv'.1 = kv.1
  | [], kv, h => by
    simp only [dictSetS, List.mem_singleton] at h
    subst h
    exact Or.inl rfl
  | (k', v') :: rest, kv, h => by
    simp only [dictSetS] at h
    split at h
    · simp only [List.mem_cons] at h
      rcases h with rfl | h
      · exact Or.inr ⟨(k', v'), List.mem_cons_self .., rfl⟩
      · exact Or.inr ⟨kv, List.mem_cons_of_mem _ h, rfl⟩
    · simp only [List.mem_cons] at h
      rcases h with rfl | h
      · exact Or.inr ⟨(k', v'), List.mem_cons_self .., rfl⟩
      · rcases dictSetS_key s y rest kv h with h | ⟨kv', hm, he⟩
        · exact Or.inl h
        · exact Or.inr ⟨kv', List.mem_cons_of_mem _ hm, he⟩

theorem KeysDistinct.setS (s : String) (y : HVal) : ∀ {cur : List (HVal × HVal)}, KeysDistinct cur →
    KeysDistinct (dictSetS cur s y)
  | [], _ => by simp [dictSetS, KeysDistinct]
  | (k', v') :: rest, h => by
    have h' := List.pairwise_cons.1 h
    simp only [dictSetS]
    split
    · exact List.pairwise_cons.2 ⟨fun kv hkv => h'.1 kv hkv, h'.2⟩
    · rename_i hk
      refine List.pairwise_cons.2 ⟨fun kv hkv => ?_, KeysDistinct.setS s y h'.2⟩
      rcases dictSetS_key s y rest kv hkv with he | ⟨kv', hm, he⟩
      · intro hkk
        exact hk (keyIs_iff.2 (hkk.trans he))
      · rw [← he]
        exact h'.1 kv' hm

/-- an entry of `cur[s] = y`: the assigned one, or an old entry under another key -/
theorem mem_dictSetS (s : String) (y : HVal) : ∀ {cur : List (HVal × HVal)}, KeysDistinct cur →
    ∀ kv, kv ∈ dictSetS cur s y → (kv.2 = y ∧ kv.1 = .leaf (.str s)) ∨ (kv ∈ cur ∧ keyIs kv.1 s = false)
  | [], _, kv, h => by
    simp only [dictSetS, List.mem_singleton] at h
    subst h
    exact Or.inl ⟨rfl, rfl⟩
  | (k', v') :: rest, hd, kv, h => by
    have h' := List.pairwise_cons.1 hd
    simp only [dictSetS] at h
    split at h
    · rename_i hk
      have hk' := keyIs_iff.1 hk
      simp only [List.mem_cons] at h
      rcases h with rfl | h
      · exact Or.inl ⟨rfl, hk'⟩
      · refine Or.inr ⟨List.mem_cons_of_mem _ h, ?_⟩
        have hne : k' ≠ kv.1 := h'.1 kv h
        cases hkk : keyIs kv.1 s with
        | false => rfl
        | true => exact absurd (hk'.trans (keyIs_iff.1 hkk).symm) hne
    · rename_i hk
      simp only [List.mem_cons] at h
      rcases h with rfl | h
      · exact Or.inr ⟨List.mem_cons_self .., by simpa using hk⟩
      · rcases mem_dictSetS s y h'.2 kv h with h | h
        · exact Or.inl h
        · exact Or.inr ⟨List.mem_cons_of_mem _ h.1, h.2⟩

section
variable {b : Nat} {D : Nat → Prop}

variable (b D) in
/-- what is known about the content `cur` of the copy while the patches `ps` are still to be applied -/
def PInv (ps : List Patch) (cur : List (HVal × HVal)) (st : St) : Prop :=
  KeysDistinct cur ∧ ∀ kv, kv ∈ cur → isLeafV kv.1 = true ∧ (Res b D kv.2 st ∨ covered ps kv.1 = true)

theorem PInv.tr {J : Nat → Prop} {ps cur} {st st' : St} (h : PInv b D ps cur st) (e : Tr b D J st st') :
    PInv b D ps cur st' :=
  ⟨h.1, fun kv hkv => ⟨(h.2 kv hkv).1, (h.2 kv hkv).2.imp (fun r => r.tr e) id⟩⟩

theorem PInv.init {c0 ps} (h : NoExtras D c0 ps) (st : St) : PInv b D ps c0 st := by
  refine ⟨h.1, fun kv hkv => ⟨(h.2 kv hkv).1, ?_⟩⟩
  rcases (h.2 kv hkv).2 with hc | hl | ⟨a, ha, hD⟩
  · exact Or.inr hc
  · left
    cases hv : kv.2 with
    | leaf o => exact Res.leaf _ _
    | ref a => rw [hv] at hl; simp [isLeafV] at hl
  · left
    intro a' ha'
    rw [ha] at ha'
    cases ha'
    exact Or.inr (Or.inr hD)

/-- after the deletions of the first patch -/
theorem PInv.dels {p : Patch} {ps cur} {st : St} (h : PInv b D (p :: ps) cur st) :
    KeysDistinct (dictDelAll cur p.dels) ∧ ∀ kv, kv ∈ dictDelAll cur p.dels → isLeafV kv.1 = true ∧
      (Res b D kv.2 st ∨ covered ps kv.1 = true ∨ ∃ c x key, p.call = some (c, x, key) ∧ keyIs kv.1 key = true) := by
  refine ⟨h.1.delAll _, fun kv hkv => ?_⟩
  have hm := mem_dictDelAll _ _ kv hkv
  refine ⟨(h.2 kv hm.1).1, ?_⟩
  rcases (h.2 kv hm.1).2 with hr | hc
  · exact Or.inl hr
  · right
    simp only [covered, List.any_cons, Bool.or_eq_true] at hc
    rcases hc with hc | hc
    · simp only [Patch.covers, Bool.or_eq_true, List.any_eq_true] at hc
      rcases hc with ⟨s, hs, hk⟩ | hc
      · rw [hm.2 s hs] at hk
        cases hk
      · right
        cases hcall : p.call with
        | none => rw [hcall] at hc; simp at hc
        | some cxk =>
          obtain ⟨c, x, key⟩ := cxk
          rw [hcall] at hc
          exact ⟨c, x, key, rfl, hc⟩
    · exact Or.inl hc

theorem PInv.delNone {p : Patch} {ps cur} {st : St} (hcall : p.call = none) (h : PInv b D (p :: ps) cur st) :
    PInv b D ps (dictDelAll cur p.dels) st := by
  have hd := h.dels
  refine ⟨hd.1, fun kv hkv => ⟨(hd.2 kv hkv).1, ?_⟩⟩
  rcases (hd.2 kv hkv).2 with hr | hc | ⟨c, x, key, hk, _⟩
  · exact Or.inl hr
  · exact Or.inr hc
  · rw [hcall] at hk
    cases hk

theorem PInv.setCall {p : Patch} {ps cur} {st : St} {c : Call} {x : HVal} {key : String} {y : HVal}
    (hcall : p.call = some (c, x, key)) (hy : Res b D y st) (h : PInv b D (p :: ps) cur st) :
    PInv b D ps (dictSetS (dictDelAll cur p.dels) key y) st := by
  have hd := h.dels
  refine ⟨hd.1.setS key y, fun kv hkv => ?_⟩
  rcases mem_dictSetS key y hd.1 kv hkv with ⟨h2, h1⟩ | ⟨hm, hk⟩
  · rw [h1, h2]
    exact ⟨rfl, Or.inl hy⟩
  · refine ⟨(hd.2 kv hm).1, ?_⟩
    rcases (hd.2 kv hm).2 with hr | hc | ⟨c', x', key', hk', hkk⟩
    · exact Or.inl hr
    · exact Or.inr hc
    · rw [hcall] at hk'
      simp only [Option.some.injEq, Prod.mk.injEq] at hk'
      rw [← hk'.2.2, hk] at hkk
      cases hkk

/-- once every patch has been applied, everything in the copy is accounted for -/
theorem PInv.done {cur} {st : St} (h : PInv b D [] cur st) :
    ∀ v, v ∈ (Cell.dict cur).children → Res b D v st := by
  intro v hv
  obtain ⟨kv, hkv, hx⟩ := mem_dict_children.1 hv
  have := h.2 kv hkv
  rcases hx with rfl | rfl
  · cases hk : kv.1 with
    | leaf o => exact Res.leaf _ _
    | ref a => rw [hk] at this; simp [isLeafV] at this
  · rcases this.2 with hr | hc
    · exact hr
    · simp [covered] at hc

end

end CattrsModel.Heap
